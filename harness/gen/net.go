// Package verifgen holds the seeded generators shared by the monitors: a test
// network (genesis with known keys), wallets and transaction builders. It only
// uses the exported API of common/ and crypto/.
package verifgen

import (
	"encoding/json"
	"fmt"
	"os"
	"path/filepath"

	"github.com/MixinNetwork/mixin/common"
	"github.com/MixinNetwork/mixin/crypto"
)

// Seed64 derives a 64-byte seed from a label.
func Seed64(label string) []byte {
	h1 := crypto.Blake3Hash([]byte("verif-seed-1:" + label))
	h2 := crypto.Blake3Hash([]byte("verif-seed-2:" + label))
	return append(h1[:], h2[:]...)
}

// Addr is a wallet address whose four keys are known.
func Addr(label string) common.Address {
	return common.NewAddressFromSeed(Seed64("addr:" + label))
}

// NodeAddr is an address in the form node signers and payees must have: the
// view key is derived from the public spend key.
func NodeAddr(label string) common.Address {
	spend := crypto.NewKeyFromSeed(Seed64("node:" + label))
	var a common.Address
	a.PrivateSpendKey = spend
	a.PublicSpendKey = spend.Public()
	a.PrivateViewKey = a.PublicSpendKey.DeterministicHashDerive()
	a.PublicViewKey = a.PrivateViewKey.Public()
	return a
}

// Net is a test network whose private keys are all owned by the harness.
type Net struct {
	Label      string
	Genesis    *common.Genesis
	Signers    []common.Address
	Payees     []common.Address
	Custodians []common.Address
	Custodian  common.Address // network custodian (signs deposits, approves custodian updates)
	NetworkId  crypto.Hash
	Epoch      uint64
	NodeIds    []crypto.Hash
}

type genesisNodeJSON struct {
	Signer    string `json:"signer"`
	Payee     string `json:"payee"`
	Custodian string `json:"custodian"`
	Balance   string `json:"balance"`
}

type genesisJSON struct {
	Epoch     int64             `json:"epoch"`
	Nodes     []genesisNodeJSON `json:"nodes"`
	Custodian string            `json:"custodian"`
}

// NewNet builds a genesis with n nodes (n >= 7) and writes genesis.json into dir.
func NewNet(label string, n int, epochUnix int64, dir string) (*Net, error) {
	net := &Net{Label: label}
	g := genesisJSON{Epoch: epochUnix}
	for i := 0; i < n; i++ {
		s := NodeAddr(fmt.Sprintf("%s:signer:%d", label, i))
		p := NodeAddr(fmt.Sprintf("%s:payee:%d", label, i))
		c := Addr(fmt.Sprintf("%s:nodecustodian:%d", label, i))
		net.Signers = append(net.Signers, s)
		net.Payees = append(net.Payees, p)
		net.Custodians = append(net.Custodians, c)
		g.Nodes = append(g.Nodes, genesisNodeJSON{Signer: s.String(), Payee: p.String(), Custodian: c.String(), Balance: "13439"})
	}
	net.Custodian = Addr(label + ":custodian")
	g.Custodian = net.Custodian.String()
	b, err := json.Marshal(g)
	if err != nil {
		return nil, err
	}
	path := filepath.Join(dir, "genesis.json")
	if err := os.WriteFile(path, b, 0o644); err != nil {
		return nil, err
	}
	gns, err := common.ReadGenesis(path)
	if err != nil {
		return nil, err
	}
	net.Genesis = gns
	net.NetworkId = gns.NetworkId()
	net.Epoch = gns.EpochTimestamp()
	for _, s := range net.Signers {
		net.NodeIds = append(net.NodeIds, s.Hash().ForNetwork(net.NetworkId))
	}
	return net, nil
}

// SignerKeyOf returns the private spend key of the node with the given id.
func (n *Net) SignerKeyOf(id crypto.Hash) *crypto.Key {
	for i, nid := range n.NodeIds {
		if nid == id {
			k := n.Signers[i].PrivateSpendKey
			return &k
		}
	}
	return nil
}
