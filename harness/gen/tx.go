package verifgen

import (
	"fmt"
	"math/big"
	"strings"

	"github.com/MixinNetwork/mixin/common"
	"github.com/MixinNetwork/mixin/crypto"
)

// Units builds an Integer from a number of 1e-8 units.
func Units(u *big.Int) common.Integer {
	s := u.String()
	if len(s) <= 8 {
		s = "0." + strings.Repeat("0", 8-len(s)) + s
	} else {
		s = s[:len(s)-8] + "." + s[len(s)-8:]
	}
	return common.NewIntegerFromString(s)
}

func UnitsU(u uint64) common.Integer { return Units(new(big.Int).SetUint64(u)) }

// UnitsOf returns the number of 1e-8 units of an Integer.
func UnitsOf(x common.Integer) *big.Int {
	s := strings.Replace(x.String(), ".", "", 1)
	u, ok := new(big.Int).SetString(s, 10)
	if !ok {
		panic("unparsable Integer text " + x.String())
	}
	return u
}

// Out is an output known to the harness, together with the addresses that own
// its keys (Owners[i] can sign for Keys[i]).
type Out struct {
	Hash   crypto.Hash
	Index  uint
	Asset  crypto.Hash
	Amount common.Integer
	Type   uint8
	Keys   []*crypto.Key
	Mask   crypto.Key
	Script common.Script
	Owners []common.Address
}

func (o *Out) UTXO() *common.UTXO {
	return &common.UTXO{
		Input:  common.Input{Hash: o.Hash, Index: o.Index},
		Output: common.Output{Type: o.Type, Amount: o.Amount, Keys: o.Keys, Mask: o.Mask, Script: o.Script},
		Asset:  o.Asset,
	}
}

func (o *Out) Threshold() int {
	if len(o.Script) == 3 {
		return int(o.Script[2])
	}
	return 0
}

func (o *Out) Ref() string { return fmt.Sprintf("%s:%d", o.Hash, o.Index) }

// PrivKey derives the one-time private key of key i of the output.
func (o *Out) PrivKey(i int) *crypto.Key {
	a := o.Owners[i]
	return crypto.DeriveGhostPrivateKey(&o.Mask, &a.PrivateViewKey, &a.PrivateSpendKey, uint64(o.Index))
}

// OutSpec describes an output to create.
type OutSpec struct {
	Type       uint8
	Owners     []common.Address
	Threshold  uint8
	Amount     common.Integer
	Seed       []byte // 64 bytes; mask seed
	Withdrawal *common.WithdrawalData
}

// BuildTx assembles an unsigned transaction spending ins into outs.
func BuildTx(asset crypto.Hash, ins []*Out, outs []OutSpec, extra []byte, refs []crypto.Hash) *common.Transaction {
	tx := common.NewTransactionV5(asset)
	for _, in := range ins {
		tx.AddInput(in.Hash, in.Index)
	}
	AddOutputs(tx, outs)
	tx.Extra = extra
	tx.References = refs
	return tx
}

func AddOutputs(tx *common.Transaction, outs []OutSpec) {
	for _, o := range outs {
		switch o.Type {
		case common.OutputTypeWithdrawalSubmit, common.OutputTypeWithdrawalClaim,
			common.OutputTypeNodePledge, common.OutputTypeNodeCancel, common.OutputTypeNodeAccept:
			tx.Outputs = append(tx.Outputs, &common.Output{Type: o.Type, Amount: o.Amount, Keys: []*crypto.Key{}, Withdrawal: o.Withdrawal})
		default:
			accs := make([]*common.Address, len(o.Owners))
			for i := range o.Owners {
				accs[i] = &o.Owners[i]
			}
			tx.AddOutputWithType(o.Type, accs, common.NewThresholdScript(o.Threshold), o.Amount, o.Seed)
		}
	}
}

// OutsOf returns the harness view of the outputs a transaction materializes.
func OutsOf(ver *common.VersionedTransaction, specs []OutSpec) []*Out {
	var res []*Out
	h := ver.PayloadHash()
	for i, o := range ver.Outputs {
		out := &Out{Hash: h, Index: uint(i), Asset: ver.Asset, Amount: o.Amount, Type: o.Type,
			Keys: o.Keys, Mask: o.Mask, Script: o.Script}
		if i < len(specs) {
			out.Owners = specs[i].Owners
		}
		res = append(res, out)
	}
	return res
}

// SignMap signs input i with the keys whose indexes are listed in signers[i].
func SignMap(tx *common.Transaction, ins []*Out, signers [][]int) *common.VersionedTransaction {
	ver := tx.AsVersioned()
	msg := ver.PayloadHash()
	for i, in := range ins {
		m := make(map[uint16]*crypto.Signature)
		for _, k := range signers[i] {
			sig := in.PrivKey(k).Sign(msg)
			m[uint16(k)] = &sig
		}
		ver.SignaturesMap = append(ver.SignaturesMap, m)
	}
	return ver
}

// FirstN returns signer index lists that satisfy each input's threshold with
// its first keys (at least one key so that batch verification is ready).
func FirstN(ins []*Out) [][]int {
	res := make([][]int, len(ins))
	for i, in := range ins {
		n := in.Threshold()
		if n == 0 && len(in.Keys) > 0 {
			n = 1
		}
		for k := 0; k < n && k < len(in.Keys); k++ {
			res[i] = append(res[i], k)
		}
	}
	return res
}

// SignAggregate produces an aggregate signature by the listed keys per input.
func SignAggregate(tx *common.Transaction, ins []*Out, signers [][]int, seed []byte) (*common.VersionedTransaction, error) {
	ver := tx.AsVersioned()
	msg := ver.PayloadHash()
	var pubs, privs []*crypto.Key
	var idx []int
	for i, in := range ins {
		for _, k := range signers[i] {
			idx = append(idx, len(pubs)+k)
			privs = append(privs, in.PrivKey(k))
		}
		pubs = append(pubs, in.Keys...)
	}
	sig, err := crypto.AggregateSign(privs, pubs, idx, seed, msg)
	if err != nil {
		return nil, err
	}
	as := &common.AggregatedSignature{Signers: idx}
	copy(as.Signature[:], sig[:])
	ver.AggregatedSignature = as
	return ver, nil
}

// Deposit builds a custodian-signed deposit transaction.
func Deposit(custodian *common.Address, asset, chain crypto.Hash, assetKey, txid string, index uint64, amount common.Integer, to OutSpec) *common.VersionedTransaction {
	tx := common.NewTransactionV5(asset)
	tx.AddDepositInput(&common.DepositData{Chain: chain, AssetKey: assetKey, Transaction: txid, Index: index, Amount: amount})
	to.Amount = amount
	AddOutputs(tx, []OutSpec{to})
	ver := tx.AsVersioned()
	sig := custodian.PrivateSpendKey.Sign(ver.PayloadHash())
	ver.SignaturesMap = []map[uint16]*crypto.Signature{{0: &sig}}
	return ver
}

// Reparse round-trips a transaction through its encoding so that the object
// handed to the code under test is exactly what a peer would decode.
func Reparse(ver *common.VersionedTransaction) (*common.VersionedTransaction, error) {
	return common.UnmarshalVersionedTransaction(ver.Marshal())
}
