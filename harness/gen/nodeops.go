package verifgen

import (
	"fmt"
	"math/big"

	"github.com/MixinNetwork/mixin/common"
	"github.com/MixinNetwork/mixin/crypto"
)

// Candidate is a prospective kernel node whose keys the harness owns.
type Candidate struct {
	Signer common.Address
	Payee  common.Address
	Funder common.Address // owner of the pledge's funding output (gets the refund on cancel)
}

func NewCandidate(label string) *Candidate {
	return &Candidate{Signer: NodeAddr(label + ":signer"), Payee: NodeAddr(label + ":payee"), Funder: Addr(label + ":funder")}
}

func (c *Candidate) Extra() []byte {
	return append(append([]byte{}, c.Signer.PublicSpendKey[:]...), c.Payee.PublicSpendKey[:]...)
}

// Pledge spends a single-key script output of exactly the pledge amount owned
// by the candidate's funder.
func Pledge(c *Candidate, funding *Out, refs []crypto.Hash) *common.VersionedTransaction {
	tx := common.NewTransactionV5(common.XINAssetId)
	tx.AddInput(funding.Hash, funding.Index)
	tx.Outputs = append(tx.Outputs, &common.Output{Type: common.OutputTypeNodePledge, Amount: funding.Amount, Keys: []*crypto.Key{}})
	tx.Extra = c.Extra()
	tx.References = refs
	return SignMap(tx, []*Out{funding}, [][]int{{0}})
}

// Accept turns the pledge output into an accept output; signed by the node signer.
func Accept(c *Candidate, pledge *common.VersionedTransaction, refs []crypto.Hash) *common.VersionedTransaction {
	tx := common.NewTransactionV5(common.XINAssetId)
	tx.AddInput(pledge.PayloadHash(), 0)
	tx.Outputs = append(tx.Outputs, &common.Output{Type: common.OutputTypeNodeAccept, Amount: pledge.Outputs[0].Amount, Keys: []*crypto.Key{}})
	tx.Extra = c.Extra()
	tx.References = refs
	ver := tx.AsVersioned()
	sig := c.Signer.PrivateSpendKey.Sign(ver.PayloadHash())
	ver.SignaturesMap = []map[uint16]*crypto.Signature{{0: &sig}}
	return ver
}

// Cancel refunds 99% of the pledge to the funder; signed with the one-time key
// of the pledge's funding output.
func Cancel(c *Candidate, pledge *common.VersionedTransaction, funding *Out, seed []byte, refs []crypto.Hash) *common.VersionedTransaction {
	tx := common.NewTransactionV5(common.XINAssetId)
	tx.AddInput(pledge.PayloadHash(), 0)
	total := UnitsOf(pledge.Outputs[0].Amount)
	fee := new(big.Int).Div(total, big.NewInt(100))
	rest := new(big.Int).Sub(total, fee)
	tx.Outputs = append(tx.Outputs, &common.Output{Type: common.OutputTypeNodeCancel, Amount: Units(fee), Keys: []*crypto.Key{}})
	tx.AddOutputWithType(common.OutputTypeScript, []*common.Address{&c.Funder}, common.NewThresholdScript(1), Units(rest), seed)
	tx.Extra = append(c.Extra(), c.Funder.PrivateViewKey[:]...)
	tx.References = refs
	ver := tx.AsVersioned()
	sig := funding.PrivKey(0).Sign(ver.PayloadHash())
	ver.SignaturesMap = []map[uint16]*crypto.Signature{{0: &sig}}
	return ver
}

// Remove spends an accept output into a removal output for the payee (no signatures needed).
func Remove(signerSpend, payeeSpend crypto.Key, payee *common.Address, accept *common.VersionedTransaction, seed []byte, refs []crypto.Hash) *common.VersionedTransaction {
	tx := common.NewTransactionV5(common.XINAssetId)
	tx.AddInput(accept.PayloadHash(), 0)
	tx.Extra = append(append([]byte{}, signerSpend[:]...), payeeSpend[:]...)
	tx.AddOutputWithType(common.OutputTypeNodeRemove, []*common.Address{payee}, common.NewThresholdScript(1), accept.Outputs[0].Amount, seed)
	tx.References = refs
	return tx.AsVersioned()
}

// Mint builds a universal mint with the given outputs (any amount: Validate does not know the schedule).
func Mint(batch uint64, amount common.Integer, outs []OutSpec, signer *common.Address, refs []crypto.Hash) *common.VersionedTransaction {
	tx := common.NewTransactionV5(common.XINAssetId)
	tx.AddUniversalMintInput(batch, amount)
	AddOutputs(tx, outs)
	tx.References = refs
	ver := tx.AsVersioned()
	sig := signer.PrivateSpendKey.Sign(ver.PayloadHash())
	ver.SignaturesMap = []map[uint16]*crypto.Signature{{0: &sig}}
	return ver
}

// WithdrawalClaim claims a finalized withdrawal submission: XIN fee output plus
// change, custodian signature over the claim data in the extra.
func WithdrawalClaim(custodian *common.Address, submit crypto.Hash, ins []*Out, change []OutSpec, fee common.Integer, note string) *common.VersionedTransaction {
	tx := common.NewTransactionV5(common.XINAssetId)
	for _, in := range ins {
		tx.AddInput(in.Hash, in.Index)
	}
	tx.Outputs = append(tx.Outputs, &common.Output{Type: common.OutputTypeWithdrawalClaim, Amount: fee, Keys: []*crypto.Key{}})
	AddOutputs(tx, change)
	data := []byte(fmt.Sprintf("claim:%s:%s", submit, note))
	sig := custodian.PrivateSpendKey.Sign(crypto.Blake3Hash(data))
	tx.Extra = append(sig[:], data...)
	tx.References = []crypto.Hash{submit}
	return SignMap(tx, ins, FirstN(ins))
}
