package verifgen

import (
	"fmt"
	"math/big"
	"math/rand"

	"github.com/MixinNetwork/mixin/common"
	"github.com/MixinNetwork/mixin/crypto"
)

// AssetInfo describes an asset the harness deposits.
type AssetInfo struct {
	Id    crypto.Hash
	Chain crypto.Hash
	Key   string
}

func Assets() []AssetInfo {
	return []AssetInfo{
		{common.XINAssetId, common.XINAsset.Chain, common.XINAsset.AssetKey},
		{common.BitcoinAssetId, common.BitcoinAssetId, "c6d0c728-2624-429b-8e0d-d9d19b6592fa"},
		{common.EthereumAssetId, common.EthereumAssetId, "0x0000000000000000000000000000000000000000"},
		{crypto.Sha256Hash([]byte("verif-random-asset")), common.EthereumAssetId, "0x1111111111111111111111111111111111111111"},
	}
}

// Wallet is the harness-side view of spendable outputs. It is independent of
// any store: the caller tells it which transactions were finalized.
type Wallet struct {
	Label     string
	Rng       *rand.Rand
	Custodian *common.Address
	Addrs     []common.Address
	Outs      []*Out
	nonce     int
}

func NewWallet(label string, rng *rand.Rand, custodian *common.Address, naddr int) *Wallet {
	w := &Wallet{Label: label, Rng: rng, Custodian: custodian}
	for i := 0; i < naddr; i++ {
		w.Addrs = append(w.Addrs, Addr(fmt.Sprintf("%s:wallet:%d", label, i)))
	}
	return w
}

func (w *Wallet) Seed() []byte {
	w.nonce++
	return Seed64(fmt.Sprintf("%s:mask:%d", w.Label, w.nonce))
}

// Spec makes a script output spec with 1..maxKeys owners and a random threshold >= 1.
func (w *Wallet) Spec(amount common.Integer, maxKeys int) OutSpec {
	nk := 1 + w.Rng.Intn(maxKeys)
	perm := w.Rng.Perm(len(w.Addrs))
	if nk > len(perm) {
		nk = len(perm)
	}
	owners := make([]common.Address, nk)
	for i := 0; i < nk; i++ {
		owners[i] = w.Addrs[perm[i]]
	}
	thr := uint8(1 + w.Rng.Intn(nk))
	return OutSpec{Type: common.OutputTypeScript, Owners: owners, Threshold: thr, Amount: amount, Seed: w.Seed()}
}

// Deposit builds a valid custodian-signed deposit.
func (w *Wallet) Deposit(a AssetInfo, units *big.Int) (*common.VersionedTransaction, []OutSpec) {
	w.nonce++
	spec := w.Spec(Units(units), 3)
	tx := Deposit(w.Custodian, a.Id, a.Chain, a.Key, fmt.Sprintf("0xdep-%s-%06d", w.Label, w.nonce), uint64(w.Rng.Intn(4)), Units(units), spec)
	return tx, []OutSpec{spec}
}

// Transfer spends up to nin unspent outputs of one asset into nout outputs.
// reserve=true removes the inputs from the wallet immediately (so the same
// output is not offered to two pending transactions).
func (w *Wallet) Transfer(nin, nout int, reserve bool) (*common.VersionedTransaction, []OutSpec, []*Out) {
	ins := w.Pick(nin)
	if len(ins) == 0 {
		return nil, nil, nil
	}
	total := new(big.Int)
	for _, o := range ins {
		total.Add(total, UnitsOf(o.Amount))
	}
	parts := Split(w.Rng, total, nout)
	var specs []OutSpec
	for _, p := range parts {
		specs = append(specs, w.Spec(Units(p), 3))
	}
	raw := BuildTx(ins[0].Asset, ins, specs, nil, nil)
	tx := SignMap(raw, ins, FirstN(ins))
	if reserve {
		w.Remove(ins)
	}
	return tx, specs, ins
}

func (w *Wallet) Remove(ins []*Out) {
	spent := map[string]bool{}
	for _, o := range ins {
		spent[o.Ref()] = true
	}
	var keep []*Out
	for _, o := range w.Outs {
		if !spent[o.Ref()] {
			keep = append(keep, o)
		}
	}
	w.Outs = keep
}

// Applied records a finalized transaction: inputs leave, owned script outputs enter.
func (w *Wallet) Applied(tx *common.VersionedTransaction, specs []OutSpec) {
	spent := map[string]bool{}
	for _, in := range tx.Inputs {
		if in.Deposit == nil && in.Mint == nil && len(in.Genesis) == 0 {
			spent[fmt.Sprintf("%s:%d", in.Hash, in.Index)] = true
		}
	}
	var keep []*Out
	for _, o := range w.Outs {
		if !spent[o.Ref()] {
			keep = append(keep, o)
		}
	}
	w.Outs = keep
	for _, o := range OutsOf(tx, specs) {
		if o.Type == common.OutputTypeScript && len(o.Owners) == len(o.Keys) && len(o.Keys) > 0 {
			w.Outs = append(w.Outs, o)
		}
	}
}

// Pick returns up to n distinct unspent outputs of one (random) asset.
func (w *Wallet) Pick(n int) []*Out {
	if len(w.Outs) == 0 {
		return nil
	}
	first := w.Outs[w.Rng.Intn(len(w.Outs))]
	var same []*Out
	for _, o := range w.Outs {
		if o.Asset == first.Asset {
			same = append(same, o)
		}
	}
	w.Rng.Shuffle(len(same), func(i, j int) { same[i], same[j] = same[j], same[i] })
	if n > len(same) {
		n = len(same)
	}
	return same[:n]
}

// Split divides total units into k positive parts (fewer if total < k).
func Split(rng *rand.Rand, total *big.Int, k int) []*big.Int {
	if total.Cmp(big.NewInt(int64(k))) < 0 {
		k = int(total.Int64())
	}
	if k < 1 {
		k = 1
	}
	parts := make([]*big.Int, k)
	rest := new(big.Int).Set(total)
	for i := 0; i < k-1; i++ {
		max := new(big.Int).Sub(rest, big.NewInt(int64(k-1-i)))
		p := new(big.Int).Rand(rng, max)
		p.Add(p, big.NewInt(1))
		if p.Cmp(max) > 0 {
			p.Set(max)
		}
		parts[i] = p
		rest.Sub(rest, p)
	}
	parts[k-1] = rest
	return parts
}

// TransferWithdrawal is Transfer whose first output is a withdrawal submission.
func (w *Wallet) TransferWithdrawal(nin, nout int, reserve bool) (*common.VersionedTransaction, []OutSpec, []*Out) {
	ins := w.Pick(nin)
	if len(ins) == 0 {
		return nil, nil, nil
	}
	total := new(big.Int)
	for _, o := range ins {
		total.Add(total, UnitsOf(o.Amount))
	}
	parts := Split(w.Rng, total, nout)
	var specs []OutSpec
	for i, p := range parts {
		if i == 0 {
			specs = append(specs, OutSpec{Type: common.OutputTypeWithdrawalSubmit, Amount: Units(p),
				Withdrawal: &common.WithdrawalData{Address: fmt.Sprintf("addr-%d", w.nonce), Tag: "t"}})
			continue
		}
		specs = append(specs, w.Spec(Units(p), 3))
	}
	raw := BuildTx(ins[0].Asset, ins, specs, nil, nil)
	tx := SignMap(raw, ins, FirstN(ins))
	if reserve {
		w.Remove(ins)
	}
	return tx, specs, ins
}
