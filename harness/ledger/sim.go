// Package verifledger is the storage-level ledger simulator (W-ledger): a real
// BadgerStore loaded with the harness' own genesis, evolved only by finalizing
// transactions through the store's public write path, next to an independent
// reference ledger kept in plain maps and math/big.
package verifledger

import (
	"fmt"
	"math/big"
	"os"
	"sort"

	"github.com/MixinNetwork/mixin/common"
	"github.com/MixinNetwork/mixin/config"
	"github.com/MixinNetwork/mixin/crypto"
	"github.com/MixinNetwork/mixin/storage"
	"github.com/MixinNetwork/mixin/verifgen"
)

// NewCustom returns a node configuration with long cache TTLs so that Badger
// TTL expiry cannot interfere with a run.
func NewCustom(signer crypto.Key) *config.Custom {
	c := &config.Custom{}
	c.Node.Signer = signer
	c.Node.SignerStr = signer.String()
	c.Node.KernelOprationPeriod = 700
	c.Node.MemoryCacheSize = 16
	c.Node.CacheTTL = 3600 * 24
	return c
}

type Sim struct {
	LastWriteCommits int // separate Badger commits made by the latest WriteSnapshot call of Finalize
	Net              *verifgen.Net
	Custom           *config.Custom
	Store            *storage.BadgerStore
	Dir              string

	Chain crypto.Hash // chain all simulated snapshots are written to (node 0)
	Topo  uint64
	Clock uint64 // timestamp of the last written snapshot

	LastConsensusTx crypto.Hash
	Ref             *RefLedger
}

// NewSim creates dir, a genesis with n nodes and a loaded store.
func NewSim(label string, n int, epochUnix int64, dir string) (*Sim, error) {
	if err := os.MkdirAll(dir, 0o755); err != nil {
		return nil, err
	}
	net, err := verifgen.NewNet(label, n, epochUnix, dir)
	if err != nil {
		return nil, err
	}
	s := &Sim{Net: net, Dir: dir, Custom: NewCustom(net.Signers[0].PrivateSpendKey), Chain: net.NodeIds[0]}
	if err := s.Open(); err != nil {
		return nil, err
	}
	rounds, snaps, txs, err := net.Genesis.BuildSnapshots()
	if err != nil {
		return nil, err
	}
	if err := s.Store.LoadGenesis(rounds, snaps, txs); err != nil {
		return nil, err
	}
	s.Topo = uint64(len(snaps) - 1)
	s.Clock = net.Epoch + 1
	s.LastConsensusTx = txs[len(txs)-1].PayloadHash()
	s.Ref = NewRefLedger()
	for _, tx := range txs {
		s.Ref.ApplyGenesis(tx)
	}
	return s, nil
}

func (s *Sim) Open() error {
	st, err := storage.NewBadgerStore(s.Custom, s.Dir)
	if err != nil {
		return err
	}
	s.Store = st
	return nil
}

func (s *Sim) Close() {
	if s.Store != nil {
		_ = s.Store.Close()
		s.Store = nil
	}
}

// Admit is the local-proposal path of the node for one transaction: validate
// against the current ledger, reserve inputs and persist the body.
func (s *Sim) Admit(tx *common.VersionedTransaction, ts uint64) error {
	if err := tx.Validate(s.Store, ts, false); err != nil {
		return err
	}
	if err := tx.LockInputs(s.Store, false); err != nil {
		return fmt.Errorf("lock: %w", err)
	}
	return s.Store.WriteTransaction(tx)
}

// AdmitFinal is the finalization path (inputs taken over from pending spenders).
func (s *Sim) AdmitFinal(tx *common.VersionedTransaction, ts uint64) error {
	if err := tx.Validate(s.Store, ts, true); err != nil {
		return err
	}
	if err := tx.LockInputs(s.Store, true); err != nil {
		return fmt.Errorf("lock: %w", err)
	}
	return s.Store.WriteTransaction(tx)
}

// NextTime advances the simulated snapshot clock.
func (s *Sim) NextTime(delta uint64) uint64 {
	if delta == 0 {
		delta = 1
	}
	return s.Clock + delta
}

// BuildSnapshot makes the next snapshot of the simulated chain for txs at ts.
func (s *Sim) BuildSnapshot(hashes []crypto.Hash, ts uint64) (*common.SnapshotWithTopologicalOrder, error) {
	head, err := s.Store.ReadRound(s.Chain)
	if err != nil {
		return nil, err
	}
	if head == nil {
		return nil, fmt.Errorf("no head round for %s", s.Chain)
	}
	snap := &common.Snapshot{
		Version:     common.SnapshotVersionCommonEncoding,
		NodeId:      s.Chain,
		RoundNumber: head.Number,
		References:  head.References,
		Timestamp:   ts,
	}
	hs := append([]crypto.Hash{}, hashes...)
	sort.Slice(hs, func(i, j int) bool { return string(hs[i][:]) < string(hs[j][:]) })
	snap.Transactions = hs
	snap.Signature = &crypto.CosiSignature{Mask: 1}
	snap.Hash = snap.PayloadHash()
	return &common.SnapshotWithTopologicalOrder{Snapshot: snap, TopologicalOrder: s.Topo + 1}, nil
}

// Finalize writes one finalized snapshot holding the (already admitted)
// transactions. A panic inside the store is returned as an error with
// panicked=true. On success the reference ledger is updated.
func (s *Sim) Finalize(txs []*common.VersionedTransaction, ts uint64) (snap *common.SnapshotWithTopologicalOrder, panicked bool, err error) {
	hashes := make([]crypto.Hash, len(txs))
	for i, tx := range txs {
		hashes[i] = tx.PayloadHash()
	}
	snap, err = s.BuildSnapshot(hashes, ts)
	if err != nil {
		return nil, false, err
	}
	func() {
		defer func() {
			if e := recover(); e != nil {
				panicked = true
				err = fmt.Errorf("panic: %v", e)
			}
		}()
		v0 := s.Store.VerifCommitVersion()
		err = s.Store.WriteSnapshot(snap, []crypto.Hash{s.Chain})
		s.LastWriteCommits = int(s.Store.VerifCommitVersion() - v0)
	}()
	if err != nil {
		return snap, panicked, err
	}
	s.Topo++
	s.Clock = ts
	for _, tx := range txs {
		s.Ref.ApplyFinalized(tx)
	}
	if len(txs) == 1 && !txs[0].IsSnapshotBatchable() {
		func() {
			defer func() {
				if e := recover(); e != nil {
					panicked = true
					err = fmt.Errorf("consensus marker panic: %v", e)
				}
			}()
			err = s.Store.WriteConsensusSnapshot(snap.Snapshot, txs[0], nil)
		}()
		if err == nil {
			s.LastConsensusTx = txs[0].PayloadHash()
		}
	}
	return snap, panicked, err
}

// ---------------------------------------------------------------------------

// RefOut is the reference ledger's view of one materialized output.
type RefOut struct {
	Hash    crypto.Hash
	Index   uint
	Asset   crypto.Hash
	Units   *big.Int
	Type    uint8
	SpentBy crypto.Hash // finalized spender
}

// RefLedger is the independent reference ledger: it is updated from finalized
// transactions only, with its own arithmetic.
type RefLedger struct {
	Outs      map[string]*RefOut
	Finalized map[crypto.Hash]bool
	Supply    map[crypto.Hash]*big.Int // genesis + deposits + mints - withdrawal submissions
	Order     []crypto.Hash
}

func NewRefLedger() *RefLedger {
	return &RefLedger{Outs: map[string]*RefOut{}, Finalized: map[crypto.Hash]bool{}, Supply: map[crypto.Hash]*big.Int{}}
}

func RefKey(h crypto.Hash, i uint) string { return fmt.Sprintf("%s:%d", h, i) }

func (l *RefLedger) supply(a crypto.Hash) *big.Int {
	if l.Supply[a] == nil {
		l.Supply[a] = new(big.Int)
	}
	return l.Supply[a]
}

func materialized(t uint8) bool {
	switch t {
	case common.OutputTypeWithdrawalSubmit, common.OutputTypeCustodianSlashNodes:
		return false
	}
	return true
}

func (l *RefLedger) addOutputs(tx *common.VersionedTransaction) {
	h := tx.PayloadHash()
	for i, o := range tx.Outputs {
		if !materialized(o.Type) {
			continue
		}
		l.Outs[RefKey(h, uint(i))] = &RefOut{Hash: h, Index: uint(i), Asset: tx.Asset, Units: verifgen.UnitsOf(o.Amount), Type: o.Type}
	}
}

func (l *RefLedger) ApplyGenesis(tx *common.VersionedTransaction) {
	h := tx.PayloadHash()
	if l.Finalized[h] {
		return
	}
	l.Finalized[h] = true
	l.Order = append(l.Order, h)
	l.addOutputs(tx)
	for _, o := range tx.Outputs {
		l.supply(tx.Asset).Add(l.supply(tx.Asset), verifgen.UnitsOf(o.Amount))
	}
}

// ApplyFinalized applies a finalized transaction once (first finalization wins).
func (l *RefLedger) ApplyFinalized(tx *common.VersionedTransaction) {
	h := tx.PayloadHash()
	if l.Finalized[h] {
		return
	}
	l.Finalized[h] = true
	l.Order = append(l.Order, h)
	l.addOutputs(tx)
	sup := l.supply(tx.Asset)
	switch {
	case tx.Inputs[0].Deposit != nil:
		sup.Add(sup, verifgen.UnitsOf(tx.Inputs[0].Deposit.Amount))
	case tx.Inputs[0].Mint != nil:
		sup.Add(sup, verifgen.UnitsOf(tx.Inputs[0].Mint.Amount))
	default:
		for _, in := range tx.Inputs {
			if o := l.Outs[RefKey(in.Hash, in.Index)]; o != nil {
				o.SpentBy = h
			}
		}
		for _, o := range tx.Outputs {
			if o.Type == common.OutputTypeWithdrawalSubmit {
				sup.Sub(sup, verifgen.UnitsOf(o.Amount))
			}
		}
	}
}

// Unspent returns the sum of unconsumed outputs per asset.
func (l *RefLedger) Unspent() map[crypto.Hash]*big.Int {
	res := map[crypto.Hash]*big.Int{}
	for _, o := range l.Outs {
		if o.SpentBy.HasValue() {
			continue
		}
		if res[o.Asset] == nil {
			res[o.Asset] = new(big.Int)
		}
		res[o.Asset].Add(res[o.Asset], o.Units)
	}
	return res
}
