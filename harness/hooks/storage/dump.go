//go:build verif

package storage

import (
	"bytes"

	"github.com/dgraph-io/badger/v4"
)

// VerifDump returns a consistent copy (one Badger read transaction) of every
// key/value of the graph database whose key starts with one of the prefixes
// (all keys when no prefix is given). Add-only accessor for the monitors.
func (s *BadgerStore) VerifDump(prefixes ...string) map[string][]byte {
	return verifDump(s.snapshotsDB, prefixes...)
}

// VerifDumpCache is VerifDump for the cache database.
func (s *BadgerStore) VerifDumpCache(prefixes ...string) map[string][]byte {
	return verifDump(s.cacheDB, prefixes...)
}

func verifDump(db *badger.DB, prefixes ...string) map[string][]byte {
	res := make(map[string][]byte)
	_ = db.View(func(txn *badger.Txn) error {
		opts := badger.DefaultIteratorOptions
		it := txn.NewIterator(opts)
		defer it.Close()
		for it.Rewind(); it.Valid(); it.Next() {
			item := it.Item()
			k := item.KeyCopy(nil)
			if len(prefixes) > 0 {
				ok := false
				for _, p := range prefixes {
					if bytes.HasPrefix(k, []byte(p)) {
						ok = true
						break
					}
				}
				if !ok {
					continue
				}
			}
			v, err := item.ValueCopy(nil)
			if err != nil {
				return err
			}
			res[string(k)] = v
		}
		return nil
	})
	return res
}

// VerifView runs f with a getter bound to one read transaction of the graph
// database, so multi-key observations are atomic.
func (s *BadgerStore) VerifView(f func(get func(key []byte) ([]byte, bool))) {
	_ = s.snapshotsDB.View(func(txn *badger.Txn) error {
		f(func(key []byte) ([]byte, bool) {
			item, err := txn.Get(key)
			if err != nil {
				return nil, false
			}
			v, err := item.ValueCopy(nil)
			if err != nil {
				return nil, false
			}
			return v, true
		})
		return nil
	})
}

// VerifCommitVersion is Badger's commit timestamp of the graph database: it advances by one with every committed
// read-write transaction, so the difference around a store call is the number of separate commits the call made.
func (s *BadgerStore) VerifCommitVersion() uint64 {
	return s.snapshotsDB.MaxVersion()
}
