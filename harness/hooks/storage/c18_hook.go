//go:build verif

package storage

import (
	"github.com/MixinNetwork/mixin/common"
	"github.com/MixinNetwork/mixin/crypto"
)

// VerifC18ComputeRoundHash exposes the startup graph validator's private round
// hash implementation (badger_validation.go:computeRoundHash) to the C18
// monitor. Add-only accessor; it sorts the supplied slice in place exactly as
// the validator does.
func VerifC18ComputeRoundHash(nodeId crypto.Hash, number uint64, snapshots []*common.SnapshotWithTopologicalOrder) (uint64, uint64, crypto.Hash) {
	return computeRoundHash(nodeId, number, snapshots)
}
