//go:build verif

package p2p

// VerifParse exposes the peer message parser to monitors in other packages.
func VerifParse(version uint8, data []byte) (*PeerMessage, error) {
	return parseNetworkMessage(version, data)
}
