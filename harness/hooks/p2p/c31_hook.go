//go:build verif

package p2p

import (
	"bytes"
	"context"
	"encoding/binary"
	"fmt"
	"runtime"
	"time"

	"github.com/MixinNetwork/mixin/crypto"
)

// VerifAttachSink registers a consumer neighbour with the given id whose rings
// the harness drains, so every message the node builds for that peer is
// captured byte for byte. Add-only accessor for the monitors.
func (me *Peer) VerifAttachSink(id crypto.Hash) (drain func() [][]byte) {
	sink := NewPeer(nil, id, "verif-sink", false)
	me.consumers.Set(id, sink)
	return func() [][]byte {
		var out [][]byte
		for {
			select {
			case m := <-sink.highRing:
				out = append(out, m.data)
			case m := <-sink.normalRing:
				out = append(out, m.data)
			default:
				return out
			}
		}
	}
}

// VerifRelayWrap exposes the relay wrapper (it panics on oversized messages).
func (me *Peer) VerifRelayWrap(to crypto.Hash, msg []byte) []byte {
	return me.buildRelayMessage(to, msg)
}

type VerifFrameResult struct {
	Case      string
	Size      int
	SendErr   string
	RecvErr   string
	Equal     bool
	AllocByte uint64 // bytes allocated by the receiver while handling the frame
}

// VerifFramingProbe runs frames of the given sizes over a QUIC loopback pair
// (consumer -> relayer), plus forged headers announcing oversized frames.
func VerifFramingProbe(sizes []int, fill func(n int) []byte) ([]VerifFrameResult, error) {
	relayer, err := NewQuicRelayer("127.0.0.1:0")
	if err != nil {
		return nil, err
	}
	defer relayer.Close()
	addr := relayer.listener.Addr().String()
	ctx, cancel := context.WithTimeout(context.Background(), 120*time.Second)
	defer cancel()
	type acc struct {
		c   Client
		err error
	}
	ch := make(chan acc, 1)
	go func() {
		c, err := relayer.Accept(ctx)
		ch <- acc{c, err}
	}()
	consumer, err := NewQuicConsumer(ctx, addr)
	if err != nil {
		return nil, err
	}
	defer consumer.Close("verif")
	// the stream only becomes visible to the acceptor once data flows
	if err := consumer.Send([]byte{1}); err != nil {
		return nil, err
	}
	a := <-ch
	if a.err != nil {
		return nil, a.err
	}
	server := a.c.(*QuicClient)
	defer server.Close("verif")
	if m, err := server.Receive(); err != nil || len(m.Data) != 1 {
		return nil, fmt.Errorf("warm-up frame: %v", err)
	}
	var out []VerifFrameResult
	type heldMsg struct {
		m    *TransportMessage
		data []byte
		idx  int
	}
	var held []heldMsg
	for _, n := range sizes {
		res := VerifFrameResult{Case: "frame", Size: n}
		data := fill(n)
		if n < 1 || n > TransportMessageMaxSize {
			// must be refused locally; nothing reaches the wire
			if serr := consumer.Send(data); serr != nil {
				res.SendErr = serr.Error()
			}
			out = append(out, res)
			continue
		}
		type rcv struct {
			m   *TransportMessage
			err error
		}
		rc := make(chan rcv, 1)
		go func() { // the receiver must drain while the sender writes (flow control)
			m, err := server.Receive()
			rc <- rcv{m, err}
		}()
		serr := consumer.Send(data)
		if serr != nil {
			res.SendErr = serr.Error()
		}
		got := <-rc
		if got.err != nil {
			res.RecvErr = got.err.Error()
		} else {
			res.Equal = int(got.m.Size) == len(data) && bytes.Equal(got.m.Data, data) && got.m.Version == TransportMessageVersion
			if res.Equal && n <= 1<<22 {
				held = append(held, heldMsg{got.m, data, len(out)})
			}
		}
		out = append(out, res)
	}
	// a message that was handed out stays what it was when later frames arrive on the same connection
	for _, h := range held {
		if !bytes.Equal(h.m.Data, h.data) {
			out[h.idx].Equal = false
			out[h.idx].RecvErr = "the received message changed after later frames arrived on the connection"
		}
	}
	// frames whose bytes reach the receiver in pieces (the 6-byte header split after k bytes, a pause, then the rest;
	// the body in two pieces as well): what a congested or re-packetised path does to a stream
	for i, n := range sizes {
		if n < 1 || n > 1<<20 || i%2 == 1 {
			continue
		}
		for _, k := range []int{1, 3, 5} {
			res := VerifFrameResult{Case: "fragmented-frame", Size: n}
			data := fill(n)
			header := []byte{TransportMessageVersion, 0, 0, 0, 0, 0}
			binary.BigEndian.PutUint32(header[2:], uint32(len(data)))
			type rcv struct {
				m   *TransportMessage
				err error
			}
			rc := make(chan rcv, 1)
			go func() {
				m, err := server.Receive()
				rc <- rcv{m, err}
			}()
			_ = consumer.stream.SetWriteDeadline(time.Now().Add(WriteDeadline))
			pieces := [][]byte{header[:k], header[k:], data[:len(data)/2], data[len(data)/2:]}
			for pi, piece := range pieces {
				if len(piece) == 0 {
					continue
				}
				if _, werr := consumer.stream.Write(piece); werr != nil {
					res.SendErr = werr.Error()
					break
				}
				if pi < len(pieces)-1 {
					time.Sleep(40 * time.Millisecond)
				}
			}
			got := <-rc
			if got.err != nil {
				res.RecvErr = got.err.Error()
			} else {
				res.Equal = int(got.m.Size) == len(data) && bytes.Equal(got.m.Data, data) && got.m.Version == TransportMessageVersion
			}
			out = append(out, res)
			if got.err != nil {
				// the receiver lost frame sync: nothing more can be learnt on this stream
				return out, nil
			}
		}
	}
	// forged headers: announce more than the maximum, send no body
	for _, announced := range []uint32{TransportMessageMaxSize + 1, TransportMessageMaxSize * 2, 1 << 31, 0xffffffff} {
		res := VerifFrameResult{Case: "forged-header", Size: int(announced)}
		header := []byte{TransportMessageVersion, 0, 0, 0, 0, 0}
		binary.BigEndian.PutUint32(header[2:], announced)
		_ = consumer.stream.SetWriteDeadline(time.Now().Add(WriteDeadline))
		if _, err := consumer.stream.Write(header); err != nil {
			res.SendErr = err.Error()
			out = append(out, res)
			continue
		}
		var before, after runtime.MemStats
		runtime.GC()
		runtime.ReadMemStats(&before)
		_, rerr := server.Receive()
		runtime.ReadMemStats(&after)
		res.AllocByte = after.TotalAlloc - before.TotalAlloc
		if rerr != nil {
			res.RecvErr = rerr.Error()
		}
		out = append(out, res)
		// the stream is now out of frame sync by design: later probes reuse it only for headers
	}
	return out, nil
}
