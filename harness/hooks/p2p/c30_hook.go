//go:build verif

package p2p

import (
	"net"

	"github.com/MixinNetwork/mixin/crypto"
)

// verifFirstMessage is a connection that delivers exactly one first message (what a connecting peer sends).
type verifFirstMessage struct{ data []byte }

func (c *verifFirstMessage) RemoteAddr() net.Addr {
	return &net.UDPAddr{IP: net.IPv4(127, 0, 0, 1), Port: 7239}
}
func (c *verifFirstMessage) Receive() (*TransportMessage, error) {
	return &TransportMessage{Version: TransportMessageVersion, Size: uint32(len(c.data)), Data: c.data}, nil
}
func (c *verifFirstMessage) Send([]byte) error { return nil }
func (c *verifFirstMessage) Close(string)      {}

// VerifHandshake runs the accepting side of the peer handshake (authenticateNeighbor, as the relayer's accept loop
// does) on one authentication message of a connecting peer; it returns the authenticated peer id.
func VerifHandshake(me *Peer, authentication []byte) (crypto.Hash, bool, error) {
	first := append([]byte{PeerMessageTypeAuthentication}, authentication...)
	p, err := me.authenticateNeighbor(&verifFirstMessage{data: first})
	if err != nil || p == nil {
		return crypto.Hash{}, false, err
	}
	return p.IdForNetwork, p.isRelayer, nil
}

// VerifHandshakeWindowSeconds is the clock skew the handshake allows (the handshake timeout of the transport).
func VerifHandshakeWindowSeconds() int64 { return int64(HandshakeTimeout.Seconds()) }
