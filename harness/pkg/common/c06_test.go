package common_test

// C06: transaction encoding is canonical and its hash is content-addressed.
//
// Oracles (all on observations of the real decoder/encoder/hash):
//  (a) any byte string the decoder accepts re-encodes (Marshal) to exactly the same bytes;
//  (b) Unmarshal(Marshal(tx)) is accepted and field-wise equal to tx (independent structural digest);
//  (c) PayloadHash is a function of the payload fields only: over the whole pool of observed
//      transactions "same payload fields" <=> "same PayloadHash" <=> "same payload encoding";
//      every single-field payload change must therefore move the hash, and no authorization
//      change may move it;
//  (d) two different payloads never share a payload encoding (same pool, keyed by encoding).
//
// The structural digest (vC06Digest...) is harness code: a length-prefixed serialization of the
// exported struct fields, unrelated to the repository's encoder.

import (
	"bytes"
	"crypto/sha256"
	"encoding/binary"
	"encoding/hex"
	"fmt"
	"math/big"
	"math/rand"
	"sort"
	"testing"

	"github.com/MixinNetwork/mixin/common"
	"github.com/MixinNetwork/mixin/crypto"
	"github.com/MixinNetwork/mixin/verifgen"
	"github.com/MixinNetwork/mixin/verifkit"
)

// ---------- random material ----------

func vC06Hash(rng *rand.Rand) crypto.Hash {
	var h crypto.Hash
	rng.Read(h[:])
	return h
}

func vC06Key(rng *rand.Rand) crypto.Key {
	var k crypto.Key
	rng.Read(k[:])
	return k
}

func vC06Sig(rng *rand.Rand) *crypto.Signature {
	var s crypto.Signature
	rng.Read(s[:])
	return &s
}

func vC06Bytes(rng *rand.Rand, n int) []byte {
	if n == 0 {
		return nil
	}
	b := make([]byte, n)
	rng.Read(b)
	return b
}

func vC06Integer(rng *rand.Rand) common.Integer {
	var u *big.Int
	switch rng.Intn(12) {
	case 0:
		u = big.NewInt(0)
	case 1:
		u = big.NewInt(1)
	case 2: // around 2^64 units
		u = new(big.Int).Lsh(big.NewInt(1), 64)
		u.Add(u, big.NewInt(int64(rng.Intn(5)-2)))
	case 3: // byte-length boundaries: 2^(8k)-1, 2^(8k)
		k := uint(1 + rng.Intn(40))
		u = new(big.Int).Lsh(big.NewInt(1), 8*k)
		if rng.Intn(2) == 0 {
			u.Sub(u, big.NewInt(1))
		}
	case 4: // large
		bits := 200 + rng.Intn(2400)
		u = new(big.Int).Rand(rng, new(big.Int).Lsh(big.NewInt(1), uint(bits)))
	default:
		bits := 1 + rng.Intn(120)
		u = new(big.Int).Rand(rng, new(big.Int).Lsh(big.NewInt(1), uint(bits)))
	}
	return verifgen.Units(u)
}

func vC06Count(rng *rand.Rand, small, limit int) int {
	switch c := rng.Intn(100); {
	case c < 1:
		return limit
	case c < 3:
		return rng.Intn(limit + 1)
	default:
		return rng.Intn(small + 1)
	}
}

var vC06OutputTypes = []uint8{
	common.OutputTypeScript, common.OutputTypeWithdrawalSubmit, common.OutputTypeNodePledge,
	common.OutputTypeNodeAccept, 0xa5, common.OutputTypeNodeRemove, common.OutputTypeWithdrawalClaim,
	common.OutputTypeNodeCancel, common.OutputTypeCustodianUpdateNodes, common.OutputTypeCustodianSlashNodes,
}

func vC06Input(rng *rand.Rand) *common.Input {
	in := &common.Input{Hash: vC06Hash(rng)}
	switch rng.Intn(6) {
	case 0:
		in.Index = 0
	case 1:
		in.Index = common.InputIndexLimit - uint(rng.Intn(2))
	default:
		in.Index = uint(rng.Intn(common.InputIndexLimit + 1))
	}
	c := rng.Intn(20)
	if c == 0 || c == 1 {
		in.Genesis = vC06Bytes(rng, 1+rng.Intn(64))
	}
	if c == 1 || (c >= 2 && c < 7) {
		in.Deposit = &common.DepositData{
			Chain:       vC06Hash(rng),
			AssetKey:    string(vC06Bytes(rng, rng.Intn(44))),
			Transaction: string(vC06Bytes(rng, rng.Intn(70))),
			Index:       rng.Uint64() >> uint(rng.Intn(64)),
			Amount:      vC06Integer(rng),
		}
	}
	if c == 1 || c == 2 || (c >= 7 && c < 10) {
		in.Mint = &common.MintData{
			Group:  string(vC06Bytes(rng, rng.Intn(12))),
			Batch:  rng.Uint64() >> uint(rng.Intn(64)),
			Amount: vC06Integer(rng),
		}
	}
	return in
}

func vC06Output(rng *rand.Rand, manyKeys bool) *common.Output {
	o := &common.Output{Amount: vC06Integer(rng), Mask: vC06Key(rng)}
	if rng.Intn(8) == 0 {
		o.Type = uint8(rng.Intn(256))
	} else {
		o.Type = vC06OutputTypes[rng.Intn(len(vC06OutputTypes))]
	}
	nk := vC06Count(rng, 3, common.SliceCountLimit)
	if !manyKeys && nk > 3 {
		nk = rng.Intn(4)
	}
	o.Keys = make([]*crypto.Key, nk)
	for i := range o.Keys {
		k := vC06Key(rng)
		o.Keys[i] = &k
	}
	switch rng.Intn(6) {
	case 0:
		o.Script = nil
	case 1:
		o.Script = common.Script(vC06Bytes(rng, 1+rng.Intn(40)))
	default:
		o.Script = common.NewThresholdScript(uint8(rng.Intn(65)))
	}
	if rng.Intn(4) == 0 {
		o.Withdrawal = &common.WithdrawalData{
			Address: string(vC06Bytes(rng, rng.Intn(110))),
			Tag:     string(vC06Bytes(rng, rng.Intn(20))),
		}
	}
	return o
}

// vC06Signers draws a strictly increasing signer list that exercises the empty,
// ordinary-mask and sparse-mask forms and the switch point between the two.
func vC06Signers(rng *rand.Rand) []int {
	var res []int
	switch rng.Intn(6) {
	case 0:
		return nil
	case 1: // dense
		m := 1 + rng.Intn(80)
		for i := 0; i < m; i++ {
			if rng.Intn(10) < 7 {
				res = append(res, i)
			}
		}
	case 2: // sparse anywhere
		set := map[int]bool{}
		for k := 1 + rng.Intn(6); k > 0; k-- {
			set[rng.Intn(65536)] = true
		}
		for s := range set {
			res = append(res, s)
		}
		sort.Ints(res)
	case 3: // switch point: max/8+1 compared with 2*len
		l := 1 + rng.Intn(6)
		max := (2*l-1)*8 + rng.Intn(17) // around (2l)*8
		set := map[int]bool{max: true}
		for len(set) < l && len(set) <= max {
			set[rng.Intn(max+1)] = true
		}
		for s := range set {
			res = append(res, s)
		}
		sort.Ints(res)
	case 4:
		res = []int{65535}
		if rng.Intn(2) == 0 {
			res = []int{0, 65535}
		}
	default:
		m := 1 + rng.Intn(16)
		for i := 0; i < m; i++ {
			if rng.Intn(2) == 0 {
				res = append(res, i)
			}
		}
	}
	return res
}

func vC06SigMap(rng *rand.Rand) map[uint16]*crypto.Signature {
	m := make(map[uint16]*crypto.Signature)
	n := rng.Intn(5)
	if rng.Intn(50) == 0 {
		n = 40 + rng.Intn(300)
	}
	for i := 0; i < n; i++ {
		var idx uint16
		switch rng.Intn(4) {
		case 0:
			idx = uint16(rng.Intn(65536))
		default:
			idx = uint16(rng.Intn(8))
		}
		m[idx] = vC06Sig(rng)
	}
	return m
}

func vC06Auth(rng *rand.Rand, tx *common.SignedTransaction, kind int) {
	tx.AggregatedSignature = nil
	tx.SignaturesMap = nil
	switch kind {
	case 0:
	case 1:
		n := len(tx.Inputs)
		switch rng.Intn(8) {
		case 0:
			n = rng.Intn(4)
		case 1:
			n++
		}
		if rng.Intn(300) == 0 || n > common.SliceCountLimit {
			n = common.SliceCountLimit // the decoder reads at most 256 maps; more is not an encodable transaction
		}
		for i := 0; i < n; i++ {
			tx.SignaturesMap = append(tx.SignaturesMap, vC06SigMap(rng))
		}
	default:
		tx.AggregatedSignature = &common.AggregatedSignature{Signers: vC06Signers(rng), Signature: *vC06Sig(rng)}
	}
}

func vC06GenTx(rng *rand.Rand) *common.SignedTransaction {
	tx := &common.SignedTransaction{}
	tx.Version = common.TxVersionHashSignature
	tx.Asset = vC06Hash(rng)
	ni := vC06Count(rng, 4, common.SliceCountLimit)
	for i := 0; i < ni; i++ {
		tx.Inputs = append(tx.Inputs, vC06Input(rng))
	}
	no := vC06Count(rng, 4, common.SliceCountLimit)
	for i := 0; i < no; i++ {
		// an output may carry 256 keys; only small output lists get them, to keep encodings moderate
		tx.Outputs = append(tx.Outputs, vC06Output(rng, no <= 8))
	}
	nr := vC06Count(rng, 3, common.SliceCountLimit)
	for i := 0; i < nr; i++ {
		tx.References = append(tx.References, vC06Hash(rng))
	}
	switch c := rng.Intn(200); {
	case c == 0:
		tx.Extra = vC06Bytes(rng, 20000+rng.Intn(100000))
	case c < 6:
		tx.Extra = vC06Bytes(rng, 250+rng.Intn(12)) // around the general limit
	case c < 60:
		tx.Extra = nil
	default:
		tx.Extra = vC06Bytes(rng, 1+rng.Intn(200))
	}
	vC06Auth(rng, tx, rng.Intn(3))
	return tx
}

// ---------- deep copy ----------

func vC06Clone(tx *common.SignedTransaction) *common.SignedTransaction {
	c := &common.SignedTransaction{}
	c.Version = tx.Version
	c.Asset = tx.Asset
	for _, in := range tx.Inputs {
		n := &common.Input{Hash: in.Hash, Index: in.Index}
		if in.Genesis != nil {
			n.Genesis = append([]byte{}, in.Genesis...)
		}
		if in.Deposit != nil {
			d := *in.Deposit
			n.Deposit = &d
		}
		if in.Mint != nil {
			m := *in.Mint
			n.Mint = &m
		}
		c.Inputs = append(c.Inputs, n)
	}
	for _, o := range tx.Outputs {
		n := &common.Output{Type: o.Type, Amount: o.Amount, Mask: o.Mask}
		n.Keys = make([]*crypto.Key, len(o.Keys))
		for i, k := range o.Keys {
			kk := *k
			n.Keys[i] = &kk
		}
		if o.Script != nil {
			n.Script = append(common.Script{}, o.Script...)
		}
		if o.Withdrawal != nil {
			w := *o.Withdrawal
			n.Withdrawal = &w
		}
		c.Outputs = append(c.Outputs, n)
	}
	if tx.References != nil {
		c.References = append([]crypto.Hash{}, tx.References...)
	}
	if tx.Extra != nil {
		c.Extra = append([]byte{}, tx.Extra...)
	}
	if tx.AggregatedSignature != nil {
		c.AggregatedSignature = &common.AggregatedSignature{
			Signers:   append([]int{}, tx.AggregatedSignature.Signers...),
			Signature: tx.AggregatedSignature.Signature,
		}
	}
	for _, m := range tx.SignaturesMap {
		n := make(map[uint16]*crypto.Signature, len(m))
		for k, s := range m {
			ss := *s
			n[k] = &ss
		}
		c.SignaturesMap = append(c.SignaturesMap, n)
	}
	return c
}

// ---------- independent structural digest ----------

type vC06W struct{ buf bytes.Buffer }

func (w *vC06W) tag(t string) { w.buf.WriteString(t) }
func (w *vC06W) u64(v uint64) { var b [8]byte; binary.BigEndian.PutUint64(b[:], v); w.buf.Write(b[:]) }
func (w *vC06W) count(n int)  { w.u64(uint64(n)) }
func (w *vC06W) raw(b []byte) { w.count(len(b)); w.buf.Write(b) }
func (w *vC06W) str(s string) { w.count(len(s)); w.buf.WriteString(s) }
func (w *vC06W) present(p bool) {
	if p {
		w.buf.WriteByte(1)
	} else {
		w.buf.WriteByte(0)
	}
}

// vC06PayloadBlob serializes every payload field (and nothing else), length-prefixed.
func vC06PayloadBlob(tx *common.Transaction) []byte {
	w := &vC06W{}
	w.tag("v")
	w.u64(uint64(tx.Version))
	w.tag("a")
	w.buf.Write(tx.Asset[:])
	w.tag("I")
	w.count(len(tx.Inputs))
	for _, in := range tx.Inputs {
		w.buf.Write(in.Hash[:])
		w.u64(uint64(in.Index))
		w.raw(in.Genesis)
		w.present(in.Deposit != nil)
		if d := in.Deposit; d != nil {
			w.buf.Write(d.Chain[:])
			w.str(d.AssetKey)
			w.str(d.Transaction)
			w.u64(d.Index)
			w.str(d.Amount.String())
		}
		w.present(in.Mint != nil)
		if m := in.Mint; m != nil {
			w.str(m.Group)
			w.u64(m.Batch)
			w.str(m.Amount.String())
		}
	}
	w.tag("O")
	w.count(len(tx.Outputs))
	for _, o := range tx.Outputs {
		w.u64(uint64(o.Type))
		w.str(o.Amount.String())
		w.count(len(o.Keys))
		for _, k := range o.Keys {
			w.buf.Write(k[:])
		}
		w.buf.Write(o.Mask[:])
		w.raw(o.Script)
		w.present(o.Withdrawal != nil)
		if wd := o.Withdrawal; wd != nil {
			w.str(wd.Address)
			w.str(wd.Tag)
		}
	}
	w.tag("R")
	w.count(len(tx.References))
	for _, h := range tx.References {
		w.buf.Write(h[:])
	}
	w.tag("e")
	w.raw(tx.Extra)
	return w.buf.Bytes()
}

// vC06AuthBlob serializes the authorization part.
func vC06AuthBlob(tx *common.SignedTransaction) []byte {
	w := &vC06W{}
	if a := tx.AggregatedSignature; a != nil {
		w.tag("G")
		w.buf.Write(a.Signature[:])
		w.count(len(a.Signers))
		for _, s := range a.Signers {
			w.u64(uint64(s))
		}
		return w.buf.Bytes()
	}
	w.tag("M")
	w.count(len(tx.SignaturesMap))
	for _, m := range tx.SignaturesMap {
		idx := make([]int, 0, len(m))
		for k := range m {
			idx = append(idx, int(k))
		}
		sort.Ints(idx)
		w.count(len(idx))
		for _, k := range idx {
			w.u64(uint64(k))
			w.buf.Write(m[uint16(k)][:])
		}
	}
	return w.buf.Bytes()
}

type vC06D [16]byte

func vC06Sum(b []byte) vC06D {
	s := sha256.Sum256(b)
	var d vC06D
	copy(d[:], s[:16])
	return d
}

// ---------- the harness's own (loose) encoder: only a generator of candidate byte strings ----------

type vC06Opts struct {
	padInt    int // ordinal of the Integer that gets leading zero bytes (-1: none)
	padN      int
	sigMap    int // index of the signature map to perturb (-1: none)
	sigMode   int // 1 reversed order, 2 duplicate last entry (count+1), 3 duplicate entry, count unchanged
	aggMode   int // 0 canonical choice, 1 force sparse, 2 force ordinary, 3 ordinary + trailing zero byte(s), 4 sparse with two signers swapped
	mapsCount int // >0: claim this many signature maps (padding with empty ones)
}

func vC06NoOpts() *vC06Opts { return &vC06Opts{padInt: -1, sigMap: -1} }

type vC06Enc struct {
	b    []byte
	ints int
	o    *vC06Opts
}

func (e *vC06Enc) w(b []byte)   { e.b = append(e.b, b...) }
func (e *vC06Enc) u16(v int)    { e.b = append(e.b, byte(v>>8), byte(v)) }
func (e *vC06Enc) u32(v uint32) { e.b = binary.BigEndian.AppendUint32(e.b, v) }
func (e *vC06Enc) u64(v uint64) { e.b = binary.BigEndian.AppendUint64(e.b, v) }
func (e *vC06Enc) lp(b []byte)  { e.u16(len(b)); e.w(b) }
func (e *vC06Enc) integer(x common.Integer) {
	raw := verifgen.UnitsOf(x).Bytes()
	if e.ints == e.o.padInt {
		raw = append(make([]byte, e.o.padN), raw...)
	}
	e.ints++
	e.lp(raw)
}

func vC06CountInts(tx *common.SignedTransaction) int {
	n := len(tx.Outputs)
	for _, in := range tx.Inputs {
		if in.Deposit != nil {
			n++
		}
		if in.Mint != nil {
			n++
		}
	}
	return n
}

func vC06Encode(tx *common.SignedTransaction, o *vC06Opts) []byte {
	e := &vC06Enc{o: o}
	e.w([]byte{0x77, 0x77, 0x00, tx.Version})
	e.w(tx.Asset[:])
	e.u16(len(tx.Inputs))
	for _, in := range tx.Inputs {
		e.w(in.Hash[:])
		e.u16(int(in.Index))
		e.lp(in.Genesis)
		if d := in.Deposit; d == nil {
			e.w([]byte{0, 0})
		} else {
			e.w([]byte{0x77, 0x77})
			e.w(d.Chain[:])
			e.lp([]byte(d.AssetKey))
			e.lp([]byte(d.Transaction))
			e.u64(d.Index)
			e.integer(d.Amount)
		}
		if m := in.Mint; m == nil {
			e.w([]byte{0, 0})
		} else {
			e.w([]byte{0x77, 0x77})
			e.lp([]byte(m.Group))
			e.u64(m.Batch)
			e.integer(m.Amount)
		}
	}
	e.u16(len(tx.Outputs))
	for _, out := range tx.Outputs {
		e.w([]byte{0, out.Type})
		e.integer(out.Amount)
		e.u16(len(out.Keys))
		for _, k := range out.Keys {
			e.w(k[:])
		}
		e.w(out.Mask[:])
		e.lp(out.Script)
		if wd := out.Withdrawal; wd == nil {
			e.w([]byte{0, 0})
		} else {
			e.w([]byte{0x77, 0x77})
			e.lp([]byte(wd.Address))
			e.lp([]byte(wd.Tag))
		}
	}
	e.u16(len(tx.References))
	for _, r := range tx.References {
		e.w(r[:])
	}
	e.u32(uint32(len(tx.Extra)))
	e.w(tx.Extra)

	if a := tx.AggregatedSignature; a != nil {
		e.u16(0xffff)
		e.u16(0xff01)
		e.w(a.Signature[:])
		signers := a.Signers
		sparse := false
		if len(signers) > 0 {
			max := signers[len(signers)-1]
			sparse = max/8+1 > len(signers)*2
		}
		switch o.aggMode {
		case 1, 4:
			sparse = true
		case 2, 3:
			sparse = false
		}
		if sparse {
			if o.aggMode == 4 && len(signers) >= 2 {
				signers = append([]int{}, signers...)
				signers[0], signers[1] = signers[1], signers[0]
			}
			e.b = append(e.b, 1)
			e.u16(len(signers))
			for _, s := range signers {
				e.u16(s)
			}
		} else {
			var masks []byte
			if len(signers) > 0 {
				masks = make([]byte, signers[len(signers)-1]/8+1)
				for _, s := range signers {
					masks[s/8] |= 1 << (s % 8)
				}
			}
			if o.aggMode == 3 {
				masks = append(masks, make([]byte, 1+o.padN%3)...)
			}
			e.b = append(e.b, 0)
			e.lp(masks)
		}
		return e.b
	}

	n := len(tx.SignaturesMap)
	if o.mapsCount > 0 {
		n = o.mapsCount
	}
	e.u16(n)
	for i := 0; i < n; i++ {
		var m map[uint16]*crypto.Signature
		if i < len(tx.SignaturesMap) {
			m = tx.SignaturesMap[i]
		}
		idx := make([]int, 0, len(m))
		for k := range m {
			idx = append(idx, int(k))
		}
		sort.Ints(idx)
		count := len(idx)
		if i == o.sigMap {
			switch o.sigMode {
			case 1:
				for a, b := 0, len(idx)-1; a < b; a, b = a+1, b-1 {
					idx[a], idx[b] = idx[b], idx[a]
				}
			case 2:
				if len(idx) > 0 {
					idx = append(idx, idx[len(idx)-1])
					count++
				}
			case 3:
				if len(idx) > 1 {
					idx[len(idx)-1] = idx[0]
				}
			}
		}
		e.u16(count)
		for _, k := range idx {
			e.u16(k)
			e.w(m[uint16(k)][:])
		}
	}
	return e.b
}

// ---------- single-field payload mutators ----------

type vC06Mut struct {
	name string
	f    func(rng *rand.Rand, tx *common.SignedTransaction) bool
}

func vC06FlipHash(rng *rand.Rand, h *crypto.Hash) { h[rng.Intn(32)] ^= byte(1 << uint(rng.Intn(8))) }
func vC06FlipKey(rng *rand.Rand, k *crypto.Key)   { k[rng.Intn(32)] ^= byte(1 << uint(rng.Intn(8))) }
func vC06FlipStr(rng *rand.Rand, s string) string {
	if len(s) == 0 {
		return "x"
	}
	b := []byte(s)
	switch rng.Intn(3) {
	case 0:
		b[rng.Intn(len(b))] ^= byte(1 << uint(rng.Intn(8)))
	case 1:
		b = append(b, byte(rng.Intn(256)))
	default:
		b = b[:len(b)-1]
	}
	return string(b)
}
func vC06Bump(rng *rand.Rand, x common.Integer) common.Integer {
	u := verifgen.UnitsOf(x)
	switch rng.Intn(4) {
	case 0:
		u.Add(u, big.NewInt(1))
	case 1:
		if u.Sign() > 0 {
			u.Sub(u, big.NewInt(1))
		} else {
			u.Add(u, big.NewInt(1))
		}
	case 2: // times 256: same significant bytes, one more byte
		u.Lsh(u, 8)
		if u.Sign() == 0 {
			u.SetInt64(256)
		}
	default:
		u.Add(u, new(big.Int).Lsh(big.NewInt(1), uint(rng.Intn(70))))
	}
	return verifgen.Units(u)
}

func vC06PickIn(rng *rand.Rand, tx *common.SignedTransaction, ok func(*common.Input) bool) *common.Input {
	var c []*common.Input
	for _, in := range tx.Inputs {
		if ok(in) {
			c = append(c, in)
		}
	}
	if len(c) == 0 {
		return nil
	}
	return c[rng.Intn(len(c))]
}

func vC06PickOut(rng *rand.Rand, tx *common.SignedTransaction, ok func(*common.Output) bool) *common.Output {
	var c []*common.Output
	for _, o := range tx.Outputs {
		if ok(o) {
			c = append(c, o)
		}
	}
	if len(c) == 0 {
		return nil
	}
	return c[rng.Intn(len(c))]
}

func vC06AnyIn(*common.Input) bool   { return true }
func vC06AnyOut(*common.Output) bool { return true }

var vC06Mutators = []vC06Mut{
	{"asset", func(rng *rand.Rand, tx *common.SignedTransaction) bool { vC06FlipHash(rng, &tx.Asset); return true }},
	{"inputs.add", func(rng *rand.Rand, tx *common.SignedTransaction) bool {
		if len(tx.Inputs) >= common.SliceCountLimit {
			return false
		}
		in := vC06Input(rng)
		at := rng.Intn(len(tx.Inputs) + 1)
		tx.Inputs = append(tx.Inputs[:at], append([]*common.Input{in}, tx.Inputs[at:]...)...)
		return true
	}},
	{"inputs.remove", func(rng *rand.Rand, tx *common.SignedTransaction) bool {
		if len(tx.Inputs) == 0 {
			return false
		}
		at := rng.Intn(len(tx.Inputs))
		tx.Inputs = append(tx.Inputs[:at:at], tx.Inputs[at+1:]...)
		return true
	}},
	{"inputs.order", func(rng *rand.Rand, tx *common.SignedTransaction) bool {
		if len(tx.Inputs) < 2 {
			return false
		}
		i := rng.Intn(len(tx.Inputs) - 1)
		tx.Inputs[i], tx.Inputs[i+1] = tx.Inputs[i+1], tx.Inputs[i]
		return true
	}},
	{"input.hash", func(rng *rand.Rand, tx *common.SignedTransaction) bool {
		in := vC06PickIn(rng, tx, vC06AnyIn)
		if in == nil {
			return false
		}
		vC06FlipHash(rng, &in.Hash)
		return true
	}},
	{"input.index", func(rng *rand.Rand, tx *common.SignedTransaction) bool {
		in := vC06PickIn(rng, tx, vC06AnyIn)
		if in == nil {
			return false
		}
		if in.Index == 0 || (in.Index < common.InputIndexLimit && rng.Intn(2) == 0) {
			in.Index++
		} else {
			in.Index--
		}
		return true
	}},
	{"input.genesis", func(rng *rand.Rand, tx *common.SignedTransaction) bool {
		in := vC06PickIn(rng, tx, vC06AnyIn)
		if in == nil {
			return false
		}
		if len(in.Genesis) == 0 {
			in.Genesis = vC06Bytes(rng, 1+rng.Intn(8))
		} else if rng.Intn(2) == 0 {
			in.Genesis = nil
		} else {
			in.Genesis = []byte(vC06FlipStr(rng, string(in.Genesis)))
		}
		return true
	}},
	{"input.deposit.presence", func(rng *rand.Rand, tx *common.SignedTransaction) bool {
		in := vC06PickIn(rng, tx, vC06AnyIn)
		if in == nil {
			return false
		}
		if in.Deposit != nil {
			in.Deposit = nil
		} else if rng.Intn(2) == 0 {
			in.Deposit = &common.DepositData{} // all-empty deposit record vs none
		} else {
			in.Deposit = &common.DepositData{Chain: vC06Hash(rng), AssetKey: "k", Transaction: "t", Amount: vC06Integer(rng)}
		}
		return true
	}},
	{"deposit.chain", func(rng *rand.Rand, tx *common.SignedTransaction) bool {
		in := vC06PickIn(rng, tx, func(i *common.Input) bool { return i.Deposit != nil })
		if in == nil {
			return false
		}
		vC06FlipHash(rng, &in.Deposit.Chain)
		return true
	}},
	{"deposit.assetkey", func(rng *rand.Rand, tx *common.SignedTransaction) bool {
		in := vC06PickIn(rng, tx, func(i *common.Input) bool { return i.Deposit != nil })
		if in == nil {
			return false
		}
		in.Deposit.AssetKey = vC06FlipStr(rng, in.Deposit.AssetKey)
		return true
	}},
	{"deposit.transaction", func(rng *rand.Rand, tx *common.SignedTransaction) bool {
		in := vC06PickIn(rng, tx, func(i *common.Input) bool { return i.Deposit != nil })
		if in == nil {
			return false
		}
		in.Deposit.Transaction = vC06FlipStr(rng, in.Deposit.Transaction)
		return true
	}},
	{"deposit.assetkey|transaction.boundary", func(rng *rand.Rand, tx *common.SignedTransaction) bool {
		in := vC06PickIn(rng, tx, func(i *common.Input) bool {
			return i.Deposit != nil && len(i.Deposit.AssetKey)+len(i.Deposit.Transaction) > 0
		})
		if in == nil {
			return false
		}
		d := in.Deposit
		if len(d.AssetKey) > 0 && (len(d.Transaction) == 0 || rng.Intn(2) == 0) {
			d.Transaction = d.AssetKey[len(d.AssetKey)-1:] + d.Transaction
			d.AssetKey = d.AssetKey[:len(d.AssetKey)-1]
		} else {
			d.AssetKey += d.Transaction[:1]
			d.Transaction = d.Transaction[1:]
		}
		return true
	}},
	{"deposit.index", func(rng *rand.Rand, tx *common.SignedTransaction) bool {
		in := vC06PickIn(rng, tx, func(i *common.Input) bool { return i.Deposit != nil })
		if in == nil {
			return false
		}
		in.Deposit.Index ^= 1 << uint(rng.Intn(64))
		return true
	}},
	{"deposit.amount", func(rng *rand.Rand, tx *common.SignedTransaction) bool {
		in := vC06PickIn(rng, tx, func(i *common.Input) bool { return i.Deposit != nil })
		if in == nil {
			return false
		}
		in.Deposit.Amount = vC06Bump(rng, in.Deposit.Amount)
		return true
	}},
	{"input.mint.presence", func(rng *rand.Rand, tx *common.SignedTransaction) bool {
		in := vC06PickIn(rng, tx, vC06AnyIn)
		if in == nil {
			return false
		}
		if in.Mint != nil {
			in.Mint = nil
		} else if rng.Intn(2) == 0 {
			in.Mint = &common.MintData{}
		} else {
			in.Mint = &common.MintData{Group: "KERNELNODE", Batch: rng.Uint64(), Amount: vC06Integer(rng)}
		}
		return true
	}},
	{"mint.group", func(rng *rand.Rand, tx *common.SignedTransaction) bool {
		in := vC06PickIn(rng, tx, func(i *common.Input) bool { return i.Mint != nil })
		if in == nil {
			return false
		}
		in.Mint.Group = vC06FlipStr(rng, in.Mint.Group)
		return true
	}},
	{"mint.batch", func(rng *rand.Rand, tx *common.SignedTransaction) bool {
		in := vC06PickIn(rng, tx, func(i *common.Input) bool { return i.Mint != nil })
		if in == nil {
			return false
		}
		in.Mint.Batch ^= 1 << uint(rng.Intn(64))
		return true
	}},
	{"mint.amount", func(rng *rand.Rand, tx *common.SignedTransaction) bool {
		in := vC06PickIn(rng, tx, func(i *common.Input) bool { return i.Mint != nil })
		if in == nil {
			return false
		}
		in.Mint.Amount = vC06Bump(rng, in.Mint.Amount)
		return true
	}},
	{"deposit|mint.swap", func(rng *rand.Rand, tx *common.SignedTransaction) bool {
		// a deposit-only input becomes a mint-only input carrying the same amount
		in := vC06PickIn(rng, tx, func(i *common.Input) bool { return i.Deposit != nil && i.Mint == nil })
		if in == nil {
			return false
		}
		in.Mint = &common.MintData{Group: in.Deposit.AssetKey, Batch: in.Deposit.Index, Amount: in.Deposit.Amount}
		in.Deposit = nil
		return true
	}},
	{"outputs.add", func(rng *rand.Rand, tx *common.SignedTransaction) bool {
		if len(tx.Outputs) >= common.SliceCountLimit {
			return false
		}
		o := vC06Output(rng, len(tx.Outputs) <= 8)
		at := rng.Intn(len(tx.Outputs) + 1)
		tx.Outputs = append(tx.Outputs[:at], append([]*common.Output{o}, tx.Outputs[at:]...)...)
		return true
	}},
	{"outputs.remove", func(rng *rand.Rand, tx *common.SignedTransaction) bool {
		if len(tx.Outputs) == 0 {
			return false
		}
		at := rng.Intn(len(tx.Outputs))
		tx.Outputs = append(tx.Outputs[:at:at], tx.Outputs[at+1:]...)
		return true
	}},
	{"outputs.order", func(rng *rand.Rand, tx *common.SignedTransaction) bool {
		if len(tx.Outputs) < 2 {
			return false
		}
		i := rng.Intn(len(tx.Outputs) - 1)
		tx.Outputs[i], tx.Outputs[i+1] = tx.Outputs[i+1], tx.Outputs[i]
		return true
	}},
	{"output.type", func(rng *rand.Rand, tx *common.SignedTransaction) bool {
		o := vC06PickOut(rng, tx, vC06AnyOut)
		if o == nil {
			return false
		}
		o.Type ^= byte(1 << uint(rng.Intn(8)))
		return true
	}},
	{"output.amount", func(rng *rand.Rand, tx *common.SignedTransaction) bool {
		o := vC06PickOut(rng, tx, vC06AnyOut)
		if o == nil {
			return false
		}
		o.Amount = vC06Bump(rng, o.Amount)
		return true
	}},
	{"output.keys.add", func(rng *rand.Rand, tx *common.SignedTransaction) bool {
		o := vC06PickOut(rng, tx, func(o *common.Output) bool { return len(o.Keys) < common.SliceCountLimit })
		if o == nil {
			return false
		}
		k := vC06Key(rng)
		if rng.Intn(2) == 0 {
			k = o.Mask // a key equal to the field that follows the key list
		}
		o.Keys = append(o.Keys, &k)
		return true
	}},
	{"output.keys.remove", func(rng *rand.Rand, tx *common.SignedTransaction) bool {
		o := vC06PickOut(rng, tx, func(o *common.Output) bool { return len(o.Keys) > 0 })
		if o == nil {
			return false
		}
		o.Keys = o.Keys[:len(o.Keys)-1]
		return true
	}},
	{"output.key", func(rng *rand.Rand, tx *common.SignedTransaction) bool {
		o := vC06PickOut(rng, tx, func(o *common.Output) bool { return len(o.Keys) > 0 })
		if o == nil {
			return false
		}
		vC06FlipKey(rng, o.Keys[rng.Intn(len(o.Keys))])
		return true
	}},
	{"output.keys.order", func(rng *rand.Rand, tx *common.SignedTransaction) bool {
		o := vC06PickOut(rng, tx, func(o *common.Output) bool { return len(o.Keys) > 1 })
		if o == nil {
			return false
		}
		i := rng.Intn(len(o.Keys) - 1)
		o.Keys[i], o.Keys[i+1] = o.Keys[i+1], o.Keys[i]
		return true
	}},
	{"output.mask", func(rng *rand.Rand, tx *common.SignedTransaction) bool {
		o := vC06PickOut(rng, tx, vC06AnyOut)
		if o == nil {
			return false
		}
		vC06FlipKey(rng, &o.Mask)
		return true
	}},
	{"output.script", func(rng *rand.Rand, tx *common.SignedTransaction) bool {
		o := vC06PickOut(rng, tx, vC06AnyOut)
		if o == nil {
			return false
		}
		o.Script = common.Script(vC06FlipStr(rng, string(o.Script)))
		if len(o.Script) == 0 {
			o.Script = nil
		}
		return true
	}},
	{"output.withdrawal.presence", func(rng *rand.Rand, tx *common.SignedTransaction) bool {
		o := vC06PickOut(rng, tx, vC06AnyOut)
		if o == nil {
			return false
		}
		if o.Withdrawal != nil {
			o.Withdrawal = nil
		} else if rng.Intn(2) == 0 {
			o.Withdrawal = &common.WithdrawalData{}
		} else {
			o.Withdrawal = &common.WithdrawalData{Address: "addr", Tag: "tag"}
		}
		return true
	}},
	{"withdrawal.address", func(rng *rand.Rand, tx *common.SignedTransaction) bool {
		o := vC06PickOut(rng, tx, func(o *common.Output) bool { return o.Withdrawal != nil })
		if o == nil {
			return false
		}
		o.Withdrawal.Address = vC06FlipStr(rng, o.Withdrawal.Address)
		return true
	}},
	{"withdrawal.tag", func(rng *rand.Rand, tx *common.SignedTransaction) bool {
		o := vC06PickOut(rng, tx, func(o *common.Output) bool { return o.Withdrawal != nil })
		if o == nil {
			return false
		}
		o.Withdrawal.Tag = vC06FlipStr(rng, o.Withdrawal.Tag)
		return true
	}},
	{"withdrawal.address|tag.boundary", func(rng *rand.Rand, tx *common.SignedTransaction) bool {
		o := vC06PickOut(rng, tx, func(o *common.Output) bool {
			return o.Withdrawal != nil && len(o.Withdrawal.Address)+len(o.Withdrawal.Tag) > 0
		})
		if o == nil {
			return false
		}
		w := o.Withdrawal
		if len(w.Address) > 0 && (len(w.Tag) == 0 || rng.Intn(2) == 0) {
			w.Tag = w.Address[len(w.Address)-1:] + w.Tag
			w.Address = w.Address[:len(w.Address)-1]
		} else {
			w.Address += w.Tag[:1]
			w.Tag = w.Tag[1:]
		}
		return true
	}},
	{"references.add", func(rng *rand.Rand, tx *common.SignedTransaction) bool {
		if len(tx.References) >= common.SliceCountLimit {
			return false
		}
		tx.References = append(tx.References, vC06Hash(rng))
		return true
	}},
	{"references.remove", func(rng *rand.Rand, tx *common.SignedTransaction) bool {
		if len(tx.References) == 0 {
			return false
		}
		tx.References = tx.References[:len(tx.References)-1]
		if len(tx.References) == 0 {
			tx.References = nil
		}
		return true
	}},
	{"reference", func(rng *rand.Rand, tx *common.SignedTransaction) bool {
		if len(tx.References) == 0 {
			return false
		}
		vC06FlipHash(rng, &tx.References[rng.Intn(len(tx.References))])
		return true
	}},
	{"references.order", func(rng *rand.Rand, tx *common.SignedTransaction) bool {
		if len(tx.References) < 2 {
			return false
		}
		i := rng.Intn(len(tx.References) - 1)
		tx.References[i], tx.References[i+1] = tx.References[i+1], tx.References[i]
		return true
	}},
	{"references|extra.boundary", func(rng *rand.Rand, tx *common.SignedTransaction) bool {
		// the last reference moves into the front of extra
		if len(tx.References) == 0 || len(tx.Extra) > 1000 {
			return false
		}
		last := tx.References[len(tx.References)-1]
		tx.References = tx.References[:len(tx.References)-1]
		if len(tx.References) == 0 {
			tx.References = nil
		}
		tx.Extra = append(append([]byte{}, last[:]...), tx.Extra...)
		return true
	}},
	{"extra", func(rng *rand.Rand, tx *common.SignedTransaction) bool {
		tx.Extra = []byte(vC06FlipStr(rng, string(tx.Extra)))
		if len(tx.Extra) == 0 {
			tx.Extra = nil
		}
		return true
	}},
}

// ---------- monitor state ----------

type vC06Entry struct {
	payload vC06D
	hash    crypto.Hash
	caseNo  int32
	class   string
}

type vC06Pool struct {
	byFields  map[vC06D]vC06Entry // payload-field digest -> first observation
	byPayload map[vC06D]vC06D     // payload-encoding digest -> payload-field digest
	byHash    map[vC06D]vC06D     // PayloadHash (first 16 bytes) -> payload-field digest
}

func vC06NewPool() *vC06Pool {
	return &vC06Pool{byFields: map[vC06D]vC06Entry{}, byPayload: map[vC06D]vC06D{}, byHash: map[vC06D]vC06D{}}
}

type vC06State struct {
	r      *verifkit.Run
	rng    *rand.Rand
	caseNo int

	// g: pool over the whole run (generated transactions, field mutants, authorization variants);
	// l: pool of the current case's byte-level mutants (reset per case, checked against g as well)
	g, l    *vC06Pool
	poolCap int

	prev        []byte
	refMismatch int
	mutApplied  map[string]int
}

func vC06Hex(b []byte) string {
	if len(b) > 4096 {
		return hex.EncodeToString(b[:4096]) + fmt.Sprintf("...(%d bytes)", len(b))
	}
	return hex.EncodeToString(b)
}

// pool records (payload fields, payload encoding, hash) of one transaction and checks
// that the three are in one-to-one correspondence over everything observed so far.
func (st *vC06State) pool(ver *common.VersionedTransaction, class string, enc []byte, local bool) {
	var pm []byte
	var h crypto.Hash
	if p, val, stack := verifkit.Guard(func() { pm = ver.PayloadMarshal(); h = ver.PayloadHash() }); p {
		st.r.Violation("C06|hash-panic|"+verifkit.PanicSite(stack), fmt.Sprintf("PayloadHash/PayloadMarshal panicked on a %s transaction: %v", class, val),
			map[string]any{"class": class, "case": st.caseNo, "encoding": vC06Hex(enc)})
		return
	}
	fd := vC06Sum(vC06PayloadBlob(&ver.Transaction))
	pd := vC06Sum(pm)
	var hd vC06D
	copy(hd[:], h[:16])

	entry := func(d vC06D) vC06Entry {
		if e, ok := st.g.byFields[d]; ok {
			return e
		}
		return st.l.byFields[d]
	}
	seenF, seenP, seenH := false, false, false
	for _, pl := range [...]*vC06Pool{st.g, st.l} {
		if e, ok := pl.byFields[fd]; ok {
			seenF = true
			if e.payload != pd || e.hash != h {
				st.r.Violation("C06|hash|depends-on-non-payload-data",
					"two transactions with identical payload fields have different payload encodings or hashes (the hash follows something that is not payload)",
					map[string]any{"class": class, "case": st.caseNo, "encoding": vC06Hex(enc), "hash": h.String(),
						"earlier_hash": e.hash.String(), "earlier_case": e.caseNo, "earlier_class": e.class})
			}
		}
		if d, ok := pl.byPayload[pd]; ok {
			seenP = true
			if d != fd {
				e := entry(d)
				st.r.Violation("C06|payload|collision", "two transactions with different payload fields have the same payload encoding",
					map[string]any{"class": class, "case": st.caseNo, "encoding": vC06Hex(enc), "payload_encoding": vC06Hex(pm),
						"earlier_case": e.caseNo, "earlier_class": e.class})
			}
		}
		if d, ok := pl.byHash[hd]; ok {
			seenH = true
			if d != fd {
				e := entry(d)
				st.r.Violation("C06|hash|collision", "two transactions with different payload fields have the same PayloadHash",
					map[string]any{"class": class, "case": st.caseNo, "encoding": vC06Hex(enc), "hash": h.String(),
						"earlier_case": e.caseNo, "earlier_class": e.class})
			}
		}
	}
	into := st.g
	if local {
		into = st.l
	} else if len(st.g.byFields) >= st.poolCap {
		st.r.Count("pool_full_not_inserted", 1)
		return
	}
	if !seenF {
		into.byFields[fd] = vC06Entry{payload: pd, hash: h, caseNo: int32(st.caseNo), class: class}
	} else {
		st.r.Count("pool_same_payload_seen_again", 1)
	}
	if !seenP {
		into.byPayload[pd] = fd
	}
	if !seenH {
		into.byHash[hd] = fd
	}
}

// observe feeds one byte string to the decoder and applies oracle (a) and the pool oracles.
func (st *vC06State) observe(c []byte, class string) *common.VersionedTransaction {
	ver, _ := st.observe2(c, class, true)
	return ver
}

const (
	vC06Accepted = iota
	vC06Rejected
	vC06Reported
)

func (st *vC06State) observe2(c []byte, class string, local bool) (*common.VersionedTransaction, int) {
	st.r.Eval()
	var ver *common.VersionedTransaction
	var err error
	given := bytes.Clone(c) // the bytes as they were submitted (the decoder must not touch the caller's slice)
	defer func() {
		if !bytes.Equal(given, c) {
			st.r.Violation("C06|decode|caller-buffer-modified|"+class, "decoding changed the byte slice it was given (whatever it then compares with those bytes is no longer what was submitted)",
				map[string]any{"class": class, "case": st.caseNo, "input": vC06Hex(given), "after": vC06Hex(c)})
			copy(c, given)
		}
	}()
	if p, val, stack := verifkit.Guard(func() { ver, err = common.UnmarshalVersionedTransaction(c) }); p {
		st.r.Violation("C06|decode-panic|"+verifkit.PanicSite(stack), fmt.Sprintf("the transaction decoder panicked on a byte string (%s): %v", class, val),
			map[string]any{"class": class, "case": st.caseNo, "input": vC06Hex(c)})
		return nil, vC06Reported
	}
	if err != nil || ver == nil {
		st.r.Count("rejected_"+class, 1)
		return nil, vC06Rejected
	}
	st.r.Count("accepted_"+class, 1)
	// the decoded value must not depend on the caller's buffer after the call returned: decode a private copy,
	// overwrite that copy, and compare what the two decoded values report
	if st.caseNo%3 == 0 {
		buf := bytes.Clone(c)
		var alias *common.VersionedTransaction
		var ah, bh crypto.Hash
		var am, bm []byte
		if p, _, _ := verifkit.Guard(func() {
			alias, _ = common.UnmarshalVersionedTransaction(buf)
			for i := range buf {
				buf[i] ^= 0xA5
			}
			if alias != nil {
				ah, am = alias.PayloadHash(), alias.PayloadMarshal()
			}
			ref, _ := common.UnmarshalVersionedTransaction(c)
			if ref != nil {
				bh, bm = ref.PayloadHash(), ref.PayloadMarshal()
			}
		}); !p && alias != nil {
			st.r.Count("buffer_reuse_probes", 1)
			if ah != bh || !bytes.Equal(am, bm) {
				st.r.Violation("C06|decode|result-aliases-input-buffer|"+class, "a decoded transaction reports another payload encoding or hash after the caller overwrote the byte slice it was decoded from (the hash is not a function of the decoded content)",
					map[string]any{"class": class, "case": st.caseNo, "input": vC06Hex(c), "hash_after_overwrite": ah.String(), "hash": bh.String()})
			}
		}
	}
	var re []byte
	if p, val, stack := verifkit.Guard(func() { re = ver.Marshal() }); p {
		st.r.Violation("C06|decode|reencode-panic|"+class, fmt.Sprintf("an accepted byte string decodes to a transaction that cannot be encoded: %v at %s", val, verifkit.PanicSite(stack)),
			map[string]any{"class": class, "case": st.caseNo, "input": vC06Hex(c)})
		return nil, vC06Reported
	}
	if !bytes.Equal(re, given) {
		st.r.Violation("C06|decode|noncanonical|"+class, "the decoder accepted a byte string that does not re-encode to the same bytes",
			map[string]any{"class": class, "case": st.caseNo, "input": vC06Hex(c), "reencoded": vC06Hex(re)})
	}
	d := vC06Sum(c)
	st.r.Nontrivial(string(d[:]))
	st.pool(ver, class, c, local)
	return ver, vC06Accepted
}

func (st *vC06State) versioned(tx *common.SignedTransaction) *common.VersionedTransaction {
	return vC06Clone(tx).AsVersioned()
}

// roundTrip applies oracle (b) to a structurally valid transaction; returns its encoding.
func (st *vC06State) roundTrip(tx *common.SignedTransaction, class string) []byte {
	var b []byte
	if p, val, stack := verifkit.Guard(func() { b = st.versioned(tx).Marshal() }); p {
		st.r.Violation("C06|roundtrip|marshal-panic|"+verifkit.PanicSite(stack), fmt.Sprintf("Marshal panicked on a structurally valid transaction (%s): %v", class, val),
			map[string]any{"class": class, "case": st.caseNo, "fields": vC06Hex(vC06PayloadBlob(&tx.Transaction)), "auth": vC06Hex(vC06AuthBlob(tx))})
		return nil
	}
	// the encoding, the payload encoding and the hash of one value must not depend on the order in which they
	// are asked for, and bytes handed out earlier must not change afterwards
	if st.caseNo%2 == 0 {
		var pm1, pm1c, m1, m1c, pm2, m2, pmR, mR []byte
		var h1, hR crypto.Hash
		if p, _, _ := verifkit.Guard(func() {
			a := st.versioned(tx)
			switch st.rng.Intn(3) {
			case 0:
				pm1 = a.PayloadMarshal()
				pm1c = bytes.Clone(pm1)
				m1 = a.Marshal()
				m1c = bytes.Clone(m1)
				h1 = a.PayloadHash()
			case 1:
				m1 = a.Marshal()
				m1c = bytes.Clone(m1)
				pm1 = a.PayloadMarshal()
				pm1c = bytes.Clone(pm1)
				h1 = a.PayloadHash()
			default:
				pm1 = a.PayloadMarshal()
				pm1c = bytes.Clone(pm1)
				h1 = a.PayloadHash()
				m1 = a.Marshal()
				m1c = bytes.Clone(m1)
			}
			m2, pm2 = a.Marshal(), a.PayloadMarshal()
			ref := st.versioned(tx)
			hR = ref.PayloadHash()
			pmR, mR = ref.PayloadMarshal(), ref.Marshal()
		}); !p {
			st.r.Count("call_order_probes", 1)
			if h1 != hR || !bytes.Equal(pm1, pmR) || !bytes.Equal(pm1c, pmR) || !bytes.Equal(pm2, pmR) || !bytes.Equal(m1, mR) || !bytes.Equal(m1c, mR) || !bytes.Equal(m2, mR) {
				st.r.Violation("C06|api|result-depends-on-call-order|"+class, "PayloadMarshal / Marshal / PayloadHash of one transaction value give other results depending on the order of the calls (or change bytes handed out earlier)",
					map[string]any{"class": class, "case": st.caseNo, "encoding": vC06Hex(mR), "hash": hR.String(), "hash_in_this_order": h1.String(),
						"payload_equal": bytes.Equal(pm1, pmR) && bytes.Equal(pm1c, pmR) && bytes.Equal(pm2, pmR), "encoding_equal": bytes.Equal(m1, mR) && bytes.Equal(m1c, mR) && bytes.Equal(m2, mR)})
			}
		}
	}
	dec, status := st.observe2(b, class, false)
	if status == vC06Rejected {
		st.r.Violation("C06|roundtrip|rejected|"+class, "the decoder rejected the encoding of a structurally valid transaction",
			map[string]any{"class": class, "case": st.caseNo, "encoding": vC06Hex(b)})
	}
	if dec == nil {
		return nil
	}
	if !bytes.Equal(vC06PayloadBlob(&dec.Transaction), vC06PayloadBlob(&tx.Transaction)) {
		st.r.Violation("C06|roundtrip|payload-field-mismatch|"+class, "decode(encode(tx)) differs from tx in a payload field",
			map[string]any{"class": class, "case": st.caseNo, "encoding": vC06Hex(b)})
	}
	if !bytes.Equal(vC06AuthBlob(&dec.SignedTransaction), vC06AuthBlob(tx)) {
		st.r.Violation("C06|roundtrip|authorization-mismatch|"+class, "decode(encode(tx)) differs from tx in the signature data",
			map[string]any{"class": class, "case": st.caseNo, "encoding": vC06Hex(b)})
	}
	return b
}

func (st *vC06State) hashOf(tx *common.SignedTransaction) (h crypto.Hash, ok bool) {
	p, _, _ := verifkit.Guard(func() { h = st.versioned(tx).PayloadHash() })
	return h, !p
}

func (st *vC06State) runCase() {
	rng := st.rng
	st.l = vC06NewPool()
	tx := vC06GenTx(rng)
	b := st.roundTrip(tx, "generated")
	if b == nil {
		return
	}
	if st.r.SampleCount() < 3 && len(b) < 700 {
		st.r.Sample(map[string]any{"kind": "generated transaction, round-tripped", "encoding": hex.EncodeToString(b),
			"inputs": len(tx.Inputs), "outputs": len(tx.Outputs), "references": len(tx.References), "extra": len(tx.Extra)})
	}
	base, ok := st.hashOf(tx)
	if !ok {
		return // already reported by pool()
	}

	// --- authorization never moves the hash ---
	for k := 0; k < 3; k++ {
		alt := vC06Clone(tx)
		vC06Auth(rng, alt, k)
		if h, ok := st.hashOf(alt); ok && h != base {
			st.r.Violation("C06|hash|depends-on-authorization", "changing only the signature data changed PayloadHash",
				map[string]any{"case": st.caseNo, "encoding": vC06Hex(b), "auth_kind": k})
		}
		st.r.Count("auth_variants", 1)
		if ab := st.roundTrip(alt, "auth-variant"); ab != nil && k == 2 && st.r.SampleCount() < 5 && len(ab) < 500 {
			st.r.Sample(map[string]any{"kind": "same payload, aggregated signature", "encoding": hex.EncodeToString(ab)})
		}
	}
	// signature bytes only
	if len(tx.SignaturesMap) > 0 || tx.AggregatedSignature != nil {
		alt := vC06Clone(tx)
		if alt.AggregatedSignature != nil {
			alt.AggregatedSignature.Signature[rng.Intn(64)] ^= 1
		} else {
			for _, m := range alt.SignaturesMap {
				for _, s := range m {
					s[rng.Intn(64)] ^= 1
				}
			}
		}
		st.roundTrip(alt, "auth-variant")
	}

	// --- version ---
	{
		alt := vC06Clone(tx)
		alt.Version = common.TxVersionHashSignature + 1 + uint8(rng.Intn(200))
		if h, ok := st.hashOf(alt); !ok {
			st.r.Count("version_change_refused", 1)
		} else if h == base {
			st.r.Violation("C06|hash|field-ignored|version", "changing the version did not change PayloadHash",
				map[string]any{"case": st.caseNo, "encoding": vC06Hex(b), "version": alt.Version})
		}
		var pb []byte
		if p, _, _ := verifkit.Guard(func() {
			pb = common.NewEncoder().EncodeTransaction(&common.SignedTransaction{Transaction: vC06Clone(alt).Transaction})
		}); !p {
			own := st.versioned(tx).PayloadMarshal()
			if bytes.Equal(pb, own) {
				st.r.Violation("C06|payload|field-ignored|version", "the payload encoding does not depend on the version",
					map[string]any{"case": st.caseNo, "encoding": vC06Hex(b), "version": alt.Version})
			}
			st.r.Count("version_change_encoded", 1)
		}
	}

	// --- every single payload-field change moves the hash and the payload encoding ---
	baseFields := vC06PayloadBlob(&tx.Transaction)
	basePayload := st.versioned(tx).PayloadMarshal()
	nm := 8
	if st.r.Thorough() {
		nm = 14
	}
	perm := rng.Perm(len(vC06Mutators))
	done := 0
	for _, mi := range perm {
		if done >= nm {
			break
		}
		m := vC06Mutators[mi]
		alt := vC06Clone(tx)
		if !m.f(rng, alt) {
			continue
		}
		if bytes.Equal(vC06PayloadBlob(&alt.Transaction), baseFields) {
			st.r.Count("mutant_noop", 1)
			continue
		}
		done++
		st.mutApplied[m.name]++
		st.r.Eval()
		var h crypto.Hash
		var pm []byte
		if p, val, stack := verifkit.Guard(func() { v := st.versioned(alt); h = v.PayloadHash(); pm = v.PayloadMarshal() }); p {
			st.r.Violation("C06|hash-panic|"+verifkit.PanicSite(stack), fmt.Sprintf("PayloadHash panicked after changing %s: %v", m.name, val),
				map[string]any{"case": st.caseNo, "encoding": vC06Hex(b), "field": m.name})
			continue
		}
		if h == base {
			st.r.Violation("C06|hash|field-ignored|"+m.name, "changing one payload field ("+m.name+") did not change PayloadHash",
				map[string]any{"case": st.caseNo, "encoding": vC06Hex(b), "field": m.name, "mutant_payload": vC06Hex(pm)})
		}
		if bytes.Equal(pm, basePayload) {
			st.r.Violation("C06|payload|collision|"+m.name, "two transactions that differ in "+m.name+" have the same payload encoding",
				map[string]any{"case": st.caseNo, "encoding": vC06Hex(b), "field": m.name})
		}
		st.roundTrip(alt, "field-mutant")
	}

	// --- structure-aware non-canonical spellings of the same transaction ---
	canon := vC06Encode(tx, vC06NoOpts())
	if !bytes.Equal(canon, b) {
		st.refMismatch++
		if st.refMismatch == 1 {
			st.r.Note("reference_encoder_first_mismatch", map[string]any{"case": st.caseNo, "repo": vC06Hex(b), "harness": vC06Hex(canon)})
		}
	} else {
		st.r.Count("loose_encoder_agrees", 1)
		st.variants(tx, b)
	}

	// --- byte level ---
	st.byteLevel(b)
	st.prev = b
}

func (st *vC06State) variants(tx *common.SignedTransaction, b []byte) {
	rng := st.rng
	try := func(o *vC06Opts, class string) {
		c := vC06Encode(tx, o)
		if bytes.Equal(c, b) {
			st.r.Count("variant_same_as_canonical", 1)
			return
		}
		st.r.Count("variants_"+class, 1)
		st.observe(c, class)
	}
	if n := vC06CountInts(tx); n > 0 {
		for k := 0; k < 2; k++ {
			o := vC06NoOpts()
			o.padInt, o.padN = rng.Intn(n), 1+rng.Intn(3)
			try(o, "integer-leading-zeros")
		}
	}
	if a := tx.AggregatedSignature; a != nil {
		for mode := 1; mode <= 4; mode++ {
			o := vC06NoOpts()
			o.aggMode, o.padN = mode, rng.Intn(3)
			try(o, [...]string{"", "mask-forced-sparse", "mask-forced-ordinary", "mask-trailing-zero-bytes", "mask-sparse-unsorted"}[mode])
		}
	} else {
		for i, m := range tx.SignaturesMap {
			if len(m) < 1 || rng.Intn(3) == 0 && len(tx.SignaturesMap) > 4 {
				continue
			}
			for mode := 1; mode <= 3; mode++ {
				o := vC06NoOpts()
				o.sigMap, o.sigMode = i, mode
				try(o, [...]string{"", "sigmap-unsorted", "sigmap-duplicate-extra", "sigmap-duplicate-index"}[mode])
			}
			if i >= 3 {
				break
			}
		}
		if len(tx.SignaturesMap) <= 4 && rng.Intn(20) == 0 {
			o := vC06NoOpts()
			o.mapsCount = common.SliceCountLimit + 1 + rng.Intn(3)
			try(o, "sigmaps-over-limit")
		}
	}
}

func (st *vC06State) byteLevel(b []byte) {
	rng := st.rng
	n := len(b)
	// budget by size: small encodings are explored at every offset, large ones by sampling
	truncSample, tail, exts, offsets, values := 0, 0, 16, n, 4
	switch {
	case n <= 600:
	case n <= 4000:
		truncSample, tail, exts, offsets, values = 150, 60, 8, 150, 2
	default:
		truncSample, tail, exts, offsets, values = 30, 30, 3, 30, 1
	}
	// truncations
	if truncSample == 0 {
		for l := 0; l < n; l++ {
			st.observe(b[:l], "truncation")
		}
	} else {
		for k := 0; k < truncSample; k++ {
			st.observe(b[:rng.Intn(n)], "truncation")
		}
		for l := n - tail; l < n; l++ {
			st.observe(b[:l], "truncation")
		}
	}
	// extensions by 1..16 bytes
	for k := 1; k <= exts; k++ {
		ext := make([]byte, n+k)
		copy(ext, b)
		st.observe(ext, "extension")
		rng.Read(ext[n:])
		st.observe(ext, "extension")
	}
	// single-byte substitutions
	all := st.r.Thorough() && n <= 260 && st.caseNo%25 == 0
	buf := make([]byte, n)
	for k := 0; k < offsets; k++ {
		off := k
		if offsets < n {
			off = rng.Intn(n)
		}
		if all {
			for v := 1; v < 256; v++ {
				copy(buf, b)
				buf[off] ^= byte(v)
				st.observe(buf, "byte-substitution")
			}
			continue
		}
		for vi, v := range [...]byte{byte(1 << uint(rng.Intn(8))), 0xff, byte(1 + rng.Intn(255))} {
			if vi >= values {
				break
			}
			copy(buf, b)
			buf[off] ^= v
			st.observe(buf, "byte-substitution")
		}
		if values >= 4 {
			copy(buf, b)
			buf[off]++
			st.observe(buf, "byte-substitution")
		}
	}
	if n > 4000 {
		return
	}
	// splices with the previous case's encoding
	if len(st.prev) > 8 && len(st.prev) < 4000 {
		for k := 0; k < 8; k++ {
			i, j := rng.Intn(n), rng.Intn(len(st.prev))
			sp := append(append([]byte{}, b[:i]...), st.prev[j:]...)
			st.observe(sp, "splice")
		}
	}
	// deletions / duplications of a short run
	for k := 0; k < 8; k++ {
		i := rng.Intn(n)
		l := 1 + rng.Intn(4)
		if i+l > n {
			l = n - i
		}
		del := append(append([]byte{}, b[:i]...), b[i+l:]...)
		st.observe(del, "run-deleted")
		dup := append(append(append([]byte{}, b[:i+l]...), b[i:i+l]...), b[i+l:]...)
		st.observe(dup, "run-duplicated")
	}
	// random strings behind a valid or nearly valid header
	for k := 0; k < 8; k++ {
		l := rng.Intn(200)
		s := make([]byte, 4+l)
		rng.Read(s)
		copy(s, []byte{0x77, 0x77, 0x00, common.TxVersionHashSignature})
		switch rng.Intn(6) {
		case 0:
			s[3] = byte(rng.Intn(256))
		case 1:
			s[rng.Intn(3)] = byte(rng.Intn(256))
		case 2: // mostly zero body: small counts, so the decoder gets far
			for i := 36; i < len(s); i++ {
				if rng.Intn(4) != 0 {
					s[i] = 0
				}
			}
		}
		st.observe(s, "random-string")
	}
}

// TestVerif_C06: transaction encoding is canonical and its hash is content-addressed.
func TestVerif_C06(t *testing.T) {
	r := verifkit.Start(t, "C06", "exploration")
	r.SetRule("seeded structural generator (0..256 inputs incl. genesis/deposit/mint in any combination, 0..256 outputs of every type with 0..256 keys, scripts, withdrawals, " +
		"0..256 references, extra 0..120 kB, amounts 0..2^2600 units, no signatures / signature maps (0..256 maps, 0..340 entries) / aggregated signatures in empty, ordinary and sparse form); " +
		"per transaction: round trip, 3 authorization variants, up to 8 (thorough 14) single-field payload mutants incl. field-boundary shifts, non-canonical spellings from the harness's own encoder " +
		"(leading-zero integers, unsorted/duplicate signature-map entries, alternative signer-mask forms, trailing mask bytes, >256 maps), every truncation, 1..16-byte extensions, " +
		"4 substitutions per offset (all 255 on a sample of small encodings in the thorough tier; encodings above 600 bytes are sampled at 30..150 offsets), splices, run deletions/duplications, random strings; " +
		"non-trivial = distinct byte strings the decoder accepted (each is re-encoded, compared and entered into the payload/hash bijection pool)")
	r.Assume("Integer.String (checked by C33) is the observation channel for amounts in the structural digest")
	r.Assume("SHA-256 truncated to 128 bits identifies byte strings in the pool; a collision of it is taken as impossible")
	r.Assume("encodings above ~120 kB (up to the 4 MiB limit) are not generated; transaction versions other than 5 cannot be encoded by the exported API and are only probed for a differing payload")
	st := &vC06State{r: r, rng: r.Rand(), g: vC06NewPool(), l: vC06NewPool(), poolCap: 1_000_000, mutApplied: map[string]int{}}
	n := r.N(1000, 10000)
	for i := 0; i < n; i++ {
		st.caseNo = i
		st.runCase()
		if r.Violations() > 12 {
			break
		}
	}
	for k, v := range st.mutApplied {
		r.Count("field_mutant_"+k, v)
	}
	r.Note("pool_payloads", len(st.g.byFields))
	r.Note("cases", n)
	if st.refMismatch > 0 {
		r.Inconclusive(fmt.Sprintf("the harness's own encoder disagrees with Marshal on %d generated transactions (format drift?); non-canonical spellings were not exercised for them", st.refMismatch))
	}
	if st.r.Counter("accepted_byte-substitution") == 0 || st.r.Counter("loose_encoder_agrees") == 0 {
		r.Inconclusive("no accepted byte-level mutant or no agreeing reference encoding was observed")
	}
	r.Finish()
}
