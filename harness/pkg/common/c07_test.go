package common_test

// C07: snapshot encoding is canonical and the snapshot hash commits the payload.
//
// Oracles on every byte string the real decoder (UnmarshalVersionedSnapshot) accepts:
//  (A) the input is exactly VersionedMarshal(decoded) (payload + signature + full 8-byte
//      topology suffix) or exactly that encoding without the 8-byte suffix;
//  (B) 1..255 strictly increasing transaction hashes; round 0 => exactly one transaction and
//      no references; round > 0 => references present;
//  (C) over the pool of all observed snapshots, "same (version, node, round, references,
//      transactions, timestamp)" <=> "same PayloadHash"; single-field changes must move the
//      hash, signature / topology / cached-hash changes must not.

import (
	"bytes"
	"crypto/sha256"
	"encoding/binary"
	"encoding/hex"
	"fmt"
	"math/rand"
	"sort"
	"testing"

	"github.com/MixinNetwork/mixin/common"
	"github.com/MixinNetwork/mixin/crypto"
	"github.com/MixinNetwork/mixin/verifkit"
)

// vC07Model is the harness-side description of a snapshot plus how to spell it.
type vC07Model struct {
	Version  uint8
	Node     crypto.Hash
	Round    uint64
	Refs     *common.RoundLink
	Txs      []crypto.Hash
	Time     uint64
	Sig      *crypto.CosiSignature
	Topo     uint64
	WithTopo bool
}

func vC07Hash(rng *rand.Rand) crypto.Hash {
	var h crypto.Hash
	rng.Read(h[:])
	return h
}

func vC07U64(rng *rand.Rand) uint64 {
	switch rng.Intn(8) {
	case 0:
		return 0
	case 1:
		return 1
	case 2:
		return ^uint64(0) - uint64(rng.Intn(2))
	case 3:
		return uint64(rng.Intn(1000))
	case 4:
		return 1 << uint(rng.Intn(64))
	default:
		return rng.Uint64() >> uint(rng.Intn(40))
	}
}

func vC07SortHashes(hs []crypto.Hash) {
	sort.Slice(hs, func(i, j int) bool { return bytes.Compare(hs[i][:], hs[j][:]) < 0 })
}

// vC07Gen draws a snapshot that satisfies the statement's structure rules.
func vC07Gen(rng *rand.Rand) *vC07Model {
	m := &vC07Model{Version: common.SnapshotVersionCommonEncoding, Node: vC07Hash(rng)}
	if rng.Intn(5) == 0 {
		m.Round = 0
	} else {
		m.Round = vC07U64(rng)
		if m.Round == 0 {
			m.Round = 1
		}
	}
	n := 1
	if m.Round > 0 {
		m.Refs = &common.RoundLink{Self: vC07Hash(rng), External: vC07Hash(rng)}
		if rng.Intn(30) == 0 {
			m.Refs.External = m.Refs.Self
		}
		switch c := rng.Intn(100); {
		case c < 35:
			n = 1
		case c < 80:
			n = 2 + rng.Intn(5)
		case c < 96:
			n = 7 + rng.Intn(40)
		case c < 98:
			n = common.SnapshotTransactionsMaximum
		default:
			n = 1 + rng.Intn(common.SnapshotTransactionsMaximum)
		}
	}
	seen := map[crypto.Hash]bool{}
	for len(m.Txs) < n {
		h := vC07Hash(rng)
		if len(m.Txs) > 0 && rng.Intn(4) == 0 { // neighbours that differ late or by one bit
			h = m.Txs[rng.Intn(len(m.Txs))]
			h[31-rng.Intn(3)] ^= byte(1 << uint(rng.Intn(8)))
		}
		if !seen[h] {
			seen[h] = true
			m.Txs = append(m.Txs, h)
		}
	}
	vC07SortHashes(m.Txs)
	m.Time = vC07U64(rng)
	if rng.Intn(10) < 7 {
		m.Sig = &crypto.CosiSignature{Mask: vC07U64(rng)}
		if m.Sig.Mask == 0 {
			m.Sig.Mask = 1
		}
		rng.Read(m.Sig.Signature[:])
	}
	m.Topo = vC07U64(rng)
	m.WithTopo = rng.Intn(3) != 0
	return m
}

func (m *vC07Model) clone() *vC07Model {
	c := *m
	if m.Refs != nil {
		r := *m.Refs
		c.Refs = &r
	}
	c.Txs = append([]crypto.Hash{}, m.Txs...)
	if m.Sig != nil {
		c.Sig = &crypto.CosiSignature{Mask: m.Sig.Mask, Signature: m.Sig.Signature}
	}
	return &c
}

// snapshot builds a fresh repository object from the model.
func (m *vC07Model) snapshot() *common.SnapshotWithTopologicalOrder {
	s := &common.Snapshot{Version: m.Version, NodeId: m.Node, RoundNumber: m.Round, Timestamp: m.Time}
	if m.Refs != nil {
		r := *m.Refs
		s.References = &r
	}
	s.Transactions = append([]crypto.Hash{}, m.Txs...)
	if m.Sig != nil {
		s.Signature = &crypto.CosiSignature{Mask: m.Sig.Mask, Signature: m.Sig.Signature}
	}
	return &common.SnapshotWithTopologicalOrder{Snapshot: s, TopologicalOrder: m.Topo}
}

// ---------- independent structural digests ----------

type vC07D [16]byte

func vC07Sum(b []byte) vC07D {
	s := sha256.Sum256(b)
	var d vC07D
	copy(d[:], s[:16])
	return d
}

func vC07PayloadBlob(s *common.Snapshot) []byte {
	var w bytes.Buffer
	var u [8]byte
	put := func(v uint64) { binary.BigEndian.PutUint64(u[:], v); w.Write(u[:]) }
	w.WriteString("v")
	put(uint64(s.Version))
	w.WriteString("n")
	w.Write(s.NodeId[:])
	w.WriteString("r")
	put(s.RoundNumber)
	if s.References == nil {
		w.WriteString("-")
	} else {
		w.WriteString("+")
		w.Write(s.References.Self[:])
		w.Write(s.References.External[:])
	}
	w.WriteString("t")
	put(uint64(len(s.Transactions)))
	for _, h := range s.Transactions {
		w.Write(h[:])
	}
	w.WriteString("T")
	put(s.Timestamp)
	return w.Bytes()
}

func vC07FullBlob(s *common.SnapshotWithTopologicalOrder) []byte {
	var w bytes.Buffer
	w.Write(vC07PayloadBlob(s.Snapshot))
	var u [8]byte
	if s.Signature == nil {
		w.WriteString("-")
	} else {
		w.WriteString("+")
		binary.BigEndian.PutUint64(u[:], s.Signature.Mask)
		w.Write(u[:])
		w.Write(s.Signature.Signature[:])
	}
	binary.BigEndian.PutUint64(u[:], s.TopologicalOrder)
	w.Write(u[:])
	return w.Bytes()
}

// ---------- the harness's own (loose) encoder: only a generator of candidate byte strings ----------

type vC07Opts struct {
	refCount  int  // -1: natural (0 or 2); else the count written, followed by that many hashes
	txCount   int  // -1: natural; else the count written (hashes written: all of Txs)
	zeroMask  bool // write mask 0 but keep the 64 signature bytes
	versionHi byte
}

func vC07NoOpts() *vC07Opts { return &vC07Opts{refCount: -1, txCount: -1} }

func vC07Encode(m *vC07Model, o *vC07Opts) []byte {
	var b []byte
	b = append(b, 0x77, 0x77, o.versionHi, m.Version)
	b = append(b, m.Node[:]...)
	b = binary.BigEndian.AppendUint64(b, m.Round)
	switch {
	case o.refCount >= 0:
		b = binary.BigEndian.AppendUint16(b, uint16(o.refCount))
		refs := [][]byte{}
		if m.Refs != nil {
			refs = append(refs, m.Refs.Self[:], m.Refs.External[:])
		}
		for i := 0; i < o.refCount; i++ {
			if i < len(refs) {
				b = append(b, refs[i]...)
			} else {
				b = append(b, make([]byte, 32)...)
			}
		}
	case m.Refs == nil:
		b = append(b, 0, 0)
	default:
		b = append(b, 0, 2)
		b = append(b, m.Refs.Self[:]...)
		b = append(b, m.Refs.External[:]...)
	}
	tc := len(m.Txs)
	if o.txCount >= 0 {
		tc = o.txCount
	}
	b = binary.BigEndian.AppendUint16(b, uint16(tc))
	for _, h := range m.Txs {
		b = append(b, h[:]...)
	}
	b = binary.BigEndian.AppendUint64(b, m.Time)
	if m.Sig == nil {
		b = append(b, make([]byte, 8)...)
	} else {
		if o.zeroMask {
			b = append(b, make([]byte, 8)...)
		} else {
			b = binary.BigEndian.AppendUint64(b, m.Sig.Mask)
		}
		b = append(b, m.Sig.Signature[:]...)
	}
	if m.WithTopo {
		b = binary.BigEndian.AppendUint64(b, m.Topo)
	}
	return b
}

// ---------- monitor ----------

type vC07Entry struct {
	hash   crypto.Hash
	caseNo int32
	class  string
}

type vC07Pool struct {
	byFields map[vC07D]vC07Entry // payload-field digest -> hash
	byHash   map[vC07D]vC07D     // hash -> payload-field digest
}

func vC07NewPool() *vC07Pool {
	return &vC07Pool{byFields: map[vC07D]vC07Entry{}, byHash: map[vC07D]vC07D{}}
}

type vC07State struct {
	r      *verifkit.Run
	rng    *rand.Rand
	caseNo int

	// g: pool over the whole run (generated snapshots and model-level variants);
	// l: pool of the current case's byte-level mutants (reset per case, checked against g as well)
	g, l    *vC07Pool
	poolCap int

	prev        []byte
	refMismatch int
}

func vC07Hex(b []byte) string {
	if len(b) > 20000 {
		return hex.EncodeToString(b[:20000]) + fmt.Sprintf("...(%d bytes)", len(b))
	}
	return hex.EncodeToString(b)
}

func (st *vC07State) pool(s *common.Snapshot, class string, enc []byte, local bool) {
	var h crypto.Hash
	// PayloadHash sorts s.Transactions in place; hash a copy so that the observation is not disturbed
	cp := *s
	cp.Transactions = append([]crypto.Hash{}, s.Transactions...)
	if p, val, stack := verifkit.Guard(func() { h = cp.PayloadHash() }); p {
		st.r.Violation("C07|hash-panic|"+verifkit.PanicSite(stack), fmt.Sprintf("PayloadHash panicked on a %s snapshot: %v", class, val),
			map[string]any{"class": class, "case": st.caseNo, "encoding": vC07Hex(enc)})
		return
	}
	fd := vC07Sum(vC07PayloadBlob(s))
	var hd vC07D
	copy(hd[:], h[:16])
	entry := func(d vC07D) vC07Entry {
		if e, ok := st.g.byFields[d]; ok {
			return e
		}
		return st.l.byFields[d]
	}
	seenF, seenH := false, false
	for _, pl := range [...]*vC07Pool{st.g, st.l} {
		if e, ok := pl.byFields[fd]; ok {
			seenF = true
			if e.hash != h {
				st.r.Violation("C07|hash|depends-on-non-payload-data", "two snapshots with identical version/node/round/references/transactions/timestamp have different hashes",
					map[string]any{"class": class, "case": st.caseNo, "encoding": vC07Hex(enc), "hash": h.String(),
						"earlier_hash": e.hash.String(), "earlier_case": e.caseNo, "earlier_class": e.class})
			}
		}
		if d, ok := pl.byHash[hd]; ok {
			seenH = true
			if d != fd {
				e := entry(d)
				st.r.Violation("C07|hash|collision", "two snapshots that differ in a payload field have the same hash",
					map[string]any{"class": class, "case": st.caseNo, "encoding": vC07Hex(enc), "hash": h.String(),
						"earlier_case": e.caseNo, "earlier_class": e.class})
			}
		}
	}
	into := st.g
	if local {
		into = st.l
	} else if len(st.g.byFields) >= st.poolCap {
		st.r.Count("pool_full_not_inserted", 1)
		return
	}
	if seenF {
		st.r.Count("pool_same_payload_seen_again", 1)
	} else {
		into.byFields[fd] = vC07Entry{hash: h, caseNo: int32(st.caseNo), class: class}
	}
	if !seenH {
		into.byHash[hd] = fd
	}
}

const (
	vC07Accepted = iota
	vC07Rejected
	vC07Reported
)

// observe feeds one byte string to the decoder and applies oracles (A), (B) and the pool.
func (st *vC07State) observe(c []byte, class string) (*common.SnapshotWithTopologicalOrder, int) {
	return st.observe2(c, class, true)
}

func (st *vC07State) observe2(c []byte, class string, local bool) (*common.SnapshotWithTopologicalOrder, int) {
	st.r.Eval()
	var s *common.SnapshotWithTopologicalOrder
	var err error
	if p, val, stack := verifkit.Guard(func() { s, err = common.UnmarshalVersionedSnapshot(c) }); p {
		st.r.Violation("C07|decode-panic|"+verifkit.PanicSite(stack), fmt.Sprintf("the snapshot decoder panicked on a byte string (%s): %v", class, val),
			map[string]any{"class": class, "case": st.caseNo, "input": vC07Hex(c)})
		return nil, vC07Reported
	}
	if err != nil || s == nil || s.Snapshot == nil {
		st.r.Count("rejected_"+class, 1)
		return nil, vC07Rejected
	}
	st.r.Count("accepted_"+class, 1)
	wit := func() map[string]any {
		return map[string]any{"class": class, "case": st.caseNo, "input": vC07Hex(c), "decoded_round": s.RoundNumber,
			"decoded_transactions": len(s.Transactions), "decoded_topology": s.TopologicalOrder}
	}

	// (B) structure of an accepted snapshot
	nt := len(s.Transactions)
	if nt < 1 || nt > 255 {
		st.r.Violation("C07|decode|transaction-count", fmt.Sprintf("accepted snapshot holds %d transactions", nt), wit())
	}
	for i := 1; i < nt; i++ {
		if bytes.Compare(s.Transactions[i-1][:], s.Transactions[i][:]) >= 0 {
			st.r.Violation("C07|decode|transaction-order", "accepted snapshot's transaction hashes are not strictly increasing", wit())
			break
		}
	}
	if s.RoundNumber == 0 {
		if nt != 1 || s.References != nil {
			st.r.Violation("C07|decode|round-zero-structure", fmt.Sprintf("accepted round-0 snapshot has %d transactions, references present=%v", nt, s.References != nil), wit())
		}
	} else if s.References == nil {
		st.r.Violation("C07|decode|missing-references", "accepted snapshot of a later round carries no references", wit())
	}

	// (A) canonical form: full encoding with suffix, or exactly without the 8 suffix bytes
	var full []byte
	dup := &common.SnapshotWithTopologicalOrder{Snapshot: &common.Snapshot{}, TopologicalOrder: s.TopologicalOrder}
	*dup.Snapshot = *s.Snapshot
	dup.Transactions = append([]crypto.Hash{}, s.Transactions...)
	if p, val, stack := verifkit.Guard(func() { full = dup.VersionedMarshal() }); p {
		st.r.Violation("C07|decode|reencode-panic", fmt.Sprintf("an accepted byte string decodes to a snapshot that cannot be encoded: %v at %s", val, verifkit.PanicSite(stack)), wit())
		return nil, vC07Reported
	}
	if len(full) < 8 {
		st.r.Violation("C07|decode|noncanonical", "re-encoding is shorter than a topology suffix", wit())
		return nil, vC07Reported
	}
	bare := full[:len(full)-8]
	form := ""
	switch {
	case bytes.Equal(c, full):
		form = "with-topology"
	case bytes.Equal(c, bare):
		form = "no-topology"
	}
	if form == "" {
		w := wit()
		w["reencoded_with_suffix"] = vC07Hex(full)
		extra := len(c) - len(bare)
		switch {
		case bytes.HasPrefix(c, bare) && extra >= 1 && extra <= 7:
			w["stray_bytes"] = extra
			st.r.Violation("C07|decode|partial-topology-suffix",
				"the decoder accepted a snapshot encoding followed by 1..7 stray bytes (neither the full 8-byte topology suffix nor none); the decoded snapshot does not re-encode to the input", w)
		case bytes.HasPrefix(c, bare) && extra > 8:
			st.r.Violation("C07|decode|trailing-bytes", "the decoder accepted bytes after the topology suffix", w)
		default:
			st.r.Violation("C07|decode|noncanonical|"+class, "the decoder accepted a byte string that is not the encoding of the decoded snapshot", w)
		}
	} else {
		st.r.Count("form_"+form, 1)
	}
	d := vC07Sum(c)
	st.r.Nontrivial(string(d[:]))
	st.pool(s.Snapshot, class, c, local)
	return s, vC07Accepted
}

func (st *vC07State) hashOf(m *vC07Model) (h crypto.Hash, ok bool) {
	p, _, _ := verifkit.Guard(func() { h = m.snapshot().PayloadHash() })
	return h, !p
}

type vC07Mut struct {
	name string
	f    func(rng *rand.Rand, m *vC07Model) bool
}

var vC07PayloadMutators = []vC07Mut{
	{"node", func(rng *rand.Rand, m *vC07Model) bool {
		m.Node[rng.Intn(32)] ^= byte(1 << uint(rng.Intn(8)))
		return true
	}},
	{"round", func(rng *rand.Rand, m *vC07Model) bool {
		// the payload encoder itself accepts every (round, references) pair with >= 1 transactions,
		// except round 0 with more than one transaction
		old := m.Round
		m.Round ^= 1 << uint(rng.Intn(64))
		if m.Round == 0 && len(m.Txs) != 1 {
			m.Round = old + 1
		}
		return true
	}},
	{"references.presence", func(rng *rand.Rand, m *vC07Model) bool {
		if m.Refs != nil {
			m.Refs = nil
		} else if rng.Intn(2) == 0 {
			m.Refs = &common.RoundLink{} // all-zero link vs none
		} else {
			m.Refs = &common.RoundLink{Self: vC07Hash(rng), External: vC07Hash(rng)}
		}
		return true
	}},
	{"references.self", func(rng *rand.Rand, m *vC07Model) bool {
		if m.Refs == nil {
			return false
		}
		m.Refs.Self[rng.Intn(32)] ^= byte(1 << uint(rng.Intn(8)))
		return true
	}},
	{"references.external", func(rng *rand.Rand, m *vC07Model) bool {
		if m.Refs == nil {
			return false
		}
		m.Refs.External[rng.Intn(32)] ^= byte(1 << uint(rng.Intn(8)))
		return true
	}},
	{"references.swap", func(rng *rand.Rand, m *vC07Model) bool {
		if m.Refs == nil || m.Refs.Self == m.Refs.External {
			return false
		}
		m.Refs.Self, m.Refs.External = m.Refs.External, m.Refs.Self
		return true
	}},
	{"transaction", func(rng *rand.Rand, m *vC07Model) bool {
		i := rng.Intn(len(m.Txs))
		h := m.Txs[i]
		h[rng.Intn(32)] ^= byte(1 << uint(rng.Intn(8)))
		for _, o := range m.Txs {
			if o == h {
				return false
			}
		}
		m.Txs[i] = h
		vC07SortHashes(m.Txs)
		return true
	}},
	{"transactions.add", func(rng *rand.Rand, m *vC07Model) bool {
		if m.Round == 0 || len(m.Txs) >= common.SnapshotTransactionsMaximum {
			return false
		}
		m.Txs = append(m.Txs, vC07Hash(rng))
		vC07SortHashes(m.Txs)
		return true
	}},
	{"transactions.remove", func(rng *rand.Rand, m *vC07Model) bool {
		if len(m.Txs) < 2 {
			return false
		}
		i := rng.Intn(len(m.Txs))
		m.Txs = append(m.Txs[:i:i], m.Txs[i+1:]...)
		return true
	}},
	{"transactions|timestamp.boundary", func(rng *rand.Rand, m *vC07Model) bool {
		// the last hash's leading 8 bytes become the timestamp
		if len(m.Txs) < 2 {
			return false
		}
		last := m.Txs[len(m.Txs)-1]
		m.Txs = m.Txs[:len(m.Txs)-1]
		m.Time = binary.BigEndian.Uint64(last[:8])
		return true
	}},
	{"timestamp", func(rng *rand.Rand, m *vC07Model) bool { m.Time ^= 1 << uint(rng.Intn(64)); return true }},
}

var vC07NonPayloadMutators = []vC07Mut{
	{"signature.presence", func(rng *rand.Rand, m *vC07Model) bool {
		if m.Sig != nil {
			m.Sig = nil
		} else {
			m.Sig = &crypto.CosiSignature{Mask: 1 + uint64(rng.Intn(1000))}
			rng.Read(m.Sig.Signature[:])
		}
		return true
	}},
	{"signature.mask", func(rng *rand.Rand, m *vC07Model) bool {
		if m.Sig == nil {
			return false
		}
		old := m.Sig.Mask
		m.Sig.Mask ^= 1 << uint(rng.Intn(64))
		if m.Sig.Mask == 0 {
			m.Sig.Mask = old + 1
		}
		return true
	}},
	{"signature.bytes", func(rng *rand.Rand, m *vC07Model) bool {
		if m.Sig == nil {
			return false
		}
		m.Sig.Signature[rng.Intn(64)] ^= byte(1 << uint(rng.Intn(8)))
		return true
	}},
	{"topology", func(rng *rand.Rand, m *vC07Model) bool {
		m.Topo ^= 1 << uint(rng.Intn(64))
		m.WithTopo = true
		return true
	}},
	{"topology.presence", func(rng *rand.Rand, m *vC07Model) bool { m.WithTopo = !m.WithTopo; return true }},
}

// valid reports whether the model satisfies the structure rules of the statement.
func (m *vC07Model) valid() bool {
	if m.Version != common.SnapshotVersionCommonEncoding || len(m.Txs) < 1 || len(m.Txs) > 255 {
		return false
	}
	if m.Round == 0 {
		return len(m.Txs) == 1 && m.Refs == nil
	}
	return m.Refs != nil
}

// roundTrip encodes a structurally valid snapshot with the repository's encoder, feeds it to the
// decoder, and compares the decoded object field by field.
func (st *vC07State) roundTrip(m *vC07Model, class string) []byte {
	var b []byte
	if p, val, stack := verifkit.Guard(func() { b = m.snapshot().VersionedMarshal() }); p {
		st.r.Inconclusive(fmt.Sprintf("VersionedMarshal panicked on a structurally valid snapshot (%v at %s); the monitor cannot build inputs", val, verifkit.PanicSite(stack)))
		return nil
	}
	if !m.WithTopo {
		b = b[:len(b)-8]
	}
	s, status := st.observe2(b, class, false)
	if status == vC07Rejected {
		st.r.Count("valid_encoding_rejected", 1)
		return nil
	}
	if s == nil {
		return nil
	}
	want := m.snapshot()
	if !m.WithTopo {
		want.TopologicalOrder = 0
	}
	if !bytes.Equal(vC07FullBlob(s), vC07FullBlob(want)) {
		st.r.Violation("C07|roundtrip|field-mismatch", "decoding the encoding of a snapshot yields different fields (the accepted bytes are not the encoding of what was decoded)",
			map[string]any{"class": class, "case": st.caseNo, "encoding": vC07Hex(b)})
	}
	return b
}

func (st *vC07State) runCase() {
	rng := st.rng
	st.l = vC07NewPool()
	m := vC07Gen(rng)
	b := st.roundTrip(m, "generated")
	if b == nil {
		return
	}
	if st.r.SampleCount() < 4 && len(b) < 400 {
		st.r.Sample(map[string]any{"kind": "generated snapshot, round-tripped", "encoding": hex.EncodeToString(b), "round": m.Round,
			"transactions": len(m.Txs), "signed": m.Sig != nil, "topology_suffix": m.WithTopo})
	}
	base, ok := st.hashOf(m)
	if !ok {
		return
	}

	// --- what the hash must ignore ---
	for _, mu := range vC07NonPayloadMutators {
		alt := m.clone()
		if !mu.f(rng, alt) {
			continue
		}
		st.r.Eval()
		if h, ok := st.hashOf(alt); ok && h != base {
			st.r.Violation("C07|hash|depends-on|"+mu.name, "changing only "+mu.name+" changed the snapshot hash",
				map[string]any{"case": st.caseNo, "encoding": vC07Hex(b), "changed": mu.name})
		}
		st.r.Count("nonpayload_"+mu.name, 1)
		st.roundTrip(alt, "nonpayload-variant")
	}
	{ // the cached Hash field is not payload either
		s := m.snapshot()
		s.Hash = vC07Hash(rng)
		var h crypto.Hash
		if p, _, _ := verifkit.Guard(func() { h = s.PayloadHash() }); !p && h != base {
			st.r.Violation("C07|hash|depends-on|hash-field", "the cached Hash field influences PayloadHash",
				map[string]any{"case": st.caseNo, "encoding": vC07Hex(b)})
		}
	}

	// --- what the hash must follow ---
	baseFields := vC07PayloadBlob(m.snapshot().Snapshot)
	for _, mu := range vC07PayloadMutators {
		alt := m.clone()
		if !mu.f(rng, alt) {
			continue
		}
		if bytes.Equal(vC07PayloadBlob(alt.snapshot().Snapshot), baseFields) {
			st.r.Count("mutant_noop", 1)
			continue
		}
		st.r.Eval()
		st.r.Count("payload_"+mu.name, 1)
		h, ok := st.hashOf(alt)
		if !ok {
			st.r.Count("payload_mutant_hash_refused_"+mu.name, 1)
			continue
		}
		if h == base {
			st.r.Violation("C07|hash|field-ignored|"+mu.name, "changing "+mu.name+" did not change the snapshot hash",
				map[string]any{"case": st.caseNo, "encoding": vC07Hex(b), "field": mu.name})
		}
		if alt.valid() {
			st.roundTrip(alt, "field-mutant")
		} else {
			st.pool(alt.snapshot().Snapshot, "field-mutant-model", nil, false)
		}
	}
	{ // version: only version 2 has a hash through the exported API; other versions must either be refused or hash differently
		alt := m.clone()
		alt.Version = common.SnapshotVersionCommonEncoding + 1 + uint8(rng.Intn(200))
		if h, ok := st.hashOf(alt); !ok {
			st.r.Count("version_change_refused", 1)
		} else if h == base {
			st.r.Violation("C07|hash|field-ignored|version", "changing the version did not change the snapshot hash",
				map[string]any{"case": st.caseNo, "encoding": vC07Hex(b), "version": alt.Version})
		}
		var p1, p2 []byte
		if p, _, _ := verifkit.Guard(func() {
			a, o := alt.snapshot().Snapshot, m.snapshot().Snapshot
			a.Signature, o.Signature = nil, nil
			p1 = common.NewEncoder().EncodeSnapshotPayload(a)
			p2 = common.NewEncoder().EncodeSnapshotPayload(o)
		}); !p {
			st.r.Count("version_change_encoded", 1)
			if bytes.Equal(p1, p2) || crypto.Blake3Hash(p1) == base {
				st.r.Violation("C07|hash|field-ignored|version", "the hashed payload encoding does not depend on the version",
					map[string]any{"case": st.caseNo, "encoding": vC07Hex(b), "version": alt.Version})
			}
		}
	}

	// --- structure-aware spellings the statement excludes ---
	canon := vC07Encode(m, vC07NoOpts())
	if !bytes.Equal(canon, b) {
		st.refMismatch++
		if st.refMismatch == 1 {
			st.r.Note("reference_encoder_first_mismatch", map[string]any{"case": st.caseNo, "repo": vC07Hex(b), "harness": vC07Hex(canon)})
		}
	} else {
		st.r.Count("loose_encoder_agrees", 1)
		st.variants(m)
	}

	st.byteLevel(m, b)
	st.prev = b
}

func (st *vC07State) variants(m *vC07Model) {
	rng := st.rng
	try := func(alt *vC07Model, o *vC07Opts, class string) {
		st.r.Count("variants_"+class, 1)
		st.observe(vC07Encode(alt, o), class)
	}
	both := func(alt *vC07Model, o *vC07Opts, class string) {
		a := alt.clone()
		a.WithTopo = true
		try(a, o, class)
		a = alt.clone()
		a.WithTopo = false
		try(a, o, class)
	}
	if len(m.Txs) >= 2 {
		a := m.clone()
		i := rng.Intn(len(a.Txs) - 1)
		a.Txs[i], a.Txs[i+1] = a.Txs[i+1], a.Txs[i]
		both(a, vC07NoOpts(), "transactions-unsorted")
		a = m.clone()
		a.Txs[i+1] = a.Txs[i]
		both(a, vC07NoOpts(), "transactions-duplicate")
		a = m.clone()
		for l, r := 0, len(a.Txs)-1; l < r; l, r = l+1, r-1 {
			a.Txs[l], a.Txs[r] = a.Txs[r], a.Txs[l]
		}
		both(a, vC07NoOpts(), "transactions-descending")
	}
	{ // zero transactions, 256 transactions, count that disagrees with the hashes present
		a := m.clone()
		a.Txs = nil
		both(a, vC07NoOpts(), "transactions-none")
		if rng.Intn(8) == 0 {
			a = m.clone()
			seen := map[crypto.Hash]bool{}
			for _, h := range a.Txs {
				seen[h] = true
			}
			for len(a.Txs) < 256+rng.Intn(3) {
				h := vC07Hash(rng)
				if !seen[h] {
					seen[h] = true
					a.Txs = append(a.Txs, h)
				}
			}
			vC07SortHashes(a.Txs)
			if a.Round == 0 {
				a.Round = 1
				a.Refs = &common.RoundLink{Self: vC07Hash(rng), External: vC07Hash(rng)}
			}
			both(a, vC07NoOpts(), "transactions-over-255")
		}
		o := vC07NoOpts()
		o.txCount = len(m.Txs) + 1 - 2*rng.Intn(2)
		both(m, o, "transactions-count-off-by-one")
	}
	// round zero with several transactions / with references; later round without references
	{
		a := m.clone()
		a.Round = 0
		if len(a.Txs) == 1 {
			a.Txs = append(a.Txs, vC07Hash(rng))
			vC07SortHashes(a.Txs)
		}
		a.Refs = nil
		both(a, vC07NoOpts(), "round-zero-many-transactions")
		a = m.clone()
		a.Round = 0
		a.Txs = a.Txs[:1]
		a.Refs = &common.RoundLink{Self: vC07Hash(rng), External: vC07Hash(rng)}
		both(a, vC07NoOpts(), "round-zero-with-references")
		a = m.clone()
		if a.Round == 0 {
			a.Round = 1 + uint64(rng.Intn(100))
		}
		a.Refs = nil
		both(a, vC07NoOpts(), "later-round-without-references")
	}
	// reference list of another length
	for _, rc := range []int{1, 3} {
		o := vC07NoOpts()
		o.refCount = rc
		a := m.clone()
		if a.Round == 0 {
			a.Round = 1
		}
		both(a, o, "references-count")
	}
	// zero mask followed by signature bytes
	if m.Sig != nil {
		o := vC07NoOpts()
		o.zeroMask = true
		both(m, o, "zero-mask-with-signature")
	}
	// version bytes
	{
		a := m.clone()
		a.Version = uint8(rng.Intn(256))
		if a.Version != common.SnapshotVersionCommonEncoding {
			both(a, vC07NoOpts(), "other-version")
		}
		o := vC07NoOpts()
		o.versionHi = byte(1 + rng.Intn(255))
		both(m, o, "other-version")
	}
}

func (st *vC07State) byteLevel(m *vC07Model, b []byte) {
	rng := st.rng
	n := len(b)
	small := n <= 700

	// both spellings of the same snapshot as bases for truncation / extension
	mt := m.clone()
	mt.WithTopo = true
	full := vC07Encode(mt, vC07NoOpts())
	bare := full[:len(full)-8]
	if !bytes.Equal(b, full) && !bytes.Equal(b, bare) {
		full, bare = b, b
	}

	// truncations of the full form (includes the 1..7 byte partial suffixes and the suffix-free form)
	if small {
		for l := 0; l < len(full); l++ {
			st.observe(full[:l], "truncation")
		}
	} else {
		for k := 0; k < 60; k++ {
			st.observe(full[:rng.Intn(len(full))], "truncation")
		}
		for l := len(full) - 90; l < len(full); l++ {
			st.observe(full[:l], "truncation")
		}
	}
	// extensions of both forms by 1..16 bytes: zero bytes, random bytes, 0xff bytes
	for _, base := range [][]byte{bare, full} {
		for k := 1; k <= 16; k++ {
			ext := make([]byte, len(base)+k)
			copy(ext, base)
			st.observe(ext, "extension")
			rng.Read(ext[len(base):])
			st.observe(ext, "extension")
			for i := len(base); i < len(ext); i++ {
				ext[i] = 0xff
			}
			st.observe(ext, "extension")
		}
	}
	// single-byte substitutions of the generated spelling
	offsets, values := n, 4
	if !small {
		offsets, values = 120, 2
	}
	all := st.r.Thorough() && n <= 330 && st.caseNo%20 == 0
	buf := make([]byte, n)
	for k := 0; k < offsets; k++ {
		off := k
		if offsets < n {
			off = rng.Intn(n)
		}
		if all {
			for v := 1; v < 256; v++ {
				copy(buf, b)
				buf[off] ^= byte(v)
				st.observe(buf, "byte-substitution")
			}
			continue
		}
		for vi, v := range [...]byte{byte(1 << uint(rng.Intn(8))), 0xff, byte(1 + rng.Intn(255))} {
			if vi >= values {
				break
			}
			copy(buf, b)
			buf[off] ^= v
			st.observe(buf, "byte-substitution")
		}
		if values >= 4 {
			copy(buf, b)
			buf[off]++
			st.observe(buf, "byte-substitution")
		}
	}
	// splices with the previous case's encoding
	if len(st.prev) > 8 {
		for k := 0; k < 8; k++ {
			i, j := rng.Intn(n), rng.Intn(len(st.prev))
			if i+len(st.prev)-j > 20000 {
				continue
			}
			sp := append(append([]byte{}, b[:i]...), st.prev[j:]...)
			st.observe(sp, "splice")
		}
	}
	// deletions / duplications of a short run (32-byte runs move whole hashes)
	if n <= 20000 {
		for k := 0; k < 10; k++ {
			i := rng.Intn(n)
			l := [...]int{1, 2, 8, 32, 64}[rng.Intn(5)]
			if i+l > n {
				l = n - i
			}
			del := append(append([]byte{}, b[:i]...), b[i+l:]...)
			st.observe(del, "run-deleted")
			dup := append(append(append([]byte{}, b[:i+l]...), b[i:i+l]...), b[i+l:]...)
			st.observe(dup, "run-duplicated")
		}
	}
	// random strings behind a valid or nearly valid header
	for k := 0; k < 10; k++ {
		l := rng.Intn(260)
		s := make([]byte, 4+l)
		rng.Read(s)
		copy(s, []byte{0x77, 0x77, 0x00, common.SnapshotVersionCommonEncoding})
		switch rng.Intn(6) {
		case 0:
			s[3] = byte(rng.Intn(256))
		case 1:
			s[rng.Intn(3)] = byte(rng.Intn(256))
		case 2, 3: // plausible counts so that the decoder reaches the tail
			if len(s) > 48 {
				s[44], s[45] = 0, byte(rng.Intn(3))
			}
		}
		st.observe(s, "random-string")
	}
}

// TestVerif_C07: snapshot encoding is canonical and the snapshot hash commits the payload.
func TestVerif_C07(t *testing.T) {
	r := verifkit.Start(t, "C07", "exploration")
	r.SetRule("seeded generator over all snapshot field combinations the statement admits (round 0 with one transaction and no references; rounds 1..2^64-1 with references and 1..255 sorted transactions, incl. " +
		"hashes differing in one late bit; timestamps/rounds/masks/topology at 0, 1, 2^k, 2^64-1; signed or unsigned; with or without the topology suffix); per snapshot: round trip, 5 non-payload variants " +
		"(signature presence/mask/bytes, topology value/presence) that must keep the hash, up to 11 single-field payload mutants (incl. all-zero link vs none, swapped links, last hash shifted into the timestamp) " +
		"and a version change that must move it; excluded spellings from the harness's own encoder (unsorted / duplicate / descending / zero / 256+ transactions, count off by one, round 0 with several transactions or " +
		"with references, later round without references, 1 or 3 references, zero mask followed by signature bytes, other version bytes) each with and without suffix; every truncation of the full form, " +
		"extensions of both forms by 1..16 zero / random / 0xff bytes, 4 substitutions per offset (all 255 on sampled small encodings in the thorough tier), splices, run deletions/duplications, random strings; " +
		"non-trivial = distinct byte strings the decoder accepted (each checked for structure, re-encoded in both forms, and entered into the payload/hash pool)")
	r.Assume("SHA-256 truncated to 128 bits identifies byte strings / field tuples in the pool; a collision of it is taken as impossible")
	r.Assume("only snapshot version 2 can be hashed or encoded through the exported API; other versions are probed through the exported payload encoder only")
	st := &vC07State{r: r, rng: r.Rand(), g: vC07NewPool(), l: vC07NewPool(), poolCap: 1_500_000}
	n := r.N(2500, 22000)
	for i := 0; i < n; i++ {
		st.caseNo = i
		st.runCase()
		if r.Violations() > 12 {
			break
		}
	}
	r.Note("pool_payloads", len(st.g.byFields))
	r.Note("cases", n)
	if st.refMismatch > 0 {
		r.Inconclusive(fmt.Sprintf("the harness's own encoder disagrees with VersionedMarshal on %d generated snapshots (format drift?); excluded spellings were not exercised for them", st.refMismatch))
	}
	if c := r.Counter("valid_encoding_rejected"); c > 0 {
		r.Inconclusive(fmt.Sprintf("the decoder rejected %d encodings of snapshots that satisfy the statement's structure rules; acceptance could not be observed for them", c))
	}
	if r.Counter("form_with-topology") == 0 || r.Counter("form_no-topology") == 0 || r.Counter("accepted_byte-substitution") == 0 {
		r.Inconclusive("one of the two accepted forms or accepted byte-level mutants were never observed")
	}
	r.Finish()
}
