package common_test

import (
	"fmt"
	"math/big"
	"math/rand"

	"github.com/MixinNetwork/mixin/common"
	"github.com/MixinNetwork/mixin/crypto"
	"github.com/MixinNetwork/mixin/verifgen"
	"github.com/MixinNetwork/mixin/verifledger"
)

// verifWallet is the harness-side view of spendable outputs on a simulated ledger.
type verifWallet struct {
	sim   *verifledger.Sim
	rng   *rand.Rand
	addrs []common.Address
	outs  []*verifgen.Out // unspent (as far as finalized transactions are concerned)
	nonce int
}

var (
	verifAssetBTC = common.BitcoinAssetId
	verifAssetETH = common.EthereumAssetId
	verifAssetXIN = common.XINAssetId
	verifAssetAny = crypto.Sha256Hash([]byte("verif-random-asset"))
)

type verifAssetInfo struct {
	id    crypto.Hash
	chain crypto.Hash
	key   string
}

func verifAssets() []verifAssetInfo {
	return []verifAssetInfo{
		{verifAssetXIN, common.XINAsset.Chain, common.XINAsset.AssetKey},
		{verifAssetBTC, common.BitcoinAssetId, "c6d0c728-2624-429b-8e0d-d9d19b6592fa"},
		{verifAssetETH, common.EthereumAssetId, "0x0000000000000000000000000000000000000000"},
		{verifAssetAny, common.EthereumAssetId, "0x1111111111111111111111111111111111111111"},
	}
}

func newVerifWallet(sim *verifledger.Sim, rng *rand.Rand, naddr int) *verifWallet {
	w := &verifWallet{sim: sim, rng: rng}
	for i := 0; i < naddr; i++ {
		w.addrs = append(w.addrs, verifgen.Addr(fmt.Sprintf("%s:wallet:%d", sim.Net.Label, i)))
	}
	return w
}

func (w *verifWallet) seed() []byte {
	w.nonce++
	return verifgen.Seed64(fmt.Sprintf("%s:mask:%d", w.sim.Net.Label, w.nonce))
}

// spec makes a script output spec with 1..maxKeys owners and a random threshold.
func (w *verifWallet) spec(amount common.Integer, maxKeys int) verifgen.OutSpec {
	nk := 1 + w.rng.Intn(maxKeys)
	perm := w.rng.Perm(len(w.addrs))
	if nk > len(perm) {
		nk = len(perm)
	}
	owners := make([]common.Address, nk)
	for i := 0; i < nk; i++ {
		owners[i] = w.addrs[perm[i]]
	}
	thr := uint8(1 + w.rng.Intn(nk))
	return verifgen.OutSpec{Type: common.OutputTypeScript, Owners: owners, Threshold: thr, Amount: amount, Seed: w.seed()}
}

// deposit builds a valid deposit of the asset.
func (w *verifWallet) deposit(a verifAssetInfo, units *big.Int) (*common.VersionedTransaction, []verifgen.OutSpec) {
	w.nonce++
	spec := w.spec(verifgen.Units(units), 3)
	tx := verifgen.Deposit(&w.sim.Net.Custodian, a.id, a.chain, a.key,
		fmt.Sprintf("0xdeposit%06d", w.nonce), uint64(w.rng.Intn(4)), verifgen.Units(units), spec)
	return tx, []verifgen.OutSpec{spec}
}

// settle admits and finalizes a transaction and updates the wallet.
func (w *verifWallet) settle(tx *common.VersionedTransaction, specs []verifgen.OutSpec, ts uint64) error {
	if err := w.sim.Admit(tx, ts); err != nil {
		return err
	}
	_, _, err := w.sim.Finalize([]*common.VersionedTransaction{tx}, ts)
	if err != nil {
		return err
	}
	w.applied(tx, specs)
	return nil
}

func (w *verifWallet) applied(tx *common.VersionedTransaction, specs []verifgen.OutSpec) {
	spent := map[string]bool{}
	for _, in := range tx.Inputs {
		if in.Deposit == nil && in.Mint == nil && len(in.Genesis) == 0 {
			spent[fmt.Sprintf("%s:%d", in.Hash, in.Index)] = true
		}
	}
	var keep []*verifgen.Out
	for _, o := range w.outs {
		if !spent[o.Ref()] {
			keep = append(keep, o)
		}
	}
	w.outs = keep
	for _, o := range verifgen.OutsOf(tx, specs) {
		if o.Type == common.OutputTypeScript && len(o.Owners) == len(o.Keys) && len(o.Keys) > 0 {
			w.outs = append(w.outs, o)
		}
	}
}

// pick returns up to n distinct unspent outputs of one asset (random asset that has any).
func (w *verifWallet) pick(n int) []*verifgen.Out {
	if len(w.outs) == 0 {
		return nil
	}
	first := w.outs[w.rng.Intn(len(w.outs))]
	var same []*verifgen.Out
	for _, o := range w.outs {
		if o.Asset == first.Asset {
			same = append(same, o)
		}
	}
	w.rng.Shuffle(len(same), func(i, j int) { same[i], same[j] = same[j], same[i] })
	if n > len(same) {
		n = len(same)
	}
	return same[:n]
}

func verifSumUnits(outs []*verifgen.Out) *big.Int {
	t := new(big.Int)
	for _, o := range outs {
		t.Add(t, verifgen.UnitsOf(o.Amount))
	}
	return t
}

// split divides total units into k positive parts (k <= total).
func verifSplit(rng *rand.Rand, total *big.Int, k int) []*big.Int {
	if total.Cmp(big.NewInt(int64(k))) < 0 {
		k = int(total.Int64())
	}
	if k < 1 {
		k = 1
	}
	parts := make([]*big.Int, k)
	rest := new(big.Int).Set(total)
	for i := 0; i < k-1; i++ {
		// leave at least (k-1-i) units for the rest
		max := new(big.Int).Sub(rest, big.NewInt(int64(k-1-i)))
		p := new(big.Int).Rand(rng, max)
		p.Add(p, big.NewInt(1))
		if p.Cmp(max) > 0 {
			p.Set(max)
		}
		parts[i] = p
		rest.Sub(rest, p)
	}
	parts[k-1] = rest
	return parts
}
