package common_test

import (
	"fmt"
	"math/big"
	"strings"
	"testing"

	"github.com/MixinNetwork/mixin/common"
	"github.com/MixinNetwork/mixin/crypto"
	"github.com/MixinNetwork/mixin/verifgen"
	"github.com/MixinNetwork/mixin/verifkit"
	"github.com/MixinNetwork/mixin/verifledger"
)

// verifConservationOracle checks the statement of C01 for an accepted
// transaction, reading every ledger fact back from the store.
func verifConservationOracle(sim *verifledger.Sim, tx *common.VersionedTransaction) (bad string) {
	in := new(big.Int)
	special := 0
	listed := map[string]bool{}
	for _, i := range tx.Inputs {
		if i.Deposit == nil && i.Mint == nil && len(i.Genesis) == 0 {
			k := fmt.Sprintf("%s:%d", i.Hash, i.Index)
			if listed[k] {
				return fmt.Sprintf("input %s is listed twice (one existing output cannot fund the outputs twice)", k)
			}
			listed[k] = true
		}
		switch {
		case len(i.Genesis) > 0:
			return "genesis input accepted"
		case i.Mint != nil: // an input with a mint payload is a mint (that is how the transaction is typed and accounted)
			in.Add(in, verifgen.UnitsOf(i.Mint.Amount))
			special++
		case i.Deposit != nil:
			in.Add(in, verifgen.UnitsOf(i.Deposit.Amount))
			special++
			// the deposited external asset is the one registered under the transaction's asset id (once registered)
			if info, _, err := sim.Store.ReadAssetWithBalance(tx.Asset); err == nil && info != nil &&
				(info.Chain != i.Deposit.Chain || info.AssetKey != i.Deposit.AssetKey) {
				return fmt.Sprintf("the deposit is of external asset (%s, %s) but is credited as %s, registered as (%s, %s)",
					i.Deposit.Chain, i.Deposit.AssetKey, tx.Asset, info.Chain, info.AssetKey)
			}
		default:
			u, err := sim.Store.ReadUTXOLock(i.Hash, i.Index)
			if err != nil {
				return "store read error " + err.Error()
			}
			if u == nil {
				return fmt.Sprintf("input %s:%d does not exist", i.Hash, i.Index)
			}
			if u.Asset != tx.Asset {
				return fmt.Sprintf("input %s:%d is of asset %s, transaction moves %s", i.Hash, i.Index, u.Asset, tx.Asset)
			}
			if sim.Ref.Outs[verifledger.RefKey(i.Hash, i.Index)] == nil {
				return fmt.Sprintf("input %s:%d is not a finalized output in the reference ledger", i.Hash, i.Index)
			}
			in.Add(in, verifgen.UnitsOf(u.Amount))
		}
	}
	if special > 0 && len(tx.Inputs) != 1 {
		return fmt.Sprintf("special input combined with %d other inputs", len(tx.Inputs)-1)
	}
	out := new(big.Int)
	for k, o := range tx.Outputs {
		if o.Amount.Sign() <= 0 {
			return fmt.Sprintf("output %d amount %s is not positive", k, o.Amount)
		}
		out.Add(out, verifgen.UnitsOf(o.Amount))
	}
	if in.Sign() <= 0 {
		return "input total is not positive"
	}
	if in.Cmp(out) != 0 {
		return fmt.Sprintf("inputs total %s units, outputs total %s units", in, out)
	}
	return ""
}

// TestVerif_C01: accepted transactions conserve value within one asset.
func TestVerif_C01(t *testing.T) {
	r := verifkit.Start(t, "C01", "exploration")
	r.SetRule("seeded ledger simulator (real BadgerStore + own genesis; states reached only by finalizing validated transactions); each candidate is a correctly signed " +
		"deposit / transfer / withdrawal submission / mint / spend of a node-removal output, valid or with one amount/asset/input perturbation; the oracle re-reads every input from the store; " +
		"non-trivial = distinct accepted transactions plus distinct near-misses rejected (perturbed candidates)")
	r.Assume("snapshot timestamps are later than the genesis custodian record (earlier timestamps cannot carry a certificate)")
	rng := r.Rand()
	sim, err := verifledger.NewSim(fmt.Sprintf("c01-%d", r.Seed), 7, 1700000000, t.TempDir())
	if err != nil {
		t.Fatal(err)
	}
	defer sim.Close()
	w := newVerifWallet(sim, rng, 6)
	assets := verifAssets()

	// bootstrap: a few deposits per asset so transfers have inputs
	for _, a := range assets {
		for k := 0; k < 3; k++ {
			tx, specs := w.deposit(a, big.NewInt(int64(1+rng.Intn(5_0000_0000))))
			if err := w.settle(tx, specs, sim.NextTime(uint64(1+rng.Intn(1e9)))); err != nil {
				t.Fatalf("bootstrap deposit: %v", err)
			}
		}
	}

	n := r.N(6000, 150000)
	accepted, rejectedNear := 0, 0
	for i := 0; i < n; i++ {
		ts := sim.NextTime(uint64(1 + rng.Intn(2e9)))
		var tx *common.VersionedTransaction
		var specs []verifgen.OutSpec
		kind, pert := "", "none"
		switch c := rng.Intn(10); {
		case c < 2: // deposit
			kind = "deposit"
			a := assets[rng.Intn(len(assets))]
			units := big.NewInt(int64(1 + rng.Intn(3_0000_0000)))
			tx, specs = w.deposit(a, units)
			switch rng.Intn(8) {
			case 0: // output differs from deposit amount by one unit
				pert = "deposit-output+1"
				tx.Outputs[0].Amount = verifgen.Units(new(big.Int).Add(units, big.NewInt(1)))
			case 1:
				pert = "deposit-output-1"
				if units.Cmp(big.NewInt(1)) > 0 {
					tx.Outputs[0].Amount = verifgen.Units(new(big.Int).Sub(units, big.NewInt(1)))
				}
			case 2: // second output of zero
				pert = "deposit-extra-zero-output"
				sp := w.spec(common.Zero, 2)
				verifgen.AddOutputs(&tx.Transaction, []verifgen.OutSpec{sp})
			case 3: // another token of the same chain, credited as this (already registered) asset
				pert = "deposit-of-another-asset-key-on-the-same-chain"
				tx.Inputs[0].Deposit.AssetKey = fmt.Sprintf("0x%040x", rng.Int63())
			case 4: // the same key on another chain
				pert = "deposit-of-the-same-asset-key-on-another-chain"
				other := assets[rng.Intn(len(assets))]
				if other.chain == tx.Inputs[0].Deposit.Chain {
					tx.Inputs[0].Deposit.Chain = crypto.Sha256Hash([]byte("verif-other-chain"))
				} else {
					tx.Inputs[0].Deposit.Chain = other.chain
				}
			}
			if pert != "none" {
				verifResignDeposit(tx, &sim.Net.Custodian)
			}
		case c < 9: // transfer / withdrawal
			ins := w.pick(1 + rng.Intn(4))
			if len(ins) == 0 {
				continue
			}
			kind = "transfer"
			total := verifSumUnits(ins)
			parts := verifSplit(rng, total, 1+rng.Intn(4))
			for _, p := range parts {
				specs = append(specs, w.spec(verifgen.Units(p), 3))
			}
			asset := ins[0].Asset
			if rng.Intn(8) == 0 && len(parts) >= 1 { // first output becomes a withdrawal submission
				kind = "withdrawal"
				specs[0] = verifgen.OutSpec{Type: common.OutputTypeWithdrawalSubmit, Amount: specs[0].Amount,
					Withdrawal: &common.WithdrawalData{Address: "addr", Tag: "tag"}}
			}
			var signIns []*verifgen.Out
			switch rng.Intn(12) {
			case 11: // two more outputs of 2^63 units each: every amount fits a machine word, their sum is 2^64
				pert = "outputs-plus-2^64-in-word-sized-parts"
				half := new(big.Int).Lsh(big.NewInt(1), 63)
				specs = append(specs, w.spec(verifgen.Units(half), 2), w.spec(verifgen.Units(half), 2))
			case 10: // an output that does not exist: the index of a real output shifted by a multiple of 256
				pert = "input-index-shifted-by-256"
				orig := ins[rng.Intn(len(ins))]
				al := *orig
				al.Index += uint([]int{256, 512, 768}[rng.Intn(3)])
				signIns = append(append([]*verifgen.Out{}, ins...), orig) // signed with the keys of the real output
				ins = append(ins, &al)
				specs = append(specs, w.spec(al.Amount, 2))
			case 9: // the same output listed twice, its amount claimed twice
				pert = "duplicated-input"
				dup := ins[rng.Intn(len(ins))]
				ins = append(ins, dup)
				specs = append(specs, w.spec(dup.Amount, 2))
			case 0:
				pert = "output+1"
				specs[len(specs)-1].Amount = verifgen.Units(new(big.Int).Add(parts[len(parts)-1], big.NewInt(1)))
			case 1:
				pert = "output-1"
				if parts[len(parts)-1].Cmp(big.NewInt(1)) > 0 {
					specs[len(specs)-1].Amount = verifgen.Units(new(big.Int).Sub(parts[len(parts)-1], big.NewInt(1)))
				} else {
					pert = "none"
				}
			case 2:
				pert = "zero-output-added"
				specs = append(specs, w.spec(common.Zero, 2))
			case 3: // spend an output of another asset together with these
				pert = "foreign-asset-input"
				var other *verifgen.Out
				for _, o := range w.outs {
					if o.Asset != asset {
						other = o
						break
					}
				}
				if other != nil {
					ins = append(ins, other)
					// outputs still sum to the own-asset total: accepting would mint value of `asset`
					if rng.Intn(2) == 0 { // or also claim the foreign amount
						specs = append(specs, w.spec(other.Amount, 2))
					}
				} else {
					pert = "none"
				}
			case 4: // wrong transaction asset for all inputs
				pert = "wrong-tx-asset"
				for _, a := range assets {
					if a.id != asset {
						asset = a.id
						break
					}
				}
			case 5: // huge extra output (2^64 coins)
				pert = "huge-output"
				h := new(big.Int).Lsh(big.NewInt(1), 64+uint(rng.Intn(400)))
				specs = append(specs, w.spec(verifgen.Units(h), 2))
			}
			raw := verifgen.BuildTx(asset, ins, specs, nil, nil)
			if signIns == nil {
				signIns = ins
			}
			if rng.Intn(3) == 0 {
				signers := verifgen.FirstN(signIns)
				tx, err = verifgen.SignAggregate(raw, signIns, signers, verifgen.Seed64(fmt.Sprint("agg", i)))
				if err != nil {
					tx = verifgen.SignMap(raw, signIns, signers)
				}
			} else {
				tx = verifgen.SignMap(raw, signIns, verifgen.FirstN(signIns))
			}
		case c == 9 && rng.Intn(2) == 0: // a special input (mint or deposit) combined with ordinary inputs, either order
			kind = "special+ordinary"
			pert = "special-input-with-other-inputs"
			ins := w.pick(1 + rng.Intn(2))
			if len(ins) == 0 {
				continue
			}
			units := big.NewInt(int64(1 + rng.Intn(10_0000_0000)))
			raw := common.NewTransactionV5(ins[0].Asset)
			mint := rng.Intn(2) == 0
			if mint {
				raw.Asset = common.XINAssetId
			}
			addSpecial := func() {
				if mint {
					raw.AddUniversalMintInput(uint64(3000+i), verifgen.Units(units))
				} else {
					a := assets[rng.Intn(len(assets))]
					for _, x := range assets {
						if x.id == raw.Asset {
							a = x
						}
					}
					raw.AddDepositInput(&common.DepositData{Chain: a.chain, AssetKey: a.key, Transaction: fmt.Sprintf("0xmix%d", i), Index: 0, Amount: verifgen.Units(units)})
				}
			}
			first := rng.Intn(2) == 0
			if first {
				addSpecial()
			}
			for _, in := range ins {
				raw.AddInput(in.Hash, in.Index)
			}
			if !first {
				addSpecial()
			}
			raw.References = []crypto.Hash{sim.LastConsensusTx}
			// outputs: the special amount alone, or special + ordinary total
			total := new(big.Int).Set(units)
			if rng.Intn(2) == 0 {
				total.Add(total, verifSumUnits(ins))
			}
			for _, p := range verifSplit(rng, total, 1+rng.Intn(2)) {
				specs = append(specs, w.spec(verifgen.Units(p), 2))
			}
			verifgen.AddOutputs(raw, specs)
			tx = raw.AsVersioned()
			msg := tx.PayloadHash()
			for k, in := range raw.Inputs {
				m := map[uint16]*crypto.Signature{}
				if in.Mint != nil || in.Deposit != nil {
					sig := sim.Net.Custodian.PrivateSpendKey.Sign(msg)
					m[0] = &sig
				} else {
					idx := k
					if first {
						idx = k - 1
					}
					for _, ki := range verifgen.FirstN(ins[idx : idx+1])[0] {
						sig := ins[idx].PrivKey(ki).Sign(msg)
						m[uint16(ki)] = &sig
					}
				}
				tx.SignaturesMap = append(tx.SignaturesMap, m)
			}
		default: // mint with arbitrary amount (Validate itself does not know the schedule)
			kind = "mint"
			units := big.NewInt(int64(1 + rng.Intn(100_0000_0000)))
			parts := verifSplit(rng, units, 1+rng.Intn(3))
			raw := common.NewTransactionV5(common.XINAssetId)
			raw.AddUniversalMintInput(uint64(2000+i), verifgen.Units(units))
			raw.References = []crypto.Hash{sim.LastConsensusTx}
			for _, p := range parts {
				specs = append(specs, w.spec(verifgen.Units(p), 2))
			}
			if rng.Intn(3) == 0 {
				pert = "mint-output+1"
				specs[0].Amount = verifgen.Units(new(big.Int).Add(parts[0], big.NewInt(1)))
			} else if rng.Intn(4) == 0 {
				// the one input carries a deposit payload as well (another amount); the transaction is typed, locked and
				// accounted as a mint, so the mint amount is what the outputs may carry
				a := assets[rng.Intn(len(assets))]
				other := new(big.Int).Add(units, big.NewInt(int64(1+rng.Intn(1e6))))
				raw.Inputs[0].Deposit = &common.DepositData{Chain: a.chain, AssetKey: a.key, Transaction: fmt.Sprintf("0xboth%d", i), Index: 0, Amount: verifgen.Units(other)}
				pert = "mint-input-with-deposit-payload"
				if rng.Intn(2) == 0 {
					pert = "mint-input-with-deposit-payload-outputs-follow-the-deposit"
					specs = []verifgen.OutSpec{w.spec(verifgen.Units(other), 2)}
				}
			}
			verifgen.AddOutputs(raw, specs)
			tx = raw.AsVersioned()
			sig := sim.Net.Signers[0].PrivateSpendKey.Sign(tx.PayloadHash())
			tx.SignaturesMap = []map[uint16]*crypto.Signature{{0: &sig}}
		}

		var verr error
		var parsed *common.VersionedTransaction
		// both validation modes: proposal/admission, and (if that one refuses) the finalization path
		mode := "admission"
		panicked, pv, stack := verifkit.Guard(func() {
			parsed, verr = verifgen.Reparse(tx)
			if verr != nil {
				return
			}
			verr = parsed.Validate(sim.Store, ts, false)
			if verr != nil {
				if p2, err := verifgen.Reparse(tx); err == nil && p2.Validate(sim.Store, ts, true) == nil {
					parsed, verr, mode = p2, nil, "finalization-path"
				}
			}
		})
		r.Eval()
		r.Count("accepted_or_rejected_in_mode_"+mode, 1)
		r.Count("kind_"+kind, 1)
		if panicked {
			// crashes are the subject of C05; here they only mean "no decision observed"
			r.Count("panics_seen_(C05_territory)", 1)
			_ = pv
			_ = stack
			continue
		}
		if verr != nil {
			if pert != "none" {
				rejectedNear++
				r.Nontrivial("reject|" + pert + "|" + tx.PayloadHash().String())
				r.Count("rejected_"+pert, 1)
			} else {
				r.Count("rejected_unperturbed", 1)
			}
			continue
		}
		accepted++
		r.Count("accepted_"+kind, 1)
		r.Nontrivial("accept|" + tx.PayloadHash().String())
		if bad := verifConservationOracle(sim, parsed); bad != "" {
			r.Violation("C01|"+kind+"|"+pert, fmt.Sprintf("accepted %s transaction (perturbation %s, %s validation) violates conservation: %s", kind, pert, mode, bad),
				map[string]any{"kind": kind, "perturbation": pert, "validation_mode": mode, "tx": fmt.Sprintf("%x", tx.Marshal()), "snapshot_time": ts, "oracle": bad})
			continue
		}
		if r.SampleCount() < 4 {
			r.Sample(map[string]any{"kind": kind, "perturbation": pert, "inputs": len(tx.Inputs), "outputs": len(tx.Outputs), "asset": tx.Asset.String(), "accepted": true})
		}
		// evolve the ledger with most accepted transactions
		// (a mint whose input also carries a deposit payload validates as a mint, but the store's write path takes it
		// for a deposit and gives up; the kernel's mint rules never let such a transaction get that far)
		if rng.Intn(4) != 0 && !strings.HasPrefix(pert, "mint-input-with-deposit-payload") {
			admit := w.sim.Admit
			if mode == "finalization-path" {
				admit = w.sim.AdmitFinal
			}
			if err := admit(parsed, ts); err != nil {
				r.Count("admit_errors", 1)
				continue
			}
			if _, _, err := sim.Finalize([]*common.VersionedTransaction{parsed}, ts); err != nil {
				r.Count("finalize_errors_(C16_territory)", 1)
				continue
			}
			w.applied(parsed, specs)
			r.Count("finalized", 1)
		}
	}
	// Outputs of a node removal are ordinary spendable XIN outputs of another output type: remove two genesis
	// nodes, then offer their outputs to transactions of the right and of a wrong asset (both validation paths).
	if _, _, gtxs, gerr := sim.Net.Genesis.BuildSnapshots(); gerr == nil {
		for gi := 0; gi < 2 && gi < len(sim.Net.Signers); gi++ {
			var acc *common.VersionedTransaction
			for _, gt := range gtxs {
				if len(gt.Outputs) > 0 && gt.Outputs[0].Type == common.OutputTypeNodeAccept && len(gt.Extra) >= 32 &&
					string(gt.Extra[:32]) == string(sim.Net.Signers[gi].PublicSpendKey[:]) {
					acc = gt
				}
			}
			if acc == nil {
				r.Count("node_removal_genesis_transaction_not_found", 1)
				continue
			}
			payee := sim.Net.Payees[gi]
			rm := verifgen.Remove(sim.Net.Signers[gi].PublicSpendKey, payee.PublicSpendKey, &payee, acc, verifgen.Seed64(fmt.Sprint("c01-remove", r.Seed, gi)), []crypto.Hash{sim.LastConsensusTx})
			ts := sim.NextTime(uint64(1 + rng.Intn(1e9)))
			if err := sim.Admit(rm, ts); err != nil {
				r.Count("node_removal_rejected", 1)
				t.Logf("node removal rejected: %v", err)
				continue
			}
			if _, _, err := sim.Finalize([]*common.VersionedTransaction{rm}, ts); err != nil {
				r.Count("node_removal_not_finalized", 1)
				continue
			}
			r.Count("node_removals_finalized", 1)
			out := verifgen.OutsOf(rm, []verifgen.OutSpec{{Owners: []common.Address{payee}}})[0]
			ins := []*verifgen.Out{out}
			for ci, a := range assets {
				spec := w.spec(out.Amount, 2)
				raw := verifgen.BuildTx(a.id, ins, []verifgen.OutSpec{spec}, nil, nil)
				cand := verifgen.SignMap(raw, ins, [][]int{{0}})
				kind, pert := "spend-of-node-removal-output", "none"
				if a.id != common.XINAssetId {
					pert = "wrong-tx-asset"
				}
				for _, fork := range []bool{false, true} {
					var verr error
					var parsed *common.VersionedTransaction
					panicked, _, _ := verifkit.Guard(func() {
						parsed, verr = verifgen.Reparse(cand)
						if verr == nil {
							verr = parsed.Validate(sim.Store, sim.NextTime(uint64(1+ci)), fork)
						}
					})
					r.Eval()
					if panicked || verr != nil {
						if pert != "none" {
							rejectedNear++
							r.Nontrivial(fmt.Sprintf("reject|%s|%s|%v", kind, cand.PayloadHash(), fork))
						}
						r.Count("rejected_"+kind+"_"+pert, 1)
						continue
					}
					accepted++
					r.Count("accepted_"+kind, 1)
					r.Nontrivial(fmt.Sprintf("accept|%s|%v", cand.PayloadHash(), fork))
					if bad := verifConservationOracle(sim, parsed); bad != "" {
						r.Violation("C01|"+kind+"|"+pert, fmt.Sprintf("accepted %s transaction (perturbation %s, fork=%v) violates conservation: %s", kind, pert, fork, bad),
							map[string]any{"kind": kind, "perturbation": pert, "tx": fmt.Sprintf("%x", cand.Marshal()), "oracle": bad})
					}
				}
			}
		}
	}
	r.Note("accepted", accepted)
	r.Note("near_miss_rejected", rejectedNear)
	r.Note("ledger_outputs_at_end", len(sim.Ref.Outs))
	if accepted < 50 {
		r.Inconclusive(fmt.Sprintf("only %d accepted transactions", accepted))
	}
	r.Finish()
}

func verifResignDeposit(tx *common.VersionedTransaction, custodian *common.Address) {
	fresh := tx.Transaction
	ver := fresh.AsVersioned()
	sig := custodian.PrivateSpendKey.Sign(ver.PayloadHash())
	ver.SignaturesMap = []map[uint16]*crypto.Signature{{0: &sig}}
	*tx = *ver
}
