package common_test

import (
	"bytes"
	"crypto/sha3"
	"encoding/binary"
	"encoding/hex"
	"encoding/json"
	"fmt"
	"math/big"
	"math/rand"
	"strings"
	"sync"
	"testing"

	"filippo.io/edwards25519"
	"github.com/MixinNetwork/mixin/common"
	"github.com/MixinNetwork/mixin/crypto"
	"github.com/MixinNetwork/mixin/util/base58"
	"github.com/MixinNetwork/mixin/verifkit"
)

// ---------------------------------------------------------------------------
// C32 — one-time keys and addresses round-trip correctly.
//
// Oracle clauses (exactly the ones of the property statement):
//  G1  DeriveGhostPublicKey(r, A, B, i) == public key of DeriveGhostPrivateKey(R, a, b, i)
//      (public key taken both with Key.Public() and with an independent x*G
//      computed with filippo.io/edwards25519)
//  G2  ViewGhostOutputKey(P, a, R, i) == B
//  R1  print -> parse gives the same value for Address, Key, Hash, Signature,
//      CosiSignature (String/FromString and JSON)
//  R2  whatever NewAddressFromString / Address.UnmarshalJSON accepts prints
//      back identically
//  B1  base58 Decode(Encode(b)) == b and Encode(Decode(s)) == s for strings in
//      the alphabet (the mechanism R1/R2 of addresses rest on)
// A panic inside any of the exercised functions on these inputs is reported as
// a violation of the clause being evaluated (the value did not come back).
// ---------------------------------------------------------------------------

const vC32Alphabet = "123456789ABCDEFGHJKLMNPQRSTUVWXYZabcdefghijkmnopqrstuvwxyz"

// vC32RefB58 is an independent (digit by digit, math/big) base58 printer used
// only to build candidate address strings the repository did not print itself.
func vC32RefB58(b []byte) string {
	x := new(big.Int).SetBytes(b)
	radix := big.NewInt(58)
	m := new(big.Int)
	var out []byte
	for x.Sign() > 0 {
		x.DivMod(x, radix, m)
		out = append(out, vC32Alphabet[m.Int64()])
	}
	for _, c := range b {
		if c != 0 {
			break
		}
		out = append(out, '1')
	}
	for i, j := 0, len(out)-1; i < j; i, j = i+1, j-1 {
		out[i], out[j] = out[j], out[i]
	}
	return string(out)
}

// vC32RefAddressString prints spend||view as an address string with stdlib
// SHA3-256 and the reference base58 printer.
func vC32RefAddressString(prefix string, spend, view []byte, checksumPrefix string) string {
	payload := append(append([]byte{}, spend...), view...)
	sum := sha3.Sum256(append([]byte(checksumPrefix), payload...))
	payload = append(payload, sum[:4]...)
	return prefix + vC32RefB58(payload)
}

// vC32RefPublic computes x*G independently of crypto.Key.Public.
func vC32RefPublic(x *crypto.Key) (crypto.Key, error) {
	var out crypto.Key
	s, err := edwards25519.NewScalar().SetCanonicalBytes(x[:])
	if err != nil {
		return out, err
	}
	copy(out[:], edwards25519.NewIdentityPoint().ScalarBaseMult(s).Bytes())
	return out, nil
}

func vC32RandBytes(rng *rand.Rand, n int) []byte {
	b := make([]byte, n)
	rng.Read(b)
	return b
}

var vC32GroupOrder, _ = new(big.Int).SetString("7237005577332262213973186563042994240857116359379907606001950938285454250989", 10)

// vC32ScalarKey turns an integer (reduced mod l, never zero) into a private key.
func vC32ScalarKey(v *big.Int) crypto.Key {
	v = new(big.Int).Mod(v, vC32GroupOrder)
	if v.Sign() == 0 {
		v.SetInt64(1)
	}
	be := v.FillBytes(make([]byte, 32))
	var k crypto.Key
	for i := range be {
		k[i] = be[31-i]
	}
	return k
}

// vC32RandPrivate: mostly uniformly random scalars (through the repository's
// own seed expansion, as wallets do), sometimes edge scalars.
func vC32RandPrivate(rng *rand.Rand) (crypto.Key, string) {
	switch rng.Intn(12) {
	case 0:
		return vC32ScalarKey(big.NewInt(int64(1 + rng.Intn(16)))), "small"
	case 1:
		return vC32ScalarKey(new(big.Int).Sub(vC32GroupOrder, big.NewInt(int64(1+rng.Intn(16))))), "l-small"
	case 2:
		return vC32ScalarKey(new(big.Int).Lsh(big.NewInt(1), uint(rng.Intn(252)))), "pow2"
	default:
		return crypto.NewKeyFromSeed(vC32RandBytes(rng, 64)), "seed"
	}
}

type vC32Wallet struct {
	addr  common.Address
	class string
}

// vC32RandAddress makes a wallet. NewAddressFromSeed contains the repository's
// own print/parse assertion; if that fires it is reported (R1) and the wallet
// is built without it so that the run continues.
func (s *vC32State) randAddress() vC32Wallet {
	rng := s.rng
	if rng.Intn(4) != 0 {
		seed := vC32RandBytes(rng, 64)
		var a common.Address
		if s.guard("common.NewAddressFromSeed", "seed", map[string]any{"seed": hex.EncodeToString(seed)}, func() { a = common.NewAddressFromSeed(seed) }) {
			return vC32Wallet{a, "seed"}
		}
		return vC32Wallet{common.NewAddressFromSeedInternalVanish(seed), "seed"}
	}
	spend, c1 := vC32RandPrivate(rng)
	view, c2 := vC32RandPrivate(rng)
	return vC32Wallet{common.Address{
		PrivateSpendKey: spend, PrivateViewKey: view,
		PublicSpendKey: spend.Public(), PublicViewKey: view.Public(),
	}, c1 + "/" + c2}
}

var vC32IndexEdges = []uint64{
	0, 1, 2, 126, 127, 128, 129, 255, 256, 16383, 16384, 65535, 65536,
	1<<21 - 1, 1 << 21, 1<<28 - 1, 1 << 28, 1<<31 - 1, 1 << 31, 1<<32 - 1, 1 << 32, 1<<32 + 1,
	1<<35 - 1, 1 << 35, 1<<42 - 1, 1 << 42, 1<<49 - 1, 1 << 49, 1<<56 - 1, 1 << 56,
	1<<63 - 1, 1 << 63, 1<<64 - 1,
}

func vC32RandIndex(rng *rand.Rand) (uint64, string) {
	switch rng.Intn(8) {
	case 0:
		return vC32IndexEdges[rng.Intn(len(vC32IndexEdges))], "varint-edge"
	case 1:
		return uint64(rng.Intn(256)), "small"
	case 2:
		return rng.Uint64(), "u64"
	case 3:
		return rng.Uint64() >> uint(rng.Intn(64)), "u64-shifted"
	default:
		return uint64(rng.Uint32()), "u32"
	}
}

type vC32State struct {
	r   *verifkit.Run
	rng *rand.Rand
}

func (s *vC32State) guard(site, class string, witness map[string]any, f func()) bool {
	panicked, val, stack := verifkit.Guard(f)
	if panicked {
		s.r.Violation("C32|panic "+verifkit.PanicSite(stack)+"|"+site+"|"+class,
			fmt.Sprintf("%s panicked on %s input: %v", site, class, val), witness)
	}
	return !panicked
}

// ---- G1/G2 ----------------------------------------------------------------

func (s *vC32State) ghost(w vC32Wallet, r crypto.Key, rclass string, index uint64, iclass string, sample bool) {
	s.r.Eval()
	a := w.addr
	R := r.Public()
	wit := map[string]any{
		"private_spend": a.PrivateSpendKey.String(), "private_view": a.PrivateViewKey.String(),
		"public_spend": a.PublicSpendKey.String(), "public_view": a.PublicViewKey.String(),
		"r": r.String(), "R": R.String(), "index": index, "index_class": iclass, "address_class": w.class, "mask_class": rclass,
	}
	class := "addr=" + w.class + " mask=" + rclass + " index=" + iclass
	ok := s.guard("ghost-derivation", iclass, wit, func() {
		P := crypto.DeriveGhostPublicKey(&r, &a.PublicViewKey, &a.PublicSpendKey, index)
		x := crypto.DeriveGhostPrivateKey(&R, &a.PrivateViewKey, &a.PrivateSpendKey, index)
		wit["sender_key"] = P.String()
		wit["recipient_private"] = x.String()
		ref, err := vC32RefPublic(x)
		if err != nil {
			s.r.Violation("C32|crypto.DeriveGhostPrivateKey|not-a-canonical-scalar|"+iclass,
				"the recipient-derived one-time private key is not a canonical scalar ("+class+")", wit)
			return
		}
		if *P != ref {
			wit["recipient_public_reference"] = ref.String()
			s.r.Violation("C32|ghost|sender-key!=recipient-private*G|"+iclass,
				"DeriveGhostPublicKey differs from x*G of DeriveGhostPrivateKey ("+class+")", wit)
			return
		}
		if pub := x.Public(); *P != pub {
			wit["recipient_public"] = pub.String()
			s.r.Violation("C32|ghost|sender-key!=recipient-private.Public()|"+iclass,
				"DeriveGhostPublicKey differs from DeriveGhostPrivateKey(...).Public() ("+class+")", wit)
			return
		}
		B := crypto.ViewGhostOutputKey(P, &a.PrivateViewKey, &R, index)
		if *B != a.PublicSpendKey {
			wit["viewed"] = B.String()
			s.r.Violation("C32|crypto.ViewGhostOutputKey|viewed!=public-spend|"+iclass,
				"ViewGhostOutputKey does not recover the recipient's public spend key ("+class+")", wit)
			return
		}
	})
	if ok {
		var ib [8]byte
		binary.BigEndian.PutUint64(ib[:], index)
		s.r.Nontrivial("g" + string(a.PublicSpendKey[:10]) + string(R[:10]) + string(ib[:]))
		s.r.Count("ghost_index_"+iclass, 1)
		if sample {
			s.r.Sample(map[string]any{"kind": "ghost", "public_spend": a.PublicSpendKey.String(), "R": R.String(),
				"index": index, "one_time_key": wit["sender_key"]})
		}
	}
}

// ---- R1 for hex-printed values --------------------------------------------

func vC32RandFixed(rng *rand.Rand, n int) []byte {
	b := make([]byte, n)
	switch rng.Intn(10) {
	case 0: // zero
	case 1:
		for i := range b {
			b[i] = 0xff
		}
	case 2: // leading zeros
		rng.Read(b)
		for i := 0; i < 1+rng.Intn(n-1); i++ {
			b[i] = 0
		}
	case 3: // trailing zeros
		rng.Read(b)
		for i := n - 1 - rng.Intn(n-1); i < n; i++ {
			b[i] = 0
		}
	case 4: // one bit
		b[rng.Intn(n)] = 1 << uint(rng.Intn(8))
	default:
		rng.Read(b)
	}
	return b
}

func vC32RandMask(rng *rand.Rand) uint64 {
	switch rng.Intn(6) {
	case 0:
		return 0
	case 1:
		return ^uint64(0)
	case 2:
		return uint64(1) << uint(rng.Intn(64))
	case 3:
		return rng.Uint64() >> uint(rng.Intn(64)) // leading zero hex digits
	default:
		return rng.Uint64()
	}
}

type vC32Doc struct {
	K  crypto.Key                     `json:"k"`
	KP *crypto.Key                    `json:"kp"`
	H  crypto.Hash                    `json:"h"`
	HL []crypto.Hash                  `json:"hl"`
	S  crypto.Signature               `json:"s"`
	SP *crypto.Signature              `json:"sp"`
	C  crypto.CosiSignature           `json:"c"`
	CP *crypto.CosiSignature          `json:"cp"`
	KM map[string]crypto.Key          `json:"km"`
	SM []map[uint16]*crypto.Signature `json:"sm"`
}

func (s *vC32State) hexValues(sample bool) {
	rng := s.rng
	s.r.Eval()
	var k crypto.Key
	var h crypto.Hash
	var sig crypto.Signature
	copy(k[:], vC32RandFixed(rng, 32))
	copy(h[:], vC32RandFixed(rng, 32))
	copy(sig[:], vC32RandFixed(rng, 64))
	cosi := crypto.CosiSignature{Mask: vC32RandMask(rng)}
	copy(cosi.Signature[:], vC32RandFixed(rng, 64))
	cosiClass := "constructed"
	if rng.Intn(8) == 0 { // a certificate header as the kernel builds it
		randoms := map[int]*crypto.Key{}
		for n := 1 + rng.Intn(5); n > 0; n-- {
			p := crypto.NewKeyFromSeed(vC32RandBytes(rng, 64)).Public()
			randoms[rng.Intn(64)] = &p
		}
		if c, err := crypto.CosiAggregateCommitment(randoms); err == nil {
			cosi = *c
			copy(cosi.Signature[32:], vC32RandFixed(rng, 32))
			cosiClass = "aggregated"
		}
	}
	wit := map[string]any{"key": hex.EncodeToString(k[:]), "hash": hex.EncodeToString(h[:]),
		"signature": hex.EncodeToString(sig[:]), "cosi_signature": hex.EncodeToString(cosi.Signature[:]), "cosi_mask": cosi.Mask}

	s.guard("hex-value-roundtrip", "random-value", wit, func() {
		// String -> FromString
		if k2, err := crypto.KeyFromString(k.String()); err != nil || k2 != k {
			s.r.Violation("C32|crypto.KeyFromString|print-parse", fmt.Sprintf("KeyFromString(Key.String()) = %s, %v", k2, err), wit)
		}
		if h2, err := crypto.HashFromString(h.String()); err != nil || h2 != h {
			s.r.Violation("C32|crypto.HashFromString|print-parse", fmt.Sprintf("HashFromString(Hash.String()) = %s, %v", h2, err), wit)
		}
		// JSON, value by value
		var k3 crypto.Key
		if b, err := json.Marshal(k); err != nil || json.Unmarshal(b, &k3) != nil || k3 != k {
			s.r.Violation("C32|crypto.Key.JSON|print-parse", fmt.Sprintf("Key JSON round trip gives %s (marshal err %v)", k3, err), wit)
		}
		var h3 crypto.Hash
		if b, err := json.Marshal(h); err != nil || json.Unmarshal(b, &h3) != nil || h3 != h {
			s.r.Violation("C32|crypto.Hash.JSON|print-parse", fmt.Sprintf("Hash JSON round trip gives %s (marshal err %v)", h3, err), wit)
		}
		var s3 crypto.Signature
		if b, err := json.Marshal(sig); err != nil || json.Unmarshal(b, &s3) != nil || s3 != sig {
			s.r.Violation("C32|crypto.Signature.JSON|print-parse", fmt.Sprintf("Signature JSON round trip gives %s (marshal err %v)", s3, err), wit)
		}
		// Signature.String is the hex text UnmarshalJSON reads
		var s4 crypto.Signature
		if err := s4.UnmarshalJSON([]byte(`"` + sig.String() + `"`)); err != nil || s4 != sig {
			s.r.Violation("C32|crypto.Signature.String|print-parse", fmt.Sprintf("parsing Signature.String() gives %s, %v", s4, err), wit)
		}
		var c3 crypto.CosiSignature
		b, err := json.Marshal(cosi)
		var uerr error
		if err == nil {
			uerr = json.Unmarshal(b, &c3)
		}
		if err != nil || uerr != nil || c3.Signature != cosi.Signature || c3.Mask != cosi.Mask {
			s.r.Violation("C32|crypto.CosiSignature.JSON|print-parse",
				fmt.Sprintf("CosiSignature JSON round trip of mask %016x gives mask %016x signature %s (errors %v, %v; text %s)", cosi.Mask, c3.Mask, c3.Signature, err, uerr, b), wit)
		}
		var c4 crypto.CosiSignature
		if err := c4.UnmarshalJSON([]byte(`"` + cosi.String() + `"`)); err != nil || c4.Signature != cosi.Signature || c4.Mask != cosi.Mask {
			s.r.Violation("C32|crypto.CosiSignature.String|print-parse",
				fmt.Sprintf("parsing CosiSignature.String() %q gives mask %016x, %v", cosi.String(), c4.Mask, err), wit)
		}
		// nested in a document, as the RPC layer prints them
		if rng.Intn(4) == 0 {
			doc := vC32Doc{K: k, KP: &k, H: h, HL: []crypto.Hash{h, {}, h}, S: sig, SP: &sig, C: cosi, CP: &cosi,
				KM: map[string]crypto.Key{"a": k, "b": {}}, SM: []map[uint16]*crypto.Signature{{0: &sig, 65535: &s3}}}
			var back vC32Doc
			b, err := json.Marshal(doc)
			if err == nil {
				err = json.Unmarshal(b, &back)
			}
			bad := err != nil || back.K != k || back.KP == nil || *back.KP != k || back.H != h || len(back.HL) != 3 ||
				back.HL[0] != h || back.HL[1] != (crypto.Hash{}) || back.S != sig || back.SP == nil || *back.SP != sig ||
				back.C.Signature != cosi.Signature || back.C.Mask != cosi.Mask || back.CP == nil || back.CP.Mask != cosi.Mask ||
				back.CP.Signature != cosi.Signature || back.KM["a"] != k || back.KM["b"] != (crypto.Key{}) ||
				len(back.SM) != 1 || back.SM[0][0] == nil || *back.SM[0][0] != sig || back.SM[0][65535] == nil || *back.SM[0][65535] != s3
			if bad {
				s.r.Violation("C32|json-document|print-parse", fmt.Sprintf("a JSON document of keys, hashes and signatures does not read back equal (err %v)", err), wit)
			}
			s.r.Count("hex_documents", 1)
		}
	})
	s.r.Nontrivial("v" + string(k[:8]) + string(h[:8]) + string(sig[:8]) + string(cosi.Signature[:6]) + fmt.Sprint(cosi.Mask))
	s.r.Count("hex_value_sets", 1)
	s.r.Count("cosi_"+cosiClass, 1)
	if sample {
		s.r.Sample(map[string]any{"kind": "hex-values", "key": k.String(), "cosi": cosi.String()})
	}
}

// vC32RandHexText: texts near the accepted language of the hex parsers.
func vC32RandHexText(rng *rand.Rand, n int) string {
	digits := "0123456789abcdef"
	switch rng.Intn(4) {
	case 0:
		digits = "0123456789ABCDEF"
	case 1:
		digits = "0123456789abcdefABCDEF"
	}
	ln := 2 * n
	switch rng.Intn(8) {
	case 0:
		ln += rng.Intn(5) - 2
	case 1:
		ln = rng.Intn(2*n + 8)
	}
	if ln < 0 {
		ln = 0
	}
	b := make([]byte, ln)
	for i := range b {
		b[i] = digits[rng.Intn(len(digits))]
	}
	if ln > 0 {
		switch rng.Intn(10) {
		case 0:
			b[rng.Intn(ln)] = "gG xX-+\x00\x80"[rng.Intn(9)]
		case 1:
			return "0x" + string(b)
		case 2:
			return string(b) + " "
		}
	}
	return string(b)
}

// parsedHex: for any text a hex parser accepts, the accepted value prints and
// parses back to itself.
func (s *vC32State) parsedHex() {
	rng := s.rng
	s.r.Eval()
	kind := rng.Intn(6)
	var text string
	switch kind {
	case 0, 1, 2, 3:
		text = vC32RandHexText(rng, 32)
	case 4:
		text = vC32RandHexText(rng, 64)
	default:
		text = vC32RandHexText(rng, 72)
	}
	quoted := `"` + text + `"`
	if rng.Intn(10) == 0 {
		quoted = [...]string{text, `'` + text + `'`, "`" + text + "`", `"` + text, `null`, `"0` + text + `"`}[rng.Intn(6)]
	}
	wit := map[string]any{"text": text, "json": quoted, "parser": kind}
	accepted := false
	s.guard("hex-parse", "random-text", wit, func() {
		switch kind {
		case 0:
			v, err := crypto.KeyFromString(text)
			if err != nil {
				return
			}
			accepted = true
			if v2, err := crypto.KeyFromString(v.String()); err != nil || v2 != v {
				s.r.Violation("C32|crypto.KeyFromString|parsed-value-print-parse", "an accepted key text does not print and parse back to the accepted value", wit)
			}
		case 1:
			v, err := crypto.HashFromString(text)
			if err != nil {
				return
			}
			accepted = true
			if v2, err := crypto.HashFromString(v.String()); err != nil || v2 != v {
				s.r.Violation("C32|crypto.HashFromString|parsed-value-print-parse", "an accepted hash text does not print and parse back to the accepted value", wit)
			}
		case 2:
			var v, v2 crypto.Key
			if v.UnmarshalJSON([]byte(quoted)) != nil {
				return
			}
			accepted = true
			b, _ := v.MarshalJSON()
			if err := v2.UnmarshalJSON(b); err != nil || v2 != v {
				s.r.Violation("C32|crypto.Key.JSON|parsed-value-print-parse", "an accepted key JSON text does not print and parse back to the accepted value", wit)
			}
		case 3:
			var v, v2 crypto.Hash
			if v.UnmarshalJSON([]byte(quoted)) != nil {
				return
			}
			accepted = true
			b, _ := v.MarshalJSON()
			if err := v2.UnmarshalJSON(b); err != nil || v2 != v {
				s.r.Violation("C32|crypto.Hash.JSON|parsed-value-print-parse", "an accepted hash JSON text does not print and parse back to the accepted value", wit)
			}
		case 4:
			var v, v2 crypto.Signature
			if v.UnmarshalJSON([]byte(quoted)) != nil {
				return
			}
			accepted = true
			b, _ := v.MarshalJSON()
			if err := v2.UnmarshalJSON(b); err != nil || v2 != v {
				s.r.Violation("C32|crypto.Signature.JSON|parsed-value-print-parse", "an accepted signature JSON text does not print and parse back to the accepted value", wit)
			}
		default:
			var v, v2 crypto.CosiSignature
			if v.UnmarshalJSON([]byte(quoted)) != nil {
				return
			}
			accepted = true
			b, _ := v.MarshalJSON()
			if err := v2.UnmarshalJSON(b); err != nil || v2.Signature != v.Signature || v2.Mask != v.Mask {
				wit["printed"] = string(b)
				s.r.Violation("C32|crypto.CosiSignature.JSON|parsed-value-print-parse", "an accepted collective signature JSON text does not print and parse back to the accepted value", wit)
			}
		}
	})
	if accepted {
		s.r.Count("hex_texts_accepted", 1)
		s.r.Nontrivial(fmt.Sprintf("p%d%s", kind, text))
	} else {
		s.r.Count("hex_texts_rejected", 1)
	}
}

// ---- R1/R2 for addresses ---------------------------------------------------

// tryAddress feeds one candidate text to both address parsers and applies R2.
// want != nil additionally applies R1 (the text was printed from that value).
func (s *vC32State) tryAddress(text, class string, want *common.Address) (accepted bool) {
	s.r.Eval()
	wit := map[string]any{"text": text, "text_hex": hex.EncodeToString([]byte(text)), "class": class}
	s.guard("common.NewAddressFromString", class, wit, func() {
		a, err := common.NewAddressFromString(text)
		if err != nil {
			if want != nil {
				wit["error"] = err.Error()
				s.r.Violation("C32|common.NewAddressFromString|printed-address-rejected|"+class, "an address printed by Address.String is rejected by NewAddressFromString: "+err.Error(), wit)
			}
			return
		}
		accepted = true
		if back := a.String(); back != text {
			wit["printed_back"] = back
			s.r.Violation("C32|common.NewAddressFromString|accepted-text-prints-differently|"+class,
				"NewAddressFromString accepted a text that Address.String does not print back identically", wit)
		}
		if want != nil && (a.PublicSpendKey != want.PublicSpendKey || a.PublicViewKey != want.PublicViewKey) {
			s.r.Violation("C32|common.NewAddressFromString|print-parse-changes-keys|"+class, "parsing a printed address gives different public keys", wit)
		}
	})
	return accepted
}

func (s *vC32State) tryAddressJSON(text, class string, want *common.Address) {
	s.r.Eval()
	wit := map[string]any{"text": text, "class": class}
	s.guard("common.Address.UnmarshalJSON", class, wit, func() {
		var a common.Address
		var quoted []byte
		if want != nil {
			b, err := json.Marshal(*want)
			if err != nil {
				s.r.Violation("C32|common.Address.JSON|marshal-error|"+class, "Address.MarshalJSON failed: "+err.Error(), wit)
				return
			}
			quoted = b
		} else {
			quoted, _ = json.Marshal(text)
		}
		wit["json"] = string(quoted)
		if err := json.Unmarshal(quoted, &a); err != nil {
			if want != nil {
				s.r.Violation("C32|common.Address.JSON|printed-address-rejected|"+class, "Address JSON round trip failed: "+err.Error(), wit)
			}
			return
		}
		if want != nil {
			if a.PublicSpendKey != want.PublicSpendKey || a.PublicViewKey != want.PublicViewKey {
				s.r.Violation("C32|common.Address.JSON|print-parse-changes-keys|"+class, "Address JSON round trip gives different public keys", wit)
			}
			return
		}
		if back := a.String(); back != text {
			wit["printed_back"] = back
			s.r.Violation("C32|common.Address.JSON|accepted-text-prints-differently|"+class,
				"Address.UnmarshalJSON accepted a text that does not print back identically", wit)
		}
	})
}

var vC32Replacements = func() []string {
	out := []string{}
	for i := 0; i < len(vC32Alphabet); i++ {
		out = append(out, vC32Alphabet[i:i+1])
	}
	// outside the alphabet: look-alikes, blanks, NUL, DEL, Latin-1 and wider runes, a stray UTF-8 byte
	return append(out, "0", "O", "I", "l", " ", "\t", "\x00", "\x7f", "+", "/", "é", "ÿ", "€", "\x80", "\xff")
}()

// mutateAddress applies single-character mutations to a printed address.
// full = every substitution at every position; otherwise a sample.
func (s *vC32State) mutateAddress(text string, full bool) {
	rng := s.rng
	accepted := 0
	try := func(m, class string) {
		if m == text {
			return
		}
		if s.tryAddress(m, class, nil) {
			accepted++
			s.r.Nontrivial("ma" + m)
		}
		s.r.Count("address_mutants_"+class, 1)
	}
	for p := 0; p < len(text); p++ {
		if full {
			for _, rep := range vC32Replacements {
				try(text[:p]+rep+text[p+1:], "substitution")
			}
		} else {
			for k := 0; k < 3; k++ {
				try(text[:p]+vC32Replacements[rng.Intn(len(vC32Replacements))]+text[p+1:], "substitution")
			}
		}
		try(text[:p]+text[p+1:], "deletion")
		if p+1 < len(text) {
			try(text[:p]+text[p+1:p+2]+text[p:p+1]+text[p+2:], "transposition")
		}
		c := text[p]
		if c >= 'a' && c <= 'z' {
			try(text[:p]+string(c-32)+text[p+1:], "case")
		} else if c >= 'A' && c <= 'Z' {
			try(text[:p]+string(c+32)+text[p+1:], "case")
		}
	}
	for p := 0; p <= len(text); p++ {
		nins := 2
		if full {
			nins = 8
		}
		for k := 0; k < nins; k++ {
			try(text[:p]+vC32Replacements[rng.Intn(len(vC32Replacements))]+text[p:], "insertion")
		}
		if p >= 3 {
			try(text[:p]+"1"+text[p:], "insertion") // the zero digit
		}
	}
	// whole-text variants of the same printed address
	try(strings.ToLower(text), "case")
	try(strings.ToUpper(text), "case")
	try(" "+text, "insertion")
	try(text+"\n", "insertion")
	try("XIN1"+text[3:], "insertion")
	try("XI"+text[3:], "deletion")
	try(text[3:], "deletion")
	try("xin"+text[3:], "case")
	s.r.Count("address_mutants_accepted", accepted)
	if full {
		s.r.Count("addresses_fully_mutated", 1)
	}
}

// craftedAddress builds candidate texts that pass some of the parser's gates:
// right length and checksum over arbitrary 64 bytes, wrong checksum prefix,
// other networks, 67/69-byte payloads, extra zero digits.
func (s *vC32State) craftedAddress(pool []vC32Wallet) {
	rng := s.rng
	spend := vC32RandBytes(rng, 32)
	view := vC32RandBytes(rng, 32)
	kclass := "random-bytes-as-keys"
	class := "canonical-text"
	switch rng.Intn(10) {
	case 0, 1:
		w := pool[rng.Intn(len(pool))]
		spend = w.addr.PublicSpendKey[:]
		kclass = "valid-spend-random-view"
	case 2, 3:
		w := pool[rng.Intn(len(pool))]
		view = w.addr.PublicViewKey[:]
		kclass = "random-spend-valid-view"
	case 4:
		w, v := pool[rng.Intn(len(pool))], pool[rng.Intn(len(pool))]
		spend, view = w.addr.PublicSpendKey[:], v.addr.PublicViewKey[:]
		kclass = "valid-keys-of-two-wallets"
	case 5:
		// low-order / non-canonical / leading-zero encodings
		spend = vC32RandFixed(rng, 32)
		if rng.Intn(2) == 0 {
			view = vC32RandFixed(rng, 32)
		}
		kclass = "structured-bytes-as-keys"
	}
	prefix, sumPrefix := common.MainAddressPrefix, common.MainAddressPrefix
	shape := rng.Intn(12)
	var text string
	switch shape {
	case 0:
		sumPrefix = ""
		class = "checksum-without-prefix"
	case 1:
		prefix, sumPrefix = "XIM", "XIM"
		class = "other-network"
	case 2:
		prefix = [...]string{"", "X", "XI", "xin", "XINXIN", "XIN "}[rng.Intn(6)]
		class = "bad-prefix"
	}
	text = vC32RefAddressString(prefix, spend, view, sumPrefix)
	switch shape {
	case 3: // payload one byte short or long, checksum over what a lenient parser would take
		payload := append(append([]byte{}, spend...), view...)
		if rng.Intn(2) == 0 {
			payload = payload[:63]
		} else {
			payload = append(payload, byte(rng.Intn(256)))
		}
		sum := sha3.Sum256(append([]byte("XIN"), payload...))
		text = "XIN" + vC32RefB58(append(payload, sum[:4]...))
		class = "payload-length-off-by-one"
	case 4: // trailing bytes after a complete payload
		payload := append(append([]byte{}, spend...), view...)
		sum := sha3.Sum256(append([]byte("XIN"), payload...))
		payload = append(payload, sum[:4]...)
		text = "XIN" + vC32RefB58(append(payload, vC32RandBytes(rng, 1+rng.Intn(3))...))
		class = "trailing-bytes"
	case 5: // wrong checksum
		payload := append(append([]byte{}, spend...), view...)
		text = "XIN" + vC32RefB58(append(payload, vC32RandBytes(rng, 4)...))
		class = "random-checksum"
	}
	s.r.Count("crafted_keys_"+kclass, 1)
	if s.tryAddress(text, class, nil) {
		s.r.Count("crafted_accepted", 1)
		s.r.Nontrivial("ca" + text)
	} else {
		s.r.Count("crafted_rejected", 1)
	}
	if rng.Intn(4) == 0 {
		s.tryAddressJSON(text, class, nil)
	}
}

// the points of small order other than the identity (orders 2, 4, 4, 8, 8, 8, 8)
var vC32Torsion = []string{
	"ecffffffffffffffffffffffffffffffffffffffffffffffffffffffffffff7f",
	"0000000000000000000000000000000000000000000000000000000000000000",
	"0000000000000000000000000000000000000000000000000000000000000080",
	"26e8958fc2b227b045c3f489f2ef98f0d5dfac05d3c63339b13802886d53fc05",
	"26e8958fc2b227b045c3f489f2ef98f0d5dfac05d3c63339b13802886d53fc85",
	"c7176a703d4dd84fba3c0b760d10670f2a2053fa2c39ccc64ec7fd7792ac037a",
	"c7176a703d4dd84fba3c0b760d10670f2a2053fa2c39ccc64ec7fd7792ac03fa",
}

// mixedOrderAddress prints a wallet's address with a point of small order added to its public view key and/or
// public spend key. The holder's private keys belong to the original keys: if the parser accepts such a text, a
// sender deriving for the accepted address and the holder deriving with the private keys must still agree.
func (s *vC32State) mixedOrderAddress(pool []vC32Wallet) {
	rng := s.rng
	s.r.Eval()
	w := pool[rng.Intn(len(pool))]
	add := func(k crypto.Key) (crypto.Key, bool) {
		tb, _ := hex.DecodeString(vC32Torsion[rng.Intn(len(vC32Torsion))])
		t, err1 := new(edwards25519.Point).SetBytes(tb)
		p, err2 := new(edwards25519.Point).SetBytes(k[:])
		if err1 != nil || err2 != nil {
			return k, false
		}
		var out crypto.Key
		copy(out[:], new(edwards25519.Point).Add(p, t).Bytes())
		return out, true
	}
	crafted := w.addr
	which := rng.Intn(3)
	ok := true
	if which != 1 {
		var o bool
		crafted.PublicViewKey, o = add(w.addr.PublicViewKey)
		ok = ok && o
	}
	if which != 0 {
		var o bool
		crafted.PublicSpendKey, o = add(w.addr.PublicSpendKey)
		ok = ok && o
	}
	if !ok {
		s.r.Count("mixed_order_address_not_buildable", 1)
		return
	}
	class := [...]string{"view-key-plus-small-order-point", "spend-key-plus-small-order-point", "both-keys-plus-small-order-points"}[which]
	text := vC32RefAddressString(common.MainAddressPrefix, crafted.PublicSpendKey[:], crafted.PublicViewKey[:], common.MainAddressPrefix)
	var parsed common.Address
	var err error
	if !s.guard("common.NewAddressFromString", class, map[string]any{"text": text}, func() { parsed, err = common.NewAddressFromString(text) }) {
		return
	}
	if err != nil {
		s.r.Count("mixed_order_address_rejected_"+class, 1)
		s.r.Nontrivial("mo" + text)
		return
	}
	s.r.Count("mixed_order_address_accepted_"+class, 1)
	for i := 0; i < 6; i++ {
		r, _ := vC32RandPrivate(rng)
		R := r.Public()
		index, _ := vC32RandIndex(rng)
		wit := map[string]any{"address_text": text, "class": class, "holder_public_spend": w.addr.PublicSpendKey.String(), "holder_public_view": w.addr.PublicViewKey.String(),
			"holder_private_spend": w.addr.PrivateSpendKey.String(), "holder_private_view": w.addr.PrivateViewKey.String(), "r": r.String(), "index": index}
		done := false
		s.guard("ghost-derivation", class, wit, func() {
			P := crypto.DeriveGhostPublicKey(&r, &parsed.PublicViewKey, &parsed.PublicSpendKey, index)
			x := crypto.DeriveGhostPrivateKey(&R, &w.addr.PrivateViewKey, &w.addr.PrivateSpendKey, index)
			wit["sender_key"] = P.String()
			if pub := x.Public(); *P != pub {
				wit["holder_one_time_public"] = pub.String()
				s.r.Violation("C32|ghost|accepted-address-with-small-order-component|"+class,
					"an address text whose key is the holder's key plus a point of small order is accepted, and the one-time key a sender derives for it is not the public key of the one-time private key its holder derives", wit)
				done = true
				return
			}
			if B := crypto.ViewGhostOutputKey(P, &w.addr.PrivateViewKey, &R, index); *B != parsed.PublicSpendKey {
				s.r.Violation("C32|crypto.ViewGhostOutputKey|accepted-address-with-small-order-component|"+class,
					"viewing an output sent to an accepted address with a small-order component does not recover that address's public spend key", wit)
				done = true
			}
		})
		if done {
			return
		}
	}
}

func (s *vC32State) randomAddressText() {
	rng := s.rng
	var text string
	switch rng.Intn(5) {
	case 0:
		text = string(vC32RandBytes(rng, rng.Intn(120)))
	case 1:
		text = "XIN" + string(vC32RandBytes(rng, rng.Intn(120)))
	default:
		n := 85 + rng.Intn(12)
		b := make([]byte, n)
		for i := range b {
			b[i] = vC32Alphabet[rng.Intn(58)]
		}
		for i := 0; i < rng.Intn(4); i++ {
			b[i] = '1'
		}
		text = "XIN" + string(b)
	}
	if s.tryAddress(text, "random-text", nil) {
		s.r.Nontrivial("ra" + text)
	}
	s.r.Count("random_address_texts", 1)
}

// ---- B1 ---------------------------------------------------------------------

func (s *vC32State) base58Case() {
	rng := s.rng
	s.r.Eval()
	n := 68
	lclass := "len68"
	if rng.Intn(3) == 0 {
		n = rng.Intn(101)
		if n != 68 {
			lclass = "other-length"
		}
	}
	b := vC32RandBytes(rng, n)
	if n > 0 && rng.Intn(3) == 0 {
		z := 1 + rng.Intn(n)
		if rng.Intn(2) == 0 && z > 4 {
			z = 1 + rng.Intn(4)
		}
		for i := 0; i < z; i++ {
			b[i] = 0
		}
		lclass += "+leading-zeros"
	}
	wit := map[string]any{"bytes": hex.EncodeToString(b)}
	s.guard("base58", lclass, wit, func() {
		e := base58.Encode(b)
		d := base58.Decode(e)
		if !bytes.Equal(d, b) {
			wit["encoded"] = e
			wit["decoded"] = hex.EncodeToString(d)
			s.r.Violation("C32|base58|decode(encode(b))!=b|"+lclass, "base58 Decode(Encode(b)) differs from b", wit)
		}
	})
	// a text in the alphabet: print(parse(text)) == text
	m := rng.Intn(100)
	t := make([]byte, m)
	for i := range t {
		t[i] = vC32Alphabet[rng.Intn(58)]
	}
	for i := 0; i < m && i < rng.Intn(5); i++ {
		t[i] = '1'
	}
	wit2 := map[string]any{"text": string(t)}
	s.guard("base58", "alphabet-text", wit2, func() {
		d := base58.Decode(string(t))
		if e := base58.Encode(d); e != string(t) {
			wit2["decoded"] = hex.EncodeToString(d)
			wit2["printed_back"] = e
			s.r.Violation("C32|base58|encode(decode(s))!=s|alphabet-text", "base58 Encode(Decode(s)) differs from a text written in the alphabet", wit2)
		}
	})
	s.r.Nontrivial("b" + string(b[:min(len(b), 30)]) + fmt.Sprint(n))
	s.r.Count("base58_"+lclass, 1)
}

// TestVerif_C32: one-time keys and addresses round-trip correctly.
// vC32Reader serves the keys and masks of the outputs of known transactions (what a wallet's store does).
type vC32Reader map[crypto.Hash]*common.Transaction

func (m vC32Reader) ReadUTXOKeys(hash crypto.Hash, index uint) (*common.UTXOKeys, error) {
	tx := m[hash]
	if tx == nil || int(index) >= len(tx.Outputs) {
		return nil, nil
	}
	o := tx.Outputs[index]
	return &common.UTXOKeys{Mask: o.Mask, Keys: o.Keys}, nil
}

func TestVerif_C32(t *testing.T) {
	r := verifkit.Start(t, "C32", "exploration")
	r.SetRule("seeded random wallets (seed-derived and edge scalars), masks and output indexes (0..2^64, every varint length boundary): one ghost derivation + view per case, sequentially and from 16 goroutines at once; " +
		"random Key/Hash/Signature/CosiSignature values and near-valid hex texts through String/FromString/JSON; printed addresses (including keys with leading zero bytes) through " +
		"String/NewAddressFromString/JSON, then every single-character substitution (58 digits + 15 foreign characters), deletion, transposition, case flip and sampled insertions of the printed text, " +
		"crafted texts with a correct checksum over arbitrary bytes, wrong prefixes/lengths, and random texts; base58 on random bytes with leading zeros. " +
		"non-trivial = a distinct (wallet, mask, index) derivation, a distinct value or accepted text that went through print and parse; rejected mutants are counted separately")
	r.Assume("filippo.io/edwards25519 scalar multiplication, stdlib crypto/sha3 and math/big are the references")
	r.Assume("a single-character mutant or random text that the address parser rejects satisfies the property vacuously; only accepted texts are compared with their reprint")
	r.Assume("private keys are canonical non-zero scalars (what NewKeyFromSeed produces); wallets whose public key is the identity are not valid addresses and are not exercised")
	s := &vC32State{r: r, rng: r.Rand()}
	rng := s.rng

	nGhost := r.N(20000, 500000)
	nHex := r.N(20000, 600000)
	nHexText := r.N(40000, 1500000)
	nAddr := r.N(3000, 40000)
	nFull := r.N(60, 1500)
	nCrafted := r.N(30000, 1000000)
	nRandomText := r.N(20000, 600000)
	nB58 := r.N(20000, 1000000)

	// wallet pool; a part of it is searched for public keys that start with zero
	// bytes, so that printed addresses with leading '1' digits are exercised.
	var pool []vC32Wallet
	poolSize := r.N(1500, 12000)
	zeroLead := 0
	ok := s.guard("wallet-generation", "seed", nil, func() {
		for len(pool) < poolSize {
			pool = append(pool, s.randAddress())
		}
		want := r.N(40, 400)
		for tries := 0; zeroLead < want && tries < want*600; tries++ {
			k := crypto.NewKeyFromSeed(vC32RandBytes(rng, 64))
			p := k.Public()
			if p[0] != 0 {
				continue
			}
			v := crypto.NewKeyFromSeed(vC32RandBytes(rng, 64))
			pool = append(pool, vC32Wallet{common.Address{PrivateSpendKey: k, PrivateViewKey: v, PublicSpendKey: p, PublicViewKey: v.Public()}, "leading-zero-spend"})
			zeroLead++
		}
	})
	if !ok {
		r.Finish()
		return
	}
	r.Count("wallets", len(pool))
	r.Count("wallets_leading_zero_spend_key", zeroLead)

	// G1/G2
	var masks []crypto.Key
	var maskClass []string
	for i := 0; i < r.N(1500, 12000); i++ {
		k, c := vC32RandPrivate(rng)
		masks = append(masks, k)
		maskClass = append(maskClass, c)
	}
	for i := 0; i < nGhost; i++ {
		w := pool[rng.Intn(len(pool))]
		mi := rng.Intn(len(masks))
		var idx uint64
		var ic string
		if i < len(vC32IndexEdges) {
			idx, ic = vC32IndexEdges[i], "varint-edge"
		} else {
			idx, ic = vC32RandIndex(rng)
		}
		s.ghost(w, masks[mi], maskClass[mi], idx, ic, i == 7 || i == 1000)
	}

	// the same derivations from many goroutines at once (a node derives and views keys from its RPC, validation
	// and wallet paths concurrently): results are collected and judged afterwards by the sequential oracle's rules
	{
		type cc struct {
			w       vC32Wallet
			r       crypto.Key
			index   uint64
			P, B    *crypto.Key
			x       *crypto.Key
			paniced any
		}
		workers, per := 16, r.N(250, 4000)
		cases := make([][]*cc, workers)
		for g := range cases {
			for k := 0; k < per; k++ {
				idx, _ := vC32RandIndex(rng)
				cases[g] = append(cases[g], &cc{w: pool[rng.Intn(len(pool))], r: masks[rng.Intn(len(masks))], index: idx})
			}
		}
		var wg sync.WaitGroup
		for g := range cases {
			wg.Add(1)
			go func(list []*cc) {
				defer wg.Done()
				for _, c := range list {
					func() {
						defer func() {
							if e := recover(); e != nil {
								c.paniced = e
							}
						}()
						a := c.w.addr
						R := c.r.Public()
						c.P = crypto.DeriveGhostPublicKey(&c.r, &a.PublicViewKey, &a.PublicSpendKey, c.index)
						c.x = crypto.DeriveGhostPrivateKey(&R, &a.PrivateViewKey, &a.PrivateSpendKey, c.index)
						c.B = crypto.ViewGhostOutputKey(c.P, &a.PrivateViewKey, &R, c.index)
					}()
				}
			}(cases[g])
		}
		wg.Wait()
		for _, list := range cases {
			for _, c := range list {
				r.Eval()
				r.Count("concurrent_ghost_derivations", 1)
				wit := map[string]any{"private_spend": c.w.addr.PrivateSpendKey.String(), "private_view": c.w.addr.PrivateViewKey.String(), "r": c.r.String(), "index": c.index, "goroutines": workers}
				if c.paniced != nil {
					r.Violation("C32|concurrent|panic", fmt.Sprintf("a ghost derivation panicked when run concurrently: %v", c.paniced), wit)
					continue
				}
				ref, err := vC32RefPublic(c.x)
				if err != nil || *c.P != ref {
					r.Violation("C32|concurrent|sender-key!=recipient-private*G", "with derivations running on 16 goroutines the sender's one-time key differs from x*G of the recipient's private key", wit)
					continue
				}
				if *c.B != c.w.addr.PublicSpendKey {
					r.Violation("C32|concurrent|viewed!=public-spend", "with derivations running on 16 goroutines viewing does not recover the recipient's public spend key", wit)
					continue
				}
				var ib [8]byte
				binary.BigEndian.PutUint64(ib[:], c.index)
				r.Nontrivial("cg" + string(c.w.addr.PublicSpendKey[:10]) + string(c.r[:10]) + string(ib[:]))
			}
		}
	}

	// the transaction-level view: outputs built for a recipient through the transaction builder (real output
	// positions, with key-less outputs of other types in front of or between them) are viewed with the recipient's
	// private view key; every key of a script output must come back as the recipient's public spend key
	for i := 0; i < r.N(400, 8000); i++ {
		wlt := pool[rng.Intn(len(pool))]
		tx := common.NewTransactionV5(common.XINAssetId)
		layout := rng.Intn(4)
		nout := 1 + rng.Intn(4)
		var scriptAt []int
		for o := 0; o < nout; o++ {
			special := layout == 1 && o == 0 || layout == 2 && o%2 == 1 || layout == 3 && rng.Intn(2) == 0
			if special {
				tx.Outputs = append(tx.Outputs, &common.Output{Type: common.OutputTypeWithdrawalSubmit, Amount: common.NewInteger(1), Withdrawal: &common.WithdrawalData{Address: "a", Tag: "t"}})
				continue
			}
			seed := vC32RandBytes(rng, 64)
			a := wlt.addr
			okAdd := s.guard("transaction-view", "build", nil, func() {
				tx.AddOutputWithType(common.OutputTypeScript, []*common.Address{&a}, common.NewThresholdScript(1), common.NewInteger(1), seed)
			})
			if !okAdd {
				break
			}
			scriptAt = append(scriptAt, len(tx.Outputs)-1)
		}
		if len(scriptAt) == 0 {
			continue
		}
		var views []*common.Output
		if !s.guard("transaction-view", "view", nil, func() { views = tx.ViewGhostKey(&wlt.addr.PrivateViewKey) }) {
			continue
		}
		r.Eval()
		r.Count("transaction_level_views", 1)
		wit := map[string]any{"private_view": wlt.addr.PrivateViewKey.String(), "public_spend": wlt.addr.PublicSpendKey.String(), "outputs": len(tx.Outputs), "script_outputs_at": scriptAt}
		if len(views) != len(scriptAt) {
			r.Violation("C32|common.Transaction.ViewGhostKey|wrong-number-of-viewed-outputs", fmt.Sprintf("%d script outputs, %d viewed", len(scriptAt), len(views)), wit)
			continue
		}
		okAll := true
		for vi, v := range views {
			for _, k := range v.Keys {
				if *k != wlt.addr.PublicSpendKey {
					okAll = false
					wit["output_position"] = scriptAt[vi]
					wit["viewed"] = k.String()
				}
			}
		}
		if !okAll {
			cls := "all-script"
			if scriptAt[len(scriptAt)-1] != len(scriptAt)-1 {
				cls = "key-less-output-before-a-script-output"
			}
			r.Violation("C32|common.Transaction.ViewGhostKey|viewed!=public-spend|"+cls, "viewing a transaction's script outputs with the recipient's private view key does not give back the recipient's public spend key", wit)
			continue
		}
		r.Nontrivial(fmt.Sprintf("txview|%s|%v", wlt.addr.PublicSpendKey.String()[:16], scriptAt))
	}

	// the recipient spends: outputs built for a wallet at positions 0..5 of one transaction are spent by another
	// transaction in a scrambled order through the library's signing helpers (per-input maps and one aggregate
	// signature); the derived one-time private keys must be the ones of the outputs, whatever the input positions
	for i := 0; i < r.N(300, 6000); i++ {
		wlt := pool[rng.Intn(len(pool))]
		a := wlt.addr
		src := common.NewTransactionV5(common.XINAssetId)
		nout := 2 + rng.Intn(5)
		okBuild := s.guard("spend-helpers", "build", nil, func() {
			for o := 0; o < nout; o++ {
				src.AddOutputWithType(common.OutputTypeScript, []*common.Address{&a}, common.NewThresholdScript(1), common.NewInteger(1), vC32RandBytes(rng, 64))
			}
		})
		if !okBuild {
			continue
		}
		srcHash := src.AsVersioned().PayloadHash()
		reader := vC32Reader{srcHash: src}
		order := rng.Perm(nout)[:1+rng.Intn(nout)]
		spend := common.NewTransactionV5(common.XINAssetId)
		for _, oi := range order {
			spend.AddInput(srcHash, uint(oi))
		}
		spend.AddOutputWithType(common.OutputTypeScript, []*common.Address{&a}, common.NewThresholdScript(1), common.NewInteger(uint64(len(order))), vC32RandBytes(rng, 64))
		msg := spend.AsVersioned().PayloadHash()
		wit := map[string]any{"private_spend": a.PrivateSpendKey.String(), "private_view": a.PrivateViewKey.String(), "outputs": nout, "spent_in_order": order}
		r.Eval()
		r.Count("spends_through_the_signing_helpers", 1)
		// per-input maps
		signed := spend.AsVersioned()
		var serr error
		if !s.guard("spend-helpers", "SignInput", wit, func() {
			for pos := range order {
				if serr = signed.SignInput(reader, pos, []*common.Address{&a}); serr != nil {
					return
				}
			}
		}) {
			continue
		}
		if serr != nil {
			r.Violation("C32|common.SignInput|recipient-cannot-sign-its-own-output", "SignInput refuses the recipient's own keys for an output built for it: "+serr.Error(), wit)
			continue
		}
		bad := false
		for pos, oi := range order {
			sig := signed.SignaturesMap[pos][0]
			if sig == nil || !src.Outputs[oi].Keys[0].Verify(msg, *sig) {
				bad = true
			}
		}
		if bad {
			r.Violation("C32|common.SignInput|signature-not-by-the-output-key", "a signature made by SignInput does not verify under the one-time key of the spent output", wit)
			continue
		}
		// one aggregate signature
		agg := spend.AsVersioned()
		accounts := make([][]*common.Address, len(order))
		for pos := range order {
			accounts[pos] = []*common.Address{&a}
		}
		var aerr error
		if !s.guard("spend-helpers", "AggregateSign", wit, func() { aerr = agg.AggregateSign(reader, accounts, vC32RandBytes(rng, 64)) }) {
			continue
		}
		if aerr != nil {
			r.Violation("C32|common.AggregateSign|recipient-cannot-sign-its-own-output", "AggregateSign refuses the recipient's own keys for outputs built for it: "+aerr.Error(), wit)
			continue
		}
		var pubs []*crypto.Key
		for _, oi := range order {
			pubs = append(pubs, src.Outputs[oi].Keys...)
		}
		sg := crypto.Signature(agg.AggregatedSignature.Signature)
		if err := crypto.AggregateVerify(&sg, pubs, agg.AggregatedSignature.Signers, msg); err != nil {
			r.Violation("C32|common.AggregateSign|signature-not-by-the-output-keys", "the aggregate signature made by AggregateSign does not verify under the one-time keys of the spent outputs: "+err.Error(), wit)
			continue
		}
		r.Nontrivial(fmt.Sprintf("spend|%s|%v", a.PublicSpendKey.String()[:16], order))
	}

	// R1 hex-printed values, and accepted texts
	for i := 0; i < nHex; i++ {
		s.hexValues(i == 3)
	}
	for i := 0; i < nHexText; i++ {
		s.parsedHex()
	}

	// R1/R2 addresses
	printedLeadingOne := 0
	for i := 0; i < nAddr; i++ {
		var w vC32Wallet
		if i < len(pool) {
			w = pool[len(pool)-1-i] // the leading-zero wallets first
		} else {
			w = s.randAddress()
		}
		var text string
		if !s.guard("common.Address.String", w.class, map[string]any{"public_spend": w.addr.PublicSpendKey.String()}, func() { text = w.addr.String() }) {
			continue
		}
		if strings.HasPrefix(text, "XIN1") {
			printedLeadingOne++
		}
		a := w.addr
		s.tryAddress(text, "printed", &a)
		s.tryAddressJSON(text, "printed", &a)
		// the reference printer must agree with what the parser accepts: if the
		// independently printed text is accepted it has to print back identically (R2)
		ref := vC32RefAddressString("XIN", a.PublicSpendKey[:], a.PublicViewKey[:], "XIN")
		if s.tryAddress(ref, "reference-printed", nil) {
			r.Count("reference_printed_accepted", 1)
		}
		r.Nontrivial("a" + text)
		s.mutateAddress(text, i < nFull)
		if i == 0 || i == nFull {
			r.Sample(map[string]any{"kind": "address", "text": text, "class": w.class, "fully_mutated": i < nFull})
		}
	}
	r.Count("addresses_printed", nAddr)
	r.Count("addresses_printed_with_leading_1_digit", printedLeadingOne)
	for i := 0; i < nCrafted; i++ {
		s.craftedAddress(pool)
	}
	for i := 0; i < nCrafted/20; i++ {
		s.mixedOrderAddress(pool)
	}
	for i := 0; i < nRandomText; i++ {
		s.randomAddressText()
	}

	// B1
	for i := 0; i < nB58; i++ {
		s.base58Case()
	}
	r.Finish()
}
