package common_test

import (
	"bytes"
	"crypto/ed25519"
	"fmt"
	"math/big"
	"math/rand"
	"sort"
	"testing"

	"github.com/MixinNetwork/mixin/common"
	"github.com/MixinNetwork/mixin/crypto"
	"github.com/MixinNetwork/mixin/verifgen"
	"github.com/MixinNetwork/mixin/verifkit"
	"github.com/MixinNetwork/mixin/verifledger"
	"github.com/zeebo/blake3"
)

// ---------------------------------------------------------------------------
// Independent reading of a custodian update (written from the property statement
// and the 353-byte entry layout; no repository parsing or verification code).
//
//   extra  = account(64: spend||view) || entry* || approval(64)
//   entry  = 1 || custodian(64) || payee(64) || node id(32) || signerSig(64) || payeeSig(64) || custodianSig(64)
//   payeeSig/custodianSig: Ed25519 over BLAKE3(entry[:161]) by the payee / custodian spend key
//   approval: Ed25519 over BLAKE3(extra[:len-64]) by the spend key of the custodian account in force
//   price   : 100 XIN per entry whose custodian address is not in the state in force,
//             1 XIN per entry whose custodian address is there with another payee
// ---------------------------------------------------------------------------

const (
	vC34EntrySize = 353
	vC34SignedLen = 161
)

type vC34Entry struct {
	Raw                               []byte
	Action                            byte
	Custodian, Payee                  [64]byte
	NodeId                            [32]byte
	SignerSig, PayeeSig, CustodianSig [64]byte
}

type vC34Update struct {
	Account  [64]byte
	Entries  []*vC34Entry
	Approval [64]byte
	Body     []byte // the bytes covered by the approval
}

type vC34ModelNode struct{ Custodian, Payee [64]byte }

// vC34State is the reference model of one custodian state: what the harness
// itself put into genesis.json or into an update it saw finalized.
type vC34State struct {
	At      uint64
	Account [64]byte
	Nodes   []vC34ModelNode
	Raw     [][]byte // nil for genesis (its entries carry placeholder signatures)
	Tx      crypto.Hash
	Genesis bool
}

func vC34ParseUpdate(extra []byte) (*vC34Update, string) {
	if len(extra) < 128 {
		return nil, fmt.Sprintf("%d bytes cannot hold an account and an approval", len(extra))
	}
	body := extra[64 : len(extra)-64]
	if len(body)%vC34EntrySize != 0 {
		return nil, fmt.Sprintf("entries area of %d bytes is not a multiple of %d", len(body), vC34EntrySize)
	}
	u := &vC34Update{Body: extra[:len(extra)-64]}
	copy(u.Account[:], extra[:64])
	copy(u.Approval[:], extra[len(extra)-64:])
	for off := 0; off < len(body); off += vC34EntrySize {
		raw := body[off : off+vC34EntrySize]
		e := &vC34Entry{Raw: raw, Action: raw[0]}
		copy(e.Custodian[:], raw[1:65])
		copy(e.Payee[:], raw[65:129])
		copy(e.NodeId[:], raw[129:161])
		copy(e.SignerSig[:], raw[161:225])
		copy(e.PayeeSig[:], raw[225:289])
		copy(e.CustodianSig[:], raw[289:353])
		u.Entries = append(u.Entries, e)
	}
	return u, ""
}

func vC34Verify(pub []byte, msg [32]byte, sig []byte) bool {
	return ed25519.Verify(ed25519.PublicKey(pub), msg[:], sig)
}

type vC34SigCache map[string][2]bool

// vC34EntryRules returns the violated entry-level conditions in a fixed order.
func vC34EntryRules(u *vC34Update, cache vC34SigCache) (conds []string, detail []string) {
	add := func(c, d string) {
		for _, x := range conds {
			if x == c {
				return
			}
		}
		conds = append(conds, c)
		detail = append(detail, d)
	}
	for i, e := range u.Entries {
		if e.Action != 1 {
			add("entry-action", fmt.Sprintf("entry %d starts with action byte %d", i, e.Action))
		}
	}
	for i := 1; i < len(u.Entries); i++ {
		if bytes.Compare(u.Entries[i-1].Custodian[:32], u.Entries[i].Custodian[:32]) > 0 {
			add("unsorted", fmt.Sprintf("entry %d has a smaller custodian key than entry %d", i, i-1))
		}
	}
	seen := map[[32]byte]string{}
	for i, e := range u.Entries {
		var ck, pk [32]byte
		copy(ck[:], e.Custodian[:32])
		copy(pk[:], e.Payee[:32])
		if w, ok := seen[ck]; ok {
			add("duplicate-key", fmt.Sprintf("custodian key of entry %d already used as %s", i, w))
		}
		seen[ck] = fmt.Sprintf("custodian key of entry %d", i)
		if w, ok := seen[pk]; ok {
			add("duplicate-key", fmt.Sprintf("payee key of entry %d already used as %s", i, w))
		}
		seen[pk] = fmt.Sprintf("payee key of entry %d", i)
	}
	for i, e := range u.Entries {
		res, ok := cache[string(e.Raw)]
		if !ok {
			h := blake3.Sum256(e.Raw[:vC34SignedLen])
			res = [2]bool{vC34Verify(e.Payee[:32], h, e.PayeeSig[:]), vC34Verify(e.Custodian[:32], h, e.CustodianSig[:])}
			if cache != nil {
				cache[string(e.Raw)] = res
			}
		}
		if !res[0] {
			add("payee-signature", fmt.Sprintf("payee signature of entry %d does not verify", i))
		}
		if !res[1] {
			add("custodian-signature", fmt.Sprintf("custodian signature of entry %d does not verify", i))
		}
	}
	return
}

var vC34Unit = big.NewInt(100000000)

// vC34Price is the price of the update against a state, in 1e-8 units.
func vC34Price(u *vC34Update, st *vC34State) (price *big.Int, fresh, changed int) {
	prev := make(map[[64]byte][64]byte, len(st.Nodes))
	for _, n := range st.Nodes {
		prev[n.Custodian] = n.Payee
	}
	for _, e := range u.Entries {
		old, found := prev[e.Custodian]
		switch {
		case !found:
			fresh++
		case old != e.Payee:
			changed++
		}
	}
	price = big.NewInt(int64(100*fresh + changed))
	return price.Mul(price, vC34Unit), fresh, changed
}

// vC34TxRules returns the violated transaction-level conditions.
func vC34TxRules(u *vC34Update, st *vC34State, paid *big.Int) (conds []string, detail []string) {
	if !vC34Verify(st.Account[:32], blake3.Sum256(u.Body), u.Approval[:]) {
		conds = append(conds, "approval")
		detail = append(detail, fmt.Sprintf("approval does not verify under the custodian in force (state of %d)", st.At))
	}
	price, fresh, changed := vC34Price(u, st)
	if paid.Cmp(price) < 0 {
		conds = append(conds, "underpaid")
		detail = append(detail, fmt.Sprintf("pays %s units for %d new and %d changed entries (price %s units)", paid, fresh, changed, price))
	}
	return
}

// ---------------------------------------------------------------------------
// Harness side: keys, honest updates, mutants, funding.
// ---------------------------------------------------------------------------

func vC34Pub(a *common.Address) (k [64]byte) {
	copy(k[:32], a.PublicSpendKey[:])
	copy(k[32:], a.PublicViewKey[:])
	return
}

// vC34BuildEntry is the harness' own encoder of one entry (used for the
// deliberately odd entries and to cross-check common.EncodeCustodianNode).
func vC34BuildEntry(action byte, cust, payee [64]byte, nodeId [32]byte, signerKey, payeeKey, custKey *crypto.Key, msgLen int) []byte {
	raw := []byte{action}
	raw = append(raw, cust[:]...)
	raw = append(raw, payee[:]...)
	raw = append(raw, nodeId[:]...)
	h := crypto.Hash(blake3.Sum256(raw[:msgLen]))
	for _, k := range []*crypto.Key{signerKey, payeeKey, custKey} {
		s := k.Sign(h)
		raw = append(raw, s[:]...)
	}
	return raw
}

type vC34Node struct {
	Custodian, Payee, Signer *common.Address
	Raw                      []byte
}

type vC34Harness struct {
	t      *testing.T
	r      *verifkit.Run
	rng    *rand.Rand
	sim    *verifledger.Sim
	w      *verifWallet
	burn   common.Address
	addrs  map[string]*common.Address   // label -> address (lazy pool)
	priv   map[[64]byte]*common.Address // public address -> keys
	signer map[[64]byte]*common.Address // custodian address -> signer used in its entries
	raws   map[string][]byte            // honest entry cache
	hist   []*vC34State
	sigs   vC34SigCache
	nextId int
	spent  *big.Int

	accepted, finalized int
	encChecked          int
}

func (h *vC34Harness) addr(kind string, i int) *common.Address {
	label := fmt.Sprintf("%s:c34:%s:%d", h.sim.Net.Label, kind, i)
	if a := h.addrs[label]; a != nil {
		return a
	}
	var a common.Address
	if kind == "acct" || (kind == "cust" && i%2 == 0) {
		a = verifgen.Addr(label)
	} else {
		a = verifgen.NodeAddr(label)
	}
	h.addrs[label] = &a
	h.priv[vC34Pub(&a)] = &a
	return &a
}

func (h *vC34Harness) fresh(kind string) *common.Address {
	h.nextId++
	return h.addr(kind, h.nextId)
}

func (h *vC34Harness) honestRaw(n *vC34Node) []byte {
	key := string(n.Custodian.PublicSpendKey[:]) + string(n.Custodian.PublicViewKey[:]) + string(n.Payee.PublicSpendKey[:]) + string(n.Payee.PublicViewKey[:]) + string(n.Signer.PublicSpendKey[:])
	if raw := h.raws[key]; raw != nil {
		return raw
	}
	raw := common.EncodeCustodianNode(n.Custodian, n.Payee, &n.Signer.PrivateSpendKey, &n.Payee.PrivateSpendKey, &n.Custodian.PrivateSpendKey, h.sim.Net.NetworkId)
	h.raws[key] = raw
	h.checkEncoding(n, raw)
	return raw
}

// checkEncoding: the encoder's output read with the independent layout gives
// back exactly the addresses that went in and three verifying signatures.
func (h *vC34Harness) checkEncoding(n *vC34Node, raw []byte) {
	bad := ""
	if len(raw) != vC34EntrySize {
		bad = fmt.Sprintf("encoded entry has %d bytes", len(raw))
	} else {
		body := append(append(make([]byte, 64), raw...), make([]byte, 64)...)
		u, _ := vC34ParseUpdate(body)
		e := u.Entries[0]
		msg := blake3.Sum256(raw[:vC34SignedLen])
		switch {
		case e.Action != 1:
			bad = "action byte is not 1"
		case e.Custodian != vC34Pub(n.Custodian):
			bad = "custodian address not at bytes 1..65"
		case e.Payee != vC34Pub(n.Payee):
			bad = "payee address not at bytes 65..129"
		case !vC34Verify(n.Payee.PublicSpendKey[:], msg, e.PayeeSig[:]):
			bad = "payee signature does not verify"
		case !vC34Verify(n.Custodian.PublicSpendKey[:], msg, e.CustodianSig[:]):
			bad = "custodian signature does not verify"
		case !vC34Verify(n.Signer.PublicSpendKey[:], msg, e.SignerSig[:]):
			bad = "signer signature does not verify"
		}
		if bad == "" && (h.encChecked < 300 || h.rng.Intn(16) == 0) {
			own := vC34BuildEntry(1, e.Custodian, e.Payee, e.NodeId, &n.Signer.PrivateSpendKey, &n.Payee.PrivateSpendKey, &n.Custodian.PrivateSpendKey, vC34SignedLen)
			if !bytes.Equal(own, raw) {
				bad = "differs from the independently built entry"
			}
			h.r.Count("encoder_cross_checked_bytewise", 1)
		}
	}
	h.encChecked++
	h.r.Count("encoder_entries_checked", 1)
	if bad != "" {
		h.r.Violation("C34|roundtrip|encode-entry", "EncodeCustodianNode output read with the 353-byte layout: "+bad,
			map[string]any{"entry": fmt.Sprintf("%x", raw), "custodian": n.Custodian.String(), "payee": n.Payee.String()})
	}
}

func vC34Assemble(account [64]byte, raws [][]byte, approver *crypto.Key) []byte {
	extra := append([]byte{}, account[:]...)
	for _, r := range raws {
		extra = append(extra, r...)
	}
	sig := approver.Sign(crypto.Hash(blake3.Sum256(extra)))
	return append(extra, sig[:]...)
}

func vC34Sort(nodes []*vC34Node) {
	sort.Slice(nodes, func(i, j int) bool {
		return bytes.Compare(nodes[i].Custodian.PublicSpendKey[:], nodes[j].Custodian.PublicSpendKey[:]) < 0
	})
}

func vC34Raws(nodes []*vC34Node) [][]byte {
	res := make([][]byte, len(nodes))
	for i, n := range nodes {
		res[i] = n.Raw
	}
	return res
}

func (h *vC34Harness) pickCount() int {
	switch h.rng.Intn(10) {
	case 0:
		return 7
	case 1:
		return 50
	case 2:
		return 8 + h.rng.Intn(2)
	case 3:
		return 48 + h.rng.Intn(2)
	}
	return 7 + h.rng.Intn(44)
}

type vC34Base struct {
	st      *vC34State
	latest  bool
	ts      uint64
	kind    string
	account *common.Address
	nodes   []*vC34Node
	extra   []byte
	price   *big.Int
}

// honest builds a well-formed update relative to state st.
func (h *vC34Harness) honest(st *vC34State) *vC34Base {
	b := &vC34Base{st: st}
	rng := h.rng
	retained := func(mn vC34ModelNode, changePayee bool) *vC34Node {
		n := &vC34Node{Custodian: h.priv[mn.Custodian], Payee: h.priv[mn.Payee], Signer: h.signer[mn.Custodian]}
		if changePayee {
			n.Payee = h.fresh("payee")
		}
		// now and then the retained entry comes back under another view key of the same spend key: by address that
		// is a new custodian (or a changed payee) and has its price
		switch rng.Intn(12) {
		case 0:
			c := *n.Custodian
			v := h.fresh("view")
			c.PrivateViewKey, c.PublicViewKey = v.PrivateViewKey, v.PublicViewKey
			h.priv[vC34Pub(&c)] = &c
			h.signer[vC34Pub(&c)] = n.Signer
			n.Custodian = &c
		case 1:
			p := *n.Payee
			v := h.fresh("view")
			p.PrivateViewKey, p.PublicViewKey = v.PrivateViewKey, v.PublicViewKey
			h.priv[vC34Pub(&p)] = &p
			n.Payee = &p
		}
		return n
	}
	mode := rng.Intn(20)
	switch {
	case mode < 3: // same custodian account: the key set must stay, payees may move
		b.kind = "same-account"
		b.account = h.priv[st.Account]
		p := rng.Intn(3)
		for _, mn := range st.Nodes {
			b.nodes = append(b.nodes, retained(mn, p > 0 && rng.Intn(p*2) == 0))
		}
	default:
		b.account = h.fresh("acct")
		n := h.pickCount()
		keep := 0
		switch {
		case mode < 11:
			b.kind = "rotate-mostly-retained"
			keep = n - rng.Intn(4)
		case mode < 16:
			b.kind = "rotate-half-new"
			keep = n / 2
		default:
			b.kind = "rotate-all-new"
		}
		if keep > len(st.Nodes) {
			keep = len(st.Nodes)
		}
		if keep < 0 {
			keep = 0
		}
		perm := rng.Perm(len(st.Nodes))
		for _, k := range perm[:keep] {
			b.nodes = append(b.nodes, retained(st.Nodes[k], rng.Intn(3) == 0))
		}
		for len(b.nodes) < n {
			c := h.fresh("cust")
			s := h.addr("signer", rng.Intn(64))
			h.signer[vC34Pub(c)] = s
			b.nodes = append(b.nodes, &vC34Node{Custodian: c, Payee: h.fresh("payee"), Signer: s})
		}
	}
	for _, n := range b.nodes {
		n.Raw = h.honestRaw(n)
	}
	vC34Sort(b.nodes)
	b.extra = vC34Assemble(vC34Pub(b.account), vC34Raws(b.nodes), &h.priv[st.Account].PrivateSpendKey)
	u, _ := vC34ParseUpdate(b.extra)
	b.price, _, _ = vC34Price(u, st)
	return b
}

type vC34Cand struct {
	label string
	extra []byte
	pay   string // exact | under1u | under1x | half | over
	legit bool   // harness expectation only (evidence), never a verdict
}

func vC34Clone(raws [][]byte) [][]byte { return append([][]byte{}, raws...) }

func vC34Flip(rng *rand.Rand, raw []byte, lo, hi int) []byte {
	return vC34FlipAt(rng, raw, lo+rng.Intn(hi-lo))
}

func vC34FlipAt(rng *rand.Rand, raw []byte, off int) []byte {
	out := append([]byte{}, raw...)
	if rng.Intn(2) == 0 {
		out[off] ^= 1 << uint(rng.Intn(8))
	} else {
		out[off] ^= byte(1 + rng.Intn(255))
	}
	return out
}

// mutants derives the hostile variants of one honest update. Unless the label
// says otherwise the approval is redone by the right custodian and the payment
// is generous, so that each variant isolates one defect.
func (h *vC34Harness) mutants(b *vC34Base) []vC34Cand {
	rng := h.rng
	n := len(b.nodes)
	acct := vC34Pub(b.account)
	approver := &h.priv[b.st.Account].PrivateSpendKey
	base := vC34Raws(b.nodes)
	asm := func(raws [][]byte) []byte { return vC34Assemble(acct, raws, approver) }
	entry := func(c, p, s *common.Address) []byte {
		return common.EncodeCustodianNode(c, p, &s.PrivateSpendKey, &p.PrivateSpendKey, &c.PrivateSpendKey, h.sim.Net.NetworkId)
	}
	resort := func(raws [][]byte) [][]byte {
		sort.SliceStable(raws, func(i, j int) bool { return bytes.Compare(raws[i][1:33], raws[j][1:33]) < 0 })
		return raws
	}
	var all []vC34Cand
	group := func(k int, cs ...func() *vC34Cand) {
		perm := rng.Perm(len(cs))
		for _, i := range perm {
			if k == 0 {
				break
			}
			if c := cs[i](); c != nil {
				all = append(all, *c)
				k--
			}
		}
	}

	// payment
	all = append(all, vC34Cand{label: "honest-exact", extra: b.extra, pay: "exact", legit: true})
	group(2,
		func() *vC34Cand { return &vC34Cand{label: "price-under-1unit", extra: b.extra, pay: "under1u"} },
		func() *vC34Cand { return &vC34Cand{label: "price-under-1xin", extra: b.extra, pay: "under1x"} },
		func() *vC34Cand { return &vC34Cand{label: "price-half", extra: b.extra, pay: "half"} },
		func() *vC34Cand { return &vC34Cand{label: "price-over", extra: b.extra, pay: "over", legit: true} },
	)

	// orderings
	group(3,
		func() *vC34Cand {
			r := vC34Clone(base)
			i := rng.Intn(n - 1)
			r[i], r[i+1] = r[i+1], r[i]
			return &vC34Cand{label: "perm-swap-adjacent", extra: asm(r)}
		},
		func() *vC34Cand {
			r := vC34Clone(base)
			i, j := rng.Intn(n), rng.Intn(n)
			if i == j {
				j = (i + 1 + rng.Intn(n-1)) % n
			}
			r[i], r[j] = r[j], r[i]
			return &vC34Cand{label: "perm-swap-any", extra: asm(r)}
		},
		func() *vC34Cand {
			r := vC34Clone(base)
			for i, j := 0, n-1; i < j; i, j = i+1, j-1 {
				r[i], r[j] = r[j], r[i]
			}
			return &vC34Cand{label: "perm-reverse", extra: asm(r)}
		},
		func() *vC34Cand {
			r := vC34Clone(base)
			k := 1 + rng.Intn(n-1)
			r = append(r[k:], r[:k]...)
			return &vC34Cand{label: "perm-rotate", extra: asm(r)}
		},
		func() *vC34Cand {
			r := vC34Clone(base)
			for {
				rng.Shuffle(n, func(i, j int) { r[i], r[j] = r[j], r[i] })
				if !bytes.Equal(r[0], base[0]) || !bytes.Equal(r[n-1], base[n-1]) {
					break
				}
			}
			return &vC34Cand{label: "perm-shuffle", extra: asm(r)}
		},
		func() *vC34Cand { // the last two entries only
			r := vC34Clone(base)
			r[n-1], r[n-2] = r[n-2], r[n-1]
			return &vC34Cand{label: "perm-swap-last", extra: asm(r)}
		},
	)

	// duplicate keys
	group(4,
		func() *vC34Cand {
			r := vC34Clone(base)
			i := rng.Intn(n - 1)
			r[i+1] = r[i]
			return &vC34Cand{label: "dup-entry-replace", extra: asm(r)}
		},
		func() *vC34Cand {
			if n >= 50 {
				return nil
			}
			i := rng.Intn(n)
			r := append(vC34Clone(base[:i+1]), base[i:]...)
			return &vC34Cand{label: "dup-entry-insert", extra: asm(r)}
		},
		func() *vC34Cand { // same custodian twice, each time properly signed for another payee
			i := rng.Intn(n)
			e := entry(b.nodes[i].Custodian, h.fresh("payee"), b.nodes[i].Signer)
			var r [][]byte
			if n >= 50 {
				r = vC34Clone(base)
				r[(i+1)%n] = e
				r = resort(r)
			} else {
				r = append(vC34Clone(base[:i+1]), append([][]byte{e}, base[i+1:]...)...)
			}
			return &vC34Cand{label: "dup-custodian-other-payee", extra: asm(r)}
		},
		func() *vC34Cand { // two custodians share one payee
			i, j := rng.Intn(n), rng.Intn(n)
			if i == j {
				j = (i + 1) % n
			}
			r := vC34Clone(base)
			r[j] = entry(b.nodes[j].Custodian, b.nodes[i].Payee, b.nodes[j].Signer)
			return &vC34Cand{label: "dup-payee", extra: asm(r)}
		},
		func() *vC34Cand { // the payee of one entry is the custodian of another
			i, j := rng.Intn(n), rng.Intn(n)
			if i == j {
				j = (i + 1) % n
			}
			r := vC34Clone(base)
			r[j] = entry(b.nodes[j].Custodian, b.nodes[i].Custodian, b.nodes[j].Signer)
			return &vC34Cand{label: "dup-payee-is-other-custodian", extra: asm(r)}
		},
		func() *vC34Cand { // payee and custodian of one entry are the same key
			j := rng.Intn(n)
			r := vC34Clone(base)
			r[j] = entry(b.nodes[j].Custodian, b.nodes[j].Custodian, b.nodes[j].Signer)
			return &vC34Cand{label: "dup-payee-is-own-custodian", extra: asm(r)}
		},
		func() *vC34Cand { // the payee's spend key is the entry's own custodian key, under another view key
			j := rng.Intn(n)
			p := *b.nodes[j].Custodian
			v := h.fresh("view")
			p.PrivateViewKey, p.PublicViewKey = v.PrivateViewKey, v.PublicViewKey
			r := vC34Clone(base)
			r[j] = entry(b.nodes[j].Custodian, &p, b.nodes[j].Signer)
			return &vC34Cand{label: "dup-payee-spend-key-is-own-custodian-key-other-view-key", extra: asm(r)}
		},
	)

	// single-byte changes of entries
	flip := func(label string, lo, hi int, legit bool) func() *vC34Cand {
		return func() *vC34Cand {
			r := vC34Clone(base)
			j := rng.Intn(n)
			r[j] = vC34Flip(rng, r[j], lo, hi)
			return &vC34Cand{label: label, extra: asm(r), legit: legit}
		}
	}
	group(4,
		flip("byte-action", 0, 1, false),
		flip("byte-custodian-spend", 1, 33, false),
		flip("byte-custodian-view", 33, 65, false),
		flip("byte-payee-spend", 65, 97, false),
		flip("byte-payee-view", 97, 129, false),
		flip("byte-node-id", 129, 161, false),
		flip("byte-signer-sig", 161, 225, true), // not covered by the statement (the kernel checks it)
		flip("byte-payee-sig", 225, 289, false),
		flip("byte-custodian-sig", 289, 353, false),
		func() *vC34Cand {
			r := vC34Clone(base)
			j, off := rng.Intn(n), rng.Intn(vC34EntrySize)
			r[j] = vC34FlipAt(rng, r[j], off)
			return &vC34Cand{label: "byte-anywhere", extra: asm(r), legit: off >= 161 && off < 225}
		},
		func() *vC34Cand { // keeps the order: flip in the custodian key of the last entry, low bytes
			r := vC34Clone(base)
			r[n-1] = vC34Flip(rng, r[n-1], 20, 33)
			return &vC34Cand{label: "byte-custodian-spend-last", extra: asm(r)}
		},
	)

	// signatures made by the wrong party / over the wrong message
	group(2,
		func() *vC34Cand {
			r := vC34Clone(base)
			j := rng.Intn(n)
			e := append([]byte{}, r[j]...)
			copy(e[225:289], r[j][289:353])
			copy(e[289:353], r[j][225:289])
			r[j] = e
			return &vC34Cand{label: "sig-roles-swapped", extra: asm(r)}
		},
		func() *vC34Cand { // payee did not sign: the signer's signature stands in
			r := vC34Clone(base)
			j := rng.Intn(n)
			e := append([]byte{}, r[j]...)
			copy(e[225:289], r[j][161:225])
			r[j] = e
			return &vC34Cand{label: "sig-payee-by-signer", extra: asm(r)}
		},
		func() *vC34Cand { // custodian signature lifted from an entry naming another payee
			r := vC34Clone(base)
			j := rng.Intn(n)
			other := entry(b.nodes[j].Custodian, h.fresh("payee"), b.nodes[j].Signer)
			e := append([]byte{}, r[j]...)
			copy(e[289:353], other[289:353])
			r[j] = e
			return &vC34Cand{label: "sig-custodian-for-other-payee", extra: asm(r)}
		},
		func() *vC34Cand { // payee signature lifted from an entry naming another custodian
			r := vC34Clone(base)
			j := rng.Intn(n)
			k := (j + 1) % n
			other := entry(b.nodes[k].Custodian, b.nodes[j].Payee, b.nodes[j].Signer)
			e := append([]byte{}, r[j]...)
			copy(e[225:289], other[225:289])
			r[j] = e
			return &vC34Cand{label: "sig-payee-for-other-custodian", extra: asm(r)}
		},
		func() *vC34Cand { // all three sign a shorter message (node id left out)
			r := vC34Clone(base)
			j := rng.Intn(n)
			nd := b.nodes[j]
			var id [32]byte
			copy(id[:], r[j][129:161])
			r[j] = vC34BuildEntry(1, vC34Pub(nd.Custodian), vC34Pub(nd.Payee), id, &nd.Signer.PrivateSpendKey, &nd.Payee.PrivateSpendKey, &nd.Custodian.PrivateSpendKey, 129)
			return &vC34Cand{label: "sig-over-short-message", extra: asm(r)}
		},
		func() *vC34Cand { // a fully signed entry with another action byte
			r := vC34Clone(base)
			j := rng.Intn(n)
			nd := b.nodes[j]
			var id [32]byte
			copy(id[:], r[j][129:161])
			r[j] = vC34BuildEntry(byte(2+rng.Intn(3)*100), vC34Pub(nd.Custodian), vC34Pub(nd.Payee), id, &nd.Signer.PrivateSpendKey, &nd.Payee.PrivateSpendKey, &nd.Custodian.PrivateSpendKey, vC34SignedLen)
			return &vC34Cand{label: "action-other-fully-signed", extra: asm(r)}
		},
	)

	// approval
	group(3,
		func() *vC34Cand {
			return &vC34Cand{label: "approver-new-account", extra: vC34Assemble(acct, base, &b.account.PrivateSpendKey), legit: b.kind == "same-account"}
		},
		func() *vC34Cand {
			return &vC34Cand{label: "approver-random", extra: vC34Assemble(acct, base, &h.fresh("acct").PrivateSpendKey)}
		},
		func() *vC34Cand {
			var other *vC34State
			for _, k := range rng.Perm(len(h.hist)) {
				if h.hist[k].Account != b.st.Account {
					other = h.hist[k]
					break
				}
			}
			if other == nil {
				return nil
			}
			return &vC34Cand{label: "approver-other-state", extra: vC34Assemble(acct, base, &h.priv[other.Account].PrivateSpendKey)}
		},
		func() *vC34Cand {
			return &vC34Cand{label: "approver-node-custodian", extra: vC34Assemble(acct, base, &b.nodes[rng.Intn(n)].Custodian.PrivateSpendKey)}
		},
		func() *vC34Cand { // view key of the right custodian
			return &vC34Cand{label: "approver-view-key", extra: vC34Assemble(acct, base, &h.priv[b.st.Account].PrivateViewKey)}
		},
		func() *vC34Cand { // right key, message without the account header
			e := append([]byte{}, b.extra[:len(b.extra)-64]...)
			sig := approver.Sign(crypto.Hash(blake3.Sum256(e[64:])))
			return &vC34Cand{label: "approval-over-entries-only", extra: append(e, sig[:]...)}
		},
		func() *vC34Cand {
			e := append([]byte{}, b.extra...)
			copy(e[len(e)-64:], vC34Flip(rng, e[len(e)-64:], 0, 64))
			return &vC34Cand{label: "byte-approval", extra: e}
		},
		func() *vC34Cand { // account header changed after the approval was given
			e := append([]byte{}, b.extra...)
			copy(e[:64], vC34Flip(rng, e[:64], 0, 64))
			return &vC34Cand{label: "byte-account-stale-approval", extra: e}
		},
		func() *vC34Cand { // entry changed after the approval was given (signer sig: entry itself stays fine)
			e := append([]byte{}, b.extra...)
			j := rng.Intn(n)
			off := 64 + j*vC34EntrySize
			copy(e[off:off+vC34EntrySize], vC34Flip(rng, e[off:off+vC34EntrySize], 161, 225))
			return &vC34Cand{label: "byte-signer-sig-stale-approval", extra: e}
		},
	)

	// shape
	group(1,
		func() *vC34Cand { return &vC34Cand{label: "count-6", extra: asm(vC34Clone(base[:6]))} },
		func() *vC34Cand {
			e := append([]byte{}, b.extra[:len(b.extra)-65]...)
			sig := approver.Sign(crypto.Hash(blake3.Sum256(e)))
			return &vC34Cand{label: "layout-short-by-one", extra: append(e, sig[:]...)}
		},
		func() *vC34Cand {
			e := append([]byte{}, b.extra[:len(b.extra)-64]...)
			e = append(e, byte(rng.Intn(256)))
			sig := approver.Sign(crypto.Hash(blake3.Sum256(e)))
			return &vC34Cand{label: "layout-long-by-one", extra: append(e, sig[:]...)}
		},
		func() *vC34Cand { // account header replaced and approved again: a different but well-formed update
			a := vC34Pub(b.account)
			copy(a[:], vC34Flip(rng, a[:], 0, 64))
			return &vC34Cand{label: "byte-account-approved-again", extra: vC34Assemble(a, base, approver), legit: true}
		},
	)
	return all
}

type vC34Want struct {
	name  string
	units *big.Int
}

// fund settles one transfer that turns everything the wallet holds into the
// denominations this update needs plus change.
func (h *vC34Harness) fund(price *big.Int) (map[string]*verifgen.Out, error) {
	want := []vC34Want{{"exact", new(big.Int).Set(price)}}
	if price.Sign() == 0 {
		want[0].units = big.NewInt(1)
	} else {
		want = append(want, vC34Want{"under1u", new(big.Int).Sub(price, big.NewInt(1))})
		if price.Cmp(vC34Unit) > 0 {
			want = append(want, vC34Want{"under1x", new(big.Int).Sub(price, vC34Unit)})
		}
		want = append(want, vC34Want{"half", new(big.Int).Rsh(price, 1)})
	}
	over := new(big.Int).Add(price, new(big.Int).Mul(vC34Unit, big.NewInt(int64(300+h.rng.Intn(700)))))
	want = append(want, vC34Want{"over", over})

	ins := h.w.outs
	total := verifSumUnits(ins)
	var specs []verifgen.OutSpec
	sum := new(big.Int)
	for _, w := range want {
		specs = append(specs, h.w.spec(verifgen.Units(w.units), 1))
		sum.Add(sum, w.units)
	}
	change := new(big.Int).Sub(total, sum)
	if change.Sign() <= 0 {
		return nil, fmt.Errorf("wallet exhausted: %s units left, %s needed", total, sum)
	}
	specs = append(specs, h.w.spec(verifgen.Units(change), 1))
	raw := verifgen.BuildTx(common.XINAssetId, ins, specs, nil, nil)
	tx := verifgen.SignMap(raw, ins, verifgen.FirstN(ins))
	if err := h.w.settle(tx, specs, h.sim.NextTime(uint64(1+h.rng.Intn(2e9)))); err != nil {
		return nil, fmt.Errorf("funding transfer: %w", err)
	}
	outs := verifgen.OutsOf(tx, specs)
	res := map[string]*verifgen.Out{}
	for i, w := range want {
		res[w.name] = outs[i]
	}
	return res, nil
}

func (h *vC34Harness) stateAt(ts uint64) *vC34State {
	var st *vC34State
	for _, s := range h.hist {
		if s.At <= ts {
			st = s
		}
	}
	return st
}

func vC34Hex(b []byte) string { return fmt.Sprintf("%x", b) }

// compareParsed: what the repository parsed equals the independent reading.
func vC34CompareParsed(cur *common.CustodianUpdateRequest, u *vC34Update) string {
	switch {
	case cur == nil:
		return "nil result"
	case cur.Custodian == nil || vC34Pub(cur.Custodian) != u.Account:
		return "custodian account differs from the first 64 bytes"
	case cur.Signature == nil || !bytes.Equal(cur.Signature[:], u.Approval[:]):
		return "approval differs from the last 64 bytes"
	case len(cur.Nodes) != len(u.Entries):
		return fmt.Sprintf("%d entries returned for %d encoded", len(cur.Nodes), len(u.Entries))
	}
	for i, n := range cur.Nodes {
		e := u.Entries[i]
		switch {
		case n == nil:
			return fmt.Sprintf("entry %d is nil", i)
		case vC34Pub(&n.Custodian) != e.Custodian:
			return fmt.Sprintf("entry %d custodian differs", i)
		case vC34Pub(&n.Payee) != e.Payee:
			return fmt.Sprintf("entry %d payee differs", i)
		case !bytes.Equal(n.Extra, e.Raw):
			return fmt.Sprintf("entry %d bytes differ", i)
		}
	}
	return ""
}

// compareStored: what the store reports as custodian state equals the model state.
func vC34CompareStored(cur *common.CustodianUpdateRequest, st *vC34State) string {
	switch {
	case cur == nil:
		return "no custodian state returned"
	case cur.Custodian == nil || vC34Pub(cur.Custodian) != st.Account:
		return "custodian account differs"
	case len(cur.Nodes) != len(st.Nodes):
		return fmt.Sprintf("%d entries stored, %d finalized", len(cur.Nodes), len(st.Nodes))
	case cur.Timestamp != st.At:
		return fmt.Sprintf("timestamp %d, finalized at %d", cur.Timestamp, st.At)
	case !st.Genesis && cur.Transaction != st.Tx:
		return "transaction hash differs"
	}
	for i, n := range cur.Nodes {
		m := st.Nodes[i]
		switch {
		case vC34Pub(&n.Custodian) != m.Custodian:
			return fmt.Sprintf("entry %d custodian differs", i)
		case vC34Pub(&n.Payee) != m.Payee:
			return fmt.Sprintf("entry %d payee differs", i)
		case st.Raw != nil && !bytes.Equal(n.Extra, st.Raw[i]):
			return fmt.Sprintf("entry %d bytes differ", i)
		}
	}
	return ""
}

func (h *vC34Harness) checkStored(ts uint64, why string) {
	st := h.stateAt(ts)
	if st == nil {
		return
	}
	var cur *common.CustodianUpdateRequest
	var err error
	panicked, pv, _ := verifkit.Guard(func() { cur, err = h.sim.Store.ReadCustodian(ts) })
	h.r.Count("store_readbacks", 1)
	bad := ""
	switch {
	case panicked:
		bad = fmt.Sprintf("panic %v", pv)
	case err != nil:
		bad = "error " + err.Error()
	default:
		bad = vC34CompareStored(cur, st)
	}
	if bad != "" {
		h.r.Violation("C34|roundtrip|store-readback", fmt.Sprintf("custodian state read back from the store (%s) is not the finalized update: %s", why, bad),
			map[string]any{"read_at": ts, "state_since": st.At, "states": len(h.hist), "update_tx": st.Tx.String(), "problem": bad})
	}
}

// directParse runs the repository parser on an extra and holds it to the entry rules.
func (h *vC34Harness) directParse(c *vC34Cand, honest bool) {
	var cur *common.CustodianUpdateRequest
	var err error
	panicked, pv, stack := verifkit.Guard(func() { cur, err = common.ParseCustodianUpdateNodesExtra(c.extra, false) })
	h.r.Eval()
	h.r.Count("parse_calls", 1)
	if panicked {
		h.r.Count("parse_panics_(C05_territory)", 1)
		_ = pv
		_ = stack
		return
	}
	if err != nil {
		h.r.Count("parse_rejected", 1)
		if honest {
			h.r.Violation("C34|roundtrip|parse-rejects-encoded", "a sorted, unique, fully signed encoded update does not parse back: "+err.Error()[:min(len(err.Error()), 120)],
				map[string]any{"extra": vC34Hex(c.extra), "entries": (len(c.extra) - 128) / vC34EntrySize})
		}
		return
	}
	h.r.Count("parse_accepted", 1)
	u, lay := vC34ParseUpdate(c.extra)
	if u == nil {
		h.r.Violation("C34|parse-accepted|layout", "parser accepted an extra that is not account + 353-byte entries + approval: "+lay,
			map[string]any{"mutation": c.label, "extra": vC34Hex(c.extra)})
		return
	}
	if conds, det := vC34EntryRules(u, h.sigs); len(conds) > 0 {
		h.r.Violation("C34|parse-accepted|"+conds[0], fmt.Sprintf("parser accepted an update (mutation %s) whose entries break: %v", c.label, det),
			map[string]any{"mutation": c.label, "violated": conds, "detail": det, "extra": vC34Hex(c.extra)})
		return
	}
	if bad := vC34CompareParsed(cur, u); bad != "" {
		h.r.Violation("C34|roundtrip|parse-result", fmt.Sprintf("parsed update (mutation %s) differs from the encoded bytes: %s", c.label, bad),
			map[string]any{"mutation": c.label, "problem": bad, "extra": vC34Hex(c.extra)})
	}
}

// validate submits the candidate as a funded transaction and holds an
// acceptance to the full statement.
func (h *vC34Harness) validate(b *vC34Base, c *vC34Cand, in *verifgen.Out) (*common.VersionedTransaction, []verifgen.OutSpec, bool) {
	specs := []verifgen.OutSpec{{Type: common.OutputTypeCustodianUpdateNodes, Owners: []common.Address{h.burn}, Threshold: 64, Amount: in.Amount, Seed: h.w.seed()}}
	ins := []*verifgen.Out{in}
	raw := verifgen.BuildTx(common.XINAssetId, ins, specs, c.extra, []crypto.Hash{h.sim.LastConsensusTx})
	tx := verifgen.SignMap(raw, ins, verifgen.FirstN(ins))
	var parsed *common.VersionedTransaction
	var verr error
	panicked, _, _ := verifkit.Guard(func() {
		parsed, verr = verifgen.Reparse(tx)
		if verr != nil {
			return
		}
		verr = parsed.Validate(h.sim.Store, b.ts, false)
	})
	h.r.Eval()
	h.r.Count("validate_calls", 1)
	key := c.label + "|" + c.pay
	if panicked {
		h.r.Count("validate_panics_(C05_territory)", 1)
		return nil, nil, false
	}
	if verr != nil {
		h.r.Count("rejected_"+key, 1)
		if c.label != "honest-exact" {
			h.r.Nontrivial("reject|" + key + "|" + tx.PayloadHash().String())
		} else {
			h.r.Count("honest_rejected", 1)
			if h.r.Counter("honest_rejected") <= 3 {
				h.r.Note(fmt.Sprintf("honest_rejection_%d", h.r.Counter("honest_rejected")), verr.Error()[:min(len(verr.Error()), 160)])
			}
		}
		return nil, nil, false
	}
	h.accepted++
	h.r.Count("accepted_"+key, 1)
	h.r.Nontrivial("accept|" + tx.PayloadHash().String())
	if !c.legit {
		h.r.Count("accepted_although_harness_expected_rejection", 1)
	}

	witness := func(extra map[string]any) map[string]any {
		m := map[string]any{"mutation": c.label, "payment": c.pay, "base": b.kind, "entries": len(b.nodes), "snapshot_time": b.ts,
			"state_since": b.st.At, "states": len(h.hist), "tx": vC34Hex(tx.Marshal())}
		for k, v := range extra {
			m[k] = v
		}
		return m
	}
	paid := new(big.Int)
	for _, o := range parsed.Outputs {
		if o.Type == common.OutputTypeCustodianUpdateNodes {
			paid.Add(paid, verifgen.UnitsOf(o.Amount))
		}
	}
	u, lay := vC34ParseUpdate(parsed.Extra)
	if u == nil {
		h.r.Violation("C34|validate-accepted|layout", "accepted update is not account + 353-byte entries + approval: "+lay, witness(nil))
		return nil, nil, false
	}
	conds, det := vC34EntryRules(u, h.sigs)
	st := h.stateAt(b.ts)
	c2, d2 := vC34TxRules(u, st, paid)
	conds, det = append(conds, c2...), append(det, d2...)
	if len(conds) > 0 {
		h.r.Violation("C34|validate-accepted|"+conds[0], fmt.Sprintf("accepted custodian update (mutation %s, payment %s) breaks: %v", c.label, c.pay, det),
			witness(map[string]any{"violated": conds, "detail": det}))
		return nil, nil, false
	}
	if h.r.SampleCount() < 5 && (c.label == "honest-exact" || h.r.SampleCount() >= 2) {
		_, fresh, changed := vC34Price(u, st)
		h.r.Sample(map[string]any{"mutation": c.label, "payment": c.pay, "base": b.kind, "entries": len(u.Entries), "new": fresh, "changed": changed,
			"paid_units": paid.String(), "states_so_far": len(h.hist), "against_latest_state": b.latest, "accepted": true})
	}
	return parsed, specs, true
}

// TestVerif_C34: custodian updates are accepted only in canonical, fully signed form.
func TestVerif_C34(t *testing.T) {
	r := verifkit.Start(t, "C34", "exploration")
	r.SetRule("ledger simulator (real BadgerStore, own genesis with known custodian keys). Each base case is a well-formed update of 7..50 entries built with " +
		"EncodeCustodianNode against the latest or a random earlier custodian state (retained/changed/new entries, same or new custodian account); from it: " +
		"orderings, duplicate keys, single-byte changes per field, misplaced signatures, wrong approvers, under/over-payment, count/length changes, each as a " +
		"funded, signed transaction through Validate and through ParseCustodianUpdateNodesExtra. Acceptances are judged by an independent parser + crypto/ed25519 + " +
		"math/big price; some accepted updates are finalized so later ones meet new states. Non-trivial = distinct accepted transactions and distinct rejected variants")
	r.Assume("Ed25519 per crypto/ed25519 and BLAKE3 per zeebo/blake3 are the signature and digest of the format; harness keys sign with crypto.Key.Sign")
	r.Assume("the node-level rules of kernel/custodian.go (signer signature, node id, payee equality with the node list, election, hours) are not exercised; only common.Validate, the extra parser and the store read-back are")
	r.Assume("updates with more than 50 entries are outside the quantifier and not generated as honest cases")
	rng := r.Rand()
	sim, err := verifledger.NewSim(fmt.Sprintf("c34-%d", r.Seed), 7, 1700000000, t.TempDir())
	if err != nil {
		t.Fatal(err)
	}
	defer sim.Close()
	h := &vC34Harness{t: t, r: r, rng: rng, sim: sim, w: newVerifWallet(sim, rng, 1),
		addrs: map[string]*common.Address{}, priv: map[[64]byte]*common.Address{}, signer: map[[64]byte]*common.Address{},
		raws: map[string][]byte{}, sigs: vC34SigCache{}, spent: new(big.Int)}
	h.burn = verifgen.Addr(sim.Net.Label + ":c34:burn")

	// model of the genesis state, from what the harness wrote into genesis.json
	g := &vC34State{At: sim.Net.Epoch + 1, Account: vC34Pub(&sim.Net.Custodian), Genesis: true}
	h.priv[g.Account] = &sim.Net.Custodian
	for i := range sim.Net.Custodians {
		c, p := &sim.Net.Custodians[i], &sim.Net.Payees[i]
		h.priv[vC34Pub(c)], h.priv[vC34Pub(p)] = c, p
		h.signer[vC34Pub(c)] = &sim.Net.Signers[i]
		g.Nodes = append(g.Nodes, vC34ModelNode{vC34Pub(c), vC34Pub(p)})
	}
	sort.Slice(g.Nodes, func(i, j int) bool { return bytes.Compare(g.Nodes[i].Custodian[:32], g.Nodes[j].Custodian[:32]) < 0 })
	h.hist = []*vC34State{g}
	first := sim.Clock + 1

	// one XIN deposit funds every update of the run
	bank := new(big.Int).Mul(big.NewInt(600000), vC34Unit)
	dep, dspecs := h.w.deposit(verifAssets()[0], bank)
	if err := h.w.settle(dep, dspecs, sim.NextTime(uint64(1+rng.Intn(1e9)))); err != nil {
		t.Fatalf("funding deposit: %v", err)
	}
	h.checkStored(sim.Clock, "genesis state")

	n := r.N(200, 3000)
	pFinal := 0.25
	if r.Thorough() {
		pFinal = 0.06
	}
	reserve := new(big.Int).Mul(big.NewInt(20000), vC34Unit)
	for i := 0; i < n; i++ {
		// which custodian state does this update meet
		st := h.hist[len(h.hist)-1]
		latest := true
		if len(h.hist) > 1 && rng.Intn(10) < 3 {
			k := rng.Intn(len(h.hist) - 1)
			st, latest = h.hist[k], false
		}
		b := h.honest(st)
		b.latest = latest
		fundOuts, err := h.fund(b.price)
		if err != nil {
			r.Note("stopped_early", err.Error())
			break
		}
		if latest {
			b.ts = sim.NextTime(uint64(1 + rng.Intn(2e9)))
		} else {
			lo, hi := st.At, h.hist[h.histIndex(st)+1].At
			if lo < first {
				lo = first
			}
			b.ts = lo + uint64(rng.Int63n(int64(hi-lo)))
		}
		r.Count("base_"+b.kind, 1)
		r.Count(fmt.Sprintf("base_entries_%02d-%02d", len(b.nodes)/10*10, len(b.nodes)/10*10+9), 1)
		if latest {
			r.Count("base_against_latest_state", 1)
		} else {
			r.Count("base_against_earlier_state", 1)
		}

		var honestTx *common.VersionedTransaction
		var honestSpecs []verifgen.OutSpec
		for ci, c := range h.mutants(b) {
			c := c
			in := fundOuts[c.pay]
			if c.pay == "" {
				in = fundOuts["over"]
				c.pay = "over"
			}
			if in == nil {
				continue
			}
			parsed, specs, ok := h.validate(b, &c, in)
			if ci == 0 && ok {
				honestTx, honestSpecs = parsed, specs
			}
			if ci == 0 || rng.Intn(3) == 0 {
				h.directParse(&c, ci == 0)
			}
		}

		// let the ledger move on to a new custodian state
		if honestTx != nil && latest && rng.Float64() < pFinal {
			left := new(big.Int).Sub(verifSumUnits(h.w.outs), b.price)
			if left.Cmp(reserve) < 0 {
				r.Count("finalization_skipped_for_budget", 1)
				continue
			}
			if err := sim.Admit(honestTx, b.ts); err != nil {
				r.Count("admit_errors", 1)
				continue
			}
			if _, _, err := sim.Finalize([]*common.VersionedTransaction{honestTx}, b.ts); err != nil {
				r.Count("finalize_errors", 1)
				r.Note("finalize_error", err.Error()[:min(len(err.Error()), 160)])
				continue
			}
			h.w.applied(honestTx, honestSpecs)
			ns := &vC34State{At: b.ts, Account: vC34Pub(b.account), Raw: vC34Raws(b.nodes), Tx: honestTx.PayloadHash()}
			for _, nd := range b.nodes {
				ns.Nodes = append(ns.Nodes, vC34ModelNode{vC34Pub(nd.Custodian), vC34Pub(nd.Payee)})
			}
			h.hist = append(h.hist, ns)
			h.finalized++
			h.spent.Add(h.spent, b.price)
			r.Count("finalized_updates", 1)
			h.checkStored(b.ts, "at the update's own time")
			h.checkStored(b.ts-1, "just before the update")
			h.checkStored(b.ts+uint64(rng.Intn(1e9)), "after the update")
			lo := h.hist[rng.Intn(len(h.hist))].At
			if lo < first {
				lo = first
			}
			h.checkStored(lo+uint64(rng.Intn(1000)), "random state of the history")
		}
	}

	// the whole recorded history, as the store lists it
	var list []*common.CustodianUpdateRequest
	panicked, pv, _ := verifkit.Guard(func() { list, err = sim.Store.ListCustodianUpdates() })
	switch {
	case panicked || err != nil:
		r.Violation("C34|roundtrip|store-list", fmt.Sprintf("listing the custodian updates fails: %v %v", pv, err), map[string]any{"states": len(h.hist)})
	case len(list) != len(h.hist):
		r.Violation("C34|roundtrip|store-list", fmt.Sprintf("store lists %d custodian states, %d were finalized", len(list), len(h.hist)), map[string]any{"states": len(h.hist)})
	default:
		for k, cur := range list {
			if bad := vC34CompareStored(cur, h.hist[k]); bad != "" {
				r.Violation("C34|roundtrip|store-list", fmt.Sprintf("listed custodian state %d is not the finalized update: %s", k, bad), map[string]any{"state": k, "problem": bad})
				break
			}
		}
	}

	r.Note("accepted", h.accepted)
	r.Note("custodian_states_reached", len(h.hist))
	r.Note("xin_units_burnt_by_finalized_updates", h.spent.String())
	if h.accepted < 50 {
		r.Inconclusive(fmt.Sprintf("only %d accepted custodian updates", h.accepted))
	}
	if len(h.hist) < 4 {
		r.Inconclusive(fmt.Sprintf("only %d custodian states reached", len(h.hist)))
	}
	if r.Counter("honest_rejected")*2 > int64(n) {
		r.Inconclusive(fmt.Sprintf("%d of %d well-formed updates were rejected", r.Counter("honest_rejected"), n))
	}
	r.Finish()
}

func (h *vC34Harness) histIndex(st *vC34State) int {
	for i, s := range h.hist {
		if s == st {
			return i
		}
	}
	return -1
}
