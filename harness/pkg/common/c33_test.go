package common_test

import (
	"encoding/json"
	"fmt"
	"math/big"
	"math/rand"
	"strings"
	"testing"

	"github.com/MixinNetwork/mixin/common"
	"github.com/MixinNetwork/mixin/verifkit"
)

// ---- reference helpers (math/big only) ----

var verifTen8 = big.NewInt(100000000)

func verifUnitsToText(u *big.Int) string {
	s := u.String()
	if len(s) <= 8 {
		return "0." + strings.Repeat("0", 8-len(s)) + s
	}
	return s[:len(s)-8] + "." + s[len(s)-8:]
}

func verifIntFromUnits(u *big.Int) common.Integer {
	return common.NewIntegerFromString(verifUnitsToText(u))
}

func verifUnitsOf(x common.Integer) *big.Int {
	s := strings.Replace(x.String(), ".", "", 1)
	u, ok := new(big.Int).SetString(s, 10)
	if !ok {
		panic("unparsable Integer text " + x.String())
	}
	return u
}

func verifRandUnits(rng *rand.Rand) *big.Int {
	switch rng.Intn(12) {
	case 0:
		return big.NewInt(0)
	case 1:
		return big.NewInt(1)
	case 2:
		return big.NewInt(int64(rng.Intn(1000)))
	case 3: // around 2^64 units
		b := new(big.Int).Lsh(big.NewInt(1), 64)
		return b.Add(b, big.NewInt(int64(rng.Intn(5)-2)))
	case 4: // around 2^64 whole coins
		b := new(big.Int).Lsh(big.NewInt(1), 64)
		b.Mul(b, verifTen8)
		return b.Add(b, big.NewInt(int64(rng.Intn(5)-2)))
	case 5: // huge, up to 2^520
		bits := 400 + rng.Intn(121)
		b := new(big.Int).Rand(rng, new(big.Int).Lsh(big.NewInt(1), uint(bits)))
		return b
	case 6: // exact power of ten
		return new(big.Int).Exp(big.NewInt(10), big.NewInt(int64(rng.Intn(40))), nil)
	default:
		bits := 1 + rng.Intn(200)
		return new(big.Int).Rand(rng, new(big.Int).Lsh(big.NewInt(1), uint(bits)))
	}
}

func verifRandDecimalText(rng *rand.Rand) string {
	var sb strings.Builder
	switch rng.Intn(8) {
	case 0:
		sb.WriteByte('-')
	case 1:
		sb.WriteByte('+')
	}
	for i := rng.Intn(3); i > 0; i-- {
		sb.WriteByte('0')
	}
	nd := 1 + rng.Intn(30)
	for i := 0; i < nd; i++ {
		sb.WriteByte(byte('0' + rng.Intn(10)))
	}
	if rng.Intn(4) != 0 {
		sb.WriteByte('.')
		nf := 1 + rng.Intn(20)
		for i := 0; i < nf; i++ {
			if rng.Intn(5) == 0 {
				sb.WriteByte('0')
			} else {
				sb.WriteByte(byte('0' + rng.Intn(10)))
			}
		}
	}
	if rng.Intn(4) == 0 {
		sb.WriteByte("eE"[rng.Intn(2)])
		e := rng.Intn(41) - 20
		sb.WriteString(fmt.Sprint(e))
	}
	return sb.String()
}

// TestVerif_C33: fixed-point amounts behave like exact decimal arithmetic.
func TestVerif_C33(t *testing.T) {
	r := verifkit.Start(t, "C33", "exploration")
	r.SetRule("random operands (0, 1, small, around 2^64 units, around 2^64 coins, powers of ten, up to 2^520 units) and random decimal texts; " +
		"each case compares one Integer/RationalNumber operation or parse/print with math/big; non-trivial = distinct (operation, operands) whose reference result is defined or whose documented rejection is exercised")
	r.Assume("math/big is the reference for exact arithmetic")
	r.Assume("operands are constructed through the public constructors, so negative Integers (unreachable through the API) are not exercised")
	rng := r.Rand()
	n := r.N(300000, 6000000)

	maxU64 := new(big.Int).SetUint64(^uint64(0))
	sampled := map[string]bool{}

	check := func(op string, detail string, f func() (got string, want string, wantPanic bool)) {
		r.Eval()
		var got, want string
		var wantPanic bool
		panicked, val, stack := verifkit.Guard(func() { got, want, wantPanic = f() })
		_ = stack
		r.Nontrivial(op + "|" + detail)
		if panicked {
			// f evaluates the reference first and signals the expectation through verifExpect
			exp, ok := val.(verifExpectPanic)
			if ok {
				_ = exp
				return // documented rejection happened
			}
			r.Violation("C33|"+op+"|unexpected-panic", fmt.Sprintf("%s panicked on operands that the documented conditions accept: %s (%v)", op, detail, val),
				map[string]any{"op": op, "operands": detail, "panic": fmt.Sprint(val)})
			return
		}
		if wantPanic {
			r.Violation("C33|"+op+"|missing-rejection", fmt.Sprintf("%s accepted operands it documents as rejected: %s", op, detail),
				map[string]any{"op": op, "operands": detail, "got": got})
			return
		}
		if got != want {
			r.Violation("C33|"+op+"|mismatch", fmt.Sprintf("%s(%s) = %s, exact arithmetic gives %s", op, detail, got, want),
				map[string]any{"op": op, "operands": detail, "got": got, "want": want})
		}
		if !sampled[op] && len(sampled) < 6 {
			sampled[op] = true
			r.Sample(map[string]string{"op": op, "operands": detail, "result": got})
		}
		r.Count("op_"+op, 1)
	}

	for i := 0; i < n; i++ {
		xu, yu := verifRandUnits(rng), verifRandUnits(rng)
		if rng.Intn(6) == 0 {
			yu = new(big.Int).Set(xu)
			if rng.Intn(2) == 0 {
				yu.Add(yu, big.NewInt(int64(rng.Intn(3)-1)))
				if yu.Sign() < 0 {
					yu.SetInt64(0)
				}
			}
		}
		x, y := verifIntFromUnits(xu), verifIntFromUnits(yu)
		k := rng.Intn(1<<uint(1+rng.Intn(30))) - 3
		if rng.Intn(10) == 0 {
			k = rng.Intn(7) - 3
		}
		xt, yt := verifUnitsToText(xu), verifUnitsToText(yu)
		switch rng.Intn(11) {
		case 0:
			check("Add", xt+","+yt, func() (string, string, bool) {
				return verifCall(yu.Sign() <= 0, func() string { return x.Add(y).String() }),
					verifUnitsToText(new(big.Int).Add(xu, yu)), yu.Sign() <= 0
			})
		case 1:
			bad := yu.Sign() <= 0 || xu.Cmp(yu) < 0
			check("Sub", xt+","+yt, func() (string, string, bool) {
				want := ""
				if !bad {
					want = verifUnitsToText(new(big.Int).Sub(xu, yu))
				}
				return verifCall(bad, func() string { return x.Sub(y).String() }), want, bad
			})
		case 2:
			bad := k <= 0
			check("Mul", fmt.Sprintf("%s,%d", xt, k), func() (string, string, bool) {
				return verifCall(bad, func() string { return x.Mul(k).String() }),
					verifUnitsToText(new(big.Int).Mul(xu, big.NewInt(int64(k)))), bad
			})
		case 3:
			bad := k <= 0
			check("Div", fmt.Sprintf("%s,%d", xt, k), func() (string, string, bool) {
				want := ""
				if !bad {
					want = verifUnitsToText(new(big.Int).Div(xu, big.NewInt(int64(k))))
				}
				return verifCall(bad, func() string { return x.Div(k).String() }), want, bad
			})
		case 4:
			bad := xu.Sign() <= 0 || yu.Sign() <= 0 || xu.Cmp(yu) < 0
			var q *big.Int
			if !bad {
				q = new(big.Int).Div(xu, yu)
				if q.Cmp(maxU64) > 0 {
					bad = true
				}
			}
			check("Count", xt+","+yt, func() (string, string, bool) {
				want := ""
				if !bad {
					want = q.String()
				}
				return verifCall(bad, func() string { return fmt.Sprint(x.Count(y)) }), want, bad
			})
		case 5:
			check("Cmp", xt+","+yt, func() (string, string, bool) {
				return fmt.Sprint(x.Cmp(y), x.Sign()), fmt.Sprint(xu.Cmp(yu), xu.Sign()), false
			})
		case 6:
			// ratio x/y applied to z : floor(z*x/y)
			zu := verifRandUnits(rng)
			z := verifIntFromUnits(zu)
			bad := yu.Sign() <= 0
			check("Ration.Product", xt+","+yt+","+verifUnitsToText(zu), func() (string, string, bool) {
				want := ""
				if !bad {
					p := new(big.Int).Mul(zu, xu)
					want = verifUnitsToText(p.Div(p, yu))
				}
				return verifCall(bad, func() string { return x.Ration(y).Product(z).String() }), want, bad
			})
		case 7:
			// ratio comparison x/y ? a/b
			au, bu := verifRandUnits(rng), verifRandUnits(rng)
			bad := yu.Sign() <= 0 || bu.Sign() <= 0
			a, b := verifIntFromUnits(au), verifIntFromUnits(bu)
			check("Ration.Cmp", xt+"/"+yt+" vs "+verifUnitsToText(au)+"/"+verifUnitsToText(bu), func() (string, string, bool) {
				want := ""
				if !bad {
					l := new(big.Int).Mul(xu, bu)
					rr := new(big.Int).Mul(yu, au)
					want = fmt.Sprint(l.Cmp(rr))
				}
				return verifCall(bad, func() string { return fmt.Sprint(x.Ration(y).Cmp(a.Ration(b))) }), want, bad
			})
		case 8:
			// print / parse round trip and JSON round trip
			check("String/parse", xt, func() (string, string, bool) {
				s := x.String()
				back := common.NewIntegerFromString(s)
				js, err := json.Marshal(x)
				if err != nil {
					return "json marshal error " + err.Error(), xt, false
				}
				var z common.Integer
				if err := json.Unmarshal(js, &z); err != nil {
					return "json unmarshal error " + err.Error(), xt, false
				}
				if back.Cmp(x) != 0 || z.Cmp(x) != 0 || z.String() != s {
					return "roundtrip " + back.String() + " " + z.String(), xt, false
				}
				return s, xt, false
			})
		case 9:
			// NewInteger(n) == n * 10^8
			v := rng.Uint64()
			if rng.Intn(4) == 0 {
				v = ^uint64(0) - uint64(rng.Intn(3))
			}
			check("NewInteger", fmt.Sprint(v), func() (string, string, bool) {
				w := new(big.Int).Mul(new(big.Int).SetUint64(v), verifTen8)
				return common.NewInteger(v).String(), verifUnitsToText(w), false
			})
		default:
			txt := verifRandDecimalText(rng)
			ref, ok := new(big.Rat).SetString(txt)
			if !ok {
				continue
			}
			bad := ref.Sign() < 0
			check("parse", txt, func() (string, string, bool) {
				want := ""
				if !bad {
					sc := new(big.Rat).Mul(ref, new(big.Rat).SetInt(verifTen8))
					fl := new(big.Int).Div(sc.Num(), sc.Denom())
					want = verifUnitsToText(fl)
				}
				return verifCall(bad, func() string { return common.NewIntegerFromString(txt).String() }), want, bad
			})
		}
	}
	r.Finish()
}

type verifExpectPanic struct{ v any }

// verifCall runs f; if a rejection is expected and f panics, the panic is
// re-raised as verifExpectPanic so the caller can tell it from an unexpected one.
func verifCall(expectPanic bool, f func() string) string {
	if !expectPanic {
		return f()
	}
	var out string
	panicked, val, _ := verifkit.Guard(func() { out = f() })
	if panicked {
		panic(verifExpectPanic{val})
	}
	return out
}
