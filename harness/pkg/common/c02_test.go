package common_test

import (
	"bytes"
	"crypto/ed25519"
	"crypto/sha512"
	"encoding/binary"
	"fmt"
	"math/big"
	"math/rand"
	"sort"
	"testing"

	"filippo.io/edwards25519"
	"github.com/MixinNetwork/mixin/common"
	"github.com/MixinNetwork/mixin/crypto"
	"github.com/MixinNetwork/mixin/verifgen"
	"github.com/MixinNetwork/mixin/verifkit"
	"github.com/MixinNetwork/mixin/verifledger"
)

// C02: spending requires threshold signatures over the payload hash.
//
// Three monitors share one run:
//  (A) acceptance oracle: every transaction Validate accepts is re-judged with
//      crypto/ed25519.Verify (signature maps) or an independently summed weighted
//      key + the harness' knowledge of who signed (aggregate signatures), using
//      the spent outputs' own key lists read back from the store;
//  (B) tamper monitor: every single-byte change of an accepted transaction must
//      stop being accepted unless the affected thresholds are zero;
//  (C) BatchVerify must agree with the conjunction of single Verify calls, and a
//      signature the repository accepts must be valid for crypto/ed25519.

const vC02AggDomain = "mixin-aggregate-coefficient-v1"

type vC02World struct {
	r    *verifkit.Run
	sim  *verifledger.Sim
	w    *verifWallet
	rng  *rand.Rand
	pool []*verifgen.Out
	dead []*verifgen.Out // threshold above the key count: can never be spent, offered occasionally
	n    int
}

// ---- independent reference pieces ----

// vC02StdVerify: is sig a valid Ed25519 signature of msg under key (Go standard library)?
func vC02StdVerify(key *crypto.Key, msg crypto.Hash, sig *crypto.Signature) bool {
	return ed25519.Verify(ed25519.PublicKey(key[:]), msg[:], sig[:])
}

// vC02WeightedKey sums coeff_i * P_i over the masked keys, with the coefficient
// derivation of the aggregate scheme, written directly on filippo.io/edwards25519.
func vC02WeightedKey(keys []*crypto.Key, signers []int) ([]byte, error) {
	if len(signers) == 0 {
		return nil, fmt.Errorf("empty signer set")
	}
	transcript := binary.BigEndian.AppendUint32(nil, uint32(len(signers)))
	prev := -1
	for _, i := range signers {
		if i <= prev || i >= len(keys) {
			return nil, fmt.Errorf("signer index %d not increasing or beyond %d keys", i, len(keys))
		}
		prev = i
		transcript = binary.BigEndian.AppendUint32(transcript, uint32(i))
		transcript = append(transcript, keys[i][:]...)
	}
	sum := edwards25519.NewIdentityPoint()
	for _, i := range signers {
		h := sha512.New()
		h.Write([]byte(vC02AggDomain))
		h.Write(transcript)
		h.Write(binary.BigEndian.AppendUint32(nil, uint32(i)))
		h.Write(keys[i][:])
		c, err := edwards25519.NewScalar().SetUniformBytes(h.Sum(nil))
		if err != nil {
			return nil, err
		}
		p, err := edwards25519.NewIdentityPoint().SetBytes(keys[i][:])
		if err != nil {
			return nil, err
		}
		sum.Add(sum, edwards25519.NewIdentityPoint().ScalarMult(c, p))
	}
	return sum.Bytes(), nil
}

type vC02Spent struct {
	keys []*crypto.Key
	thr  int
	ok   bool // exists and is a script-carrying output (script / node-remove typed)
}

// vC02ReadSpent reads the spent outputs of tx back from the store.
func vC02ReadSpent(sim *verifledger.Sim, tx *common.VersionedTransaction) ([]vC02Spent, string) {
	res := make([]vC02Spent, len(tx.Inputs))
	for i, in := range tx.Inputs {
		if in.Deposit != nil || in.Mint != nil || len(in.Genesis) > 0 {
			continue
		}
		u, err := sim.Store.ReadUTXOLock(in.Hash, in.Index)
		if err != nil {
			return nil, "store read error " + err.Error()
		}
		if u == nil {
			continue
		}
		if u.Type != common.OutputTypeScript && u.Type != common.OutputTypeNodeRemove {
			continue
		}
		if len(u.Script) != 3 || u.Script[0] != common.OperatorCmp || u.Script[1] != common.OperatorSum {
			return nil, fmt.Sprintf("input %d has a malformed script %x", i, []byte(u.Script))
		}
		res[i] = vC02Spent{keys: u.Keys, thr: int(u.Script[2]), ok: true}
	}
	return res, ""
}

// vC02Judge re-judges an accepted transaction. truth is the set of global key
// positions (aggregate numbering) whose private keys the harness really used to
// sign exactly this payload hash (nil for signature maps, where Verify decides).
func vC02Judge(sim *verifledger.Sim, tx *common.VersionedTransaction, truth map[int]bool) (clause, bad string) {
	spent, bad := vC02ReadSpent(sim, tx)
	if bad != "" {
		return "oracle-read", bad
	}
	msg := tx.PayloadHash()
	if as := tx.AggregatedSignature; as != nil {
		var all []*crypto.Key
		offs := make([]int, len(spent))
		for i, s := range spent {
			offs[i] = len(all)
			if s.ok {
				all = append(all, s.keys...)
			}
		}
		for i, s := range spent {
			if !s.ok {
				continue
			}
			cnt := 0
			for _, m := range as.Signers {
				if m >= offs[i] && m < offs[i]+len(s.keys) {
					cnt++
				}
			}
			if cnt < s.thr {
				return "accepted-below-threshold", fmt.Sprintf("aggregate mask selects %d of input %d's %d keys, threshold %d", cnt, i, len(s.keys), s.thr)
			}
		}
		if vC02AllZero(spent) {
			return "", ""
		}
		for _, m := range as.Signers {
			if truth != nil && !truth[m] {
				return "aggregate-mask-not-signers", fmt.Sprintf("mask names key position %d whose private key never signed this payload", m)
			}
		}
		wk, err := vC02WeightedKey(all, as.Signers)
		if err != nil {
			return "aggregate-reference-verify", "masked key set is not well formed: " + err.Error()
		}
		if !ed25519.Verify(ed25519.PublicKey(wk), msg[:], as.Signature[:]) {
			return "aggregate-reference-verify", "aggregate signature does not verify under the independently summed weighted key"
		}
		return "", ""
	}
	for i, s := range spent {
		if !s.ok {
			continue
		}
		valid := 0
		if i < len(tx.SignaturesMap) {
			for k, sig := range tx.SignaturesMap[i] {
				if int(k) < len(s.keys) && sig != nil && vC02StdVerify(s.keys[k], msg, sig) {
					valid++
				}
			}
		}
		if valid < s.thr {
			return "accepted-below-threshold", fmt.Sprintf("input %d: %d of its %d own keys have a valid signature over the payload hash, threshold %d", i, valid, len(s.keys), s.thr)
		}
	}
	return "", ""
}

func vC02AllZero(spent []vC02Spent) bool {
	for _, s := range spent {
		if s.ok && s.thr > 0 {
			return false
		}
	}
	return true
}

// ---- workload ----

func (wd *vC02World) seed() []byte {
	wd.n++
	return verifgen.Seed64(fmt.Sprintf("%s:c02:%d", wd.sim.Net.Label, wd.n))
}

// spec draws a key list (1..64 keys) and a threshold (0..64).
func (wd *vC02World) spec(units *big.Int) verifgen.OutSpec {
	rng := wd.rng
	nk := 1
	switch c := rng.Intn(100); {
	case c < 25:
		nk = 1
	case c < 78:
		nk = 2 + rng.Intn(5)
	case c < 93:
		nk = 7 + rng.Intn(14)
	default:
		nk = 21 + rng.Intn(44)
	}
	perm := rng.Perm(len(wd.w.addrs))
	owners := make([]common.Address, nk)
	for i := range owners {
		owners[i] = wd.w.addrs[perm[i]]
	}
	thr := 1 + rng.Intn(nk)
	switch c := rng.Intn(100); {
	case c < 7:
		thr = 0
	case c < 17:
		thr = nk
	case c < 20 && nk < 64:
		thr = nk + 1 + rng.Intn(64-nk) // never satisfiable
	}
	return verifgen.OutSpec{Type: common.OutputTypeScript, Owners: owners, Threshold: uint8(thr), Amount: verifgen.Units(units), Seed: wd.seed()}
}

func (wd *vC02World) deposit(a verifAssetInfo, units *big.Int) error {
	spec := wd.spec(units)
	tx := verifgen.Deposit(&wd.sim.Net.Custodian, a.id, a.chain, a.key, fmt.Sprintf("0xc02dep%06d", wd.n), uint64(wd.rng.Intn(3)), verifgen.Units(units), spec)
	return wd.settle(tx, []verifgen.OutSpec{spec})
}

func (wd *vC02World) settle(tx *common.VersionedTransaction, specs []verifgen.OutSpec) error {
	ts := wd.sim.NextTime(uint64(1 + wd.rng.Intn(1e9)))
	if err := wd.sim.Admit(tx, ts); err != nil {
		return err
	}
	if _, _, err := wd.sim.Finalize([]*common.VersionedTransaction{tx}, ts); err != nil {
		return err
	}
	spent := map[string]bool{}
	for _, in := range tx.Inputs {
		spent[fmt.Sprintf("%s:%d", in.Hash, in.Index)] = true
	}
	var keep []*verifgen.Out
	for _, o := range wd.pool {
		if !spent[o.Ref()] {
			keep = append(keep, o)
		}
	}
	wd.pool = keep
	for _, o := range verifgen.OutsOf(tx, specs) {
		if o.Type == common.OutputTypeScript && len(o.Owners) == len(o.Keys) && len(o.Keys) > 0 {
			if o.Threshold() > len(o.Keys) {
				wd.dead = append(wd.dead, o)
			} else {
				wd.pool = append(wd.pool, o)
			}
		}
	}
	return nil
}

func (wd *vC02World) pick(n int) []*verifgen.Out {
	if len(wd.pool) == 0 {
		return nil
	}
	first := wd.pool[wd.rng.Intn(len(wd.pool))]
	var same []*verifgen.Out
	for _, o := range wd.pool {
		if o.Asset == first.Asset {
			same = append(same, o)
		}
	}
	wd.rng.Shuffle(len(same), func(i, j int) { same[i], same[j] = same[j], same[i] })
	if n > len(same) {
		n = len(same)
	}
	res := append([]*verifgen.Out{}, same[:n]...)
	if wd.rng.Intn(25) == 0 {
		for _, d := range wd.dead {
			if d.Asset == first.Asset {
				res[wd.rng.Intn(len(res))] = d
				break
			}
		}
	}
	return res
}

// subset chooses the signer indexes of one input.
func (wd *vC02World) subset(in *verifgen.Out) []int {
	nk, thr := len(in.Keys), in.Threshold()
	c := thr
	switch x := wd.rng.Intn(100); {
	case x < 64:
	case x < 80:
		c = thr + 1 + wd.rng.Intn(3)
	case x < 88:
		c = thr - 1
	case x < 91:
		c = 0
	case x < 96:
		c = nk
	default:
		c = wd.rng.Intn(nk + 1)
	}
	if c > nk {
		c = nk
	}
	if c < 0 {
		c = 0
	}
	idx := append([]int{}, wd.rng.Perm(nk)[:c]...)
	sort.Ints(idx)
	return idx
}

type vC02Cand struct {
	tx      *common.VersionedTransaction
	ins     []*verifgen.Out
	specs   []verifgen.OutSpec
	mode    string // map | aggregate
	forge   string // "" when the authorization is exactly what honest signing produced
	signers [][]int
	truth   map[int]bool // aggregate: global key positions that really signed this payload
	memOnly bool         // cannot be encoded; validated as an in-memory object
}

func (wd *vC02World) body(ins []*verifgen.Out, extra []byte) (*common.Transaction, []verifgen.OutSpec) {
	total := verifSumUnits(ins)
	var specs []verifgen.OutSpec
	for _, p := range verifSplit(wd.rng, total, 1+wd.rng.Intn(3)) {
		specs = append(specs, wd.spec(p))
	}
	return verifgen.BuildTx(ins[0].Asset, ins, specs, extra, nil), specs
}

func (wd *vC02World) otherKey(ins []*verifgen.Out, i, k int) *crypto.Key {
	// a private key of the wallet that is not key k of input i
	for tries := 0; tries < 8; tries++ {
		j := wd.rng.Intn(len(ins))
		m := wd.rng.Intn(len(ins[j].Keys))
		if j != i || m != k {
			return ins[j].PrivKey(m)
		}
	}
	a := wd.w.addrs[wd.rng.Intn(len(wd.w.addrs))]
	return &a.PrivateSpendKey
}

func (wd *vC02World) candidate() *vC02Cand {
	rng := wd.rng
	ins := wd.pick([]int{1, 1, 1, 2, 2, 2, 2, 3, 3, 4}[rng.Intn(10)])
	if len(ins) == 0 {
		return nil
	}
	c := &vC02Cand{ins: ins, mode: "map"}
	extra := []byte(fmt.Sprintf("c02-%d", wd.n))
	raw, specs := wd.body(ins, extra)
	c.specs = specs
	for _, in := range ins {
		c.signers = append(c.signers, wd.subset(in))
	}
	forge := rng.Intn(100) < 45
	if rng.Intn(100) < 35 {
		c.mode = "aggregate"
		return wd.aggregate(c, raw, forge)
	}
	ver := verifgen.SignMap(raw, ins, c.signers)
	c.tx = ver
	if !forge {
		return c
	}
	msg := ver.PayloadHash()
	i := rng.Intn(len(ins))
	m := ver.SignaturesMap[i]
	anyKey := func() (uint16, bool) { // seeded choice (map iteration order is not deterministic)
		ks := make([]int, 0, len(m))
		for k := range m {
			ks = append(ks, int(k))
		}
		if len(ks) == 0 {
			return 0, false
		}
		sort.Ints(ks)
		return uint16(ks[rng.Intn(len(ks))]), true
	}
	switch rng.Intn(11) {
	case 0: // a genuine signature over this payload, made by a key that is not the indexed one
		k := rng.Intn(len(ins[i].Keys))
		sig := wd.otherKey(ins, i, k).Sign(msg)
		m[uint16(k)] = &sig
		c.forge = "wrong-key"
	case 1: // one signature reused at further indexes
		if k, ok := anyKey(); ok {
			for n := 0; n < 1+rng.Intn(3); n++ {
				m[uint16(rng.Intn(len(ins[i].Keys)))] = m[k]
			}
		}
		c.forge = "duplicated-signature"
	case 2: // entry beyond the key list
		sig := ins[i].PrivKey(0).Sign(msg)
		m[uint16([]int{len(ins[i].Keys), len(ins[i].Keys) + 1, 255, 65535}[rng.Intn(4)])] = &sig
		c.forge = "index-out-of-range"
	case 3: // maps of two inputs exchanged
		if len(ins) > 1 {
			j := (i + 1 + rng.Intn(len(ins)-1)) % len(ins)
			ver.SignaturesMap[i], ver.SignaturesMap[j] = ver.SignaturesMap[j], ver.SignaturesMap[i]
		} else {
			ver.SignaturesMap[0] = map[uint16]*crypto.Signature{}
		}
		c.forge = "maps-swapped"
	case 4: // every signature made over another payload
		raw2 := *raw
		raw2.Extra = append([]byte("other-"), extra...)
		other := verifgen.SignMap(&raw2, ins, c.signers)
		ver.SignaturesMap = other.SignaturesMap
		c.forge = "signed-other-payload"
	case 5:
		ver.SignaturesMap = ver.SignaturesMap[:len(ver.SignaturesMap)-1]
		c.forge = "map-missing"
	case 6:
		ver.SignaturesMap = append(ver.SignaturesMap, map[uint16]*crypto.Signature{})
		c.forge = "map-surplus"
	case 7: // threshold padded with garbage
		for k := 0; k < len(ins[i].Keys); k++ {
			if m[uint16(k)] == nil {
				var s crypto.Signature
				rng.Read(s[:])
				m[uint16(k)] = &s
			}
		}
		c.forge = "garbage-padding"
	case 8: // valid entry moved to another input's map
		if len(ins) > 1 {
			j := (i + 1 + rng.Intn(len(ins)-1)) % len(ins)
			if k, ok := anyKey(); ok {
				ver.SignaturesMap[j][k] = m[k]
				delete(m, k)
			}
		} else if k, ok := anyKey(); ok {
			delete(m, k)
		}
		c.forge = "entry-moved"
	case 9: // S + L: the same signature with a non-canonical scalar
		if k, ok := anyKey(); ok {
			s := *m[k]
			vC02AddL(s[32:])
			m[k] = &s
		}
		c.forge = "noncanonical-s"
	default: // one bit of one signature
		if k, ok := anyKey(); ok {
			s := *m[k]
			s[rng.Intn(64)] ^= 1 << uint(rng.Intn(8))
			m[k] = &s
		}
		c.forge = "bit-flip"
	}
	return c
}

// vC02AddL adds the group order to a little-endian scalar in place.
func vC02AddL(s []byte) {
	l, _ := new(big.Int).SetString("7237005577332262213973186563042994240857116359379907606001950938285454250989", 10)
	v := new(big.Int)
	be := make([]byte, 32)
	for i := range s {
		be[31-i] = s[i]
	}
	v.SetBytes(be).Add(v, l)
	out := v.FillBytes(make([]byte, 32))
	for i := range s {
		s[i] = out[31-i]
	}
}

func (wd *vC02World) aggregate(c *vC02Cand, raw *common.Transaction, forge bool) *vC02Cand {
	rng := wd.rng
	ins := c.ins
	ver, err := verifgen.SignAggregate(raw, ins, c.signers, wd.seed())
	if err != nil { // empty signer set etc.: nothing to offer in aggregate form
		c.mode = "map"
		c.tx = verifgen.SignMap(raw, ins, c.signers)
		return c
	}
	c.tx = ver
	c.truth = map[int]bool{}
	for _, m := range ver.AggregatedSignature.Signers {
		c.truth[m] = true
	}
	if !forge {
		return c
	}
	as := ver.AggregatedSignature
	total := 0
	for _, in := range ins {
		total += len(in.Keys)
	}
	switch rng.Intn(9) {
	case 0:
		d := 1
		if rng.Intn(2) == 0 && as.Signers[0] > 0 {
			d = -1
		}
		for i := range as.Signers {
			as.Signers[i] += d
		}
		c.forge = "mask-shifted"
	case 1:
		if len(as.Signers) > 1 {
			i := rng.Intn(len(as.Signers))
			as.Signers = append(as.Signers[:i:i], as.Signers[i+1:]...)
		} else {
			as.Signers = nil
		}
		c.forge = "mask-signer-dropped"
	case 2:
		var free []int
		for m := 0; m < total; m++ {
			if !c.truth[m] {
				free = append(free, m)
			}
		}
		if len(free) > 0 {
			as.Signers = append(as.Signers, free[rng.Intn(len(free))])
			sort.Ints(as.Signers)
		} else {
			as.Signers = append(as.Signers, total)
		}
		c.forge = "mask-signer-added"
	case 3:
		raw2 := *raw
		raw2.Extra = append([]byte("other-"), raw.Extra...)
		if other, err := verifgen.SignAggregate(&raw2, ins, c.signers, wd.seed()); err == nil {
			as.Signature = other.AggregatedSignature.Signature
		}
		c.truth = map[int]bool{}
		c.forge = "signed-other-payload"
	case 4:
		as.Signers = append(as.Signers, total+rng.Intn(3))
		c.forge = "mask-out-of-range"
	case 5:
		as.Signature[rng.Intn(64)] ^= 1 << uint(rng.Intn(8))
		c.forge = "bit-flip"
	case 6: // mask not strictly increasing: only an in-memory object can carry it
		if len(as.Signers) > 1 && rng.Intn(2) == 0 {
			as.Signers[0], as.Signers[1] = as.Signers[1], as.Signers[0]
		} else {
			as.Signers = append(as.Signers, as.Signers[len(as.Signers)-1])
		}
		c.memOnly = true
		c.forge = "mask-unsorted-or-duplicate"
	case 7: // the signers of one input presented as signers of another input
		if len(ins) > 1 {
			off := len(ins[0].Keys)
			for i := range as.Signers {
				if as.Signers[i] < off {
					as.Signers[i] += off
				} else {
					as.Signers[i] -= off
				}
			}
			sort.Ints(as.Signers)
			for i := 1; i < len(as.Signers); i++ {
				if as.Signers[i] == as.Signers[i-1] {
					c.memOnly = true
				}
			}
		} else {
			as.Signers = []int{0}
		}
		c.forge = "mask-other-input"
	default: // an ordinary single-key signature offered as the aggregate
		sig := ins[0].PrivKey(0).Sign(ver.PayloadHash())
		as.Signature = sig
		as.Signers = []int{0}
		c.forge = "plain-signature-as-aggregate"
	}
	return c
}

// ---- tamper monitor ----

type vC02Auth struct {
	hash crypto.Hash
	maps []string
	agg  string
}

func vC02AuthOf(tx *common.VersionedTransaction) vC02Auth {
	a := vC02Auth{hash: tx.PayloadHash()}
	for _, m := range tx.SignaturesMap {
		var ks []int
		for k := range m {
			ks = append(ks, int(k))
		}
		sort.Ints(ks)
		s := ""
		for _, k := range ks {
			s += fmt.Sprintf("%d:%x;", k, m[uint16(k)][:])
		}
		a.maps = append(a.maps, s)
	}
	if as := tx.AggregatedSignature; as != nil {
		a.agg = fmt.Sprintf("%v:%x", as.Signers, as.Signature[:])
	}
	return a
}

// tamper changes one byte at a time of an accepted encoding.
func (wd *vC02World) tamper(base *common.VersionedTransaction, enc []byte, ts uint64, budget int) int {
	r, rng := wd.r, wd.rng
	ref := vC02AuthOf(base)
	baseSpent, bad := vC02ReadSpent(wd.sim, base)
	if bad != "" {
		return 0
	}
	payloadLen := len(base.PayloadMarshal()) - 2
	var offs []int
	if len(enc) <= 640 {
		for o := 0; o < len(enc); o++ {
			offs = append(offs, o)
		}
	} else {
		strat := func(lo, hi, n int) {
			if hi-lo <= n {
				for o := lo; o < hi; o++ {
					offs = append(offs, o)
				}
				return
			}
			for i := 0; i < n; i++ {
				a := lo + (hi-lo)*i/n
				b := lo + (hi-lo)*(i+1)/n
				offs = append(offs, a+rng.Intn(b-a))
			}
		}
		strat(0, payloadLen, 320)
		strat(payloadLen, len(enc), 320)
	}
	if len(offs) > budget {
		rng.Shuffle(len(offs), func(i, j int) { offs[i], offs[j] = offs[j], offs[i] })
		offs = offs[:budget]
	}
	for _, o := range offs {
		t := append([]byte{}, enc...)
		t[o] ^= byte(1 + rng.Intn(255))
		r.Eval()
		region := "payload"
		if o >= payloadLen {
			region = "authorization"
		}
		r.Count("tamper_"+region+"_bytes", 1)
		tx2, err := common.UnmarshalVersionedTransaction(t)
		if err != nil {
			r.Count("tamper_not_decodable", 1)
			continue
		}
		var verr error
		// a third of the validations run the way bodies of finalized snapshots are validated (authorization is the same)
		fork := rng.Intn(3) == 0
		if fork {
			r.Count("tamper_validated_on_the_finalization_path", 1)
		}
		panicked, _, _ := verifkit.Guard(func() { verr = tx2.Validate(wd.sim.Store, ts, fork) })
		if panicked {
			r.Count("panics_seen_(C05_territory)", 1)
			continue
		}
		if verr != nil {
			r.Count("tamper_rejected", 1)
			continue
		}
		// accepted: only legitimate where the thresholds concerned are zero
		got := vC02AuthOf(tx2)
		spent2, bad := vC02ReadSpent(wd.sim, tx2)
		if bad != "" {
			continue
		}
		class, exempt := "", false
		switch {
		case got.hash != ref.hash:
			class, exempt = "payload", vC02AllZero(spent2)
		case got.agg != ref.agg || (got.agg == "") != (ref.agg == ""):
			class, exempt = "aggregate-signature", vC02AllZero(baseSpent)
		case len(got.maps) != len(ref.maps):
			class, exempt = "signature-map", vC02AllZero(baseSpent)
		default:
			class, exempt = "signature-map", true
			changed := false
			for i := range got.maps {
				if got.maps[i] != ref.maps[i] {
					changed = true
					if i < len(baseSpent) && baseSpent[i].ok && baseSpent[i].thr > 0 {
						exempt = false
					}
				}
			}
			if !changed {
				r.Count("tamper_same_object", 1)
				continue
			}
		}
		if exempt {
			r.Count("tamper_accepted_threshold_zero_exception", 1)
			continue
		}
		r.Violation("C02|tamper-accepted|"+class,
			fmt.Sprintf("changing byte %d (%s region) of an accepted transaction left it accepted although a spent threshold is positive", o, region),
			map[string]any{"original": fmt.Sprintf("%x", enc), "tampered": fmt.Sprintf("%x", t), "offset": o, "snapshot_time": ts})
	}
	return len(offs)
}

// ---- batch agreement ----

type vC02Entry struct {
	key  crypto.Key
	sig  crypto.Signature
	kind string
}

var vC02Torsion8 = []byte{0x26, 0xe8, 0x95, 0x8f, 0xc2, 0xb2, 0x27, 0xb0, 0x45, 0xc3, 0xf4, 0x89, 0xf2, 0xef, 0x98, 0xf0, 0xd5, 0xdf, 0xac, 0x05, 0xd3, 0xc6, 0x33, 0x39, 0xb1, 0x38, 0x02, 0x88, 0x6d, 0x53, 0xfc, 0x05}

func vC02Scalar(rng *rand.Rand) *edwards25519.Scalar {
	var b [64]byte
	rng.Read(b[:])
	s, _ := edwards25519.NewScalar().SetUniformBytes(b[:])
	return s
}

// vC02RawSign signs with explicit control over R and A so that mixed-order
// components can be planted: returns (A+ta*T, R+tr*T, s) with s = r + H(R',A',m)*a.
func vC02RawSign(rng *rand.Rand, msg crypto.Hash, ta, tr int) (crypto.Key, crypto.Signature) {
	t8, _ := edwards25519.NewIdentityPoint().SetBytes(vC02Torsion8)
	mult := func(n int) *edwards25519.Point {
		p := edwards25519.NewIdentityPoint()
		for i := 0; i < n; i++ {
			p.Add(p, t8)
		}
		return p
	}
	a, rr := vC02Scalar(rng), vC02Scalar(rng)
	A := edwards25519.NewIdentityPoint().ScalarBaseMult(a)
	A.Add(A, mult(ta))
	R := edwards25519.NewIdentityPoint().ScalarBaseMult(rr)
	R.Add(R, mult(tr))
	h := sha512.New()
	h.Write(R.Bytes())
	h.Write(A.Bytes())
	h.Write(msg[:])
	k, _ := edwards25519.NewScalar().SetUniformBytes(h.Sum(nil))
	s := edwards25519.NewScalar().MultiplyAdd(k, a, rr)
	var key crypto.Key
	var sig crypto.Signature
	copy(key[:], A.Bytes())
	copy(sig[:32], R.Bytes())
	copy(sig[32:], s.Bytes())
	return key, sig
}

func vC02LowOrder(rng *rand.Rand) []byte {
	var k [32]byte
	switch rng.Intn(6) {
	case 0: // identity
		k[0] = 1
	case 1: // order 2
		for i := range k {
			k[i] = 0xff
		}
		k[0], k[31] = 0xec, 0x7f
	case 2: // order 4
	case 3: // order 4, sign bit
		k[31] = 0x80
	case 4:
		copy(k[:], vC02Torsion8)
	default: // order 8, other sign
		copy(k[:], vC02Torsion8)
		k[31] |= 0x80
	}
	return k[:]
}

func vC02MakeEntry(rng *rand.Rand, msg crypto.Hash, kind string) vC02Entry {
	e := vC02Entry{kind: kind}
	var seed [64]byte
	rng.Read(seed[:])
	priv := crypto.NewKeyFromSeed(seed[:])
	e.key = priv.Public()
	e.sig = priv.Sign(msg)
	switch kind {
	case "valid":
	case "valid-raw":
		e.key, e.sig = vC02RawSign(rng, msg, 0, 0)
	case "bit-flip":
		e.sig[rng.Intn(64)] ^= 1 << uint(rng.Intn(8))
	case "other-message":
		var m2 crypto.Hash
		rng.Read(m2[:])
		e.sig = priv.Sign(m2)
	case "other-key":
		rng.Read(seed[:])
		e.key = crypto.NewKeyFromSeed(seed[:]).Public()
	case "noncanonical-s":
		vC02AddL(e.sig[32:])
	case "mixed-order-r": // valid only under the cofactored equation
		e.key, e.sig = vC02RawSign(rng, msg, 0, 1+rng.Intn(7))
	case "mixed-order-key":
		e.key, e.sig = vC02RawSign(rng, msg, 1+rng.Intn(7), 0)
	case "mixed-order-both":
		e.key, e.sig = vC02RawSign(rng, msg, 1+rng.Intn(7), 1+rng.Intn(7))
	case "low-order-r":
		copy(e.sig[:32], vC02LowOrder(rng))
	case "low-order-key":
		copy(e.key[:], vC02LowOrder(rng))
		if rng.Intn(2) == 0 { // s = r, R = r*B: valid for a key of small order whenever the challenge kills it
			rr := vC02Scalar(rng)
			copy(e.sig[:32], edwards25519.NewIdentityPoint().ScalarBaseMult(rr).Bytes())
			copy(e.sig[32:], rr.Bytes())
		}
	case "zero-signature":
		e.sig = crypto.Signature{}
	case "noncanonical-point":
		b := bytes.Repeat([]byte{0xff}, 32)
		b[0], b[31] = byte(0xed+rng.Intn(19)), 0x7f
		if rng.Intn(2) == 0 {
			copy(e.key[:], b)
		} else {
			copy(e.sig[:32], b)
		}
	case "random-bytes":
		rng.Read(e.key[:])
		rng.Read(e.sig[:])
	}
	return e
}

var vC02BadKinds = []string{"bit-flip", "other-message", "other-key", "noncanonical-s", "mixed-order-r", "mixed-order-key", "mixed-order-both",
	"low-order-r", "low-order-key", "zero-signature", "noncanonical-point", "random-bytes"}

func (wd *vC02World) batchCase(i int) {
	r, rng := wd.r, wd.rng
	var msg crypto.Hash
	rng.Read(msg[:])
	n := 1 + rng.Intn(64)
	if rng.Intn(3) == 0 {
		n = 1 + rng.Intn(4)
	}
	shape := rng.Intn(10)
	entries := make([]vC02Entry, n)
	bad := map[string]bool{}
	for j := range entries {
		kind := []string{"valid", "valid", "valid-raw"}[rng.Intn(3)]
		switch {
		case shape < 4: // all valid
		case shape < 8: // exactly one bad entry
			if j == (i*7+3)%n {
				kind = vC02BadKinds[rng.Intn(len(vC02BadKinds))]
			}
		default:
			if rng.Intn(3) == 0 {
				kind = vC02BadKinds[rng.Intn(len(vC02BadKinds))]
			}
		}
		entries[j] = vC02MakeEntry(rng, msg, kind)
		if kind != "valid" && kind != "valid-raw" {
			bad[kind] = true
		}
	}
	if n > 2 && rng.Intn(12) == 0 { // the same pair twice
		entries[n-1] = entries[0]
	}
	// mixed-up entries: two valid signatures whose scalar halves are exchanged, or shifted by +d / -d; each is
	// invalid on its own while the plain sum of the pair is unchanged
	if n >= 2 && rng.Intn(5) == 0 {
		a, b := rng.Intn(n), rng.Intn(n)
		ka, kb := entries[a].kind, entries[b].kind
		if a != b && (ka == "valid" || ka == "valid-raw") && (kb == "valid" || kb == "valid-raw") {
			if rng.Intn(2) == 0 {
				var tmp [32]byte
				copy(tmp[:], entries[a].sig[32:])
				copy(entries[a].sig[32:], entries[b].sig[32:])
				copy(entries[b].sig[32:], tmp[:])
				entries[a].kind, entries[b].kind = "scalar-halves-exchanged", "scalar-halves-exchanged"
			} else {
				d := vC02Scalar(rng)
				sa, ea := edwards25519.NewScalar().SetCanonicalBytes(entries[a].sig[32:])
				sb, eb := edwards25519.NewScalar().SetCanonicalBytes(entries[b].sig[32:])
				if ea == nil && eb == nil {
					copy(entries[a].sig[32:], edwards25519.NewScalar().Add(sa, d).Bytes())
					copy(entries[b].sig[32:], edwards25519.NewScalar().Subtract(sb, d).Bytes())
					entries[a].kind, entries[b].kind = "scalar-shifted-compensating", "scalar-shifted-compensating"
				}
			}
			if entries[a].kind != ka {
				bad[entries[a].kind] = true
			}
		}
	}
	keys := make([]*crypto.Key, n)
	sigs := make([]*crypto.Signature, n)
	all := true
	firstBad := ""
	for j := range entries {
		keys[j], sigs[j] = &entries[j].key, &entries[j].sig
		single := keys[j].Verify(msg, *sigs[j])
		std := vC02StdVerify(keys[j], msg, sigs[j])
		r.Count("single_"+entries[j].kind+map[bool]string{true: "_valid", false: "_invalid"}[single], 1)
		if single && !std {
			r.Violation("C02|single-verify|repository-valid-std-invalid",
				fmt.Sprintf("Key.Verify accepts a %s signature that crypto/ed25519 rejects", entries[j].kind),
				map[string]any{"key": entries[j].key.String(), "signature": entries[j].sig.String(), "message": msg.String(), "kind": entries[j].kind})
		}
		if (entries[j].kind == "valid" || entries[j].kind == "valid-raw") && !std {
			r.Inconclusive("harness signer produced a signature crypto/ed25519 rejects")
		}
		if !single {
			all = false
			if firstBad == "" {
				firstBad = entries[j].kind
			}
		}
	}
	batch := crypto.BatchVerify(msg, keys, sigs)
	r.Eval()
	kinds := make([]string, 0, len(bad))
	for k := range bad {
		kinds = append(kinds, k)
	}
	sort.Strings(kinds)
	r.Nontrivial(fmt.Sprintf("batch|%d|%v|%v", n, kinds, batch))
	r.Count(fmt.Sprintf("batch_%v", batch), 1)
	if batch != all {
		dir := "batch-accepts-single-rejects"
		if all {
			dir = "batch-rejects-singles-accept"
		}
		wit := map[string]any{"message": msg.String(), "batch": batch, "conjunction_of_singles": all, "first_rejected_kind": firstBad}
		var ks, ss, kd []string
		for j := range entries {
			ks, ss, kd = append(ks, entries[j].key.String()), append(ss, entries[j].sig.String()), append(kd, entries[j].kind)
		}
		wit["keys"], wit["signatures"], wit["kinds"] = ks, ss, kd
		r.Violation("C02|batch-disagrees|"+dir,
			fmt.Sprintf("BatchVerify=%v but the conjunction of %d single Verify calls is %v (entry kinds present: %v)", batch, n, all, kinds), wit)
	}
}

func vC02ErrClass(err error) string {
	words := []string{}
	for _, w := range bytes.Fields([]byte(err.Error())) {
		if bytes.ContainsAny(w, "0123456789") {
			continue
		}
		words = append(words, string(w))
		if len(words) == 4 {
			break
		}
	}
	return fmt.Sprint(words)
}

func TestVerif_C02(t *testing.T) {
	r := verifkit.Start(t, "C02", "exploration")
	r.SetRule("ledger simulator with outputs of 1..64 keys and thresholds 0..64; candidates spend 1..4 outputs with honest signer sets of size threshold-1 / threshold / more, as signature maps or aggregate " +
		"signatures, about half of them forged (wrong key, reused signature, index out of range, maps swapped or moved between inputs, other payload, S+L, shifted / extended / shrunk / unsorted masks, ...); " +
		"every acceptance is re-judged with crypto/ed25519 and the store's key lists; every byte of accepted encodings is changed once (stratified on large ones); BatchVerify is compared with single Verify on " +
		"mixes of valid, invalid, low-order, mixed-order, non-canonical and mixed-up (scalar halves exchanged or shifted by +d/-d between two entries) entries; non-trivial = distinct accepted transactions with >=2 inputs or threshold >=2, distinct rejected forgeries, and distinct batch shapes")
	r.Assume("the payload hash is the repository's Blake3 of its own payload encoding (encoding and hashing are the subject of C06)")
	r.Assume("crypto/ed25519.Verify and filippo.io/edwards25519 are the reference for 'valid signature'; the spent outputs' key lists and scripts are read through ReadUTXOLock")
	r.Assume("the threshold-zero exception is applied per signature map for authorization bytes and to the whole transaction for payload bytes")
	sim, err := verifledger.NewSim(fmt.Sprintf("c02-%d", r.Seed), 7, 1700000000, t.TempDir())
	if err != nil {
		t.Fatal(err)
	}
	defer sim.Close()
	rng := r.Rand()
	wd := &vC02World{r: r, sim: sim, rng: rng, w: newVerifWallet(sim, rng, 70)}
	assets := verifAssets()
	for _, a := range assets[1:] {
		for k := 0; k < 6; k++ {
			if err := wd.deposit(a, big.NewInt(int64(1_0000+rng.Intn(2_0000_0000)))); err != nil {
				t.Fatalf("bootstrap deposit: %v", err)
			}
		}
	}
	// sanity of the torsion constant used by the batch workload
	t8, err := edwards25519.NewIdentityPoint().SetBytes(vC02Torsion8)
	if err != nil || t8.Equal(edwards25519.NewIdentityPoint()) == 1 ||
		edwards25519.NewIdentityPoint().MultByCofactor(t8).Equal(edwards25519.NewIdentityPoint()) != 1 {
		t.Fatal("torsion constant is not a point of order 8")
	}

	ncand := r.N(1400, 28000)
	tamperBudget := r.N(36000, 720000)
	nbatch := r.N(1000, 20000)
	accepted, acceptedAgg, acceptedDeep, forgedRejected, tampers := 0, 0, 0, 0, 0
	for i := 0; i < ncand; i++ {
		if len(wd.pool) < 12 {
			a := assets[1+rng.Intn(3)]
			if err := wd.deposit(a, big.NewInt(int64(1_0000+rng.Intn(2_0000_0000)))); err != nil {
				r.Count("refill_deposit_rejected", 1)
			}
		}
		c := wd.candidate()
		if c == nil {
			continue
		}
		ts := sim.NextTime(uint64(1 + rng.Intn(2e9)))
		var parsed *common.VersionedTransaction
		var enc []byte
		if c.memOnly {
			parsed = &common.VersionedTransaction{SignedTransaction: c.tx.SignedTransaction}
		} else {
			ep, _, _ := verifkit.Guard(func() { enc = c.tx.Marshal() })
			if ep {
				parsed = &common.VersionedTransaction{SignedTransaction: c.tx.SignedTransaction}
				enc = nil
				r.Count("candidates_not_encodable", 1)
			} else if parsed, err = common.UnmarshalVersionedTransaction(enc); err != nil {
				r.Count("candidates_not_decodable", 1)
				continue
			}
		}
		var verr error
		fork := rng.Intn(3) == 0
		if fork {
			r.Count("candidates_validated_on_the_finalization_path", 1)
		}
		panicked, _, _ := verifkit.Guard(func() { verr = parsed.Validate(sim.Store, ts, fork) })
		r.Eval()
		label := c.mode + "_" + map[bool]string{true: "honest", false: "forged-" + c.forge}[c.forge == ""]
		r.Count("candidates_"+label, 1)
		if panicked {
			r.Count("panics_seen_(C05_territory)", 1)
			continue
		}
		if verr != nil {
			if c.forge != "" {
				forgedRejected++
				r.Nontrivial("reject|" + c.mode + "|" + c.forge + "|" + c.tx.PayloadHash().String())
			} else {
				r.Count("honest_rejected_"+c.mode, 1)
				r.Count("honest_rejected_because_"+vC02ErrClass(verr), 1)
			}
			continue
		}
		accepted++
		r.Count("accepted_"+label, 1)
		if c.mode == "aggregate" {
			acceptedAgg++
		}
		deep := len(c.ins) >= 2
		for _, in := range c.ins {
			if in.Threshold() >= 2 {
				deep = true
			}
		}
		if deep {
			acceptedDeep++
			r.Nontrivial("accept|" + parsed.PayloadHash().String())
		}
		if clause, bad := vC02Judge(sim, parsed, c.truth); bad != "" {
			inputs := []map[string]any{}
			for k, in := range c.ins {
				inputs = append(inputs, map[string]any{"ref": in.Ref(), "keys": len(in.Keys), "threshold": in.Threshold(), "harness_signed_with": c.signers[k]})
			}
			wit := map[string]any{"mode": c.mode, "forgery": c.forge, "inputs": inputs, "snapshot_time": ts, "oracle": bad}
			if enc != nil {
				wit["tx"] = fmt.Sprintf("%x", enc)
			}
			r.Violation("C02|"+clause+"|"+c.mode, fmt.Sprintf("accepted %s-authorized transaction (forgery: %q) is not authorized: %s", c.mode, c.forge, bad), wit)
			continue
		}
		if r.SampleCount() < 4 && deep {
			hexTx := fmt.Sprintf("%x", enc)
			if len(hexTx) > 600 {
				hexTx = hexTx[:600] + "..."
			}
			r.Sample(map[string]any{"mode": c.mode, "forgery": c.forge, "inputs": len(c.ins), "keys": len(c.ins[0].Keys), "threshold": c.ins[0].Threshold(), "signers": c.signers, "accepted": true, "tx": hexTx})
		}
		if enc != nil && tampers < tamperBudget && (accepted%3 == 1 || len(enc) < 500) {
			tampers += wd.tamper(parsed, enc, ts, tamperBudget-tampers)
		}
		if c.forge == "" && rng.Intn(3) != 0 {
			if err := wd.settle(parsed, c.specs); err != nil {
				r.Count("settle_errors", 1)
			} else {
				r.Count("finalized", 1)
			}
		}
	}
	for i := 0; i < nbatch; i++ {
		wd.batchCase(i)
	}
	r.Note("accepted", accepted)
	r.Note("accepted_aggregate", acceptedAgg)
	r.Note("accepted_multi_input_or_threshold_ge_2", acceptedDeep)
	r.Note("forgeries_rejected", forgedRejected)
	r.Note("tamper_cases", tampers)
	r.Note("batch_cases", nbatch)
	if accepted < 100 || acceptedAgg < 20 || acceptedDeep < 50 {
		r.Inconclusive(fmt.Sprintf("too few acceptances observed (all %d, aggregate %d, multi-input or threshold>=2 %d)", accepted, acceptedAgg, acceptedDeep))
	}
	if tampers < tamperBudget/4 {
		r.Inconclusive(fmt.Sprintf("only %d tamper cases executed", tampers))
	}
	if r.Counter("batch_true") < int64(nbatch/10) || r.Counter("batch_false") < int64(nbatch/10) {
		r.Inconclusive("batch workload is one-sided")
	}
	r.Finish()
}
