package common_test

import (
	"bytes"
	"fmt"
	"math/big"
	"math/rand"
	"os"
	"path/filepath"
	"sort"
	"strings"
	"sync"
	"testing"

	"github.com/MixinNetwork/mixin/common"
	"github.com/MixinNetwork/mixin/crypto"
	"github.com/MixinNetwork/mixin/verifgen"
	"github.com/MixinNetwork/mixin/verifkit"
	"github.com/MixinNetwork/mixin/verifledger"
)

// C05: validating any decodable transaction never crashes the node.
//
// Monitor: recover() around VersionedTransaction.Validate(store, ts, fork) for
// fork in {false,true}. Workload: a storage-level ledger (real BadgerStore, own
// genesis) that is evolved only by transactions which themselves passed
// Validate, until it holds unspent outputs of every output type a validated
// transaction can produce; against it a structure-aware hostile generator
// (typed near-valid templates + struct mutators + byte mutators). Only inputs
// that round-trip through UnmarshalVersionedTransaction are validated.

// ---------------------------------------------------------------------------
// world

type vC05Ref struct {
	Hash   crypto.Hash
	Index  uint
	Type   uint8
	Asset  crypto.Hash
	Amount common.Integer
	Out    *verifgen.Out // non-nil when the harness owns the keys
	Extra  []byte        // extra of the creating transaction
	Spent  bool
	Locked bool // reserved by a pending (admitted, not finalized) transaction
}

type vC05World struct {
	t   *testing.T
	r   *verifkit.Run
	sim *verifledger.Sim
	w   *verifWallet
	rng *rand.Rand

	refs      []*vC05Ref
	genesisTx []*common.VersionedTransaction
	finalized []crypto.Hash
	pending   []crypto.Hash
	submit    crypto.Hash // finalized withdrawal submission
	mintBatch uint64
	pledgeTx  *common.VersionedTransaction // latest pledge transaction
	pledgeKey *common.Address              // signer of the latest pledge
	nodeSeq   int
	nonce     int
	cancelErr string
	inflight  string
	running   bool // the monitored loop has started: ledger steps must not abort the run
}

var (
	vC05TypeNames = map[uint8]string{
		common.TransactionTypeScript:               "script",
		common.TransactionTypeMint:                 "mint",
		common.TransactionTypeDeposit:              "deposit",
		common.TransactionTypeWithdrawalSubmit:     "withdrawal-submit",
		common.TransactionTypeWithdrawalClaim:      "withdrawal-claim",
		common.TransactionTypeNodePledge:           "node-pledge",
		common.TransactionTypeNodeAccept:           "node-accept",
		common.TransactionTypeNodeRemove:           "node-remove",
		common.TransactionTypeNodeCancel:           "node-cancel",
		common.TransactionTypeCustodianUpdateNodes: "custodian-update",
		common.TransactionTypeCustodianSlashNodes:  "custodian-slash",
		common.TransactionTypeUnknown:              "unknown",
	}
	vC05OutputTypes = []uint8{
		common.OutputTypeScript, common.OutputTypeWithdrawalSubmit, common.OutputTypeNodePledge,
		common.OutputTypeNodeAccept, 0xa5, common.OutputTypeNodeRemove, common.OutputTypeWithdrawalClaim,
		common.OutputTypeNodeCancel, common.OutputTypeCustodianUpdateNodes, common.OutputTypeCustodianSlashNodes,
	}
	vC05PledgeUnits = new(big.Int).Mul(big.NewInt(13439), big.NewInt(1_0000_0000))
)

func vC05TypeName(t uint8) string {
	if n, ok := vC05TypeNames[t]; ok {
		return n
	}
	return fmt.Sprintf("type-%d", t)
}

// vC05Int builds an Integer of u units through the repository's own decoder
// (cheap for 65535-byte values, unlike the decimal text route).
func vC05Int(u *big.Int) common.Integer {
	b := u.Bytes()
	if len(b) > 65535 {
		b = b[:65535]
	}
	buf := append([]byte{byte(len(b) >> 8), byte(len(b))}, b...)
	buf = append(buf, 0) // a zero-length read at the very end of a reader reports EOF
	v, err := common.NewDecoder(buf).ReadInteger()
	if err != nil {
		panic(err)
	}
	return v
}

func (wd *vC05World) seed() []byte {
	wd.nonce++
	return verifgen.Seed64(fmt.Sprintf("%s:c05:%d", wd.sim.Net.Label, wd.nonce))
}

func (wd *vC05World) addr() common.Address { return wd.w.addrs[wd.rng.Intn(len(wd.w.addrs))] }

func (wd *vC05World) scriptSpec(units *big.Int, owners []common.Address, thr uint8) verifgen.OutSpec {
	return verifgen.OutSpec{Type: common.OutputTypeScript, Owners: owners, Threshold: thr, Amount: verifgen.Units(units), Seed: wd.seed()}
}

func (wd *vC05World) oneOwner(units *big.Int) verifgen.OutSpec {
	return wd.scriptSpec(units, []common.Address{wd.addr()}, 1)
}

// settle validates (as a decoded object), reserves, persists and finalizes tx,
// then records its outputs. Only transactions accepted by Validate get here.
func (wd *vC05World) settle(tx *common.VersionedTransaction, specs []verifgen.OutSpec, what string) error {
	parsed, err := verifgen.Reparse(tx)
	if err != nil {
		return fmt.Errorf("%s: reparse: %w", what, err)
	}
	ts := wd.sim.NextTime(uint64(1 + wd.rng.Intn(2e9)))
	if err := wd.sim.Admit(parsed, ts); err != nil {
		return fmt.Errorf("%s: admit: %w", what, err)
	}
	if _, _, err := wd.sim.Finalize([]*common.VersionedTransaction{parsed}, ts); err != nil {
		return fmt.Errorf("%s: finalize: %w", what, err)
	}
	wd.record(parsed, specs)
	wd.r.Count("ledger_finalized_"+vC05TypeName(parsed.TransactionType()), 1)
	return nil
}

func (wd *vC05World) record(tx *common.VersionedTransaction, specs []verifgen.OutSpec) {
	h := tx.PayloadHash()
	wd.finalized = append(wd.finalized, h)
	for _, in := range tx.Inputs {
		if in.Deposit != nil || in.Mint != nil || len(in.Genesis) > 0 {
			continue
		}
		for _, ref := range wd.refs {
			if ref.Hash == in.Hash && ref.Index == in.Index {
				ref.Spent = true
			}
		}
	}
	for _, o := range verifgen.OutsOf(tx, specs) {
		switch o.Type {
		case common.OutputTypeWithdrawalSubmit, common.OutputTypeCustodianSlashNodes:
			continue
		}
		ref := &vC05Ref{Hash: o.Hash, Index: o.Index, Type: o.Type, Asset: o.Asset, Amount: o.Amount, Extra: tx.Extra}
		if len(o.Owners) == len(o.Keys) && len(o.Keys) > 0 {
			ref.Out = o
		}
		wd.refs = append(wd.refs, ref)
	}
	wd.w.applied(tx, specs)
}

func (wd *vC05World) signFirst(raw *common.Transaction, ins []*verifgen.Out) *common.VersionedTransaction {
	return verifgen.SignMap(raw, ins, verifgen.FirstN(ins))
}

// pickRef returns a random known output satisfying the filter (nil if none).
func (wd *vC05World) pickRef(ok func(*vC05Ref) bool) *vC05Ref {
	var c []*vC05Ref
	for _, r := range wd.refs {
		if ok(r) {
			c = append(c, r)
		}
	}
	if len(c) == 0 {
		return nil
	}
	return c[wd.rng.Intn(len(c))]
}

func (wd *vC05World) spendable(asset crypto.Hash, minUnits *big.Int) *vC05Ref {
	var best *vC05Ref
	for _, r := range wd.refs {
		if r.Spent || r.Locked || r.Out == nil || r.Asset != asset || r.Type != common.OutputTypeScript ||
			r.Out.Threshold() < 1 || r.Out.Threshold() > len(r.Out.Keys) || verifgen.UnitsOf(r.Amount).Cmp(minUnits) < 0 {
			continue
		}
		if best == nil || r.Amount.Cmp(best.Amount) < 0 {
			best = r
		}
	}
	return best
}

func vC05NewWorld(t *testing.T, r *verifkit.Run) *vC05World {
	sim, err := verifledger.NewSim(fmt.Sprintf("c05-%d", r.Seed), 9, 1700000000, t.TempDir())
	if err != nil {
		t.Fatal(err)
	}
	wd := &vC05World{t: t, r: r, sim: sim, rng: r.Rand()}
	wd.w = newVerifWallet(sim, wd.rng, 8)
	_, _, txs, err := sim.Net.Genesis.BuildSnapshots()
	if err != nil {
		t.Fatal(err)
	}
	wd.genesisTx = txs
	for i, tx := range txs {
		h := tx.PayloadHash()
		wd.finalized = append(wd.finalized, h)
		o := tx.Outputs[0]
		ref := &vC05Ref{Hash: h, Index: 0, Type: o.Type, Asset: tx.Asset, Amount: o.Amount, Extra: tx.Extra}
		if i < len(sim.Net.Signers) { // node accept outputs are owned by all signers
			ref.Out = &verifgen.Out{Hash: h, Index: 0, Asset: tx.Asset, Amount: o.Amount, Type: o.Type, Keys: o.Keys, Mask: o.Mask, Script: o.Script, Owners: sim.Net.Signers}
		}
		wd.refs = append(wd.refs, ref)
	}
	if dir := os.Getenv("VERIF_REPLAY_DIR"); dir != "" {
		wd.inflight = filepath.Join(dir, "C05-inflight.bin")
	}
	return wd
}

func (wd *vC05World) must(err error) {
	if err != nil {
		wd.t.Fatalf("ledger construction: %v", err)
	}
}

// build evolves the ledger through validated transactions of every kind.
func (wd *vC05World) build() {
	net := wd.sim.Net
	assets := verifAssets()
	// 1. deposits of every asset (XIN in pledge-sized pieces)
	for _, a := range assets {
		for k := 0; k < 3; k++ {
			tx, specs := wd.w.deposit(a, big.NewInt(int64(1000+wd.rng.Intn(5_0000_0000))))
			wd.must(wd.settle(tx, specs, "deposit"))
		}
	}
	xin := assets[0]
	for k := 0; k < 6; k++ {
		u := new(big.Int).Set(vC05PledgeUnits)
		if k >= 4 {
			u = big.NewInt(int64(500_0000_0000 + wd.rng.Intn(1000)))
		}
		wd.nonce++
		spec := wd.oneOwner(u)
		tx := verifgen.Deposit(&net.Custodian, xin.id, xin.chain, xin.key, fmt.Sprintf("0xc05xin%06d", wd.nonce), uint64(k), verifgen.Units(u), spec)
		wd.must(wd.settle(tx, []verifgen.OutSpec{spec}, "xin deposit"))
	}
	// 2. transfers producing varied script outputs: thresholds 0, > keys, multi-key, keyless
	{
		in := wd.spendable(verifAssetXIN, big.NewInt(400_0000_0000))
		total := verifgen.UnitsOf(in.Amount)
		parts := verifSplit(wd.rng, total, 6)
		specs := []verifgen.OutSpec{
			wd.scriptSpec(parts[0], wd.w.addrs[5:7], 0),
			wd.scriptSpec(parts[1], wd.w.addrs[:5], 3),
			wd.scriptSpec(parts[2], wd.w.addrs[:2], 7), // threshold above key count: never spendable
			wd.oneOwner(parts[3]),
			wd.oneOwner(parts[4]),
		}
		raw := verifgen.BuildTx(verifAssetXIN, []*verifgen.Out{in.Out}, specs, []byte("c05 transfer"), nil)
		// keyless output with a mask and threshold 0 (accepted by output validation)
		mask := crypto.NewKeyFromSeed(wd.seed()).Public()
		raw.Outputs = append(raw.Outputs, &common.Output{Type: common.OutputTypeScript, Amount: verifgen.Units(parts[5]),
			Keys: []*crypto.Key{}, Mask: mask, Script: common.NewThresholdScript(0)})
		wd.must(wd.settle(wd.signFirst(raw, []*verifgen.Out{in.Out}), specs, "shape transfer"))
	}
	// 3. storage output (one key, fffe40) carrying a large extra
	{
		in := wd.spendable(verifAssetXIN, big.NewInt(100_0000_0000))
		total := verifgen.UnitsOf(in.Amount)
		st := big.NewInt(10000 * 3)
		specs := []verifgen.OutSpec{
			{Type: common.OutputTypeScript, Owners: []common.Address{wd.addr()}, Threshold: 64, Amount: verifgen.Units(st), Seed: wd.seed()},
			wd.oneOwner(new(big.Int).Sub(total, st)),
		}
		extra := bytes.Repeat([]byte{0x5a}, 3*1024)
		raw := verifgen.BuildTx(verifAssetXIN, []*verifgen.Out{in.Out}, specs, extra, nil)
		wd.must(wd.settle(wd.signFirst(raw, []*verifgen.Out{in.Out}), specs, "storage"))
	}
	// 4. withdrawal submission (BTC) and its claim (XIN)
	{
		in := wd.spendable(verifAssetBTC, big.NewInt(1000))
		total := verifgen.UnitsOf(in.Amount)
		half := new(big.Int).Rsh(total, 1)
		specs := []verifgen.OutSpec{
			{Type: common.OutputTypeWithdrawalSubmit, Amount: verifgen.Units(half), Withdrawal: &common.WithdrawalData{Address: "bc1qverif", Tag: ""}},
			wd.oneOwner(new(big.Int).Sub(total, half)),
		}
		raw := verifgen.BuildTx(verifAssetBTC, []*verifgen.Out{in.Out}, specs, nil, nil)
		ver := wd.signFirst(raw, []*verifgen.Out{in.Out})
		wd.must(wd.settle(ver, specs, "withdrawal submit"))
		wd.submit = ver.PayloadHash()

		tx, specs2, _ := wd.claimTx(wd.spendable(verifAssetXIN, big.NewInt(10_0000_0000)))
		wd.must(wd.settle(tx, specs2, "withdrawal claim"))
	}
	// 5. mint
	{
		tx, specs := wd.mintTx(100, big.NewInt(89_8765_4321))
		wd.must(wd.settle(tx, specs, "mint"))
		wd.mintBatch = 100
	}
	// 6. custodian update (same custodian, same nodes)
	{
		tx, specs := wd.custodianTx(wd.spendable(verifAssetXIN, big.NewInt(10_0000_0000)))
		wd.must(wd.settle(tx, specs, "custodian update"))
	}
	// 7. remove two genesis nodes, pledge + accept a new one, then leave a second pledge pending
	n := len(net.Signers)
	for _, i := range []int{n - 1, n - 2} {
		tx, specs := wd.removeTx(wd.refs[i], net.Payees[i])
		wd.must(wd.settle(tx, specs, "node remove"))
	}
	{
		in := wd.pickRef(func(r *vC05Ref) bool { return !r.Spent && r.Type == common.OutputTypeNodeRemove && r.Out != nil })
		tx, specs, signer := wd.pledgeTx_(in)
		wd.must(wd.settle(tx, specs, "node pledge"))
		wd.pledgeTx, wd.pledgeKey = tx, signer
		acc, specs := wd.acceptTx()
		wd.must(wd.settle(acc, specs, "node accept"))
	}
	// 8. a pending (admitted, not finalized) transfer: its input stays reserved
	{
		in := wd.spendable(verifAssetBTC, big.NewInt(1000))
		specs := []verifgen.OutSpec{wd.oneOwner(verifgen.UnitsOf(in.Amount))}
		raw := verifgen.BuildTx(verifAssetBTC, []*verifgen.Out{in.Out}, specs, nil, nil)
		parsed, err := verifgen.Reparse(wd.signFirst(raw, []*verifgen.Out{in.Out}))
		wd.must(err)
		wd.must(wd.sim.Admit(parsed, wd.sim.NextTime(1)))
		wd.pending = append(wd.pending, parsed.PayloadHash())
		in.Locked = true
	}
	if !wd.pledgeNext() {
		wd.t.Fatal("ledger construction: no XIN output left for the pending pledge")
	}
}

// pledgeNext leaves a new pledge pending (a pledging node exists afterwards).
func (wd *vC05World) pledgeNext() bool {
	in := wd.spendable(verifAssetXIN, big.NewInt(1_0000_0000))
	if in == nil {
		return false
	}
	tx, specs, signer := wd.pledgeTx_(in)
	if err := wd.settle(tx, specs, "node pledge"); err != nil {
		if !wd.running {
			wd.must(err)
		}
		wd.r.Count("ledger_step_failed_while_running", 1)
		return true
	}
	wd.pledgeTx, wd.pledgeKey = tx, signer
	// the cancel path: Validate is expected to decide (accept or reject) without crashing
	c, specs2 := wd.cancelTx()
	if c != nil {
		if err := wd.settle(c, specs2, "node cancel"); err != nil {
			wd.cancelErr = err.Error()
			wd.r.Count("ledger_cancel_rejected", 1)
		} else {
			wd.pledgeTx, wd.pledgeKey = nil, nil
		}
	}
	return true
}

func (wd *vC05World) acceptPending() {
	if wd.pledgeTx == nil {
		return
	}
	acc, specs := wd.acceptTx()
	if err := wd.settle(acc, specs, "node accept"); err != nil {
		if !wd.running {
			wd.must(err)
		}
		wd.r.Count("ledger_step_failed_while_running", 1)
		return
	}
	wd.pledgeTx, wd.pledgeKey = nil, nil
}

// ---- valid transaction builders (also used as templates) ----

func (wd *vC05World) claimTx(in *vC05Ref) (*common.VersionedTransaction, []verifgen.OutSpec, *common.Transaction) {
	total := verifgen.UnitsOf(in.Amount)
	fee := big.NewInt(10000 + int64(wd.rng.Intn(5)))
	specs := []verifgen.OutSpec{
		{Type: common.OutputTypeWithdrawalClaim, Amount: verifgen.Units(fee)},
		wd.oneOwner(new(big.Int).Sub(total, fee)),
	}
	data := []byte(fmt.Sprintf("claim-%d", wd.nonce))
	sig := wd.sim.Net.Custodian.PrivateSpendKey.Sign(crypto.Blake3Hash(data))
	raw := verifgen.BuildTx(verifAssetXIN, []*verifgen.Out{in.Out}, specs, append(sig[:], data...), []crypto.Hash{wd.submit})
	return wd.signFirst(raw, []*verifgen.Out{in.Out}), specs, raw
}

func (wd *vC05World) mintTx(batch uint64, units *big.Int) (*common.VersionedTransaction, []verifgen.OutSpec) {
	raw := common.NewTransactionV5(common.XINAssetId)
	raw.AddUniversalMintInput(batch, verifgen.Units(units))
	raw.References = []crypto.Hash{wd.sim.LastConsensusTx}
	parts := verifSplit(wd.rng, units, 1+wd.rng.Intn(3))
	var specs []verifgen.OutSpec
	for _, p := range parts {
		specs = append(specs, wd.oneOwner(p))
	}
	verifgen.AddOutputs(raw, specs)
	tx := raw.AsVersioned()
	sig := wd.sim.Net.Signers[0].PrivateSpendKey.Sign(tx.PayloadHash())
	tx.SignaturesMap = []map[uint16]*crypto.Signature{{0: &sig}}
	return tx, specs
}

func (wd *vC05World) custodianExtra(custodian *common.Address, approve *crypto.Key, count int) []byte {
	net := wd.sim.Net
	type cn struct {
		spend crypto.Key
		extra []byte
	}
	var nodes []cn
	for i := 0; i < count && i < len(net.Signers); i++ {
		e := common.EncodeCustodianNode(&net.Custodians[i], &net.Payees[i], &net.Signers[i].PrivateSpendKey,
			&net.Payees[i].PrivateSpendKey, &net.Custodians[i].PrivateSpendKey, net.NetworkId)
		nodes = append(nodes, cn{net.Custodians[i].PublicSpendKey, e})
	}
	sort.Slice(nodes, func(i, j int) bool { return bytes.Compare(nodes[i].spend[:], nodes[j].spend[:]) < 0 })
	extra := append(append([]byte{}, custodian.PublicSpendKey[:]...), custodian.PublicViewKey[:]...)
	for _, n := range nodes {
		extra = append(extra, n.extra...)
	}
	sig := approve.Sign(crypto.Blake3Hash(extra))
	return append(extra, sig[:]...)
}

func (wd *vC05World) custodianTx(in *vC05Ref) (*common.VersionedTransaction, []verifgen.OutSpec) {
	net := wd.sim.Net
	total := verifgen.UnitsOf(in.Amount)
	specs := []verifgen.OutSpec{{Type: common.OutputTypeCustodianUpdateNodes, Owners: []common.Address{net.Custodian}, Threshold: 64,
		Amount: verifgen.Units(total), Seed: wd.seed()}}
	extra := wd.custodianExtra(&net.Custodian, &net.Custodian.PrivateSpendKey, len(net.Signers))
	raw := verifgen.BuildTx(verifAssetXIN, []*verifgen.Out{in.Out}, specs, extra, []crypto.Hash{wd.sim.LastConsensusTx})
	return wd.signFirst(raw, []*verifgen.Out{in.Out}), specs
}

func (wd *vC05World) removeTx(accept *vC05Ref, payee common.Address) (*common.VersionedTransaction, []verifgen.OutSpec) {
	specs := []verifgen.OutSpec{{Type: common.OutputTypeNodeRemove, Owners: []common.Address{payee}, Threshold: 1, Amount: accept.Amount, Seed: wd.seed()}}
	raw := common.NewTransactionV5(common.XINAssetId)
	raw.AddInput(accept.Hash, accept.Index)
	verifgen.AddOutputs(raw, specs)
	raw.Extra = append([]byte{}, accept.Extra...)
	raw.References = []crypto.Hash{wd.sim.LastConsensusTx}
	return raw.AsVersioned(), specs
}

func (wd *vC05World) pledgeTx_(in *vC05Ref) (*common.VersionedTransaction, []verifgen.OutSpec, *common.Address) {
	wd.nodeSeq++
	signer := verifgen.NodeAddr(fmt.Sprintf("%s:newsigner:%d", wd.sim.Net.Label, wd.nodeSeq))
	payee := verifgen.NodeAddr(fmt.Sprintf("%s:newpayee:%d", wd.sim.Net.Label, wd.nodeSeq))
	specs := []verifgen.OutSpec{{Type: common.OutputTypeNodePledge, Amount: in.Amount}}
	extra := append(append([]byte{}, signer.PublicSpendKey[:]...), payee.PublicSpendKey[:]...)
	raw := verifgen.BuildTx(verifAssetXIN, []*verifgen.Out{in.Out}, specs, extra, []crypto.Hash{wd.sim.LastConsensusTx})
	return wd.signFirst(raw, []*verifgen.Out{in.Out}), specs, &signer
}

func (wd *vC05World) acceptTx() (*common.VersionedTransaction, []verifgen.OutSpec) {
	p := wd.pledgeTx
	specs := []verifgen.OutSpec{{Type: common.OutputTypeNodeAccept, Amount: p.Outputs[0].Amount}}
	raw := common.NewTransactionV5(common.XINAssetId)
	raw.AddInput(p.PayloadHash(), 0)
	verifgen.AddOutputs(raw, specs)
	raw.Extra = append([]byte{}, p.Extra...)
	raw.References = []crypto.Hash{wd.sim.LastConsensusTx}
	tx := raw.AsVersioned()
	sig := wd.pledgeKey.PrivateSpendKey.Sign(tx.PayloadHash())
	tx.SignaturesMap = []map[uint16]*crypto.Signature{{0: &sig}}
	return tx, specs
}

// cancelTx builds the cancellation of the pending pledge the way the wallet
// side does: 1% stays as cancel output, the rest returns to the key that funded
// the pledge, authorised by that key.
func (wd *vC05World) cancelTx() (*common.VersionedTransaction, []verifgen.OutSpec) {
	p := wd.pledgeTx
	if p == nil {
		return nil, nil
	}
	src := wd.pickRef(func(r *vC05Ref) bool { return r.Hash == p.Inputs[0].Hash && r.Index == p.Inputs[0].Index })
	if src == nil || src.Out == nil || len(src.Out.Owners) != 1 {
		return nil, nil
	}
	owner := src.Out.Owners[0]
	total := verifgen.UnitsOf(p.Outputs[0].Amount)
	fee := new(big.Int).Div(total, big.NewInt(100))
	specs := []verifgen.OutSpec{
		{Type: common.OutputTypeNodeCancel, Amount: verifgen.Units(fee)},
		{Type: common.OutputTypeScript, Owners: []common.Address{owner}, Threshold: 1, Amount: verifgen.Units(new(big.Int).Sub(total, fee)), Seed: wd.seed()},
	}
	raw := common.NewTransactionV5(common.XINAssetId)
	raw.AddInput(p.PayloadHash(), 0)
	verifgen.AddOutputs(raw, specs)
	raw.Extra = append(append([]byte{}, p.Extra...), owner.PrivateViewKey[:]...)
	raw.References = []crypto.Hash{wd.sim.LastConsensusTx}
	tx := raw.AsVersioned()
	sig := src.Out.PrivKey(0).Sign(tx.PayloadHash())
	tx.SignaturesMap = []map[uint16]*crypto.Signature{{0: &sig}}
	return tx, specs
}

// ---------------------------------------------------------------------------
// hostile generator

type vC05Cand struct {
	kind string
	tx   *common.Transaction
	ins  []*vC05Ref // parallel to tx.Inputs (nil entries for unknown/special inputs)
	sign string     // map | agg | none | raw
	raw  *crypto.Key
	muts []string
}

func (wd *vC05World) anyRef() *vC05Ref {
	// bias towards diversity of types: pick a type first
	types := map[uint8][]*vC05Ref{}
	var keys []int
	for _, r := range wd.refs {
		if len(types[r.Type]) == 0 {
			keys = append(keys, int(r.Type))
		}
		types[r.Type] = append(types[r.Type], r)
	}
	sort.Ints(keys)
	l := types[uint8(keys[wd.rng.Intn(len(keys))])]
	return l[wd.rng.Intn(len(l))]
}

func (wd *vC05World) anyAsset() crypto.Hash {
	switch wd.rng.Intn(8) {
	case 0:
		return verifAssetBTC
	case 1:
		return verifAssetETH
	case 2:
		return verifAssetAny
	case 3:
		var h crypto.Hash
		wd.rng.Read(h[:])
		return h
	}
	return verifAssetXIN
}

func (wd *vC05World) extremeUnits() *big.Int {
	one := big.NewInt(1)
	p := func(n uint) *big.Int { return new(big.Int).Lsh(one, n) }
	step := big.NewInt(10000)
	switch wd.rng.Intn(20) {
	case 0:
		return big.NewInt(0)
	case 1:
		return big.NewInt(1)
	case 2:
		return big.NewInt(9999)
	case 3:
		return big.NewInt(10000)
	case 4:
		return new(big.Int).Sub(new(big.Int).Mul(step, big.NewInt(4096)), one)
	case 5:
		return new(big.Int).Mul(step, big.NewInt(int64(1+wd.rng.Intn(5000))))
	case 6:
		return p(63)
	case 7:
		return new(big.Int).Sub(p(64), one)
	case 8:
		return p(64)
	case 9:
		return new(big.Int).Add(p(64), one)
	case 10:
		return new(big.Int).Mul(p(64), step)
	case 11:
		return new(big.Int).Add(new(big.Int).Mul(p(64), step), big.NewInt(int64(wd.rng.Intn(3)-1)))
	case 12:
		return p(100)
	case 13:
		return p(uint(65 + wd.rng.Intn(200)))
	case 14:
		return p(256)
	case 15:
		return p(520)
	case 16:
		if wd.rng.Intn(4) == 0 { // the largest encodable integer: 65535 bytes of 0xff
			return new(big.Int).Sub(p(8*65535), one)
		}
		return p(uint(521 + wd.rng.Intn(4000)))
	case 17:
		return vC05PledgeUnits
	}
	return big.NewInt(int64(1 + wd.rng.Intn(1_0000_0000)))
}

func (wd *vC05World) badKey() *crypto.Key {
	var k crypto.Key
	switch wd.rng.Intn(6) {
	case 0: // zero
	case 1: // identity
		k[0] = 1
	case 2: // order 2
		for i := range k {
			k[i] = 0xff
		}
		k[0], k[31] = 0xec, 0x7f
	case 3: // order 8
		copy(k[:], []byte{0x26, 0xe8, 0x95, 0x8f, 0xc2, 0xb2, 0x27, 0xb0, 0x45, 0xc3, 0xf4, 0x89, 0xf2, 0xef, 0x98, 0xf0, 0xd5, 0xdf, 0xac, 0x05, 0xd3, 0xc6, 0x33, 0x39, 0xb1, 0x38, 0x02, 0x88, 0x6d, 0x53, 0xfc, 0x05})
	case 4: // non-canonical y = p+1
		for i := range k {
			k[i] = 0xff
		}
		k[0], k[31] = 0xee, 0x7f
	default:
		wd.rng.Read(k[:])
	}
	return &k
}

func (wd *vC05World) randScript() common.Script {
	switch wd.rng.Intn(10) {
	case 0:
		return common.Script{}
	case 1:
		return common.Script{0xff, 0xfe}
	case 2:
		return common.Script{0xff, 0xfe, 0x41}
	case 3:
		return common.Script{0xfe, 0xff, 0x01}
	case 4:
		return common.Script{0xff, 0xfe, 0x01, 0x00}
	case 5:
		return common.NewThresholdScript(64)
	case 6:
		return common.NewThresholdScript(0)
	case 7:
		b := make([]byte, wd.rng.Intn(300))
		wd.rng.Read(b)
		return b
	}
	return common.NewThresholdScript(uint8(wd.rng.Intn(66)))
}

func (wd *vC05World) randOutput(index int) *common.Output {
	t := vC05OutputTypes[wd.rng.Intn(len(vC05OutputTypes))]
	if wd.rng.Intn(12) == 0 {
		t = uint8(wd.rng.Intn(256))
	}
	o := &common.Output{Type: t, Amount: vC05Int(wd.extremeUnits()), Keys: []*crypto.Key{}}
	shape := wd.rng.Intn(6)
	switch t {
	case common.OutputTypeWithdrawalSubmit, common.OutputTypeWithdrawalClaim, common.OutputTypeNodePledge, common.OutputTypeNodeCancel, common.OutputTypeNodeAccept:
		if shape > 1 {
			shape = 0 // mostly the keyless shape these types require
		} else {
			shape = 2
		}
	}
	switch shape {
	case 0: // keyless
	case 1, 2, 3: // valid keys
		nk := 1 + wd.rng.Intn(3)
		if wd.rng.Intn(30) == 0 {
			nk = 64 + wd.rng.Intn(3)
		}
		tmp := common.NewTransactionV5(common.XINAssetId)
		for i := 0; i < index; i++ {
			tmp.Outputs = append(tmp.Outputs, nil)
		}
		var accs []*common.Address
		for i := 0; i < nk; i++ {
			a := wd.addr()
			accs = append(accs, &a)
		}
		thr := uint8(wd.rng.Intn(nk + 2))
		if nk == 1 && wd.rng.Intn(2) == 0 {
			thr = 64
		}
		tmp.AddOutputWithType(t, accs, common.NewThresholdScript(thr), o.Amount, wd.seed())
		o = tmp.Outputs[index]
	case 4: // bad keys
		for i := 0; i <= wd.rng.Intn(3); i++ {
			o.Keys = append(o.Keys, wd.badKey())
		}
		o.Mask = *wd.badKey()
		o.Script = wd.randScript()
	case 5: // storage shape with a foreign key
		k := crypto.NewKeyFromSeed(wd.seed()).Public()
		o.Keys = []*crypto.Key{&k}
		o.Mask = crypto.NewKeyFromSeed(wd.seed()).Public()
		o.Script = common.NewThresholdScript(64)
	}
	if wd.rng.Intn(6) == 0 {
		o.Script = wd.randScript()
	}
	if wd.rng.Intn(8) == 0 || (t == common.OutputTypeWithdrawalSubmit && wd.rng.Intn(3) > 0) {
		o.Withdrawal = &common.WithdrawalData{Address: vC05Str(wd.rng, 40), Tag: vC05Str(wd.rng, 12)}
	}
	return o
}

func vC05Str(rng *rand.Rand, max int) string {
	switch rng.Intn(5) {
	case 0:
		return ""
	case 1:
		return " "
	case 2:
		return " padded "
	}
	b := make([]byte, 1+rng.Intn(max))
	for i := range b {
		b[i] = byte(0x21 + rng.Intn(90))
	}
	return string(b)
}

func (wd *vC05World) randExtra() []byte {
	sizes := []int{0, 1, 31, 32, 63, 64, 65, 95, 96, 97, 255, 256, 257, 1024, 1025, 2599, 4096}
	n := sizes[wd.rng.Intn(len(sizes))]
	if wd.rng.Intn(150) == 0 {
		n = []int{1024*1024*4 - 400, 1024 * 1024 * 4, 1024 * 1024, 65536, 65536}[wd.rng.Intn(5)]
	}
	b := make([]byte, n)
	if n <= 8192 {
		wd.rng.Read(b)
	}
	return b
}

func (wd *vC05World) specialInput() *common.Input {
	in := &common.Input{}
	a := verifAssets()[wd.rng.Intn(4)]
	dep := func() *common.DepositData {
		d := &common.DepositData{Chain: a.chain, AssetKey: a.key, Transaction: fmt.Sprintf("0xc05h%06d", wd.rng.Intn(1e6)), Index: uint64(wd.rng.Intn(3)), Amount: vC05Int(wd.extremeUnits())}
		switch wd.rng.Intn(8) {
		case 0:
			d.Chain = crypto.Hash{}
		case 1:
			d.AssetKey = vC05Str(wd.rng, 60)
		case 2:
			d.Transaction = vC05Str(wd.rng, 80)
		case 3:
			d.Index = ^uint64(0)
		case 4:
			d.Transaction = "0xdeposit000001" // likely an existing deposit lock
		}
		return d
	}
	mint := func() *common.MintData {
		m := &common.MintData{Group: "UNIVERSAL", Batch: wd.mintBatch, Amount: vC05Int(wd.extremeUnits())}
		switch wd.rng.Intn(6) {
		case 0:
			m.Group = vC05Str(wd.rng, 20)
		case 1:
			m.Batch = 0
		case 2:
			m.Batch = ^uint64(0)
		case 3:
			m.Batch = wd.mintBatch + uint64(wd.rng.Intn(3))
		case 4:
			m.Batch = wd.mintBatch - 1
		}
		return m
	}
	switch wd.rng.Intn(7) {
	case 0, 1:
		in.Deposit = dep()
	case 2, 3:
		in.Mint = mint()
	case 4:
		in.Genesis = make([]byte, 1+wd.rng.Intn(40))
		wd.rng.Read(in.Genesis)
	case 5:
		in.Deposit, in.Mint = dep(), mint()
	case 6:
		in.Deposit = dep()
		if r := wd.anyRef(); r != nil {
			in.Hash, in.Index = r.Hash, r.Index
		}
	}
	return in
}

func (wd *vC05World) someHash() crypto.Hash {
	switch wd.rng.Intn(5) {
	case 0:
		var h crypto.Hash
		wd.rng.Read(h[:])
		return h
	case 1:
		if len(wd.pending) > 0 {
			return wd.pending[wd.rng.Intn(len(wd.pending))]
		}
	case 2:
		return wd.sim.LastConsensusTx
	case 3:
		if wd.submit.HasValue() {
			return wd.submit
		}
	}
	return wd.finalized[wd.rng.Intn(len(wd.finalized))]
}

// ---- templates ----

func (wd *vC05World) fillOutputs(c *vC05Cand, total *big.Int, n int) {
	if total.Sign() <= 0 {
		total = big.NewInt(1)
	}
	for _, p := range verifSplit(wd.rng, total, n) {
		var owners []common.Address
		perm := wd.rng.Perm(len(wd.w.addrs))
		for i := 0; i <= wd.rng.Intn(3); i++ {
			owners = append(owners, wd.w.addrs[perm[i]])
		}
		verifgen.AddOutputs(c.tx, []verifgen.OutSpec{wd.scriptSpec(p, owners, uint8(wd.rng.Intn(len(owners)+1)))})
	}
}

func (wd *vC05World) addIn(c *vC05Cand, r *vC05Ref) {
	if r == nil {
		r = wd.anyRef()
	}
	c.tx.Inputs = append(c.tx.Inputs, &common.Input{Hash: r.Hash, Index: r.Index})
	c.ins = append(c.ins, r)
}

func (wd *vC05World) sumIns(c *vC05Cand) *big.Int {
	t := new(big.Int)
	for _, r := range c.ins {
		if r != nil {
			t.Add(t, verifgen.UnitsOf(r.Amount))
		}
	}
	return t
}

func (wd *vC05World) template() *vC05Cand {
	c := &vC05Cand{tx: common.NewTransactionV5(verifAssetXIN), sign: "map"}
	rng := wd.rng
	if rng.Intn(4) == 0 {
		c.sign = "agg"
	}
	hostileIn := func(want func(*vC05Ref) bool) *vC05Ref {
		// the intended kind of input most of the time, any known output otherwise
		if rng.Intn(4) != 0 {
			if r := wd.pickRef(want); r != nil {
				return r
			}
		}
		return wd.anyRef()
	}
	unspentScript := func(asset crypto.Hash) func(*vC05Ref) bool {
		return func(r *vC05Ref) bool {
			return !r.Spent && r.Asset == asset && r.Out != nil && (r.Type == common.OutputTypeScript || r.Type == common.OutputTypeNodeRemove) &&
				r.Out.Threshold() <= len(r.Out.Keys)
		}
	}
	switch k := rng.Intn(24); {
	case k >= 22:
		// a special input (mint or deposit) that is not the first input: ordinary XIN outputs first
		c.kind = "special-input-not-first"
		for i := 0; i <= rng.Intn(2); i++ {
			wd.addIn(c, hostileIn(unspentScript(verifAssetXIN)))
		}
		in := wd.specialInput()
		for tries := 0; tries < 4 && in.Mint == nil; tries++ { // mostly mints (they are XIN like the ordinary inputs)
			in = wd.specialInput()
		}
		amt := big.NewInt(int64(1 + rng.Intn(1_0000_0000)))
		switch {
		case in.Mint != nil:
			in.Mint.Amount = verifgen.Units(amt)
		case in.Deposit != nil:
			in.Deposit.Amount = verifgen.Units(amt)
		}
		c.tx.Inputs = append(c.tx.Inputs, in)
		c.ins = append(c.ins, nil)
		c.tx.References = []crypto.Hash{wd.sim.LastConsensusTx}
		total := new(big.Int).Set(amt)
		if rng.Intn(2) == 0 {
			total.Add(total, wd.sumIns(c))
		}
		wd.fillOutputs(c, total, 1+rng.Intn(2))
		c.sign = "map+raw"
		k := wd.sim.Net.Signers[0].PrivateSpendKey
		if in.Deposit != nil || rng.Intn(3) == 0 {
			k = wd.sim.Net.Custodian.PrivateSpendKey
		}
		c.raw = &k
	case k < 4:
		c.kind = "transfer"
		asset := []crypto.Hash{verifAssetXIN, verifAssetXIN, verifAssetBTC, verifAssetETH, verifAssetAny}[rng.Intn(5)]
		c.tx.Asset = asset
		for i := 0; i <= rng.Intn(3); i++ {
			wd.addIn(c, hostileIn(unspentScript(asset)))
		}
		wd.fillOutputs(c, wd.sumIns(c), 1+rng.Intn(3))
	case k < 6:
		c.kind = "storage"
		wd.addIn(c, hostileIn(unspentScript(verifAssetXIN)))
		total := wd.sumIns(c)
		st := wd.extremeUnits()
		if rng.Intn(2) == 0 && total.Cmp(big.NewInt(20000)) > 0 {
			st = new(big.Int).Mul(big.NewInt(10000), big.NewInt(int64(1+rng.Intn(8))))
		}
		t := uint8(common.OutputTypeScript)
		if rng.Intn(5) == 0 {
			t = vC05OutputTypes[rng.Intn(len(vC05OutputTypes))]
		}
		verifgen.AddOutputs(c.tx, []verifgen.OutSpec{{Type: t, Owners: []common.Address{wd.addr()}, Threshold: 64, Amount: vC05Int(st), Seed: wd.seed()}})
		if rest := new(big.Int).Sub(total, st); rest.Sign() > 0 {
			wd.fillOutputs(c, rest, 1)
		}
		cells := new(big.Int).Div(st, big.NewInt(10000))
		n := 256
		switch {
		case cells.IsInt64() && cells.Int64() <= 24: // exactly at / one off the paid allowance
			n = int(cells.Int64())*1024 + rng.Intn(3) - 1
		case rng.Intn(40) == 0 && cells.IsInt64() && cells.Int64() < 4096:
			n = int(cells.Int64())*1024 + rng.Intn(3) - 1
		case rng.Intn(60) == 0: // the absolute capacity, with and without room for the rest of the transaction
			n = 1024*1024*4 - rng.Intn(2)*600
		default:
			n = []int{0, 256, 257, 1024, 5000}[rng.Intn(5)]
		}
		if n < 0 {
			n = 0
		}
		c.tx.Extra = make([]byte, n)
	case k < 7:
		c.kind = "withdrawal-submit"
		asset := []crypto.Hash{verifAssetXIN, verifAssetBTC, verifAssetETH}[rng.Intn(3)]
		c.tx.Asset = asset
		wd.addIn(c, hostileIn(unspentScript(asset)))
		total := wd.sumIns(c)
		half := new(big.Int).Rsh(total, 1)
		if half.Sign() == 0 {
			half = big.NewInt(1)
		}
		verifgen.AddOutputs(c.tx, []verifgen.OutSpec{{Type: common.OutputTypeWithdrawalSubmit, Amount: verifgen.Units(half),
			Withdrawal: &common.WithdrawalData{Address: vC05Str(rng, 40), Tag: vC05Str(rng, 10)}}})
		if rng.Intn(5) == 0 {
			c.tx.Outputs[0].Withdrawal = nil
		}
		wd.fillOutputs(c, new(big.Int).Sub(total, half), 1+rng.Intn(2))
	case k < 9:
		c.kind = "withdrawal-claim"
		wd.addIn(c, hostileIn(unspentScript(verifAssetXIN)))
		total := wd.sumIns(c)
		fee := big.NewInt(int64(9998 + rng.Intn(5)))
		verifgen.AddOutputs(c.tx, []verifgen.OutSpec{{Type: common.OutputTypeWithdrawalClaim, Amount: verifgen.Units(fee)}})
		wd.fillOutputs(c, new(big.Int).Sub(total, fee), 1)
		data := []byte(fmt.Sprintf("claim-%d", rng.Int()))
		key := wd.sim.Net.Custodian.PrivateSpendKey
		if rng.Intn(4) == 0 {
			key = wd.addr().PrivateSpendKey
		}
		sig := key.Sign(crypto.Blake3Hash(data))
		c.tx.Extra = append(sig[:], data...)
		switch rng.Intn(6) {
		case 0:
			c.tx.Extra = c.tx.Extra[:rng.Intn(64)]
		case 1:
			c.tx.Extra = c.tx.Extra[:64]
		}
		c.tx.References = []crypto.Hash{wd.submit}
		switch rng.Intn(6) {
		case 0:
			c.tx.References = []crypto.Hash{wd.someHash()}
		case 1:
			c.tx.References = nil
		case 2:
			c.tx.References = append(c.tx.References, wd.someHash())
		}
	case k < 11:
		c.kind = "node-pledge"
		wd.addIn(c, hostileIn(func(r *vC05Ref) bool {
			return unspentScript(verifAssetXIN)(r) && verifgen.UnitsOf(r.Amount).Cmp(vC05PledgeUnits) >= 0
		}))
		if rng.Intn(6) == 0 {
			wd.addIn(c, hostileIn(unspentScript(verifAssetXIN)))
		}
		verifgen.AddOutputs(c.tx, []verifgen.OutSpec{{Type: common.OutputTypeNodePledge, Amount: vC05Int(wd.sumIns(c))}})
		s := verifgen.NodeAddr(fmt.Sprintf("c05-cand-signer-%d", rng.Int()))
		p := verifgen.NodeAddr(fmt.Sprintf("c05-cand-payee-%d", rng.Int()))
		c.tx.Extra = append(append([]byte{}, s.PublicSpendKey[:]...), p.PublicSpendKey[:]...)
		switch rng.Intn(8) {
		case 0:
			copy(c.tx.Extra, wd.badKey()[:])
		case 1: // an existing signer or payee
			copy(c.tx.Extra, wd.sim.Net.Signers[rng.Intn(len(wd.sim.Net.Signers))].PublicSpendKey[:])
		case 2:
			copy(c.tx.Extra, wd.sim.Net.Payees[rng.Intn(len(wd.sim.Net.Payees))].PublicSpendKey[:])
		case 3:
			c.tx.Extra = c.tx.Extra[:32+rng.Intn(32)]
		}
		c.tx.References = []crypto.Hash{wd.sim.LastConsensusTx}
	case k < 13:
		c.kind = "node-accept"
		var extra []byte
		if wd.pledgeTx != nil && rng.Intn(5) != 0 {
			h := wd.pledgeTx.PayloadHash()
			wd.addIn(c, wd.pickRef(func(r *vC05Ref) bool { return r.Hash == h }))
			extra = wd.pledgeTx.Extra
			c.raw = &wd.pledgeKey.PrivateSpendKey
		} else {
			r := hostileIn(func(r *vC05Ref) bool { return r.Type == common.OutputTypeNodePledge })
			wd.addIn(c, r)
			extra = r.Extra
		}
		verifgen.AddOutputs(c.tx, []verifgen.OutSpec{{Type: common.OutputTypeNodeAccept, Amount: vC05Int(wd.sumIns(c))}})
		c.tx.Extra = append([]byte{}, extra...)
		c.tx.References = []crypto.Hash{wd.sim.LastConsensusTx}
		c.sign = "raw"
		if c.raw == nil || rng.Intn(6) == 0 {
			k := wd.addr().PrivateSpendKey
			c.raw = &k
		}
		if rng.Intn(8) == 0 {
			c.sign = []string{"map", "agg", "none"}[rng.Intn(3)]
		}
	case k < 15:
		c.kind = "node-cancel"
		var extra []byte
		var view crypto.Key
		if wd.pledgeTx != nil && rng.Intn(5) != 0 {
			h := wd.pledgeTx.PayloadHash()
			wd.addIn(c, wd.pickRef(func(r *vC05Ref) bool { return r.Hash == h }))
			extra = wd.pledgeTx.Extra
		} else {
			r := hostileIn(func(r *vC05Ref) bool { return r.Type == common.OutputTypeNodePledge })
			wd.addIn(c, r)
			extra = r.Extra
		}
		owner := wd.addr()
		k0 := owner.PrivateSpendKey
		c.raw = &k0
		if wd.pledgeTx != nil {
			if src := wd.pickRef(func(r *vC05Ref) bool {
				return r.Hash == wd.pledgeTx.Inputs[0].Hash && r.Index == wd.pledgeTx.Inputs[0].Index
			}); src != nil && src.Out != nil && len(src.Out.Owners) == 1 {
				owner = src.Out.Owners[0]
				c.raw = src.Out.PrivKey(0)
			}
		}
		view = owner.PrivateViewKey
		switch rng.Intn(6) {
		case 0: // not a canonical scalar
			for i := range view {
				view[i] = 0xff
			}
		case 1:
			rng.Read(view[:])
		case 2:
			view = crypto.Key{}
		}
		total := wd.sumIns(c)
		fee := new(big.Int).Div(total, big.NewInt(100))
		if rng.Intn(6) == 0 {
			fee.Add(fee, big.NewInt(int64(rng.Intn(3)-1)))
		}
		if fee.Sign() <= 0 {
			fee = big.NewInt(1)
		}
		rest := new(big.Int).Sub(total, fee)
		if rest.Sign() <= 0 {
			rest = big.NewInt(1)
		}
		verifgen.AddOutputs(c.tx, []verifgen.OutSpec{
			{Type: common.OutputTypeNodeCancel, Amount: verifgen.Units(fee)},
			{Type: common.OutputTypeScript, Owners: []common.Address{owner}, Threshold: 1, Amount: verifgen.Units(rest), Seed: wd.seed()},
		})
		c.tx.Extra = append(append([]byte{}, extra...), view[:]...)
		if rng.Intn(8) == 0 {
			c.tx.Extra = c.tx.Extra[:rng.Intn(len(c.tx.Extra)+1)]
		}
		c.tx.References = []crypto.Hash{wd.sim.LastConsensusTx}
		c.sign = "raw"
	case k < 18:
		c.kind = "node-remove"
		r := hostileIn(func(r *vC05Ref) bool { return r.Type == common.OutputTypeNodeAccept && !r.Spent })
		if rng.Intn(3) == 0 { // node-removal-typed transaction over an ordinary input
			r = wd.pickRef(unspentScript(verifAssetXIN))
		}
		if r == nil {
			r = wd.anyRef()
		}
		wd.addIn(c, r)
		if rng.Intn(8) == 0 {
			wd.addIn(c, wd.anyRef())
		}
		payee := wd.addr()
		verifgen.AddOutputs(c.tx, []verifgen.OutSpec{{Type: common.OutputTypeNodeRemove, Owners: []common.Address{payee}, Threshold: 1, Amount: vC05Int(wd.sumIns(c)), Seed: wd.seed()}})
		c.tx.Extra = append([]byte{}, r.Extra...)
		c.tx.References = []crypto.Hash{wd.sim.LastConsensusTx}
		c.sign = []string{"none", "none", "none", "map", "agg", "raw"}[rng.Intn(6)]
		if c.sign == "raw" {
			k := wd.addr().PrivateSpendKey
			c.raw = &k
		}
	case k < 20:
		c.kind = "custodian-update"
		wd.addIn(c, hostileIn(unspentScript(verifAssetXIN)))
		net := wd.sim.Net
		cust, approve, count := &net.Custodian, &net.Custodian.PrivateSpendKey, len(net.Signers)
		switch rng.Intn(8) {
		case 0:
			a := wd.addr()
			cust = &a
		case 1:
			a := wd.addr()
			approve = &a.PrivateSpendKey
		case 2:
			count = 7 + rng.Intn(len(net.Signers)-6)
		case 3:
			count = rng.Intn(7)
		}
		extra := wd.custodianExtra(cust, approve, count)
		switch rng.Intn(10) {
		case 0:
			extra = extra[:rng.Intn(len(extra)+1)]
		case 1:
			extra[rng.Intn(len(extra))] ^= byte(1 + rng.Intn(255))
		case 2: // swap two node records (sort order)
			if count >= 2 {
				a, b := extra[64:64+353], extra[64+353:64+706]
				tmp := append([]byte{}, a...)
				copy(a, b)
				copy(b, tmp)
			}
		case 3: // duplicate a node record
			if count >= 2 {
				copy(extra[64+353:64+706], extra[64:64+353])
			}
		case 4:
			extra = append(extra, make([]byte, 353)...)
		}
		verifgen.AddOutputs(c.tx, []verifgen.OutSpec{{Type: common.OutputTypeCustodianUpdateNodes, Owners: []common.Address{wd.addr()}, Threshold: 64, Amount: vC05Int(wd.sumIns(c)), Seed: wd.seed()}})
		if rng.Intn(8) == 0 {
			c.tx.Outputs[0].Script = wd.randScript()
		}
		c.tx.Extra = extra
		c.tx.References = []crypto.Hash{wd.sim.LastConsensusTx}
	case k < 21:
		c.kind = "special-input"
		in := wd.specialInput()
		c.tx.Inputs = append(c.tx.Inputs, in)
		c.ins = append(c.ins, nil)
		c.tx.Asset = wd.anyAsset()
		amt := big.NewInt(int64(1 + rng.Intn(1_0000_0000)))
		switch {
		case in.Deposit != nil:
			if rng.Intn(3) != 0 {
				in.Deposit.Amount = verifgen.Units(amt)
			} else {
				amt = verifgen.UnitsOf(in.Deposit.Amount)
			}
			for _, a := range verifAssets() {
				if a.chain == in.Deposit.Chain && a.key == in.Deposit.AssetKey && rng.Intn(4) != 0 {
					c.tx.Asset = a.id
				}
			}
			k := wd.sim.Net.Custodian.PrivateSpendKey
			c.raw = &k
		case in.Mint != nil:
			if rng.Intn(3) != 0 {
				in.Mint.Amount = verifgen.Units(amt)
			} else {
				amt = verifgen.UnitsOf(in.Mint.Amount)
			}
			c.tx.Asset = verifAssetXIN
			k := wd.sim.Net.Signers[0].PrivateSpendKey
			c.raw = &k
			c.tx.References = []crypto.Hash{wd.sim.LastConsensusTx}
		}
		if amt.BitLen() > 4000 {
			amt = big.NewInt(5)
		}
		wd.fillOutputs(c, amt, 1+rng.Intn(2))
		c.sign = "raw"
		if c.raw == nil || rng.Intn(6) == 0 {
			k := wd.addr().PrivateSpendKey
			c.raw = &k
		}
	default:
		c.kind = "random"
		c.tx.Asset = wd.anyAsset()
		for i := 0; i < rng.Intn(4); i++ {
			if rng.Intn(5) == 0 {
				c.tx.Inputs = append(c.tx.Inputs, wd.specialInput())
				c.ins = append(c.ins, nil)
			} else {
				wd.addIn(c, wd.anyRef())
			}
		}
		for i := 0; i < rng.Intn(4); i++ {
			c.tx.Outputs = append(c.tx.Outputs, wd.randOutput(len(c.tx.Outputs)))
		}
		c.tx.Extra = wd.randExtra()
		for i := 0; i < rng.Intn(3); i++ {
			c.tx.References = append(c.tx.References, wd.someHash())
		}
		c.sign = []string{"map", "agg", "none", "raw"}[rng.Intn(4)]
		if c.sign == "raw" {
			k := wd.addr().PrivateSpendKey
			c.raw = &k
		}
	}
	return c
}

// ---- body mutators ----

func (wd *vC05World) mutateBody(c *vC05Cand, tx *common.Transaction) string {
	rng := wd.rng
	pickOut := func() *common.Output {
		if len(tx.Outputs) == 0 {
			return nil
		}
		return tx.Outputs[rng.Intn(len(tx.Outputs))]
	}
	syncIns := func() bool { return c != nil && tx == c.tx }
	switch rng.Intn(16) {
	case 0:
		if o := pickOut(); o != nil {
			o.Amount = vC05Int(wd.extremeUnits())
		}
		return "amount"
	case 1:
		if o := pickOut(); o != nil {
			o.Type = vC05OutputTypes[rng.Intn(len(vC05OutputTypes))]
		}
		return "output-type"
	case 2:
		n := 1
		if rng.Intn(25) == 0 {
			n = 200 + rng.Intn(57) // up to the 256 limit
		}
		for i := 0; i < n && len(tx.Outputs) < 256; i++ {
			if n > 1 {
				tx.Outputs = append(tx.Outputs, &common.Output{Type: common.OutputTypeScript, Amount: vC05Int(big.NewInt(1)), Keys: []*crypto.Key{}, Script: common.NewThresholdScript(0)})
			} else {
				tx.Outputs = append(tx.Outputs, wd.randOutput(len(tx.Outputs)))
			}
		}
		return "add-output"
	case 3:
		if len(tx.Outputs) > 0 {
			i := rng.Intn(len(tx.Outputs))
			tx.Outputs = append(tx.Outputs[:i:i], tx.Outputs[i+1:]...)
		}
		return "drop-output"
	case 4:
		if len(tx.Inputs) > 0 {
			i := rng.Intn(len(tx.Inputs))
			r := wd.anyRef()
			tx.Inputs[i] = &common.Input{Hash: r.Hash, Index: r.Index}
			if syncIns() {
				c.ins[i] = r
			}
		}
		return "replace-input"
	case 5:
		r := wd.anyRef()
		in := &common.Input{Hash: r.Hash, Index: r.Index}
		switch rng.Intn(5) {
		case 0:
			in.Index = uint(rng.Intn(1025))
			r = nil
		case 1:
			rng.Read(in.Hash[:])
			r = nil
		}
		n := 1
		if rng.Intn(30) == 0 {
			n = 250
		}
		for i := 0; i < n && len(tx.Inputs) < 256; i++ {
			tx.Inputs = append(tx.Inputs, in)
			if syncIns() {
				c.ins = append(c.ins, r)
			}
		}
		return "add-input"
	case 6:
		if len(tx.Inputs) > 0 {
			i := rng.Intn(len(tx.Inputs))
			tx.Inputs = append(tx.Inputs, tx.Inputs[i])
			if syncIns() {
				c.ins = append(c.ins, c.ins[i])
			}
		}
		return "duplicate-input"
	case 7:
		sp := wd.specialInput()
		if len(tx.Inputs) > 0 && rng.Intn(2) == 0 {
			i := rng.Intn(len(tx.Inputs))
			tx.Inputs[i].Deposit, tx.Inputs[i].Mint, tx.Inputs[i].Genesis = sp.Deposit, sp.Mint, sp.Genesis
		} else {
			i := rng.Intn(len(tx.Inputs) + 1)
			tx.Inputs = append(tx.Inputs[:i:i], append([]*common.Input{sp}, tx.Inputs[i:]...)...)
			if syncIns() {
				c.ins = append(c.ins[:i:i], append([]*vC05Ref{nil}, c.ins[i:]...)...)
			}
		}
		return "special-input"
	case 8:
		tx.Asset = wd.anyAsset()
		return "asset"
	case 9:
		switch rng.Intn(5) {
		case 0:
			tx.Extra = wd.randExtra()
		case 1:
			tx.Extra = tx.Extra[:rng.Intn(len(tx.Extra)+1)]
		case 2:
			tx.Extra = append(tx.Extra, make([]byte, 1+rng.Intn(64))...)
		case 3:
			if len(tx.Extra) > 0 {
				tx.Extra = append([]byte{}, tx.Extra...)
				tx.Extra[rng.Intn(len(tx.Extra))] ^= byte(1 + rng.Intn(255))
			}
		case 4:
			if len(tx.Extra) >= 32 {
				tx.Extra = append([]byte{}, tx.Extra...)
				copy(tx.Extra[rng.Intn(len(tx.Extra)/32)*32:], wd.badKey()[:])
			}
		}
		return "extra"
	case 10:
		switch rng.Intn(5) {
		case 0:
			tx.References = nil
		case 1:
			n := 1 + rng.Intn(3)
			if rng.Intn(10) == 0 {
				n = []int{16, 17, 256}[rng.Intn(3)]
			}
			for i := 0; i < n && len(tx.References) < 256; i++ {
				tx.References = append(tx.References, wd.someHash())
			}
		default:
			if len(tx.References) > 0 {
				tx.References = append([]crypto.Hash{}, tx.References...)
				tx.References[rng.Intn(len(tx.References))] = wd.someHash()
			} else {
				tx.References = []crypto.Hash{wd.someHash()}
			}
		}
		return "references"
	case 11:
		if o := pickOut(); o != nil {
			switch rng.Intn(6) {
			case 0:
				o.Keys = append(o.Keys, wd.badKey())
			case 1:
				if len(o.Keys) > 0 {
					o.Keys = append(o.Keys, o.Keys[0])
				}
			case 2:
				o.Keys = nil
			case 3:
				o.Mask = *wd.badKey()
			case 4: // key already bound to a finalized output
				if r := wd.pickRef(func(r *vC05Ref) bool { return r.Out != nil }); r != nil {
					o.Keys = append(append([]*crypto.Key{}, o.Keys...), r.Out.Keys[0])
				}
			case 5:
				o.Mask = crypto.Key{}
			}
		}
		return "keys"
	case 12:
		if o := pickOut(); o != nil {
			o.Script = wd.randScript()
		}
		return "script"
	case 13:
		if o := pickOut(); o != nil {
			if o.Withdrawal == nil {
				o.Withdrawal = &common.WithdrawalData{Address: vC05Str(rng, 40), Tag: vC05Str(rng, 10)}
			} else {
				o.Withdrawal = nil
			}
		}
		return "withdrawal"
	case 14:
		if len(tx.Outputs) > 1 {
			i, j := rng.Intn(len(tx.Outputs)), rng.Intn(len(tx.Outputs))
			tx.Outputs[i], tx.Outputs[j] = tx.Outputs[j], tx.Outputs[i]
		}
		return "swap-outputs"
	default:
		if len(tx.Inputs) > 0 {
			i := rng.Intn(len(tx.Inputs))
			tx.Inputs = append(tx.Inputs[:i:i], tx.Inputs[i+1:]...)
			if syncIns() {
				c.ins = append(c.ins[:i:i], c.ins[i+1:]...)
			}
		}
		return "drop-input"
	}
}

// ---- signing and signature mutators ----

func (wd *vC05World) signCand(c *vC05Cand) *common.VersionedTransaction {
	ver := c.tx.AsVersioned()
	msg := ver.PayloadHash()
	switch c.sign {
	case "none":
		return ver
	case "raw":
		sig := c.raw.Sign(msg)
		ver.SignaturesMap = []map[uint16]*crypto.Signature{{0: &sig}}
		return ver
	case "agg":
		var pubs, privs []*crypto.Key
		var idx []int
		for _, r := range c.ins {
			if r == nil || r.Out == nil {
				continue
			}
			n := r.Out.Threshold()
			if n == 0 {
				n = 1
			}
			for k := 0; k < n && k < len(r.Out.Keys) && k < len(r.Out.Owners); k++ {
				idx = append(idx, len(pubs)+k)
				privs = append(privs, r.Out.PrivKey(k))
			}
			pubs = append(pubs, r.Out.Keys...)
		}
		if len(idx) > 0 {
			if sig, err := crypto.AggregateSign(privs, pubs, idx, wd.seed(), msg); err == nil {
				as := &common.AggregatedSignature{Signers: idx}
				copy(as.Signature[:], sig[:])
				ver.AggregatedSignature = as
				return ver
			}
		}
		fallthrough
	default:
		for _, r := range c.ins {
			m := make(map[uint16]*crypto.Signature)
			if r == nil && c.sign == "map+raw" && c.raw != nil {
				sig := c.raw.Sign(msg)
				m[0] = &sig
			}
			if r != nil && r.Out != nil {
				n := r.Out.Threshold()
				if n == 0 {
					n = 1
				}
				for k := 0; k < n && k < len(r.Out.Keys) && k < len(r.Out.Owners); k++ {
					sig := r.Out.PrivKey(k).Sign(msg)
					m[uint16(k)] = &sig
				}
			}
			ver.SignaturesMap = append(ver.SignaturesMap, m)
		}
		return ver
	}
}

func (wd *vC05World) mutateSigs(ver *common.VersionedTransaction) string {
	rng := wd.rng
	randSig := func() *crypto.Signature {
		var s crypto.Signature
		switch rng.Intn(4) {
		case 0:
		case 1:
			for i := range s {
				s[i] = 0xff
			}
		case 2:
			copy(s[:32], wd.badKey()[:])
			rng.Read(s[32:])
		default:
			rng.Read(s[:])
		}
		return &s
	}
	switch rng.Intn(12) {
	case 0:
		ver.SignaturesMap, ver.AggregatedSignature = nil, nil
		return "sig-drop-all"
	case 1:
		if n := len(ver.SignaturesMap); n > 0 {
			i := rng.Intn(n)
			ver.SignaturesMap = append(ver.SignaturesMap[:i:i], ver.SignaturesMap[i+1:]...)
		}
		return "sig-drop-map"
	case 2:
		n := 1
		if rng.Intn(10) == 0 {
			n = 255
		}
		for i := 0; i < n && len(ver.SignaturesMap) < 256; i++ {
			ver.SignaturesMap = append(ver.SignaturesMap, map[uint16]*crypto.Signature{uint16(rng.Intn(3)): randSig()})
		}
		ver.AggregatedSignature = nil
		return "sig-surplus-map"
	case 3:
		if n := len(ver.SignaturesMap); n > 0 {
			ver.SignaturesMap[rng.Intn(n)] = map[uint16]*crypto.Signature{}
		}
		return "sig-empty-map"
	case 4:
		if n := len(ver.SignaturesMap); n > 0 {
			m := ver.SignaturesMap[rng.Intn(n)]
			idx := []uint16{1, 2, 63, 64, 255, 256, 65535}[rng.Intn(7)]
			m[idx] = randSig()
		}
		return "sig-index"
	case 5:
		if n := len(ver.SignaturesMap); n > 0 {
			m := ver.SignaturesMap[rng.Intn(n)]
			if ks := vC05SortedKeys(m); len(ks) > 0 {
				m[ks[rng.Intn(len(ks))]] = randSig()
			}
		}
		return "sig-garbage"
	case 6:
		if n := len(ver.SignaturesMap); n > 1 {
			i, j := rng.Intn(n), rng.Intn(n)
			ver.SignaturesMap[i], ver.SignaturesMap[j] = ver.SignaturesMap[j], ver.SignaturesMap[i]
		}
		return "sig-swap-maps"
	case 7, 8:
		as := &common.AggregatedSignature{Signature: *randSig()}
		if ver.AggregatedSignature != nil {
			as.Signature = ver.AggregatedSignature.Signature
			as.Signers = append([]int{}, ver.AggregatedSignature.Signers...)
		}
		switch rng.Intn(7) {
		case 0:
			as.Signers = nil
		case 1:
			for i := range as.Signers {
				as.Signers[i]++
			}
		case 2:
			as.Signers = append(as.Signers, 65535)
		case 3:
			as.Signers = []int{0}
		case 4:
			as.Signers = nil
			for i := 0; i < 1+rng.Intn(40); i++ {
				as.Signers = append(as.Signers, i*(1+rng.Intn(3)))
			}
		case 5:
			as.Signers = []int{rng.Intn(70000)}
		case 6:
			as.Signers = nil
			for i := 0; i < 2000; i++ {
				as.Signers = append(as.Signers, i*2)
			}
		}
		ver.AggregatedSignature, ver.SignaturesMap = as, nil
		return "sig-aggregate"
	case 9:
		if n := len(ver.SignaturesMap); n > 0 {
			m := ver.SignaturesMap[rng.Intn(n)]
			for i := 0; i < 70; i++ {
				m[uint16(i)] = randSig()
			}
		}
		return "sig-many-entries"
	case 10:
		if n := len(ver.SignaturesMap); n > 0 {
			ver.SignaturesMap = append(ver.SignaturesMap, ver.SignaturesMap[rng.Intn(n)])
		}
		return "sig-duplicate-map"
	default: // a genuine signature over this payload by a key that does not own the input
		if n := len(ver.SignaturesMap); n > 0 {
			m := ver.SignaturesMap[rng.Intn(n)]
			k := wd.addr().PrivateSpendKey
			sig := k.Sign(ver.PayloadHash())
			m[uint16(rng.Intn(2))] = &sig
		}
		return "sig-foreign-key"
	}
}

// candidate produces the bytes of one hostile transaction (nil when the object
// cannot be encoded at all).
func (wd *vC05World) candidate() (c *vC05Cand, enc []byte) {
	rng := wd.rng
	c = wd.template()
	nm := []int{0, 0, 1, 1, 1, 2, 2, 3}[rng.Intn(8)]
	if c.kind == "random" {
		nm = rng.Intn(2)
	}
	var pre, post, sig int
	for i := 0; i < nm; i++ {
		switch rng.Intn(5) {
		case 0, 1:
			pre++
		case 2:
			post++
		default:
			sig++
		}
	}
	for i := 0; i < pre; i++ {
		c.muts = append(c.muts, wd.mutateBody(c, c.tx))
	}
	ver := wd.signCand(c)
	for i := 0; i < sig; i++ {
		c.muts = append(c.muts, wd.mutateSigs(ver))
	}
	for i := 0; i < post; i++ {
		c.muts = append(c.muts, "signed-then-"+wd.mutateBody(nil, &ver.Transaction))
	}
	fresh := &common.VersionedTransaction{SignedTransaction: ver.SignedTransaction}
	panicked, _, _ := verifkit.Guard(func() { enc = fresh.Marshal() })
	if panicked {
		return c, nil
	}
	if rng.Intn(8) == 0 && len(enc) > 8 {
		c.muts = append(c.muts, "bytes")
		enc = append([]byte{}, enc...)
		switch rng.Intn(4) {
		case 0:
			enc = enc[:len(enc)-1-rng.Intn(4)]
		case 1:
			enc = append(enc, byte(rng.Intn(256)))
		default:
			for i := 0; i <= rng.Intn(2); i++ {
				enc[4+rng.Intn(len(enc)-4)] ^= byte(1 + rng.Intn(255))
			}
		}
	}
	return c, enc
}

// outcomes decided before Validate looks at the ledger: such cases are executed
// and counted as evaluations but are not "non-trivial"
var vC05Stateless = map[string]bool{
	"invalid tx version":           true,
	"invalid tx type":              true,
	"invalid tx inputs or outputs": true,
	"invalid input index":          true,
	"invalid extra size":           true,
	"invalid transaction size":     true,
	"invalid signatures map":       true,
	"invalid tx signature number":  true,
	"too many references":          true,
}

func vC05ErrClass(err error) string {
	if err == nil {
		return "accepted"
	}
	s := err.Error()
	var b strings.Builder
	words := 0
	for _, w := range strings.Fields(s) {
		digit := false
		for _, ch := range w {
			if ch >= '0' && ch <= '9' {
				digit = true
				break
			}
		}
		if digit || len(w) > 24 {
			continue
		}
		if words > 0 {
			b.WriteByte(' ')
		}
		b.WriteString(w)
		words++
		if words == 5 {
			break
		}
	}
	return b.String()
}

func (wd *vC05World) timestamp() uint64 {
	min := wd.sim.Net.Epoch + 1
	switch wd.rng.Intn(8) {
	case 0:
		return min
	case 1:
		return min + uint64(wd.rng.Int63n(int64(wd.sim.Clock-min)+1))
	case 2:
		return wd.sim.Clock
	case 3:
		return wd.sim.Clock + uint64(wd.rng.Int63n(14*24*3600*1e9))
	}
	return wd.sim.Clock + uint64(1+wd.rng.Intn(3e9))
}

func TestVerif_C05(t *testing.T) {
	r := verifkit.Start(t, "C05", "exploration")
	r.SetRule("ledger simulator (real BadgerStore, own 9-node genesis) evolved only by transactions that passed Validate until it holds unspent outputs of every output type " +
		"a validated transaction can produce (script incl. threshold 0 / keyless / storage fffe40, node pledge, accept, remove, withdrawal claim, custodian update; a node-cancel transaction is " +
		"offered too); candidates = typed near-valid templates (transfer, storage, withdrawal submit/claim, pledge/accept/cancel/remove, custodian update, deposit/mint/genesis inputs, random) " +
		"with 0..3 struct mutations before/after signing, signature-shape mutations and byte mutations; only byte strings that decode are validated, each under fork=false and fork=true, " +
		"with recover(); evaluations = Validate calls; non-trivial = distinct decodable transactions (by hash of the full encoding) whose validation went past the stateless pre-checks, i.e. was judged against the ledger")
	r.Assume("snapshot timestamps are later than the genesis custodian record (epoch+1ns); earlier timestamps cannot carry a certificate")
	r.Assume("panics of the encoder on harness-built objects that never decode are not inputs of the property and are only counted")
	r.Assume("ledger states are storage-level (Validate + lock + WriteTransaction + WriteSnapshot); kernel-level snapshot rules (pledge amount, periods) are not applied, so the states are a superset of what consensus admits")
	wd := vC05NewWorld(t, r)
	defer wd.sim.Close()
	wd.build()

	present := map[string]int{}
	for _, ref := range wd.refs {
		if !ref.Spent {
			present[fmt.Sprintf("0x%02x", ref.Type)]++
		}
	}
	r.Note("unspent_outputs_by_type_phase1", present)
	for _, typ := range []uint8{common.OutputTypeScript, common.OutputTypeNodePledge, common.OutputTypeNodeAccept, common.OutputTypeNodeRemove,
		common.OutputTypeWithdrawalClaim, common.OutputTypeCustodianUpdateNodes} {
		if present[fmt.Sprintf("0x%02x", typ)] == 0 {
			r.Inconclusive(fmt.Sprintf("ledger holds no unspent output of type 0x%02x", typ))
		}
	}
	if wd.cancelErr != "" {
		r.Note("node_cancel_unreachable", "every node-cancel transaction is rejected by Validate on this tree ("+wd.cancelErr+"), so no cancel-typed output can exist in a reachable ledger")
	}

	n := r.N(20000, 300000)
	// a sample of the decodable candidates is validated again at the end from 16 goroutines at once (the node
	// validates in several background loops and RPC handlers concurrently)
	concMax := r.N(3000, 30000)
	var concEnc [][]byte
	var concTs []uint64
	wd.running = true
	classes := map[string]int{}
	accepted := 0
	deep := 0
	validations := 0
	cases := 0
	phase2 := false
	for validations < n {
		cases++
		if !phase2 && validations >= n*6/10 {
			// second phase: the pending pledge is accepted, so no node is pledging and
			// new pledges can pass their node-state checks
			wd.acceptPending()
			phase2 = true
		}
		if phase2 && cases%4000 == 0 && wd.pledgeTx == nil && validations < n*8/10 && wd.nodeSeq < 8 {
			wd.pledgeNext() // a later stretch with a pending pledge again
		} else if phase2 && cases%4000 == 2000 && wd.pledgeTx != nil {
			wd.acceptPending()
		}
		var c *vC05Cand
		var enc []byte
		if gp, _, _ := verifkit.Guard(func() { c, enc = wd.candidate() }); gp || c == nil {
			// the builders and the encoder refuse some harness-made objects by panicking
			r.Count("unencodable_objects", 1)
			continue
		}
		r.Count("template_"+c.kind, 1)
		if enc == nil {
			r.Count("unencodable_objects", 1)
			continue
		}
		var first *common.VersionedTransaction
		dp, _, dstack := verifkit.Guard(func() { first, _ = common.UnmarshalVersionedTransaction(enc) })
		if dp {
			r.Count("decoder_panics_(not_C05)", 1)
			r.Note("decoder_panic_site", verifkit.PanicSite(dstack))
			continue
		}
		if first == nil {
			r.Count("not_decodable", 1)
			continue
		}
		ts := wd.timestamp()
		class := "type-" + vC05TypeName(first.TransactionType())
		r.Count("decoded_"+class, 1)
		if len(concEnc) < concMax && cases%3 == 0 {
			concEnc = append(concEnc, enc)
			concTs = append(concTs, ts)
		}
		for _, m := range c.muts {
			r.Count("mutation_"+m, 1)
		}
		if wd.inflight != "" { // attributable even if the process dies: the input is on disk before the call
			hdr := fmt.Sprintf("C05 in-flight input: seed=%d snapshot_time=%d (fork=false then fork=true); raw transaction bytes follow\n", r.Seed, ts)
			_ = os.WriteFile(wd.inflight, append([]byte(hdr), enc...), 0o644)
		}
		for _, fork := range []bool{false, true} {
			parsed := first
			if fork {
				parsed, _ = common.UnmarshalVersionedTransaction(enc)
			}
			var verr error
			panicked, pv, stack := verifkit.Guard(func() { verr = parsed.Validate(wd.sim.Store, ts, fork) })
			r.Eval()
			validations++
			if panicked {
				site := verifkit.PanicSite(stack)
				hexTx := fmt.Sprintf("%x", enc)
				if len(hexTx) > 20000 {
					hexTx = hexTx[:20000] + "...(truncated)"
				}
				r.Violation("C05|"+site+"|via-"+vC05Stage(stack),
					fmt.Sprintf("Validate panicked in %s on a decodable %s transaction (template %s, mutations %v): %v", site, class, c.kind, c.muts, vC05Short(pv)),
					map[string]any{"tx": hexTx, "tx_bytes": len(enc), "snapshot_time": ts, "fork": fork, "template": c.kind, "mutations": c.muts,
						"panic": vC05Short(pv), "stack": vC05Trim(stack)})
				continue
			}
			cl := vC05ErrClass(verr)
			classes[cl]++
			if verr == nil {
				accepted++
				r.Count("accepted_"+class, 1)
			}
			if !fork {
				if !vC05Stateless[cl] {
					deep++
					r.Nontrivial(crypto.Blake3Hash(enc).String())
				} else {
					r.Count("decided_by_stateless_prechecks", 1)
				}
				if r.SampleCount() < 6 && !vC05Stateless[cl] && (cases%997 == 1 || verr == nil && cases%211 == 0) {
					hexTx := fmt.Sprintf("%x", enc)
					if len(hexTx) > 600 {
						hexTx = hexTx[:600] + "..."
					}
					r.Sample(map[string]any{"template": c.kind, "mutations": c.muts, "type": class, "bytes": len(enc), "snapshot_time": ts, "result": cl, "tx": hexTx})
				}
			}
		}
	}
	if wd.inflight != "" {
		_ = os.WriteFile(wd.inflight, []byte(fmt.Sprintf("C05 concurrent phase: seed=%d, %d decodable candidates of the sequential phase validated again from 16 goroutines\n", r.Seed, len(concEnc))), 0o644)
	}
	// plus transactions nobody has validated yet, whose output keys and masks are new to the process (fresh seeds):
	// mints and deposits built now and validated only concurrently
	freshN := r.N(1500, 20000)
	for i := 0; i < freshN; i++ {
		var tx *common.VersionedTransaction
		if p, _, _ := verifkit.Guard(func() {
			if i%2 == 0 {
				tx, _ = wd.mintTx(uint64(900000+i), big.NewInt(int64(1+wd.rng.Intn(1e9))))
			} else {
				a := verifAssets()[1+wd.rng.Intn(3)]
				tx, _ = wd.w.deposit(a, big.NewInt(int64(1+wd.rng.Intn(1e8))))
			}
		}); p || tx == nil {
			continue
		}
		concEnc = append(concEnc, tx.Marshal())
		concTs = append(concTs, wd.timestamp())
	}
	r.Count("fresh_transactions_for_the_concurrent_phase", freshN)
	{
		type cpanic struct {
			idx   int
			fork  bool
			val   any
			stack string
		}
		workers := 16
		found := make([][]cpanic, workers)
		var wg sync.WaitGroup
		for g := 0; g < workers; g++ {
			wg.Add(1)
			go func(g int) {
				defer wg.Done()
				for i := g; i < len(concEnc); i += workers {
					for _, fork := range []bool{false, true} {
						parsed, err := common.UnmarshalVersionedTransaction(concEnc[i])
						if err != nil || parsed == nil {
							continue
						}
						if p, pv, st := verifkit.Guard(func() { _ = parsed.Validate(wd.sim.Store, concTs[i], fork) }); p {
							found[g] = append(found[g], cpanic{i, fork, pv, st})
						}
					}
				}
			}(g)
		}
		wg.Wait()
		r.Evals(2 * len(concEnc))
		r.Count("concurrent_validations", 2*len(concEnc))
		for _, list := range found {
			for _, cp := range list {
				site := verifkit.PanicSite(cp.stack)
				hexTx := fmt.Sprintf("%x", concEnc[cp.idx])
				if len(hexTx) > 20000 {
					hexTx = hexTx[:20000] + "...(truncated)"
				}
				r.Violation("C05|"+site+"|concurrent|via-"+vC05Stage(cp.stack),
					fmt.Sprintf("Validate panicked in %s on a decodable transaction while 16 goroutines were validating: %v", site, vC05Short(cp.val)),
					map[string]any{"tx": hexTx, "snapshot_time": concTs[cp.idx], "fork": cp.fork, "panic": vC05Short(cp.val), "stack": vC05Trim(cp.stack)})
			}
		}
	}
	if wd.inflight != "" {
		_ = os.Remove(wd.inflight)
	}
	r.Note("validate_outcome_classes", classes)
	r.Note("distinct_outcome_classes", len(classes))
	r.Note("accepted_validations", accepted)
	r.Note("transactions_judged_against_the_ledger", deep)
	r.Note("ledger_outputs_known", len(wd.refs))
	if deep < n/8 {
		r.Inconclusive(fmt.Sprintf("only %d transactions were judged against the ledger", deep))
	}
	if accepted < 50 {
		r.Inconclusive(fmt.Sprintf("only %d accepting validations: the generator does not reach the deep paths", accepted))
	}
	if len(classes) < 40 {
		r.Inconclusive(fmt.Sprintf("only %d distinct Validate outcomes", len(classes)))
	}
	r.Finish()
}

// vC05Stage names the validation stage the panic happened in: the function
// called directly by Validate on the panicking stack. Together with the panic
// site it identifies the defect independently of the generator path and of the
// transaction type (the type is only part of the signature when the stage is
// the type-specific validator itself).
func vC05Stage(stack string) string {
	var fns []string
	for _, l := range strings.Split(stack, "\n") {
		if l == "" || strings.HasPrefix(l, "\t") || strings.HasPrefix(l, "goroutine ") {
			continue
		}
		fns = append(fns, l)
	}
	for i, f := range fns {
		if strings.Contains(f, "common.(*VersionedTransaction).Validate(") {
			if i == 0 || !strings.Contains(fns[i-1], "MixinNetwork/mixin/") {
				return "Validate"
			}
			c := fns[i-1]
			if j := strings.LastIndex(c, "("); j > 0 {
				c = c[:j]
			}
			if j := strings.LastIndex(c, "."); j >= 0 {
				c = c[j+1:]
			}
			return c
		}
	}
	return "unknown"
}

func vC05SortedKeys(m map[uint16]*crypto.Signature) []uint16 {
	ks := make([]uint16, 0, len(m))
	for k := range m {
		ks = append(ks, k)
	}
	sort.Slice(ks, func(i, j int) bool { return ks[i] < ks[j] })
	return ks
}

func vC05Short(v any) string {
	s := fmt.Sprint(v)
	if len(s) > 200 {
		s = s[:200] + "..."
	}
	return s
}

func vC05Trim(stack string) string {
	lines := strings.Split(stack, "\n")
	if len(lines) > 40 {
		lines = lines[:40]
	}
	return strings.Join(lines, "\n")
}
