package p2p

// C08 — Peer message parsing is total and faithful.
//
// Monitor for parseNetworkMessage and every build*Message function:
//   (T) totality: any byte string either fails or yields a message, no panic;
//   (F) faithfulness: parse(build(x)) has the type and the field values of x;
//   (P) every point field of an accepted message (pre-commitments, commitment,
//       challenge) is a valid curve point according to an independent reference
//       (filippo.io/edwards25519: canonical, on curve, prime order, not identity).

import (
	"bytes"
	"crypto/sha256"
	"encoding/binary"
	"encoding/hex"
	"fmt"
	"math/rand"
	"sort"
	"strings"
	"testing"

	"filippo.io/edwards25519"
	"github.com/MixinNetwork/mixin/common"
	"github.com/MixinNetwork/mixin/crypto"
	"github.com/MixinNetwork/mixin/verifkit"
)

// ---------------------------------------------------------------- fake handle

// vC08Handle implements the two SyncHandle methods the builders call and
// records what was signed, so the oracle knows the exact signed bytes and the
// signature the node produced.
type vC08Handle struct {
	SyncHandle
	key      crypto.Key
	graph    []*SyncPoint
	lastData []byte
	lastSig  crypto.Signature
	calls    int
}

func (h *vC08Handle) SignData(data []byte) crypto.Signature {
	h.lastData = append([]byte(nil), data...)
	h.lastSig = h.key.Sign(crypto.Blake3Hash(data))
	h.calls++
	return h.lastSig
}

func (h *vC08Handle) BuildGraph() []*SyncPoint { return h.graph }

// ---------------------------------------------------------------- point reference

type vC08Points struct {
	lm1     *edwards25519.Scalar // l-1
	cache   map[[32]byte]string
	torsion [][32]byte            // the 7 non-identity small order points
	invalid map[string][][32]byte // class -> encodings
}

const (
	vC08ClassOffCurve     = "off-curve"
	vC08ClassNonCanonical = "non-canonical"
	vC08ClassIdentity     = "identity"
	vC08ClassSmallOrder   = "small-order"
	vC08ClassMixedOrder   = "mixed-order"
)

var vC08Classes = []string{vC08ClassOffCurve, vC08ClassNonCanonical, vC08ClassIdentity, vC08ClassSmallOrder, vC08ClassMixedOrder}

func vC08NewPoints() *vC08Points {
	// l - 1, little endian; l = 2^252 + 27742317777372353535851937790883648493
	lm1, err := hex.DecodeString("ecd3f55c1a631258d69cf7a2def9de1400000000000000000000000000000010")
	if err != nil {
		panic(err)
	}
	s, err := edwards25519.NewScalar().SetCanonicalBytes(lm1)
	if err != nil {
		panic(err)
	}
	return &vC08Points{lm1: s, cache: map[[32]byte]string{}, invalid: map[string][][32]byte{}}
}

// timesL computes [l]P as [l-1]P + P.
func (p *vC08Points) timesL(pt *edwards25519.Point) *edwards25519.Point {
	q := new(edwards25519.Point).ScalarMult(p.lm1, pt)
	return q.Add(q, pt)
}

// class returns "" for a valid point (canonical encoding of a point of prime
// order l, not the identity), else the reason it is invalid.
func (p *vC08Points) class(b [32]byte) string {
	if c, ok := p.cache[b]; ok {
		return c
	}
	c := p.classify(b)
	if len(p.cache) < 400000 {
		p.cache[b] = c
	}
	return c
}

func (p *vC08Points) classify(b [32]byte) string {
	pt, err := new(edwards25519.Point).SetBytes(b[:])
	if err != nil {
		return vC08ClassOffCurve
	}
	if !bytes.Equal(pt.Bytes(), b[:]) {
		return vC08ClassNonCanonical
	}
	id := edwards25519.NewIdentityPoint()
	if pt.Equal(id) == 1 {
		return vC08ClassIdentity
	}
	if new(edwards25519.Point).MultByCofactor(pt).Equal(id) == 1 {
		return vC08ClassSmallOrder
	}
	if p.timesL(pt).Equal(id) != 1 {
		return vC08ClassMixedOrder
	}
	return ""
}

func vC08Rand32(rng *rand.Rand) (b [32]byte) {
	rng.Read(b[:])
	return
}

func vC08RandHash(rng *rand.Rand) (h crypto.Hash) {
	rng.Read(h[:])
	return
}

func vC08RandPriv(rng *rand.Rand) crypto.Key {
	seed := make([]byte, 64)
	rng.Read(seed)
	return crypto.NewKeyFromSeed(seed)
}

func vC08ValidPoint(rng *rand.Rand) crypto.Key {
	return vC08RandPriv(rng).Public()
}

// prepare builds the pools of invalid encodings, each classified by the reference.
func (p *vC08Points) prepare(rng *rand.Rand) {
	add := func(b [32]byte) {
		c := p.class(b)
		if c == "" {
			return
		}
		for _, e := range p.invalid[c] {
			if e == b {
				return
			}
		}
		if len(p.invalid[c]) < 64 {
			p.invalid[c] = append(p.invalid[c], b)
		}
	}
	// identity
	var id [32]byte
	id[0] = 1
	add(id)
	// torsion points: [l]Q for random curve points Q
	seen := map[[32]byte]bool{}
	for i := 0; i < 4000 && len(p.torsion) < 7; i++ {
		b := vC08Rand32(rng)
		q, err := new(edwards25519.Point).SetBytes(b[:])
		if err != nil {
			continue
		}
		t := p.timesL(q)
		var tb [32]byte
		copy(tb[:], t.Bytes())
		if tb == id || seen[tb] {
			continue
		}
		seen[tb] = true
		p.torsion = append(p.torsion, tb)
		add(tb)
	}
	// non canonical: y + p for small y, and x = 0 with the sign bit set
	pBytes, _ := hex.DecodeString("edffffffffffffffffffffffffffffffffffffffffffffffffffffffffffff7f")
	for y := 0; y < 19; y++ {
		for sign := 0; sign < 2; sign++ {
			var b [32]byte
			copy(b[:], pBytes)
			b[0] += byte(y) // 0xed + 18 = 0xff: no carry
			b[31] |= byte(sign << 7)
			add(b)
		}
	}
	neg1, _ := hex.DecodeString("ecffffffffffffffffffffffffffffffffffffffffffffffffffffffffffff7f")
	for _, src := range [][]byte{id[:], neg1} {
		var b [32]byte
		copy(b[:], src)
		b[31] |= 0x80
		add(b)
	}
	// off curve and mixed order
	for i := 0; i < 4000 && (len(p.invalid[vC08ClassOffCurve]) < 48 || len(p.invalid[vC08ClassMixedOrder]) < 48); i++ {
		add(vC08Rand32(rng))
		if len(p.torsion) > 0 {
			v := vC08ValidPoint(rng)
			vp, err := new(edwards25519.Point).SetBytes(v[:])
			if err != nil {
				continue
			}
			tp, _ := new(edwards25519.Point).SetBytes(p.torsion[rng.Intn(len(p.torsion))][:])
			var mb [32]byte
			copy(mb[:], new(edwards25519.Point).Add(vp, tp).Bytes())
			add(mb)
		}
	}
}

// ---------------------------------------------------------------- generators

func vC08RandAmount(rng *rand.Rand) common.Integer {
	switch rng.Intn(6) {
	case 0:
		return common.NewIntegerFromString("0")
	case 1:
		return common.NewIntegerFromString("0.00000001")
	case 2:
		return common.NewIntegerFromString(fmt.Sprintf("%d.%08d", rng.Int63(), rng.Intn(100000000)))
	case 3:
		return common.NewIntegerFromString(fmt.Sprintf("%d%d%d", rng.Int63(), rng.Int63(), rng.Int63()))
	default:
		return common.NewIntegerFromString(fmt.Sprintf("%d.%d", rng.Intn(1000000), rng.Intn(1000)))
	}
}

func vC08RandText(rng *rand.Rand, max int) string {
	n := rng.Intn(max + 1)
	b := make([]byte, n)
	for i := range b {
		if rng.Intn(8) == 0 {
			b[i] = byte(rng.Intn(256))
		} else {
			b[i] = "0123456789abcdefXYZ-_:"[rng.Intn(22)]
		}
	}
	return string(b)
}

func vC08Small(rng *rand.Rand, usual, rare int) int {
	if rng.Intn(40) == 0 {
		return rng.Intn(rare + 1)
	}
	return rng.Intn(usual + 1)
}

// vC08RandTx makes a structurally random version 5 transaction. maxExtra bounds
// the extra size of the rare large case.
func vC08RandTx(rng *rand.Rand, maxExtra int) *common.VersionedTransaction {
	tx := &common.SignedTransaction{}
	tx.Version = common.TxVersionHashSignature
	tx.Asset = vC08RandHash(rng)
	for i, n := 0, vC08Small(rng, 3, 40); i < n; i++ {
		in := &common.Input{Hash: vC08RandHash(rng), Index: uint(rng.Intn(common.InputIndexLimit + 1))}
		switch rng.Intn(10) {
		case 0:
			in.Genesis = make([]byte, rng.Intn(40))
			rng.Read(in.Genesis)
		case 1:
			in.Deposit = &common.DepositData{Chain: vC08RandHash(rng), AssetKey: vC08RandText(rng, 44),
				Transaction: vC08RandText(rng, 70), Index: rng.Uint64(), Amount: vC08RandAmount(rng)}
		case 2:
			in.Mint = &common.MintData{Group: vC08RandText(rng, 12), Batch: rng.Uint64(), Amount: vC08RandAmount(rng)}
		case 3:
			in.Deposit = &common.DepositData{Chain: vC08RandHash(rng), Amount: vC08RandAmount(rng)}
			in.Mint = &common.MintData{Group: "KERNELNODE", Batch: uint64(rng.Intn(5000)), Amount: vC08RandAmount(rng)}
		}
		tx.Inputs = append(tx.Inputs, in)
	}
	types := []uint8{common.OutputTypeScript, common.OutputTypeWithdrawalSubmit, common.OutputTypeNodePledge, common.OutputTypeNodeAccept,
		common.OutputTypeNodeRemove, common.OutputTypeWithdrawalClaim, common.OutputTypeNodeCancel, common.OutputTypeCustodianUpdateNodes}
	for i, n := 0, vC08Small(rng, 4, 40); i < n; i++ {
		o := &common.Output{Type: types[rng.Intn(len(types))], Amount: vC08RandAmount(rng)}
		if rng.Intn(12) == 0 {
			o.Type = uint8(rng.Intn(256))
		}
		for k, kn := 0, vC08Small(rng, 3, 64); k < kn; k++ {
			key := crypto.Key(vC08Rand32(rng))
			o.Keys = append(o.Keys, &key)
		}
		o.Mask = crypto.Key(vC08Rand32(rng))
		switch rng.Intn(4) {
		case 0:
			o.Script = common.NewThresholdScript(uint8(rng.Intn(64)))
		case 1:
			o.Script = make([]byte, rng.Intn(9))
			rng.Read(o.Script)
		case 2:
			o.Script = common.Script{common.OperatorCmp, common.OperatorSum, uint8(rng.Intn(256))}
		}
		if rng.Intn(8) == 0 {
			o.Withdrawal = &common.WithdrawalData{Address: vC08RandText(rng, 50), Tag: vC08RandText(rng, 20)}
		}
		tx.Outputs = append(tx.Outputs, o)
	}
	for i, n := 0, vC08Small(rng, 2, 8); i < n; i++ {
		tx.References = append(tx.References, vC08RandHash(rng))
	}
	switch rng.Intn(30) {
	case 0:
		tx.Extra = make([]byte, rng.Intn(maxExtra+1))
	case 1, 2, 3:
		tx.Extra = nil
	default:
		tx.Extra = make([]byte, rng.Intn(300))
	}
	rng.Read(tx.Extra)
	switch rng.Intn(4) {
	case 0: // unsigned
	case 1:
		as := &common.AggregatedSignature{Signature: crypto.Signature(vC08Rand64(rng))}
		prev := -1
		for i, n := 0, rng.Intn(6); i < n; i++ {
			step := 1 + rng.Intn(4)
			if rng.Intn(5) == 0 {
				step = 1 + rng.Intn(3000)
			}
			prev += step
			as.Signers = append(as.Signers, prev)
		}
		tx.AggregatedSignature = as
	default:
		for i, n := 0, 1+rng.Intn(3); i < n; i++ {
			m := map[uint16]*crypto.Signature{}
			for k, kn := 0, rng.Intn(4); k < kn; k++ {
				sig := crypto.Signature(vC08Rand64(rng))
				m[uint16(rng.Intn(1<<uint(1+rng.Intn(16))))] = &sig
			}
			tx.SignaturesMap = append(tx.SignaturesMap, m)
		}
	}
	return tx.AsVersioned()
}

func vC08Rand64(rng *rand.Rand) (b [64]byte) {
	rng.Read(b[:])
	return
}

// vC08TxDump prints every field of a transaction in a normal form that does
// not depend on the repository codec (nil and empty are the same).
func vC08TxDump(v *common.VersionedTransaction) string {
	if v == nil {
		return "<nil>"
	}
	var sb strings.Builder
	fmt.Fprintf(&sb, "v=%d asset=%x", v.Version, v.Asset[:])
	for _, in := range v.Inputs {
		if in == nil {
			sb.WriteString(" in{nil}")
			continue
		}
		fmt.Fprintf(&sb, " in{%x:%d g=%x", in.Hash[:], in.Index, in.Genesis)
		if d := in.Deposit; d != nil {
			fmt.Fprintf(&sb, " dep{%x %q %q %d %s}", d.Chain[:], d.AssetKey, d.Transaction, d.Index, d.Amount.String())
		}
		if m := in.Mint; m != nil {
			fmt.Fprintf(&sb, " mint{%q %d %s}", m.Group, m.Batch, m.Amount.String())
		}
		sb.WriteString("}")
	}
	for _, o := range v.Outputs {
		if o == nil {
			sb.WriteString(" out{nil}")
			continue
		}
		fmt.Fprintf(&sb, " out{t=%d a=%s keys=[", o.Type, o.Amount.String())
		for _, k := range o.Keys {
			if k == nil {
				sb.WriteString("nil,")
			} else {
				fmt.Fprintf(&sb, "%x,", k[:])
			}
		}
		fmt.Fprintf(&sb, "] mask=%x script=%x", o.Mask[:], []byte(o.Script))
		if w := o.Withdrawal; w != nil {
			fmt.Fprintf(&sb, " w{%q %q}", w.Address, w.Tag)
		}
		sb.WriteString("}")
	}
	for _, r := range v.References {
		fmt.Fprintf(&sb, " ref=%x", r[:])
	}
	eh := sha256.Sum256(v.Extra)
	fmt.Fprintf(&sb, " extra=%d:%x", len(v.Extra), eh[:8])
	if as := v.AggregatedSignature; as != nil {
		fmt.Fprintf(&sb, " agg{%v %x}", append([]int{}, as.Signers...), as.Signature[:])
	}
	for _, m := range v.SignaturesMap {
		idx := make([]int, 0, len(m))
		for k := range m {
			idx = append(idx, int(k))
		}
		sort.Ints(idx)
		sb.WriteString(" sigs{")
		for _, k := range idx {
			s := m[uint16(k)]
			if s == nil {
				fmt.Fprintf(&sb, "%d:nil,", k)
			} else {
				fmt.Fprintf(&sb, "%d:%x,", k, s[:])
			}
		}
		sb.WriteString("}")
	}
	return sb.String()
}

func vC08TxsDump(txs []*common.VersionedTransaction) []string {
	res := make([]string, len(txs))
	for i, tx := range txs {
		res[i] = vC08TxDump(tx)
	}
	return res
}

// vC08RandSnapshot builds a snapshot the encoder accepts. signed: 0 no, 1 yes, 2 random.
// corner: 0 random, 1 smallest (round 0, one transaction), 2 largest (maxTxs transactions).
func vC08RandSnapshot(rng *rand.Rand, signed int, maxTxs int, corner int) *common.Snapshot {
	s := &common.Snapshot{Version: common.SnapshotVersionCommonEncoding, NodeId: vC08RandHash(rng), Timestamp: rng.Uint64()}
	mode := rng.Intn(5)
	if corner == 1 {
		mode = 0
	} else if corner == 2 {
		mode = 1
	}
	switch mode {
	case 0:
		s.RoundNumber = 0
	case 1:
		s.RoundNumber = 1 + uint64(rng.Intn(3))
	case 2:
		s.RoundNumber = ^uint64(0) - uint64(rng.Intn(3))
	default:
		s.RoundNumber = rng.Uint64() >> uint(rng.Intn(64))
	}
	n := 1
	if s.RoundNumber > 0 {
		s.References = &common.RoundLink{Self: vC08RandHash(rng), External: vC08RandHash(rng)}
		switch rng.Intn(6) {
		case 0:
			n = maxTxs
		case 1:
			n = 1 + rng.Intn(maxTxs)
		default:
			n = 1 + rng.Intn(4)
		}
		if corner == 2 {
			n = maxTxs
		}
	}
	for i := 0; i < n; i++ {
		s.Transactions = append(s.Transactions, vC08RandHash(rng))
	}
	if signed == 1 || (signed == 2 && rng.Intn(2) == 0) {
		cs := &crypto.CosiSignature{Mask: rng.Uint64() >> uint(rng.Intn(64)), Signature: crypto.Signature(vC08Rand64(rng))}
		if cs.Mask == 0 {
			cs.Mask = 1
		}
		s.Signature = cs
	}
	if rng.Intn(2) == 0 {
		s.Hash = vC08RandHash(rng) // not part of the encoding
	}
	if rng.Intn(8) == 0 {
		s.Timestamp = 0
	}
	return s
}

// vC08SnapDump: normal form of the encoded snapshot fields; transactions as a set.
func vC08SnapDump(s *common.Snapshot, withSig bool) string {
	if s == nil {
		return "<nil>"
	}
	var sb strings.Builder
	fmt.Fprintf(&sb, "v=%d node=%x round=%d ts=%d", s.Version, s.NodeId[:], s.RoundNumber, s.Timestamp)
	if s.References == nil {
		sb.WriteString(" refs=-")
	} else {
		fmt.Fprintf(&sb, " refs=%x/%x", s.References.Self[:], s.References.External[:])
	}
	txs := make([]string, len(s.Transactions))
	for i, h := range s.Transactions {
		txs[i] = hex.EncodeToString(h[:])
	}
	sort.Strings(txs)
	fmt.Fprintf(&sb, " txs=%d:%s", len(txs), strings.Join(txs, ","))
	if withSig {
		if s.Signature == nil {
			sb.WriteString(" sig=-")
		} else {
			fmt.Fprintf(&sb, " sig=%d:%x", s.Signature.Mask, s.Signature.Signature[:])
		}
	}
	return sb.String()
}

// ---------------------------------------------------------------- monitor

type vC08Mon struct {
	r      *verifkit.Run
	pts    *vC08Points
	parses int64
}

func vC08ErrClass(err error) string {
	if err == nil {
		return "ok"
	}
	s := err.Error()
	var sb strings.Builder
	lastN := false
	for i := 0; i < len(s) && sb.Len() < 48; i++ {
		c := s[i]
		isN := (c >= '0' && c <= '9') || (lastN && ((c >= 'a' && c <= 'f') || c == 'x'))
		if isN {
			if !lastN {
				sb.WriteByte('N')
			}
			lastN = true
			continue
		}
		lastN = false
		if c == ' ' {
			c = '_'
		}
		sb.WriteByte(c)
	}
	return sb.String()
}

func vC08Head(data []byte, n int) string {
	if len(data) > n {
		return hex.EncodeToString(data[:n]) + fmt.Sprintf("...(%d bytes)", len(data))
	}
	return hex.EncodeToString(data)
}

func vC08TypeName(data []byte) string {
	if len(data) == 0 {
		return "empty"
	}
	return fmt.Sprintf("type=%d", data[0])
}

// parse runs the parser on data under the (T) and (P) oracles.
func (m *vC08Mon) parse(version uint8, data []byte, origin string) (*PeerMessage, error) {
	m.parses++
	var msg *PeerMessage
	var err error
	panicked, val, stack := verifkit.Guard(func() { msg, err = parseNetworkMessage(version, data) })
	if panicked {
		site := verifkit.PanicSite(stack)
		m.r.Violation("C08|parseNetworkMessage|panic|"+site+"|"+vC08TypeName(data),
			fmt.Sprintf("parseNetworkMessage panicked (%v) on a %d byte message of %s produced by %s", val, len(data), vC08TypeName(data), origin),
			map[string]any{"origin": origin, "version": version, "data_hex": hex.EncodeToString(vC08Cap(data)), "len": len(data), "panic": fmt.Sprint(val), "stack": vC08CapStr(stack)})
		return nil, fmt.Errorf("panic")
	}
	if (msg == nil) == (err == nil) {
		m.r.Violation("C08|parseNetworkMessage|neither-message-nor-error|"+vC08TypeName(data),
			fmt.Sprintf("parseNetworkMessage returned message==nil:%v together with error==nil:%v", msg == nil, err == nil),
			map[string]any{"origin": origin, "data_hex": hex.EncodeToString(vC08Cap(data)), "len": len(data)})
		return msg, err
	}
	if err != nil {
		return nil, err
	}
	if msg.Type != data[0] {
		m.r.Violation("C08|parseNetworkMessage|type-mismatch|"+vC08TypeName(data),
			fmt.Sprintf("parsed message has type %d, the wire type byte is %d", msg.Type, data[0]),
			map[string]any{"origin": origin, "data_hex": hex.EncodeToString(vC08Cap(data))})
	}
	// (P) the point fields of an accepted message are valid points
	bad := func(field string, k crypto.Key) {
		if c := m.pts.class([32]byte(k)); c != "" {
			m.r.Violation(fmt.Sprintf("C08|parseNetworkMessage|invalid-point-accepted|type=%d|%s|%s", msg.Type, field, c),
				fmt.Sprintf("a message of type %d was accepted although its %s %x is not a valid point (%s)", msg.Type, field, k[:], c),
				map[string]any{"origin": origin, "field": field, "point": hex.EncodeToString(k[:]), "class": c, "data_hex": hex.EncodeToString(vC08Cap(data)), "len": len(data)})
		}
	}
	switch msg.Type {
	case PeerMessageTypePreCommitments:
		for _, k := range msg.Commitments {
			if k != nil {
				bad("pre-commitment", *k)
			}
		}
	case PeerMessageTypeBatchSnapshotAnnouncement, PeerMessageTypeBatchSnapshotCommitment:
		bad("commitment", msg.Commitment)
	case PeerMessageTypeBatchFullChallenge:
		bad("commitment", msg.Commitment)
		bad("challenge", msg.Challenge)
	}
	return msg, nil
}

func vC08Cap(b []byte) []byte {
	if len(b) > 8192 {
		return b[:8192]
	}
	return b
}

func vC08CapStr(s string) string {
	if len(s) > 4000 {
		return s[:4000]
	}
	return s
}

// ---------------------------------------------------------------- round trips

type vC08Built struct {
	kind string
	data []byte
}

type vC08Diff struct {
	field string
	got   string
	want  string
}

func vC08Cmp(diffs *[]vC08Diff, field string, got, want any) {
	g, w := fmt.Sprint(got), fmt.Sprint(want)
	if g != w {
		if len(g) > 600 {
			g = g[:600] + "..."
		}
		if len(w) > 600 {
			w = w[:600] + "..."
		}
		*diffs = append(*diffs, vC08Diff{field, g, w})
	}
}

func vC08CmpTxs(diffs *[]vC08Diff, got []*common.VersionedTransaction, want []string) {
	if len(got) != len(want) {
		vC08Cmp(diffs, "Transactions.len", len(got), len(want))
		return
	}
	for i := range want {
		if d := vC08TxDump(got[i]); d != want[i] {
			vC08Cmp(diffs, "Transactions", fmt.Sprintf("[%d] %s", i, d), fmt.Sprintf("[%d] %s", i, want[i]))
			return
		}
	}
}

func vC08Hashes(hs []crypto.Hash) string {
	var sb strings.Builder
	for _, h := range hs {
		sb.WriteString(hex.EncodeToString(h[:4]))
		sb.WriteString(hex.EncodeToString(h[28:]))
		sb.WriteByte(',')
	}
	full := sha256.New()
	for _, h := range hs {
		full.Write(h[:])
	}
	return fmt.Sprintf("%d:%x", len(hs), full.Sum(nil)[:12])
}

type vC08Gen struct {
	r        *verifkit.Run
	rng      *rand.Rand
	mon      *vC08Mon
	handle   *vC08Handle
	txPool   []*common.VersionedTransaction
	txDumps  map[*common.VersionedTransaction]string
	maxExtra int
	corpus   []vC08Built
	bigs     []vC08Built
	corner   int // 0 random sizes, 1 smallest inputs of every builder, 2 largest
}

// size picks a list length: the random choice n, or the bound demanded by the corner mode.
func (g *vC08Gen) size(n, max int) int {
	switch g.corner {
	case 1:
		return 0
	case 2:
		return max
	}
	return n
}

// tx returns a transaction inside the domain of the transaction codec: its
// encoding is accepted by common.UnmarshalVersionedTransaction with the same
// field values (the codec itself is the subject of other properties).
func (g *vC08Gen) tx() *common.VersionedTransaction {
	if len(g.txPool) > 64 && g.rng.Intn(3) != 0 {
		return g.txPool[g.rng.Intn(len(g.txPool))]
	}
	for {
		ver := vC08RandTx(g.rng, g.maxExtra)
		var back *common.VersionedTransaction
		var err error
		panicked, _, _ := verifkit.Guard(func() { back, err = common.UnmarshalVersionedTransaction(ver.Marshal()) })
		d := vC08TxDump(ver)
		if panicked || err != nil || vC08TxDump(back) != d {
			g.r.Count("tx_outside_codec_domain", 1)
			continue
		}
		g.r.Count("tx_generated", 1)
		g.txDumps[ver] = d
		if len(g.txPool) < 4096 {
			g.txPool = append(g.txPool, ver)
		} else {
			old := g.rng.Intn(len(g.txPool))
			delete(g.txDumps, g.txPool[old])
			g.txPool[old] = ver
		}
		return ver
	}
}

func (g *vC08Gen) txs(max int) []*common.VersionedTransaction {
	n := 0
	switch g.rng.Intn(12) {
	case 0:
		n = 0
	case 1:
		n = max
	case 2:
		n = g.rng.Intn(max + 1)
	case 3:
		n = 1
	default:
		n = g.rng.Intn(6)
	}
	n = g.size(n, max)
	res := make([]*common.VersionedTransaction, n)
	for i := range res {
		res[i] = g.tx()
	}
	if n == 0 && g.rng.Intn(2) == 0 {
		return nil
	}
	return res
}

func (g *vC08Gen) dumps(txs []*common.VersionedTransaction) []string {
	res := make([]string, len(txs))
	for i, tx := range txs {
		if d, ok := g.txDumps[tx]; ok {
			res[i] = d
		} else {
			res[i] = vC08TxDump(tx)
		}
	}
	return res
}

func vC08CountClass(n int, bounds ...int) string {
	for _, b := range bounds {
		if n == b {
			return fmt.Sprint(n)
		}
	}
	return "other"
}

// roundTrip builds one message with builder kind and checks (F). inputClass
// partitions the inputs of the builder for violation signatures.
func (g *vC08Gen) roundTrip(kind string) {
	rng := g.rng
	var data []byte
	var inputClass string
	var check func(msg *PeerMessage, diffs *[]vC08Diff)
	wantType := uint8(0)
	h := g.handle
	callsBefore := h.calls
	var detail map[string]any

	build := func(f func() []byte) bool {
		panicked, val, stack := verifkit.Guard(func() { data = f() })
		if panicked {
			g.r.Violation("C08|"+kind+"|builder-panic|"+inputClass+"|"+verifkit.PanicSite(stack),
				fmt.Sprintf("builder %s panicked (%v) on an input inside its documented bounds (%s)", kind, val, inputClass),
				map[string]any{"kind": kind, "input_class": inputClass, "panic": fmt.Sprint(val), "stack": vC08CapStr(stack), "input": detail})
			return false
		}
		return true
	}

	switch kind {
	case "buildAuthenticationMessage":
		wantType = PeerMessageTypeAuthentication
		pl := make([]byte, authenticationPayloadSize)
		rng.Read(pl)
		inputClass = "payload"
		if !build(func() []byte { return buildAuthenticationMessage(pl) }) {
			return
		}
		check = func(msg *PeerMessage, d *[]vC08Diff) {
			vC08Cmp(d, "Data", hex.EncodeToString(msg.Data), hex.EncodeToString(pl))
		}
	case "buildSnapshotConfirmMessage":
		wantType = PeerMessageTypeSnapshotConfirm
		snap := vC08RandHash(rng)
		inputClass = "hash"
		if !build(func() []byte { return buildSnapshotConfirmMessage(snap) }) {
			return
		}
		check = func(msg *PeerMessage, d *[]vC08Diff) { vC08Cmp(d, "SnapshotHash", msg.SnapshotHash, snap) }
	case "buildTransactionRequestMessage":
		wantType = PeerMessageTypeTransactionRequest
		tx := vC08RandHash(rng)
		inputClass = "hash"
		if !build(func() []byte { return buildTransactionRequestMessage(tx) }) {
			return
		}
		check = func(msg *PeerMessage, d *[]vC08Diff) { vC08Cmp(d, "TransactionHash", msg.TransactionHash, tx) }
	case "buildTransactionMessage":
		wantType = PeerMessageTypeTransaction
		tx := g.tx()
		want := g.dumps([]*common.VersionedTransaction{tx})
		inputClass = "tx"
		if !build(func() []byte { return buildTransactionMessage(tx) }) {
			return
		}
		check = func(msg *PeerMessage, d *[]vC08Diff) { vC08CmpTxs(d, msg.Transactions, want) }
	case "buildTransactionsMessage":
		wantType = PeerMessageTypeTransactionBundle
		if rng.Intn(2) == 0 {
			wantType = PeerMessageTypeFinalizedTransactionBundle
		}
		txs := g.txs(255)
		want := g.dumps(txs)
		inputClass = fmt.Sprintf("type=%d,txs=%s", wantType, vC08CountClass(len(txs), 0, 1, 255))
		if !build(func() []byte { return buildTransactionsMessage(txs, wantType) }) {
			return
		}
		check = func(msg *PeerMessage, d *[]vC08Diff) { vC08CmpTxs(d, msg.Transactions, want) }
	case "buildBatchSnapshotAnnouncementMessage":
		wantType = PeerMessageTypeBatchSnapshotAnnouncement
		s := vC08RandSnapshot(rng, 2, 255, g.corner)
		want := vC08SnapDump(s, true)
		R := vC08ValidPoint(rng)
		spend := vC08RandPriv(rng)
		inputClass = fmt.Sprintf("round0=%v,signed=%v", s.RoundNumber == 0, s.Signature != nil)
		detail = map[string]any{"snapshot": want}
		if !build(func() []byte { return buildBatchSnapshotAnnouncementMessage(s, R, spend) }) {
			return
		}
		check = func(msg *PeerMessage, d *[]vC08Diff) {
			vC08Cmp(d, "Snapshot", vC08SnapDump(msg.Snapshot, true), want)
			vC08Cmp(d, "Commitment", msg.Commitment, R)
			if msg.signature == nil {
				vC08Cmp(d, "signature", "nil", "set")
				return
			}
			// the announcement is signed by the spend key over blake3(R || snapshot encoding)
			signed := crypto.Blake3Hash(data[65:])
			pub := spend.Public()
			vC08Cmp(d, "signature", msg.signature.String(), spend.Sign(signed).String())
			vC08Cmp(d, "signature.verifies", pub.Verify(signed, *msg.signature), true)
		}
	case "buildBatchSnapshotCommitmentMessage":
		wantType = PeerMessageTypeBatchSnapshotCommitment
		snap := vC08RandHash(rng)
		R := vC08ValidPoint(rng)
		var want []crypto.Hash
		n := 0
		switch rng.Intn(5) {
		case 0:
		case 1:
			n = rng.Intn(256)
		default:
			n = rng.Intn(5)
		}
		n = g.size(n, 255)
		for i := 0; i < n; i++ {
			want = append(want, vC08RandHash(rng))
		}
		inputClass = "wantTxs=" + vC08CountClass(len(want), 0, 1)
		if !build(func() []byte { return buildBatchSnapshotCommitmentMessage(h, snap, R, want) }) {
			return
		}
		check = func(msg *PeerMessage, d *[]vC08Diff) {
			vC08Cmp(d, "SnapshotHash", msg.SnapshotHash, snap)
			vC08Cmp(d, "Commitment", msg.Commitment, R)
			vC08Cmp(d, "WantTxs", vC08Hashes(msg.WantTxs), vC08Hashes(want))
			g.cmpSigned(d, msg, callsBefore)
		}
	case "buildBatchTransactionChallengeMessage":
		wantType = PeerMessageTypeBatchTransactionChallenge
		snap := vC08RandHash(rng)
		cosi := &crypto.CosiSignature{Mask: rng.Uint64() >> uint(rng.Intn(64)), Signature: crypto.Signature(vC08Rand64(rng))}
		txs := g.txs(255)
		want := g.dumps(txs)
		inputClass = "txs=" + vC08CountClass(len(txs), 0, 1, 255)
		if !build(func() []byte { return buildBatchTransactionChallengeMessage(snap, cosi, txs) }) {
			return
		}
		check = func(msg *PeerMessage, d *[]vC08Diff) {
			vC08Cmp(d, "SnapshotHash", msg.SnapshotHash, snap)
			vC08Cmp(d, "Cosi.Mask", msg.Cosi.Mask, cosi.Mask)
			vC08Cmp(d, "Cosi.Signature", msg.Cosi.Signature, cosi.Signature)
			vC08CmpTxs(d, msg.Transactions, want)
		}
	case "buildBatchFullChallengeMessage":
		wantType = PeerMessageTypeBatchFullChallenge
		s := vC08RandSnapshot(rng, 1, 255, g.corner) // the node sends a full challenge only with the aggregated signature set
		wantSnap := vC08SnapDump(s, false)
		wantCosi := *s.Signature
		commitment, challenge := vC08ValidPoint(rng), vC08ValidPoint(rng)
		txs := g.txs(255)
		want := g.dumps(txs)
		inputClass = fmt.Sprintf("round0=%v,txs=%s", s.RoundNumber == 0, vC08CountClass(len(txs), 0, 1, 255))
		detail = map[string]any{"snapshot": vC08SnapDump(s, true), "txs": len(txs)}
		if !build(func() []byte { return buildBatchFullChallengeMessage(s, &commitment, &challenge, txs) }) {
			return
		}
		check = func(msg *PeerMessage, d *[]vC08Diff) {
			vC08Cmp(d, "Snapshot", vC08SnapDump(msg.Snapshot, false), wantSnap)
			vC08Cmp(d, "Cosi.Mask", msg.Cosi.Mask, wantCosi.Mask)
			vC08Cmp(d, "Cosi.Signature", msg.Cosi.Signature, wantCosi.Signature)
			vC08Cmp(d, "Commitment", msg.Commitment, commitment)
			vC08Cmp(d, "Challenge", msg.Challenge, challenge)
			vC08CmpTxs(d, msg.Transactions, want)
		}
	case "buildSnapshotResponseMessage":
		wantType = PeerMessageTypeBatchSnapshotResponse
		snap := vC08RandHash(rng)
		si := vC08Rand32(rng)
		inputClass = "response"
		if !build(func() []byte { return buildSnapshotResponseMessage(snap, &si) }) {
			return
		}
		check = func(msg *PeerMessage, d *[]vC08Diff) {
			vC08Cmp(d, "SnapshotHash", msg.SnapshotHash, snap)
			vC08Cmp(d, "Response", hex.EncodeToString(msg.Response[:]), hex.EncodeToString(si[:]))
		}
	case "buildBatchSnapshotFinalizationMessage":
		wantType = PeerMessageTypeBatchSnapshotFinalization
		s := vC08RandSnapshot(rng, 2, 255, g.corner)
		if rng.Intn(4) != 0 && s.Signature == nil {
			s = vC08RandSnapshot(rng, 1, 255, g.corner)
		}
		want := vC08SnapDump(s, true)
		inputClass = fmt.Sprintf("round0=%v,signed=%v", s.RoundNumber == 0, s.Signature != nil)
		detail = map[string]any{"snapshot": want}
		if !build(func() []byte { return buildBatchSnapshotFinalizationMessage(s) }) {
			return
		}
		check = func(msg *PeerMessage, d *[]vC08Diff) { vC08Cmp(d, "Snapshot", vC08SnapDump(msg.Snapshot, true), want) }
	case "buildGraphMessage":
		wantType = PeerMessageTypeGraph
		n := 0
		switch rng.Intn(8) {
		case 0:
		case 1:
			n = 512
		case 2:
			n = rng.Intn(513)
		case 3:
			n = 1
		default:
			n = rng.Intn(40)
		}
		n = g.size(n, 512)
		h.graph = nil
		for i := 0; i < n; i++ {
			p := &SyncPoint{NodeId: vC08RandHash(rng), Number: rng.Uint64() >> uint(rng.Intn(64)), Hash: vC08RandHash(rng)}
			if rng.Intn(4) == 0 {
				p.Pool = "not encoded"
			}
			h.graph = append(h.graph, p)
		}
		points := h.graph
		inputClass = "points=" + vC08CountClass(n, 0, 1, 512)
		if !build(func() []byte { return buildGraphMessage(h) }) {
			return
		}
		check = func(msg *PeerMessage, d *[]vC08Diff) {
			if len(msg.Graph) != len(points) {
				vC08Cmp(d, "Graph.len", len(msg.Graph), len(points))
				return
			}
			for i, p := range points {
				q := msg.Graph[i]
				if q == nil || q.NodeId != p.NodeId || q.Number != p.Number || q.Hash != p.Hash {
					vC08Cmp(d, "Graph", fmt.Sprintf("[%d] %+v", i, q), fmt.Sprintf("[%d] {%s %d %s}", i, p.NodeId, p.Number, p.Hash))
					return
				}
			}
			g.cmpSigned(d, msg, callsBefore)
		}
	case "buildCommitmentsMessage":
		wantType = PeerMessageTypePreCommitments
		n := 0
		switch rng.Intn(10) {
		case 0:
			n = 0
		case 1:
			n = 1024
		case 2:
			n = 512
		case 3:
			n = rng.Intn(1025)
		case 4:
			n = 1
		default:
			n = 1 + rng.Intn(12)
		}
		n = g.size(n, 1024)
		var list []*crypto.Key
		for i := 0; i < n; i++ {
			k := g.validPoint()
			list = append(list, &k)
		}
		inputClass = "commitments=" + vC08CountClass(n, 0, 1, 1024)
		if !build(func() []byte { return buildCommitmentsMessage(h, list) }) {
			return
		}
		check = func(msg *PeerMessage, d *[]vC08Diff) {
			if len(msg.Commitments) != len(list) {
				vC08Cmp(d, "Commitments.len", len(msg.Commitments), len(list))
				return
			}
			for i, k := range list {
				if msg.Commitments[i] == nil || *msg.Commitments[i] != *k {
					vC08Cmp(d, "Commitments", fmt.Sprintf("[%d] %v", i, msg.Commitments[i]), fmt.Sprintf("[%d] %v", i, k))
					return
				}
			}
			g.cmpSigned(d, msg, callsBefore)
		}
	case "buildRelayMessage":
		wantType = PeerMessageTypeRelay
		me := &Peer{IdForNetwork: vC08RandHash(rng)}
		to := vC08RandHash(rng)
		var inner []byte
		if len(g.corpus) > 0 {
			inner = g.corpus[rng.Intn(len(g.corpus))].data
		} else {
			inner = buildSnapshotConfirmMessage(vC08RandHash(rng))
		}
		inputClass = "inner"
		if !build(func() []byte { return me.buildRelayMessage(to, inner) }) {
			return
		}
		check = func(msg *PeerMessage, d *[]vC08Diff) {
			if len(msg.Data) < 65 {
				vC08Cmp(d, "Data.len", len(msg.Data), 65+len(inner))
				return
			}
			vC08Cmp(d, "Data.from", hex.EncodeToString(msg.Data[1:33]), hex.EncodeToString(me.IdForNetwork[:]))
			vC08Cmp(d, "Data.to", hex.EncodeToString(msg.Data[33:65]), hex.EncodeToString(to[:]))
			vC08Cmp(d, "Data.inner", bytes.Equal(msg.Data[65:], inner), true)
		}
	case "buildConsumersMessage":
		wantType = PeerMessageTypeConsumers
		me := &Peer{IdForNetwork: vC08RandHash(rng), consumers: &neighborMap{m: make(map[crypto.Hash]*Peer)}}
		n := g.size(rng.Intn(5), 8)
		var want []string
		for i := 0; i < n; i++ {
			id := vC08RandHash(rng)
			auth := make([]byte, authenticationPayloadSize)
			rng.Read(auth)
			me.consumers.Set(id, &Peer{IdForNetwork: id, consumerAuth: &AuthToken{PeerId: id, Data: auth}})
			want = append(want, hex.EncodeToString(id[:])+hex.EncodeToString(auth))
		}
		sort.Strings(want)
		inputClass = "consumers=" + vC08CountClass(n, 0, 1)
		if !build(func() []byte { return me.buildConsumersMessage() }) {
			return
		}
		check = func(msg *PeerMessage, d *[]vC08Diff) {
			// the consumers are listed in map order: compare as a set of (id, token) records
			const rec = 32 + authenticationPayloadSize
			if len(msg.Data) != rec*n {
				vC08Cmp(d, "Data.len", len(msg.Data), rec*n)
				return
			}
			var got []string
			for o := 0; o < len(msg.Data); o += rec {
				got = append(got, hex.EncodeToString(msg.Data[o:o+rec]))
			}
			sort.Strings(got)
			vC08Cmp(d, "Data.records", strings.Join(got, ","), strings.Join(want, ","))
		}
	default:
		panic(kind)
	}

	g.r.Eval()
	g.r.Count("built_"+kind, 1)
	g.r.Count("built_bytes", len(data))
	version := uint8(rng.Intn(256))
	msg, err := g.mon.parse(version, data, kind)
	if err != nil {
		if err.Error() == "panic" {
			return
		}
		ec := vC08ErrClass(err)
		g.r.Violation("C08|"+kind+"|built-message-rejected|"+inputClass+"|"+ec,
			fmt.Sprintf("the message built by %s (%s, %d bytes) is rejected by parseNetworkMessage: %v", kind, inputClass, len(data), err),
			map[string]any{"kind": kind, "input_class": inputClass, "error": err.Error(), "len": len(data), "data_hex": hex.EncodeToString(vC08Cap(data)), "input": detail})
		g.r.Count("roundtrip_rejected", 1)
		return
	}
	var diffs []vC08Diff
	vC08Cmp(&diffs, "Type", msg.Type, wantType)
	check(msg, &diffs)
	if len(diffs) > 0 {
		d := diffs[0]
		g.r.Violation("C08|"+kind+"|roundtrip-mismatch|"+d.field,
			fmt.Sprintf("parse(%s(x)).%s = %s, the built value is %s (%s)", kind, d.field, d.got, d.want, inputClass),
			map[string]any{"kind": kind, "input_class": inputClass, "diffs": fmt.Sprintf("%+v", diffs), "len": len(data), "data_hex": hex.EncodeToString(vC08Cap(data))})
		g.r.Count("roundtrip_mismatch", 1)
		return
	}
	g.r.Count("roundtrip_ok", 1)
	key := sha256.Sum256(data)
	g.r.Nontrivial("B|" + kind[5:] + "|" + hex.EncodeToString(key[:6]))
	if g.r.SampleCount() < 3 && len(data) < 400 {
		g.r.Sample(map[string]any{"part": "roundtrip", "builder": kind, "input_class": inputClass, "len": len(data), "message_hex": vC08Head(data, 96)})
	}
	b := vC08Built{kind, data}
	if len(data) <= 1600 {
		if len(g.corpus) < 6000 {
			g.corpus = append(g.corpus, b)
		} else {
			g.corpus[rng.Intn(len(g.corpus))] = b
		}
	} else if len(g.bigs) < 400 {
		g.bigs = append(g.bigs, b)
	} else {
		g.bigs[rng.Intn(len(g.bigs))] = b
	}
}

var vC08PointPool []crypto.Key

func (g *vC08Gen) validPoint() crypto.Key {
	if len(vC08PointPool) < 2048 || g.rng.Intn(8) == 0 {
		k := vC08ValidPoint(g.rng)
		if len(vC08PointPool) < 2048 {
			vC08PointPool = append(vC08PointPool, k)
		}
		return k
	}
	return vC08PointPool[g.rng.Intn(len(vC08PointPool))]
}

// cmpSigned: the signature the parser returns is the one the handle produced
// and the bytes it marks as signed are the bytes the handle signed.
func (g *vC08Gen) cmpSigned(d *[]vC08Diff, msg *PeerMessage, callsBefore int) {
	h := g.handle
	if h.calls != callsBefore+1 {
		vC08Cmp(d, "SignData.calls", h.calls-callsBefore, 1)
		return
	}
	if msg.signature == nil {
		vC08Cmp(d, "signature", "nil", "set")
		return
	}
	vC08Cmp(d, "signature", msg.signature.String(), h.lastSig.String())
	vC08Cmp(d, "unsigned", bytes.Equal(msg.unsigned, h.lastData), true)
	pub := h.key.Public()
	vC08Cmp(d, "signature.verifies", pub.Verify(crypto.Blake3Hash(msg.unsigned), *msg.signature), true)
}

var vC08Kinds = []struct {
	name   string
	weight int
}{
	{"buildAuthenticationMessage", 2},
	{"buildSnapshotConfirmMessage", 2},
	{"buildTransactionRequestMessage", 2},
	{"buildTransactionMessage", 5},
	{"buildTransactionsMessage", 8},
	{"buildBatchSnapshotAnnouncementMessage", 8},
	{"buildBatchSnapshotCommitmentMessage", 6},
	{"buildBatchTransactionChallengeMessage", 8},
	{"buildBatchFullChallengeMessage", 10},
	{"buildSnapshotResponseMessage", 2},
	{"buildBatchSnapshotFinalizationMessage", 8},
	{"buildGraphMessage", 6},
	{"buildCommitmentsMessage", 8},
	{"buildRelayMessage", 2},
	{"buildConsumersMessage", 1},
}

// ---------------------------------------------------------------- point injection

func (g *vC08Gen) injectPoints(perClass int) {
	rng := g.rng
	h := g.handle
	type built struct {
		data   []byte
		offset int
		get    func(msg *PeerMessage) (crypto.Key, bool)
	}
	sites := map[string]func() built{
		"pre-commitment": func() built {
			n := 1 + rng.Intn(20)
			if rng.Intn(10) == 0 {
				n = 1024
			}
			var list []*crypto.Key
			for i := 0; i < n; i++ {
				k := g.validPoint()
				list = append(list, &k)
			}
			i := rng.Intn(n)
			if rng.Intn(4) == 0 {
				i = n - 1
			}
			return built{buildCommitmentsMessage(h, list), 67 + 32*i, func(msg *PeerMessage) (crypto.Key, bool) {
				if i >= len(msg.Commitments) || msg.Commitments[i] == nil {
					return crypto.Key{}, false
				}
				return *msg.Commitments[i], true
			}}
		},
		"announcement-commitment": func() built {
			s := vC08RandSnapshot(rng, 2, 8, 0)
			return built{buildBatchSnapshotAnnouncementMessage(s, vC08ValidPoint(rng), vC08RandPriv(rng)), 65,
				func(msg *PeerMessage) (crypto.Key, bool) { return msg.Commitment, true }}
		},
		"snapshot-commitment": func() built {
			var want []crypto.Hash
			for i, n := 0, rng.Intn(4); i < n; i++ {
				want = append(want, vC08RandHash(rng))
			}
			return built{buildBatchSnapshotCommitmentMessage(h, vC08RandHash(rng), vC08ValidPoint(rng), want), 97,
				func(msg *PeerMessage) (crypto.Key, bool) { return msg.Commitment, true }}
		},
		"full-challenge-commitment": func() built {
			s := vC08RandSnapshot(rng, 1, 8, 0)
			c1, c2 := vC08ValidPoint(rng), vC08ValidPoint(rng)
			txs := []*common.VersionedTransaction{g.tx()}
			pl := len(s.VersionedMarshal())
			return built{buildBatchFullChallengeMessage(s, &c1, &c2, txs), 5 + pl,
				func(msg *PeerMessage) (crypto.Key, bool) { return msg.Commitment, true }}
		},
		"full-challenge-challenge": func() built {
			s := vC08RandSnapshot(rng, 1, 8, 0)
			c1, c2 := vC08ValidPoint(rng), vC08ValidPoint(rng)
			txs := []*common.VersionedTransaction{g.tx()}
			pl := len(s.VersionedMarshal())
			return built{buildBatchFullChallengeMessage(s, &c1, &c2, txs), 5 + pl + 32,
				func(msg *PeerMessage) (crypto.Key, bool) { return msg.Challenge, true }}
		},
	}
	names := make([]string, 0, len(sites))
	for n := range sites {
		names = append(names, n)
	}
	sort.Strings(names)
	for _, site := range names {
		for _, class := range append([]string{"valid"}, vC08Classes...) {
			pool := g.mon.pts.invalid[class]
			if class != "valid" && len(pool) == 0 {
				g.r.Inconclusive("no invalid point of class " + class + " could be generated")
				continue
			}
			for i := 0; i < perClass; i++ {
				var b built
				panicked, val, _ := verifkit.Guard(func() { b = sites[site]() })
				if panicked {
					g.r.Inconclusive(fmt.Sprintf("harness could not build a %s message: %v", site, val))
					break
				}
				if _, err := g.mon.parse(TransportMessageVersion, b.data, "inject-control:"+site); err != nil {
					// already reported by the round trip part under its own signature
					g.r.Count("inject_control_rejected", 1)
					continue
				}
				var pt [32]byte
				if class == "valid" {
					pt = [32]byte(vC08ValidPoint(rng))
				} else {
					pt = pool[(i+rng.Intn(len(pool)))%len(pool)]
				}
				mut := append([]byte(nil), b.data...)
				copy(mut[b.offset:b.offset+32], pt[:])
				g.r.Eval()
				msg, err := g.mon.parse(TransportMessageVersion, mut, "inject:"+site+":"+class)
				g.r.Count("inject_"+class, 1)
				if class == "valid" {
					if err != nil {
						g.r.Violation("C08|"+site+"|valid-point-rejected|"+vC08ErrClass(err),
							fmt.Sprintf("a %s message carrying the valid point %x at the %s position is rejected: %v", site, pt[:], site, err),
							map[string]any{"site": site, "point": hex.EncodeToString(pt[:]), "data_hex": hex.EncodeToString(vC08Cap(mut))})
						continue
					}
					if got, ok := b.get(msg); !ok || [32]byte(got) != pt {
						g.r.Violation("C08|"+site+"|point-field-mismatch",
							fmt.Sprintf("the %s field of the parsed message is %x, the wire carries %x", site, got[:], pt[:]),
							map[string]any{"site": site, "point": hex.EncodeToString(pt[:]), "data_hex": hex.EncodeToString(vC08Cap(mut))})
					}
					g.r.Nontrivial("C|" + site + "|valid|" + hex.EncodeToString(pt[:6]))
					continue
				}
				if err == nil {
					// mon.parse has reported it through the parsed field unless the parser dropped the value
					if got, ok := b.get(msg); !ok || [32]byte(got) != pt {
						g.r.Violation("C08|"+site+"|invalid-point-not-rejected|"+class,
							fmt.Sprintf("a %s message with the invalid point %x (%s) on the wire is accepted (parsed field %x)", site, pt[:], class, got[:]),
							map[string]any{"site": site, "class": class, "point": hex.EncodeToString(pt[:]), "data_hex": hex.EncodeToString(vC08Cap(mut))})
					}
					g.r.Count("inject_accepted", 1)
					continue
				}
				g.r.Count("inject_rejected", 1)
				g.r.Nontrivial("C|" + site + "|" + class + "|" + hex.EncodeToString(pt[:6]))
				if class == vC08ClassMixedOrder && i == 0 && site == "pre-commitment" {
					g.r.Sample(map[string]any{"part": "invalid-point", "site": site, "class": class, "point": hex.EncodeToString(pt[:]), "parser_error": err.Error()})
				}
			}
		}
	}
}

// ---------------------------------------------------------------- hostile bytes

var vC08Types = []byte{0, PeerMessageTypePing, 2, PeerMessageTypeAuthentication, PeerMessageTypeGraph, PeerMessageTypeSnapshotConfirm,
	PeerMessageTypeTransactionRequest, PeerMessageTypeTransaction, PeerMessageTypeTransactionBundle, PeerMessageTypeFinalizedTransactionBundle,
	10, PeerMessageTypePreCommitments, PeerMessageTypeBatchSnapshotAnnouncement, PeerMessageTypeBatchSnapshotCommitment,
	PeerMessageTypeBatchTransactionChallenge, PeerMessageTypeBatchSnapshotResponse, PeerMessageTypeBatchFullChallenge,
	PeerMessageTypeBatchSnapshotFinalization, 26, 199, PeerMessageTypeRelay, PeerMessageTypeConsumers, 255}

// sizes around every length guard of the parser
var vC08Sizes = []int{0, 1, 2, 3, 4, 5, 6, 8, 9, 31, 32, 33, 34, 36, 37, 38, 64, 65, 66, 67, 68, 69, 70, 71, 72, 73, 79, 80, 81, 96, 97, 98, 99, 100, 101, 102,
	104, 105, 106, 107, 110, 111, 128, 129, 130, 131, 137, 138, 139, 160, 161, 162, 169, 170, 193, 237, 238, 255, 256, 257, 258, 260, 261, 262, 300, 301, 302, 512, 1024,
	67 + 32, 67 + 64, 67 + 32*1024 - 1, 67 + 32*1024, 67 + 32*1024 + 1, 67 + 32*1025}

func vC08HasBranch(typ byte) bool {
	switch typ {
	case PeerMessageTypePing, PeerMessageTypeAuthentication, PeerMessageTypeGraph, PeerMessageTypeSnapshotConfirm,
		PeerMessageTypeTransactionRequest, PeerMessageTypeTransaction, PeerMessageTypeTransactionBundle, PeerMessageTypeFinalizedTransactionBundle,
		PeerMessageTypePreCommitments, PeerMessageTypeBatchSnapshotAnnouncement, PeerMessageTypeBatchSnapshotCommitment,
		PeerMessageTypeBatchTransactionChallenge, PeerMessageTypeBatchSnapshotResponse, PeerMessageTypeBatchFullChallenge,
		PeerMessageTypeBatchSnapshotFinalization, PeerMessageTypeRelay, PeerMessageTypeConsumers:
		return true
	}
	return false
}

func (g *vC08Gen) fill(buf []byte, mode int) {
	rng := g.rng
	switch mode {
	case 0:
		rng.Read(buf)
	case 1:
		for i := range buf {
			buf[i] = 0
		}
	case 2:
		for i := range buf {
			buf[i] = 0xff
		}
	case 3: // low entropy, small integers
		for i := range buf {
			buf[i] = byte(rng.Intn(3))
		}
	default: // random, with codec markers and a valid point sprinkled in
		rng.Read(buf)
		for k := 0; k < 1+len(buf)/64; k++ {
			if len(buf) < 4 {
				break
			}
			at := rng.Intn(len(buf) - 3)
			if rng.Intn(2) == 0 {
				at = []int{0, 4, 32, 64, 66, 96, 104, 128}[rng.Intn(8)]
			}
			if at+4 > len(buf) {
				continue
			}
			switch rng.Intn(5) {
			case 0:
				copy(buf[at:], []byte{0x77, 0x77, 0, common.SnapshotVersionCommonEncoding})
			case 1:
				copy(buf[at:], []byte{0x77, 0x77, 0, common.TxVersionHashSignature})
			case 2:
				copy(buf[at:], []byte{0x77, 0x77, 0, common.MinimumEncodingVersion})
			case 3:
				binary.BigEndian.PutUint32(buf[at:], uint32(rng.Intn(len(buf)+2)))
			default:
				if at+32 <= len(buf) {
					k := g.validPoint()
					copy(buf[at:], k[:])
				}
			}
		}
	}
}

func (g *vC08Gen) hostileBytes(n int) {
	rng := g.rng
	acc, rej := map[byte]int{}, map[byte]int{}
	for i := 0; i < n; i++ {
		typ := vC08Types[rng.Intn(len(vC08Types))]
		if rng.Intn(50) == 0 {
			typ = byte(rng.Intn(256))
		}
		var size int
		switch rng.Intn(4) {
		case 0:
			size = vC08Sizes[rng.Intn(len(vC08Sizes))]
		case 1:
			size = rng.Intn(400)
		case 2:
			size = rng.Intn(3000)
		default:
			size = vC08Sizes[rng.Intn(len(vC08Sizes))] + rng.Intn(5) - 2
			if size < 0 {
				size = 0
			}
		}
		data := make([]byte, size)
		mode := rng.Intn(8)
		g.fill(data, mode)
		if size > 0 {
			data[0] = typ
		}
		// make some length fields consistent with the size so the deeper branches run
		if size >= 67 && typ == PeerMessageTypePreCommitments && rng.Intn(2) == 0 {
			binary.BigEndian.PutUint16(data[65:], uint16((size-67)/32))
			if rng.Intn(2) == 0 {
				for o := 67; o+32 <= size; o += 32 {
					k := g.validPoint()
					copy(data[o:], k[:])
				}
			}
		}
		if size >= 71 && typ == PeerMessageTypeGraph && rng.Intn(2) == 0 {
			copy(data[65:], []byte{0x77, 0x77, 0, common.MinimumEncodingVersion})
			binary.BigEndian.PutUint16(data[69:], uint16((size-71)/72+rng.Intn(2)))
		}
		g.r.Eval()
		msg, err := g.mon.parse(uint8(rng.Intn(256)), data, "hostile-bytes")
		bucket := size
		if size > 320 {
			bucket = 320 + size/256
		}
		if vC08HasBranch(typ) { // unknown type bytes have no parsing logic: counted as evaluations only
			g.r.Nontrivial(fmt.Sprintf("A|%d|%d|%s", typ, bucket, vC08ErrClass(err)))
		} else {
			typ = 0
		}
		if err == nil && msg != nil {
			acc[typ]++
		} else {
			rej[typ]++
		}
		if i == 7 {
			g.r.Sample(map[string]any{"part": "hostile-bytes", "type": typ, "len": size, "fill": mode, "outcome": vC08ErrClass(err)})
		}
	}
	a, rj := 0, 0
	for _, v := range acc {
		a += v
	}
	for _, v := range rej {
		rj += v
	}
	g.r.Count("hostile_accepted", a)
	g.r.Count("hostile_rejected", rj)
	g.r.Note("hostile_accepted_by_type_0_is_unknown", fmt.Sprint(acc))
	g.r.Note("hostile_rejected_by_type_0_is_unknown", fmt.Sprint(rej))
}

// mutate exercises a built message: truncations, byte and length-field
// mutations, insertions, deletions, type confusion and splices.
// craftedMasks: a valid aggregated transaction ends with [mask type][u16 length][mask bytes]; the tail is
// replaced by masks of 8191..8194 and 65535 bytes with the highest bit set (signer indexes 65527..65551, 524279).
func (g *vC08Gen) craftedMasks(n int) {
	rng := g.rng
	for i := 0; i < n; i++ {
		tx := vC08RandTx(rng, 64)
		tx.SignaturesMap = nil
		tx.AggregatedSignature = &common.AggregatedSignature{Signature: crypto.Signature(vC08Rand64(rng)), Signers: []int{0, 1, 2}}
		var enc []byte
		if p, _, _ := verifkit.Guard(func() { enc = tx.Marshal() }); p || len(enc) < 8 {
			continue
		}
		// tail of the valid encoding: type byte 0x01? + u16(1) + one mask byte
		oldTail := 2 + 1
		L := []int{8191, 8192, 8193, 8194, 65535}[rng.Intn(5)]
		mask := make([]byte, L)
		mask[0] = 0x07
		mask[L-1] = byte(1) << uint(rng.Intn(8))
		crafted := append([]byte{}, enc[:len(enc)-oldTail]...)
		crafted = append(crafted, byte(L>>8), byte(L))
		crafted = append(crafted, mask...)
		single := append([]byte{PeerMessageTypeTransaction}, crafted...)
		bundle := func(typ byte) []byte {
			b := []byte{typ, 1}
			b = binary.BigEndian.AppendUint32(b, uint32(len(crafted)))
			return append(b, crafted...)
		}
		for _, data := range [][]byte{single, bundle(PeerMessageTypeTransactionBundle), bundle(PeerMessageTypeFinalizedTransactionBundle)} {
			msg, err := g.mon.parse(uint8(rng.Intn(256)), data, "crafted-aggregate-mask")
			g.r.Count(fmt.Sprintf("crafted_mask_len_%d_%s", L, map[bool]string{true: "accepted", false: "rejected"}[err == nil && msg != nil]), 1)
			g.r.Nontrivial(fmt.Sprintf("crafted|%d|%d|%v", data[0], L, err == nil))
		}
	}
}

func (g *vC08Gen) mutate(b vC08Built, systematic bool, randomOps int) {
	rng := g.rng
	kind := b.kind[5:]
	run := func(op string, data []byte) {
		g.r.Eval()
		_, err := g.mon.parse(TransportMessageVersion, data, "mutation:"+op+":"+b.kind)
		g.r.Count("mut_"+op, 1)
		if err == nil {
			g.r.Count("mut_accepted", 1)
		} else {
			g.r.Count("mut_rejected", 1)
		}
		g.r.Nontrivial("D|" + kind + "|" + op + "|" + vC08ErrClass(err))
	}
	src := b.data
	if systematic {
		for l := 0; l < len(src); l++ {
			run("truncate", src[:l:l])
		}
		for tail := 1; tail <= 9; tail++ {
			d := append(append([]byte(nil), src...), make([]byte, tail)...)
			if tail%2 == 0 {
				rng.Read(d[len(src):])
			}
			run("append", d)
		}
		for pos := 0; pos < len(src); pos++ {
			d := append([]byte(nil), src...)
			d[pos] ^= 1 << uint(rng.Intn(8))
			run("bitflip", d)
			d[pos] = 0xff
			run("set-ff", d)
			d[pos] = 0
			run("set-00", d)
		}
	}
	for i := 0; i < randomOps; i++ {
		d := append([]byte(nil), src...)
		nops := 1 + rng.Intn(3)
		op := ""
		for k := 0; k < nops && len(d) > 0; k++ {
			pos := rng.Intn(len(d))
			switch rng.Intn(9) {
			case 0:
				op = "truncate"
				d = d[:pos]
			case 1:
				op = "byte"
				d[pos] = byte(rng.Intn(256))
			case 2:
				op = "u16"
				if pos+2 <= len(d) {
					v := []uint16{0, 1, 0xffff, 0xfffe, 256, 255, 1024, 1025, uint16(rng.Intn(65536))}[rng.Intn(9)]
					binary.BigEndian.PutUint16(d[pos:], v)
				}
			case 3:
				op = "u32"
				if pos+4 <= len(d) {
					v := []uint32{0, 1, 0xffffffff, 0x7fffffff, 0x80000000, uint32(len(d)), uint32(len(d) - pos), uint32(len(d) - pos - 4), uint32(len(d) - pos - 3), uint32(rng.Intn(1 << 20))}[rng.Intn(10)]
					binary.BigEndian.PutUint32(d[pos:], v)
				}
			case 4:
				op = "insert"
				ins := make([]byte, 1+rng.Intn(40))
				rng.Read(ins)
				d = append(d[:pos:pos], append(ins, d[pos:]...)...)
			case 5:
				op = "delete"
				n := 1 + rng.Intn(40)
				if pos+n > len(d) {
					n = len(d) - pos
				}
				d = append(d[:pos:pos], d[pos+n:]...)
			case 6:
				op = "retype"
				d[0] = vC08Types[rng.Intn(len(vC08Types))]
			case 7:
				op = "splice"
				var o []byte
				if len(g.corpus) > 0 {
					o = g.corpus[rng.Intn(len(g.corpus))].data
				}
				if len(o) > 0 {
					d = append(d[:pos:pos], o[rng.Intn(len(o)):]...)
				}
			default:
				op = "incdec"
				if rng.Intn(2) == 0 {
					d[pos]++
				} else {
					d[pos]--
				}
			}
		}
		if nops > 1 {
			op = "multi"
		}
		run(op, d)
	}
}

// ---------------------------------------------------------------- the check

func TestVerif_C08(t *testing.T) {
	r := verifkit.Start(t, "C08", "exploration")
	r.SetRule("seeded workload in four parts. A: hostile bytes for every type byte (known and unknown), lengths on and around every size guard of the parser plus random lengths, " +
		"five fillings (random, zero, 0xff, small integers, random with codec markers / consistent length fields / valid points). " +
		"B: every builder (authentication, confirm, request, transaction, both bundle types 0..255, announcement, commitment, transaction challenge, full challenge, response, " +
		"finalization, graph 0..512 points, pre-commitments 0..1024, relay, consumers; each first on its smallest and largest inputs, then) on random snapshots (round 0 / references, 1..255 transactions, signed / unsigned) and structurally random transactions; " +
		"the parsed fields are compared one by one with the builder inputs (own normal form, signatures against what the handle signed). " +
		"C: for each of the five point positions the point of a built message is replaced by a valid point (must be accepted with that value) and by off-curve, non-canonical, identity, small-order and mixed-order encodings (must be rejected); " +
		"the classes come from an independent reference on filippo.io/edwards25519. D: every truncation, append, per-position bit flip / 0x00 / 0xff of built messages and random multi-step mutations " +
		"(length fields, insert, delete, type confusion, splice). Every parse in all parts runs under the no-panic, message-xor-error and accepted-points-are-valid oracles. " +
		"non-trivial = distinct built messages (B), distinct injected points per position (C), distinct (type, length, outcome) (A) and (builder, mutation, outcome) classes (D)")
	r.Assume("filippo.io/edwards25519 decodes points correctly; a valid point is the canonical encoding of a point of prime order l other than the identity (what crypto.Key.CheckKey documents)")
	r.Assume("transactions inside messages are limited to those the transaction codec itself round-trips (the codec is the subject of other properties); snapshots to those the snapshot encoder accepts")
	r.Assume("the full challenge builder is exercised with the aggregated signature set on the snapshot, as the node does; the QUIC stream framing in p2p/quic.go is not part of the parsed byte string")
	r.SetFloor(200)
	rng := r.Rand()

	pts := vC08NewPoints()
	pts.prepare(rng)
	classes := map[string]int{}
	for _, c := range vC08Classes {
		classes[c] = len(pts.invalid[c])
	}
	r.Note("invalid_point_pool", classes)
	r.Note("torsion_points_found", len(pts.torsion))

	mon := &vC08Mon{r: r, pts: pts}
	g := &vC08Gen{r: r, rng: rng, mon: mon, handle: &vC08Handle{key: vC08RandPriv(rng)}, txDumps: map[*common.VersionedTransaction]string{},
		maxExtra: r.N(20000, 300000)}

	// reference self-test: the classes the harness relies on
	for i := 0; i < 20; i++ {
		if c := pts.class([32]byte(vC08ValidPoint(rng))); c != "" {
			r.Inconclusive("reference classifies a freshly derived public key as " + c)
		}
	}

	// part B: round trips
	total := 0
	for _, k := range vC08Kinds {
		total += k.weight
	}
	nb := r.N(2500, 40000)
	for i := 0; i < nb; i++ {
		if i < len(vC08Kinds)*3 {
			// every builder once on its smallest inputs (empty lists, round 0), once on its
			// largest (255 transactions, 1024 commitments, 512 points), once at random
			g.corner = []int{1, 2, 0}[i/len(vC08Kinds)]
			g.roundTrip(vC08Kinds[i%len(vC08Kinds)].name)
			g.corner = 0
			continue
		}
		x := rng.Intn(total)
		for _, k := range vC08Kinds {
			if x < k.weight {
				g.roundTrip(k.name)
				break
			}
			x -= k.weight
		}
	}

	// part C: invalid points
	g.injectPoints(r.N(12, 120))

	// part A: hostile bytes
	g.hostileBytes(r.N(400000, 6000000))

	// part E: transactions whose aggregate-signature mask was rewritten by hand (lengths around the largest signer
	// index the encoding can carry), inside every message type that carries transaction bodies
	g.craftedMasks(r.N(40, 600))

	// part D: mutations of built messages
	nsys := r.N(160, 1500)
	perm := rng.Perm(len(g.corpus))
	byKind := map[string]int{}
	done := 0
	for _, idx := range perm {
		b := g.corpus[idx]
		if byKind[b.kind] >= nsys/len(vC08Kinds)+1 {
			continue
		}
		byKind[b.kind]++
		g.mutate(b, true, 300)
		done++
		if done >= nsys {
			break
		}
	}
	r.Count("mut_systematic_messages", done)
	nbig := r.N(25, 250)
	for i := 0; i < nbig && i < len(g.bigs); i++ {
		g.mutate(g.bigs[i], false, r.N(250, 600))
	}
	for i, nr := 0, r.N(1500, 20000); i < nr && len(g.corpus) > 0; i++ {
		g.mutate(g.corpus[rng.Intn(len(g.corpus))], false, 40)
	}

	r.Note("parser_calls", mon.parses)
	r.Note("corpus_small", len(g.corpus))
	r.Note("corpus_large", len(g.bigs))
	if r.Counter("roundtrip_ok") < int64(nb/2) && r.Violations() == 0 {
		r.Inconclusive("fewer than half of the built messages completed a round trip")
	}
	if r.Counter("inject_rejected") == 0 && r.Violations() == 0 {
		r.Inconclusive("no invalid point injection was observed")
	}
	r.Finish()
}
