package storage_test

import (
	"fmt"
	"math"
	"math/rand"
	"os"
	"path/filepath"
	"sort"
	"strings"
	"sync"
	"testing"

	"github.com/MixinNetwork/mixin/common"
	"github.com/MixinNetwork/mixin/crypto"
	"github.com/MixinNetwork/mixin/verifgen"
	"github.com/MixinNetwork/mixin/verifkit"
	"github.com/MixinNetwork/mixin/verifledger"
)

// ---------------------------------------------------------------------------
// Reference state machine, written from the statement of C27 only:
//   * a pledge is recorded only for a NEW signer and only while NO node is pledging
//   * accept / cancel only for the node that is CURRENTLY pledging, signer and payee matching
//   * remove only for a node that is CURRENTLY accepted, signer and payee matching
//   * signer keys never repeat across nodes; a node's latest state is the one reported
// The statement says "only": it forbids applying an operation outside these
// conditions; it does not oblige the store to apply every operation that
// satisfies them (the store is in fact stricter: no removal while a pledge is
// pending). So the oracle is: applied => allowed by the model; rejected =>
// history untouched; and the reported history always equals the sequence of
// applied operations.
// ---------------------------------------------------------------------------

type vC27Entry struct {
	Signer crypto.Key
	Payee  crypto.Key
	State  string
	Tx     crypto.Hash
	Ts     uint64
}

func (e vC27Entry) String() string {
	return fmt.Sprintf("%s/%s %s@%d tx=%s", e.Signer.String()[:8], e.Payee.String()[:8], e.State, e.Ts, e.Tx.String()[:8])
}

type vC27Model struct {
	hist []vC27Entry // chronological (timestamps non-decreasing; equal only among genesis nodes)
}

// view returns the history up to and including threshold and the latest entry
// per signer in that prefix.
func (m *vC27Model) view(threshold uint64) ([]vC27Entry, map[crypto.Key]vC27Entry) {
	var h []vC27Entry
	latest := make(map[crypto.Key]vC27Entry)
	for _, e := range m.hist {
		if e.Ts > threshold {
			continue
		}
		h = append(h, e)
		latest[e.Signer] = e
	}
	return h, latest
}

// allowed decides from the statement whether op(signer,payee) may be recorded now.
func (m *vC27Model) allowed(op string, signer, payee crypto.Key) (bool, string) {
	_, latest := m.view(math.MaxUint64)
	var pledging []vC27Entry
	for _, e := range latest {
		if e.State == common.NodeStatePledging {
			pledging = append(pledging, e)
		}
	}
	switch op {
	case "pledge":
		_, known := latest[signer]
		switch {
		case len(pledging) > 0 && known:
			return false, "another-node-pledging+signer-not-new"
		case len(pledging) > 0:
			return false, "another-node-pledging"
		case known:
			return false, "signer-not-new"
		}
		return true, ""
	case "accept", "cancel":
		if len(pledging) == 0 {
			return false, "no-node-pledging"
		}
		reason := "signer-mismatch"
		for _, p := range pledging {
			if p.Signer == signer && p.Payee == payee {
				return true, ""
			}
			if p.Signer == signer {
				reason = "payee-mismatch"
			}
		}
		return false, reason
	case "remove":
		n, known := latest[signer]
		switch {
		case !known:
			return false, "unknown-signer"
		case n.State != common.NodeStateAccepted:
			return false, "node-is-" + n.State
		case n.Payee != payee:
			return false, "payee-mismatch"
		}
		return true, ""
	}
	panic(op)
}

func vC27StateOf(op string) string {
	switch op {
	case "pledge":
		return common.NodeStatePledging
	case "accept":
		return common.NodeStateAccepted
	case "cancel":
		return common.NodeStateCancelled
	case "remove":
		return common.NodeStateRemoved
	}
	panic(op)
}

func vC27OutputType(op string) uint8 {
	switch op {
	case "pledge":
		return common.OutputTypeNodePledge
	case "accept":
		return common.OutputTypeNodeAccept
	case "cancel":
		return common.OutputTypeNodeCancel
	case "remove":
		return common.OutputTypeNodeRemove
	}
	panic(op)
}

func vC27Less(a, b vC27Entry) bool {
	if a.Ts != b.Ts {
		return a.Ts < b.Ts
	}
	return string(a.Signer[:]) < string(b.Signer[:])
}

func vC27FromNodes(nodes []*common.Node) []vC27Entry {
	res := make([]vC27Entry, len(nodes))
	for i, n := range nodes {
		res[i] = vC27Entry{Signer: n.Signer.PublicSpendKey, Payee: n.Payee.PublicSpendKey, State: n.State, Tx: n.Transaction, Ts: n.Timestamp}
	}
	sort.SliceStable(res, func(i, j int) bool { return vC27Less(res[i], res[j]) })
	return res
}

// vC27Diff compares a reported list with the expected one (both canonically
// sorted); returns "" or a short class and a detail.
func vC27Diff(got, want []vC27Entry) (class, detail string) {
	w := append([]vC27Entry{}, want...)
	sort.SliceStable(w, func(i, j int) bool { return vC27Less(w[i], w[j]) })
	if len(got) != len(w) {
		class = "extra-entries"
		if len(got) < len(w) {
			class = "missing-entries"
		}
		return class, fmt.Sprintf("reported %d entries, expected %d", len(got), len(w))
	}
	for i := range w {
		g, e := got[i], w[i]
		switch {
		case g.Signer != e.Signer:
			return "signer", fmt.Sprintf("entry %d: reported %s, expected %s", i, g, e)
		case g.Ts != e.Ts:
			return "timestamp", fmt.Sprintf("entry %d: reported %s, expected %s", i, g, e)
		case g.State != e.State:
			return "state", fmt.Sprintf("entry %d: reported %s, expected %s", i, g, e)
		case g.Payee != e.Payee:
			return "payee", fmt.Sprintf("entry %d: reported %s, expected %s", i, g, e)
		case g.Tx != e.Tx:
			return "transaction", fmt.Sprintf("entry %d: reported %s, expected %s", i, g, e)
		}
	}
	return "", ""
}

// vC27Invariant checks the statement directly on a reported full history
// (chronological): at most one node pledging at any time, every signer key
// belongs to exactly one node whose entries follow the lifecycle
// [PLEDGING] -> ACCEPTED -> REMOVED or PLEDGING -> CANCELLED, matching payee.
func vC27Invariant(hist []vC27Entry, genesis map[crypto.Key]bool) (class, detail string) {
	last := make(map[crypto.Key]vC27Entry)
	pledging := 0
	for i, e := range hist {
		p, known := last[e.Signer]
		switch e.State {
		case common.NodeStatePledging:
			if known {
				return "signer-key-repeated", fmt.Sprintf("entry %d %s: signer already has a node (%s)", i, e, p)
			}
			if pledging > 0 {
				return "two-nodes-pledging", fmt.Sprintf("entry %d %s recorded while another node is pledging", i, e)
			}
			pledging++
		case common.NodeStateAccepted:
			if !known && genesis[e.Signer] {
				break // genesis node
			}
			if !known || p.State != common.NodeStatePledging || p.Payee != e.Payee {
				return "accept-without-matching-pledge", fmt.Sprintf("entry %d %s, previous entry of this signer: %v (known=%v)", i, e, p, known)
			}
			pledging--
		case common.NodeStateCancelled:
			if !known || p.State != common.NodeStatePledging || p.Payee != e.Payee {
				return "cancel-without-matching-pledge", fmt.Sprintf("entry %d %s, previous entry of this signer: %v (known=%v)", i, e, p, known)
			}
			pledging--
		case common.NodeStateRemoved:
			if !known || p.State != common.NodeStateAccepted || p.Payee != e.Payee {
				return "remove-of-not-accepted-node", fmt.Sprintf("entry %d %s, previous entry of this signer: %v (known=%v)", i, e, p, known)
			}
		default:
			return "unknown-state", fmt.Sprintf("entry %d %s", i, e)
		}
		last[e.Signer] = e
	}
	return "", ""
}

// ---------------------------------------------------------------------------

type vC27History struct {
	r     *verifkit.Run
	idx   int
	rng   *rand.Rand
	sim   *verifledger.Sim
	model *vC27Model

	genesisSigners map[crypto.Key]bool
	next           common.Input // the unspent output the next operation transaction consumes
	nonce          int
	change         common.Address
	freshKeys      int

	trace []map[string]any
}

func (h *vC27History) freshKey() crypto.Key {
	h.freshKeys++
	if h.rng.Intn(5) == 0 { // arbitrary 32 bytes (storage does not require a curve point)
		var k crypto.Key
		h.rng.Read(k[:])
		return k
	}
	return crypto.NewKeyFromSeed(verifgen.Seed64(fmt.Sprintf("%s:fresh:%d", h.sim.Net.Label, h.freshKeys))).Public()
}

func (h *vC27History) pickEntry(filter func(vC27Entry) bool) (vC27Entry, bool) {
	_, latest := h.model.view(math.MaxUint64)
	var cands []vC27Entry
	for _, e := range latest {
		if filter == nil || filter(e) {
			cands = append(cands, e)
		}
	}
	if len(cands) == 0 {
		return vC27Entry{}, false
	}
	sort.Slice(cands, func(i, j int) bool { return vC27Less(cands[i], cands[j]) })
	return cands[h.rng.Intn(len(cands))], true
}

func vC27InState(states ...string) func(vC27Entry) bool {
	return func(e vC27Entry) bool {
		for _, s := range states {
			if e.State == s {
				return true
			}
		}
		return false
	}
}

// choose generates the next operation: kind, keys and the generator's intent.
func (h *vC27History) choose(invalidBias int) (op string, signer, payee crypto.Key, intent string) {
	rng := h.rng
	pl, hasPledging := h.pickEntry(vC27InState(common.NodeStatePledging))
	wantInvalid := rng.Intn(100) < invalidBias
	if !wantInvalid {
		if hasPledging {
			op = "accept"
			if rng.Intn(3) == 0 {
				op = "cancel"
			}
			return op, pl.Signer, pl.Payee, "valid"
		}
		if rng.Intn(10) < 6 {
			payee := h.freshKey()
			switch rng.Intn(8) {
			case 0: // payee keys may repeat: the statement only speaks about signer keys
				if e, ok := h.pickEntry(nil); ok {
					payee = e.Payee
				}
			case 1:
				if e, ok := h.pickEntry(nil); ok {
					payee = e.Signer
				}
			}
			return "pledge", h.freshKey(), payee, "valid"
		}
		if e, ok := h.pickEntry(vC27InState(common.NodeStateAccepted)); ok {
			return "remove", e.Signer, e.Payee, "valid"
		}
		return "pledge", h.freshKey(), h.freshKey(), "valid"
	}

	// hostile choices: any operation with keys of any provenance
	// the pledge that the latest record resolved (accepted or cancelled) is resolved a second time; run() stamps it
	// between the pledge and its resolution
	if n := len(h.model.hist); n >= 2 && rng.Intn(6) == 0 {
		last, prev := h.model.hist[n-1], h.model.hist[n-2]
		if prev.Signer == last.Signer && prev.State == common.NodeStatePledging &&
			(last.State == common.NodeStateAccepted || last.State == common.NodeStateCancelled) {
			return []string{"accept", "cancel"}[rng.Intn(2)], last.Signer, last.Payee, "resolved-pledge-resolved-again"
		}
	}
	op = []string{"pledge", "accept", "cancel", "remove"}[rng.Intn(4)]
	anyOf := func(states ...string) (vC27Entry, bool) {
		if len(states) == 0 {
			return h.pickEntry(nil)
		}
		return h.pickEntry(vC27InState(states...))
	}
	switch op {
	case "pledge":
		if hasPledging && rng.Intn(5) < 2 { // the only thing wrong: another node is pledging
			return op, h.freshKey(), h.freshKey(), "fresh-signer-while-pledging"
		}
		switch rng.Intn(6) {
		case 0: // fresh signer (invalid only while another node is pledging)
			return op, h.freshKey(), h.freshKey(), "fresh-signer"
		case 1:
			if e, ok := anyOf(common.NodeStateAccepted); ok {
				return op, e.Signer, h.freshKey(), "signer-of-accepted-node"
			}
		case 2:
			if e, ok := anyOf(common.NodeStateRemoved); ok {
				return op, e.Signer, h.freshKey(), "signer-of-removed-node"
			}
		case 3:
			if e, ok := anyOf(common.NodeStateCancelled); ok {
				return op, e.Signer, e.Payee, "signer-of-cancelled-node"
			}
		case 4:
			if e, ok := anyOf(common.NodeStatePledging); ok {
				return op, e.Signer, e.Payee, "signer-of-pledging-node"
			}
		}
		if e, ok := anyOf(); ok {
			return op, e.Signer, e.Payee, "signer-of-existing-node"
		}
	case "accept", "cancel":
		switch rng.Intn(7) {
		case 0:
			if hasPledging {
				return op, pl.Signer, h.freshKey(), "pledging-signer-wrong-payee"
			}
		case 1:
			if hasPledging {
				return op, h.freshKey(), pl.Payee, "wrong-signer-pledging-payee"
			}
		case 2:
			if e, ok := anyOf(common.NodeStateAccepted); ok {
				return op, e.Signer, e.Payee, "keys-of-accepted-node"
			}
		case 3:
			if e, ok := anyOf(common.NodeStateRemoved, common.NodeStateCancelled); ok {
				return op, e.Signer, e.Payee, "keys-of-retired-node"
			}
		case 4:
			if hasPledging {
				if e, ok := anyOf(common.NodeStateAccepted); ok {
					return op, pl.Signer, e.Payee, "pledging-signer-other-payee"
				}
			}
		case 5:
			if hasPledging { // swapped roles
				return op, pl.Payee, pl.Signer, "pledging-keys-swapped"
			}
		}
		if hasPledging && rng.Intn(2) == 0 {
			return op, pl.Signer, pl.Payee, "pledging-keys"
		}
		return op, h.freshKey(), h.freshKey(), "fresh-keys"
	case "remove":
		switch rng.Intn(7) {
		case 0:
			if e, ok := anyOf(common.NodeStateAccepted); ok {
				return op, e.Signer, h.freshKey(), "accepted-signer-wrong-payee"
			}
		case 1:
			if e, ok := anyOf(common.NodeStateRemoved); ok {
				return op, e.Signer, e.Payee, "keys-of-removed-node"
			}
		case 2:
			if e, ok := anyOf(common.NodeStateCancelled); ok {
				return op, e.Signer, e.Payee, "keys-of-cancelled-node"
			}
		case 3:
			if e, ok := anyOf(common.NodeStatePledging); ok {
				return op, e.Signer, e.Payee, "keys-of-pledging-node"
			}
		case 4:
			if e, ok := anyOf(common.NodeStateAccepted); ok {
				return op, e.Payee, e.Signer, "accepted-keys-swapped"
			}
		case 5:
			if e, ok := anyOf(common.NodeStateAccepted); ok { // valid unless a pledge is pending
				return op, e.Signer, e.Payee, "keys-of-accepted-node"
			}
		}
		return op, h.freshKey(), h.freshKey(), "fresh-keys"
	}
	return op, h.freshKey(), h.freshKey(), "fresh-keys"
}

// buildTx makes the operation transaction: one input (an unspent output of the
// ledger), the node operation output and a script change output that the next
// operation will consume. The membership keys travel in Extra as in real node
// transactions.
func (h *vC27History) buildTx(op string, signer, payee crypto.Key) *common.VersionedTransaction {
	h.nonce++
	tx := common.NewTransactionV5(common.XINAssetId)
	tx.AddInput(h.next.Hash, h.next.Index)
	amount := common.NewIntegerFromString("13439")
	if op == "cancel" {
		amount = common.NewIntegerFromString("134.39")
	}
	specs := []verifgen.OutSpec{{Type: vC27OutputType(op), Amount: amount}}
	if op == "remove" { // a real removal pays the pledge back to the payee: keyed output
		specs[0] = verifgen.OutSpec{Type: common.OutputTypeNodeRemove, Amount: amount, Owners: []common.Address{h.change}, Threshold: 1,
			Seed: verifgen.Seed64(fmt.Sprintf("%s:remove:%d", h.sim.Net.Label, h.nonce))}
	}
	specs = append(specs, verifgen.OutSpec{Type: common.OutputTypeScript, Amount: common.NewIntegerFromString("1"), Owners: []common.Address{h.change},
		Threshold: 1, Seed: verifgen.Seed64(fmt.Sprintf("%s:change:%d", h.sim.Net.Label, h.nonce))})
	verifgen.AddOutputs(tx, specs)
	tx.Extra = append(append([]byte{}, signer[:]...), payee[:]...)
	if op == "cancel" {
		tx.Extra = append(tx.Extra, h.change.PrivateViewKey[:]...)
	}
	ver := tx.AsVersioned()
	sig := h.change.PrivateSpendKey.Sign(ver.PayloadHash())
	ver.SignaturesMap = []map[uint16]*crypto.Signature{{0: &sig}}
	return ver
}

func (h *vC27History) nextTimestamp() uint64 {
	rng := h.rng
	const hour = uint64(3600 * 1e9)
	var d uint64
	switch rng.Intn(6) {
	case 0:
		d = 1
	case 1:
		d = 1 + uint64(rng.Intn(1000))
	case 2: // around the 12 h windows used inside the store
		d = 12*hour - 2 + uint64(rng.Intn(5))
	case 3:
		d = 1 + uint64(rng.Int63n(int64(24*hour)))
	case 4:
		d = 1 + uint64(rng.Int63n(int64(40*24*hour)))
	default:
		d = 1 + uint64(rng.Int63n(int64(hour)))
	}
	return h.sim.Clock + d
}

// observe compares what the store reports with the model. after describes the
// situation (used in the signature).
func (h *vC27History) observe(after string, witness func() map[string]any) bool {
	r := h.r
	ok := true
	report := func(sig, what string) {
		ok = false
		w := witness()
		w["observation"] = what
		r.Violation(sig, what, w)
	}
	nowChoices := []uint64{math.MaxUint64, h.sim.Clock, h.sim.Clock + uint64(12*3600*1e9)}
	now := nowChoices[h.rng.Intn(len(nowChoices))]

	var full []*common.Node
	panicked, pv, _ := verifkit.Guard(func() { full = h.sim.Store.ReadAllNodes(now, true) })
	if panicked {
		report("C27|ReadAllNodes|panic|"+after, fmt.Sprintf("ReadAllNodes(history) panics after %s: %v", after, pv))
		return false
	}
	r.Count("observations_full_history", 1)
	got := vC27FromNodes(full)
	if class, detail := vC27Diff(got, h.model.hist); class != "" {
		report("C27|history|"+after+"|"+class, fmt.Sprintf("durable membership history differs from the applied operations after %s: %s", after, detail))
	}
	if class, detail := vC27Invariant(got, h.genesisSigners); class != "" {
		report("C27|lifecycle|"+class, "durable membership history breaks the lifecycle: "+detail)
	}

	// latest-state view, now or at a historical threshold
	if h.rng.Intn(5) < 2 {
		th, kind := now, "now"
		if h.rng.Intn(2) == 0 && len(h.model.hist) > 0 {
			e := h.model.hist[h.rng.Intn(len(h.model.hist))]
			switch h.rng.Intn(3) {
			case 0:
				th, kind = e.Ts, "at-entry-time"
			case 1:
				th, kind = e.Ts-1, "before-entry-time"
			default:
				th, kind = e.Ts+1+uint64(h.rng.Intn(1000)), "after-entry-time"
			}
		}
		withState := h.rng.Intn(3) == 0
		var nodes []*common.Node
		panicked, pv, _ := verifkit.Guard(func() { nodes = h.sim.Store.ReadAllNodes(th, withState) })
		if panicked {
			report("C27|ReadAllNodes|panic|"+after, fmt.Sprintf("ReadAllNodes(%s) panics after %s: %v", kind, after, pv))
			return false
		}
		hist, latest := h.model.view(th)
		want := hist
		what := "history"
		if !withState {
			what = "latest-state"
			want = make([]vC27Entry, 0, len(latest))
			for _, e := range latest {
				want = append(want, e)
			}
		}
		r.Count("observations_"+what+"_"+kind, 1)
		if class, detail := vC27Diff(vC27FromNodes(nodes), want); class != "" {
			report("C27|"+what+"|"+kind+"|"+class, fmt.Sprintf("reported %s view (threshold %s) differs from the reference: %s", what, kind, detail))
		}
	}
	return ok
}

func (h *vC27History) resync() {
	// after a reported violation: continue from what the store holds
	var full []*common.Node
	if panicked, _, _ := verifkit.Guard(func() { full = h.sim.Store.ReadAllNodes(math.MaxUint64, true) }); panicked {
		return
	}
	h.model.hist = vC27FromNodes(full)
}

func (h *vC27History) run(nOps, invalidBias int) (applied map[string]int, err error) {
	r := h.r
	applied = map[string]int{}
	store := h.sim.Store
	if !h.observe("genesis", func() map[string]any { return map[string]any{"history": h.idx} }) {
		h.resync()
	}
	for k := 0; k < nOps; k++ {
		op, signer, payee, intent := h.choose(invalidBias)
		ts := h.nextTimestamp()
		allowed, reason := h.model.allowed(op, signer, payee)
		// an operation the lifecycle forbids stays forbidden when it is stamped a little earlier than the latest
		// record (inside the 12 h the store looks ahead): between the two latest records of the history
		backdatedPledge := allowed && op == "pledge" && k > nOps*2/3 && h.rng.Intn(6) == 0
		if n := len(h.model.hist); (!allowed && (intent == "resolved-pledge-resolved-again" || h.rng.Intn(3) == 0) || backdatedPledge) && n >= 2 {
			last, prev := h.model.hist[n-1].Ts, h.model.hist[n-2].Ts
			const lookahead = uint64(12 * 3600 * 1e9)
			if last > prev+1 {
				lo := prev + 1
				if last-lo >= lookahead {
					lo = last - lookahead + 1
				}
				cand := lo + uint64(h.rng.Int63n(int64(last-lo)))
				if allowed {
					// only at an instant at which, by the history up to it, nobody was pledging either
					_, then := h.model.view(cand)
					for _, e := range then {
						if e.State == common.NodeStatePledging {
							cand = 0
						}
					}
				}
				if cand == 0 {
					goto stamped
				}
				ts = cand
				intent += "+stamped-before-the-latest-record"
				if allowed {
					// a pledge of a new signer while nobody is pledging is allowed at such a timestamp too; from then on
					// that node is the pledging one
					r.Count("pledges_of_new_signers_stamped_before_the_latest_record", 1)
				} else {
					r.Count("forbidden_operations_stamped_before_the_latest_record", 1)
				}
			}
		}
	stamped:
		// and a forbidden operation stamped so early that not a single record is visible to it (more than the look-ahead
		// before the oldest record)
		// (not pledges: by timestamp order nobody is pledging that early, see the note on backdated pledges above)
		if n := len(h.model.hist); !allowed && op != "pledge" && n > 0 && !strings.Contains(intent, "stamped-before") && h.rng.Intn(7) == 0 {
			const lookahead = uint64(12 * 3600 * 1e9)
			if first := h.model.hist[0].Ts; first > lookahead+uint64(2e9) {
				ts = first - lookahead - 1 - uint64(h.rng.Int63n(1e9))
				intent += "+stamped-before-every-record"
				r.Count("forbidden_operations_stamped_before_every_record", 1)
			}
		}
		tx := h.buildTx(op, signer, payee)
		parsed, perr := verifgen.Reparse(tx)
		if perr != nil {
			return applied, fmt.Errorf("harness transaction does not re-parse: %v", perr)
		}
		hash := parsed.PayloadHash()
		// the storage finalization path: inputs reserved, body stored, snapshot written
		if err := store.LockUTXOs(parsed.Inputs, hash, true); err != nil {
			return applied, fmt.Errorf("harness: LockUTXOs: %v", err)
		}
		if err := store.WriteTransaction(parsed); err != nil {
			return applied, fmt.Errorf("harness: WriteTransaction: %v", err)
		}
		snap, err := h.sim.BuildSnapshot([]crypto.Hash{hash}, ts)
		if err != nil {
			return applied, fmt.Errorf("harness: BuildSnapshot: %v", err)
		}
		var werr error
		panicked, pv, stack := verifkit.Guard(func() { werr = store.WriteSnapshot(snap, []crypto.Hash{h.sim.Chain}) })
		r.Eval()
		r.Count("op_"+op, 1)
		step := map[string]any{"op": op, "signer": signer.String()[:12], "payee": payee.String()[:12], "ts_delta": int64(ts) - int64(h.sim.Clock),
			"generator_intent": intent, "model_allows": allowed}
		if !allowed {
			step["model_reason"] = reason
		}
		witness := func() map[string]any {
			hist := make([]string, len(h.model.hist))
			for i, e := range h.model.hist {
				hist[i] = e.String()
			}
			return map[string]any{"history": h.idx, "step": k, "operation": step, "genesis_nodes": len(h.sim.Net.Signers),
				"reference_history_before_or_after": hist, "tx": fmt.Sprintf("%x", parsed.Marshal()), "snapshot_time": ts}
		}
		after := ""
		switch {
		case panicked:
			// neither applied nor refused with an error: the history must be untouched
			step["store"] = fmt.Sprintf("panic: %v", pv)
			if strings.Contains(intent, "stamped-before-every-record") {
				// with no record visible the store indexes an empty list: a refusal by stopping, the history stays as it was
				r.Count("operations_stamped_before_every_record_refused_by_a_store_panic", 1)
			} else {
				r.Count("store_panics", 1)
				r.Note("store_panic_site", verifkit.PanicSite(stack))
			}
			after = "panicked-" + op
		case werr != nil:
			step["store"] = "rejected"
			r.Count("rejected_"+op, 1)
			if allowed {
				pend := "no-pledge-pending"
				if _, p := h.pickEntry(vC27InState(common.NodeStatePledging)); p {
					pend = "pledge-pending"
				}
				r.Count("store_stricter_than_statement_"+op+"_"+pend, 1)
			} else {
				r.Count("rejected_"+op+"_"+reason, 1)
			}
			r.Nontrivial("rejected|" + hash.String())
			after = "rejected-" + op
		default:
			step["store"] = "applied"
			h.sim.Topo++
			if ts > h.sim.Clock {
				h.sim.Clock = ts
			}
			h.next = common.Input{Hash: hash, Index: 1}
			if !allowed {
				r.Violation("C27|"+op+"|applied|"+reason,
					fmt.Sprintf("the store recorded a %s that the lifecycle forbids (%s)", op, reason), witness())
				h.resync()
				r.Count("applied_forbidden_"+op, 1)
				h.trace = append(h.trace, step)
				continue
			}
			applied[op]++
			r.Count("applied_"+op, 1)
			r.Nontrivial("applied|" + hash.String())
			ne := vC27Entry{Signer: signer, Payee: payee, State: vC27StateOf(op), Tx: hash, Ts: ts}
			at := len(h.model.hist)
			for at > 0 && h.model.hist[at-1].Ts > ts {
				at--
			}
			h.model.hist = append(h.model.hist[:at], append([]vC27Entry{ne}, h.model.hist[at:]...)...)
			after = "applied-" + op
		}
		if len(h.trace) < 14 {
			h.trace = append(h.trace, step)
		}
		if !h.observe(after, witness) {
			h.resync()
		}
	}
	return applied, nil
}

func vC27RunHistory(r *verifkit.Run, idx int, base string) (map[string]int, error) {
	rng := r.Fork("c27-history", idx)
	dir := filepath.Join(base, fmt.Sprintf("h%d", idx))
	n := 7 + rng.Intn(6)
	sim, err := verifledger.NewSim(fmt.Sprintf("c27-%d-%d", r.Seed, idx), n, 1700000000+int64(rng.Intn(1000000)), dir)
	if err != nil {
		return nil, err
	}
	defer func() {
		sim.Close()
		_ = os.RemoveAll(dir)
	}()
	h := &vC27History{r: r, idx: idx, rng: rng, sim: sim, model: &vC27Model{}, genesisSigners: map[crypto.Key]bool{}}
	h.change = verifgen.Addr(sim.Net.Label + ":change")

	// reference history of the genesis: every genesis node accepted at the epoch
	_, snaps, txs, err := sim.Net.Genesis.BuildSnapshots()
	if err != nil {
		return nil, err
	}
	if len(txs) != n+1 || len(snaps) != n+1 {
		return nil, fmt.Errorf("unexpected genesis shape: %d transactions", len(txs))
	}
	for i := 0; i < n; i++ {
		s, p := sim.Net.Signers[i].PublicSpendKey, sim.Net.Payees[i].PublicSpendKey
		h.genesisSigners[s] = true
		h.model.hist = append(h.model.hist, vC27Entry{Signer: s, Payee: p, State: common.NodeStateAccepted, Tx: txs[i].PayloadHash(), Ts: sim.Net.Epoch})
	}
	// first input: the pledge output of genesis node 0 (a real unspent output)
	h.next = common.Input{Hash: txs[0].PayloadHash(), Index: 0}

	nOps := 30 + rng.Intn(70)
	if r.Thorough() {
		nOps = 50 + rng.Intn(90)
	}
	invalidBias := []int{25, 45, 65}[rng.Intn(3)]
	applied, err := h.run(nOps, invalidBias)
	if idx < 2 {
		r.Sample(map[string]any{"history": idx, "genesis_nodes": n, "operations": nOps, "invalid_bias_percent": invalidBias, "first_steps": h.trace})
	}
	r.Count("histories", 1)
	r.Count("history_entries_total", len(h.model.hist))
	return applied, err
}

// TestVerif_C27: membership follows the pledge/accept/cancel/remove lifecycle.
func TestVerif_C27(t *testing.T) {
	r := verifkit.Start(t, "C27", "exploration")
	r.SetRule("independent histories, each on a fresh BadgerStore with its own genesis (7..12 nodes): 30..99 (thorough 50..139) node operations (pledge/accept/cancel/remove) with keys drawn from " +
		"fresh keys and from the signer/payee keys of pledging, accepted, removed and cancelled nodes, 25..65 % generated hostile; each operation is a structurally real " +
		"transaction (keys in Extra, typed output) finalized through LockUTXOs+WriteTransaction+WriteSnapshot at strictly increasing snapshot times (1 ns .. 40 days apart); " +
		"after every operation ReadAllNodes is compared with a reference state machine written from the statement, plus lifecycle invariants on the reported history; " +
		"non-trivial = distinct operation transactions that were applied, or refused and verified to leave the history unchanged")
	r.Assume("operations the lifecycle allows reach the store at strictly increasing snapshot timestamps, one operation per snapshot (what C28 guarantees); forbidden operations are also offered with a timestamp between the two latest records, inside the store's 12 h look-ahead")
	r.Assume("operation transactions are structurally well-formed (64/96-byte Extra, typed first output) but are not run through common.Validate: the durable checks of storage/badger_node.go are the code under observation")
	r.Assume("the statement forbids transitions ('only'); operations the store refuses although the statement would allow them (removal while a pledge is pending) are counted, not flagged")

	nh := r.N(36, 500)
	workers := 6
	base := t.TempDir()
	var mu sync.Mutex
	total := map[string]int{}
	var firstErr error
	jobs := make(chan int)
	var wg sync.WaitGroup
	for w := 0; w < workers; w++ {
		wg.Add(1)
		go func() {
			defer wg.Done()
			for idx := range jobs {
				applied, err := vC27RunHistory(r, idx, base)
				mu.Lock()
				for k, v := range applied {
					total[k] += v
				}
				if err != nil && firstErr == nil {
					firstErr = fmt.Errorf("history %d: %v", idx, err)
				}
				mu.Unlock()
			}
		}()
	}
	for i := 0; i < nh; i++ {
		jobs <- i
	}
	close(jobs)
	wg.Wait()

	if firstErr != nil {
		r.Inconclusive("harness error: " + firstErr.Error())
	}
	for _, op := range []string{"pledge", "accept", "cancel", "remove"} {
		if total[op] < 20 {
			r.Inconclusive(fmt.Sprintf("only %d applied %s operations were observed", total[op], op))
		}
	}
	if r.Counter("rejected_pledge")+r.Counter("rejected_accept")+r.Counter("rejected_cancel")+r.Counter("rejected_remove") < 100 {
		r.Inconclusive("fewer than 100 refused operations were observed")
	}
	if n := r.Counter("store_panics"); n > 0 {
		r.Inconclusive(fmt.Sprintf("%d WriteSnapshot calls panicked instead of returning a decision", n))
	}
	r.Finish()
}
