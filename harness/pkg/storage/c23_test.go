package storage_test

import (
	"crypto/sha256"
	"encoding/hex"
	"errors"
	"fmt"
	"math/rand"
	"runtime"
	"sort"
	"strings"
	"sync"
	"sync/atomic"
	"testing"
	"time"

	"github.com/MixinNetwork/mixin/common"
	"github.com/MixinNetwork/mixin/crypto"
	"github.com/MixinNetwork/mixin/storage"
	"github.com/MixinNetwork/mixin/verifkit"
	"github.com/MixinNetwork/mixin/verifledger"
	"github.com/anishathalye/porcupine"
	"github.com/dgraph-io/badger/v4"
)

// C23: only queueing makes a cached transaction eligible for proposal.
//
// Black-box on CacheQueueTransaction / CacheStoreTransaction /
// CacheRetrieveTransactions / CacheRemoveTransactions / CacheGetTransaction.
//
// The oracle is a small sequential specification that demands exactly the
// clauses of the statement and nothing about how the store orders or
// de-duplicates tickets. Per payload hash it keeps
//   U  queue calls that no retrieval has returned yet (upper bound: a retrieval
//      may return a transaction only while U >= 1; storing never raises U),
//   M  "must be eligible": queued, and since then neither returned nor removed
//      (lower bound: a retrieval that returns fewer than its limit must
//      contain every such transaction),
//   P/Cand/Known  body present, the signed versions written since the last
//      removal, and the version last observed while nothing could change it
//      (retrieval keeps the body, removal deletes it).
// Sequential histories are stepped through this specification call by call;
// concurrent histories are checked for linearizability against the same
// specification with porcupine. badger.ErrConflict results mean "no effect".

const vC23K = 6 // payloads per episode (upper bound)

const (
	vC23OpQueue = iota
	vC23OpStore
	vC23OpRetrieve
	vC23OpRemove
	vC23OpGet
)

var vC23OpNames = []string{"queue", "store", "retrieve", "remove", "get"}

const (
	vC23ClElig    = 1 << iota // returned although no queueing is left unreturned
	vC23ClLimit               // more than the requested limit
	vC23ClDup                 // same transaction twice in one retrieval
	vC23ClMust                // queued transaction not returned although the retrieval had room
	vC23ClLost                // stored body missing
	vC23ClChanged             // stored body changed without a write
	vC23ClRemoved             // body present although removed / never written
	vC23ClVersion             // body is not a version written since the last removal
)

var vC23ClauseNames = map[uint]string{
	vC23ClElig:    "transaction returned without an unreturned queueing (only stored, or one queueing returned twice)",
	vC23ClLimit:   "retrieval returned more than the requested limit",
	vC23ClDup:     "retrieval returned one transaction twice",
	vC23ClMust:    "queued transaction not returned by a retrieval that had room left",
	vC23ClLost:    "stored body missing",
	vC23ClChanged: "stored body changed without a write",
	vC23ClRemoved: "body present after removal",
	vC23ClVersion: "body is not a version written since the last removal",
}

var vC23ClauseOrder = []uint{vC23ClElig, vC23ClLimit, vC23ClDup, vC23ClMust, vC23ClLost, vC23ClChanged, vC23ClRemoved, vC23ClVersion}

type vC23State struct {
	U     [vC23K]int16
	M     [vC23K]bool
	P     [vC23K]bool
	Cand  [vC23K]uint8
	Known [vC23K]int8
	// Ret: the body was last touched by a retrieval that returned it (only used
	// to name the clause "retrieval keeps the stored body" in a signature)
	Ret [vC23K]bool
}

func vC23Init() vC23State {
	var s vC23State
	for i := range s.Known {
		s.Known[i] = -1
	}
	return s
}

type vC23KV struct {
	Key int // -1: bytes that no client ever wrote
	Ver int
}

type vC23In struct {
	Op    int
	Key   int
	Ver   int
	Limit int
	Keys  []int
	// Strict: no other call overlaps this retrieval (always true in sequential
	// histories). Only then "had room left" implies "saw every queued
	// transaction": a retrieval works on the snapshot taken when it starts and
	// may miss a transaction queued while it runs without breaking the property.
	Strict bool
}

type vC23Out struct {
	Conflict bool
	Present  bool
	Ver      int
	Got      []vC23KV
}

func (in *vC23In) String() string {
	switch in.Op {
	case vC23OpQueue, vC23OpStore:
		return fmt.Sprintf("%s(k%d/v%d)", vC23OpNames[in.Op], in.Key, in.Ver)
	case vC23OpRetrieve:
		if !in.Strict {
			return fmt.Sprintf("retrieve(limit=%d,overlapped)", in.Limit)
		}
		return fmt.Sprintf("retrieve(limit=%d)", in.Limit)
	case vC23OpRemove:
		return fmt.Sprintf("remove(%v)", in.Keys)
	}
	return fmt.Sprintf("get(k%d)", in.Key)
}

func (out *vC23Out) String(in *vC23In) string {
	if out.Conflict {
		return "conflict(no effect)"
	}
	switch in.Op {
	case vC23OpRetrieve:
		var p []string
		for _, g := range out.Got {
			p = append(p, fmt.Sprintf("k%d/v%d", g.Key, g.Ver))
		}
		return "[" + strings.Join(p, " ") + "]"
	case vC23OpGet:
		if !out.Present {
			return "nil"
		}
		return fmt.Sprintf("v%d", out.Ver)
	}
	return "ok"
}

// vC23Step is the sequential specification. off disables clauses (used only to
// name the clause a non-linearizable history breaks).
func vC23Step(s vC23State, in *vC23In, out *vC23Out, off uint) (bool, vC23State, uint) {
	if out.Conflict {
		return true, s, 0
	}
	fail := func(c uint) bool { return off&c == 0 }
	write := func(k, v int) {
		if !s.P[k] {
			s.Cand[k] = 0
		}
		s.P[k] = true
		s.Cand[k] |= 1 << uint(v)
		if int(s.Known[k]) != v {
			s.Known[k] = -1
		}
		s.Ret[k] = false
	}
	observe := func(k, v int) uint {
		if !s.P[k] {
			if fail(vC23ClRemoved) {
				return vC23ClRemoved
			}
			s.P[k] = true
			s.Cand[k] = 0
		}
		if s.Cand[k]&(1<<uint(v)) == 0 {
			if fail(vC23ClVersion) {
				return vC23ClVersion
			}
			s.Cand[k] |= 1 << uint(v)
		}
		if s.Known[k] >= 0 && int(s.Known[k]) != v {
			if fail(vC23ClChanged) {
				return vC23ClChanged
			}
		}
		s.Known[k] = int8(v)
		return 0
	}
	switch in.Op {
	case vC23OpQueue:
		if s.U[in.Key] < 30000 {
			s.U[in.Key]++
		}
		s.M[in.Key] = true
		write(in.Key, in.Ver)
	case vC23OpStore:
		write(in.Key, in.Ver)
	case vC23OpRemove:
		for _, k := range in.Keys {
			s.P[k] = false
			s.Cand[k] = 0
			s.Known[k] = -1
			s.M[k] = false
			s.Ret[k] = false
		}
	case vC23OpGet:
		k := in.Key
		if !out.Present {
			if s.P[k] {
				if fail(vC23ClLost) {
					return false, s, vC23ClLost
				}
				s.P[k] = false
				s.Cand[k] = 0
				s.Known[k] = -1
			}
			return true, s, 0
		}
		if out.Ver < 0 {
			if fail(vC23ClVersion) {
				return false, s, vC23ClVersion
			}
			return true, s, 0
		}
		if c := observe(k, out.Ver); c != 0 {
			return false, s, c
		}
	case vC23OpRetrieve:
		if len(out.Got) > in.Limit && fail(vC23ClLimit) {
			return false, s, vC23ClLimit
		}
		var seen [vC23K]bool
		for _, g := range out.Got {
			if g.Key < 0 || g.Ver < 0 {
				if fail(vC23ClVersion) {
					return false, s, vC23ClVersion
				}
				if g.Key < 0 {
					continue
				}
			}
			k := g.Key
			if seen[k] && fail(vC23ClDup) {
				return false, s, vC23ClDup
			}
			seen[k] = true
			if s.U[k] < 1 {
				if fail(vC23ClElig) {
					return false, s, vC23ClElig
				}
			} else {
				s.U[k]--
			}
			s.M[k] = false
			if g.Ver >= 0 {
				if c := observe(k, g.Ver); c != 0 {
					return false, s, c
				}
			}
			s.Ret[k] = true
		}
		if len(out.Got) < in.Limit && in.Strict {
			for k := 0; k < vC23K; k++ {
				if s.M[k] && !seen[k] {
					if fail(vC23ClMust) {
						return false, s, vC23ClMust
					}
					s.M[k] = false
				}
			}
		}
	}
	return true, s, 0
}

func vC23Model(off uint) porcupine.Model {
	return porcupine.Model{
		Init: func() interface{} { return vC23Init() },
		Step: func(state, input, output interface{}) (bool, interface{}) {
			ok, next, _ := vC23Step(state.(vC23State), input.(*vC23In), output.(*vC23Out), off)
			return ok, next
		},
		Equal: func(a, b interface{}) bool { return a.(vC23State) == b.(vC23State) },
		DescribeOperation: func(input, output interface{}) string {
			return input.(*vC23In).String() + " -> " + output.(*vC23Out).String(input.(*vC23In))
		},
	}
}

// vC23Keys is the set of payloads of one episode with their signed versions.
type vC23Keys struct {
	label  string
	k, v   int
	hashes []crypto.Hash
	byRaw  map[string]vC23KV
}

// vC23Tx builds version ver of payload key: the payload (one input, extra) is
// the same for all versions, the signature differs.
func vC23Tx(label string, key, ver int) *common.VersionedTransaction {
	tx := common.NewTransactionV5(common.XINAssetId)
	tx.AddInput(crypto.Blake3Hash([]byte(fmt.Sprintf("c23-in:%s:%d", label, key))), uint(key))
	tx.Extra = []byte(fmt.Sprintf("c23:%s:%d", label, key))
	vt := tx.AsVersioned()
	h := crypto.Blake3Hash([]byte(fmt.Sprintf("c23-sig:%s:%d:%d", label, key, ver)))
	var sig crypto.Signature
	copy(sig[:32], h[:])
	copy(sig[32:], h[:])
	vt.SignaturesMap = []map[uint16]*crypto.Signature{{0: &sig}}
	return vt
}

func vC23NewKeys(label string, k, v int) (*vC23Keys, error) {
	ks := &vC23Keys{label: label, k: k, v: v, byRaw: make(map[string]vC23KV)}
	for i := 0; i < k; i++ {
		var h crypto.Hash
		for j := 0; j < v; j++ {
			tx := vC23Tx(label, i, j)
			raw := tx.Marshal()
			back, err := common.UnmarshalVersionedTransaction(raw)
			if err != nil {
				return nil, fmt.Errorf("generated transaction does not decode: %v", err)
			}
			if string(back.Marshal()) != string(raw) {
				return nil, fmt.Errorf("generated transaction does not round-trip")
			}
			if j == 0 {
				h = tx.PayloadHash()
			} else if tx.PayloadHash() != h {
				return nil, fmt.Errorf("versions of one payload hash differently")
			}
			if _, dup := ks.byRaw[string(raw)]; dup {
				return nil, fmt.Errorf("two versions encode identically")
			}
			ks.byRaw[string(raw)] = vC23KV{Key: i, Ver: j}
		}
		ks.hashes = append(ks.hashes, h)
	}
	return ks, nil
}

func (ks *vC23Keys) identify(tx *common.VersionedTransaction) vC23KV {
	if kv, ok := ks.byRaw[string(tx.Marshal())]; ok {
		return kv
	}
	h := tx.PayloadHash()
	for i, x := range ks.hashes {
		if x == h {
			return vC23KV{Key: i, Ver: -1}
		}
	}
	return vC23KV{Key: -1, Ver: -1}
}

type vC23Err struct {
	panicVal  any
	panicSite string
	err       error
}

// vC23Call performs one API call and translates the result.
func vC23Call(st *storage.BadgerStore, ks *vC23Keys, in *vC23In) (*vC23Out, *vC23Err) {
	out := &vC23Out{}
	var err error
	panicked, val, stack := verifkit.Guard(func() {
		switch in.Op {
		case vC23OpQueue:
			err = st.CacheQueueTransaction(vC23Tx(ks.label, in.Key, in.Ver))
		case vC23OpStore:
			err = st.CacheStoreTransaction(vC23Tx(ks.label, in.Key, in.Ver))
		case vC23OpRemove:
			hs := make([]crypto.Hash, 0, len(in.Keys))
			for _, k := range in.Keys {
				hs = append(hs, ks.hashes[k])
			}
			err = st.CacheRemoveTransactions(hs)
		case vC23OpGet:
			var tx *common.VersionedTransaction
			tx, err = st.CacheGetTransaction(ks.hashes[in.Key])
			if err == nil && tx != nil {
				kv := ks.identify(tx)
				out.Present = true
				out.Ver = kv.Ver
				if kv.Key != in.Key {
					out.Ver = -1
				}
			}
		case vC23OpRetrieve:
			var txs []*common.VersionedTransaction
			txs, err = st.CacheRetrieveTransactions(in.Limit)
			if err == nil {
				for _, tx := range txs {
					out.Got = append(out.Got, ks.identify(tx))
				}
			}
		}
	})
	if panicked {
		return nil, &vC23Err{panicVal: val, panicSite: verifkit.PanicSite(stack)}
	}
	if errors.Is(err, badger.ErrConflict) {
		return &vC23Out{Conflict: true}, nil
	}
	if err != nil {
		return nil, &vC23Err{err: err}
	}
	return out, nil
}

// vC23Plan generates one random operation over k keys / v versions.
func vC23Plan(rng *rand.Rand, k, v int) *vC23In {
	c := rng.Intn(100)
	switch {
	case c < 30:
		return &vC23In{Op: vC23OpQueue, Key: rng.Intn(k), Ver: rng.Intn(v)}
	case c < 45:
		return &vC23In{Op: vC23OpStore, Key: rng.Intn(k), Ver: rng.Intn(v)}
	case c < 67:
		lim := 0
		switch d := rng.Intn(10); {
		case d < 1:
			lim = 0
		case d < 6:
			lim = 1 + rng.Intn(2)
		case d < 9:
			lim = 1 + rng.Intn(k+1)
		default:
			lim = k + 1 + rng.Intn(500)
		}
		return &vC23In{Op: vC23OpRetrieve, Limit: lim}
	case c < 79:
		n := 1 + rng.Intn(2)
		if rng.Intn(6) == 0 {
			n = 1 + rng.Intn(k)
		}
		perm := rng.Perm(k)
		if n > k {
			n = k
		}
		keys := append([]int{}, perm[:n]...)
		if rng.Intn(8) == 0 {
			keys = append(keys, keys[0]) // the same hash twice in one removal
		}
		return &vC23In{Op: vC23OpRemove, Keys: keys}
	}
	return &vC23In{Op: vC23OpGet, Key: rng.Intn(k)}
}

type vC23Rec struct {
	Client int    `json:"client"`
	Call   int64  `json:"call"`
	Ret    int64  `json:"return"`
	Op     string `json:"op"`
	Result string `json:"result"`
}

type vC23Lane struct {
	idx   int
	dir   string
	store *storage.BadgerStore
}

func vC23Open(dir string) (*storage.BadgerStore, error) {
	signer := crypto.NewKeyFromSeed(make([]byte, 64))
	return storage.NewBadgerStore(verifledger.NewCustom(signer), dir)
}

// vC23Purge empties the queue and deletes the bodies of an episode without
// checking anything (used after a violation so that later episodes start from
// a clean queue).
func vC23Purge(st *storage.BadgerStore, ks *vC23Keys) {
	verifkit.Guard(func() {
		for i := 0; i < 50; i++ {
			txs, err := st.CacheRetrieveTransactions(10000)
			if err == nil && len(txs) == 0 {
				break
			}
		}
		_ = st.CacheRemoveTransactions(ks.hashes)
	})
}

func vC23Digest(recs []vC23Rec, withTicks bool) string {
	h := sha256.New()
	for _, rc := range recs {
		if withTicks {
			fmt.Fprintf(h, "%d|%d|%d|", rc.Client, rc.Call, rc.Ret)
		}
		fmt.Fprintf(h, "%s|%s\n", rc.Op, rc.Result)
	}
	return hex.EncodeToString(h.Sum(nil)[:12])
}

// vC23Sequential runs one sequential episode and steps the specification after
// every call.
func vC23Sequential(r *verifkit.Run, st *storage.BadgerStore, rng *rand.Rand, label string) (fatal bool) {
	k := 2 + rng.Intn(vC23K-1)
	v := 1 + rng.Intn(3)
	ks, err := vC23NewKeys(label, k, v)
	if err != nil {
		r.Inconclusive("generator: " + err.Error())
		return true
	}
	n := 15 + rng.Intn(50)
	var plan []*vC23In
	for i := 0; i < n; i++ {
		plan = append(plan, vC23Plan(rng, k, v))
	}
	// closing observations: everything that is still owed must come out, bodies
	// survive the retrieval, removal deletes them, nothing comes out afterwards
	all := make([]int, k)
	for i := range all {
		all[i] = i
	}
	plan = append(plan, &vC23In{Op: vC23OpRetrieve, Limit: k + 1 + rng.Intn(3)})
	for i := 0; i < k; i++ {
		plan = append(plan, &vC23In{Op: vC23OpGet, Key: i})
	}
	plan = append(plan, &vC23In{Op: vC23OpRemove, Keys: all})
	for i := 0; i < k; i++ {
		plan = append(plan, &vC23In{Op: vC23OpGet, Key: i})
	}
	plan = append(plan, &vC23In{Op: vC23OpRetrieve, Limit: k + 1})

	for _, in := range plan {
		in.Strict = true
	}
	s := vC23Init()
	var recs []vC23Rec
	returnedOnce := make([]bool, k)
	requeued := make([]bool, k)
	nonEmpty, again := 0, 0
	for i, in := range plan {
		out, cerr := vC23Call(st, ks, in)
		r.Count("seq_"+vC23OpNames[in.Op], 1)
		if cerr != nil {
			if cerr.err != nil {
				r.Inconclusive(fmt.Sprintf("sequential %s returned an unexpected error: %v", vC23OpNames[in.Op], cerr.err))
				return true
			}
			recs = append(recs, vC23Rec{Op: in.String(), Result: fmt.Sprintf("panic: %v", cerr.panicVal)})
			r.Violation("C23|panic "+cerr.panicSite+"|sequential "+vC23OpNames[in.Op],
				fmt.Sprintf("%s panicked in a sequential history: %v", vC23OpNames[in.Op], cerr.panicVal),
				map[string]any{"keys": k, "versions": v, "history": recs})
			vC23Purge(st, ks)
			return false
		}
		if out.Conflict {
			r.Count("seq_conflicts", 1)
		}
		recs = append(recs, vC23Rec{Call: int64(2 * i), Ret: int64(2*i + 1), Op: in.String(), Result: out.String(in)})
		ok, next, clause := vC23Step(s, in, out, 0)
		if !ok {
			name := vC23ClauseNames[clause]
			if clause == vC23ClLost && s.Ret[in.Key] {
				name = "stored body missing after a retrieval returned it"
			}
			r.Violation("C23|seq|"+vC23OpNames[in.Op]+"|"+name,
				fmt.Sprintf("sequential history, call %d %s -> %s: %s", i, in.String(), out.String(in), name),
				map[string]any{"keys": k, "versions": v, "history": recs, "spec_state_before": fmt.Sprintf("%+v", s)})
			vC23Purge(st, ks)
			return false
		}
		s = next
		switch in.Op {
		case vC23OpQueue:
			if returnedOnce[in.Key] {
				requeued[in.Key] = true
			}
		case vC23OpRetrieve:
			if len(out.Got) > 0 {
				nonEmpty++
			}
			if len(out.Got) == in.Limit && in.Limit > 0 {
				r.Count("seq_retrievals_cut_by_limit", 1)
			}
			r.Count("seq_transactions_returned", len(out.Got))
			for _, g := range out.Got {
				if g.Key >= 0 {
					if requeued[g.Key] {
						again++
						requeued[g.Key] = false
					}
					returnedOnce[g.Key] = true
				}
			}
		}
	}
	r.Eval()
	r.Count("seq_ops", len(plan))
	r.Count("seq_returned_again_after_requeue", again)
	if nonEmpty > 0 {
		r.Nontrivial("s" + vC23Digest(recs, false))
	}
	if r.SampleCount() < 2 && nonEmpty > 1 && again > 0 {
		r.Sample(map[string]any{"kind": "sequential", "keys": k, "versions": v, "history": recs})
	}
	return false
}

type vC23ConcStats struct {
	ok, illegal, unknown int64
}

// vC23Concurrent runs one concurrent episode on a lane and checks the recorded
// history with porcupine.
func vC23Concurrent(r *verifkit.Run, lane *vC23Lane, rng *rand.Rand, label string, stats *vC23ConcStats) (fatal bool) {
	st := lane.store
	k := 1 + rng.Intn(4)
	v := 1 + rng.Intn(2)
	ks, err := vC23NewKeys(label, k, v)
	if err != nil {
		r.Inconclusive("generator: " + err.Error())
		return true
	}
	g := 2 + rng.Intn(3)
	if rng.Intn(5) == 0 {
		g = 5 + rng.Intn(4)
	}
	type clientPlan struct {
		ops    []*vC23In
		pauses []int
	}
	plans := make([]clientPlan, g)
	for c := 0; c < g; c++ {
		n := 2 + rng.Intn(6)
		if g > 4 {
			n = 2 + rng.Intn(3)
		}
		for i := 0; i < n; i++ {
			plans[c].ops = append(plans[c].ops, vC23Plan(rng, k, v))
			plans[c].pauses = append(plans[c].pauses, rng.Intn(6))
		}
	}

	var tick atomic.Int64
	var mu sync.Mutex
	var ops []porcupine.Operation
	var firstErr *vC23Err
	var errOp string
	record := func(client int, in *vC23In, out *vC23Out, call, ret int64) {
		mu.Lock()
		ops = append(ops, porcupine.Operation{ClientId: client, Input: in, Call: call, Output: out, Return: ret})
		mu.Unlock()
	}
	// history builds the readable form of the recorded calls (ordered by call tick)
	history := func() []vC23Rec {
		mu.Lock()
		defer mu.Unlock()
		recs := make([]vC23Rec, 0, len(ops))
		for _, op := range ops {
			in, out := op.Input.(*vC23In), op.Output.(*vC23Out)
			recs = append(recs, vC23Rec{Client: op.ClientId, Call: op.Call, Ret: op.Return, Op: in.String(), Result: out.String(in)})
		}
		sort.Slice(recs, func(a, b int) bool { return recs[a].Call < recs[b].Call })
		return recs
	}
	start := make(chan struct{})
	var wg sync.WaitGroup
	for c := 0; c < g; c++ {
		wg.Add(1)
		go func(c int) {
			defer wg.Done()
			<-start
			for i, in := range plans[c].ops {
				switch plans[c].pauses[i] {
				case 0, 1:
					runtime.Gosched()
				case 2:
					time.Sleep(time.Duration(20*(c+1)) * time.Microsecond)
				}
				call := tick.Add(1)
				out, cerr := vC23Call(st, ks, in)
				ret := tick.Add(1)
				if cerr != nil {
					mu.Lock()
					if firstErr == nil {
						firstErr, errOp = cerr, in.String()
					}
					mu.Unlock()
					return
				}
				record(c, in, out, call, ret)
			}
		}(c)
	}
	close(start)
	wg.Wait()
	if firstErr != nil {
		if firstErr.err != nil {
			r.Inconclusive(fmt.Sprintf("concurrent %s returned an unexpected error: %v", errOp, firstErr.err))
			return true
		}
		r.Violation("C23|panic "+firstErr.panicSite+"|concurrent history",
			fmt.Sprintf("%s panicked in a concurrent history: %v", errOp, firstErr.panicVal),
			map[string]any{"keys": k, "versions": v, "clients": g, "history": history()})
		vC23Purge(st, ks)
		return false
	}
	// closing observations by one client after all others have returned
	all := make([]int, k)
	for i := range all {
		all[i] = i
	}
	closing := []*vC23In{{Op: vC23OpRetrieve, Limit: k + 1}}
	for i := 0; i < k; i++ {
		closing = append(closing, &vC23In{Op: vC23OpGet, Key: i})
	}
	closing = append(closing, &vC23In{Op: vC23OpRemove, Keys: all})
	for i := 0; i < k; i++ {
		closing = append(closing, &vC23In{Op: vC23OpGet, Key: i})
	}
	closing = append(closing, &vC23In{Op: vC23OpRetrieve, Limit: k + 1})
	for _, in := range closing {
		call := tick.Add(1)
		out, cerr := vC23Call(st, ks, in)
		ret := tick.Add(1)
		if cerr != nil {
			if cerr.err != nil {
				r.Inconclusive(fmt.Sprintf("closing %s returned an unexpected error: %v", in.String(), cerr.err))
				return true
			}
			r.Violation("C23|panic "+cerr.panicSite+"|concurrent history",
				fmt.Sprintf("%s panicked after a concurrent history: %v", in.String(), cerr.panicVal),
				map[string]any{"keys": k, "versions": v, "clients": g, "history": history()})
			vC23Purge(st, ks)
			return false
		}
		record(g, in, out, call, ret)
	}

	// what was observed; a retrieval that no other call overlaps is strict
	overlaps, conflicts, returned := 0, 0, 0
	for i := range ops {
		if ops[i].Output.(*vC23Out).Conflict {
			conflicts++
		}
		returned += len(ops[i].Output.(*vC23Out).Got)
		alone := true
		for j := range ops {
			if i != j && ops[i].Call < ops[j].Return && ops[j].Call < ops[i].Return {
				alone = false
				if j > i && ops[i].ClientId != ops[j].ClientId {
					overlaps++
				}
			}
		}
		if in := ops[i].Input.(*vC23In); in.Op == vC23OpRetrieve {
			in.Strict = alone
			if !alone {
				r.Count("conc_retrievals_overlapped", 1)
			}
		}
	}
	recs := history()
	for _, op := range ops {
		r.Count("conc_"+vC23OpNames[op.Input.(*vC23In).Op], 1)
	}
	r.Count("conc_ops", len(ops))
	r.Count("conc_overlapping_call_pairs", overlaps)
	r.Count("conc_badger_conflicts_no_effect", conflicts)
	r.Count("conc_transactions_returned", returned)
	r.Eval()

	res := porcupine.CheckOperationsTimeout(vC23Model(0), ops, 30*time.Second)
	switch res {
	case porcupine.Ok:
		atomic.AddInt64(&stats.ok, 1)
		if overlaps > 0 && returned > 0 {
			r.Nontrivial("c" + vC23Digest(recs, true))
		}
		if overlaps > 2 && returned > 1 && conflicts > 0 && r.SampleCount() < 6 {
			r.Sample(map[string]any{"kind": "concurrent", "keys": k, "versions": v, "clients": g, "history": recs})
		}
	case porcupine.Unknown:
		atomic.AddInt64(&stats.unknown, 1)
	case porcupine.Illegal:
		atomic.AddInt64(&stats.illegal, 1)
		// name the clause: the first single clause whose removal makes the history linearizable
		name := "no single clause explains it"
		for _, c := range vC23ClauseOrder {
			if porcupine.CheckOperationsTimeout(vC23Model(c), ops, 30*time.Second) == porcupine.Ok {
				name = vC23ClauseNames[c]
				break
			}
		}
		r.Violation("C23|conc|not linearizable|"+name,
			fmt.Sprintf("concurrent history of %d calls by %d clients over %d payloads has no linearization that satisfies the scheduling contract: %s", len(ops), g, k, name),
			map[string]any{"keys": k, "versions": v, "clients": g, "history": history()})
		vC23Purge(st, ks)
	}
	return false
}

func TestVerif_C23(t *testing.T) {
	r := verifkit.Start(t, "C23", "exploration")
	r.SetRule("seeded episodes on real BadgerStores, each over fresh payloads (1-6 payloads, 1-3 differently signed bodies per payload): random queue / store / retrieve (limits 0, 1-2, up to all, far above) / " +
		"remove (also never-written and repeated hashes) / get calls, closed by retrieve-all, get, remove-all, get, retrieve. Sequential episodes are stepped call by call through a specification that holds exactly the clauses of " +
		"the statement (queue calls not yet returned as upper bound, queued-and-not-returned-or-removed as lower bound when the retrieval had room, body presence/version); concurrent episodes (2-8 clients released by a barrier, " +
		"call/return ticks from one atomic counter, 6 independent stores in parallel) are checked for linearizability against the same specification with porcupine in a -race build. evaluations = episodes; " +
		"non-trivial = distinct histories (by content; concurrent ones also by tick order) in which a retrieval returned something and, for concurrent ones, calls of different clients overlapped")
	r.Assume("badger.ErrConflict results (after the store's own retries) leave no effect; such calls are kept in the history as no-ops")
	r.Assume("cache TTL is 24 h, so Badger expiry cannot remove records during a run")
	r.Assume("queue tickets are keyed by time.Now().UnixNano(); the specification does not depend on ticket order or on how many tickets exist, only on the counts the statement names")
	r.Assume("porcupine v1.3.0 decides linearizability of the recorded call/return intervals; the Go race detector reports are scanned by the runner for frames in storage/badger_cache.go")
	r.SetFloor(50)

	base := t.TempDir()

	// Both parts run on several independent stores in parallel ("lanes"); every
	// lane is a pure function of the seed. A lane moves to a fresh store every
	// 50 episodes: consumed tickets stay behind as Badger tombstones that every
	// later retrieval has to skip, which only costs time.
	var stats vC23ConcStats
	var stop atomic.Bool
	runLanes := func(kind string, lanes, episodes int, episode func(lane *vC23Lane, lrng *rand.Rand, label string) bool) {
		var wg sync.WaitGroup
		seenBefore := r.Counter("violation_observations") // a broken store floods: a few dozen refuting episodes per part are enough
		for l := 0; l < lanes; l++ {
			lane := &vC23Lane{idx: l}
			lrng := r.Fork("c23-"+kind, l)
			wg.Add(1)
			go func(l int) {
				defer wg.Done()
				defer func() {
					if lane.store != nil {
						_ = lane.store.Close()
					}
				}()
				done := 0
				for i := l; i < episodes && !stop.Load() && r.Violations() < 8 && r.Counter("violation_observations")-seenBefore < 24; i += lanes {
					if done%50 == 0 {
						if lane.store != nil {
							_ = lane.store.Close()
						}
						lane.dir = fmt.Sprintf("%s/%s-%d-%d", base, kind, l, done/50)
						ls, err := vC23Open(lane.dir)
						if err != nil {
							r.Inconclusive(fmt.Sprintf("open store: %v", err))
							stop.Store(true)
							return
						}
						lane.store = ls
						r.Count("stores_opened", 1)
					}
					done++
					if episode(lane, lrng, fmt.Sprintf("%s%d:%d", kind, r.Seed, i)) {
						stop.Store(true)
					}
				}
			}(l)
		}
		wg.Wait()
	}

	// ---- sequential part
	t0 := time.Now()
	runLanes("s", 6, r.N(1000, 16000), func(lane *vC23Lane, lrng *rand.Rand, label string) bool {
		return vC23Sequential(r, lane.store, lrng, label)
	})
	r.Note("sequential_part_wall_s", time.Since(t0).Seconds())

	// ---- concurrent part
	t0 = time.Now()
	runLanes("c", 6, r.N(1000, 20000), func(lane *vC23Lane, lrng *rand.Rand, label string) bool {
		return vC23Concurrent(r, lane, lrng, label, &stats)
	})
	r.Note("concurrent_part_wall_s", time.Since(t0).Seconds())

	r.Count("conc_histories_linearizable", int(stats.ok))
	r.Count("conc_histories_not_linearizable", int(stats.illegal))
	r.Count("conc_histories_checker_timeout", int(stats.unknown))
	if stats.unknown > 0 && stats.unknown*100 > stats.ok {
		r.Inconclusive(fmt.Sprintf("porcupine timed out on %d of %d histories", stats.unknown, stats.ok+stats.unknown+stats.illegal))
	}
	if r.Violations() == 0 && (r.Counter("conc_overlapping_call_pairs") < 100 || r.Counter("conc_transactions_returned") < 100 || r.Counter("seq_returned_again_after_requeue") < 20) {
		r.Inconclusive("too little contention or too few retrievals observed")
	}
	r.Finish()
}
