package storage_test

import (
	"crypto/sha256"
	"encoding/hex"
	"errors"
	"fmt"
	"math/big"
	"math/rand"
	"os"
	"path/filepath"
	"runtime"
	"sort"
	"strings"
	"sync"
	"sync/atomic"
	"testing"
	"time"

	"github.com/MixinNetwork/mixin/common"
	"github.com/MixinNetwork/mixin/crypto"
	"github.com/MixinNetwork/mixin/storage"
	"github.com/MixinNetwork/mixin/verifgen"
	"github.com/MixinNetwork/mixin/verifkit"
	"github.com/MixinNetwork/mixin/verifledger"
	"github.com/anishathalye/porcupine"
	"github.com/dgraph-io/badger/v4"
)

// C04: a one-time output key is bound to at most one transaction.
//
// Black-box on a real BadgerStore over a simulated ledger. Per case a small pool
// of output keys and a few correctly signed transfers (each spending its own
// fresh finalized output, so inputs never interfere) whose outputs draw their
// keys from the pool, with overlaps across transactions and, for some, a key
// repeated among the transaction's own outputs. Calls: Validate (ordinary and
// finalization flag), LockGhostKeys (own key list permuted / partial, and raw
// calls on behalf of the three hard-coded historical hashes and of hashes one
// bit away from them), WriteSnapshot of a stored body, ReadGhostKeyLock and
// atomic views of all GHOST records.
//
// Reference model = the statement: key -> owner, write once.
//   a successful Validate needs: no key repeated among its own outputs, every
//     key free or already its own; afterwards every key is its own
//   a successful LockGhostKeys needs every key free or own, except for the three
//     historical hashes under the finalization flag (accepted, binding untouched)
//   a successful WriteSnapshot needs every output key free or own
//   a failing call has no effect; reads return the model's owner map
// Rejection is never a violation of this property; calls the model would have
// allowed but the store refused are only counted.

const (
	vC04OpValidate = iota
	vC04OpLock
	vC04OpFinal
	vC04OpView
	vC04OpReadKey
)

const (
	vC04ResOK = iota
	vC04ResFail
	vC04ResConflict
	vC04ResPanic
)

const vC04MaxKeys = 10

var vC04OpNames = []string{"Validate", "LockGhostKeys", "WriteSnapshot", "view", "ReadGhostKeyLock"}
var vC04ResNames = []string{"ok", "error", "conflict", "panic"}

// the three hard-coded historical exceptions of storage/badger_utxo.go:lockGhostKey
var vC04ExceptionHex = []string{
	"c63b6373652def5999c1d951fcb8f064db67b7d18565847b921b21639e15dddd",
	"60deaf2471bb0b6481efe9080d8852b020ab2941e7faae21989d2404f34284ee",
	"a558b1efbe27eb6a6f902fd97d4b7e2e3099e6edde1fe6e8e41204e0685fe426",
}

type vC04State struct {
	O [vC04MaxKeys]int8 // owner index per pool key, -1 = unbound
}

func vC04InitState() vC04State {
	var s vC04State
	for i := range s.O {
		s.O[i] = -1
	}
	return s
}

type vC04In struct {
	Op    int
	Owner int   // transaction index, or len(txs)+i for special hash i
	Keys  []int // pool indexes, in call order
	Fork  bool
	Dup   bool // Validate: the transaction repeats a key among its own outputs
	Exc   bool // LockGhostKeys: owner is one of the three historical hashes
	Node  int
	Key   int // ReadGhostKeyLock
}

type vC04Out struct {
	Res  int
	St   vC04State
	Info string
}

func (in *vC04In) String() string {
	switch in.Op {
	case vC04OpValidate:
		return fmt.Sprintf("Validate(tx=%d keys=%v flag=%v repeats=%v)", in.Owner, in.Keys, in.Fork, in.Dup)
	case vC04OpLock:
		return fmt.Sprintf("LockGhostKeys(owner=%d keys=%v flag=%v historical=%v)", in.Owner, in.Keys, in.Fork, in.Exc)
	case vC04OpFinal:
		return fmt.Sprintf("WriteSnapshot([tx=%d] keys=%v chain=%d)", in.Owner, in.Keys, in.Node)
	case vC04OpView:
		return "view()"
	}
	return fmt.Sprintf("ReadGhostKeyLock(key=%d)", in.Key)
}

func (o vC04Out) String() string {
	s := vC04ResNames[o.Res]
	if o.Info != "" {
		s += " " + o.Info
	}
	return s
}

// vC04Bind evaluates a request on the model: allowed reports whether success is
// legal; why names the reason when it is not.
func vC04Bind(st vC04State, in *vC04In) (allowed bool, ns vC04State, why string) {
	ns = st
	if in.Op == vC04OpValidate && in.Dup {
		return false, st, "key-repeated-in-own-outputs"
	}
	for _, k := range in.Keys {
		o := ns.O[k]
		switch {
		case o == -1:
			ns.O[k] = int8(in.Owner)
		case o == int8(in.Owner):
		case in.Op == vC04OpLock && in.Exc && in.Fork:
			// historical exception: accepted, binding stays
		case in.Op == vC04OpLock && in.Exc:
			return false, st, "historical-hash-without-finalization-flag"
		default:
			return false, st, "key-of-other-transaction"
		}
	}
	return true, ns, ""
}

func vC04Step(state, input, output interface{}) (bool, interface{}) {
	st := state.(vC04State)
	in := input.(*vC04In)
	out := output.(vC04Out)
	switch in.Op {
	case vC04OpValidate, vC04OpLock, vC04OpFinal:
		if out.Res != vC04ResOK {
			return true, st
		}
		allowed, ns, _ := vC04Bind(st, in)
		if !allowed {
			return false, st
		}
		return true, ns
	case vC04OpView:
		return out.St == st, st
	case vC04OpReadKey:
		return out.St.O[in.Key] == st.O[in.Key], st
	}
	return false, st
}

var vC04Model = porcupine.Model{
	Init: func() interface{} { return vC04InitState() },
	Step: vC04Step,
	DescribeOperation: func(input, output interface{}) string {
		return fmt.Sprintf("%s -> %s", input.(*vC04In), output.(vC04Out))
	},
	DescribeState: func(state interface{}) string { return fmt.Sprintf("%+v", state.(vC04State)) },
}

// ---------------------------------------------------------------------------

type vC04Tx struct {
	ver  *common.VersionedTransaction
	hash crypto.Hash
	keys []int // pool indexes of all output keys, output order (what Validate hands to LockGhostKeys)
	dup  bool
}

type vC04Case struct {
	pool    []crypto.Key
	txs     []*vC04Tx
	special []crypto.Hash // 3 historical hashes, then near misses
	byHash  map[crypto.Hash]int
	desc    string
}

type vC04Env struct {
	t     *testing.T
	r     *verifkit.Run
	sim   *verifledger.Sim
	store *storage.BadgerStore
	rng   *rand.Rand
	addrs []common.Address
	nonce int
	outs  []*verifgen.Out
	heads []*common.Round
	snapT uint64
	depN  int
	asset crypto.Hash

	prepWall, porcWall time.Duration
}

func (e *vC04Env) seed(label string) []byte {
	e.nonce++
	return verifgen.Seed64(fmt.Sprintf("%s:c04:%s:%d", e.sim.Net.Label, label, e.nonce))
}

func (e *vC04Env) spec(units int64) verifgen.OutSpec {
	a := e.addrs[e.rng.Intn(len(e.addrs))]
	return verifgen.OutSpec{Type: common.OutputTypeScript, Owners: []common.Address{a}, Threshold: 1,
		Amount: verifgen.Units(big.NewInt(units)), Seed: e.seed("mask")}
}

// refill: 32 fresh unspent outputs through the public write path.
func (e *vC04Env) refill() {
	const n = 32
	e.depN++
	chain := common.EthereumAssetId
	key := "0x5555555555555555555555555555555555555555"
	sp := e.spec(n * 1000)
	dep := verifgen.Deposit(&e.sim.Net.Custodian, e.asset, chain, key, fmt.Sprintf("0xc04pool%08d", e.depN), 0, sp.Amount, sp)
	ts := e.sim.NextTime(1)
	if err := e.sim.Admit(dep, ts); err != nil {
		e.t.Fatalf("C04 harness: pool deposit not admitted: %v", err)
	}
	if _, _, err := e.sim.Finalize([]*common.VersionedTransaction{dep}, ts); err != nil {
		e.t.Fatalf("C04 harness: pool deposit not finalized: %v", err)
	}
	in := verifgen.OutsOf(dep, []verifgen.OutSpec{sp})
	var specs []verifgen.OutSpec
	for i := 0; i < n; i++ {
		specs = append(specs, e.spec(1000))
	}
	raw := verifgen.BuildTx(e.asset, in, specs, nil, nil)
	split := verifgen.SignMap(raw, in, verifgen.FirstN(in))
	ts = e.sim.NextTime(1)
	if err := e.sim.Admit(split, ts); err != nil {
		e.t.Fatalf("C04 harness: pool split not admitted: %v", err)
	}
	if _, _, err := e.sim.Finalize([]*common.VersionedTransaction{split}, ts); err != nil {
		e.t.Fatalf("C04 harness: pool split not finalized: %v", err)
	}
	e.outs = append(e.outs, verifgen.OutsOf(split, specs)...)
}

func (e *vC04Env) takeOut() *verifgen.Out {
	if len(e.outs) == 0 {
		e.refill()
	}
	o := e.outs[len(e.outs)-1]
	e.outs = e.outs[:len(e.outs)-1]
	return o
}

func (e *vC04Env) newCase() *vC04Case {
	defer func(t time.Time) { e.prepWall += time.Since(t) }(time.Now())
	rng := e.rng
	c := &vC04Case{byHash: map[crypto.Hash]int{}}
	nk := 3 + rng.Intn(6)
	for i := 0; i < nk; i++ {
		c.pool = append(c.pool, crypto.NewKeyFromSeed(e.seed("key")).Public())
	}
	nt := 2 + rng.Intn(5)
	dups := 0
	for i := 0; i < nt; i++ {
		in := e.takeOut()
		raw := common.NewTransactionV5(e.asset)
		raw.AddInput(in.Hash, in.Index)
		nout := 1 + rng.Intn(3)
		tx := &vC04Tx{}
		used := map[int]bool{}
		wantDup := rng.Intn(100) < 18
		rest := int64(1000)
		for o := 0; o < nout; o++ {
			amount := rest
			if o < nout-1 {
				amount = 1 + rng.Int63n(rest-int64(nout-1-o))
			}
			rest -= amount
			nkeys := 1 + rng.Intn(3)
			var keys []*crypto.Key
			for k := 0; k < nkeys; k++ {
				p := rng.Intn(nk)
				for tries := 0; used[p] && tries < 20; tries++ { // distinct unless a repeat is wanted
					p = rng.Intn(nk)
				}
				if wantDup && len(tx.keys) > 0 && rng.Intn(2) == 0 {
					p = tx.keys[rng.Intn(len(tx.keys))] // same output or an earlier one
				}
				if used[p] {
					tx.dup = true
				}
				used[p] = true
				tx.keys = append(tx.keys, p)
				kk := c.pool[p]
				keys = append(keys, &kk)
			}
			mask := crypto.NewKeyFromSeed(e.seed("outmask")).Public()
			raw.Outputs = append(raw.Outputs, &common.Output{Type: common.OutputTypeScript, Amount: verifgen.Units(big.NewInt(amount)),
				Keys: keys, Mask: mask, Script: common.NewThresholdScript(1)})
		}
		ins := []*verifgen.Out{in}
		ver := verifgen.SignMap(raw, ins, verifgen.FirstN(ins))
		parsed, err := verifgen.Reparse(ver)
		if err != nil {
			e.t.Fatalf("C04 harness: prepared transaction does not decode: %v", err)
		}
		tx.ver, tx.hash = parsed, parsed.PayloadHash()
		if tx.dup {
			dups++
		}
		c.byHash[tx.hash] = len(c.txs)
		c.txs = append(c.txs, tx)
	}
	for _, hx := range vC04ExceptionHex {
		h, err := crypto.HashFromString(hx)
		if err != nil {
			e.t.Fatal(err)
		}
		c.special = append(c.special, h)
	}
	for i := 0; i < 3; i++ { // near misses: one bit away from a historical hash
		h := c.special[i]
		switch i {
		case 0:
			h[31] ^= 1
		case 1:
			h[0] ^= 0x80
		default:
			h[rng.Intn(32)] ^= 1 << uint(rng.Intn(8))
		}
		c.special = append(c.special, h)
	}
	for i, h := range c.special {
		c.byHash[h] = len(c.txs) + i
	}
	c.desc = fmt.Sprintf("keys=%d txs=%d (with a repeated key: %d)", nk, nt, dups)
	return c
}

func (c *vC04Case) ownerIndex(h *crypto.Hash) int8 {
	if h == nil || !h.HasValue() {
		return -1
	}
	if i, ok := c.byHash[*h]; ok {
		return int8(i)
	}
	return -2
}

func (c *vC04Case) ownerHash(owner int) crypto.Hash {
	if owner < len(c.txs) {
		return c.txs[owner].hash
	}
	return c.special[owner-len(c.txs)]
}

func (e *vC04Env) view(c *vC04Case) vC04State {
	st := vC04InitState()
	e.store.VerifView(func(get func([]byte) ([]byte, bool)) {
		for i := range c.pool {
			val, ok := get(append([]byte("GHOST"), c.pool[i][:]...))
			if !ok {
				continue
			}
			if len(val) != 32 {
				st.O[i] = -3
				continue
			}
			var h crypto.Hash
			copy(h[:], val)
			st.O[i] = c.ownerIndex(&h)
		}
	})
	return st
}

func (e *vC04Env) snapshot(h crypto.Hash, node int) *common.SnapshotWithTopologicalOrder {
	head := e.heads[node%len(e.heads)]
	snap := &common.Snapshot{
		Version:      common.SnapshotVersionCommonEncoding,
		NodeId:       head.NodeId,
		RoundNumber:  head.Number,
		References:   head.References,
		Timestamp:    atomic.AddUint64(&e.snapT, 1),
		Transactions: []crypto.Hash{h},
		Signature:    &crypto.CosiSignature{Mask: 1},
	}
	snap.Hash = snap.PayloadHash()
	return &common.SnapshotWithTopologicalOrder{Snapshot: snap, TopologicalOrder: atomic.AddUint64(&e.sim.Topo, 1)}
}

func vC04Classify(panicked bool, pv any, err error) vC04Out {
	short := func(s string) string {
		if len(s) > 100 {
			s = s[:100]
		}
		return s
	}
	switch {
	case panicked:
		return vC04Out{Res: vC04ResPanic, Info: short(fmt.Sprint(pv))}
	case err == nil:
		return vC04Out{Res: vC04ResOK}
	case errors.Is(err, badger.ErrConflict):
		return vC04Out{Res: vC04ResConflict}
	}
	return vC04Out{Res: vC04ResFail, Info: short(err.Error())}
}

func (e *vC04Env) exec(c *vC04Case, in *vC04In, ts uint64) vC04Out {
	switch in.Op {
	case vC04OpValidate:
		// a private copy: Validate caches sizes in the object
		ver, err := verifgen.Reparse(c.txs[in.Owner].ver)
		if err != nil {
			return vC04Out{Res: vC04ResFail, Info: "harness: " + err.Error()}
		}
		p, pv, _ := verifkit.Guard(func() { err = ver.Validate(e.store, ts, in.Fork) })
		return vC04Classify(p, pv, err)
	case vC04OpLock:
		var keys []*crypto.Key
		for _, k := range in.Keys {
			kk := c.pool[k]
			keys = append(keys, &kk)
		}
		var err error
		p, pv, _ := verifkit.Guard(func() { err = e.store.LockGhostKeys(keys, c.ownerHash(in.Owner), in.Fork) })
		return vC04Classify(p, pv, err)
	case vC04OpFinal:
		tx := c.txs[in.Owner]
		// store the body the way the node does, without Validate: reserve the (own) input, write
		_, _, _ = verifkit.Guard(func() {
			if err := tx.ver.LockInputs(e.store, false); err == nil {
				_ = e.store.WriteTransaction(tx.ver)
			}
		})
		snap := e.snapshot(tx.hash, in.Node)
		var err error
		p, pv, _ := verifkit.Guard(func() { err = e.store.WriteSnapshot(snap, []crypto.Hash{snap.NodeId}) })
		return vC04Classify(p, pv, err)
	case vC04OpView:
		return vC04Out{Res: vC04ResOK, St: e.view(c)}
	}
	out := vC04Out{Res: vC04ResOK, St: vC04InitState()}
	h, err := e.store.ReadGhostKeyLock(c.pool[in.Key])
	if err != nil {
		out.St.O[in.Key] = -3
		out.Info = err.Error()
		return out
	}
	out.St.O[in.Key] = c.ownerIndex(h)
	return out
}

func (e *vC04Env) genOp(rng *rand.Rand, c *vC04Case, finals []int, reads bool) *vC04In {
	for {
		t := rng.Intn(len(c.txs))
		tx := c.txs[t]
		x := rng.Intn(100)
		switch {
		case x < 35:
			return &vC04In{Op: vC04OpValidate, Owner: t, Keys: tx.keys, Fork: rng.Intn(100) < 40, Dup: tx.dup}
		case x < 50:
			keys := append([]int{}, tx.keys...)
			if rng.Intn(2) == 0 {
				rng.Shuffle(len(keys), func(a, b int) { keys[a], keys[b] = keys[b], keys[a] })
				keys = keys[:1+rng.Intn(len(keys))]
			}
			return &vC04In{Op: vC04OpLock, Owner: t, Keys: keys, Fork: rng.Intn(100) < 40}
		case x < 62:
			sp := rng.Intn(len(c.special))
			perm := rng.Perm(len(c.pool))
			return &vC04In{Op: vC04OpLock, Owner: len(c.txs) + sp, Keys: perm[:1+rng.Intn(3)], Fork: rng.Intn(100) < 60, Exc: sp < 3}
		case x < 78:
			if finals[t] >= len(e.heads) {
				continue
			}
			finals[t]++
			return &vC04In{Op: vC04OpFinal, Owner: t, Keys: tx.keys, Node: finals[t] - 1}
		case x < 88:
			if !reads {
				continue
			}
			return &vC04In{Op: vC04OpView}
		default:
			if !reads {
				continue
			}
			return &vC04In{Op: vC04OpReadKey, Key: rng.Intn(len(c.pool))}
		}
	}
}

func vC04DiffClass(model, got vC04State) string {
	for i := range model.O {
		m, g := model.O[i], got.O[i]
		switch {
		case m == g:
		case g == -3 || g == -2:
			return "binding-unreadable-or-foreign"
		case m == -1:
			return "binding-created-by-a-call-that-did-not-succeed"
		case g == -1:
			return "binding-removed"
		default:
			return "binding-overwritten"
		}
	}
	return "same"
}

func (c *vC04Case) hashes() []string {
	var res []string
	for i, tx := range c.txs {
		res = append(res, fmt.Sprintf("tx%d=%s keys=%v repeats=%v raw=%s", i, tx.hash, tx.keys, tx.dup, hex.EncodeToString(tx.ver.Marshal())))
	}
	for i, h := range c.special {
		res = append(res, fmt.Sprintf("owner%d=%s", len(c.txs)+i, h))
	}
	return res
}

func (e *vC04Env) runSequential(c *vC04Case, nops int) {
	r := e.r
	st := vC04InitState()
	finals := make([]int, len(c.txs))
	finalized := map[int]bool{}
	var trace []string
	ts := e.sim.NextTime(1)
	for i := 0; i < nops; i++ {
		in := e.genOp(e.rng, c, finals, false)
		out := e.exec(c, in, ts)
		trace = append(trace, fmt.Sprintf("%s -> %s", in, out))
		if len(trace) > 40 {
			trace = trace[len(trace)-40:]
		}
		r.Eval()
		allowed, _, why := vC04Bind(st, in)
		desc := vC04OpNames[in.Op]
		if in.Op != vC04OpFinal {
			desc += fmt.Sprintf("|flag=%v", in.Fork)
		}
		class := "free-or-own"
		if allowed {
			seen := map[int]bool{}
			for _, k := range in.Keys {
				if o := st.O[k]; in.Exc && in.Fork && o >= 0 && int(o) != in.Owner {
					class = "historical-hash-over-foreign-key"
				}
				if seen[k] && in.Op == vC04OpLock {
					class = "list-with-repeated-key"
				}
				seen[k] = true
			}
		}
		if !allowed {
			class = why
			if why == "key-of-other-transaction" {
				// reserved (pending) or materialized (finalized) owner
				for _, k := range in.Keys {
					if o := st.O[k]; o >= 0 && int(o) != in.Owner {
						if finalized[int(o)] {
							class += "(materialized)"
						} else {
							class += "(reserved)"
						}
						break
					}
				}
				if in.Owner >= len(c.txs)+3 {
					class = "near-historical-hash:" + class
				}
			}
		}
		r.Count("seq_"+strings.ReplaceAll(desc, "|", "_")+"_"+class+"_"+vC04ResNames[out.Res], 1)
		if allowed && out.Res == vC04ResFail && class == "free-or-own" {
			r.Count("seq_refused_although_model_allows", 1)
		}
		ok, ns := vC04Step(st, in, out)
		if !ok {
			r.Violation(fmt.Sprintf("C04|seq|%s|%s|got=ok", desc, class),
				fmt.Sprintf("%s succeeded although the key model forbids it (%s); owners in the model: %+v", in, why, st.O),
				map[string]any{"case": c.desc, "last_calls": trace, "owners": c.hashes()})
			return
		}
		if !allowed && out.Res == vC04ResFail {
			r.Nontrivial(fmt.Sprintf("rejected|%s|%s|%d|%v", why, c.ownerHash(in.Owner), in.Op, in.Keys))
		}
		if allowed && out.Res == vC04ResOK && ns.(vC04State) != st {
			r.Nontrivial(fmt.Sprintf("bound|%s|%v", c.ownerHash(in.Owner), in.Keys))
		}
		st = ns.(vC04State)
		if in.Op == vC04OpFinal {
			_, final, err := e.store.ReadTransaction(c.txs[in.Owner].hash)
			if out.Res == vC04ResOK {
				finalized[in.Owner] = true
			} else if out.Res == vC04ResFail && err == nil && final != "" && !finalized[in.Owner] {
				r.Violation("C04|seq|WriteSnapshot|failed-but-transaction-finalized",
					fmt.Sprintf("%s returned an error but the transaction is marked finalized", in),
					map[string]any{"case": c.desc, "last_calls": trace, "owners": c.hashes()})
				return
			}
		}
		got := e.view(c)
		if got != st {
			r.Violation(fmt.Sprintf("C04|seq|state-after-%s|%s|%s", desc, class, vC04DiffClass(st, got)),
				fmt.Sprintf("after %s -> %s the GHOST records are %+v, the key model says %+v", in, out, got.O, st.O),
				map[string]any{"case": c.desc, "last_calls": trace, "owners": c.hashes()})
			return
		}
		for k := range c.pool {
			ro := e.exec(c, &vC04In{Op: vC04OpReadKey, Key: k}, ts)
			if ro.St.O[k] != st.O[k] {
				r.Violation(fmt.Sprintf("C04|seq|ReadGhostKeyLock-after-%s|%s", desc, class),
					fmt.Sprintf("after %s -> %s ReadGhostKeyLock(key %d) returns owner %d, model owner %d (%s)", in, out, k, ro.St.O[k], st.O[k], ro.Info),
					map[string]any{"case": c.desc, "last_calls": trace, "owners": c.hashes()})
				return
			}
		}
	}
	if r.SampleCount() < 2 {
		n := len(trace)
		if n > 8 {
			n = 8
		}
		r.Sample(map[string]any{"mode": "sequential", "case": c.desc, "last_calls": trace[len(trace)-n:]})
	}
}

type vC04Rec struct {
	client int
	in     *vC04In
	out    vC04Out
	call   int64
	ret    int64
}

func (e *vC04Env) runConcurrent(c *vC04Case, hi int) {
	r := e.r
	rng := e.rng
	finals := make([]int, len(c.txs))
	ts := e.sim.NextTime(1)
	var tick int64
	do := func(client int, in *vC04In) vC04Rec {
		call := atomic.AddInt64(&tick, 1)
		out := e.exec(c, in, ts)
		ret := atomic.AddInt64(&tick, 1)
		return vC04Rec{client: client, in: in, out: out, call: call, ret: ret}
	}
	var recs []vC04Rec
	// some histories start from a ledger in which a few keys are already reserved / materialized
	for k := rng.Intn(3); k > 0; k-- {
		recs = append(recs, do(0, e.genOp(rng, c, finals, false)))
	}
	nprep := len(recs)
	g := 2 + rng.Intn(15)
	per := 40 / g
	if per < 2 {
		per = 2
	}
	plans := make([][]*vC04In, g)
	for i := range plans {
		for k := 0; k < per; k++ {
			plans[i] = append(plans[i], e.genOp(rng, c, finals, true))
		}
	}
	results := make([][]vC04Rec, g)
	start := make(chan struct{})
	var wg sync.WaitGroup
	for i := 0; i < g; i++ {
		wg.Add(1)
		go func(i int) {
			defer wg.Done()
			lr := r.Fork("c04-conc", hi*64+i)
			<-start
			for _, in := range plans[i] {
				switch lr.Intn(4) {
				case 0:
					runtime.Gosched()
				case 1:
					time.Sleep(time.Duration(lr.Intn(200)) * time.Microsecond)
				}
				results[i] = append(results[i], do(i+1, in))
			}
		}(i)
	}
	stop := make(chan struct{})
	var rwg sync.WaitGroup
	var views []vC04State
	rwg.Add(1)
	go func() {
		defer rwg.Done()
		<-start
		for {
			st := e.view(c)
			if len(views) == 0 || views[len(views)-1] != st {
				views = append(views, st)
			}
			r.Count("reader_views", 1)
			select {
			case <-stop:
				return
			default:
			}
			runtime.Gosched()
		}
	}()
	close(start)
	wg.Wait()
	close(stop)
	rwg.Wait()
	for i := range results {
		recs = append(recs, results[i]...)
	}
	recs = append(recs, do(0, &vC04In{Op: vC04OpView}))
	r.Eval()

	type span struct {
		owner     int
		call, ret int64
	}
	byKey := map[int][]span{}
	var digest strings.Builder
	for _, rc := range recs {
		r.Count("conc_"+vC04OpNames[rc.in.Op]+"_"+vC04ResNames[rc.out.Res], 1)
		fmt.Fprintf(&digest, "%d:%s>%s;", rc.client, rc.in, rc.out)
		if rc.in.Op <= vC04OpFinal {
			for _, k := range rc.in.Keys {
				byKey[k] = append(byKey[k], span{rc.in.Owner, rc.call, rc.ret})
			}
		}
	}
	contended := false
	for _, sp := range byKey {
		for i := range sp {
			for j := i + 1; j < len(sp); j++ {
				if sp[i].owner != sp[j].owner && sp[i].call <= sp[j].ret && sp[j].call <= sp[i].ret {
					contended = true
				}
			}
		}
	}
	if contended {
		r.Count("histories_contended", 1)
		dh := sha256.Sum256([]byte(digest.String()))
		r.Nontrivial("conc|" + hex.EncodeToString(dh[:12]))
	}
	r.Count("histories_concurrent", 1)
	r.Count("goroutines_total", g)

	witness := func() map[string]any {
		sort.Slice(recs, func(i, j int) bool { return recs[i].call < recs[j].call })
		var ops []string
		for _, rc := range recs {
			ops = append(ops, fmt.Sprintf("client=%d [%d,%d] %s -> %s", rc.client, rc.call, rc.ret, rc.in, rc.out))
		}
		return map[string]any{"case": c.desc, "goroutines": g, "prep_calls": nprep, "history": ops, "owners": c.hashes()}
	}

	// write-once, seen by the concurrent reader
	for i := 1; i < len(views); i++ {
		for k := range c.pool {
			p, v := views[i-1].O[k], views[i].O[k]
			if p != -1 && p != v {
				w := witness()
				w["views"] = fmt.Sprintf("%+v then %+v", views[i-1], views[i])
				r.Violation("C04|conc|reader|binding-changed",
					fmt.Sprintf("key %d was bound to owner %d and is later bound to %d (atomic views of the GHOST records)", k, p, v), w)
				i = len(views)
				break
			}
		}
	}

	hist := make([]porcupine.Operation, len(recs))
	for i, rc := range recs {
		hist[i] = porcupine.Operation{ClientId: rc.client, Input: rc.in, Call: rc.call, Output: rc.out, Return: rc.ret}
	}
	tp := time.Now()
	res := porcupine.CheckOperationsTimeout(vC04Model, hist, 30*time.Second)
	e.porcWall += time.Since(tp)
	switch res {
	case porcupine.Ok:
		r.Count("porcupine_ok", 1)
	case porcupine.Illegal:
		r.Count("porcupine_illegal", 1)
		r.Violation("C04|conc|nonlinearizable",
			fmt.Sprintf("history of %d calls from %d goroutines has no linearization in the write-once key model", len(recs), g), witness())
	default:
		r.Count("porcupine_unknown_timeout", 1)
	}
	if contended && r.SampleCount() < 5 {
		w := witness()
		h := w["history"].([]string)
		if len(h) > 14 {
			w["history"] = h[:14]
		}
		w["mode"] = "concurrent"
		delete(w, "owners")
		r.Sample(w)
	}
}

// runRemovalOutputKey: a transaction X reserves key K at admission; a node removal whose removal output carries K
// arrives on the finalization path.
func (e *vC04Env) runRemovalOutputKey(i int) {
	r := e.r
	_, _, gtxs, err := e.sim.Net.Genesis.BuildSnapshots()
	if err != nil {
		return
	}
	gi := i % len(e.sim.Net.Signers)
	var acc *common.VersionedTransaction
	for _, gt := range gtxs {
		if len(gt.Outputs) > 0 && gt.Outputs[0].Type == common.OutputTypeNodeAccept && len(gt.Extra) >= 32 &&
			string(gt.Extra[:32]) == string(e.sim.Net.Signers[gi].PublicSpendKey[:]) {
			acc = gt
		}
	}
	if acc == nil {
		r.Count("removal_output_setup_no_genesis_transaction", 1)
		return
	}
	in := e.takeOut()
	ins := []*verifgen.Out{in}
	x := verifgen.SignMap(verifgen.BuildTx(e.asset, ins, []verifgen.OutSpec{e.spec(1000)}, []byte("x"), nil), ins, verifgen.FirstN(ins))
	if err := e.sim.Admit(x, e.sim.NextTime(1)); err != nil {
		r.Count("removal_output_setup_owner_not_admitted", 1)
		return
	}
	xh := x.PayloadHash()
	payee := e.sim.Net.Payees[gi]
	rm := verifgen.Remove(e.sim.Net.Signers[gi].PublicSpendKey, payee.PublicSpendKey, &payee, acc, e.seed("rm"), []crypto.Hash{e.sim.LastConsensusTx})
	rm.Outputs[0].Keys, rm.Outputs[0].Mask = x.Outputs[0].Keys, x.Outputs[0].Mask
	rm = rm.Transaction.AsVersioned()
	rh := rm.PayloadHash()
	key := *x.Outputs[0].Keys[0]
	var werr error
	panicked, pv, _ := verifkit.Guard(func() {
		if werr = e.store.LockUTXOs(rm.Inputs, rh, true); werr != nil {
			return
		}
		if werr = e.store.WriteTransaction(rm); werr != nil {
			return
		}
		werr = e.store.WriteSnapshot(e.snapshot(rh, i), []crypto.Hash{e.sim.Chain})
	})
	r.Eval()
	r.Count("removal_outputs_with_a_reserved_key_offered", 1)
	owner, _ := e.store.ReadGhostKeyLock(key)
	wit := map[string]any{"first_owner": xh.String(), "removal": rh.String(), "error": fmt.Sprint(werr), "panic": fmt.Sprint(pv)}
	if !panicked && werr == nil {
		r.Violation("C04|finalization|removal-output|key-of-another-transaction-accepted", "finalizing a node removal whose output key is reserved for another transaction succeeded", wit)
	}
	if owner == nil || *owner != xh {
		r.Violation("C04|finalization|removal-output|binding-changed", "the binding of a reserved key changed when a node removal carrying it was finalized", wit)
	}
	if u, _ := e.store.ReadUTXOLock(rh, 0); u != nil {
		r.Violation("C04|finalization|removal-output|output-materialized", "the removal output carrying another transaction's key was written", wit)
	}
	r.Nontrivial(fmt.Sprintf("removal-key|%d", i))
}

// runDisplaced: the key of a transaction that lost its input to a rival stays bound to it.
func (e *vC04Env) runDisplaced(i int) {
	r, rng := e.r, e.rng
	in := e.takeOut()
	ins := []*verifgen.Out{in}
	specA := e.spec(1000)
	a := verifgen.SignMap(verifgen.BuildTx(e.asset, ins, []verifgen.OutSpec{specA}, []byte("a"), nil), ins, verifgen.FirstN(ins))
	ts := e.sim.NextTime(1)
	if err := e.sim.Admit(a, ts); err != nil {
		r.Count("displaced_setup_first_owner_not_admitted", 1)
		return
	}
	key := *a.Outputs[0].Keys[0]
	ah := a.PayloadHash()
	if owner, _ := e.store.ReadGhostKeyLock(key); owner == nil || *owner != ah {
		r.Count("displaced_setup_key_not_reserved", 1)
		return
	}
	b := verifgen.SignMap(verifgen.BuildTx(e.asset, ins, []verifgen.OutSpec{e.spec(1000)}, []byte("b"), nil), ins, verifgen.FirstN(ins))
	if err := e.sim.AdmitFinal(b, ts); err != nil {
		r.Count("displaced_setup_rival_not_admitted", 1)
		return
	}
	finalized := false
	if rng.Intn(2) == 0 {
		if _, _, err := e.sim.Finalize([]*common.VersionedTransaction{b}, ts); err == nil {
			finalized = true
		}
	}
	if body, _, _ := e.store.ReadTransaction(ah); body != nil {
		r.Count("displaced_first_owner_body_still_present", 1)
	}
	// C: a fresh input, its output carries A's key
	in2 := e.takeOut()
	ins2 := []*verifgen.Out{in2}
	raw := verifgen.BuildTx(e.asset, ins2, nil, []byte("c"), nil)
	ao := a.Outputs[0]
	raw.Outputs = append(raw.Outputs, &common.Output{Type: common.OutputTypeScript, Amount: in2.Amount, Keys: ao.Keys, Mask: ao.Mask, Script: ao.Script})
	c := verifgen.SignMap(raw, ins2, verifgen.FirstN(ins2))
	ch := c.PayloadHash()
	for _, fork := range []bool{false, true} {
		var verr, lerr error
		p1, _, _ := verifkit.Guard(func() { verr = c.Validate(e.store, e.sim.NextTime(2), fork) })
		p2, _, _ := verifkit.Guard(func() { lerr = e.store.LockGhostKeys(ao.Keys, ch, fork) })
		r.Eval()
		r.Count("displaced_owner_probes", 1)
		owner, _ := e.store.ReadGhostKeyLock(key)
		wit := map[string]any{"first_owner": ah.String(), "presenter": ch.String(), "finalization_flag": fork, "rival_finalized": finalized,
			"validate_error": fmt.Sprint(verr), "lock_error": fmt.Sprint(lerr)}
		if !p1 && verr == nil {
			r.Violation("C04|displaced-owner|Validate|key-accepted-for-another-transaction", "a key reserved for a transaction that later lost its input to a rival was accepted by Validate for a different transaction", wit)
		}
		if !p2 && lerr == nil {
			r.Violation("C04|displaced-owner|LockGhostKeys|key-accepted-for-another-transaction", "a key reserved for a transaction that later lost its input to a rival was bound to a different transaction", wit)
		}
		if owner == nil || *owner != ah {
			r.Violation("C04|displaced-owner|binding-changed", "the binding of a reserved key changed after its transaction was displaced", wit)
		}
		r.Nontrivial(fmt.Sprintf("displaced|%d|%v|%v", i, fork, finalized))
	}
}

func vC04TempDir(t *testing.T) string {
	const base = "/dev/shm" // memory-backed: the store fsyncs every commit otherwise
	if fi, err := os.Stat(base); err == nil && fi.IsDir() {
		if old, err := filepath.Glob(filepath.Join(base, "verif-c04-*")); err == nil {
			for _, d := range old { // leftovers of runs killed by the watchdog
				if fi, err := os.Stat(d); err == nil && time.Since(fi.ModTime()) > 3*time.Hour {
					_ = os.RemoveAll(d)
				}
			}
		}
		if dir, err := os.MkdirTemp(base, "verif-c04-"); err == nil {
			t.Cleanup(func() { _ = os.RemoveAll(dir) })
			return dir
		}
	}
	return t.TempDir()
}

func TestVerif_C04(t *testing.T) {
	r := verifkit.Start(t, "C04", "exploration")
	r.SetRule("real BadgerStore over a simulated ledger; per case a pool of 3..8 output keys and 2..6 signed transfers (own fresh inputs) whose outputs draw 1..9 keys from the pool, " +
		"overlapping across transactions and (18%) repeated inside one transaction; random Validate / LockGhostKeys (own list, partial, permuted; the three historical hashes and one-bit neighbours) / " +
		"WriteSnapshot of bodies stored without Validate / reads, sequentially (result and all GHOST records vs the write-once model after each call) and from 2..16 goroutines (porcupine + concurrent reader); " +
		"plus displaced-owner histories (a transaction reserves its keys, loses its input to a rival on the finalization path, a third transaction presents the key); " +
		"non-trivial = distinct rejections because of another owner or a repeated key, distinct successful bindings, and distinct concurrent histories in which two owners requested one key with overlapping call intervals")
	r.Assume("the three historical exception hashes are taken from storage/badger_utxo.go; no transaction with such a hash can be constructed, they are exercised through LockGhostKeys only")
	r.Assume("the model excepts them only under the finalization flag (as the design does) and expects the existing binding to stay")
	r.Assume("Badger transactions are atomic; a call that panics or returns badger.ErrConflict has no effect; GHOST key layout used by the atomic views is cross-checked with ReadGhostKeyLock")
	r.Assume("scheduling is by the Go runtime: interleavings are sampled, not enumerated")
	rng := r.Rand()
	sim, err := verifledger.NewSim(fmt.Sprintf("c04-%d", r.Seed), 7, 1700000000, vC04TempDir(t))
	if err != nil {
		t.Fatal(err)
	}
	defer sim.Close()
	e := &vC04Env{t: t, r: r, sim: sim, store: sim.Store, rng: rng,
		asset: crypto.Sha256Hash([]byte("verif-c04-asset")), snapT: sim.Net.Epoch + uint64(time.Hour)*24*365}
	for i := 0; i < 4; i++ {
		e.addrs = append(e.addrs, verifgen.Addr(fmt.Sprintf("%s:c04wallet:%d", sim.Net.Label, i)))
	}
	for _, id := range sim.Net.NodeIds {
		head, err := sim.Store.ReadRound(id)
		if err != nil || head == nil {
			t.Fatalf("C04 harness: no head round for %s: %v", id, err)
		}
		e.heads = append(e.heads, head)
	}

	t0 := time.Now()
	nseq := r.N(60, 700)
	for i := 0; i < nseq && r.Violations() == 0; i++ {
		e.runSequential(e.newCase(), 40+rng.Intn(40))
		r.Count("sequential_histories", 1)
	}
	// displaced owners: transaction A reserves its output keys at admission, a rival spender of A's input is taken on
	// the finalization path (A's body is pruned), then another transaction C presents A's key
	ndisp := r.N(40, 600)
	for i := 0; i < ndisp && r.Violations() == 0; i++ {
		e.runDisplaced(i)
	}
	// outputs of other types that carry keys (a node removal's output): finalizing one whose key belongs to another
	// transaction must fail as it does for script outputs
	for i := 0; i < r.N(6, 60) && r.Violations() == 0; i++ {
		e.runRemovalOutputKey(i)
	}
	r.Note("wall_s_sequential_phase", time.Since(t0).Seconds())
	t1 := time.Now()
	nconc := r.N(200, 2400)
	for i := 0; i < nconc && r.Violations() < 3; i++ {
		e.runConcurrent(e.newCase(), i)
	}
	r.Note("wall_s_concurrent_phase", time.Since(t1).Seconds())
	r.Note("wall_s_case_preparation", e.prepWall.Seconds())
	r.Note("wall_s_porcupine", e.porcWall.Seconds())
	if n := r.Counter("porcupine_unknown_timeout"); n*10 > int64(nconc) {
		r.Inconclusive(fmt.Sprintf("%d of %d concurrent histories could not be decided within the checker timeout", n, nconc))
	}
	if r.Violations() == 0 {
		if r.Counter("histories_contended")*4 < int64(nconc) {
			r.Inconclusive(fmt.Sprintf("only %d of %d concurrent histories were contended", r.Counter("histories_contended"), nconc))
		}
		if r.Counter("seq_refused_although_model_allows") > int64(nseq) {
			r.Inconclusive("the store refused most requests the model allows; almost nothing was observed")
		}
	}
	r.SetFloor(20)
	r.Finish()
}
