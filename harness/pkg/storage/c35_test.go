package storage_test

import (
	"bytes"
	"encoding/binary"
	"fmt"
	"math"
	"math/rand"
	"os"
	"path/filepath"
	"sync"
	"testing"

	"github.com/MixinNetwork/mixin/common"
	"github.com/MixinNetwork/mixin/crypto"
	"github.com/MixinNetwork/mixin/verifgen"
	"github.com/MixinNetwork/mixin/verifkit"
	"github.com/MixinNetwork/mixin/verifledger"
)

// Reference for C35: the list of stored snapshots in the order they were
// written; the node assigns position = last position + 1, so the index in the
// list is the position.
type vC35Rec struct {
	Pos  uint64
	Hash crypto.Hash // payload hash computed by the harness before the write
	Node crypto.Hash
	Ntx  int
}

type vC35Asset struct {
	id    crypto.Hash
	chain crypto.Hash
	key   string
}

type vC35Sim struct {
	r     *verifkit.Run
	idx   int
	rng   *rand.Rand
	sim   *verifledger.Sim
	model []vC35Rec
	nonce int
	owner common.Address
	dead  bool // a violation desynchronised model and store: stop this ledger

	assets []vC35Asset
}

func (s *vC35Sim) witness(extra map[string]any) map[string]any {
	w := map[string]any{"ledger": s.idx, "stored_snapshots": len(s.model)}
	for k, v := range extra {
		w[k] = v
	}
	return w
}

func (s *vC35Sim) deposit() *common.VersionedTransaction {
	s.nonce++
	a := s.assets[s.rng.Intn(len(s.assets))]
	amount := verifgen.UnitsU(uint64(1 + s.rng.Intn(5000)))
	spec := verifgen.OutSpec{Type: common.OutputTypeScript, Owners: []common.Address{s.owner}, Threshold: 1,
		Seed: verifgen.Seed64(fmt.Sprintf("%s:mask:%d", s.sim.Net.Label, s.nonce))}
	return verifgen.Deposit(&s.sim.Net.Custodian, a.id, a.chain, a.key, fmt.Sprintf("0xc35deposit%08d", s.nonce), uint64(s.rng.Intn(4)), amount, spec)
}

// admit builds and admits 1..3 small deposits (the transactions of one snapshot).
func (s *vC35Sim) admit(ts uint64) ([]*common.VersionedTransaction, error) {
	n := 1
	if s.rng.Intn(4) == 0 {
		n = 2 + s.rng.Intn(2)
	}
	var txs []*common.VersionedTransaction
	for i := 0; i < n; i++ {
		tx, err := verifgen.Reparse(s.deposit())
		if err != nil {
			return nil, err
		}
		if err := s.sim.AdmitFinal(tx, ts); err != nil {
			return nil, err
		}
		txs = append(txs, tx)
	}
	return txs, nil
}

func vC35Hashes(txs []*common.VersionedTransaction) []crypto.Hash {
	hs := make([]crypto.Hash, len(txs))
	for i, tx := range txs {
		hs[i] = tx.PayloadHash()
	}
	return hs
}

// write stores one more finalized snapshot at the next position, on a random chain.
func (s *vC35Sim) write() error {
	s.sim.Chain = s.sim.Net.NodeIds[s.rng.Intn(len(s.sim.Net.NodeIds))]
	ts := s.sim.NextTime(uint64(1 + s.rng.Intn(3e9)))
	txs, err := s.admit(ts)
	if err != nil {
		return fmt.Errorf("admit: %v", err)
	}

	// hostile variant first: the same transactions offered at an occupied position
	if s.rng.Intn(12) == 0 && len(s.model) > 0 {
		snap, err := s.sim.BuildSnapshot(vC35Hashes(txs), ts)
		if err != nil {
			return err
		}
		occupied := s.model[s.rng.Intn(len(s.model))]
		if s.rng.Intn(2) == 0 {
			occupied = s.model[len(s.model)-1]
		}
		snap.TopologicalOrder = occupied.Pos
		var werr error
		panicked, _, _ := verifkit.Guard(func() { werr = s.sim.Store.WriteSnapshot(snap, []crypto.Hash{s.sim.Chain}) })
		s.r.Eval()
		s.r.Count("attempt_write_at_occupied_position", 1)
		if !panicked && werr == nil {
			s.r.Violation("C35|WriteSnapshot|occupied-position-accepted",
				fmt.Sprintf("a second snapshot was stored at the occupied topology position %d", occupied.Pos),
				s.witness(map[string]any{"position": occupied.Pos, "previous_snapshot": occupied.Hash.String(), "new_snapshot": snap.PayloadHash().String()}))
			s.dead = true
			return nil
		}
		if panicked {
			s.r.Count("occupied_position_refused_by_panic", 1)
		} else {
			s.r.Count("occupied_position_refused_by_error", 1)
		}
		s.r.Nontrivial(fmt.Sprintf("occupied|%d|%d", s.idx, len(s.model)) + "|" + snap.PayloadHash().String())
		// the store must be unchanged: checked by the queries that follow and here
		s.checkLast("after-refused-write")
		s.checkLookup(occupied, "after-refused-write")
		if got, err := s.sim.Store.ReadSnapshot(snap.PayloadHash()); err != nil || got != nil {
			s.r.Violation("C35|ReadSnapshot|refused-snapshot-visible", "a snapshot whose write was refused can be looked up by hash",
				s.witness(map[string]any{"snapshot": snap.PayloadHash().String(), "error": fmt.Sprint(err)}))
		}
	}

	snap, panicked, err := s.sim.Finalize(txs, ts)
	if err != nil {
		return fmt.Errorf("finalize (panicked=%v): %v", panicked, err)
	}
	s.r.Eval()
	s.r.Count("snapshots_written", 1)
	s.r.Count(fmt.Sprintf("snapshots_with_%d_transactions", len(txs)), 1)
	rec := vC35Rec{Pos: snap.TopologicalOrder, Hash: snap.PayloadHash(), Node: snap.NodeId, Ntx: len(txs)}
	if rec.Pos != uint64(len(s.model)) {
		return fmt.Errorf("harness position bookkeeping: %d vs %d", rec.Pos, len(s.model))
	}
	s.model = append(s.model, rec)
	s.r.Nontrivial("write|" + rec.Hash.String())

	// the same snapshot again at a fresh position: one snapshot, one position
	if s.rng.Intn(25) == 0 {
		again := &common.SnapshotWithTopologicalOrder{Snapshot: snap.Snapshot, TopologicalOrder: uint64(len(s.model))}
		var werr error
		panicked, _, _ := verifkit.Guard(func() { werr = s.sim.Store.WriteSnapshot(again, []crypto.Hash{s.sim.Chain}) })
		s.r.Eval()
		s.r.Count("attempt_rewrite_same_snapshot", 1)
		if !panicked && werr == nil {
			s.r.Violation("C35|WriteSnapshot|same-snapshot-second-position",
				"a snapshot that is already stored was stored again at a second topology position",
				s.witness(map[string]any{"snapshot": rec.Hash.String(), "first_position": rec.Pos, "second_position": again.TopologicalOrder}))
			s.dead = true
			return nil
		}
		s.r.Nontrivial("rewrite|" + rec.Hash.String())
		s.checkLast("after-refused-write")
	}
	return nil
}

func (s *vC35Sim) checkLast(when string) {
	var last *common.SnapshotWithTopologicalOrder
	panicked, pv, _ := verifkit.Guard(func() { last, _ = s.sim.Store.LastSnapshot() })
	s.r.Count("checks_last_snapshot", 1)
	want := s.model[len(s.model)-1]
	if panicked {
		s.r.Violation("C35|LastSnapshot|panic", fmt.Sprintf("LastSnapshot panics (%v) with %d stored snapshots", pv, len(s.model)), s.witness(map[string]any{"when": when}))
		return
	}
	if last.TopologicalOrder != want.Pos || last.Hash != want.Hash || last.PayloadHash() != want.Hash {
		s.r.Violation("C35|LastSnapshot|not-the-highest-position",
			fmt.Sprintf("LastSnapshot reports position %d hash %s, the highest stored position is %d hash %s", last.TopologicalOrder, last.Hash, want.Pos, want.Hash),
			s.witness(map[string]any{"when": when}))
	}
}

func (s *vC35Sim) checkLookup(rec vC35Rec, when string) {
	got, err := s.sim.Store.ReadSnapshot(rec.Hash)
	s.r.Eval()
	s.r.Count("lookups_by_hash", 1)
	w := func() map[string]any {
		return s.witness(map[string]any{"when": when, "snapshot": rec.Hash.String(), "position": rec.Pos})
	}
	switch {
	case err != nil:
		s.r.Violation("C35|ReadSnapshot|error", fmt.Sprintf("lookup of a stored snapshot by hash fails: %v", err), w())
	case got == nil:
		s.r.Violation("C35|ReadSnapshot|missing", "a stored snapshot is not found by hash", w())
	case got.TopologicalOrder != rec.Pos:
		s.r.Violation("C35|ReadSnapshot|position", fmt.Sprintf("lookup by hash reports position %d, the snapshot was stored at %d", got.TopologicalOrder, rec.Pos), w())
	case got.Hash != rec.Hash || got.PayloadHash() != rec.Hash:
		s.r.Violation("C35|ReadSnapshot|payload", fmt.Sprintf("lookup by hash returns a snapshot with payload hash %s (field %s)", got.PayloadHash(), got.Hash), w())
	}
}

func (s *vC35Sim) randomOffset() (uint64, string) {
	n := uint64(len(s.model))
	switch s.rng.Intn(10) {
	case 0:
		return 0, "zero"
	case 1:
		return n - 1, "last"
	case 2:
		return n + uint64(s.rng.Intn(3)), "past-end"
	case 3:
		return []uint64{math.MaxUint64, math.MaxUint64 - 1, 1 << 63, 1 << 32}[s.rng.Intn(4)], "huge"
	case 4, 5:
		back := uint64(s.rng.Intn(620))
		if back >= n {
			back = n - 1
		}
		return n - 1 - back, "near-end"
	default:
		return uint64(s.rng.Int63n(int64(n))), "inside"
	}
}

func (s *vC35Sim) randomCount() uint64 {
	switch s.rng.Intn(10) {
	case 0:
		return 0
	case 1:
		return 1
	case 2:
		return 500
	case 3:
		return 499
	case 4, 5:
		return uint64(s.rng.Intn(12))
	default:
		return uint64(s.rng.Intn(501))
	}
}

// query lists from a random cursor and checks the window against the reference.
func (s *vC35Sim) query() {
	offset, oclass := s.randomOffset()
	count := s.randomCount()
	api := "ReadSnapshotsSinceTopology"
	var res []*common.SnapshotWithTopologicalOrder
	var txs [][]*common.VersionedTransaction
	var err error
	if s.rng.Intn(6) == 0 {
		api = "ReadSnapshotWithTransactionsSinceTopology"
		res, txs, err = s.sim.Store.ReadSnapshotWithTransactionsSinceTopology(offset, count)
	} else {
		res, err = s.sim.Store.ReadSnapshotsSinceTopology(offset, count)
	}
	s.r.Eval()
	s.r.Count("listings_"+oclass, 1)
	n := uint64(len(s.model))
	w := func(extra map[string]any) map[string]any {
		m := s.witness(map[string]any{"api": api, "offset": offset, "count": count, "returned": len(res)})
		for k, v := range extra {
			m[k] = v
		}
		return m
	}
	if err != nil {
		s.r.Violation("C35|"+api+"|error", fmt.Sprintf("listing from cursor fails: %v", err), w(nil))
		return
	}
	want := uint64(0)
	if offset < n {
		want = n - offset
		if want > count {
			want = count
		}
	}
	for i, it := range res {
		pos := offset + uint64(i)
		if i > 0 && it.TopologicalOrder <= res[i-1].TopologicalOrder {
			s.r.Violation("C35|"+api+"|order", fmt.Sprintf("listing is not in strictly increasing position order: item %d has position %d after %d", i, it.TopologicalOrder, res[i-1].TopologicalOrder), w(nil))
			return
		}
		if i == 0 && it.TopologicalOrder != offset {
			cls := "starts-after-cursor"
			if it.TopologicalOrder < offset {
				cls = "starts-before-cursor"
			}
			s.r.Violation("C35|"+api+"|"+cls, fmt.Sprintf("listing from cursor %d (stored positions 0..%d) starts at position %d", offset, n-1, it.TopologicalOrder), w(nil))
			return
		}
		if it.TopologicalOrder != pos {
			s.r.Violation("C35|"+api+"|position-skipped", fmt.Sprintf("listing from cursor %d: item %d has position %d, stored position %d was skipped", offset, i, it.TopologicalOrder, pos), w(nil))
			return
		}
		if pos >= n {
			s.r.Violation("C35|"+api+"|unknown-position", fmt.Sprintf("listing returns position %d, the highest stored position is %d", pos, n-1), w(nil))
			return
		}
		rec := s.model[pos]
		if ph := it.PayloadHash(); it.Hash != rec.Hash || ph != rec.Hash {
			s.r.Violation("C35|"+api+"|payload", fmt.Sprintf("position %d is listed with hash field %s and payload hash %s, the snapshot stored there has payload hash %s", pos, it.Hash, ph, rec.Hash), w(nil))
			return
		}
		if txs != nil && (len(txs) != len(res) || len(txs[i]) != rec.Ntx) {
			s.r.Violation("C35|"+api+"|transactions", fmt.Sprintf("position %d is listed with %d transactions, the snapshot has %d", pos, len(txs[i]), rec.Ntx), w(nil))
			return
		}
	}
	if uint64(len(res)) != want {
		cls := "short-listing"
		if uint64(len(res)) > want {
			cls = "long-listing"
		}
		s.r.Violation("C35|"+api+"|"+cls, fmt.Sprintf("listing from cursor %d with count %d returned %d snapshots, %d are stored in that window", offset, count, len(res), want), w(nil))
		return
	}
	if want > 0 {
		s.r.Nontrivial(fmt.Sprintf("list|%d|%d|%d|%d", s.idx, n, offset, count))
		s.r.Count("listed_snapshots", int(want))
		if want == 500 {
			s.r.Count("listings_full_500_window", 1)
		}
	} else {
		s.r.Count("listings_empty", 1)
	}
	// every listed snapshot must be found under the same position by hash (sampled)
	if len(res) > 0 {
		for k := 0; k < 2; k++ {
			s.checkLookup(s.model[offset+uint64(s.rng.Intn(len(res)))], "listed")
		}
	}
}

// dump checks the two durable indexes against each other and the reference.
func (s *vC35Sim) dump() {
	d := s.sim.Store.VerifDump("TOPOLOGY", "SNAPTOPO")
	s.r.Eval()
	s.r.Count("index_dumps", 1)
	var topo, rev int
	for k := range d {
		if bytes.HasPrefix([]byte(k), []byte("TOPOLOGY")) {
			topo++
		} else {
			rev++
		}
	}
	n := len(s.model)
	if topo != n || rev != n {
		s.r.Violation("C35|index|entry-count", fmt.Sprintf("%d snapshots stored, TOPOLOGY holds %d positions and SNAPTOPO %d hashes", n, topo, rev), s.witness(nil))
		return
	}
	for _, rec := range s.model {
		tk := binary.BigEndian.AppendUint64([]byte("TOPOLOGY"), rec.Pos)
		v, ok := d[string(tk)]
		if !ok {
			s.r.Violation("C35|index|position-missing", fmt.Sprintf("position %d has no TOPOLOGY entry", rec.Pos), s.witness(nil))
			return
		}
		if len(v) < 32 {
			s.r.Inconclusive("TOPOLOGY value layout changed; index dump not interpretable")
			return
		}
		if !bytes.Equal(v[len(v)-32:], rec.Hash[:]) {
			s.r.Violation("C35|index|position-points-elsewhere", fmt.Sprintf("TOPOLOGY[%d] points at snapshot %x, stored there: %s", rec.Pos, v[len(v)-32:], rec.Hash), s.witness(nil))
			return
		}
		rv, ok := d["SNAPTOPO"+string(rec.Hash[:])]
		if !ok || !bytes.Equal(rv, tk) {
			s.r.Violation("C35|index|reverse-index-mismatch", fmt.Sprintf("SNAPTOPO[%s] = %x, expected the key of position %d", rec.Hash, rv, rec.Pos), s.witness(nil))
			return
		}
	}
	s.r.Count("index_entries_checked", 2*n)
}

func vC35RunLedger(r *verifkit.Run, idx, writes, queriesPerWrite int, base string) error {
	rng := r.Fork("c35-ledger", idx)
	dir := filepath.Join(base, fmt.Sprintf("l%d", idx))
	nn := 7 + rng.Intn(5)
	sim, err := verifledger.NewSim(fmt.Sprintf("c35-%d-%d", r.Seed, idx), nn, 1700000000+int64(rng.Intn(1000000)), dir)
	if err != nil {
		return err
	}
	s := &vC35Sim{r: r, idx: idx, rng: rng, sim: sim}
	defer func() {
		s.sim.Close()
		_ = os.RemoveAll(dir)
	}()
	s.owner = verifgen.Addr(sim.Net.Label + ":owner")
	s.assets = []vC35Asset{
		{common.XINAssetId, common.XINAsset.Chain, common.XINAsset.AssetKey},
		{common.BitcoinAssetId, common.BitcoinAssetId, "c6d0c728-2624-429b-8e0d-d9d19b6592fa"},
		{common.EthereumAssetId, common.EthereumAssetId, "0x0000000000000000000000000000000000000000"},
		{crypto.Sha256Hash([]byte("verif-c35-asset")), common.EthereumAssetId, "0x3535353535353535353535353535353535353535"},
	}
	_, snaps, _, err := sim.Net.Genesis.BuildSnapshots()
	if err != nil {
		return err
	}
	for i, gs := range snaps {
		if gs.TopologicalOrder != uint64(i) {
			return fmt.Errorf("genesis snapshot %d has position %d", i, gs.TopologicalOrder)
		}
		s.model = append(s.model, vC35Rec{Pos: uint64(i), Hash: gs.PayloadHash(), Node: gs.NodeId, Ntx: len(gs.Transactions)})
	}
	s.checkLast("genesis")
	s.dump()

	var sample []map[string]any
	for k := 0; k < writes && !s.dead; k++ {
		if err := s.write(); err != nil {
			return err
		}
		if s.dead {
			break
		}
		// the node derives its next position from LastSnapshot at start-up
		if rng.Intn(8) == 0 {
			s.checkLast("after-write")
		}
		nq := rng.Intn(2*queriesPerWrite + 1)
		for q := 0; q < nq; q++ {
			s.query()
		}
		if rng.Intn(4) == 0 {
			s.checkLookup(s.model[rng.Intn(len(s.model))], "random")
		}
		if len(sample) < 6 {
			rec := s.model[len(s.model)-1]
			sample = append(sample, map[string]any{"position": rec.Pos, "snapshot": rec.Hash.String()[:16], "chain": rec.Node.String()[:16], "transactions": rec.Ntx, "listings_after": nq})
		}
		if k > 0 && k%(writes/3+1) == 0 { // restart: close and reopen the store
			s.sim.Close()
			if err := s.sim.Open(); err != nil {
				return fmt.Errorf("reopen: %v", err)
			}
			r.Count("store_restarts", 1)
			s.checkLast("after-restart")
			s.dump()
			for q := 0; q < 10; q++ {
				s.query()
			}
		}
	}
	if !s.dead {
		s.checkLast("end")
		s.dump()
	}
	if idx == 0 {
		r.Sample(map[string]any{"ledger": idx, "genesis_nodes": nn, "writes": writes, "first_writes": sample})
	}
	r.Count("ledgers", 1)
	return nil
}

// TestVerif_C35: local topology order is a strictly increasing unique cursor.
// vC35RunSparse: one more ledger whose positions increase strictly but not by one (the statement asks for strictly
// increasing positions, not consecutive ones): listings from random cursors return the first `count` stored
// snapshots at or after the cursor, in order, each with its own position and hash.
func vC35RunSparse(r *verifkit.Run, writes int, base string) error {
	rng := r.Fork("c35-sparse", 0)
	dir := filepath.Join(base, "sparse")
	sim, err := verifledger.NewSim(fmt.Sprintf("c35-%d-sparse", r.Seed), 7, 1700000000+int64(rng.Intn(1000000)), dir)
	if err != nil {
		return err
	}
	s := &vC35Sim{r: r, idx: 99, rng: rng, sim: sim}
	defer func() {
		s.sim.Close()
		_ = os.RemoveAll(dir)
	}()
	s.owner = verifgen.Addr(sim.Net.Label + ":owner")
	s.assets = []vC35Asset{{common.BitcoinAssetId, common.BitcoinAssetId, "c6d0c728-2624-429b-8e0d-d9d19b6592fa"}}
	type rec struct {
		pos  uint64
		hash crypto.Hash
	}
	var stored []rec
	gs, err := sim.Store.ReadSnapshotsSinceTopology(0, 500)
	if err != nil {
		return err
	}
	for _, g := range gs {
		stored = append(stored, rec{g.TopologicalOrder, g.PayloadHash()})
	}
	for wi := 0; wi < writes; wi++ {
		s.sim.Chain = s.sim.Net.NodeIds[rng.Intn(len(s.sim.Net.NodeIds))]
		ts := s.sim.NextTime(uint64(1 + rng.Intn(3e9)))
		txs, err := s.admit(ts)
		if err != nil {
			return fmt.Errorf("admit: %v", err)
		}
		if rng.Intn(3) == 0 { // leave a hole before this snapshot
			s.sim.Topo += uint64(1 + rng.Intn(40))
			r.Count("sparse_ledger_holes", 1)
		}
		snap, panicked, err := s.sim.Finalize(txs, ts)
		if err != nil {
			return fmt.Errorf("sparse finalize (panicked=%v): %v", panicked, err)
		}
		stored = append(stored, rec{snap.TopologicalOrder, snap.PayloadHash()})
		r.Count("sparse_ledger_snapshots_written", 1)
		for q := 0; q < 3; q++ {
			hi := stored[len(stored)-1].pos
			offset := uint64(rng.Int63n(int64(hi + 3)))
			if rng.Intn(3) == 0 { // a cursor on a stored position, or right after one
				offset = stored[rng.Intn(len(stored))].pos + uint64(rng.Intn(2))
			}
			count := uint64(1 + rng.Intn(40))
			if rng.Intn(5) == 0 {
				count = uint64(rng.Intn(501))
			}
			res, err := sim.Store.ReadSnapshotsSinceTopology(offset, count)
			r.Eval()
			r.Count("sparse_ledger_listings", 1)
			w := map[string]any{"offset": offset, "count": count, "returned": len(res), "highest_stored_position": hi, "stored_snapshots": len(stored)}
			if err != nil {
				r.Violation("C35|ReadSnapshotsSinceTopology|error|sparse-positions", fmt.Sprintf("listing from cursor fails: %v", err), w)
				return nil
			}
			var want []rec
			for _, x := range stored {
				if x.pos >= offset && uint64(len(want)) < count {
					want = append(want, x)
				}
			}
			bad := ""
			if len(res) != len(want) {
				bad = fmt.Sprintf("returns %d snapshots, %d stored snapshots lie at or after the cursor (count %d)", len(res), len(want), count)
			} else {
				for i := range res {
					if res[i].TopologicalOrder != want[i].pos || res[i].PayloadHash() != want[i].hash {
						bad = fmt.Sprintf("item %d is position %d, expected the stored snapshot at position %d", i, res[i].TopologicalOrder, want[i].pos)
						break
					}
				}
			}
			if bad != "" {
				r.Violation("C35|ReadSnapshotsSinceTopology|window|sparse-positions", "listing from cursor "+fmt.Sprint(offset)+" over strictly increasing, non-consecutive positions "+bad, w)
				return nil
			}
			if len(res) > 0 {
				r.Nontrivial(fmt.Sprintf("sparse|%d|%d|%d", len(stored), offset, count))
			}
		}
		if got, err := sim.Store.ReadSnapshot(snap.PayloadHash()); err != nil || got == nil || got.TopologicalOrder != snap.TopologicalOrder {
			r.Violation("C35|ReadSnapshot|position|sparse-positions", "lookup by hash does not report the position the snapshot was stored at", map[string]any{"position": snap.TopologicalOrder})
			return nil
		}
	}
	return nil
}

func TestVerif_C35(t *testing.T) {
	r := verifkit.Start(t, "C35", "exploration")
	r.SetRule("independent ledgers (real BadgerStore, own genesis with 7..11 nodes); each write finalizes one snapshot of 1..3 validated deposit transactions on a random chain through " +
		"WriteSnapshot at position last+1 (the node's assignment rule), interleaved with listings from random cursors (0, inside, within 620 of the end, last, past the end, huge) and " +
		"counts 0..500 through both listing APIs, lookups by hash, LastSnapshot, store restarts, TOPOLOGY/SNAPTOPO dumps, and refused writes (occupied position, already stored snapshot); " +
		"non-trivial = distinct snapshot writes plus distinct (ledger length, cursor, count) listings that returned at least one snapshot plus distinct refused hostile writes")
	r.Assume("positions are assigned the way kernel.TopoWrite does (previous position + 1 under one lock, initial value from LastSnapshot); the in-memory counter itself is exercised by the kernel-level checks, here LastSnapshot is verified to be the highest stored position, also across restarts")
	r.Assume("listing counts above the 500 limit are outside the quantifier and not queried")

	ledgers := r.N(3, 8)
	writes := r.N(620, 6500)
	qpw := r.N(3, 3)
	base := t.TempDir()
	var wg sync.WaitGroup
	var mu sync.Mutex
	var firstErr error
	sem := make(chan struct{}, 4)
	for i := 0; i < ledgers; i++ {
		wg.Add(1)
		go func(i int) {
			defer wg.Done()
			sem <- struct{}{}
			defer func() { <-sem }()
			if err := vC35RunLedger(r, i, writes, qpw, base); err != nil {
				mu.Lock()
				if firstErr == nil {
					firstErr = fmt.Errorf("ledger %d: %v", i, err)
				}
				mu.Unlock()
			}
		}(i)
	}
	wg.Wait()
	if err := vC35RunSparse(r, r.N(150, 1500), base); err != nil && firstErr == nil {
		firstErr = fmt.Errorf("sparse ledger: %v", err)
	}
	if firstErr != nil {
		r.Inconclusive("harness error: " + firstErr.Error())
	}
	if r.Counter("snapshots_written") < int64(ledgers*writes*9/10) {
		r.Inconclusive(fmt.Sprintf("only %d snapshots were written", r.Counter("snapshots_written")))
	}
	if r.Counter("listings_full_500_window") < 5 {
		r.Inconclusive("fewer than 5 listings filled the 500 window")
	}
	if r.Counter("attempt_write_at_occupied_position") < 10 {
		r.Inconclusive("fewer than 10 writes at an occupied position were attempted")
	}
	r.Finish()
}
