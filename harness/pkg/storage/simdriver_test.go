package storage_test

// Shared history driver for the storage-level monitors: produces validated
// transactions of every class on a verifledger.Sim.

import (
	"fmt"
	"math/big"
	"math/rand"
	"sort"

	"github.com/MixinNetwork/mixin/common"
	"github.com/MixinNetwork/mixin/crypto"
	"github.com/MixinNetwork/mixin/verifgen"
	"github.com/MixinNetwork/mixin/verifledger"
)

type verifSDNode struct {
	cand    *verifgen.Candidate
	pledge  *common.VersionedTransaction
	accept  *common.VersionedTransaction
	funding *verifgen.Out
	state   string
}

type verifSDriver struct {
	sim     *verifledger.Sim
	w       *verifgen.Wallet
	rng     *rand.Rand
	assets  []verifgen.AssetInfo
	nodes   []*verifSDNode
	pending *verifSDNode
	submits []crypto.Hash // finalized withdrawal submissions not yet claimed
	batch   uint64
	n       int
}

type verifSDTx struct {
	Kind  string
	Tx    *common.VersionedTransaction
	Specs []verifgen.OutSpec
	Ins   []*verifgen.Out
	apply func()
}

func newVerifSDriver(sim *verifledger.Sim, rng *rand.Rand) *verifSDriver {
	d := &verifSDriver{sim: sim, rng: rng, assets: verifgen.Assets(), batch: 2000}
	d.w = verifgen.NewWallet(sim.Net.Label, rng, &sim.Net.Custodian, 5)
	return d
}

func (d *verifSDriver) refs() []crypto.Hash { return []crypto.Hash{d.sim.LastConsensusTx} }

// next builds one candidate transaction of a random class (nil when the class
// is not possible right now). Consensus-class transactions are marked Lone.
func (d *verifSDriver) next() *verifSDTx {
	d.n++
	r := d.rng.Intn(100)
	xin := d.assets[0]
	switch {
	case r < 30 || len(d.w.Outs) < 4:
		a := d.assets[d.rng.Intn(len(d.assets))]
		tx, specs := d.w.Deposit(a, big.NewInt(int64(1+d.rng.Intn(5e8))))
		return &verifSDTx{Kind: "deposit", Tx: tx, Specs: specs}
	case r < 60:
		tx, specs, ins := d.w.Transfer(1+d.rng.Intn(3), 1+d.rng.Intn(3), true)
		if tx == nil {
			return nil
		}
		return &verifSDTx{Kind: "transfer", Tx: tx, Specs: specs, Ins: ins}
	case r < 70:
		tx, specs, _ := d.w.TransferWithdrawal(1+d.rng.Intn(2), 1+d.rng.Intn(3), true)
		if tx == nil {
			return nil
		}
		h := tx.PayloadHash()
		return &verifSDTx{Kind: "withdrawal-submit", Tx: tx, Specs: specs, apply: func() { d.submits = append(d.submits, h) }}
	case r < 76:
		if len(d.submits) == 0 {
			return nil
		}
		var ins []*verifgen.Out
		for _, o := range d.w.Outs {
			if o.Asset == xin.Id && verifgen.UnitsOf(o.Amount).Cmp(big.NewInt(20000)) > 0 {
				ins = []*verifgen.Out{o}
				break
			}
		}
		if ins == nil {
			return nil
		}
		total := verifgen.UnitsOf(ins[0].Amount)
		fee := big.NewInt(10000) // 0.0001
		spec := d.w.Spec(verifgen.Units(new(big.Int).Sub(total, fee)), 2)
		submit := d.submits[0]
		tx := verifgen.WithdrawalClaim(d.w.Custodian, submit, ins, []verifgen.OutSpec{spec}, verifgen.Units(fee), fmt.Sprint(d.n))
		d.w.Remove(ins)
		specs := []verifgen.OutSpec{{Type: common.OutputTypeWithdrawalClaim}, spec}
		return &verifSDTx{Kind: "withdrawal-claim", Tx: tx, Specs: specs, apply: func() { d.submits = d.submits[1:] }}
	case r < 82:
		d.batch++
		units := big.NewInt(int64(1 + d.rng.Intn(90_0000_0000)))
		parts := verifgen.Split(d.rng, units, 1+d.rng.Intn(3))
		var specs []verifgen.OutSpec
		for _, p := range parts {
			specs = append(specs, d.w.Spec(verifgen.Units(p), 2))
		}
		tx := verifgen.Mint(d.batch, verifgen.Units(units), specs, &d.sim.Net.Signers[0], d.refs())
		return &verifSDTx{Kind: "mint", Tx: tx, Specs: specs}
	case r < 88:
		if d.pending != nil {
			return d.resolvePending()
		}
		// fund and pledge a new candidate: the funding deposit is a separate earlier step
		for _, o := range d.w.Outs {
			if o.Asset == xin.Id && len(o.Keys) == 1 && o.Amount.Cmp(common.KernelNodePledgeAmount) == 0 && len(o.Owners) == 1 {
				c := verifgen.NewCandidate(fmt.Sprintf("%s:cand:%d", d.sim.Net.Label, d.n))
				c.Funder = o.Owners[0]
				tx := verifgen.Pledge(c, o, d.refs())
				d.w.Remove([]*verifgen.Out{o})
				n := &verifSDNode{cand: c, pledge: tx, funding: o, state: common.NodeStatePledging}
				return &verifSDTx{Kind: "node-pledge", Tx: tx, Specs: []verifgen.OutSpec{{Type: common.OutputTypeNodePledge}}, apply: func() { d.pending = n }}
			}
		}
		// no exact output yet: deposit one for a single owner
		owner := d.w.Addrs[d.rng.Intn(len(d.w.Addrs))]
		spec := verifgen.OutSpec{Type: common.OutputTypeScript, Owners: []common.Address{owner}, Threshold: 1, Amount: common.KernelNodePledgeAmount, Seed: d.w.Seed()}
		tx := verifgen.Deposit(d.w.Custodian, xin.Id, xin.Chain, xin.Key, fmt.Sprintf("0xpledgefund-%s-%d", d.sim.Net.Label, d.n), 0, common.KernelNodePledgeAmount, spec)
		return &verifSDTx{Kind: "deposit", Tx: tx, Specs: []verifgen.OutSpec{spec}}
	case r < 94:
		if d.pending != nil {
			return d.resolvePending()
		}
		return nil
	default:
		if d.pending != nil {
			return nil // removal needs no pledging node at kernel level; keep histories lifecycle-like
		}
		// remove an accepted node: a harness-accepted one, else a genesis node
		for _, n := range d.nodes {
			if n.state == common.NodeStateAccepted {
				nn := n
				tx := verifgen.Remove(n.cand.Signer.PublicSpendKey, n.cand.Payee.PublicSpendKey, &n.cand.Payee, n.accept, d.w.Seed(), d.refs())
				return &verifSDTx{Kind: "node-remove", Tx: tx, Specs: []verifgen.OutSpec{{Type: common.OutputTypeNodeRemove}}, apply: func() { nn.state = common.NodeStateRemoved }}
			}
		}
		return nil
	}
}

func (d *verifSDriver) resolvePending() *verifSDTx {
	n := d.pending
	if d.rng.Intn(3) == 0 {
		tx := verifgen.Cancel(n.cand, n.pledge, n.funding, d.w.Seed(), d.refs())
		spec := verifgen.OutSpec{Type: common.OutputTypeScript, Owners: []common.Address{n.cand.Funder}, Threshold: 1}
		return &verifSDTx{Kind: "node-cancel", Tx: tx, Specs: []verifgen.OutSpec{{Type: common.OutputTypeNodeCancel}, spec},
			apply: func() { n.state = common.NodeStateCancelled; d.pending = nil }}
	}
	tx := verifgen.Accept(n.cand, n.pledge, d.refs())
	return &verifSDTx{Kind: "node-accept", Tx: tx, Specs: []verifgen.OutSpec{{Type: common.OutputTypeNodeAccept}},
		apply: func() { n.state = common.NodeStateAccepted; n.accept = tx; d.nodes = append(d.nodes, n); d.pending = nil }}
}

// applied tells the driver that t was finalized.
func (d *verifSDriver) applied(t *verifSDTx) {
	d.w.Applied(t.Tx, t.Specs)
	if t.apply != nil {
		t.apply()
	}
}

func verifSDLone(kind string) bool {
	switch kind {
	case "mint", "node-pledge", "node-accept", "node-cancel", "node-remove", "custodian-update":
		return true
	}
	return false
}

// verifSDSnapshotOn builds the next snapshot of another node's chain (head round).
func verifSDSnapshotOn(sim *verifledger.Sim, chain crypto.Hash, hashes []crypto.Hash, ts uint64) (*common.SnapshotWithTopologicalOrder, error) {
	head, err := sim.Store.ReadRound(chain)
	if err != nil || head == nil {
		return nil, fmt.Errorf("no head round: %v", err)
	}
	s := &common.Snapshot{Version: common.SnapshotVersionCommonEncoding, NodeId: chain, RoundNumber: head.Number, References: head.References, Timestamp: ts}
	hs := append([]crypto.Hash{}, hashes...)
	sort.Slice(hs, func(i, j int) bool { return string(hs[i][:]) < string(hs[j][:]) })
	s.Transactions = hs
	s.Signature = &crypto.CosiSignature{Mask: 1}
	s.Hash = s.PayloadHash()
	return &common.SnapshotWithTopologicalOrder{Snapshot: s, TopologicalOrder: sim.Topo + 1}, nil
}

