package storage_test

// Shared history driver for the storage-level monitors: produces validated
// transactions of every class on a verifledger.Sim.

import (
	"fmt"
	"math/big"
	"math/rand"
	"sort"

	"github.com/MixinNetwork/mixin/common"
	"github.com/MixinNetwork/mixin/crypto"
	"github.com/MixinNetwork/mixin/verifgen"
	"github.com/MixinNetwork/mixin/verifledger"
)

type verifSDNode struct {
	cand    *verifgen.Candidate
	pledge  *common.VersionedTransaction
	accept  *common.VersionedTransaction
	funding *verifgen.Out
	state   string
}

type verifSDriver struct {
	sim     *verifledger.Sim
	w       *verifgen.Wallet
	rng     *rand.Rand
	assets  []verifgen.AssetInfo
	nodes   []*verifSDNode
	pending *verifSDNode
	submits []crypto.Hash // finalized withdrawal submissions not yet claimed
	batch   uint64
	n       int
	// deposits built so far per asset (finalized or not): the driver stays below the deposit capacity of every
	// asset, because deposits that are admissible one by one but exceed the capacity together cannot be
	// finalized (C16's recorded finding), which is not what the monitors using this driver are about
	deposited map[crypto.Hash]*big.Int
	fresh     int
}

type verifSDTx struct {
	Kind  string
	Tx    *common.VersionedTransaction
	Specs []verifgen.OutSpec
	Ins   []*verifgen.Out
	apply func()
}

func newVerifSDriver(sim *verifledger.Sim, rng *rand.Rand) *verifSDriver {
	d := &verifSDriver{sim: sim, rng: rng, assets: append([]verifgen.AssetInfo{}, verifgen.Assets()...), batch: 2000, deposited: map[crypto.Hash]*big.Int{}}
	d.w = verifgen.NewWallet(sim.Net.Label, rng, &sim.Net.Custodian, 5)
	return d
}

func (d *verifSDriver) refs() []crypto.Hash { return []crypto.Hash{d.sim.LastConsensusTx} }

// next builds one candidate transaction of a random class (nil when the class
// is not possible right now). Consensus-class transactions are marked Lone.
func (d *verifSDriver) next() *verifSDTx {
	d.n++
	r := d.rng.Intn(100)
	xin := d.assets[0]
	switch {
	case r < 30 || len(d.w.Outs) < 4:
		units := big.NewInt(int64(1 + d.rng.Intn(5e8)))
		a := d.depositAsset(units)
		tx, specs := d.w.Deposit(a, units)
		return &verifSDTx{Kind: "deposit", Tx: tx, Specs: specs}
	case r < 60:
		tx, specs, ins := d.w.Transfer(1+d.rng.Intn(3), 1+d.rng.Intn(3), true)
		if tx == nil {
			return nil
		}
		return &verifSDTx{Kind: "transfer", Tx: tx, Specs: specs, Ins: ins}
	case r < 70:
		tx, specs, _ := d.w.TransferWithdrawal(1+d.rng.Intn(2), 1+d.rng.Intn(3), true)
		if tx == nil {
			return nil
		}
		h := tx.PayloadHash()
		return &verifSDTx{Kind: "withdrawal-submit", Tx: tx, Specs: specs, apply: func() { d.submits = append(d.submits, h) }}
	case r < 76:
		if len(d.submits) == 0 {
			return nil
		}
		var ins []*verifgen.Out
		for _, o := range d.w.Outs {
			if o.Asset == xin.Id && verifgen.UnitsOf(o.Amount).Cmp(big.NewInt(20000)) > 0 {
				ins = []*verifgen.Out{o}
				break
			}
		}
		if ins == nil {
			return nil
		}
		total := verifgen.UnitsOf(ins[0].Amount)
		fee := big.NewInt(10000) // 0.0001
		spec := d.w.Spec(verifgen.Units(new(big.Int).Sub(total, fee)), 2)
		submit := d.submits[0]
		change := []verifgen.OutSpec{spec}
		kind := "withdrawal-claim"
		if d.rng.Intn(4) == 0 {
			// hostile shape: a further output of a special type hidden behind the change output (validation
			// is expected to refuse it; if it does not, the ledger monitors see the consequences)
			x := big.NewInt(int64(1 + d.rng.Intn(5000)))
			spec = d.w.Spec(verifgen.Units(new(big.Int).Sub(new(big.Int).Sub(total, fee), x)), 2)
			extra := verifgen.OutSpec{Type: common.OutputTypeWithdrawalSubmit, Amount: verifgen.Units(x), Withdrawal: &common.WithdrawalData{Address: "hidden", Tag: "t"}}
			if d.rng.Intn(2) == 0 {
				extra = verifgen.OutSpec{Type: common.OutputTypeWithdrawalClaim, Amount: verifgen.Units(x)}
			}
			change = []verifgen.OutSpec{spec, extra}
			kind = "withdrawal-claim-with-hidden-special-output"
		}
		tx := verifgen.WithdrawalClaim(d.w.Custodian, submit, ins, change, verifgen.Units(fee), fmt.Sprint(d.n))
		d.w.Remove(ins)
		specs := append([]verifgen.OutSpec{{Type: common.OutputTypeWithdrawalClaim}}, change...)
		return &verifSDTx{Kind: kind, Tx: tx, Specs: specs, apply: func() {
			for i, h := range d.submits { // several candidates may have been built for the same submission
				if h == submit {
					d.submits = append(d.submits[:i:i], d.submits[i+1:]...)
					break
				}
			}
		}}
	case r < 82:
		d.batch++
		units := big.NewInt(int64(1 + d.rng.Intn(90_0000_0000)))
		parts := verifgen.Split(d.rng, units, 1+d.rng.Intn(3))
		var specs []verifgen.OutSpec
		for _, p := range parts {
			specs = append(specs, d.w.Spec(verifgen.Units(p), 2))
		}
		tx := verifgen.Mint(d.batch, verifgen.Units(units), specs, &d.sim.Net.Signers[0], d.refs())
		return &verifSDTx{Kind: "mint", Tx: tx, Specs: specs}
	case r < 88:
		if d.pending != nil {
			return d.resolvePending()
		}
		// fund and pledge a new candidate: the funding deposit is a separate earlier step
		for _, o := range d.w.Outs {
			if o.Asset == xin.Id && len(o.Keys) == 1 && o.Amount.Cmp(common.KernelNodePledgeAmount) == 0 && len(o.Owners) == 1 {
				c := verifgen.NewCandidate(fmt.Sprintf("%s:cand:%d", d.sim.Net.Label, d.n))
				c.Funder = o.Owners[0]
				tx := verifgen.Pledge(c, o, d.refs())
				d.w.Remove([]*verifgen.Out{o})
				n := &verifSDNode{cand: c, pledge: tx, funding: o, state: common.NodeStatePledging}
				return &verifSDTx{Kind: "node-pledge", Tx: tx, Specs: []verifgen.OutSpec{{Type: common.OutputTypeNodePledge}}, apply: func() { d.pending = n }}
			}
		}
		// no exact output yet: deposit one for a single owner (while XIN deposits stay below 60% of its capacity)
		pu := verifgen.UnitsOf(common.KernelNodePledgeAmount)
		xl := verifgen.UnitsOf(common.GetAssetCapacity(xin.Id))
		xl.Mul(xl, big.NewInt(6)).Div(xl, big.NewInt(10))
		if d.deposited[xin.Id] == nil {
			d.deposited[xin.Id] = new(big.Int)
		}
		if new(big.Int).Add(d.deposited[xin.Id], pu).Cmp(xl) > 0 {
			return nil
		}
		d.deposited[xin.Id].Add(d.deposited[xin.Id], pu)
		owner := d.w.Addrs[d.rng.Intn(len(d.w.Addrs))]
		spec := verifgen.OutSpec{Type: common.OutputTypeScript, Owners: []common.Address{owner}, Threshold: 1, Amount: common.KernelNodePledgeAmount, Seed: d.w.Seed()}
		tx := verifgen.Deposit(d.w.Custodian, xin.Id, xin.Chain, xin.Key, fmt.Sprintf("0xpledgefund-%s-%d", d.sim.Net.Label, d.n), 0, common.KernelNodePledgeAmount, spec)
		return &verifSDTx{Kind: "deposit", Tx: tx, Specs: []verifgen.OutSpec{spec}}
	case r < 94:
		if d.pending != nil {
			return d.resolvePending()
		}
		return nil
	default:
		if d.pending != nil {
			return nil // removal needs no pledging node at kernel level; keep histories lifecycle-like
		}
		// remove an accepted node: a harness-accepted one, else a genesis node
		for _, n := range d.nodes {
			if n.state == common.NodeStateAccepted {
				nn := n
				tx := verifgen.Remove(n.cand.Signer.PublicSpendKey, n.cand.Payee.PublicSpendKey, &n.cand.Payee, n.accept, d.w.Seed(), d.refs())
				return &verifSDTx{Kind: "node-remove", Tx: tx, Specs: []verifgen.OutSpec{{Type: common.OutputTypeNodeRemove}}, apply: func() { nn.state = common.NodeStateRemoved }}
			}
		}
		return nil
	}
}

// reserveXIN books a XIN deposit made outside next() against the same 60% budget; false when it does not fit.
func (d *verifSDriver) reserveXIN(amount common.Integer) bool {
	xin := d.assets[0]
	lim := verifgen.UnitsOf(common.GetAssetCapacity(xin.Id))
	lim.Mul(lim, big.NewInt(6)).Div(lim, big.NewInt(10))
	if d.deposited[xin.Id] == nil {
		d.deposited[xin.Id] = new(big.Int)
	}
	u := verifgen.UnitsOf(amount)
	if new(big.Int).Add(d.deposited[xin.Id], u).Cmp(lim) > 0 {
		return false
	}
	d.deposited[xin.Id].Add(d.deposited[xin.Id], u)
	return true
}

// depositAsset picks the asset of the next deposit; an asset (other than XIN) whose deposits reach 80% of
// its capacity is retired and replaced by a fresh one.
func (d *verifSDriver) depositAsset(units *big.Int) verifgen.AssetInfo {
	for {
		i := d.rng.Intn(len(d.assets))
		a := d.assets[i]
		used := d.deposited[a.Id]
		if used == nil {
			used = new(big.Int)
			d.deposited[a.Id] = used
		}
		limit := verifgen.UnitsOf(common.GetAssetCapacity(a.Id))
		if i == 0 {
			limit.Mul(limit, big.NewInt(6)).Div(limit, big.NewInt(10)) // genesis pledges and mints also count towards XIN's total
		} else {
			limit.Mul(limit, big.NewInt(8)).Div(limit, big.NewInt(10))
		}
		if new(big.Int).Add(used, units).Cmp(limit) <= 0 {
			used.Add(used, units)
			return a
		}
		if i == 0 {
			continue // XIN is never retired; another asset takes the deposit
		}
		d.fresh++
		d.assets[i] = verifgen.AssetInfo{Id: crypto.Sha256Hash([]byte(fmt.Sprintf("sd-fresh-%s-%d", d.sim.Net.Label, d.fresh))), Chain: common.EthereumAssetId, Key: fmt.Sprintf("0xb%039d", d.fresh)}
	}
}

func (d *verifSDriver) resolvePending() *verifSDTx {
	n := d.pending
	if d.rng.Intn(3) == 0 {
		tx := verifgen.Cancel(n.cand, n.pledge, n.funding, d.w.Seed(), d.refs())
		spec := verifgen.OutSpec{Type: common.OutputTypeScript, Owners: []common.Address{n.cand.Funder}, Threshold: 1}
		return &verifSDTx{Kind: "node-cancel", Tx: tx, Specs: []verifgen.OutSpec{{Type: common.OutputTypeNodeCancel}, spec},
			apply: func() { n.state = common.NodeStateCancelled; d.pending = nil }}
	}
	tx := verifgen.Accept(n.cand, n.pledge, d.refs())
	return &verifSDTx{Kind: "node-accept", Tx: tx, Specs: []verifgen.OutSpec{{Type: common.OutputTypeNodeAccept}},
		apply: func() {
			n.state = common.NodeStateAccepted
			n.accept = tx
			d.nodes = append(d.nodes, n)
			d.pending = nil
		}}
}

// applied tells the driver that t was finalized.
func (d *verifSDriver) applied(t *verifSDTx) {
	d.w.Applied(t.Tx, t.Specs)
	if t.apply != nil {
		t.apply()
	}
}

func verifSDLone(kind string) bool {
	switch kind {
	case "mint", "node-pledge", "node-accept", "node-cancel", "node-remove", "custodian-update":
		return true
	}
	return false
}

// verifSDSnapshotOn builds the next snapshot of another node's chain (head round).
func verifSDSnapshotOn(sim *verifledger.Sim, chain crypto.Hash, hashes []crypto.Hash, ts uint64) (*common.SnapshotWithTopologicalOrder, error) {
	head, err := sim.Store.ReadRound(chain)
	if err != nil || head == nil {
		return nil, fmt.Errorf("no head round: %v", err)
	}
	s := &common.Snapshot{Version: common.SnapshotVersionCommonEncoding, NodeId: chain, RoundNumber: head.Number, References: head.References, Timestamp: ts}
	hs := append([]crypto.Hash{}, hashes...)
	sort.Slice(hs, func(i, j int) bool { return string(hs[i][:]) < string(hs[j][:]) })
	s.Transactions = hs
	s.Signature = &crypto.CosiSignature{Mask: 1}
	s.Hash = s.PayloadHash()
	return &common.SnapshotWithTopologicalOrder{Snapshot: s, TopologicalOrder: sim.Topo + 1}, nil
}
