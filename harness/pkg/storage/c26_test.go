package storage_test

import (
	"errors"
	"fmt"
	"math/rand"
	"sort"
	"sync"
	"testing"

	"github.com/MixinNetwork/mixin/common"
	"github.com/MixinNetwork/mixin/crypto"
	"github.com/MixinNetwork/mixin/storage"
	"github.com/MixinNetwork/mixin/verifkit"
	"github.com/MixinNetwork/mixin/verifledger"
	"github.com/dgraph-io/badger/v4"
)

// C26: node work is credited exactly once per snapshot.
//
// Black-box on WriteRoundWork / ListNodeWorks / ReadWorkOffset of a real
// BadgerStore. The reference is a plain map (day, node) -> [proposal, signing]
// credits: a snapshot is credited the first time it appears in a credited
// submission of its round: +1 proposal credit to the proposer, +1 signing
// credit to every other signer, on the snapshot's day. Everything else
// (repeats, grown sets, stale replays, restarts) must add nothing.

const vC26Day = uint64(86400) * 1000000000

type vC26Round struct {
	number    uint64
	day       uint32
	credit    bool
	works     []*common.SnapshotWork // arrival order; a submission is a prefix of it
	submitted int                    // largest prefix submitted so far
	calls     int                    // number of submissions of this round while it was current
	pattern   []int                  // prefix lengths submitted (for the evidence)
}

type vC26Node struct {
	idx    int
	id     crypto.Hash
	rounds map[uint64]*vC26Round
	first  uint64 // number of the first round ever submitted
	cur    *vC26Round
	clock  uint64
	begun  bool
}

type vC26Credits map[uint32]map[crypto.Hash][2]uint64

func (c vC26Credits) add(day uint32, id crypto.Hash, lead, sign uint64) {
	m := c[day]
	if m == nil {
		m = make(map[crypto.Hash][2]uint64)
		c[day] = m
	}
	v := m[id]
	v[0] += lead
	v[1] += sign
	m[id] = v
}

type vC26Sub struct {
	node    *vC26Node
	round   *vC26Round
	prefix  int
	kind    string // first | repeat | grow | stale
	list    []*common.SnapshotWork
	shuffle bool
}

type vC26World struct {
	t      *testing.T
	r      *verifkit.Run
	rng    *rand.Rand
	dir    string
	store  *storage.BadgerStore
	nodes  []*vC26Node
	ids    []crypto.Hash // all node ids plus one id that never takes part
	ref    vC26Credits
	days   map[uint32]bool
	seq    int
	broken bool // set by the single driver goroutine or, during a burst, before wg.Wait returns
	mu     sync.Mutex
}

func (w *vC26World) open() {
	signer := crypto.NewKeyFromSeed(make([]byte, 64))
	st, err := storage.NewBadgerStore(verifledger.NewCustom(signer), w.dir)
	if err != nil {
		w.t.Fatalf("open store: %v", err)
	}
	w.store = st
}

// newRound generates the next round of a node: 1..6 snapshots of one day, each
// with a random signer set that contains the proposer.
func (w *vC26World) newRound(n *vC26Node, number uint64) *vC26Round {
	rng := w.rng
	day := uint32(n.clock / vC26Day)
	if !n.begun {
		day = uint32(19700 + rng.Intn(3))
		n.clock = uint64(day)*vC26Day + uint64(rng.Int63n(int64(vC26Day/2)))
		if rng.Intn(3) == 0 {
			n.clock = uint64(day) * vC26Day // first snapshot exactly at the start of the day
		}
		n.begun = true
	} else if rng.Intn(100) < 15 {
		day += uint32(1 + rng.Intn(2))
		n.clock = uint64(day) * vC26Day
		if rng.Intn(3) != 0 {
			n.clock += uint64(rng.Int63n(int64(vC26Day / 2)))
		}
	}
	k := 1 + rng.Intn(6)
	// now and then a round of several hundred snapshots (nothing bounds the number of snapshots of a round; the first
	// node's third round always is one)
	big := n.idx == 0 && number == n.first+2 || rng.Intn(150) == 0
	if big {
		k = 200 + rng.Intn(300)
		w.r.Count("rounds_of_200_to_500_snapshots", 1)
	}
	var ts []uint64
	for {
		ts = ts[:0]
		c := n.clock
		for i := 0; i < k; i++ {
			if i > 0 || c%vC26Day != 0 { // a round may begin exactly at the start of a day
				if big {
					c += 1 + uint64(rng.Int63n(5_000_000))
				} else {
					c += 1 + uint64(rng.Int63n(2_000_000_000))
				}
			}
			ts = append(ts, c)
		}
		if uint32(ts[k-1]/vC26Day) == day && uint32(ts[0]/vC26Day) == day {
			if rng.Intn(40) == 0 && k > 1 {
				ts[k-1] = uint64(day)*vC26Day + vC26Day - 1 // last nanosecond of the day
			}
			break
		}
		day++
		n.clock = uint64(day) * vC26Day
	}
	n.clock = ts[k-1] + 1
	if n.clock/vC26Day != uint64(day) {
		n.clock = uint64(day+1) * vC26Day
	}
	rd := &vC26Round{number: number, day: day, credit: rng.Intn(100) < 92}
	for i := 0; i < k; i++ {
		sw := &common.SnapshotWork{
			Hash:      crypto.Blake3Hash([]byte(fmt.Sprintf("c26:%d:%d:%d:%d", w.r.Seed, n.idx, number, i))),
			Timestamp: ts[i],
		}
		sw.Signers = append(sw.Signers, n.id)
		for _, o := range w.nodes {
			if o != n && rng.Intn(100) < 60 {
				sw.Signers = append(sw.Signers, o.id)
			}
		}
		rng.Shuffle(len(sw.Signers), func(a, b int) { sw.Signers[a], sw.Signers[b] = sw.Signers[b], sw.Signers[a] })
		rd.works = append(rd.works, sw)
	}
	if rng.Intn(100) < 30 { // snapshots do not always become known in timestamp order
		rng.Shuffle(len(rd.works), func(a, b int) { rd.works[a], rd.works[b] = rd.works[b], rd.works[a] })
	}
	n.rounds[number] = rd
	w.days[day] = true
	return rd
}

// next picks the next submission of a node.
func (w *vC26World) next(n *vC26Node, allowStale bool) *vC26Sub {
	rng := w.rng
	if n.cur == nil {
		n.first = uint64(rng.Intn(2))
		n.cur = w.newRound(n, n.first)
	}
	cur := n.cur
	sub := &vC26Sub{node: n}
	c := rng.Intn(100)
	switch {
	case allowStale && cur.number > n.first && c < 12:
		// replay of an earlier round (any prefix of its set): must change nothing
		sub.round = n.rounds[n.first+uint64(rng.Int63n(int64(cur.number-n.first)))]
		sub.prefix = rng.Intn(len(sub.round.works) + 1)
		sub.kind = "stale"
	case cur.calls > 0 && cur.submitted == len(cur.works) && c < 50:
		// the round is complete and was submitted in full: move on
		n.cur = w.newRound(n, cur.number+1)
		cur = n.cur
		sub.round = cur
		sub.prefix = 1 + rng.Intn(len(cur.works))
		if rng.Intn(25) == 0 {
			sub.prefix = 0
		}
		sub.kind = "first"
	case cur.calls == 0:
		sub.round = cur
		sub.prefix = 1 + rng.Intn(len(cur.works))
		if rng.Intn(25) == 0 {
			sub.prefix = 0
		}
		sub.kind = "first"
	case cur.submitted < len(cur.works) && c < 65:
		sub.round = cur
		sub.prefix = cur.submitted + 1 + rng.Intn(len(cur.works)-cur.submitted)
		sub.kind = "grow"
	default:
		sub.round = cur
		sub.prefix = cur.submitted
		sub.kind = "repeat"
	}
	sub.list = append([]*common.SnapshotWork{}, sub.round.works[:sub.prefix]...)
	if rng.Intn(100) < 75 {
		// what ReadSnapshotWorksForNodeRound would deliver: ordered by timestamp
		sort.SliceStable(sub.list, func(a, b int) bool { return sub.list[a].Timestamp < sub.list[b].Timestamp })
	} else {
		sub.shuffle = true
		rng.Shuffle(len(sub.list), func(a, b int) { sub.list[a], sub.list[b] = sub.list[b], sub.list[a] })
	}
	return sub
}

// account updates the reference for a submission that took effect.
func (w *vC26World) account(sub *vC26Sub) {
	rd := sub.round
	if sub.kind == "stale" {
		return
	}
	rd.calls++
	rd.pattern = append(rd.pattern, sub.prefix)
	if sub.prefix > rd.submitted {
		if rd.credit {
			for _, sw := range rd.works[rd.submitted:sub.prefix] {
				for _, s := range sw.Signers {
					if s == sub.node.id {
						w.ref.add(rd.day, s, 1, 0)
					} else {
						w.ref.add(rd.day, s, 0, 1)
					}
				}
				w.r.Count("snapshots_credited", 1)
			}
		} else {
			w.r.Count("snapshots_in_uncredited_rounds", sub.prefix-rd.submitted)
		}
		rd.submitted = sub.prefix
	}
	if rd.calls == 2 {
		w.r.Nontrivial(fmt.Sprintf("%d:%d", sub.node.idx, rd.number))
	}
}

func (w *vC26World) witness(sub *vC26Sub, extra map[string]any) map[string]any {
	m := map[string]any{"step": w.seq}
	if sub != nil {
		var hs []string
		for _, sw := range sub.list {
			var ss []string
			for _, s := range sw.Signers {
				ss = append(ss, s.String()[:8])
			}
			hs = append(hs, fmt.Sprintf("%s ts=%d day=%d signers=%v", sw.Hash.String()[:8], sw.Timestamp, sw.Timestamp/vC26Day, ss))
		}
		m["node"] = sub.node.id.String()[:8]
		m["round"] = sub.round.number
		m["kind"] = sub.kind
		m["credit"] = sub.round.credit
		m["submitted_before"] = sub.round.pattern
		m["snapshots"] = hs
	}
	for k, v := range extra {
		m[k] = v
	}
	return m
}

// submit performs one WriteRoundWork call the way the node does (retry on a
// Badger conflict) and reports a panic or error on a valid submission.
func (w *vC26World) submit(sub *vC26Sub) bool {
	var err error
	tries := 0
	panicked, val, stack := verifkit.Guard(func() {
		for tries = 0; tries < 200; tries++ {
			err = w.store.WriteRoundWork(sub.node.id, sub.round.number, sub.list, sub.round.credit)
			if !errors.Is(err, badger.ErrConflict) {
				return
			}
			w.r.Count("badger_conflicts_retried", 1)
		}
	})
	if panicked {
		w.r.Violation("C26|panic "+verifkit.PanicSite(stack)+"|"+sub.kind+" submission of a valid round",
			fmt.Sprintf("WriteRoundWork panicked on a %s submission that satisfies its preconditions: %v", sub.kind, val),
			w.witness(sub, map[string]any{"panic": fmt.Sprint(val)}))
		w.mu.Lock()
		w.broken = true
		w.mu.Unlock()
		return false
	}
	if err != nil {
		w.r.Inconclusive(fmt.Sprintf("WriteRoundWork returned an error: %v", err))
		w.mu.Lock()
		w.broken = true
		w.mu.Unlock()
		return false
	}
	return true
}

// checkDay compares every node's counters of one day with the reference.
func (w *vC26World) checkDay(day uint32, sub *vC26Sub, when string) {
	got, err := w.store.ListNodeWorks(w.ids, day)
	if err != nil {
		w.r.Inconclusive(fmt.Sprintf("ListNodeWorks error: %v", err))
		w.broken = true
		return
	}
	w.r.Count("counter_comparisons", len(w.ids))
	for _, id := range w.ids {
		want := w.ref[day][id]
		g := got[id]
		if g == want {
			continue
		}
		for k, name := range []string{"proposal", "signing"} {
			if g[k] == want[k] {
				continue
			}
			dir := "credited more than once per snapshot (over-count)"
			if g[k] < want[k] {
				dir = "credit missing (under-count)"
			}
			w.r.Violation(fmt.Sprintf("C26|ListNodeWorks|%s %s %s", name, dir, when),
				fmt.Sprintf("node %s day %d: %s credits are %d, reference says %d (%s)", id.String()[:8], day, name, g[k], want[k], when),
				w.witness(sub, map[string]any{"day": day, "counted_node": id.String()[:8], "got": g, "want": want}))
		}
		// resynchronise so that one defect is not reported as a cascade
		m := w.ref[day]
		if m == nil {
			m = make(map[crypto.Hash][2]uint64)
			w.ref[day] = m
		}
		m[id] = g
	}
}

func (w *vC26World) checkOffsets(when string) {
	for _, n := range w.nodes {
		off, err := w.store.ReadWorkOffset(n.id)
		if err != nil {
			w.r.Inconclusive(fmt.Sprintf("ReadWorkOffset error: %v", err))
			w.broken = true
			return
		}
		want := uint64(0)
		if n.cur != nil && n.cur.calls > 0 {
			want = n.cur.number
		} else if n.cur != nil && n.cur.number > n.first {
			want = n.cur.number - 1
		}
		if off != want {
			w.r.Violation("C26|ReadWorkOffset|work offset differs from the last submitted round "+when,
				fmt.Sprintf("node %s: work offset %d, last submitted round %d (%s)", n.id.String()[:8], off, want, when),
				w.witness(nil, map[string]any{"node": n.id.String()[:8], "offset": off, "want": want}))
		}
	}
}

func (w *vC26World) checkAll(when string) {
	days := make([]uint32, 0, len(w.days)+2)
	lo, hi := uint32(0), uint32(0)
	for d := range w.days {
		days = append(days, d)
		if lo == 0 || d < lo {
			lo = d
		}
		if d > hi {
			hi = d
		}
	}
	if len(days) > 0 {
		days = append(days, lo-1, hi+1) // days nobody worked on stay at zero
	}
	sort.Slice(days, func(a, b int) bool { return days[a] < days[b] })
	for _, d := range days {
		w.checkDay(d, nil, when)
		if w.broken {
			return
		}
	}
	w.checkOffsets(when)
}

func TestVerif_C26(t *testing.T) {
	r := verifkit.Start(t, "C26", "exploration")
	r.SetRule("seeded schedule over 5-9 nodes of one real BadgerStore: every node walks through consecutive rounds (1-6 snapshots of one day, random signer sets that contain the proposer, " +
		"92% of the rounds credited); a round is submitted as a random monotone sequence of prefixes of its arrival order with repeats (timestamp order or shuffled), finished rounds are replayed after the " +
		"offset moved on, several nodes submit concurrently with conflict retry, and the store is closed and reopened at random points; after every call the counters of the affected day are compared with " +
		"a map-based reference, after every reopen and at the end all days. evaluations = WriteRoundWork calls; non-trivial = distinct (node, round) pairs submitted more than once while current")
	r.Assume("submissions respect the documented preconditions of WriteRoundWork: rounds are consecutive per node, a re-submitted set never shrinks, one day per round, proposer among the signers, a round is submitted in full before the next one starts (the node only advances past mature rounds)")
	r.Assume("a submission with credit=false is, by the meaning of the flag, not credited; the reference follows that and keeps the credit flag constant per round as the node does")
	r.Assume("a crash is modelled as Close + NewBadgerStore on the same directory between two calls; every call is a single Badger transaction, so there is no intermediate on-disk state to cut")
	r.SetFloor(20)

	rng := r.Rand()
	w := &vC26World{t: t, r: r, rng: rng, dir: t.TempDir(), ref: make(vC26Credits), days: make(map[uint32]bool)}
	w.open()
	defer func() {
		if w.store != nil {
			_ = w.store.Close()
		}
	}()
	nn := 5 + rng.Intn(5)
	for i := 0; i < nn; i++ {
		n := &vC26Node{idx: i, id: crypto.Blake3Hash([]byte(fmt.Sprintf("c26-node:%d:%d", r.Seed, i))), rounds: make(map[uint64]*vC26Round)}
		w.nodes = append(w.nodes, n)
		w.ids = append(w.ids, n.id)
	}
	w.ids = append(w.ids, crypto.Blake3Hash([]byte("c26-bystander")))

	totalRounds := r.N(5000, 60000)
	roundsDone := func() int {
		c := 0
		for _, n := range w.nodes {
			c += len(n.rounds)
		}
		return c
	}
	reopens := 0
	for roundsDone() < totalRounds && !w.broken && r.Violations() < 8 {
		w.seq++
		c := rng.Intn(1000)
		switch {
		case c < 6:
			// crash / restart: nothing but the store survives
			if err := w.store.Close(); err != nil {
				r.Inconclusive(fmt.Sprintf("store close: %v", err))
				w.broken = true
				break
			}
			w.store = nil
			w.open()
			reopens++
			r.Count("reopens", 1)
			w.checkAll("after reopen")
		case c < 40:
			// several chains aggregate their work at the same time
			k := 2 + rng.Intn(len(w.nodes)-1)
			perm := rng.Perm(len(w.nodes))[:k]
			subs := make([]*vC26Sub, 0, k)
			for _, i := range perm {
				subs = append(subs, w.next(w.nodes[i], true))
			}
			var wg sync.WaitGroup
			oks := make([]bool, len(subs))
			for i := range subs {
				wg.Add(1)
				go func(i int) {
					defer wg.Done()
					oks[i] = w.submit(subs[i])
				}(i)
			}
			wg.Wait()
			r.Count("concurrent_bursts", 1)
			for i, sub := range subs {
				r.Eval()
				r.Count("submit_"+sub.kind, 1)
				if oks[i] {
					w.account(sub)
				}
			}
			seen := map[uint32]bool{}
			for _, sub := range subs {
				if !seen[sub.round.day] && !w.broken {
					seen[sub.round.day] = true
					w.checkDay(sub.round.day, sub, "after concurrent submissions")
				}
			}
		default:
			n := w.nodes[rng.Intn(len(w.nodes))]
			sub := w.next(n, true)
			ok := w.submit(sub)
			r.Eval()
			r.Count("submit_"+sub.kind, 1)
			if sub.shuffle {
				r.Count("submit_shuffled_order", 1)
			}
			if !ok {
				break
			}
			w.account(sub)
			w.checkDay(sub.round.day, sub, "after "+sub.kind+" submission")
			if sub.kind == "stale" || rng.Intn(20) == 0 {
				w.checkOffsets("after " + sub.kind + " submission")
			}
			if r.SampleCount() < 6 && sub.kind != "first" && len(sub.round.pattern) >= 3 {
				r.Sample(w.witness(sub, nil))
			}
		}
	}
	if !w.broken {
		w.checkAll("at the end")
	}
	r.Note("nodes", nn)
	r.Note("rounds", roundsDone())
	r.Note("days", len(w.days))
	if reopens == 0 && !w.broken {
		r.Inconclusive("no reopen happened in this run")
	}
	r.Finish()
}
