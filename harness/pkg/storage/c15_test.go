package storage_test

import (
	"bytes"
	"crypto/sha256"
	"fmt"
	"math/big"
	"sort"
	"strings"
	"sync"
	"testing"

	"github.com/MixinNetwork/mixin/common"
	"github.com/MixinNetwork/mixin/crypto"
	"github.com/MixinNetwork/mixin/verifgen"
	"github.com/MixinNetwork/mixin/verifkit"
	"github.com/MixinNetwork/mixin/verifledger"
)

func vC15Digest(d map[string][]byte) string {
	keys := make([]string, 0, len(d))
	for k := range d {
		keys = append(keys, k)
	}
	sort.Strings(keys)
	h := sha256.New()
	for _, k := range keys {
		h.Write([]byte(k))
		h.Write([]byte{0})
		h.Write(d[k])
		h.Write([]byte{1})
	}
	return fmt.Sprintf("%x", h.Sum(nil))
}

// vC15Diff lists deleted keys, changed existing keys and the number of added keys.
func vC15Diff(before, after map[string][]byte) (deleted, changed []string, added int) {
	for k, v := range before {
		nv, ok := after[k]
		if !ok {
			deleted = append(deleted, k)
		} else if !bytes.Equal(v, nv) {
			changed = append(changed, k)
		}
	}
	for k := range after {
		if _, ok := before[k]; !ok {
			added++
		}
	}
	sort.Strings(deleted)
	sort.Strings(changed)
	return
}

// the key prefixes of the graph database; a key's class is the longest one it starts with (the bytes after the
// prefix are binary and may look like letters)
var vC15Prefixes = []string{"ASSETINFO", "ASSETTOTAL", "CONSENSUSSNAPSHOT", "CUSTODIANUPDATE", "DEPOSIT", "FINALIZATION", "GHOST", "LINK", "MINTUNIVERSAL",
	"NODEOPERATION", "NODESTATEQUEUE", "ROUND", "SNAPSHOT", "SNAPTOPO", "SPACECHECKPOINT", "SPACEQUEUE", "TOPOLOGY", "TRANSACTION", "UNIQUE", "UTXO", "WITHDRAWAL",
	"WORKCHECKPOINT", "WORKPROPOSE", "WORKSNAPSHOT", "WORKVOTE"}

func vC15Prefix(k string) string {
	best := ""
	for _, p := range vC15Prefixes {
		if strings.HasPrefix(k, p) && len(p) > len(best) {
			best = p
		}
	}
	if best == "" {
		return "UNKNOWN"
	}
	return best
}

// TestVerif_C15: finalizing a snapshot is atomic and idempotent.
func TestVerif_C15(t *testing.T) {
	r := verifkit.Start(t, "C15", "exploration")
	r.SetRule("storage-level ledger simulator with every transaction class. Each step finalizes one batch (1..24 quick, up to 255 thorough) with a full key/value dump of the " +
		"graph database before and after: (success) no key deleted, no existing key changed except asset totals, and through the public API every transaction has its finalization " +
		"record, every materialized output exists, asset totals moved by exactly the batch's deposits+mints-withdrawals, the snapshot has its topology position, round and work " +
		"record and exactly one new per-node uniqueness record per transaction, and the write was a single database commit (Badger's commit version advanced by one); (failure) batches with one member that cannot finalize at a random position — missing body, output key owned by another transaction, conflicting asset data, a " +
		"second pledge while one is pending — must leave the dump digest unchanged and the store usable; (overlap) snapshots of another chain that contain already finalized " +
		"transactions must change no existing key. non-trivial = distinct snapshot writes by (mode, outcome, batch size)")
	rng := r.Rand()
	sim, err := verifledger.NewSim(fmt.Sprintf("c15-%d", r.Seed), 7, 1700000000, t.TempDir())
	if err != nil {
		t.Fatal(err)
	}
	defer sim.Close()
	d := newVerifSDriver(sim, rng)
	steps := r.N(150, 1000)
	maxBatch := r.N(24, 255)
	var finalizedPool []*common.VersionedTransaction
	otherTopoTs := map[crypto.Hash]uint64{}
	freshAsset := 0
	okWrites, failWrites, overlapWrites := 0, 0, 0

	admitBatch := func(n int) []*verifSDTx {
		var out []*verifSDTx
		for tries := 0; len(out) < n && tries < n*4; tries++ {
			c := d.next()
			if c == nil || verifSDLone(c.Kind) && len(out) > 0 {
				continue
			}
			if err := sim.Admit(c.Tx, sim.NextTime(1)); err != nil {
				continue
			}
			out = append(out, c)
			if verifSDLone(c.Kind) {
				break
			}
		}
		return out
	}

	for step := 0; step < steps; step++ {
		size := 1 + rng.Intn(4)
		if rng.Intn(8) == 0 {
			size = 1 + rng.Intn(maxBatch)
		}
		batch := admitBatch(size)
		if len(batch) == 0 {
			continue
		}
		ts := sim.NextTime(uint64(1 + rng.Intn(2e9)))
		mode := rng.Intn(10)
		switch {
		case mode < 5: // ---------------- success ----------------
			before := sim.Store.VerifDump()
			expDelta := map[crypto.Hash]*big.Int{}
			balBefore := map[crypto.Hash]*big.Int{}
			for _, b := range batch {
				a := b.Tx.Asset
				if expDelta[a] == nil {
					expDelta[a] = new(big.Int)
					_, bal, _ := sim.Store.ReadAssetWithBalance(a)
					balBefore[a] = verifgen.UnitsOf(bal)
				}
				switch {
				case b.Tx.Inputs[0].Deposit != nil:
					expDelta[a].Add(expDelta[a], verifgen.UnitsOf(b.Tx.Inputs[0].Deposit.Amount))
				case b.Tx.Inputs[0].Mint != nil:
					expDelta[a].Add(expDelta[a], verifgen.UnitsOf(b.Tx.Inputs[0].Mint.Amount))
				default:
					for _, o := range b.Tx.Outputs {
						if o.Type == common.OutputTypeWithdrawalSubmit {
							expDelta[a].Sub(expDelta[a], verifgen.UnitsOf(o.Amount))
						}
					}
				}
			}
			txs := make([]*common.VersionedTransaction, len(batch))
			for i, b := range batch {
				txs[i] = b.Tx
			}
			snap, panicked, err := sim.Finalize(txs, ts)
			r.Eval()
			if err != nil {
				r.Count("valid_batches_not_finalized_(C16_territory)", 1)
				_ = panicked
				after := sim.Store.VerifDump()
				if strings.Contains(err.Error(), "consensus marker") {
					continue // the snapshot itself was written; only the harness' marker step failed
				}
				if vC15Digest(before) != vC15Digest(after) {
					r.Violation("C15|failed-write-changed-the-store|valid-batch", "a snapshot write that failed changed the database: "+err.Error(), map[string]any{"error": err.Error()})
				}
				continue
			}
			okWrites++
			r.Nontrivial(fmt.Sprintf("ok|%d", len(batch)))
			r.Count(fmt.Sprintf("snapshot_writes_made_of_%d_database_commits", sim.LastWriteCommits), 1)
			if sim.LastWriteCommits != 1 {
				r.Violation("C15|success|snapshot-write-is-not-one-commit", fmt.Sprintf("a snapshot write was made of %d separate database commits: a stop or a reader between them sees a part of its effects", sim.LastWriteCommits),
					map[string]any{"commits": sim.LastWriteCommits, "batch": len(batch)})
			}
			after := sim.Store.VerifDump()
			deleted, changed, added := vC15Diff(before, after)
			if len(deleted) > 0 {
				r.Violation("C15|success|keys-deleted|"+vC15Prefix(deleted[0]), fmt.Sprintf("a successful snapshot write deleted %d keys", len(deleted)), map[string]any{"first": fmt.Sprintf("%x", deleted[0])})
			}
			for _, k := range changed {
				if p := vC15Prefix(k); p != "ASSETTOTAL" && !(len(batch) == 1 && verifSDLone(batch[0].Kind) && p == "CONSENSUSSNAPSHOT") {
					r.Violation("C15|success|existing-record-changed|"+p, "a successful snapshot write changed an existing record other than an asset total", map[string]any{"key": fmt.Sprintf("%x", k)})
				}
			}
			r.Count("keys_added_by_successful_writes", added)
			for _, b := range batch {
				h := b.Tx.PayloadHash()
				body, fin, err := sim.Store.ReadTransaction(h)
				if err != nil || body == nil || fin != snap.Hash.String() {
					r.Violation("C15|success|finalization-record-missing", "a transaction of a written snapshot has no finalization record naming it", map[string]any{"kind": b.Kind, "final": fin})
				}
				for i, o := range b.Tx.Outputs {
					if o.Type == common.OutputTypeWithdrawalSubmit {
						continue
					}
					u, err := sim.Store.ReadUTXOLock(h, uint(i))
					if err != nil || u == nil || u.Amount.Cmp(o.Amount) != 0 || u.Asset != b.Tx.Asset {
						r.Violation("C15|success|output-missing", "a materialized output of a finalized transaction is missing or differs", map[string]any{"kind": b.Kind, "index": i})
					}
				}
				if _, ok := after["UNIQUE"+string(h[:])+string(snap.NodeId[:])]; !ok {
					r.Violation("C15|success|uniqueness-record-missing", "a transaction of a written snapshot has no per-node uniqueness record for the snapshot's chain",
						map[string]any{"kind": b.Kind, "batch": len(batch)})
				}
				d.applied(b)
				finalizedPool = append(finalizedPool, b.Tx)
				r.Count("finalized_"+b.Kind, 1)
			}
			nuniq := 0
			for k := range after {
				if _, old := before[k]; !old && strings.HasPrefix(k, "UNIQUE") {
					nuniq++
				}
			}
			if nuniq != len(batch) {
				r.Violation("C15|success|uniqueness-record-count", fmt.Sprintf("a snapshot of %d transactions added %d per-node uniqueness records", len(batch), nuniq), map[string]any{"batch": len(batch)})
			}
			for a, delta := range expDelta {
				_, bal, _ := sim.Store.ReadAssetWithBalance(a)
				got := new(big.Int).Sub(verifgen.UnitsOf(bal), balBefore[a])
				if got.Cmp(delta) != 0 {
					r.Violation("C15|success|asset-total-delta", fmt.Sprintf("asset total moved by %s, batch effect is %s", got, delta), map[string]any{"asset": a.String()})
				}
			}
			back, err := sim.Store.ReadSnapshot(snap.Hash)
			if err != nil || back == nil || back.TopologicalOrder != snap.TopologicalOrder {
				r.Violation("C15|success|topology-missing", "the written snapshot has no (or another) topology position", nil)
			}
			inRound, _ := sim.Store.ReadSnapshotsForNodeRound(snap.NodeId, snap.RoundNumber)
			found := false
			for _, s := range inRound {
				if s.PayloadHash() == snap.Hash {
					found = true
				}
			}
			works, _ := sim.Store.ReadSnapshotWorksForNodeRound(snap.NodeId, snap.RoundNumber)
			wfound := false
			for _, wk := range works {
				if wk.Hash == snap.Hash {
					wfound = true
				}
			}
			if !found || !wfound {
				r.Violation("C15|success|round-or-work-record-missing", "the written snapshot is missing from its round listing or the work records", map[string]any{"round": found, "work": wfound})
			}
			if r.SampleCount() < 3 {
				r.Sample(map[string]any{"mode": "success", "batch": len(batch), "keys_added": added, "existing_keys_changed": len(changed)})
			}
		case mode < 8: // ---------------- one member cannot finalize ----------------
			var bad *common.VersionedTransaction
			why := ""
			switch rng.Intn(4) {
			case 0:
				why = "missing-body"
				bad, _ = d.w.Deposit(d.assets[1], big.NewInt(int64(1+rng.Intn(1e6)))) // never admitted
			case 1:
				why = "output-key-owned-elsewhere"
				// one of up to three outputs (first, middle or last) carries a key that belongs to another transaction
				tx, _, ins := d.w.Transfer(1, 1+rng.Intn(3), true)
				if tx == nil {
					continue
				}
				taken := rng.Intn(len(tx.Outputs))
				r.Count(fmt.Sprintf("output-key-owned-elsewhere_output_%d_of_%d", taken, len(tx.Outputs)), 1)
				inputs := []*common.Input{}
				for _, in := range ins {
					inputs = append(inputs, &common.Input{Hash: in.Hash, Index: in.Index})
				}
				other := crypto.Blake3Hash([]byte(fmt.Sprint("other-owner", step)))
				if err := sim.Store.LockGhostKeys(tx.Outputs[taken].Keys, other, false); err != nil {
					continue
				}
				if err := sim.Store.LockUTXOs(inputs, tx.PayloadHash(), false); err != nil {
					continue
				}
				if err := sim.Store.WriteTransaction(tx); err != nil {
					continue
				}
				bad = tx
			case 2:
				why = "conflicting-asset-data"
				freshAsset++
				a1 := verifgen.AssetInfo{Id: crypto.Sha256Hash([]byte(fmt.Sprintf("c15-fresh-%d-%d", r.Seed, freshAsset))), Chain: common.EthereumAssetId, Key: fmt.Sprintf("0xa%039d", freshAsset)}
				a2 := a1
				a2.Key = a1.Key + "x"
				d1, _ := d.w.Deposit(a1, big.NewInt(1000))
				d2, _ := d.w.Deposit(a2, big.NewInt(1000))
				if sim.Admit(d1, ts) != nil || sim.Admit(d2, ts) != nil {
					continue
				}
				if _, _, err := sim.Finalize([]*common.VersionedTransaction{d1}, ts); err != nil {
					continue
				}
				ts = sim.NextTime(5)
				bad = d2
			default:
				why = "second-pledge-while-one-is-pending"
				if d.pending == nil {
					continue
				}
				xin := d.assets[0]
				// the funding deposit counts towards the XIN capacity like the driver's own deposits
				if !d.reserveXIN(common.KernelNodePledgeAmount) {
					continue
				}
				owner := d.w.Addrs[0]
				spec := verifgen.OutSpec{Type: common.OutputTypeScript, Owners: []common.Address{owner}, Threshold: 1, Amount: common.KernelNodePledgeAmount, Seed: d.w.Seed()}
				dep := verifgen.Deposit(d.w.Custodian, xin.Id, xin.Chain, xin.Key, fmt.Sprintf("0xc15-pledge-%d", step), 0, common.KernelNodePledgeAmount, spec)
				if sim.Admit(dep, ts) != nil {
					continue
				}
				if _, _, err := sim.Finalize([]*common.VersionedTransaction{dep}, ts); err != nil {
					continue
				}
				ts = sim.NextTime(5)
				funding := verifgen.OutsOf(dep, []verifgen.OutSpec{spec})[0]
				cand := verifgen.NewCandidate(fmt.Sprintf("c15-second-%d-%d", r.Seed, step))
				cand.Funder = owner
				p2 := verifgen.Pledge(cand, funding, d.refs())
				if err := sim.Store.LockUTXOs(p2.Inputs, p2.PayloadHash(), false); err != nil {
					continue
				}
				if err := sim.Store.WriteTransaction(p2); err != nil {
					continue
				}
				bad = p2
				// a pledge is alone in its snapshot
				batch = nil
			}
			members := []*common.VersionedTransaction{}
			for _, b := range batch {
				if !verifSDLone(b.Kind) {
					members = append(members, b.Tx)
				}
			}
			if len(members) >= common.SnapshotTransactionsMaximum { // room for the extra member (a snapshot carries at most 255)
				members = members[:common.SnapshotTransactionsMaximum-1]
			}
			pos := rng.Intn(len(members) + 1)
			members = append(members[:pos], append([]*common.VersionedTransaction{bad}, members[pos:]...)...)
			before := vC15Digest(sim.Store.VerifDump())
			_, panicked, err := sim.Finalize(members, ts)
			r.Eval()
			if err == nil {
				// the write reported success: then ALL effects must be there, including those of the member
				// that was expected to be unable to finalize (all or nothing)
				r.Count("supposedly_failing_batches_that_succeeded_"+why, 1)
				wsnap, _ := sim.Store.ReadSnapshotsSinceTopology(sim.Topo, 1)
				for _, mtx := range members {
					h := mtx.PayloadHash()
					body, fin, rerr := sim.Store.ReadTransaction(h)
					if rerr != nil || body == nil || fin == "" || (len(wsnap) == 1 && fin != wsnap[0].Hash.String()) {
						r.Violation("C15|partial-success|finalization-record-missing|"+why, "a snapshot write returned success but a member has no finalization record naming it", map[string]any{"why": why, "position": pos})
						continue
					}
					for i, o := range mtx.Outputs {
						if o.Type == common.OutputTypeWithdrawalSubmit {
							continue
						}
						u, uerr := sim.Store.ReadUTXOLock(h, uint(i))
						if uerr != nil || u == nil {
							r.Violation("C15|partial-success|output-missing|"+why, "a snapshot write returned success but a materialized output of a member is missing (effects applied partially)",
								map[string]any{"why": why, "position": pos, "batch": len(members), "output": i})
						}
					}
					for _, o := range mtx.Outputs {
						for _, k := range o.Keys {
							owner, _ := sim.Store.ReadGhostKeyLock(*k)
							if owner == nil || *owner != h {
								r.Violation("C15|partial-success|output-key-not-bound|"+why, "a snapshot write returned success but an output key of a member is bound to another transaction", map[string]any{"why": why})
							}
						}
					}
				}
				for _, b := range batch {
					if !verifSDLone(b.Kind) {
						d.applied(b)
					}
				}
				continue
			}
			failWrites++
			r.Nontrivial(fmt.Sprintf("fail|%s|%v|%d", why, panicked, len(members)))
			r.Count("failed_writes_"+why, 1)
			if panicked {
				r.Count("failed_writes_by_panic", 1)
			}
			after := vC15Digest(sim.Store.VerifDump())
			if before != after {
				r.Violation("C15|failed-write-changed-the-store|"+why, fmt.Sprintf("a snapshot write that failed (%v) left partial effects in the database", err),
					map[string]any{"why": why, "position": pos, "batch": len(members), "panicked": panicked})
			}
			// the store must still be usable: the healthy members finalize in a snapshot of their own
			var healthy []*common.VersionedTransaction
			var hb []*verifSDTx
			for _, b := range batch {
				if !verifSDLone(b.Kind) {
					healthy = append(healthy, b.Tx)
					hb = append(hb, b)
				}
			}
			if len(healthy) > 0 {
				if _, _, err := sim.Finalize(healthy, sim.NextTime(3)); err != nil {
					r.Violation("C15|store-unusable-after-failed-write|"+why, "after a failed snapshot write the remaining healthy transactions cannot be finalized: "+err.Error(), nil)
				} else {
					for _, b := range hb {
						d.applied(b)
						finalizedPool = append(finalizedPool, b.Tx)
					}
				}
			}
			if r.SampleCount() < 6 {
				r.Sample(map[string]any{"mode": "failing-member", "why": why, "position": pos, "batch": len(members), "panicked": panicked, "digest_unchanged": before == after})
			}
		default: // ---------------- overlap: already finalized transactions in another chain's snapshot ----------------
			// finalize the fresh batch first
			txs := make([]*common.VersionedTransaction, 0, len(batch))
			for _, b := range batch {
				txs = append(txs, b.Tx)
			}
			if _, _, err := sim.Finalize(txs, ts); err != nil {
				continue
			}
			for _, b := range batch {
				d.applied(b)
				finalizedPool = append(finalizedPool, b.Tx)
			}
			var again []crypto.Hash
			seen := map[crypto.Hash]bool{}
			chain := sim.Net.NodeIds[1+rng.Intn(len(sim.Net.NodeIds)-1)]
			uniq := sim.Store.VerifDump("UNIQUE")
			for tries := 0; tries < 12 && len(again) < 1+rng.Intn(4); tries++ {
				tx := finalizedPool[rng.Intn(len(finalizedPool))]
				h := tx.PayloadHash()
				if seen[h] || !tx.IsSnapshotBatchable() {
					continue
				}
				if _, dup := uniq["UNIQUE"+string(h[:])+string(chain[:])]; dup {
					continue
				}
				seen[h] = true
				again = append(again, h)
			}
			if len(again) == 0 {
				continue
			}
			ots := otherTopoTs[chain]
			if ots < sim.Clock {
				ots = sim.Clock
			}
			ots += uint64(1 + rng.Intn(1000))
			otherTopoTs[chain] = ots
			snap, err := verifSDSnapshotOn(sim, chain, again, ots)
			if err != nil {
				continue
			}
			firsts := map[crypto.Hash]string{}
			for _, h := range again {
				_, fin, _ := sim.Store.ReadTransaction(h)
				firsts[h] = fin
			}
			before := sim.Store.VerifDump()
			var werr error
			panicked, pv, _ := verifkit.Guard(func() { werr = sim.Store.WriteSnapshot(snap, []crypto.Hash{chain}) })
			r.Eval()
			if panicked || werr != nil {
				r.Count("overlap_writes_refused", 1)
				if vC15Digest(before) != vC15Digest(sim.Store.VerifDump()) {
					r.Violation("C15|failed-write-changed-the-store|overlap", fmt.Sprintf("a refused overlap snapshot changed the database (%v %v)", werr, pv), nil)
				}
				continue
			}
			sim.Topo++
			overlapWrites++
			r.Nontrivial(fmt.Sprintf("overlap|%d", len(again)))
			after := sim.Store.VerifDump()
			deleted, changed, _ := vC15Diff(before, after)
			if len(deleted) > 0 || len(changed) > 0 {
				k := append(deleted, changed...)[0]
				r.Violation("C15|overlap|existing-record-changed|"+vC15Prefix(k), "a snapshot that only repeats already finalized transactions changed or deleted existing records (outputs, totals or finalization records applied again)",
					map[string]any{"deleted": len(deleted), "changed": len(changed), "first_key": fmt.Sprintf("%x", k)})
			}
			for _, h := range again {
				if _, fin, _ := sim.Store.ReadTransaction(h); fin != firsts[h] {
					r.Violation("C15|overlap|first-finalization-replaced", "a transaction's finalization record no longer names its first snapshot", nil)
				}
				if _, ok := after["UNIQUE"+string(h[:])+string(chain[:])]; !ok {
					r.Violation("C15|overlap|uniqueness-record-missing", "a written snapshot of another chain left no per-node uniqueness record for one of its transactions", map[string]any{"batch": len(again)})
				}
			}
		}
	}
	// a snapshot too large for one database transaction (six transfers with 256 outputs of 250 keys each, more than 9.6 MB of output records): whatever the
	// store answers, all or nothing
	{
		var owners []common.Address
		for i := 0; i < 250; i++ {
			owners = append(owners, verifgen.Addr(fmt.Sprintf("c15-wide-owner-%d", i)))
		}
		var wide []*common.VersionedTransaction
		for i := 0; i < 6; i++ {
			a := d.assets[1]
			fs := verifgen.OutSpec{Type: common.OutputTypeScript, Owners: owners[:1], Threshold: 1, Amount: verifgen.UnitsU(256), Seed: verifgen.Seed64(fmt.Sprint("c15-wide-fund", r.Seed, i))}
			dep := verifgen.Deposit(d.w.Custodian, a.Id, a.Chain, a.Key, fmt.Sprintf("0xc15wide-%d-%d", r.Seed, i), 0, fs.Amount, fs)
			ts := sim.NextTime(3)
			if sim.Admit(dep, ts) != nil {
				break
			}
			if _, _, err := sim.Finalize([]*common.VersionedTransaction{dep}, ts); err != nil {
				break
			}
			funding := verifgen.OutsOf(dep, []verifgen.OutSpec{fs})
			parts := make([]*common.Transaction, 16)
			var wg sync.WaitGroup
			for p := range parts {
				wg.Add(1)
				go func(p int) {
					defer wg.Done()
					var sp []verifgen.OutSpec
					for k := p * 16; k < (p+1)*16; k++ {
						sp = append(sp, verifgen.OutSpec{Type: common.OutputTypeScript, Owners: owners, Threshold: 1, Amount: verifgen.UnitsU(1), Seed: verifgen.Seed64(fmt.Sprint("c15-wide", r.Seed, i, k))})
					}
					parts[p] = verifgen.BuildTx(a.Id, nil, sp, nil, nil)
				}(p)
			}
			wg.Wait()
			raw := verifgen.BuildTx(a.Id, funding, nil, nil, nil)
			for _, part := range parts {
				raw.Outputs = append(raw.Outputs, part.Outputs...)
			}
			tx := verifgen.SignMap(raw, funding, [][]int{{0}})
			if err := sim.Admit(tx, sim.NextTime(3)); err != nil {
				r.Count("wide_transfer_not_admitted", 1)
				break
			}
			wide = append(wide, tx)
		}
		if len(wide) == 6 {
			before := sim.Store.VerifDump()
			snap, panicked, err := sim.Finalize(wide, sim.NextTime(3))
			r.Eval()
			after := sim.Store.VerifDump()
			if err != nil {
				r.Count("oversized_snapshot_refused", 1)
				r.Nontrivial(fmt.Sprintf("oversized|refused|%v", panicked))
				if vC15Digest(before) != vC15Digest(after) {
					deleted, changed, added := vC15Diff(before, after)
					r.Violation("C15|failed-write-changed-the-store|oversized-snapshot", fmt.Sprintf("a snapshot write that failed (%v) left %d new, %d changed and %d deleted records behind", err, added, len(changed), len(deleted)),
						map[string]any{"error": err.Error(), "added": added, "changed": len(changed), "deleted": len(deleted)})
				}
			} else {
				r.Count("oversized_snapshot_written", 1)
				r.Nontrivial("oversized|written")
				missing := 0
				for _, tx := range wide {
					h := tx.PayloadHash()
					if _, fin, _ := sim.Store.ReadTransaction(h); fin != snap.Hash.String() {
						missing++
					}
					for i := range tx.Outputs {
						if u, _ := sim.Store.ReadUTXOLock(h, uint(i)); u == nil {
							missing++
						}
					}
				}
				if missing > 0 {
					r.Violation("C15|partial-success|oversized-snapshot", fmt.Sprintf("a snapshot write returned success but %d of its effects (finalization records, outputs) are missing", missing), map[string]any{"missing": missing})
				}
			}
		}
	}
	r.Note("successful_writes_checked", okWrites)
	r.Note("failed_writes_checked", failWrites)
	r.Note("overlap_writes_checked", overlapWrites)
	if okWrites < 20 || failWrites < 8 || overlapWrites < 3 {
		r.Inconclusive(fmt.Sprintf("too few writes observed: ok %d, failed %d, overlap %d", okWrites, failWrites, overlapWrites))
	}
	r.Finish()
}
