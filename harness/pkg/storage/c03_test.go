package storage_test

import (
	"crypto/sha256"
	"encoding/binary"
	"encoding/hex"
	"errors"
	"fmt"
	"math/big"
	"math/rand"
	"os"
	"path/filepath"
	"runtime"
	"sort"
	"strings"
	"sync"
	"sync/atomic"
	"testing"
	"time"

	"github.com/MixinNetwork/mixin/common"
	"github.com/MixinNetwork/mixin/crypto"
	"github.com/MixinNetwork/mixin/storage"
	"github.com/MixinNetwork/mixin/verifgen"
	"github.com/MixinNetwork/mixin/verifkit"
	"github.com/MixinNetwork/mixin/verifledger"
	"github.com/anishathalye/porcupine"
	"github.com/dgraph-io/badger/v4"
)

// C03: an output, deposit or mint slot is locked by at most one transaction.
//
// Black-box on a real BadgerStore whose ledger is produced only through the
// public write path (genesis, deposits and transfers admitted and finalized by
// verifledger.Sim). For every case a few fresh slots (unspent outputs, external
// deposit identifiers or mint batches) and a few competing, correctly signed
// transactions over them are prepared, then LockUTXOs / LockDepositInput /
// LockMintInput (directly and through VersionedTransaction.LockInputs),
// WriteTransaction and WriteSnapshot are issued, sequentially (every result
// and the whole state compared with a reference model after each call) and from
// 2..16 goroutines (histories checked for linearizability with porcupine
// against the same model, plus a concurrent reader asserting multi-key
// invariants on atomic views).
//
// Reference model = the statement, nothing more:
//   slot -> holder, set of finalized transactions, set of stored bodies
//   lock(slots, tx, flag): per slot in order
//        free or held by tx            -> held by tx
//        held by other, no flag        -> the whole call must fail, no effect
//        held by other, finalized      -> the whole call must fail, no effect
//        held by other pending, flag   -> held by tx, the other's body is removed
//      a call all of whose slots are already held by tx must succeed (idempotent)
//      a failing call never has an effect; a successful call has all effects
//   WriteTransaction(tx) ok -> body stored;  WriteSnapshot([tx]) ok -> needs the
//   body, marks tx finalized. Reads must return the model state.
// Success is never demanded except for the idempotent relock: a call that the
// model would allow but the store refuses is only counted.

const (
	vC03OpLock = iota
	vC03OpWrite
	vC03OpFinal
	vC03OpView
	vC03OpReadSlot
	vC03OpReadTx
)

const (
	vC03ResOK = iota
	vC03ResFail
	vC03ResConflict
	vC03ResPanic
)

const (
	vC03KindUTXO = iota
	vC03KindDeposit
	vC03KindMint
)

const vC03MaxSlots = 6

var vC03KindNames = []string{"utxo", "deposit", "mint"}
var vC03OpNames = []string{"lock", "WriteTransaction", "WriteSnapshot", "view", "readSlot", "ReadTransaction"}
var vC03ResNames = []string{"ok", "error", "conflict", "panic"}

// vC03State is the model state; comparable, so porcupine can use ==.
type vC03State struct {
	H    [vC03MaxSlots]int8 // holder transaction index per slot, -1 = free
	Body uint16             // stored bodies (bit per transaction)
	Fin  uint16             // finalized transactions
}

func vC03InitState() vC03State {
	var s vC03State
	for i := range s.H {
		s.H[i] = -1
	}
	return s
}

type vC03In struct {
	Op    int
	Tx    int
	Slots []int // lock: slots requested (in order); readSlot: the slot
	Fork  bool
	Full  bool // lock through VersionedTransaction.LockInputs with the full input list
	Node  int  // WriteSnapshot: index of the chain the snapshot is written to
}

type vC03Out struct {
	Res  int
	St   vC03State // view: everything; readSlot: H[slot]; ReadTransaction: Body/Fin bit of Tx
	Info string
}

func (in *vC03In) String() string {
	switch in.Op {
	case vC03OpLock:
		return fmt.Sprintf("lock(tx=%d slots=%v flag=%v viaLockInputs=%v)", in.Tx, in.Slots, in.Fork, in.Full)
	case vC03OpWrite:
		return fmt.Sprintf("WriteTransaction(tx=%d)", in.Tx)
	case vC03OpFinal:
		return fmt.Sprintf("WriteSnapshot([tx=%d] chain=%d)", in.Tx, in.Node)
	case vC03OpView:
		return "view()"
	case vC03OpReadSlot:
		return fmt.Sprintf("readSlot(%d)", in.Slots[0])
	}
	return fmt.Sprintf("ReadTransaction(tx=%d)", in.Tx)
}

func (o vC03Out) String() string {
	s := vC03ResNames[o.Res]
	if o.Info != "" {
		s += " " + o.Info
	}
	return s
}

// vC03LockModel evaluates a lock request on the model.
func vC03LockModel(st vC03State, in *vC03In) (mustFail, allOwn bool, ns vC03State, class string) {
	ns = st
	allOwn = true
	class = "self"
	tx := int8(in.Tx)
	for _, s := range in.Slots {
		h := ns.H[s]
		switch {
		case h == -1:
			allOwn = false
			ns.H[s] = tx
			if class == "self" {
				class = "free"
			}
		case h == tx:
		case ns.Fin&(1<<uint(h)) != 0:
			allOwn = false
			class = "other-finalized"
			mustFail = true
		case !in.Fork:
			allOwn = false
			class = "other-pending"
			mustFail = true
		default:
			allOwn = false
			class = "other-pending"
			ns.Body &^= 1 << uint(h)
			ns.H[s] = tx
		}
		if mustFail {
			return true, false, st, class
		}
	}
	return false, allOwn, ns, class
}

// vC03Step is the sequential specification.
func vC03Step(state, input, output interface{}) (bool, interface{}) {
	st := state.(vC03State)
	in := input.(*vC03In)
	out := output.(vC03Out)
	switch in.Op {
	case vC03OpLock:
		mustFail, allOwn, ns, _ := vC03LockModel(st, in)
		switch out.Res {
		case vC03ResOK:
			if mustFail {
				return false, st
			}
			return true, ns
		case vC03ResFail:
			if !mustFail && allOwn {
				return false, st // relock by the holder must be idempotent
			}
			return true, st
		}
		return true, st
	case vC03OpWrite:
		if out.Res == vC03ResOK {
			st.Body |= 1 << uint(in.Tx)
		}
		return true, st
	case vC03OpFinal:
		if out.Res == vC03ResOK {
			if st.Body&(1<<uint(in.Tx)) == 0 {
				return false, st // finalization read a body that must have been removed
			}
			st.Fin |= 1 << uint(in.Tx)
		}
		return true, st
	case vC03OpView:
		return out.St == st, st
	case vC03OpReadSlot:
		return out.St.H[in.Slots[0]] == st.H[in.Slots[0]], st
	case vC03OpReadTx:
		b := uint16(1) << uint(in.Tx)
		return out.St.Body&b == st.Body&b && out.St.Fin&b == st.Fin&b, st
	}
	return false, st
}

var vC03Model = porcupine.Model{
	Init: func() interface{} { return vC03InitState() },
	Step: vC03Step,
	DescribeOperation: func(input, output interface{}) string {
		return fmt.Sprintf("%s -> %s", input.(*vC03In), output.(vC03Out))
	},
	DescribeState: func(state interface{}) string { return fmt.Sprintf("%+v", state.(vC03State)) },
}

// ---------------------------------------------------------------------------

type vC03Slot struct {
	kind  int
	out   *verifgen.Out       // utxo
	dep   *common.DepositData // deposit identifier (chain, transaction, index)
	batch uint64              // mint
	users map[int]bool        // transactions that spend this slot
}

type vC03Tx struct {
	ver   *common.VersionedTransaction
	hash  crypto.Hash
	slots []int
}

type vC03Case struct {
	kind   int
	slots  []*vC03Slot
	txs    []*vC03Tx
	byHash map[crypto.Hash]int
	desc   string
}

type vC03Env struct {
	t     *testing.T
	r     *verifkit.Run
	sim   *verifledger.Sim
	store *storage.BadgerStore
	rng   *rand.Rand
	addrs []common.Address
	nonce int
	pool  []*verifgen.Out
	heads []*common.Round
	snapT uint64
	batch uint64
	depN  int
	asset crypto.Hash

	prepWall, porcWall time.Duration
}

func (e *vC03Env) seed() []byte {
	e.nonce++
	return verifgen.Seed64(fmt.Sprintf("%s:c03mask:%d", e.sim.Net.Label, e.nonce))
}

func (e *vC03Env) spec(units int64) verifgen.OutSpec {
	a := e.addrs[e.rng.Intn(len(e.addrs))]
	return verifgen.OutSpec{Type: common.OutputTypeScript, Owners: []common.Address{a}, Threshold: 1,
		Amount: verifgen.Units(big.NewInt(units)), Seed: e.seed()}
}

func vC03AssetId(chain crypto.Hash, key string) crypto.Hash {
	return crypto.Sha256Hash([]byte("verif-c03-asset:" + chain.String() + ":" + key))
}

// refill produces 32 fresh unspent outputs through the public write path: a
// custodian-signed deposit and a transfer splitting it, both admitted
// (Validate + LockInputs + WriteTransaction) and finalized (WriteSnapshot).
func (e *vC03Env) refill() {
	const n = 32
	e.depN++
	chain := common.EthereumAssetId
	key := "0x2222222222222222222222222222222222222222"
	sp := e.spec(n * 1000)
	dep := verifgen.Deposit(&e.sim.Net.Custodian, e.asset, chain, key, fmt.Sprintf("0xc03pool%08d", e.depN), 0, sp.Amount, sp)
	ts := e.sim.NextTime(1)
	if err := e.sim.Admit(dep, ts); err != nil {
		e.t.Fatalf("C03 harness: pool deposit not admitted: %v", err)
	}
	if _, _, err := e.sim.Finalize([]*common.VersionedTransaction{dep}, ts); err != nil {
		e.t.Fatalf("C03 harness: pool deposit not finalized: %v", err)
	}
	in := verifgen.OutsOf(dep, []verifgen.OutSpec{sp})
	var specs []verifgen.OutSpec
	for i := 0; i < n; i++ {
		specs = append(specs, e.spec(1000))
	}
	raw := verifgen.BuildTx(e.asset, in, specs, nil, nil)
	split := verifgen.SignMap(raw, in, verifgen.FirstN(in))
	ts = e.sim.NextTime(1)
	if err := e.sim.Admit(split, ts); err != nil {
		e.t.Fatalf("C03 harness: pool split not admitted: %v", err)
	}
	if _, _, err := e.sim.Finalize([]*common.VersionedTransaction{split}, ts); err != nil {
		e.t.Fatalf("C03 harness: pool split not finalized: %v", err)
	}
	e.pool = append(e.pool, verifgen.OutsOf(split, specs)...)
}

func (e *vC03Env) takeOut() *verifgen.Out {
	if len(e.pool) == 0 {
		e.refill()
	}
	o := e.pool[len(e.pool)-1]
	e.pool = e.pool[:len(e.pool)-1]
	return o
}

// newCase builds fresh slots and competing signed transactions; every
// transaction passes Validate against the current ledger (nothing locked yet).
func (e *vC03Env) newCase(kind int) *vC03Case {
	rng := e.rng
	defer func(t time.Time) { e.prepWall += time.Since(t) }(time.Now())
	c := &vC03Case{kind: kind, byHash: map[crypto.Hash]int{}}
	add := func(ver *common.VersionedTransaction, slots []int) {
		h := ver.PayloadHash()
		if _, dup := c.byHash[h]; dup {
			return
		}
		idx := len(c.txs)
		c.byHash[h] = idx
		c.txs = append(c.txs, &vC03Tx{ver: ver, hash: h, slots: slots})
		for _, s := range slots {
			c.slots[s].users[idx] = true
		}
	}
	switch kind {
	case vC03KindUTXO:
		ns := 1 + rng.Intn(4)
		for i := 0; i < ns; i++ {
			c.slots = append(c.slots, &vC03Slot{kind: kind, out: e.takeOut(), users: map[int]bool{}})
		}
		nt := 2 + rng.Intn(5)
		for i := 0; i < nt; i++ {
			perm := rng.Perm(ns)
			k := 1 + rng.Intn(ns)
			if i < 2 { // the first two always collide on slot 0
				for j, p := range perm {
					if p == 0 && j >= k {
						q := rng.Intn(k)
						perm[q], perm[j] = perm[j], perm[q]
					}
				}
			}
			slots := append([]int{}, perm[:k]...)
			var ins []*verifgen.Out
			for _, s := range slots {
				ins = append(ins, c.slots[s].out)
			}
			total := int64(1000 * k)
			var specs []verifgen.OutSpec
			if rng.Intn(2) == 0 && total > 1 {
				a := 1 + rng.Int63n(total-1)
				specs = []verifgen.OutSpec{e.spec(a), e.spec(total - a)}
			} else {
				specs = []verifgen.OutSpec{e.spec(total)}
			}
			raw := verifgen.BuildTx(e.asset, ins, specs, nil, nil)
			add(verifgen.SignMap(raw, ins, verifgen.FirstN(ins)), slots)
		}
	case vC03KindDeposit:
		// identifiers that differ only in chain, transaction id or index
		e.depN++
		chains := []crypto.Hash{common.EthereumAssetId, common.BitcoinAssetId, crypto.Sha256Hash([]byte(fmt.Sprintf("verif-chain-%d", rng.Intn(3))))}
		baseChain := chains[rng.Intn(len(chains))]
		baseTx := fmt.Sprintf("0xc03dep%08d", e.depN)
		baseIdx := uint64(rng.Intn(12))
		ids := []*common.DepositData{{Chain: baseChain, Transaction: baseTx, Index: baseIdx}}
		variants := []*common.DepositData{
			{Chain: chains[(rng.Intn(2)+1+vC03IndexOf(chains, baseChain))%len(chains)], Transaction: baseTx, Index: baseIdx},
			{Chain: baseChain, Transaction: baseTx + "1", Index: baseIdx},
			{Chain: baseChain, Transaction: baseTx, Index: baseIdx + 1},
			{Chain: baseChain, Transaction: baseTx + ":1", Index: baseIdx},
			{Chain: baseChain, Transaction: baseTx, Index: baseIdx*10 + 1},
			{Chain: baseChain, Transaction: strings.ToUpper(baseTx), Index: baseIdx},
		}
		rng.Shuffle(len(variants), func(a, b int) { variants[a], variants[b] = variants[b], variants[a] })
		seen := map[string]bool{fmt.Sprintf("%s|%s|%d", baseChain, baseTx, baseIdx): true}
		want := 1 + rng.Intn(3)
		for _, v := range variants {
			k := fmt.Sprintf("%s|%s|%d", v.Chain, v.Transaction, v.Index)
			if seen[k] || len(ids) > want {
				continue
			}
			seen[k] = true
			ids = append(ids, v)
		}
		for _, d := range ids {
			c.slots = append(c.slots, &vC03Slot{kind: kind, dep: d, users: map[int]bool{}})
		}
		for s, d := range ids {
			nt := 1 + rng.Intn(3)
			if s == 0 {
				nt = 2 + rng.Intn(2)
			}
			for i := 0; i < nt && len(c.txs) < 8; i++ {
				// competing claims of one identifier may differ in amount, asset key and recipient
				key := "0x3333333333333333333333333333333333333333"
				if rng.Intn(3) == 0 {
					key = fmt.Sprintf("0x44444444444444444444444444444444444444%02d", rng.Intn(3))
				}
				amount := int64(1 + rng.Intn(5000))
				sp := e.spec(amount)
				ver := verifgen.Deposit(&e.sim.Net.Custodian, vC03AssetId(d.Chain, key), d.Chain, key, d.Transaction, d.Index, sp.Amount, sp)
				add(ver, []int{s})
			}
		}
	case vC03KindMint:
		ns := 1 + rng.Intn(2)
		for i := 0; i < ns; i++ {
			e.batch++
			c.slots = append(c.slots, &vC03Slot{kind: kind, batch: e.batch, users: map[int]bool{}})
		}
		for s := range c.slots {
			nt := 2 + rng.Intn(2)
			for i := 0; i < nt; i++ {
				amount := int64(1 + rng.Intn(3)) // competing distributions may or may not agree on the amount
				raw := common.NewTransactionV5(common.XINAssetId)
				raw.AddUniversalMintInput(c.slots[s].batch, verifgen.Units(big.NewInt(amount)))
				raw.References = []crypto.Hash{e.sim.LastConsensusTx}
				verifgen.AddOutputs(raw, []verifgen.OutSpec{e.spec(amount)})
				ver := raw.AsVersioned()
				sig := e.sim.Net.Signers[0].PrivateSpendKey.Sign(ver.PayloadHash())
				ver.SignaturesMap = []map[uint16]*crypto.Signature{{0: &sig}}
				add(ver, []int{s})
			}
		}
	}
	ts := e.sim.NextTime(1)
	for i, tx := range c.txs {
		parsed, err := verifgen.Reparse(tx.ver)
		if err != nil {
			e.t.Fatalf("C03 harness: prepared transaction does not decode: %v", err)
		}
		if err := parsed.Validate(e.store, ts, false); err != nil {
			e.t.Fatalf("C03 harness: prepared %s transaction %d rejected by Validate: %v", vC03KindNames[kind], i, err)
		}
		tx.ver = parsed
	}
	c.desc = fmt.Sprintf("%s slots=%d txs=%d", vC03KindNames[kind], len(c.slots), len(c.txs))
	return c
}

func vC03IndexOf(hs []crypto.Hash, h crypto.Hash) int {
	for i := range hs {
		if hs[i] == h {
			return i
		}
	}
	return 0
}

// --- storage key layout used by the atomic views (trusted, sanity-checked) ---

func vC03UTXOKey(h crypto.Hash, index uint) []byte {
	buf := make([]byte, binary.MaxVarintLen64)
	n := binary.PutVarint(buf, int64(index))
	return append(append([]byte("UTXO"), h[:]...), buf[:n]...)
}

func vC03SlotKey(s *vC03Slot) []byte {
	switch s.kind {
	case vC03KindUTXO:
		return vC03UTXOKey(s.out.Hash, s.out.Index)
	case vC03KindDeposit:
		u := s.dep.UniqueKey()
		return append([]byte("DEPOSIT"), u[:]...)
	}
	return binary.BigEndian.AppendUint64([]byte("MINTUNIVERSAL"), s.batch)
}

func (c *vC03Case) holderIndex(h crypto.Hash) int8 {
	if !h.HasValue() {
		return -1
	}
	if i, ok := c.byHash[h]; ok {
		return int8(i)
	}
	return -2
}

func (e *vC03Env) view(c *vC03Case) (st vC03State, info string) {
	st = vC03InitState()
	e.store.VerifView(func(get func([]byte) ([]byte, bool)) {
		for i, s := range c.slots {
			val, ok := get(vC03SlotKey(s))
			if !ok {
				if s.kind == vC03KindUTXO {
					st.H[i] = -3
					info = "utxo record missing"
				}
				continue
			}
			var h crypto.Hash
			switch s.kind {
			case vC03KindUTXO:
				u, err := common.UnmarshalUTXO(val)
				if err != nil {
					st.H[i] = -3
					info = "utxo record unreadable"
					continue
				}
				h = u.LockHash
			case vC03KindDeposit:
				if len(val) != 32 {
					st.H[i] = -3
					info = "deposit lock malformed"
					continue
				}
				copy(h[:], val)
			case vC03KindMint:
				d, err := common.UnmarshalMintDistribution(val)
				if err != nil || d.Batch != s.batch {
					st.H[i] = -3
					info = "mint lock unreadable"
					continue
				}
				h = d.Transaction
			}
			st.H[i] = c.holderIndex(h)
		}
		for i, tx := range c.txs {
			if _, ok := get(append([]byte("TRANSACTION"), tx.hash[:]...)); ok {
				st.Body |= 1 << uint(i)
			}
			if _, ok := get(append([]byte("FINALIZATION"), tx.hash[:]...)); ok {
				st.Fin |= 1 << uint(i)
			}
		}
	})
	return st, info
}

func (e *vC03Env) snapshot(tx *vC03Tx, node int) *common.SnapshotWithTopologicalOrder {
	head := e.heads[node%len(e.heads)]
	snap := &common.Snapshot{
		Version:      common.SnapshotVersionCommonEncoding,
		NodeId:       head.NodeId,
		RoundNumber:  head.Number,
		References:   head.References,
		Timestamp:    atomic.AddUint64(&e.snapT, 1),
		Transactions: []crypto.Hash{tx.hash},
		Signature:    &crypto.CosiSignature{Mask: 1},
	}
	snap.Hash = snap.PayloadHash()
	return &common.SnapshotWithTopologicalOrder{Snapshot: snap, TopologicalOrder: atomic.AddUint64(&e.sim.Topo, 1)}
}

func vC03Classify(panicked bool, pv any, err error) vC03Out {
	switch {
	case panicked:
		return vC03Out{Res: vC03ResPanic, Info: vC03Short(fmt.Sprint(pv))}
	case err == nil:
		return vC03Out{Res: vC03ResOK}
	case errors.Is(err, badger.ErrConflict):
		return vC03Out{Res: vC03ResConflict}
	}
	return vC03Out{Res: vC03ResFail, Info: vC03Short(err.Error())}
}

func vC03Short(s string) string {
	if len(s) > 90 {
		s = s[:90]
	}
	return s
}

// exec performs one operation on the real store.
func (e *vC03Env) exec(c *vC03Case, in *vC03In) vC03Out {
	switch in.Op {
	case vC03OpLock:
		tx := c.txs[in.Tx]
		var err error
		p, pv, _ := verifkit.Guard(func() {
			switch {
			case in.Full:
				err = tx.ver.LockInputs(e.store, in.Fork)
			case c.kind == vC03KindUTXO:
				var ins []*common.Input
				for _, s := range in.Slots {
					ins = append(ins, &common.Input{Hash: c.slots[s].out.Hash, Index: c.slots[s].out.Index})
				}
				err = e.store.LockUTXOs(ins, tx.hash, in.Fork)
			case c.kind == vC03KindDeposit:
				err = e.store.LockDepositInput(tx.ver.Inputs[0].Deposit, tx.hash, in.Fork)
			default:
				err = e.store.LockMintInput(tx.ver.Inputs[0].Mint, tx.hash, in.Fork)
			}
		})
		return vC03Classify(p, pv, err)
	case vC03OpWrite:
		var err error
		p, pv, _ := verifkit.Guard(func() { err = e.store.WriteTransaction(c.txs[in.Tx].ver) })
		return vC03Classify(p, pv, err)
	case vC03OpFinal:
		snap := e.snapshot(c.txs[in.Tx], in.Node)
		var err error
		p, pv, _ := verifkit.Guard(func() { err = e.store.WriteSnapshot(snap, []crypto.Hash{snap.NodeId}) })
		return vC03Classify(p, pv, err)
	case vC03OpView:
		st, info := e.view(c)
		return vC03Out{Res: vC03ResOK, St: st, Info: info}
	case vC03OpReadSlot:
		s := c.slots[in.Slots[0]]
		out := vC03Out{Res: vC03ResOK, St: vC03InitState()}
		var h crypto.Hash
		if s.kind == vC03KindUTXO {
			u, err := e.store.ReadUTXOLock(s.out.Hash, s.out.Index)
			if err != nil || u == nil {
				out.St.H[in.Slots[0]] = -3
				out.Info = fmt.Sprintf("ReadUTXOLock: %v %v", u, err)
				return out
			}
			h = u.LockHash
		} else {
			var err error
			h, err = e.store.ReadDepositLock(s.dep)
			if err != nil {
				out.St.H[in.Slots[0]] = -3
				out.Info = "ReadDepositLock: " + err.Error()
				return out
			}
		}
		out.St.H[in.Slots[0]] = c.holderIndex(h)
		return out
	}
	// ReadTransaction
	out := vC03Out{Res: vC03ResOK, St: vC03InitState()}
	ver, final, err := e.store.ReadTransaction(c.txs[in.Tx].hash)
	if err != nil {
		out.Info = "ReadTransaction: " + err.Error()
		out.St.Fin = 0xffff
		return out
	}
	if ver != nil {
		out.St.Body |= 1 << uint(in.Tx)
	}
	if final != "" {
		out.St.Fin |= 1 << uint(in.Tx)
	}
	return out
}

// genOp draws one operation. finals counts WriteSnapshot attempts per
// transaction (each attempt goes to another chain, at most one per chain).
func (e *vC03Env) genOp(rng *rand.Rand, c *vC03Case, finals []int, noWrite, reads bool) *vC03In {
	for {
		t := rng.Intn(len(c.txs))
		tx := c.txs[t]
		x := rng.Intn(100)
		switch {
		case x < 55:
			in := &vC03In{Op: vC03OpLock, Tx: t, Fork: rng.Intn(100) < 45, Slots: append([]int{}, tx.slots...), Full: true}
			if c.kind == vC03KindUTXO && rng.Intn(5) == 0 {
				in.Full = false
				rng.Shuffle(len(in.Slots), func(a, b int) { in.Slots[a], in.Slots[b] = in.Slots[b], in.Slots[a] })
				in.Slots = in.Slots[:1+rng.Intn(len(in.Slots))]
				if rng.Intn(4) == 0 {
					in.Slots = append(in.Slots, in.Slots[0]) // the same input twice in one call
				}
			} else if rng.Intn(4) == 0 {
				in.Full = false // direct storage call with the transaction's own input list
			}
			return in
		case x < 72:
			if noWrite {
				continue
			}
			return &vC03In{Op: vC03OpWrite, Tx: t}
		case x < 80:
			if finals[t] >= len(e.heads) {
				continue
			}
			finals[t]++
			return &vC03In{Op: vC03OpFinal, Tx: t, Node: finals[t] - 1}
		case x < 88:
			if !reads {
				continue
			}
			return &vC03In{Op: vC03OpView}
		case x < 95:
			if !reads || c.kind == vC03KindMint {
				continue
			}
			return &vC03In{Op: vC03OpReadSlot, Slots: []int{rng.Intn(len(c.slots))}}
		default:
			if !reads {
				continue
			}
			return &vC03In{Op: vC03OpReadTx, Tx: t}
		}
	}
}

// vC03Pointless: in the model state the call would only trip a debug assertion
// of the store (body written by a non-holder, finalization without a body).
func vC03Pointless(c *vC03Case, st vC03State, in *vC03In) bool {
	switch in.Op {
	case vC03OpWrite:
		for _, s := range c.txs[in.Tx].slots {
			if st.H[s] != int8(in.Tx) {
				return true
			}
		}
	case vC03OpFinal:
		return st.Body&(1<<uint(in.Tx)) == 0
	}
	return false
}

func vC03DiffClass(model, got vC03State) string {
	cls := func(h int8) string {
		switch {
		case h == -1:
			return "free"
		case h == -2:
			return "unknown-transaction"
		case h == -3:
			return "unreadable"
		}
		return "tx"
	}
	for i := range model.H {
		if model.H[i] != got.H[i] {
			return fmt.Sprintf("holder(model=%s,store=%s)", cls(model.H[i]), cls(got.H[i]))
		}
	}
	if d := model.Body ^ got.Body; d != 0 {
		if got.Body&d != 0 {
			return "body-stored-but-removed-in-model"
		}
		return "body-missing-but-stored-in-model"
	}
	if model.Fin != got.Fin {
		return "finalization-flag"
	}
	return "same"
}

// runSequential executes one random sequential history and compares every
// result and the full state after every call with the model.
func (e *vC03Env) runSequential(c *vC03Case, nops int) {
	r := e.r
	st := vC03InitState()
	finals := make([]int, len(c.txs))
	last := "start"
	var trace []string
	record := func(in *vC03In, out vC03Out) {
		trace = append(trace, fmt.Sprintf("%s -> %s", in, out))
		if len(trace) > 40 {
			trace = trace[len(trace)-40:]
		}
	}
	for i := 0; i < nops; i++ {
		in := e.genOp(e.rng, c, finals, false, false)
		for k := 0; k < 3 && vC03Pointless(c, st, in); k++ { // prefer calls that can have an effect
			if in.Op == vC03OpFinal {
				finals[in.Tx]--
			}
			in = e.genOp(e.rng, c, finals, false, false)
		}
		out := e.exec(c, in)
		record(in, out)
		r.Eval()
		desc := vC03OpNames[in.Op]
		if in.Op == vC03OpLock {
			mustFail, allOwn, _, class := vC03LockModel(st, in)
			desc = fmt.Sprintf("lock|flag=%v|holder=%s", in.Fork, class)
			r.Count("seq_"+vC03KindNames[c.kind]+"_"+strings.ReplaceAll(desc, "|", "_")+"_"+vC03ResNames[out.Res], 1)
			if !mustFail && !allOwn && out.Res == vC03ResFail {
				r.Count("seq_refused_although_model_allows", 1)
			}
			if !mustFail && class == "other-pending" && out.Res == vC03ResOK {
				r.Nontrivial(fmt.Sprintf("takeover|%s|%s", c.txs[in.Tx].hash, last))
			}
			if mustFail && out.Res == vC03ResFail {
				r.Nontrivial(fmt.Sprintf("refused|%s|%v|%d", c.txs[in.Tx].hash, in.Fork, i))
			}
		} else {
			r.Count("seq_"+vC03OpNames[in.Op]+"_"+vC03ResNames[out.Res], 1)
		}
		ok, ns := vC03Step(st, in, out)
		if !ok {
			r.Violation(fmt.Sprintf("C03|seq|%s|%s|got=%s", vC03KindNames[c.kind], desc, vC03ResNames[out.Res]),
				fmt.Sprintf("sequential history on %s slots: %s returned %s, which the slot model forbids (model state %+v)", vC03KindNames[c.kind], in, out, st),
				map[string]any{"case": c.desc, "model_state": fmt.Sprintf("%+v", st), "last_calls": trace, "transactions": c.hashes()})
			return
		}
		st = ns.(vC03State)
		// full state after every call: atomic view and the public single-key reads
		got, info := e.view(c)
		if got != st {
			r.Violation(fmt.Sprintf("C03|seq|%s|state-after-%s|%s", vC03KindNames[c.kind], desc, vC03DiffClass(st, got)),
				fmt.Sprintf("after %s -> %s the store holds %+v but the slot model holds %+v (%s)", in, out, got, st, info),
				map[string]any{"case": c.desc, "last_calls": trace, "transactions": c.hashes()})
			return
		}
		for s := range c.slots {
			if c.kind == vC03KindMint {
				break
			}
			ro := e.exec(c, &vC03In{Op: vC03OpReadSlot, Slots: []int{s}})
			if ro.St.H[s] != st.H[s] {
				r.Violation(fmt.Sprintf("C03|seq|%s|public-read-after-%s|slot-holder", vC03KindNames[c.kind], desc),
					fmt.Sprintf("after %s -> %s the public lock read of slot %d returns holder %d, model holder %d (%s)", in, out, s, ro.St.H[s], st.H[s], ro.Info),
					map[string]any{"case": c.desc, "last_calls": trace, "transactions": c.hashes()})
				return
			}
		}
		t := e.rng.Intn(len(c.txs))
		ro := e.exec(c, &vC03In{Op: vC03OpReadTx, Tx: t})
		if ok, _ := vC03Step(st, &vC03In{Op: vC03OpReadTx, Tx: t}, ro); !ok {
			r.Violation(fmt.Sprintf("C03|seq|%s|public-read-after-%s|ReadTransaction", vC03KindNames[c.kind], desc),
				fmt.Sprintf("after %s -> %s ReadTransaction(tx %d) disagrees with the model %+v (%s)", in, out, t, st, ro.Info),
				map[string]any{"case": c.desc, "last_calls": trace, "transactions": c.hashes()})
			return
		}
		if in.Op != vC03OpView {
			last = desc
		}
	}
	if r.SampleCount() < 2 {
		r.Sample(map[string]any{"mode": "sequential", "case": c.desc, "last_calls": trace[len(trace)-vC03Min(8, len(trace)):]})
	}
}

func vC03Min(a, b int) int {
	if a < b {
		return a
	}
	return b
}

func (c *vC03Case) hashes() []string {
	var res []string
	for i, tx := range c.txs {
		res = append(res, fmt.Sprintf("tx%d=%s slots=%v", i, tx.hash, tx.slots))
	}
	return res
}

type vC03Rec struct {
	client int
	in     *vC03In
	out    vC03Out
	call   int64
	ret    int64
}

// runConcurrent executes one concurrent history and checks it.
func (e *vC03Env) runConcurrent(c *vC03Case, hi int) {
	r := e.r
	rng := e.rng
	kind := vC03KindNames[c.kind]
	finals := make([]int, len(c.txs))
	noWrite := rng.Intn(100) < 40
	var tick int64
	var recs []vC03Rec
	do := func(client int, in *vC03In) vC03Rec {
		call := atomic.AddInt64(&tick, 1)
		out := e.exec(c, in)
		ret := atomic.AddInt64(&tick, 1)
		return vC03Rec{client: client, in: in, out: out, call: call, ret: ret}
	}
	// a third of the histories are stampedes: nothing is locked yet and every client's first call, released by one
	// barrier, is the complete lock request of its own transaction (the check-then-act window of a lock)
	stampede := rng.Intn(3) == 0
	if stampede {
		r.Count("histories_starting_with_a_lock_stampede", 1)
	}
	// random starting state, produced by ordinary calls from one client (part of the history)
	for t, tx := range c.txs {
		x := rng.Intn(100)
		if x < 30 || stampede {
			continue
		}
		recs = append(recs, do(0, &vC03In{Op: vC03OpLock, Tx: t, Slots: append([]int{}, tx.slots...), Full: true, Fork: rng.Intn(5) == 0}))
		if x < 45 {
			continue
		}
		recs = append(recs, do(0, &vC03In{Op: vC03OpWrite, Tx: t}))
		if x < 80 {
			continue
		}
		finals[t]++
		recs = append(recs, do(0, &vC03In{Op: vC03OpFinal, Tx: t, Node: finals[t] - 1}))
	}
	nprep := len(recs)
	g := 2 + rng.Intn(15)
	per := 44 / g
	if per < 2 {
		per = 2
	}
	plans := make([][]*vC03In, g)
	for i := range plans {
		for k := 0; k < per; k++ {
			plans[i] = append(plans[i], e.genOp(rng, c, finals, noWrite, true))
		}
		if stampede {
			t := i % len(c.txs)
			plans[i][0] = &vC03In{Op: vC03OpLock, Tx: t, Slots: append([]int{}, c.txs[t].slots...), Full: true}
		}
	}
	results := make([][]vC03Rec, g)
	start := make(chan struct{})
	var wg sync.WaitGroup
	for i := 0; i < g; i++ {
		wg.Add(1)
		go func(i int) {
			defer wg.Done()
			lr := r.Fork("c03-conc", hi*64+i)
			<-start
			for k, in := range plans[i] {
				x := lr.Intn(4)
				if stampede && k == 0 {
					x = 3
				}
				switch x {
				case 0:
					runtime.Gosched()
				case 1:
					time.Sleep(time.Duration(lr.Intn(200)) * time.Microsecond)
				}
				results[i] = append(results[i], do(i+1, in))
			}
		}(i)
	}
	// concurrent reader: atomic multi-key views, invariants that hold in every reachable state
	stop := make(chan struct{})
	var rwg sync.WaitGroup
	var views []vC03State
	rwg.Add(1)
	go func() {
		defer rwg.Done()
		<-start
		for {
			st, _ := e.view(c)
			if len(views) == 0 || views[len(views)-1] != st {
				views = append(views, st)
			}
			r.Count("reader_views", 1)
			select {
			case <-stop:
				return
			default:
			}
			runtime.Gosched()
		}
	}()
	close(start)
	wg.Wait()
	close(stop)
	rwg.Wait()
	for i := range results {
		recs = append(recs, results[i]...)
	}
	recs = append(recs, do(0, &vC03In{Op: vC03OpView}))
	r.Eval()

	// bookkeeping: operation mix, contention actually observed
	type span struct {
		tx        int
		call, ret int64
	}
	bySlot := map[int][]span{}
	var digest strings.Builder
	for _, rc := range recs {
		r.Count("conc_"+vC03OpNames[rc.in.Op]+"_"+vC03ResNames[rc.out.Res], 1)
		fmt.Fprintf(&digest, "%d:%s>%s;", rc.client, rc.in, rc.out)
		if rc.in.Op == vC03OpLock {
			if rc.in.Fork {
				r.Count("conc_lock_flag_"+vC03ResNames[rc.out.Res], 1)
			}
			for _, s := range rc.in.Slots {
				bySlot[s] = append(bySlot[s], span{rc.in.Tx, rc.call, rc.ret})
			}
		}
	}
	contended := false
	for _, sp := range bySlot {
		for i := range sp {
			for j := i + 1; j < len(sp); j++ {
				if sp[i].tx != sp[j].tx && sp[i].call <= sp[j].ret && sp[j].call <= sp[i].ret {
					contended = true
				}
			}
		}
	}
	if contended {
		r.Count("histories_contended", 1)
		dh := sha256.Sum256([]byte(digest.String()))
		r.Nontrivial("conc|" + hex.EncodeToString(dh[:12]))
	}
	r.Count("histories_"+kind, 1)
	r.Count("goroutines_total", g)

	witness := func() map[string]any {
		sort.Slice(recs, func(i, j int) bool { return recs[i].call < recs[j].call })
		var ops []string
		for _, rc := range recs {
			ops = append(ops, fmt.Sprintf("client=%d [%d,%d] %s -> %s", rc.client, rc.call, rc.ret, rc.in, rc.out))
		}
		return map[string]any{"case": c.desc, "goroutines": g, "prep_calls": nprep, "history": ops, "transactions": c.hashes()}
	}

	// reader invariants
	if sig, what := vC03ReaderCheck(c, views, noWrite); sig != "" {
		w := witness()
		var vs []string
		for _, v := range views {
			vs = append(vs, fmt.Sprintf("%+v", v))
		}
		w["reader_views"] = vs
		r.Violation("C03|conc|"+kind+"|reader|"+sig, "concurrent reader (one read transaction per view): "+what, w)
	}

	// linearizability against the slot model
	hist := make([]porcupine.Operation, len(recs))
	for i, rc := range recs {
		hist[i] = porcupine.Operation{ClientId: rc.client, Input: rc.in, Call: rc.call, Output: rc.out, Return: rc.ret}
	}
	tp := time.Now()
	res := porcupine.CheckOperationsTimeout(vC03Model, hist, 30*time.Second)
	e.porcWall += time.Since(tp)
	switch res {
	case porcupine.Ok:
		r.Count("porcupine_ok", 1)
	case porcupine.Illegal:
		r.Count("porcupine_illegal", 1)
		r.Violation("C03|conc|"+kind+"|nonlinearizable",
			fmt.Sprintf("history of %d calls from %d goroutines on %s slots has no linearization in the slot model (at most one holder, atomic takeover with body removal, finalized holders never displaced)", len(recs), g, kind),
			witness())
	default:
		r.Count("porcupine_unknown_timeout", 1)
	}
	if contended && r.SampleCount() < 5 {
		w := witness()
		h := w["history"].([]string)
		if len(h) > 14 {
			w["history"] = h[:14]
		}
		w["mode"] = "concurrent"
		delete(w, "transactions")
		r.Sample(w)
	}
}

// vC03ReaderCheck asserts, on the sequence of distinct atomic views taken by the
// concurrent reader, facts that hold in every state reachable in the model.
func vC03ReaderCheck(c *vC03Case, views []vC03State, noWrite bool) (sig, what string) {
	for i, v := range views {
		for s := range c.slots {
			h := v.H[s]
			if h == -3 || h == -2 {
				return "holder-unknown", fmt.Sprintf("slot %d is held by something that is none of the competing transactions (view %+v)", s, v)
			}
			if h >= 0 && !c.slots[s].users[int(h)] {
				return "holder-never-requested-slot", fmt.Sprintf("slot %d is held by transaction %d which never requested it: distinct slots alias (view %+v)", s, h, v)
			}
		}
		if v.Fin&^v.Body != 0 {
			return "finalized-body-missing", fmt.Sprintf("a finalized transaction has no stored body (view %+v)", v)
		}
		if i == 0 {
			continue
		}
		p := views[i-1]
		if p.Fin&^v.Fin != 0 {
			return "finalization-reverted", fmt.Sprintf("finalization mark disappeared between views %+v and %+v", p, v)
		}
		for s := range c.slots {
			if p.H[s] >= 0 && v.H[s] == -1 {
				return "slot-released", fmt.Sprintf("slot %d went from held to free between views %+v and %+v", s, p, v)
			}
			if p.H[s] >= 0 && p.H[s] != v.H[s] && p.Fin&(1<<uint(p.H[s])) != 0 {
				return "finalized-holder-displaced", fmt.Sprintf("slot %d was held by finalized transaction %d and is now held by %d (views %+v then %+v)", s, p.H[s], v.H[s], p, v)
			}
			if noWrite && p.H[s] >= 0 && p.H[s] != v.H[s] {
				// nobody writes bodies in this history: a displaced holder's body must be gone
				// in the very view that shows the new holder, and stay gone
				for _, later := range views[i:] {
					if later.Body&(1<<uint(p.H[s])) != 0 {
						return "displaced-body-still-stored", fmt.Sprintf("slot %d passed from transaction %d to %d but the displaced body is still stored (views %+v then %+v, later %+v)", s, p.H[s], v.H[s], p, v, later)
					}
				}
			}
		}
	}
	return "", ""
}

// vC03TempDir prefers a memory-backed directory: the store opens its graph
// database with SyncWrites, and on a shared disk the fsync per commit dominates
// the run. Durability is not what this property is about.
func vC03TempDir(t *testing.T) string {
	const base = "/dev/shm"
	if fi, err := os.Stat(base); err == nil && fi.IsDir() {
		if old, err := filepath.Glob(filepath.Join(base, "verif-c03-*")); err == nil {
			for _, d := range old { // leftovers of runs killed by the watchdog
				if fi, err := os.Stat(d); err == nil && time.Since(fi.ModTime()) > 3*time.Hour {
					_ = os.RemoveAll(d)
				}
			}
		}
		if dir, err := os.MkdirTemp(base, "verif-c03-"); err == nil {
			t.Cleanup(func() { _ = os.RemoveAll(dir) })
			return dir
		}
	}
	return t.TempDir()
}

func TestVerif_C03(t *testing.T) {
	r := verifkit.Start(t, "C03", "exploration")
	r.SetRule("real BadgerStore over a simulated ledger (own genesis; slots and competing signed transactions produced through Validate/LockInputs/WriteTransaction/WriteSnapshot); " +
		"per case 1..4 fresh slots of one kind (unspent outputs / deposit identifiers differing only in chain, transaction id or index / mint batches) and 2..8 competing transactions; " +
		"random lock (both flags, full and partial input lists), WriteTransaction, WriteSnapshot and read calls, sequentially (result + full state vs model after each call) and from 2..16 goroutines " +
		"(porcupine vs the same model + concurrent atomic-view reader); non-trivial = distinct concurrent histories in which two different transactions requested one slot with overlapping call intervals, " +
		"plus distinct sequential takeovers and refusals")
	r.Assume("Badger transactions are atomic and snapshot-isolated; the Go race detector reports unsynchronised access")
	r.Assume("key layout of UTXO/DEPOSIT/MINTUNIVERSAL/TRANSACTION/FINALIZATION records is used by the atomic views and sanity-checked against the public reads at start")
	r.Assume("a call that panics (debug assertions of the store) or returns badger.ErrConflict has no effect")
	r.Assume("scheduling is by the Go runtime: interleavings are sampled, not enumerated")
	rng := r.Rand()
	sim, err := verifledger.NewSim(fmt.Sprintf("c03-%d", r.Seed), 7, 1700000000, vC03TempDir(t))
	if err != nil {
		t.Fatal(err)
	}
	defer sim.Close()
	e := &vC03Env{t: t, r: r, sim: sim, store: sim.Store, rng: rng, batch: 1000 + uint64(rng.Intn(1000)),
		asset: vC03AssetId(common.EthereumAssetId, "0x2222222222222222222222222222222222222222"), snapT: sim.Net.Epoch + uint64(time.Hour)*24*365}
	for i := 0; i < 4; i++ {
		e.addrs = append(e.addrs, verifgen.Addr(fmt.Sprintf("%s:c03wallet:%d", sim.Net.Label, i)))
	}
	for _, id := range sim.Net.NodeIds {
		head, err := sim.Store.ReadRound(id)
		if err != nil || head == nil {
			t.Fatalf("C03 harness: no head round for %s: %v", id, err)
		}
		e.heads = append(e.heads, head)
	}
	e.refill()
	// sanity of the view's key layout: a pool output must be visible, unlocked
	{
		probe := &vC03Case{kind: vC03KindUTXO, slots: []*vC03Slot{{kind: vC03KindUTXO, out: e.pool[0], users: map[int]bool{}}}, byHash: map[crypto.Hash]int{}}
		st, info := e.view(probe)
		u, err := sim.Store.ReadUTXOLock(e.pool[0].Hash, e.pool[0].Index)
		if st.H[0] != -1 || err != nil || u == nil || u.LockHash.HasValue() {
			r.Inconclusive(fmt.Sprintf("view key layout does not match the store (%s, %v)", info, err))
			r.Finish()
			return
		}
	}

	kinds := []int{vC03KindUTXO, vC03KindUTXO, vC03KindDeposit, vC03KindMint}
	t0 := time.Now()
	nseq := r.N(40, 400)
	for i := 0; i < nseq && r.Violations() == 0; i++ {
		c := e.newCase(kinds[i%len(kinds)])
		e.runSequential(c, 60+rng.Intn(60))
		r.Count("sequential_histories", 1)
	}
	r.Note("wall_s_sequential_phase", time.Since(t0).Seconds())
	t1 := time.Now()
	nconc := r.N(150, 2000)
	for i := 0; i < nconc && r.Violations() < 3; i++ {
		c := e.newCase(kinds[i%len(kinds)])
		e.runConcurrent(c, i)
	}
	r.Note("wall_s_concurrent_phase", time.Since(t1).Seconds())
	r.Note("wall_s_case_preparation", e.prepWall.Seconds())
	r.Note("wall_s_porcupine", e.porcWall.Seconds())
	if n := r.Counter("porcupine_unknown_timeout"); n*10 > int64(nconc) {
		r.Inconclusive(fmt.Sprintf("%d of %d concurrent histories could not be decided within the checker timeout", n, nconc))
	}
	if r.Counter("histories_contended")*4 < int64(nconc) && r.Violations() == 0 {
		r.Inconclusive(fmt.Sprintf("only %d of %d concurrent histories were contended", r.Counter("histories_contended"), nconc))
	}
	if r.Counter("seq_refused_although_model_allows") > int64(nseq) {
		r.Inconclusive("the store refused most lock requests the model allows; almost nothing was observed")
	}
	r.SetFloor(20)
	r.Finish()
}
