package storage_test

import (
	"fmt"
	"math/big"
	"testing"

	"github.com/MixinNetwork/mixin/common"
	"github.com/MixinNetwork/mixin/crypto"
	"github.com/MixinNetwork/mixin/verifgen"
	"github.com/MixinNetwork/mixin/verifkit"
	"github.com/MixinNetwork/mixin/verifledger"
)

// vC17Check compares, for every asset, the recorded total, the reference
// supply and the sum of outputs not consumed by a finalized transaction.
func vC17Check(r *verifkit.Run, sim *verifledger.Sim, where string) {
	// scan of output records: consumed = lock holder is a finalized transaction
	scan := map[crypto.Hash]*big.Int{}
	finalCache := map[crypto.Hash]bool{}
	records := 0
	for k, v := range sim.Store.VerifDump("UTXO") {
		u, err := common.UnmarshalUTXO(v)
		if err != nil {
			r.Inconclusive("UTXO record layout not understood: " + err.Error() + " key " + fmt.Sprintf("%x", k))
			return
		}
		records++
		consumed := false
		if u.LockHash.HasValue() {
			fin, ok := finalCache[u.LockHash]
			if !ok {
				_, snap, err := sim.Store.ReadTransaction(u.LockHash)
				fin = err == nil && snap != ""
				finalCache[u.LockHash] = fin
			}
			consumed = fin
		}
		if consumed {
			continue
		}
		if scan[u.Asset] == nil {
			scan[u.Asset] = new(big.Int)
		}
		scan[u.Asset].Add(scan[u.Asset], verifgen.UnitsOf(u.Amount))
	}
	r.Count("output_records_scanned", records)
	refUnspent := sim.Ref.Unspent()
	assets := map[crypto.Hash]bool{}
	for a := range scan {
		assets[a] = true
	}
	for a := range sim.Ref.Supply {
		assets[a] = true
	}
	for a := range assets {
		r.Eval()
		r.Count("asset_checks", 1)
		info, bal, err := sim.Store.ReadAssetWithBalance(a)
		if err != nil {
			r.Violation("C17|read-error", "ReadAssetWithBalance failed: "+err.Error(), map[string]any{"asset": a.String(), "where": where})
			continue
		}
		total := verifgen.UnitsOf(bal)
		ref := sim.Ref.Supply[a]
		if ref == nil {
			ref = new(big.Int)
		}
		sc := scan[a]
		if sc == nil {
			sc = new(big.Int)
		}
		ru := refUnspent[a]
		if ru == nil {
			ru = new(big.Int)
		}
		w := map[string]any{"asset": a.String(), "where": where, "recorded_total": total.String(), "reference_supply": ref.String(),
			"unconsumed_outputs_in_store": sc.String(), "unconsumed_outputs_reference": ru.String(), "info_present": info != nil}
		if ref.Cmp(ru) != 0 {
			// the finalized history itself does not conserve value (a transaction whose outputs differ from its
			// inputs was finalized): the store comparisons below report it
			r.Count("reference_supply_differs_from_reference_unspent", 1)
		}
		if total.Cmp(ref) != 0 {
			r.Violation("C17|total-differs-from-supply|"+where, fmt.Sprintf("recorded total %s differs from genesis+deposits+mints-withdrawals = %s", total, ref), w)
		}
		if sc.Cmp(ref) != 0 {
			r.Violation("C17|unconsumed-differs-from-supply|"+where, fmt.Sprintf("outputs not consumed by finalized transactions sum to %s, supply is %s", sc, ref), w)
		}
		if total.Sign() < 0 || total.Cmp(verifgen.UnitsOf(common.GetAssetCapacity(a))) > 0 {
			r.Violation("C17|total-out-of-range|"+where, fmt.Sprintf("recorded total %s outside [0, capacity]", total), w)
		}
	}
}

// TestVerif_C17: asset supply equals the value held in unconsumed outputs.
func TestVerif_C17(t *testing.T) {
	r := verifkit.Start(t, "C17", "exploration")
	r.SetRule("storage-level ledger simulator over 4+ assets: validated deposits, transfers, withdrawal submissions and claims, mints, node pledge/accept/cancel/remove, " +
		"finalized alone or in batches of 1..4, including finalization-path takeovers of outputs reserved by a pending transaction and pending transactions that are never finalized; " +
		"after every snapshot (thorough: every 5th) all output records are scanned and for every asset: recorded total == reference supply (genesis + deposits + mints - withdrawal " +
		"submissions, math/big) == sum of outputs not consumed by a finalized transaction, within [0, capacity]. non-trivial = distinct finalized snapshots after which the scan ran")
	rng := r.Rand()
	sim, err := verifledger.NewSim(fmt.Sprintf("c17-%d", r.Seed), 7, 1700000000, t.TempDir())
	if err != nil {
		t.Fatal(err)
	}
	defer sim.Close()
	d := newVerifSDriver(sim, rng)
	vC17Check(r, sim, "genesis")
	steps := r.N(500, 20000)
	every := r.N(1, 5)
	snapshots := 0
	var batch []*verifSDTx
	var pool []*common.VersionedTransaction
	otherTs := map[crypto.Hash]uint64{}
	flush := func() {
		if len(batch) == 0 {
			return
		}
		ts := sim.NextTime(uint64(1 + rng.Intn(3e9)))
		txs := make([]*common.VersionedTransaction, len(batch))
		for i, b := range batch {
			txs[i] = b.Tx
		}
		_, panicked, err := sim.Finalize(txs, ts)
		if err != nil {
			r.Count("finalize_failures_(C16_territory)", 1)
			_ = panicked
			batch = nil
			return
		}
		for _, b := range batch {
			d.applied(b)
			r.Count("finalized_"+b.Kind, 1)
		}
		batch = nil
		snapshots++
		r.Nontrivial(fmt.Sprint("snap", snapshots))
		for _, b := range txs {
			if b.IsSnapshotBatchable() {
				pool = append(pool, b)
			}
		}
		// now and then another chain finalizes a snapshot that repeats already finalized transactions
		if snapshots%9 == 0 && len(pool) > 3 {
			chain := sim.Net.NodeIds[1+rng.Intn(len(sim.Net.NodeIds)-1)]
			uniq := sim.Store.VerifDump("UNIQUE")
			var again []crypto.Hash
			for tries := 0; tries < 8 && len(again) < 1+rng.Intn(3); tries++ {
				h := pool[rng.Intn(len(pool))].PayloadHash()
				dup := false
				for _, x := range again {
					dup = dup || x == h
				}
				if _, used := uniq["UNIQUE"+string(h[:])+string(chain[:])]; !used && !dup {
					again = append(again, h)
				}
			}
			if len(again) > 0 {
				otherTs[chain] = max(otherTs[chain], sim.Clock) + uint64(1+rng.Intn(1000))
				if snap, err := verifSDSnapshotOn(sim, chain, again, otherTs[chain]); err == nil {
					var werr error
					panicked, _, _ := verifkit.Guard(func() { werr = sim.Store.WriteSnapshot(snap, []crypto.Hash{chain}) })
					if !panicked && werr == nil {
						sim.Topo++
						r.Count("overlap_snapshots_on_other_chains", 1)
					}
				}
			}
		}
		if snapshots%every == 0 {
			vC17Check(r, sim, "after-snapshot")
		}
	}
	for i := 0; i < steps; i++ {
		c := d.next()
		if c == nil {
			continue
		}
		ts := sim.NextTime(uint64(1 + rng.Intn(2e9)))
		// a pending spender reserves the inputs first; sometimes it is displaced by a rival on the
		// finalization path, sometimes it just stays pending forever
		if c.Kind == "transfer" && len(c.Ins) > 0 && rng.Intn(5) == 0 {
			if err := sim.Admit(c.Tx, ts); err != nil {
				r.Count("rejected_transfer", 1)
				continue
			}
			if rng.Intn(3) == 0 {
				r.Count("pending_spenders_left_unfinalized", 1)
				continue
			}
			total := new(big.Int)
			for _, o := range c.Ins {
				total.Add(total, verifgen.UnitsOf(o.Amount))
			}
			spec := d.w.Spec(verifgen.Units(total), 2)
			raw := verifgen.BuildTx(c.Ins[0].Asset, c.Ins, []verifgen.OutSpec{spec}, []byte("rival"), nil)
			rival := &verifSDTx{Kind: "transfer", Tx: verifgen.SignMap(raw, c.Ins, verifgen.FirstN(c.Ins)), Specs: []verifgen.OutSpec{spec}}
			if err := sim.AdmitFinal(rival.Tx, ts); err != nil {
				r.Count("takeover_rejected", 1)
				continue
			}
			if body, _, _ := sim.Store.ReadTransaction(c.Tx.PayloadHash()); body != nil {
				r.Count("displaced_body_still_present_(C03_territory)", 1)
			}
			r.Count("finalization_path_takeovers", 1)
			flush()
			batch = []*verifSDTx{rival}
			flush()
			continue
		}
		// hostile candidate: a custodian-signed input that carries both a deposit and a mint payload with different
		// amounts, the output worth one of the two; if it is admitted and finalized, whatever amount the total is
		// moved by and whatever the output holds have to agree
		if c.Kind == "deposit" && len(c.Tx.Inputs) == 1 && c.Tx.Inputs[0].Deposit != nil && rng.Intn(5) == 0 {
			dd := *c.Tx.Inputs[0].Deposit
			dd.Transaction += "-both-payloads"
			depU := verifgen.UnitsOf(dd.Amount)
			mintU := new(big.Int).Add(depU, big.NewInt(int64(1+rng.Intn(1000))))
			if rng.Intn(2) == 0 && depU.Cmp(big.NewInt(2)) > 0 {
				mintU = new(big.Int).Div(depU, big.NewInt(2))
			}
			raw := common.NewTransactionV5(c.Tx.Asset)
			raw.AddDepositInput(&dd)
			raw.Inputs[0].Mint = &common.MintData{Group: "UNIVERSAL", Batch: uint64(1 + rng.Intn(3000)), Amount: verifgen.Units(mintU)}
			spec := c.Specs[0]
			spec.Amount = verifgen.Units(mintU)
			cls := "output-worth-the-mint-payload"
			if rng.Intn(3) == 0 {
				spec.Amount = dd.Amount
				cls = "output-worth-the-deposit-payload"
			}
			verifgen.AddOutputs(raw, []verifgen.OutSpec{spec})
			ver := raw.AsVersioned()
			sig := d.w.Custodian.PrivateSpendKey.Sign(ver.PayloadHash())
			ver.SignaturesMap = []map[uint16]*crypto.Signature{{0: &sig}}
			bad := &verifSDTx{Kind: "deposit", Tx: ver, Specs: []verifgen.OutSpec{spec}}
			admit := sim.Admit
			if rng.Intn(2) == 0 {
				admit = sim.AdmitFinal
			}
			var aerr error
			if panicked, pv, _ := verifkit.Guard(func() { aerr = admit(bad.Tx, ts) }); panicked {
				aerr = fmt.Errorf("panic: %v", pv)
			}
			if aerr != nil {
				r.Count("rejected_deposit-and-mint-payload_input_"+cls, 1)
			} else {
				r.Count("ACCEPTED_deposit-and-mint-payload_input_"+cls, 1)
				flush()
				batch = []*verifSDTx{bad}
				flush()
				continue
			}
		}
		// hostile candidates: a transfer whose outputs are worth more (or less) than its inputs; if validation
		// lets one through and it is finalized, the scan below sees the supply drift
		if c.Kind == "transfer" && len(c.Ins) > 0 && rng.Intn(6) == 0 {
			total := new(big.Int)
			for _, o := range c.Ins {
				total.Add(total, verifgen.UnitsOf(o.Amount))
			}
			delta := big.NewInt(int64(1 + rng.Intn(1000)))
			cls := "inflating"
			if rng.Intn(2) == 0 && total.Cmp(big.NewInt(2000)) > 0 {
				delta.Neg(delta)
				cls = "deflating"
			}
			spec := d.w.Spec(verifgen.Units(new(big.Int).Add(total, delta)), 2)
			raw := verifgen.BuildTx(c.Ins[0].Asset, c.Ins, []verifgen.OutSpec{spec}, []byte(cls), nil)
			bad := &verifSDTx{Kind: "transfer", Tx: verifgen.SignMap(raw, c.Ins, verifgen.FirstN(c.Ins)), Specs: []verifgen.OutSpec{spec}}
			if err := sim.Admit(bad.Tx, ts); err != nil {
				r.Count("rejected_"+cls+"_transfer", 1)
			} else {
				r.Count("ACCEPTED_"+cls+"_transfer_(C01_territory)", 1)
				flush()
				batch = []*verifSDTx{bad}
				flush()
				continue
			}
		}
		// hostile candidate: a later input is an output of another asset, the outputs carry the sum
		if c.Kind == "transfer" && len(c.Ins) > 0 && rng.Intn(8) == 0 {
			var other *verifgen.Out
			for _, o := range d.w.Outs {
				if o.Asset != c.Ins[0].Asset {
					other = o
					break
				}
			}
			if other != nil {
				ins := append(append([]*verifgen.Out{}, c.Ins...), other)
				total := new(big.Int)
				for _, o := range ins {
					total.Add(total, verifgen.UnitsOf(o.Amount))
				}
				spec := d.w.Spec(verifgen.Units(total), 2)
				raw := verifgen.BuildTx(c.Ins[0].Asset, ins, []verifgen.OutSpec{spec}, []byte("mixed-assets"), nil)
				bad := &verifSDTx{Kind: "transfer", Tx: verifgen.SignMap(raw, ins, verifgen.FirstN(ins)), Specs: []verifgen.OutSpec{spec}}
				admit := sim.Admit
				if rng.Intn(2) == 0 {
					admit = sim.AdmitFinal
				}
				if err := admit(bad.Tx, ts); err != nil {
					r.Count("rejected_mixed-asset_transfer", 1)
				} else {
					r.Count("ACCEPTED_mixed-asset_transfer_(C01_territory)", 1)
					d.w.Remove([]*verifgen.Out{other})
					flush()
					batch = []*verifSDTx{bad}
					flush()
					continue
				}
			}
		}
		// hostile candidate on the finalization path: one output listed twice and its amount claimed twice
		if c.Kind == "transfer" && len(c.Ins) > 0 && rng.Intn(8) == 0 {
			dup := c.Ins[rng.Intn(len(c.Ins))]
			ins := append(append([]*verifgen.Out{}, c.Ins...), dup)
			total := new(big.Int)
			for _, o := range ins {
				total.Add(total, verifgen.UnitsOf(o.Amount))
			}
			spec := d.w.Spec(verifgen.Units(total), 2)
			raw := verifgen.BuildTx(c.Ins[0].Asset, ins, []verifgen.OutSpec{spec}, []byte("double-input"), nil)
			bad := &verifSDTx{Kind: "transfer", Tx: verifgen.SignMap(raw, ins, verifgen.FirstN(ins)), Specs: []verifgen.OutSpec{spec}}
			admit := sim.Admit
			if rng.Intn(2) == 0 {
				admit = sim.AdmitFinal
			}
			if err := admit(bad.Tx, ts); err != nil {
				r.Count("rejected_double-input_transfer", 1)
			} else {
				r.Count("ACCEPTED_double-input_transfer_(C01_territory)", 1)
				flush()
				batch = []*verifSDTx{bad}
				flush()
				continue
			}
		}
		var verr error
		if c.Kind == "transfer" && rng.Intn(7) == 0 {
			verr = sim.AdmitFinal(c.Tx, ts)
		} else {
			verr = sim.Admit(c.Tx, ts)
		}
		if verr != nil {
			r.Count("rejected_"+c.Kind, 1)
			continue
		}
		if verifSDLone(c.Kind) {
			flush()
			batch = []*verifSDTx{c}
			flush()
			continue
		}
		batch = append(batch, c)
		if len(batch) >= 1+rng.Intn(4) {
			flush()
		}
	}
	flush()
	// deposits that fit the capacity one by one but not together, admitted while neither is finalized, then finalized
	// one after the other: however the store deals with the later ones (it refuses them), the recorded total stays
	// within the capacity
	for _, a := range verifgen.Assets()[1:3] {
		_, bal, _ := sim.Store.ReadAssetWithBalance(a.Id)
		rem := new(big.Int).Sub(verifgen.UnitsOf(common.GetAssetCapacity(a.Id)), verifgen.UnitsOf(bal))
		if rem.Cmp(big.NewInt(1000)) < 0 {
			r.Count("capacity_already_exhausted_before_the_pending-deposits_scenario", 1)
			continue
		}
		part := new(big.Int).Div(new(big.Int).Mul(rem, big.NewInt(int64(51+rng.Intn(40)))), big.NewInt(100))
		var pending []*verifSDTx
		for k := 0; k < 2+rng.Intn(2); k++ {
			tx, specs := d.w.Deposit(a, part)
			if err := sim.Admit(tx, sim.NextTime(uint64(1+rng.Intn(1e9)))); err != nil {
				r.Count("pending-deposits_scenario_admission_refused", 1)
				continue
			}
			pending = append(pending, &verifSDTx{Kind: "deposit", Tx: tx, Specs: specs})
		}
		r.Count("pending-deposits_scenario_deposits_admitted_together", len(pending))
		for _, p := range pending {
			batch = []*verifSDTx{p}
			before := snapshots
			flush()
			if snapshots == before {
				r.Count("pending-deposits_scenario_finalization_refused", 1)
			} else {
				r.Count("pending-deposits_scenario_finalized", 1)
			}
			vC17Check(r, sim, "pending-deposits-over-capacity-together")
		}
	}
	vC17Check(r, sim, "end")
	r.Note("snapshots_finalized", snapshots)
	if snapshots < 50 {
		r.Inconclusive(fmt.Sprintf("only %d snapshots", snapshots))
	}
	r.Sample(map[string]any{"assets_tracked": len(sim.Ref.Supply), "outputs_in_reference": len(sim.Ref.Outs), "snapshots": snapshots})
	r.Finish()
}
