package storage_test

import (
	"crypto/sha256"
	"fmt"
	"sort"
	"testing"

	"github.com/MixinNetwork/mixin/common"
	"github.com/MixinNetwork/mixin/verifkit"
	"github.com/MixinNetwork/mixin/verifledger"
)

// vC11View is a digest of what the store reports as the membership at a timestamp.
func vC11View(sim *verifledger.Sim, ts uint64, withState bool) (string, int) {
	nodes := sim.Store.ReadAllNodes(ts, withState)
	// the store orders by timestamp only (the kernel orders entries of one timestamp by id itself): the view is
	// the multiset of entries
	lines := make([]string, len(nodes))
	for i, n := range nodes {
		lines[i] = fmt.Sprintf("%020d|%s|%s|%s|%s;", n.Timestamp, n.Signer.PublicSpendKey, n.Payee.PublicSpendKey, n.State, n.Transaction)
	}
	sort.Strings(lines)
	h := sha256.New()
	for _, l := range lines {
		h.Write([]byte(l))
	}
	return fmt.Sprintf("%x", h.Sum(nil)[:12]), len(nodes)
}

// TestVerif_C11 (storage part): the membership the store reports for a timestamp does not change when later
// records are appended.
func TestVerif_C11(t *testing.T) {
	r := verifkit.Start(t, "C11", "exploration")
	r.SetRule("storage part: a ledger history with node pledges, acceptances, cancellations and removals (between ordinary transactions) is finalized on a real BadgerStore; " +
		"after every membership record the store's views ReadAllNodes(t, with and without state history) are taken at t-1, t, t+1 of the record and at random earlier instants, and " +
		"after every later membership record all earlier views are asked again: the answer for an instant before the new record must be what it was. " +
		"non-trivial = distinct (instant, view kind) probes that were re-asked after at least one later record")
	rng := r.Rand()
	sim, err := verifledger.NewSim(fmt.Sprintf("c11s-%d", r.Seed), 7+rng.Intn(4), 1700000000, t.TempDir())
	if err != nil {
		t.Fatal(err)
	}
	defer sim.Close()
	d := newVerifSDriver(sim, rng)
	type probe struct {
		ts      uint64
		state   bool
		digest  string
		count   int
		taken   int // number of membership records when first asked
		reasked bool
	}
	var probes []*probe
	records := 0
	addProbes := func(ts uint64) {
		cands := []uint64{ts - 1, ts, ts + 1}
		if ts > sim.Net.Epoch+10 {
			cands = append(cands, sim.Net.Epoch+1+uint64(rng.Int63n(int64(ts-sim.Net.Epoch-1))))
		}
		for _, c := range cands {
			for _, st := range []bool{true, false} {
				dg, n := vC11View(sim, c, st)
				probes = append(probes, &probe{ts: c, state: st, digest: dg, count: n, taken: records})
			}
		}
	}
	recheck := func(newTs uint64, kind string) {
		for _, p := range probes {
			if p.ts >= newTs {
				continue // the new record is not later than this instant
			}
			dg, n := vC11View(sim, p.ts, p.state)
			r.Eval()
			if !p.reasked {
				p.reasked = true
				r.Nontrivial(fmt.Sprintf("%d|%v", p.ts, p.state))
			}
			if dg != p.digest {
				r.Violation(fmt.Sprintf("C11|storage|later-record-changes-the-view|with-state=%v", p.state),
					fmt.Sprintf("ReadAllNodes(%d, %v) reported %d entries when %d membership records existed and reports %d entries (different content) after a %s stamped %d was appended",
						p.ts, p.state, p.count, p.taken, n, kind, newTs),
					map[string]any{"instant": p.ts, "with_state_history": p.state, "new_record_time": newTs, "new_record_kind": kind})
				p.digest, p.count = dg, n
			}
		}
	}
	addProbes(sim.Net.Epoch + 1)
	steps := r.N(700, 12000)
	for i := 0; i < steps; i++ {
		c := d.next()
		if c == nil {
			continue
		}
		ts := sim.NextTime(uint64(3 + rng.Intn(2e9)))
		if err := sim.Admit(c.Tx, ts); err != nil {
			r.Count("rejected_"+c.Kind, 1)
			continue
		}
		if _, _, err := sim.Finalize([]*common.VersionedTransaction{c.Tx}, ts); err != nil {
			r.Count("finalize_failures", 1)
			continue
		}
		d.applied(c)
		r.Count("finalized_"+c.Kind, 1)
		switch c.Kind {
		case "node-pledge", "node-accept", "node-cancel", "node-remove":
			records++
			recheck(ts, c.Kind)
			addProbes(ts)
		}
	}
	r.Note("membership_records_appended", records)
	r.Note("probes", len(probes))
	if records < 6 {
		r.Inconclusive(fmt.Sprintf("only %d membership records were appended", records))
	}
	r.Sample(map[string]any{"membership_records": records, "probes": len(probes)})
	r.Finish()
}
