package crypto_test

// C14: aggregate transaction signatures are sound and bound to their signer set.
//
// Runtime monitor: crypto.AggregateSign over random key vectors (1..300), random sorted
// signer subsets, seeds and messages must verify with crypto.AggregateVerify for exactly
// that (vector, signer set, message); then one change at a time (message, a signer's key,
// signer set grown / shrunk / shifted / unsorted / duplicated / out of range, signature
// bits, vector shorter than the set), signatures made by a subset of the private keys and
// rogue-key cancellation forgeries (manufactured with filippo.io/edwards25519) must all
// be refused.

import (
	"crypto/ed25519"
	"crypto/sha512"
	"encoding/binary"
	"encoding/hex"
	"fmt"
	"math/rand"
	"sort"
	"testing"

	"filippo.io/edwards25519"
	"github.com/MixinNetwork/mixin/crypto"
	"github.com/MixinNetwork/mixin/verifkit"
)

type vC14Ident struct {
	sk  *edwards25519.Scalar
	key crypto.Key
	pub crypto.Key
	pt  *edwards25519.Point
}

func vC14Scalar(seed []byte) *edwards25519.Scalar {
	s, err := edwards25519.NewScalar().SetUniformBytes(seed)
	if err != nil {
		panic(err)
	}
	return s
}

func vC14NewIdent(rng *rand.Rand) *vC14Ident {
	var seed [64]byte
	rng.Read(seed[:])
	s := vC14Scalar(seed[:])
	p := edwards25519.NewIdentityPoint().ScalarBaseMult(s)
	id := &vC14Ident{sk: s, pt: p}
	copy(id.key[:], s.Bytes())
	copy(id.pub[:], p.Bytes())
	return id
}

func vC14Publics(vec []*vC14Ident) []*crypto.Key {
	out := make([]*crypto.Key, len(vec))
	for i, id := range vec {
		k := id.pub
		out[i] = &k
	}
	return out
}

func vC14Privs(vec []*vC14Ident, signers []int) []*crypto.Key {
	out := make([]*crypto.Key, len(signers))
	for i, s := range signers {
		k := vec[s].key
		out[i] = &k
	}
	return out
}

// vC14RefKey is an independent computation of the weighted aggregate key the scheme documents:
// transcript = be32(|signers|) || (be32(i) || key_i)*, coefficient_i = H512(domain || transcript || be32(i) || key_i)
// reduced wide, key = sum coefficient_i * P_i. Coefficients that depend on each signer's own index and key are
// what makes rogue-key cancellation impossible; a signature that verifies under the repository's own verifier
// but not under this key was made for a differently weighted key.
func vC14RefKey(publics []*crypto.Key, signers []int) ([]byte, bool) {
	transcript := binary.BigEndian.AppendUint32(nil, uint32(len(signers)))
	for _, i := range signers {
		transcript = binary.BigEndian.AppendUint32(transcript, uint32(i))
		transcript = append(transcript, publics[i][:]...)
	}
	sum := edwards25519.NewIdentityPoint()
	for _, i := range signers {
		h := sha512.New()
		h.Write([]byte("mixin-aggregate-coefficient-v1"))
		h.Write(transcript)
		h.Write(binary.BigEndian.AppendUint32(nil, uint32(i)))
		h.Write(publics[i][:])
		c, err := edwards25519.NewScalar().SetUniformBytes(h.Sum(nil))
		if err != nil {
			return nil, false
		}
		p, err := edwards25519.NewIdentityPoint().SetBytes(publics[i][:])
		if err != nil {
			return nil, false
		}
		sum.Add(sum, edwards25519.NewIdentityPoint().ScalarMult(c, p))
	}
	return sum.Bytes(), true
}

func vC14Ints(a []int) []int { return append([]int{}, a...) }

// vC14Schnorr is a plain Ed25519-style Schnorr signature (R, t + H(R||A||m) x) by the
// secret x, with the challenge taken over the key bytes akey the forger bets on.
func vC14Schnorr(rng *rand.Rand, x *edwards25519.Scalar, akey []byte, msg crypto.Hash) crypto.Signature {
	var seed [64]byte
	rng.Read(seed[:])
	t := vC14Scalar(seed[:])
	R := edwards25519.NewIdentityPoint().ScalarBaseMult(t)
	h := sha512.New()
	h.Write(R.Bytes())
	h.Write(akey)
	h.Write(msg[:])
	c := vC14Scalar(h.Sum(nil))
	s := edwards25519.NewScalar().MultiplyAdd(c, x, t)
	var sig crypto.Signature
	copy(sig[:32], R.Bytes())
	copy(sig[32:], s.Bytes())
	return sig
}

func TestVerif_C14(t *testing.T) {
	r := verifkit.Start(t, "C14", "exploration")
	r.SetRule("each case: random key vector of 1..300 keys (sometimes one key at two positions), random sorted signer subset (1..all), random seed (32..96 bytes) and message; " +
		"AggregateSign then AggregateVerify for the same inputs, then single changes (message bit, a signer's key, two signers' keys exchanged, signer removed/added/shifted, " +
		"unsorted, duplicated, out-of-range and negative indexes, vector shorter than the set, signature bits), a signature by a proper subset presented for the full set, " +
		"and rogue-key cancellation forgeries; non-trivial = a case whose honest signature verified and at least one change was evaluated; distinct = distinct (vector size, signer set, message)")
	r.Assume("filippo.io/edwards25519 and crypto/sha512 are used to manufacture forgeries; a changed input verifies only with negligible probability unless the scheme is broken")
	r.Assume("changing a key at a non-signer position is recorded but not judged: only signer positions enter the transcript, and the statement binds the signature to its signer set")
	rng := r.Rand()
	cases := r.N(1500, 40000)
	r.SetFloor(cases / 2)

	const poolSize = 400
	pool := make([]*vC14Ident, poolSize)
	for i := range pool {
		pool[i] = vC14NewIdent(rng)
	}
	sizeHist := map[string]int{}
	setHist := map[string]int{}

	for cs := 0; cs < cases; cs++ {
		r.Eval()
		var n int
		switch rng.Intn(12) {
		case 0:
			n = 1
		case 1:
			n = 300
		case 2, 3, 4:
			n = 2 + rng.Intn(7)
		case 5, 6, 7:
			n = 9 + rng.Intn(56)
		default:
			n = 1 + rng.Intn(300)
		}
		perm := rng.Perm(poolSize)
		vec := make([]*vC14Ident, n)
		for i := range vec {
			vec[i] = pool[perm[i]]
		}
		outside := func() *vC14Ident { return pool[perm[n+rng.Intn(poolSize-n)]] }
		var k int
		switch rng.Intn(20) {
		case 0, 1, 2:
			k = 1
		case 3:
			k = n
			if k > 64 && rng.Intn(3) != 0 {
				k = 1 + rng.Intn(64)
			}
		case 4:
			k = 1 + rng.Intn(n)
		default:
			k = 1 + rng.Intn(12)
		}
		if k > n {
			k = n
		}
		signers := vC14Ints(rng.Perm(n)[:k])
		sort.Ints(signers)
		seed := make([]byte, 32+rng.Intn(65))
		rng.Read(seed)
		var msg crypto.Hash
		rng.Read(msg[:])
		inSet := map[int]bool{}
		for _, s := range signers {
			inSet[s] = true
		}
		// sometimes one key sits at two positions; when possible one inside and one outside the signer set
		dupKey, twinIn, twinOut := false, -1, -1
		if n >= 2 && rng.Intn(6) == 0 {
			a, b := signers[rng.Intn(k)], rng.Intn(n)
			if a != b {
				vec[b] = vec[a]
				dupKey = true
				if !inSet[b] {
					twinIn, twinOut = a, b
				}
			}
		}
		publics := vC14Publics(vec)
		sizeClass := "k=1"
		switch {
		case k == n && k > 1:
			sizeClass = "k=n"
		case k > 1:
			sizeClass = "1<k<n"
		}

		desc := func(extra map[string]any) map[string]any {
			keys := make([]string, n)
			for i := range vec {
				keys[i] = hex.EncodeToString(vec[i].pub[:])
			}
			w := map[string]any{"case": cs, "vector_size": n, "signers": signers, "message": hex.EncodeToString(msg[:]),
				"seed": hex.EncodeToString(seed), "public_keys": keys, "duplicate_key_in_vector": dupKey}
			for a, b := range extra {
				w[a] = b
			}
			return w
		}

		// ---- honest ----
		var sig *crypto.Signature
		var err error
		panicked, val, stack := verifkit.Guard(func() { sig, err = crypto.AggregateSign(vC14Privs(vec, signers), publics, signers, seed, msg) })
		if panicked {
			r.Violation("C14|AggregateSign|panic|honest|"+sizeClass, fmt.Sprintf("AggregateSign panicked at %s on valid inputs: %v", verifkit.PanicSite(stack), val), desc(nil))
			continue
		}
		if err != nil || sig == nil {
			r.Violation("C14|AggregateSign|honest-inputs-rejected|"+sizeClass, fmt.Sprintf("AggregateSign refused a sorted in-range signer set with matching private keys: %v", err), desc(nil))
			continue
		}
		good := *sig
		if err := crypto.AggregateVerify(&good, publics, signers, msg); err != nil {
			r.Violation("C14|AggregateVerify|honest-signature-rejected|"+sizeClass, "the signature does not verify for the vector, signer set and message it was made for: "+err.Error(),
				desc(map[string]any{"signature": hex.EncodeToString(good[:])}))
			continue
		}
		if refKey, ok := vC14RefKey(publics, signers); ok {
			if !ed25519.Verify(ed25519.PublicKey(refKey), msg[:], good[:]) {
				r.Violation("C14|AggregateSign|signature-not-valid-under-reference-weighted-key|"+sizeClass,
					"a signature accepted by AggregateVerify does not verify (crypto/ed25519) under the independently computed key weighted by per-signer transcript coefficients: the aggregate key is not bound to each signer's own index and key",
					desc(map[string]any{"signature": hex.EncodeToString(good[:])}))
			} else {
				r.Count("honest_signatures_valid_under_reference_key", 1)
			}
		}
		r.Count("honest_signatures_verified", 1)
		// the same signers sign a second message with the same auxiliary seed: if the commitment repeats, the two
		// public signatures give away the weighted aggregate secret and a third message can be signed without any
		// private key (s1-s2 = (c1-c2)*Y)
		if k <= 16 || rng.Intn(6) == 0 {
			var msg2, msg3 crypto.Hash
			rng.Read(msg2[:])
			rng.Read(msg3[:])
			sig2, err2 := crypto.AggregateSign(vC14Privs(vec, signers), publics, signers, seed, msg2)
			refKey, okKey := vC14RefKey(publics, signers)
			if err2 == nil && sig2 != nil && okKey {
				r.Count("second_message_same_seed_signed", 1)
				if string(sig2[:32]) == string(good[:32]) {
					ch := func(m crypto.Hash) *edwards25519.Scalar {
						h := sha512.New()
						h.Write(good[:32])
						h.Write(refKey)
						h.Write(m[:])
						return vC14Scalar(h.Sum(nil))
					}
					s1, e1 := edwards25519.NewScalar().SetCanonicalBytes(good[32:])
					s2, e2 := edwards25519.NewScalar().SetCanonicalBytes(sig2[32:])
					forged := false
					var fsig crypto.Signature
					if e1 == nil && e2 == nil {
						dc := edwards25519.NewScalar().Subtract(ch(msg), ch(msg2))
						ds := edwards25519.NewScalar().Subtract(s1, s2)
						y := edwards25519.NewScalar().Multiply(ds, edwards25519.NewScalar().Invert(dc))
						fsig = vC14Schnorr(rng, y, refKey, msg3)
						forged = crypto.AggregateVerify(&fsig, publics, signers, msg3) == nil
					}
					what := "two signatures by the same signer set over different messages (same seed) carry the same commitment"
					if forged {
						what += "; from these two public signatures a signature over a third message was computed without any private key and AggregateVerify accepts it"
					}
					r.Violation("C14|AggregateSign|commitment-repeats-across-messages|"+sizeClass, what,
						desc(map[string]any{"signature_1": hex.EncodeToString(good[:]), "message_2": hex.EncodeToString(msg2[:]), "signature_2": hex.EncodeToString(sig2[:]),
							"message_3": hex.EncodeToString(msg3[:]), "forged_signature_3": hex.EncodeToString(fsig[:]), "forgery_accepted": forged}))
				}
			}
		}
		sizeHist[fmt.Sprintf("n%03d-%03d", (n-1)/50*50+1, (n-1)/50*50+50)]++
		switch {
		case k == 1:
			setHist["k=1"]++
		case k <= 12:
			setHist["k=2..12"]++
		case k <= 64:
			setHist["k=13..64"]++
		default:
			setHist["k=65..300"]++
		}

		// big signer sets: the expensive changes are sampled, the cheap ones always run
		heavy := func() bool { return k <= 48 || rng.Intn(4) == 0 }
		changes := 0
		mustFail := func(kind string, s crypto.Signature, pubs []*crypto.Key, set []int, m crypto.Hash, detail string, extra map[string]any) {
			changes++
			var err error
			sg := s
			panicked, val, stack := verifkit.Guard(func() { err = crypto.AggregateVerify(&sg, pubs, set, m) })
			w := map[string]any{"change": kind, "detail": detail, "presented_signers": set, "presented_signature": hex.EncodeToString(s[:]),
				"presented_message": hex.EncodeToString(m[:]), "honest_signature": hex.EncodeToString(good[:])}
			for a, b := range extra {
				w[a] = b
			}
			if panicked {
				r.Violation("C14|AggregateVerify|panic|"+kind, fmt.Sprintf("AggregateVerify panicked at %s with %s: %v", verifkit.PanicSite(stack), detail, val), desc(w))
				return
			}
			if err == nil {
				r.Violation("C14|AggregateVerify|accepted|"+kind, "AggregateVerify accepted "+detail, desc(w))
				return
			}
			r.Count("rejected:"+kind, 1)
		}

		// a malformed signer set (unsorted, duplicated) signed by its own private keys in that very order: whatever
		// AggregateSign makes of it, verification for a malformed set must fail
		selfSigned := func(kind string, set []int, detail string) {
			var own *crypto.Signature
			var err error
			if panicked, _, _ := verifkit.Guard(func() { own, err = crypto.AggregateSign(vC14Privs(vec, set), publics, set, seed, msg) }); panicked || err != nil || own == nil {
				r.Count("malformed_set_refused_by_AggregateSign:"+kind, 1)
				return
			}
			r.Count("malformed_set_signed_by_AggregateSign:"+kind, 1)
			mustFail(kind+"-signed-in-that-order", *own, publics, set, msg, detail+", signed by AggregateSign for exactly that set", nil)
		}

		// message
		if heavy() {
			m2 := msg
			m2[rng.Intn(32)] ^= 1 << uint(rng.Intn(8))
			mustFail("message-bit-flipped", good, publics, signers, m2, "the signature for a message with one bit flipped", nil)
		}
		// signature bits
		if heavy() {
			s2 := good
			bit := rng.Intn(512)
			s2[bit/8] ^= 1 << uint(bit%8)
			kind := "signature-R-bit-flipped"
			if bit >= 256 {
				kind = "signature-S-bit-flipped"
			}
			mustFail(kind, s2, publics, signers, msg, fmt.Sprintf("the signature with bit %d flipped", bit), nil)
		}
		// a signer's key replaced
		if heavy() {
			x := signers[rng.Intn(k)]
			p2 := append([]*crypto.Key{}, publics...)
			nk := outside().pub
			p2[x] = &nk
			mustFail("signer-key-replaced", good, p2, signers, msg, fmt.Sprintf("the signature after the key of signer %d was replaced in the vector", x),
				map[string]any{"position": x, "new_key": hex.EncodeToString(nk[:])})
		}
		// two signers' keys exchanged in the vector
		if k >= 2 && heavy() {
			a, b := signers[rng.Intn(k)], signers[rng.Intn(k)]
			if a != b && vec[a].pub != vec[b].pub {
				p2 := append([]*crypto.Key{}, publics...)
				p2[a], p2[b] = p2[b], p2[a]
				mustFail("signer-keys-exchanged", good, p2, signers, msg, fmt.Sprintf("the signature after the keys of signers %d and %d were exchanged in the vector", a, b), nil)
			}
		}
		// a non-signer's key replaced: observation only
		if k < n && heavy() {
			j := rng.Intn(n)
			for inSet[j] {
				j = rng.Intn(n)
			}
			p2 := append([]*crypto.Key{}, publics...)
			nk := outside().pub
			p2[j] = &nk
			if err := crypto.AggregateVerify(&good, p2, signers, msg); err == nil {
				r.Count("observed:non-signer-key-replaced-still-verifies", 1)
			} else {
				r.Count("observed:non-signer-key-replaced-rejected", 1)
			}
		}
		// signer removed
		if k >= 2 && heavy() {
			x := rng.Intn(k)
			set := append(vC14Ints(signers[:x]), signers[x+1:]...)
			mustFail("signer-removed", good, publics, set, msg, fmt.Sprintf("the signature for the signer set without signer %d", signers[x]), nil)
		}
		// signer added / shifted
		if k < n {
			j := rng.Intn(n)
			for inSet[j] {
				j = rng.Intn(n)
			}
			if heavy() {
				set := append(vC14Ints(signers), j)
				sort.Ints(set)
				mustFail("signer-added", good, publics, set, msg, fmt.Sprintf("the signature for the signer set grown by index %d", j), nil)
			}
			if heavy() {
				set := vC14Ints(signers)
				x := rng.Intn(k)
				old := set[x]
				set[x] = j
				sort.Ints(set)
				mustFail("signer-shifted", good, publics, set, msg, fmt.Sprintf("the signature for the signer set with index %d exchanged for %d", old, j), nil)
			}
		}
		// signer moved to another position that holds the very same key: the set changed, the keys did not
		if twinIn >= 0 {
			set := vC14Ints(signers)
			for i := range set {
				if set[i] == twinIn {
					set[i] = twinOut
				}
			}
			sort.Ints(set)
			mustFail("signer-shifted-to-identical-key", good, publics, set, msg,
				fmt.Sprintf("the signature for the signer set with index %d exchanged for index %d, which holds the same key", twinIn, twinOut), nil)
		}
		// unsorted
		if k >= 2 {
			set := vC14Ints(signers)
			a, b := rng.Intn(k), rng.Intn(k)
			for a == b {
				b = rng.Intn(k)
			}
			set[a], set[b] = set[b], set[a]
			mustFail("signers-unsorted", good, publics, set, msg, "the signature for the same signers in unsorted order", nil)
			selfSigned("signers-unsorted", set, "the signers in unsorted order")
			// unsorted AND out of range: an index beyond the key vector that is not the last entry (and as first entry)
			for _, at := range []int{0, rng.Intn(k - 1)} {
				bad := vC14Ints(signers)
				bad[at] = n + rng.Intn(3)
				mustFail("signers-unsorted-and-out-of-range", good, publics, bad, msg, fmt.Sprintf("the signer set with entry %d replaced by an index beyond the %d keys (the last entry stays in range)", at, n), nil)
			}
			if rng.Intn(3) == 0 {
				rev := make([]int, k)
				for i := range signers {
					rev[k-1-i] = signers[i]
				}
				mustFail("signers-reversed", good, publics, rev, msg, "the signature for the same signers in descending order", nil)
				selfSigned("signers-reversed", rev, "the signers in descending order")
			}
		}
		// duplicated
		{
			x := rng.Intn(k)
			set := append(vC14Ints(signers[:x+1]), signers[x:]...) // adjacent duplicate keeps the order non-decreasing
			mustFail("signer-duplicated-adjacent", good, publics, set, msg, fmt.Sprintf("the signature for the signer set with index %d listed twice", signers[x]), nil)
			selfSigned("signer-duplicated-adjacent", set, fmt.Sprintf("the signer set with index %d listed twice", signers[x]))
			set2 := append(vC14Ints(signers), signers[rng.Intn(k)])
			mustFail("signer-duplicated-appended", good, publics, set2, msg, "the signature for the signer set with one index appended again", nil)
			selfSigned("signer-duplicated-appended", set2, "the signer set with one index appended again")
		}
		// out of range
		{
			big := []int{n, n + 1 + rng.Intn(300), 0xFFFF, 0x10000, 1 << 31}[rng.Intn(5)]
			mustFail("signer-index-beyond-vector-appended", good, publics, append(vC14Ints(signers), big), msg, fmt.Sprintf("the signature for the signer set plus index %d with %d keys", big, n), nil)
			set := vC14Ints(signers)
			set[k-1] = n + rng.Intn(5)
			mustFail("signer-index-beyond-vector-replacing", good, publics, set, msg, fmt.Sprintf("the signature with the last signer replaced by index %d with %d keys", set[k-1], n), nil)
			neg := append([]int{-1 - rng.Intn(3)}, signers...)
			mustFail("signer-index-negative", good, publics, neg, msg, "the signature for the signer set plus a negative index", nil)
			top := signers[k-1]
			mustFail("vector-shorter-than-signer-set", good, publics[:top], signers, msg, fmt.Sprintf("the signature against a vector cut to %d keys, below signer %d", top, top), nil)
			mustFail("empty-signer-set", good, publics, []int{}, msg, "the signature for an empty signer set", nil)
		}
		// a signature made by a proper subset of the private keys, presented for the full set
		if k >= 2 && heavy() {
			sub := []int{}
			for _, s := range signers {
				if rng.Intn(2) == 0 {
					sub = append(sub, s)
				}
			}
			if len(sub) == 0 {
				sub = []int{signers[rng.Intn(k)]}
			}
			if len(sub) == k {
				sub = sub[:k-1]
			}
			ssig, err := crypto.AggregateSign(vC14Privs(vec, sub), publics, sub, seed, msg)
			if err != nil {
				r.Violation("C14|AggregateSign|honest-inputs-rejected|subset", "AggregateSign refused a sorted subset: "+err.Error(), desc(map[string]any{"subset": sub}))
			} else {
				if err := crypto.AggregateVerify(ssig, publics, sub, msg); err != nil {
					r.Violation("C14|AggregateVerify|honest-signature-rejected|subset", "subset signature does not verify for its own subset: "+err.Error(), desc(map[string]any{"subset": sub}))
				}
				mustFail("subset-signature-for-larger-set", *ssig, publics, signers, msg,
					fmt.Sprintf("a signature made with %d of the %d private keys for the full signer set", len(sub), k), map[string]any{"subset": sub})
			}
		}
		// rogue key: the attacker owns position j and publishes X - sum(other signers' keys)
		if k >= 2 && heavy() {
			jx := rng.Intn(k)
			j := signers[jx]
			var xs [64]byte
			rng.Read(xs[:])
			x := vC14Scalar(xs[:])
			X := edwards25519.NewIdentityPoint().ScalarBaseMult(x)
			rogue := edwards25519.NewIdentityPoint().Set(X)
			for _, s := range signers {
				if s != j {
					rogue.Subtract(rogue, vec[s].pt)
				}
			}
			var rk crypto.Key
			copy(rk[:], rogue.Bytes())
			p2 := append([]*crypto.Key{}, publics...)
			p2[j] = &rk
			extra := map[string]any{"attacker_position": j, "rogue_key": hex.EncodeToString(rk[:]), "plain_sum_key": hex.EncodeToString(X.Bytes())}
			// forgery betting on a plain key sum (the sum of the signer keys now equals X)
			f1 := vC14Schnorr(rng, x, X.Bytes(), msg)
			mustFail("rogue-key-cancellation", f1, p2, signers, msg, "a forgery by one key holder whose published key cancels the other signers' keys", extra)
			// the same forged signature with the rogue key at a position that is not the attacker's own signer slot
			if k < n {
				o := rng.Intn(n)
				for inSet[o] {
					o = rng.Intn(n)
				}
				p3 := append([]*crypto.Key{}, publics...)
				p3[o] = &rk
				set := vC14Ints(signers)
				set[jx] = o
				sort.Ints(set)
				// the rogue key now cancels a different set than the one listed
				mustFail("rogue-key-cancellation-other-index", f1, p3, set, msg, "a cancellation forgery with the rogue key listed under another index", extra)
			}
			// forgery where the attacker signs alone with x but lists everybody
			var xk crypto.Key
			copy(xk[:], X.Bytes())
			p4 := append([]*crypto.Key{}, publics...)
			p4[j] = &xk
			f2 := vC14Schnorr(rng, x, X.Bytes(), msg)
			mustFail("single-key-signature-for-full-set", f2, p4, signers, msg, "a plain single-key signature by one listed key presented for the whole signer set", extra)
		}

		r.Count("changes_evaluated", changes)
		if changes > 0 {
			r.Nontrivial(fmt.Sprintf("%d|%v|%x", n, signers, msg[:6]))
		}
		if r.SampleCount() < 3 && n <= 8 {
			r.Sample(map[string]any{"vector_size": n, "signers": signers, "message": hex.EncodeToString(msg[:]), "seed_bytes": len(seed),
				"signature": hex.EncodeToString(good[:]), "changes_evaluated": changes})
		}
	}

	r.Note("verified_by_vector_size", sizeHist)
	r.Note("verified_by_signer_set_size", setHist)
	if r.Counter("honest_signatures_verified") == 0 && r.Violations() == 0 {
		r.Inconclusive("no honest signature verified")
	}
	r.Finish()
}
