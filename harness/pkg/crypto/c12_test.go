package crypto_test

// C12: a CoSi nonce handle never answers two different challenges.
//
// Runtime monitor: many short randomized trials, each with one fresh nonce handle
// (crypto.CosiCommitNonce), 1..16 goroutines released by a barrier, and a small set of
// challenges (identical ones reached through different encodings, and different ones).
// All results of crypto.(*CosiNonce).Response are recorded at the API boundary and
// judged by an oracle that classifies the requests with an independent computation of
// the challenge scalar (filippo.io/edwards25519 + crypto/sha512).  Built with -race.

import (
	"crypto/sha512"
	"encoding/hex"
	"errors"
	"fmt"
	"math/rand"
	"runtime"
	"sort"
	"strings"
	"sync"
	"sync/atomic"
	"testing"
	"time"

	"filippo.io/edwards25519"
	"github.com/MixinNetwork/mixin/crypto"
	"github.com/MixinNetwork/mixin/verifkit"
)

// vC12Ident is a key pair (or a nonce/commitment pair) built only with the reference
// library: secret scalar, its canonical bytes, the public point and its encoding.
type vC12Ident struct {
	sk  *edwards25519.Scalar
	key crypto.Key
	pub crypto.Key
	pt  *edwards25519.Point
}

func vC12ScalarFromSeed(seed []byte) *edwards25519.Scalar {
	s, err := edwards25519.NewScalar().SetUniformBytes(seed)
	if err != nil {
		panic(err)
	}
	return s
}

func vC12NewIdent(rng *rand.Rand) *vC12Ident {
	var seed [64]byte
	rng.Read(seed[:])
	s := vC12ScalarFromSeed(seed[:])
	p := edwards25519.NewIdentityPoint().ScalarBaseMult(s)
	id := &vC12Ident{sk: s, pt: p}
	copy(id.key[:], s.Bytes())
	copy(id.pub[:], p.Bytes())
	return id
}

// vC12Reader hands a fixed 64-byte seed to crypto.CosiCommitNonce.
type vC12Reader struct{ seed [64]byte }

func (r *vC12Reader) Read(b []byte) (int, error) { return copy(b, r.seed[:]), nil }

// vC12Spec describes one challenge: key vector, mask, peer commitments and message.
type vC12Spec struct {
	vec     []*vC12Ident       // key vector
	mask    map[int]bool       // masked positions (always contains me)
	commits map[int]*vC12Ident // peer commitments for masked positions != me
	msg     crypto.Hash
	how     string // how it was derived from the base spec

	// derived by the reference
	ragg  *edwards25519.Point
	aagg  *edwards25519.Point
	cref  *edwards25519.Scalar
	class string // hex of the reference challenge scalar
	bits  uint64
}

func (s *vC12Spec) clone() *vC12Spec {
	c := &vC12Spec{msg: s.msg, mask: map[int]bool{}, commits: map[int]*vC12Ident{}}
	c.vec = append([]*vC12Ident{}, s.vec...)
	for k, v := range s.mask {
		c.mask[k] = v
	}
	for k, v := range s.commits {
		c.commits[k] = v
	}
	return c
}

func (s *vC12Spec) indexes() []int {
	out := make([]int, 0, len(s.mask))
	for i := range s.mask {
		out = append(out, i)
	}
	sort.Ints(out)
	return out
}

// derive computes the reference challenge  c = SHA-512(R_agg || A_agg || msg) mod l
// where R_agg / A_agg are the sums of the masked commitments / public keys.
func (s *vC12Spec) derive(me int, myCommit *edwards25519.Point) {
	R := edwards25519.NewIdentityPoint()
	A := edwards25519.NewIdentityPoint()
	s.bits = 0
	for _, i := range s.indexes() {
		s.bits |= uint64(1) << uint(i)
		A.Add(A, s.vec[i].pt)
		if i == me {
			R.Add(R, myCommit)
		} else {
			R.Add(R, s.commits[i].pt)
		}
	}
	h := sha512.New()
	h.Write(R.Bytes())
	h.Write(A.Bytes())
	h.Write(s.msg[:])
	s.ragg, s.aagg = R, A
	s.cref = vC12ScalarFromSeed(h.Sum(nil))
	s.class = hex.EncodeToString(s.cref.Bytes())
}

func (s *vC12Spec) publics(extra []*vC12Ident) []*crypto.Key {
	out := make([]*crypto.Key, 0, len(s.vec)+len(extra))
	for _, id := range s.vec {
		k := id.pub
		out = append(out, &k)
	}
	for _, id := range extra {
		k := id.pub
		out = append(out, &k)
	}
	return out
}

// vC12Req is one concrete way of presenting a challenge to Response.
type vC12Req struct {
	class   int
	how     string
	cosi    *crypto.CosiSignature
	publics []*crypto.Key
	msg     crypto.Hash
}

// vC12Pending is a violation held back until the end of the run so that the best witness is written.
type vC12Pending struct {
	recovered bool
	what      string
	witness   map[string]any
}

type vC12Call struct {
	req    int
	yields int
	copyH  bool
}

type vC12Res struct {
	G        int    `json:"goroutine"`
	Seq      int    `json:"seq"`
	Class    int    `json:"challenge_class"`
	How      string `json:"encoding"`
	Late     bool   `json:"after_join"`
	CopyH    bool   `json:"handle_copy"`
	T0       int64  `json:"call_tick"`
	T1       int64  `json:"return_tick"`
	Resp     string `json:"response,omitempty"`
	Err      string `json:"error,omitempty"`
	Panic    string `json:"panic,omitempty"`
	resp     *[32]byte
	err      error
	panicked bool
}

func vC12Do(h *crypto.CosiNonce, q *vC12Req, private *crypto.Key, tick *atomic.Int64, res *vC12Res) {
	res.T0 = tick.Add(1)
	panicked, val, _ := verifkit.Guard(func() {
		res.resp, res.err = h.Response(q.cosi, private, q.publics, q.msg)
	})
	res.T1 = tick.Add(1)
	if panicked {
		res.panicked = true
		res.Panic = fmt.Sprint(val)
	}
	if res.resp != nil {
		res.Resp = hex.EncodeToString(res.resp[:])
	}
	if res.err != nil {
		res.Err = res.err.Error()
	}
}

func vC12Canon(b []byte) *edwards25519.Scalar {
	s, err := edwards25519.NewScalar().SetCanonicalBytes(b)
	if err != nil {
		return nil
	}
	return s
}

// vC12Recover tries to derive the private key from two answered requests:
// a = (s1 - s2) / (c1 - c2).
func vC12Recover(s1, s2 []byte, c1, c2 *edwards25519.Scalar) *edwards25519.Scalar {
	a, b := vC12Canon(s1), vC12Canon(s2)
	if a == nil || b == nil {
		return nil
	}
	d := edwards25519.NewScalar().Subtract(c1, c2)
	if d.Equal(edwards25519.NewScalar()) == 1 {
		return nil
	}
	n := edwards25519.NewScalar().Subtract(a, b)
	return n.Multiply(n, d.Invert(d))
}

func TestVerif_C12(t *testing.T) {
	r := verifkit.Start(t, "C12", "exploration")
	r.SetRule("each trial: one fresh nonce handle from crypto.CosiCommitNonce, a random key vector (1..64 keys), 1..4 different challenges " +
		"(differing in one peer commitment, the message, the mask or one key) each presented through several encodings of the same challenge " +
		"(rebuilt aggregate, hand-filled Signature/Mask, dirty S half, key vector with extra unmasked keys), 1..16 goroutines behind a barrier " +
		"making 1..3 Response calls each on the shared handle or on a copy, random yields, then one sequential retry per challenge; " +
		"non-trivial = a trial with >= 2 different challenges in which at least one response was produced and at least one request was refused; " +
		"distinct = distinct (goroutines, per-goroutine challenge sequence, winner goroutine, winner challenge) shape")
	r.Assume("filippo.io/edwards25519 and crypto/sha512 are the reference for the challenge scalar c = H(R_agg||A_agg||m) and for key recovery")
	r.Assume("schedules are those the Go scheduler produces under -race with GOMAXPROCS goroutines in parallel and injected yields; not all interleavings are enumerated")
	r.Assume("kernel-level retention of used nonces (kernel/cosi.go cosiRetrieveRandom) is not exercised by this check")
	rng := r.Rand()
	trials := r.N(2000, 60000)
	r.SetFloor(trials / 8)
	r.Note("gomaxprocs", runtime.GOMAXPROCS(0))

	const poolSize = 96
	keys := make([]*vC12Ident, poolSize)
	peers := make([]*vC12Ident, poolSize)
	for i := range keys {
		keys[i] = vC12NewIdent(rng)
		peers[i] = vC12NewIdent(rng)
	}

	winnersByG := map[string]int{}
	winnersByClass := map[string]int{}
	gHist := map[string]int{}
	var staleModel, refMismatch int
	twoAnswered := map[string]vC12Pending{}

	for trial := 0; trial < trials; trial++ {
		r.Eval()
		// ---- inputs ----
		var n int
		switch rng.Intn(10) {
		case 0:
			n = 1
		case 1, 2, 3:
			n = 2 + rng.Intn(3)
		case 4, 5, 6:
			n = 5 + rng.Intn(12)
		default:
			n = 1 + rng.Intn(64)
		}
		perm := rng.Perm(poolSize)
		base := &vC12Spec{mask: map[int]bool{}, commits: map[int]*vC12Ident{}, how: "base"}
		for i := 0; i < n; i++ {
			base.vec = append(base.vec, keys[perm[i]])
		}
		me := rng.Intn(n)
		mine := base.vec[me]
		private := mine.key
		base.mask[me] = true
		for i := 0; i < n; i++ {
			if i != me && rng.Intn(3) != 0 {
				base.mask[i] = true
				base.commits[i] = peers[rng.Intn(poolSize)]
			}
		}
		rng.Read(base.msg[:])

		rd := &vC12Reader{}
		rng.Read(rd.seed[:])
		handle := crypto.CosiCommitNonce(rd)
		rRef := vC12ScalarFromSeed(rd.seed[:])
		myCommitKey := handle.Public()
		myCommit, err := edwards25519.NewIdentityPoint().SetBytes(myCommitKey[:])
		if err != nil {
			r.Inconclusive("nonce commitment does not decode with the reference library: " + err.Error())
			break
		}
		haveR := edwards25519.NewIdentityPoint().ScalarBaseMult(rRef).Equal(myCommit) == 1
		if !haveR {
			refMismatch++
		}
		base.derive(me, myCommit)

		// ---- different challenges ----
		specs := []*vC12Spec{base}
		want := 1 + rng.Intn(4)
		if rng.Intn(8) == 0 {
			want = 1
		}
		for tries := 0; len(specs) < want && tries < 40; tries++ {
			s := specs[rng.Intn(len(specs))].clone()
			others := []int{}
			for _, i := range s.indexes() {
				if i != me {
					others = append(others, i)
				}
			}
			switch op := rng.Intn(4); {
			case op == 0 && len(others) > 0: // the classic attack: same own commitment, another peer commitment
				i := others[rng.Intn(len(others))]
				s.commits[i] = peers[rng.Intn(poolSize)]
				s.how = "peer-commitment"
			case op == 1 && n > 1: // mask toggles a peer
				i := rng.Intn(n)
				if i == me {
					continue
				}
				if s.mask[i] {
					delete(s.mask, i)
					delete(s.commits, i)
				} else {
					s.mask[i] = true
					s.commits[i] = peers[rng.Intn(poolSize)]
				}
				s.how = "mask"
			case op == 2 && len(others) > 0: // one masked key of the vector replaced
				i := others[rng.Intn(len(others))]
				s.vec[i] = keys[perm[n+rng.Intn(poolSize-n)]]
				s.how = "key-vector"
			default:
				rng.Read(s.msg[:])
				s.how = "message"
			}
			s.derive(me, myCommit)
			dup := false
			for _, o := range specs {
				if o.class == s.class {
					dup = true
				}
			}
			if !dup {
				specs = append(specs, s)
			}
		}

		// ---- encodings of each challenge ----
		var reqs []*vC12Req
		reqsOf := make([][]int, len(specs))
		stale := false
		for ci, s := range specs {
			randoms := map[int]*crypto.Key{}
			for _, i := range s.indexes() {
				var k crypto.Key
				if i == me {
					k = myCommitKey
				} else {
					k = s.commits[i].pub
				}
				randoms[i] = &k
			}
			built, err := crypto.CosiAggregateCommitment(randoms)
			if err != nil {
				stale = true
				break
			}
			var rb [32]byte
			copy(rb[:], s.ragg.Bytes())
			if built.Mask != s.bits || [32]byte(built.Signature[:32]) != rb {
				stale = true
				break
			}
			add := func(q *vC12Req) {
				q.class = ci
				reqsOf[ci] = append(reqsOf[ci], len(reqs))
				reqs = append(reqs, q)
			}
			add(&vC12Req{how: "built", cosi: built, publics: s.publics(nil), msg: s.msg})
			nalias := rng.Intn(3)
			for a := 0; a < nalias; a++ {
				switch rng.Intn(4) {
				case 0:
					again, _ := crypto.CosiAggregateCommitment(randoms)
					add(&vC12Req{how: "rebuilt", cosi: again, publics: s.publics(nil), msg: s.msg})
				case 1:
					hand := &crypto.CosiSignature{Mask: s.bits}
					copy(hand.Signature[:32], rb[:])
					add(&vC12Req{how: "handmade", cosi: hand, publics: s.publics(nil), msg: s.msg})
				case 2:
					dirty := *built
					rng.Read(dirty.Signature[32:])
					add(&vC12Req{how: "dirty-S", cosi: &dirty, publics: s.publics(nil), msg: s.msg})
				default:
					extra := []*vC12Ident{}
					for e := 1 + rng.Intn(3); e > 0; e-- {
						extra = append(extra, keys[rng.Intn(poolSize)])
					}
					add(&vC12Req{how: "longer-vector", cosi: built, publics: s.publics(extra), msg: s.msg})
				}
			}
		}
		if stale {
			staleModel++
			continue
		}

		// requests of different challenge classes whose commitment and mask are equal (they differ in message or key
		// vector) sometimes come through the very same signature object, as a caller that reuses its value would do
		shared := 0
		for i := range reqs {
			for j := 0; j < i; j++ {
				a, b := reqs[i].cosi, reqs[j].cosi
				if a != b && reqs[i].class != reqs[j].class && a.Mask == b.Mask && [32]byte(a.Signature[:32]) == [32]byte(b.Signature[:32]) && reqs[i].how == "built" && rng.Intn(2) == 0 {
					reqs[i].cosi = b
					reqs[i].how = "built-through-the-object-of-another-challenge"
					shared++
					break
				}
			}
		}
		if shared > 0 {
			r.Count("requests_sharing_a_signature_object_across_challenges", shared)
		}

		// ---- schedule ----
		G := 1
		if rng.Intn(7) != 0 {
			G = 2 + rng.Intn(15)
		}
		weights := make([]int, len(specs))
		for i := range weights {
			weights[i] = 1 + rng.Intn(4)
		}
		pickClass := func() int {
			tot := 0
			for _, w := range weights {
				tot += w
			}
			x := rng.Intn(tot)
			for i, w := range weights {
				if x < w {
					return i
				}
				x -= w
			}
			return 0
		}
		plan := make([][]vC12Call, G)
		results := make([][]vC12Res, G)
		for g := range plan {
			nc := 1 + rng.Intn(3)
			for c := 0; c < nc; c++ {
				cl := pickClass()
				call := vC12Call{req: reqsOf[cl][rng.Intn(len(reqsOf[cl]))], copyH: rng.Intn(2) == 0}
				if rng.Intn(2) == 0 {
					call.yields = rng.Intn(4)
				}
				plan[g] = append(plan[g], call)
			}
			results[g] = make([]vC12Res, len(plan[g]))
		}

		// ---- run ----
		var tick atomic.Int64
		var wg sync.WaitGroup
		start := make(chan struct{})
		var arrive atomic.Int64 // spin barrier behind the channel: all goroutines leave it together
		arrive.Store(int64(G))
		for g := 0; g < G; g++ {
			wg.Add(1)
			go func(g int) {
				defer wg.Done()
				priv := private
				<-start
				arrive.Add(-1)
				for arrive.Load() > 0 {
					runtime.Gosched()
				}
				for c, call := range plan[g] {
					for y := 0; y < call.yields; y++ {
						runtime.Gosched()
					}
					h := handle
					if call.copyH {
						cp := *handle
						h = &cp
					}
					q := reqs[call.req]
					res := &results[g][c]
					res.G, res.Seq, res.Class, res.How, res.CopyH = g, c, q.class, q.how, call.copyH
					vC12Do(h, q, &priv, &tick, res)
				}
			}(g)
		}
		close(start)
		if !vC12WaitOrDeadlock(&wg) {
			// every call that could hold the nonce's lock has returned, yet some callers are parked in the
			// lock inside Response: they will never be answered
			r.Violation("C12|CosiNonce.Response|blocked-forever", "concurrent Response calls on copies of one nonce handle block forever inside Response although no other call is in progress",
				map[string]any{"trial": trial, "goroutines": G})
			r.Finish()
			return
		}

		var all []vC12Res
		for g := range results {
			all = append(all, results[g]...)
		}
		concurrentCalls := len(all)
		// one sequential retry per challenge after the join, through a fresh copy
		for ci := range specs {
			q := reqs[reqsOf[ci][rng.Intn(len(reqsOf[ci]))]]
			cp := *handle
			res := vC12Res{G: -1, Seq: ci, Class: ci, How: q.how, Late: true, CopyH: true}
			priv := private
			vC12Do(&cp, q, &priv, &tick, &res)
			all = append(all, res)
		}
		r.Count("response_calls", len(all))

		// ---- oracle ----
		mode := "sequential"
		if G > 1 {
			mode = "concurrent"
		}
		describe := func() map[string]any {
			cls := []map[string]any{}
			for ci, s := range specs {
				cls = append(cls, map[string]any{"class": ci, "derived_by": s.how, "mask": fmt.Sprintf("%016x", s.bits),
					"message": hex.EncodeToString(s.msg[:]), "reference_challenge": s.class})
			}
			return map[string]any{"trial": trial, "key_vector_size": n, "signer_index": me, "goroutines": G,
				"nonce_commitment": hex.EncodeToString(myCommitKey[:]), "challenges": cls, "results": all}
		}

		produced := []int{}
		for i := range all {
			res := &all[i]
			if res.panicked {
				w := describe()
				r.Violation("C12|CosiNonce.Response|panic|"+mode,
					fmt.Sprintf("Response panicked (%s) instead of returning the bound response or ErrCosiNonceReuse", res.Panic), w)
				continue
			}
			if res.resp != nil {
				produced = append(produced, i)
			}
		}
		if len(produced) == 0 {
			r.Count("trials_without_any_response", 1)
			continue
		}
		first := &all[produced[0]]
		winnerClass := first.Class
		ok := true
		for _, i := range produced[1:] {
			res := &all[i]
			if res.Class != first.Class {
				ok = false
				c1, c2 := specs[first.Class].cref, specs[res.Class].cref
				rec := vC12Recover(first.resp[:], res.resp[:], c1, c2)
				w := describe()
				w["answered_1"], w["answered_2"] = first, res
				recovered := rec != nil && rec.Equal(mine.sk) == 1
				w["private_key_recovered_from_the_two_responses"] = recovered
				if rec != nil {
					w["recovered_scalar"] = hex.EncodeToString(rec.Bytes())
				}
				r.Count("two_challenges_answered", 1)
				if recovered {
					r.Count("two_challenges_answered_private_key_recovered", 1)
				}
				// keep the strongest witness per class (one where the key recovery succeeds), report after the loop
				if prev, seen := twoAnswered[mode]; !seen || (!prev.recovered && recovered) {
					twoAnswered[mode] = vC12Pending{recovered: recovered, witness: w,
						what: fmt.Sprintf("one nonce produced responses for two different challenges (e.g. %s vs %s)", specs[first.Class].how, specs[res.Class].how)}
				}
				break
			}
			if *res.resp != *first.resp {
				ok = false
				w := describe()
				w["answered_1"], w["answered_2"] = first, res
				r.Violation("C12|CosiNonce.Response|same-challenge-different-response|"+mode,
					"repeating the same challenge returned different response bytes", w)
				break
			}
		}
		if !ok {
			continue
		}
		refused := 0
		for i := range all {
			res := &all[i]
			if res.resp != nil || res.panicked {
				if res.resp != nil && res.err != nil {
					r.Violation("C12|CosiNonce.Response|response-with-error|"+mode, "a response was returned together with an error: "+res.Err, describe())
				}
				continue
			}
			switch {
			case res.err == nil:
				r.Violation("C12|CosiNonce.Response|nil-response-nil-error|"+mode, "Response returned neither a response nor an error", describe())
			case res.Class == winnerClass:
				r.Violation("C12|CosiNonce.Response|bound-challenge-refused|"+mode,
					"a request repeating the only challenge this nonce ever answered was refused: "+res.Err, describe())
			case !errors.Is(res.err, crypto.ErrCosiNonceReuse):
				r.Violation("C12|CosiNonce.Response|different-challenge-wrong-error|"+mode,
					"a different challenge was refused with an error other than ErrCosiNonceReuse: "+res.Err, describe())
			default:
				refused++
			}
		}
		r.Count("responses_produced", len(produced))
		r.Count("requests_refused_reuse", refused)

		// reference value of the response (observation; decides nothing about C12 itself)
		if haveR {
			want := edwards25519.NewScalar().MultiplyAdd(specs[winnerClass].cref, mine.sk, rRef)
			if hex.EncodeToString(want.Bytes()) == first.Resp {
				r.Count("winner_response_equals_reference_c*a+r", 1)
			} else {
				refMismatch++
			}
		}

		// ---- what was observed ----
		if G > 1 {
			r.Count("trials_concurrent", 1)
			overlap := false
			for i := 0; i < concurrentCalls && !overlap; i++ {
				for j := i + 1; j < concurrentCalls; j++ {
					a, b := &all[i], &all[j]
					if a.G != b.G && a.Class != b.Class && a.T0 < b.T1 && b.T0 < a.T1 {
						overlap = true
						break
					}
				}
			}
			if overlap {
				r.Count("trials_with_different_challenges_in_flight_together", 1)
			}
			if !first.Late {
				winnersByG[fmt.Sprint(first.G)]++
				// the winner is the produced call with the smallest return tick
				wt, wgo := first.T1, first.G
				for _, i := range produced {
					if !all[i].Late && all[i].T1 < wt {
						wt, wgo = all[i].T1, all[i].G
					}
				}
				if wgo != 0 {
					r.Count("trials_first_answer_not_from_goroutine_0", 1)
				}
			}
		} else {
			r.Count("trials_sequential", 1)
		}
		gHist[fmt.Sprint(G)]++
		winnersByClass[specs[winnerClass].how]++
		identicalRetries := len(produced) - 1
		r.Count("identical_retries_answered_with_same_bytes", identicalRetries)
		if len(specs) >= 2 && refused > 0 {
			var sb strings.Builder
			fmt.Fprintf(&sb, "%d", G)
			for g := range plan {
				sb.WriteByte('|')
				for _, c := range plan[g] {
					sb.WriteByte(byte('a' + reqs[c.req].class))
				}
			}
			fmt.Fprintf(&sb, "|w%d.%d", first.G, winnerClass)
			r.Nontrivial(sb.String())
			if r.SampleCount() < 4 && G > 1 && G <= 4 {
				r.Sample(describe())
			}
		}
	}

	for _, mode := range []string{"sequential", "concurrent"} {
		if p, ok := twoAnswered[mode]; ok {
			what := p.what + "; the two responses in the witness do not yield the private key through (s1-s2)/(c1-c2) (same cached bytes handed out for both challenges, or responses computed from a torn nonce)"
			if p.recovered {
				what = p.what + "; the signer's private key equals (s1-s2)/(c1-c2) for the two responses in the witness"
			}
			r.Violation("C12|CosiNonce.Response|two-different-challenges-answered|"+mode, what, p.witness)
		}
	}
	r.Note("first_answer_by_goroutine", winnersByG)
	r.Note("winning_challenge_derivation", winnersByClass)
	r.Note("trials_by_goroutine_count", gHist)
	r.Count("trials_model_stale", staleModel)
	r.Count("reference_mismatch", refMismatch)
	if staleModel > 0 {
		r.Inconclusive(fmt.Sprintf("crypto.CosiAggregateCommitment no longer produces mask/commitment sum as modelled in %d trials; challenge classification unreliable", staleModel))
	}
	if refMismatch > 0 {
		r.Inconclusive(fmt.Sprintf("%d answered responses or nonce commitments differ from the reference r*B / c*a+r; the key-recovery reference no longer models the repository", refMismatch))
	}
	if r.Counter("trials_concurrent") > 0 && r.Counter("trials_with_different_challenges_in_flight_together") < r.Counter("trials_concurrent")/20 {
		r.Inconclusive("almost no trial had two different challenges in flight at the same time; no contention observed")
	}
	if r.Counter("trials_without_any_response") > int64(trials/2) {
		r.Inconclusive("most trials produced no response at all")
	}
	r.Finish()
}

// vC12WaitOrDeadlock waits for the trial's goroutines. It returns false only when, well after a
// generous delay, the goroutines that have not finished are all parked in a mutex inside the nonce's
// Response (observed twice, five seconds apart, with the same set still parked): a deadlock, not slowness.
func vC12WaitOrDeadlock(wg *sync.WaitGroup) bool {
	done := make(chan struct{})
	go func() { wg.Wait(); close(done) }()
	select {
	case <-done:
		return true
	case <-time.After(20 * time.Second):
	}
	parked := func() int {
		buf := make([]byte, 1<<22)
		buf = buf[:runtime.Stack(buf, true)]
		n, busy := 0, 0
		for _, g := range strings.Split(string(buf), "\n\n") {
			head := strings.SplitN(g, "\n", 2)[0]
			inside := strings.Contains(g, "crypto.(*CosiNonce).Response") || strings.Contains(g, "crypto.(*nonce).respond")
			if inside && strings.Contains(head, "sync.Mutex.Lock") {
				n++
			} else if inside {
				busy++ // somebody is working inside Response and may hold the lock: not a deadlock
			}
		}
		if busy > 0 {
			return 0
		}
		return n
	}
	a := parked()
	select {
	case <-done:
		return true
	case <-time.After(5 * time.Second):
	}
	b := parked()
	select {
	case <-done:
		return true
	default:
	}
	if a > 0 && a == b {
		return false
	}
	<-done // slow, not deadlocked: keep waiting (the runner's watchdog bounds this)
	return true
}
