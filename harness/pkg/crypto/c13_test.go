package crypto_test

// C13: collective (CoSi) signatures verify exactly when built from valid shares.
//
// Runtime monitor: random key vectors (1..64), masks, thresholds and messages are pushed
// through the real commit -> aggregate commitment -> respond -> aggregate response ->
// FullVerify flow; then one tampering at a time is applied (a share bit, a share from
// another signer, mask bits inside/outside the vector, a share counted twice or left out,
// thresholds above the mask size, message / key / signature bits) and the monitor demands
// the rejections the property names.  Secrets, sums and tampered values are computed with
// filippo.io/edwards25519; crypto/ed25519.Verify over the independently summed key is the
// reference that guards every "must be rejected" expectation.

import (
	"crypto/ed25519"
	"encoding/hex"
	"fmt"
	"math/bits"
	"math/rand"
	"testing"

	"filippo.io/edwards25519"
	"github.com/MixinNetwork/mixin/crypto"
	"github.com/MixinNetwork/mixin/verifkit"
)

type vC13Ident struct {
	sk  *edwards25519.Scalar
	key crypto.Key
	pub crypto.Key
	pt  *edwards25519.Point
}

func vC13Scalar(seed []byte) *edwards25519.Scalar {
	s, err := edwards25519.NewScalar().SetUniformBytes(seed)
	if err != nil {
		panic(err)
	}
	return s
}

func vC13NewIdent(rng *rand.Rand) *vC13Ident {
	var seed [64]byte
	rng.Read(seed[:])
	s := vC13Scalar(seed[:])
	p := edwards25519.NewIdentityPoint().ScalarBaseMult(s)
	id := &vC13Ident{sk: s, pt: p}
	copy(id.key[:], s.Bytes())
	copy(id.pub[:], p.Bytes())
	return id
}

type vC13Reader struct{ seed [64]byte }

func (r *vC13Reader) Read(b []byte) (int, error) { return copy(b, r.seed[:]), nil }

func vC13Publics(vec []*vC13Ident) []*crypto.Key {
	out := make([]*crypto.Key, len(vec))
	for i, id := range vec {
		k := id.pub
		out[i] = &k
	}
	return out
}

func vC13MaskKeys(mask uint64) []int {
	out := []int{}
	for i := 0; i < 64; i++ {
		if mask&(uint64(1)<<uint(i)) != 0 {
			out = append(out, i)
		}
	}
	return out
}

// vC13RefVerify is the reference verdict for a finished collective signature: all mask
// positions inside the vector and the plain Ed25519 equation [S]B = R + H(R,A,m)A over the
// sum A of the masked keys (crypto/ed25519, cofactorless, canonical S).
func vC13RefVerify(vec []*vC13Ident, mask uint64, msg crypto.Hash, sig crypto.Signature) bool {
	if mask == 0 {
		return false
	}
	A := edwards25519.NewIdentityPoint()
	for _, i := range vC13MaskKeys(mask) {
		if i >= len(vec) {
			return false
		}
		A.Add(A, vec[i].pt)
	}
	return ed25519.Verify(ed25519.PublicKey(A.Bytes()), msg[:], sig[:])
}

func vC13CopyResponses(m map[int]*[32]byte) map[int]*[32]byte {
	out := make(map[int]*[32]byte, len(m))
	for k, v := range m {
		c := *v
		out[k] = &c
	}
	return out
}

func vC13AddS(sig crypto.Signature, delta *edwards25519.Scalar, neg bool) (crypto.Signature, bool) {
	s, err := edwards25519.NewScalar().SetCanonicalBytes(sig[32:])
	if err != nil {
		return sig, false
	}
	if neg {
		s.Subtract(s, delta)
	} else {
		s.Add(s, delta)
	}
	copy(sig[32:], s.Bytes())
	return sig, true
}

func TestVerif_C13(t *testing.T) {
	r := verifkit.Start(t, "C13", "exploration")
	r.SetRule("each flow: random key vector of 1..64 keys (sometimes with one key at two positions), random non-empty mask inside the vector, random message, " +
		"fresh nonce handles, real commit/aggregate/respond/strict-aggregate/FullVerify, then single tamperings (share bit, foreign share, mask bit in/out of the vector, " +
		"share added/removed, threshold above mask size, message/key/signature bit); non-trivial = an honest flow that verified and had at least one tampering evaluated; " +
		"distinct = distinct (vector size, mask, message)")
	r.Assume("filippo.io/edwards25519, crypto/ed25519 and crypto/sha512 are the reference for key sums, the Schnorr equation and tampered values")
	r.Assume("key vectors are random (no adversarial vectors whose masked keys sum to the identity); a tampered value verifies only with negligible probability, and every such expectation is additionally guarded by the reference verdict")
	rng := r.Rand()
	flows := r.N(2000, 40000)
	r.SetFloor(flows / 2)

	const poolSize = 192
	pool := make([]*vC13Ident, poolSize)
	for i := range pool {
		pool[i] = vC13NewIdent(rng)
	}
	sizeHist := map[string]int{}
	var refHonestBad, refGuardSkipped int

	for flow := 0; flow < flows; flow++ {
		r.Eval()
		var n int
		switch rng.Intn(12) {
		case 0:
			n = 1
		case 1:
			n = 64
		case 2, 3, 4:
			n = 2 + rng.Intn(5)
		case 5, 6, 7:
			n = 7 + rng.Intn(24)
		default:
			n = 1 + rng.Intn(64)
		}
		perm := rng.Perm(poolSize)
		vec := make([]*vC13Ident, n)
		for i := range vec {
			vec[i] = pool[perm[i]]
		}
		dupKey := false
		if n >= 2 && rng.Intn(10) == 0 {
			a, b := rng.Intn(n), rng.Intn(n)
			if a != b {
				vec[a] = vec[b]
				dupKey = true
			}
		}
		publics := vC13Publics(vec)

		var mask uint64
		switch rng.Intn(6) {
		case 0:
			mask = uint64(1) << uint(rng.Intn(n))
		case 1:
			for i := 0; i < n; i++ {
				mask |= uint64(1) << uint(i)
			}
		default:
			p := 1 + rng.Intn(9)
			for i := 0; i < n; i++ {
				if rng.Intn(10) < p {
					mask |= uint64(1) << uint(i)
				}
			}
			if mask == 0 {
				mask = uint64(1) << uint(rng.Intn(n))
			}
		}
		signers := vC13MaskKeys(mask)
		k := len(signers)
		var msg crypto.Hash
		rng.Read(msg[:])

		desc := func(extra map[string]any) map[string]any {
			keys := make([]string, n)
			for i := range vec {
				keys[i] = hex.EncodeToString(vec[i].pub[:])
			}
			w := map[string]any{"flow": flow, "vector_size": n, "mask": fmt.Sprintf("%016x", mask), "signers": k,
				"message": hex.EncodeToString(msg[:]), "public_keys": keys, "duplicate_key_in_vector": dupKey}
			for a, b := range extra {
				w[a] = b
			}
			return w
		}
		sizeClass := "k=1"
		switch {
		case k == n && k > 1:
			sizeClass = "k=n"
		case k > 1:
			sizeClass = "1<k<n"
		}

		// ---- honest flow ----
		handles := map[int]*crypto.CosiNonce{}
		rsec := map[int]*edwards25519.Scalar{}
		commits := map[int]*crypto.Key{}
		for _, i := range signers {
			rd := &vC13Reader{}
			rng.Read(rd.seed[:])
			handles[i] = crypto.CosiCommitNonce(rd)
			rsec[i] = vC13Scalar(rd.seed[:])
			c := handles[i].Public()
			commits[i] = &c
		}
		cosi, err := crypto.CosiAggregateCommitment(commits)
		if err != nil {
			r.Violation("C13|CosiAggregateCommitment|honest-commitments-rejected|"+sizeClass, "aggregating honest commitments failed: "+err.Error(), desc(nil))
			continue
		}
		if cosi.Mask != mask {
			r.Violation("C13|CosiAggregateCommitment|mask-differs-from-signer-set|"+sizeClass,
				fmt.Sprintf("aggregate commitment mask %016x differs from the committed signer set %016x", cosi.Mask, mask), desc(nil))
			continue
		}
		responses := map[int]*[32]byte{}
		bad := false
		for _, i := range signers {
			priv := vec[i].key
			s, err := handles[i].Response(cosi, &priv, publics, msg)
			if err != nil || s == nil {
				r.Violation("C13|CosiNonce.Response|honest-response-failed|"+sizeClass, fmt.Sprintf("honest signer %d could not respond: %v", i, err), desc(nil))
				bad = true
				break
			}
			responses[i] = s
		}
		if bad {
			continue
		}
		for _, i := range signers {
			if err := cosi.VerifyResponse(publics, i, responses[i], msg); err != nil {
				r.Violation("C13|VerifyResponse|valid-response-rejected|"+sizeClass, fmt.Sprintf("valid response of signer %d rejected: %v", i, err),
					desc(map[string]any{"signer": i, "response": hex.EncodeToString(responses[i][:])}))
				bad = true
				break
			}
		}
		if bad {
			continue
		}
		r.Count("honest_responses_verified", k)
		honest := *cosi
		if err := honest.AggregateResponse(publics, vC13CopyResponses(responses), msg, true); err != nil {
			r.Violation("C13|AggregateResponse|valid-responses-rejected-strict|"+sizeClass, "strict aggregation of valid responses failed: "+err.Error(), desc(nil))
			continue
		}
		thresholds := []int{1, k, 1 + rng.Intn(k)}
		for _, th := range thresholds {
			if err := honest.FullVerify(publics, th, msg); err != nil {
				r.Violation("C13|FullVerify|honest-signature-rejected|"+sizeClass, fmt.Sprintf("signature aggregated from valid responses fails FullVerify(threshold %d of %d): %v", th, k, err),
					desc(map[string]any{"signature": honest.String(), "threshold": th}))
				bad = true
				break
			}
		}
		if bad {
			continue
		}
		// as the kernel sees it on the wire: only Signature and Mask
		wire := &crypto.CosiSignature{Signature: honest.Signature, Mask: honest.Mask}
		if err := wire.FullVerify(publics, k, msg); err != nil {
			r.Violation("C13|FullVerify|honest-wire-signature-rejected|"+sizeClass, "signature rebuilt from Signature+Mask fails FullVerify: "+err.Error(),
				desc(map[string]any{"signature": honest.String()}))
			continue
		}
		r.Count("honest_flows_verified", 1)
		sizeHist[fmt.Sprintf("n%02d-%02d", (n-1)/16*16+1, (n-1)/16*16+16)]++
		if vC13RefVerify(vec, mask, msg, honest.Signature) {
			r.Count("honest_signature_valid_under_reference_ed25519", 1)
		} else {
			refHonestBad++
		}
		good := honest.Signature

		// reference challenge and scalars, only used to manufacture wrong values
		var sref = map[int]*edwards25519.Scalar{}
		for _, i := range signers {
			if s, err := edwards25519.NewScalar().SetCanonicalBytes(responses[i][:]); err == nil {
				sref[i] = s
			}
		}

		// mustFail: a finished signature that has to be rejected by FullVerify.
		tampers := 0
		mustFail := func(kind string, pubs []*crypto.Key, refVec []*vC13Ident, m uint64, message crypto.Hash, sig crypto.Signature, th int, detail string) {
			tampers++
			if th <= bits.OnesCount64(m) && vC13RefVerify(refVec, m, message, sig) {
				refGuardSkipped++ // the reference calls it valid: no expectation
				return
			}
			c := &crypto.CosiSignature{Signature: sig, Mask: m}
			if tampers%2 == 0 {
				// the same value object that just verified the honest signature is filled again with the tampered
				// fields (as decoding into a reused value does): the verdict must not depend on the object's history
				c = &crypto.CosiSignature{Signature: honest.Signature, Mask: honest.Mask}
				_ = c.FullVerify(publics, 1, msg)
				_ = c.Keys()
				c.Signature, c.Mask = sig, m
				kind += "|reused-value"
			}
			var err error
			panicked, val, stack := verifkit.Guard(func() { err = c.FullVerify(pubs, th, message) })
			if panicked {
				r.Violation("C13|FullVerify|panic|"+kind, fmt.Sprintf("FullVerify panicked at %s on %s: %v", verifkit.PanicSite(stack), detail, val),
					desc(map[string]any{"tamper": kind, "detail": detail, "signature": c.String(), "threshold": th}))
				return
			}
			if err == nil {
				r.Violation("C13|FullVerify|accepted|"+kind, "FullVerify accepted a signature with "+detail,
					desc(map[string]any{"tamper": kind, "detail": detail, "signature": c.String(), "threshold": th, "honest_signature": hex.EncodeToString(good[:])}))
				return
			}
			r.Count("rejected:"+kind, 1)
		}

		// ---- T1: one bit of one share ----
		{
			i := signers[rng.Intn(k)]
			bit := rng.Intn(256)
			if rng.Intn(4) == 0 {
				bit = 248 + rng.Intn(8)
			}
			s := *responses[i]
			s[bit/8] ^= 1 << uint(bit%8)
			tampers++
			if err := cosi.VerifyResponse(publics, i, &s, msg); err == nil {
				r.Violation("C13|VerifyResponse|accepted|share-bit-flipped", fmt.Sprintf("VerifyResponse accepted the response of signer %d with bit %d flipped", i, bit),
					desc(map[string]any{"signer": i, "bit": bit, "response": hex.EncodeToString(s[:])}))
			} else {
				r.Count("rejected:share-bit/VerifyResponse", 1)
			}
			rs := vC13CopyResponses(responses)
			rs[i] = &s
			c := *cosi
			if err := c.AggregateResponse(publics, rs, msg, true); err == nil {
				r.Violation("C13|AggregateResponse|accepted-strict|share-bit-flipped", fmt.Sprintf("strict aggregation accepted the response of signer %d with bit %d flipped", i, bit),
					desc(map[string]any{"signer": i, "bit": bit, "response": hex.EncodeToString(s[:])}))
			} else {
				r.Count("rejected:share-bit/AggregateResponse-strict", 1)
			}
			// lenient aggregation may take it, but then the signature must not verify
			c2 := *cosi
			if err := c2.AggregateResponse(publics, vC13CopyResponses(rs), msg, false); err == nil {
				mustFail("invalid-share-lenient-aggregate", publics, vec, c2.Mask, msg, c2.Signature, 1, fmt.Sprintf("one share bit flipped (signer %d bit %d), aggregated without strict checking", i, bit))
			} else {
				r.Count("rejected:share-bit/AggregateResponse-lenient", 1)
			}
		}

		// ---- T2: a share from another signer ----
		{
			i := signers[rng.Intn(k)]
			var foreign [32]byte
			var from string
			if k >= 2 && rng.Intn(3) != 0 {
				j := i
				for j == i {
					j = signers[rng.Intn(k)]
				}
				foreign = *responses[j]
				from = fmt.Sprintf("masked signer %d", j)
				rs := vC13CopyResponses(responses)
				rs[i], rs[j] = rs[j], rs[i]
				c := *cosi
				tampers++
				if err := c.AggregateResponse(publics, rs, msg, true); err == nil {
					r.Violation("C13|AggregateResponse|accepted-strict|shares-swapped", fmt.Sprintf("strict aggregation accepted the responses of signers %d and %d swapped", i, j),
						desc(map[string]any{"signer": i, "other": j}))
				} else {
					r.Count("rejected:foreign-share/AggregateResponse-strict-swapped", 1)
				}
			} else {
				// the share another key holder would compute for this signer's nonce: s' = c*a' + r_i.
				// c is taken from the valid share: c = (s_i - r_i)/a_i
				other := pool[perm[n+rng.Intn(poolSize-n)]]
				if sref[i] != nil {
					c := edwards25519.NewScalar().Subtract(sref[i], rsec[i])
					c.Multiply(c, edwards25519.NewScalar().Invert(vec[i].sk))
					sp := edwards25519.NewScalar().MultiplyAdd(c, other.sk, rsec[i])
					copy(foreign[:], sp.Bytes())
					from = "a key outside the vector using this signer's nonce"
				} else {
					copy(foreign[:], other.sk.Bytes())
					from = "random scalar"
				}
				rs := vC13CopyResponses(responses)
				f := foreign
				rs[i] = &f
				c2 := *cosi
				tampers++
				if err := c2.AggregateResponse(publics, rs, msg, true); err == nil {
					r.Violation("C13|AggregateResponse|accepted-strict|foreign-share", fmt.Sprintf("strict aggregation accepted for signer %d a response from %s", i, from),
						desc(map[string]any{"signer": i, "response": hex.EncodeToString(foreign[:])}))
				} else {
					r.Count("rejected:foreign-share/AggregateResponse-strict", 1)
				}
			}
			tampers++
			if foreign == *responses[i] {
				refGuardSkipped++
			} else if err := cosi.VerifyResponse(publics, i, &foreign, msg); err == nil {
				r.Violation("C13|VerifyResponse|accepted|foreign-share", fmt.Sprintf("VerifyResponse accepted for signer %d a response from %s", i, from),
					desc(map[string]any{"signer": i, "response": hex.EncodeToString(foreign[:])}))
			} else {
				r.Count("rejected:foreign-share/VerifyResponse", 1)
			}
		}

		// ---- T2b: a valid share presented for a key that is not in the mask ----
		{
			i := signers[rng.Intn(k)]
			j := rng.Intn(64)
			for tries := 0; tries < 64 && mask&(uint64(1)<<uint(j)) != 0; tries++ {
				j = rng.Intn(64)
			}
			if mask&(uint64(1)<<uint(j)) == 0 {
				tampers++
				s := *responses[i]
				var err error
				panicked, val, stack := verifkit.Guard(func() { err = cosi.VerifyResponse(publics, j, &s, msg) })
				switch {
				case panicked:
					r.Violation("C13|VerifyResponse|panic|share-for-unmasked-signer", fmt.Sprintf("VerifyResponse panicked at %s for unmasked signer index %d: %v", verifkit.PanicSite(stack), j, val), desc(nil))
				case err == nil:
					r.Violation("C13|VerifyResponse|accepted|share-for-unmasked-signer", fmt.Sprintf("VerifyResponse accepted the response of signer %d as the response of index %d, which is not in the mask", i, j),
						desc(map[string]any{"signer": i, "presented_as": j, "response": hex.EncodeToString(s[:])}))
				default:
					r.Count("rejected:share-for-unmasked-signer/VerifyResponse", 1)
				}
			}
		}

		// ---- T3: mask index outside the key vector ----
		if n < 64 {
			j := n + rng.Intn(64-n)
			mustFail("mask-index-outside-vector", publics, vec, mask|uint64(1)<<uint(j), msg, good, 1, fmt.Sprintf("mask bit %d set with a vector of %d keys", j, n))
		}
		{
			top := signers[k-1] // vector too short for the highest masked index
			mustFail("vector-shorter-than-mask", publics[:top], vec[:top], mask, msg, good, 1, fmt.Sprintf("key vector cut to %d keys, masked index %d", top, top))
		}

		// ---- T4/T5: missing, extra or repeated signer ----
		{
			i := signers[rng.Intn(k)]
			if sref[i] != nil {
				if sig, ok := vC13AddS(good, sref[i], true); ok {
					mustFail("share-left-out", publics, vec, mask, msg, sig, 1, fmt.Sprintf("the share of masked signer %d left out of S", i))
				}
				if sig, ok := vC13AddS(good, sref[i], false); ok {
					mustFail("share-counted-twice", publics, vec, mask, msg, sig, 1, fmt.Sprintf("the share of signer %d counted twice in S", i))
				}
			}
			if k >= 2 {
				mustFail("signer-removed-from-mask", publics, vec, mask&^(uint64(1)<<uint(i)), msg, good, 1, fmt.Sprintf("mask bit %d cleared although signer %d contributed", i, i))
			}
			if k < n {
				j := rng.Intn(n)
				for mask&(uint64(1)<<uint(j)) != 0 {
					j = rng.Intn(n)
				}
				mustFail("non-signer-added-to-mask", publics, vec, mask|uint64(1)<<uint(j), msg, good, 1, fmt.Sprintf("mask bit %d set although key %d did not sign", j, j))
				// the aggregation API given a surplus response for a key that did not commit
				rs := vC13CopyResponses(responses)
				extra := *responses[i]
				rs[j] = &extra
				c := *cosi
				tampers++
				var err error
				panicked, val, stack := verifkit.Guard(func() { err = c.AggregateResponse(publics, rs, msg, rng.Intn(2) == 0) })
				switch {
				case panicked:
					r.Violation("C13|AggregateResponse|panic|surplus-response", fmt.Sprintf("AggregateResponse panicked at %s on a surplus response for unmasked key %d: %v", verifkit.PanicSite(stack), j, val), desc(nil))
				case err == nil:
					mustFail("surplus-response-aggregated", publics, vec, c.Mask, msg, c.Signature, 1, fmt.Sprintf("a repeated response aggregated for unmasked key %d", j))
				default:
					r.Count("rejected:surplus-response/AggregateResponse", 1)
				}
			}
			// a response missing from the aggregation input
			rs := vC13CopyResponses(responses)
			delete(rs, i)
			c := *cosi
			tampers++
			var err error
			panicked, val, stack := verifkit.Guard(func() { err = c.AggregateResponse(publics, rs, msg, rng.Intn(2) == 0) })
			switch {
			case panicked:
				r.Violation("C13|AggregateResponse|panic|missing-response", fmt.Sprintf("AggregateResponse panicked at %s when the response of masked signer %d is missing: %v", verifkit.PanicSite(stack), i, val), desc(nil))
			case err == nil:
				mustFail("missing-response-aggregated", publics, vec, c.Mask, msg, c.Signature, 1, fmt.Sprintf("the response of masked signer %d missing at aggregation", i))
			default:
				r.Count("rejected:missing-response/AggregateResponse", 1)
			}
		}

		// ---- T6: threshold above the mask size ----
		for _, th := range []int{k + 1, k + 1 + rng.Intn(64), 1 << 30} {
			tampers++
			if err := wire.FullVerify(publics, th, msg); err == nil {
				r.Violation("C13|FullVerify|accepted|threshold-above-mask-size", fmt.Sprintf("FullVerify accepted threshold %d with %d masked signers", th, k),
					desc(map[string]any{"threshold": th, "signature": wire.String()}))
			} else {
				r.Count("rejected:threshold-above-mask-size", 1)
			}
		}
		if err := wire.FullVerify(publics, -rng.Intn(3), msg); err != nil {
			r.Count("observed:non-positive-threshold-rejected", 1) // not demanded by the statement
		} else {
			r.Count("observed:non-positive-threshold-accepted", 1)
		}

		// ---- T7/T8: message, masked key, signature bits ----
		{
			m2 := msg
			m2[rng.Intn(32)] ^= 1 << uint(rng.Intn(8))
			mustFail("message-bit-flipped", publics, vec, mask, m2, good, 1, "one message bit flipped")

			i := signers[rng.Intn(k)]
			vec2 := append([]*vC13Ident{}, vec...)
			vec2[i] = pool[perm[n+rng.Intn(poolSize-n)]]
			mustFail("masked-key-replaced", vC13Publics(vec2), vec2, mask, msg, good, 1, fmt.Sprintf("the key of masked signer %d replaced in the vector", i))

			sig := good
			bit := rng.Intn(512)
			sig[bit/8] ^= 1 << uint(bit%8)
			kind := "signature-R-bit-flipped"
			if bit >= 256 {
				kind = "signature-S-bit-flipped"
			}
			mustFail(kind, publics, vec, mask, msg, sig, 1, fmt.Sprintf("signature bit %d flipped", bit))
		}

		r.Count("tamperings_evaluated", tampers)
		r.Nontrivial(fmt.Sprintf("%d|%016x|%x", n, mask, msg[:6]))
		if r.SampleCount() < 3 && n <= 6 {
			r.Sample(map[string]any{"vector_size": n, "mask": fmt.Sprintf("%016x", mask), "message": hex.EncodeToString(msg[:]),
				"signature": honest.String(), "thresholds_verified": thresholds, "tamperings": tampers})
		}
	}

	r.Note("verified_flows_by_vector_size", sizeHist)
	r.Count("reference_calls_honest_signature_invalid", refHonestBad)
	r.Count("expectations_skipped_reference_says_valid", refGuardSkipped)
	if refHonestBad > 0 {
		r.Note("reference_remark", "FullVerify accepted honest signatures that crypto/ed25519 over the summed key does not; the scheme is no longer plain Schnorr over the key sum (observation, no verdict)")
	}
	if int64(flows) > 0 && r.Counter("honest_flows_verified") == 0 && r.Violations() == 0 {
		r.Inconclusive("no honest flow verified")
	}
	r.Finish()
}
