package kernel

import (
	"fmt"
	"math/big"
	"math/rand"
	"sync"
	"sync/atomic"
	"testing"
	"time"

	"github.com/MixinNetwork/mixin/common"
	"github.com/MixinNetwork/mixin/crypto"
	"github.com/MixinNetwork/mixin/storage"
	"github.com/MixinNetwork/mixin/verifgen"
	"github.com/MixinNetwork/mixin/verifkit"
)

// TestVerif_C35 (kernel part): positions assigned by the node while several
// chains finalize concurrently, observed by a cursor-following reader.
func TestVerif_C35(t *testing.T) {
	r := verifkit.Start(t, "C35", "exploration")
	r.SetRule("kernel part: one goroutine per chain (as the node's per-chain loops) delivers certified snapshots (one or two new transactions, or a transaction another chain finalized already, alone or next to a new one) through cosiHook concurrently, with a random delay of 0..2 ms injected " +
		"at the storage boundary before each WriteSnapshot; a concurrent reader follows the topology like a syncing peer (list from cursor, advance the cursor past the last item). " +
		"Oracle: positions passed to the store are unique and each write starts only after every smaller position completed; the cursor-following reader has seen exactly the " +
		"stored snapshots (none skipped), each listing strictly increasing and starting at or after its cursor. non-trivial = distinct snapshots finalized concurrently")
	r.Assume("interleavings are those the Go scheduler produces with the injected delays; they are sampled, not enumerated")
	rng := r.Rand()
	var px *verifProxy
	f := verifNewFeed(t, fmt.Sprintf("c35k-%d", r.Seed), 7, rng, t.TempDir(), func(bs *storage.BadgerStore) storage.Store { px = newVerifProxy(bs); return px })
	defer f.stop()
	perChain := r.N(30, 400)

	// storage-boundary monitor: order of WriteSnapshot calls
	var mu sync.Mutex
	started := map[uint64]bool{}
	var maxCompleted uint64
	var outOfOrder, duplicates int64
	delays := make([]*rand.Rand, 0)
	_ = delays
	var dseed atomic.Int64
	orig := f.badger
	px.Store = &vC35Store{Store: orig, before: func(pos uint64) {
		// widen the window between position assignment and the durable write
		n := dseed.Add(1)
		time.Sleep(time.Duration((n*7919)%2000) * time.Microsecond)
		mu.Lock()
		if started[pos] {
			duplicates++
		}
		started[pos] = true
		if pos < maxCompleted {
			outOfOrder++
		}
		mu.Unlock()
	}, after: func(pos uint64) {
		mu.Lock()
		if pos > maxCompleted {
			maxCompleted = pos
		}
		mu.Unlock()
	}}

	// the reader: a peer that syncs by cursor
	stop := make(chan struct{})
	seen := map[uint64]crypto.Hash{}
	var readerProblems []string
	var rwg sync.WaitGroup
	rwg.Add(1)
	go func() {
		defer rwg.Done()
		cursor := uint64(0)
		for {
			snaps, err := f.node.ReadSnapshotsSinceTopology(cursor, 500)
			if err != nil {
				readerProblems = append(readerProblems, "listing error: "+err.Error())
				return
			}
			prev := uint64(0)
			for i, s := range snaps {
				if s.TopologicalOrder < cursor {
					readerProblems = append(readerProblems, fmt.Sprintf("listing from %d returned position %d", cursor, s.TopologicalOrder))
				}
				if i > 0 && s.TopologicalOrder <= prev {
					readerProblems = append(readerProblems, fmt.Sprintf("listing not strictly increasing: %d after %d", s.TopologicalOrder, prev))
				}
				prev = s.TopologicalOrder
				if s.Hash != s.PayloadHash() {
					readerProblems = append(readerProblems, "listed snapshot carries a wrong hash")
				}
				seen[s.TopologicalOrder] = s.Hash
			}
			if len(snaps) > 0 {
				cursor = snaps[len(snaps)-1].TopologicalOrder + 1
			}
			select {
			case <-stop:
				if len(snaps) == 0 {
					return
				}
			default:
				time.Sleep(200 * time.Microsecond)
			}
		}
	}()

	// writers: one per chain; external references stay at the other chains' genesis rounds
	genesisFinal := map[crypto.Hash]crypto.Hash{}
	for _, id := range f.net.NodeIds {
		genesisFinal[id] = f.chain(id).State.FinalRound.Hash
	}
	var finalized atomic.Int64
	var wg sync.WaitGroup
	// transactions finalized so far and the chains that already included them: other chains repeat them
	// (two leaders proposing the same transaction is ordinary), alone or next to new ones
	var pmu sync.Mutex
	var donePool []*common.VersionedTransaction
	onChains := map[crypto.Hash]map[crypto.Hash]bool{}
	var repeats, multis atomic.Int64
	for ci, id := range f.net.NodeIds {
		wg.Add(1)
		go func(ci int, id crypto.Hash) {
			defer wg.Done()
			lr := r.Fork("c35-chain", ci)
			w := verifgen.NewWallet(fmt.Sprintf("%s:w%d", f.net.Label, ci), lr, &f.net.Custodian, 2)
			ext := genesisFinal[f.net.NodeIds[(ci+1)%len(f.net.NodeIds)]]
			ts := f.net.Epoch + uint64(time.Hour) + uint64(ci)*1000
			for k := 0; k < perChain; k++ {
				dep, _ := w.Deposit(verifgen.Assets()[1+lr.Intn(3)], big.NewInt(int64(1+lr.Intn(1e6))))
				txs := []*common.VersionedTransaction{dep}
				switch lr.Intn(4) {
				case 0: // two new transactions
					dep2, _ := w.Deposit(verifgen.Assets()[1+lr.Intn(3)], big.NewInt(int64(1+lr.Intn(1e6))))
					txs = append(txs, dep2)
					multis.Add(1)
				case 1, 2: // a transaction another chain finalized already, alone or with the new one
					pmu.Lock()
					var old *common.VersionedTransaction
					for tries := 0; tries < 6 && old == nil && len(donePool) > 0; tries++ {
						c := donePool[lr.Intn(len(donePool))]
						if !onChains[c.PayloadHash()][id] {
							old = c
							onChains[c.PayloadHash()][id] = true
						}
					}
					pmu.Unlock()
					if old != nil {
						if lr.Intn(2) == 0 {
							txs = []*common.VersionedTransaction{old}
						} else {
							txs = append(txs, old)
						}
						repeats.Add(1)
					}
				}
				ts += uint64(4*time.Second) + uint64(lr.Intn(1000)) // every snapshot opens a new round
				chain := f.chain(id)
				cache, _ := chain.StateCopy()
				s := &common.Snapshot{Version: common.SnapshotVersionCommonEncoding, NodeId: id, Timestamp: ts}
				for _, tx := range txs {
					s.Transactions = append(s.Transactions, tx.PayloadHash())
				}
				if len(cache.Snapshots) == 0 {
					s.RoundNumber, s.References = cache.Number, cache.References.Copy()
				} else {
					_, _, self := verifRoundHashOf(id, cache.Number, cache.Snapshots)
					s.RoundNumber, s.References = cache.Number+1, &common.RoundLink{Self: self, External: ext}
				}
				s.Hash = s.PayloadHash()
				cids, publics := chain.ConsensusKeys(s.RoundNumber, s.Timestamp)
				pos := lr.Perm(len(cids))[:f.node.ConsensusThreshold(s.Timestamp, true)]
				if _, err := verifSignWith(f.net, s, cids, publics, vC35Sorted(pos)); err != nil {
					continue
				}
				d := f.deliver(s, txs)
				if !d.Finalized && !d.Panicked && d.Err == nil {
					d = f.deliver(s, txs)
				}
				if d.Panicked {
					r.Violation("C35|kernel|panic-during-concurrent-finalization|"+verifkit.PanicSite(d.Stack), fmt.Sprintf("finalization panicked: %.200v", d.PanicVal), nil)
					return
				}
				if d.Finalized {
					finalized.Add(1)
					pmu.Lock()
					for _, tx := range txs {
						h := tx.PayloadHash()
						if onChains[h] == nil {
							onChains[h] = map[crypto.Hash]bool{}
							donePool = append(donePool, tx)
						}
						onChains[h][id] = true
					}
					pmu.Unlock()
				}
			}
		}(ci, id)
	}
	wg.Wait()
	close(stop)
	rwg.Wait()
	r.Evals(int(finalized.Load()))
	for i := int64(0); i < finalized.Load(); i++ {
		r.Nontrivial(fmt.Sprint("snap", i))
	}
	r.Note("snapshots_finalized_concurrently", finalized.Load())
	r.Note("snapshots_repeating_a_transaction_of_another_chain", repeats.Load())
	r.Note("snapshots_with_two_new_transactions", multis.Load())
	r.Note("reader_positions_seen", len(seen))
	if duplicates > 0 {
		r.Violation("C35|kernel|position-assigned-twice", fmt.Sprintf("%d topology positions were passed to the store twice", duplicates), nil)
	}
	if outOfOrder > 0 {
		r.Violation("C35|kernel|position-written-after-a-larger-one", fmt.Sprintf("%d snapshot writes started after a larger position had already been written", outOfOrder), nil)
	}
	for _, p := range readerProblems {
		r.Violation("C35|kernel|reader|"+p[:min(len(p), 24)], "cursor-following reader: "+p, nil)
		break
	}
	// everything stored must have been seen by the cursor-following reader
	var offset uint64
	missed := 0
	total := 0
	for {
		snaps, err := f.node.ReadSnapshotsSinceTopology(offset, 500)
		if err != nil || len(snaps) == 0 {
			break
		}
		for _, s := range snaps {
			total++
			if h, ok := seen[s.TopologicalOrder]; !ok || h != s.Hash {
				missed++
			}
		}
		offset = snaps[len(snaps)-1].TopologicalOrder + 1
	}
	if missed > 0 {
		r.Violation("C35|kernel|reader|skipped-positions", fmt.Sprintf("a reader that follows the cursor never saw %d of %d stored snapshots (they appeared below its cursor later)", missed, total), nil)
	}
	r.Sample(map[string]any{"chains": len(f.net.NodeIds), "snapshots_finalized": finalized.Load(), "stored": total, "reader_seen": len(seen)})
	if finalized.Load() < 50 {
		r.Inconclusive(fmt.Sprintf("only %d snapshots finalized concurrently", finalized.Load()))
	}
	r.Finish()
}

func vC35Sorted(a []int) []int {
	b := append([]int{}, a...)
	for i := 1; i < len(b); i++ {
		for j := i; j > 0 && b[j] < b[j-1]; j-- {
			b[j], b[j-1] = b[j-1], b[j]
		}
	}
	return b
}

// vC35Store observes WriteSnapshot at the storage boundary.
type vC35Store struct {
	storage.Store
	before func(pos uint64)
	after  func(pos uint64)
}

func (s *vC35Store) WriteSnapshot(snap *common.SnapshotWithTopologicalOrder, signers []crypto.Hash) error {
	s.before(snap.TopologicalOrder)
	err := s.Store.WriteSnapshot(snap, signers)
	if err == nil {
		s.after(snap.TopologicalOrder)
	}
	return err
}
