package kernel

// Random membership histories with real key pairs, a directly constructed
// Node over them, and an independent reference model of the historical
// consensus views (written from the rules, not from the implementation).

import (
	"crypto/ed25519"
	"fmt"
	"math/rand"
	"sort"
	"testing"
	"time"

	"filippo.io/edwards25519"
	"github.com/MixinNetwork/mixin/common"
	"github.com/MixinNetwork/mixin/config"
	"github.com/MixinNetwork/mixin/crypto"
	"github.com/MixinNetwork/mixin/storage"
	"github.com/MixinNetwork/mixin/verifgen"
	"github.com/dgraph-io/ristretto/v2"
)

type verifMember struct {
	Id     crypto.Hash
	Signer common.Address // with private spend key
	Payee  common.Address
}

type verifRecord struct {
	Member    *verifMember
	State     string
	Timestamp uint64
	Tx        crypto.Hash
}

type verifHistory struct {
	Label     string
	Epoch     uint64
	NetworkId crypto.Hash
	Genesis   map[crypto.Hash]bool
	Members   []*verifMember
	Records   []*verifRecord // sorted by (Timestamp, id string)
}

func (h *verifHistory) member(i int) *verifMember {
	for len(h.Members) <= i {
		k := len(h.Members)
		s := verifgen.NodeAddr(fmt.Sprintf("%s:m:%d", h.Label, k))
		p := verifgen.NodeAddr(fmt.Sprintf("%s:p:%d", h.Label, k))
		h.Members = append(h.Members, &verifMember{Id: s.Hash().ForNetwork(h.NetworkId), Signer: s, Payee: p})
	}
	return h.Members[i]
}

func (h *verifHistory) privOf(id crypto.Hash) *crypto.Key {
	for _, m := range h.Members {
		if m.Id == id {
			k := m.Signer.PrivateSpendKey
			return &k
		}
	}
	return nil
}

func (h *verifHistory) add(m *verifMember, state string, ts uint64) {
	tx := crypto.Blake3Hash([]byte(fmt.Sprintf("%s:%s:%s:%d", h.Label, m.Id, state, ts)))
	h.Records = append(h.Records, &verifRecord{Member: m, State: state, Timestamp: ts, Tx: tx})
}

func (h *verifHistory) sortRecords() {
	sort.SliceStable(h.Records, func(i, j int) bool {
		a, b := h.Records[i], h.Records[j]
		if a.Timestamp != b.Timestamp {
			return a.Timestamp < b.Timestamp
		}
		return a.Member.Id.String() < b.Member.Id.String()
	})
}

// verifRandomHistory generates a lifecycle-respecting membership history:
// g genesis nodes, then per day at most one membership operation, mostly at
// the hours the protocol allows, sometimes at arbitrary times.
func verifRandomHistory(label string, rng *rand.Rand, genesis, days int) *verifHistory {
	epoch := uint64(1_600_000_000+rng.Intn(1000)*86400) * uint64(time.Second)
	return verifRandomHistoryOn(label, rng, genesis, days, epoch, crypto.Blake3Hash([]byte("verif-net:"+label)))
}

func verifMainnetId() crypto.Hash {
	id, err := crypto.HashFromString(config.KernelNetworkId)
	if err != nil {
		panic(err)
	}
	return id
}

// verifLegacyHistory is a random history on the main network id whose days straddle the activation of the
// predictive removal signer set: before it the kernel verifies certificates with the legacy rule (the key set
// from before the operation window is tried as well).
func verifLegacyHistory(label string, rng *rand.Rand, genesis, days int) *verifHistory {
	epoch := mainnetConsensusNodeRemovalSignerSetForkAt - uint64(1+rng.Intn(days))*OneDay - uint64(rng.Intn(24))*uint64(time.Hour)
	return verifRandomHistoryOn(label, rng, genesis, days, epoch, verifMainnetId())
}

func verifRandomHistoryOn(label string, rng *rand.Rand, genesis, days int, epoch uint64, networkId crypto.Hash) *verifHistory {
	h := &verifHistory{Label: label, Epoch: epoch, Genesis: map[crypto.Hash]bool{}}
	h.NetworkId = networkId
	for i := 0; i < genesis; i++ {
		m := h.member(i)
		h.Genesis[m.Id] = true
		h.add(m, common.NodeStateAccepted, epoch)
	}
	state := map[crypto.Hash]string{}
	for _, m := range h.Members {
		state[m.Id] = common.NodeStateAccepted
	}
	var pledging *verifMember
	var pledgedAt uint64
	hourNs := uint64(time.Hour)
	for d := 1; d <= days; d++ {
		base := epoch + uint64(d)*OneDay
		arbitrary := rng.Intn(6) == 0
		at := func(lo, hi int) uint64 {
			if arbitrary {
				return base + uint64(rng.Int63n(int64(OneDay)))
			}
			hr := lo + rng.Intn(hi-lo+1)
			return base + uint64(hr)*hourNs + uint64(rng.Int63n(int64(hourNs)))
		}
		accepted := 0
		for _, s := range state {
			if s == common.NodeStateAccepted {
				accepted++
			}
		}
		switch {
		case pledging != nil:
			ts := at(13, 19)
			if ts < pledgedAt+uint64(12*time.Hour) {
				continue
			}
			if rng.Intn(4) == 0 {
				h.add(pledging, common.NodeStateCancelled, ts)
				state[pledging.Id] = common.NodeStateCancelled
			} else {
				h.add(pledging, common.NodeStateAccepted, ts)
				state[pledging.Id] = common.NodeStateAccepted
			}
			pledging = nil
		case rng.Intn(3) == 0 && accepted < config.KernelMaximumNodesCount:
			ts := at(0, 6)
			if rng.Intn(2) == 0 {
				ts = at(20, 23)
			}
			m := h.member(len(h.Members))
			h.add(m, common.NodeStatePledging, ts)
			state[m.Id] = common.NodeStatePledging
			pledging, pledgedAt = m, ts
		case rng.Intn(3) == 0 && accepted > config.KernelMinimumNodesCount:
			// remove the oldest accepted node (by latest record time, then id)
			var cands []*verifRecord
			latest := map[crypto.Hash]*verifRecord{}
			for _, rec := range h.Records {
				latest[rec.Member.Id] = rec
			}
			for _, rec := range latest {
				if rec.State == common.NodeStateAccepted {
					cands = append(cands, rec)
				}
			}
			sort.Slice(cands, func(i, j int) bool {
				if cands[i].Timestamp != cands[j].Timestamp {
					return cands[i].Timestamp < cands[j].Timestamp
				}
				return cands[i].Member.Id.String() < cands[j].Member.Id.String()
			})
			victim := cands[0].Member
			if rng.Intn(5) == 0 {
				victim = cands[rng.Intn(len(cands))].Member
			}
			ts := at(13, 19)
			h.add(victim, common.NodeStateRemoved, ts)
			state[victim.Id] = common.NodeStateRemoved
		}
	}
	h.sortRecords()
	return h
}

// prefix returns the history restricted to records with Timestamp < q.
func (h *verifHistory) prefix(q uint64) *verifHistory {
	p := &verifHistory{Label: h.Label, Epoch: h.Epoch, NetworkId: h.NetworkId, Genesis: h.Genesis, Members: h.Members}
	for _, rec := range h.Records {
		if rec.Timestamp < q {
			p.Records = append(p.Records, rec)
		}
	}
	return p
}

// node builds a kernel Node directly over the history (as LoadConsensusNodes would).
func (h *verifHistory) node(tb testing.TB) *Node {
	node := h.nodeNoCache()
	cache, err := ristretto.NewCache(&ristretto.Config[[]byte, any]{NumCounters: 1e4, MaxCost: 1 << 22, BufferItems: 64})
	if err != nil {
		tb.Fatal(err)
	}
	tb.Cleanup(cache.Close)
	node.cacheStore = cache
	return node
}

// nodeOwned is node with a verification cache the caller closes (for short-lived nodes: caches registered with
// tb.Cleanup stay allocated until the test ends).
func (h *verifHistory) nodeOwned() (*Node, func()) {
	node := h.nodeNoCache()
	cache, err := ristretto.NewCache(&ristretto.Config[[]byte, any]{NumCounters: 1e4, MaxCost: 1 << 22, BufferItems: 64})
	if err != nil {
		panic(err)
	}
	node.cacheStore = cache
	return node, cache.Close
}

// nodeNoCache is node without the verification cache (enough for the views).
func (h *verifHistory) nodeNoCache() *Node {
	cnodes := make([]*CNode, len(h.Records))
	for i, rec := range h.Records {
		cnodes[i] = &CNode{IdForNetwork: rec.Member.Id, Signer: rec.Member.Signer, Payee: rec.Member.Payee,
			Transaction: rec.Tx, Timestamp: rec.Timestamp, State: rec.State}
		cnodes[i].Signer.PrivateSpendKey = crypto.Key{}
		cnodes[i].Payee.PrivateSpendKey = crypto.Key{}
	}
	node := &Node{Epoch: h.Epoch, networkId: h.NetworkId, genesisNodesMap: h.Genesis,
		chains: &chainsMap{m: make(map[crypto.Hash]*Chain)}}
	// the in-memory membership is loaded by the node's own loader from the records (as at startup and after every
	// finalized membership operation), not assembled by the harness
	st := &verifHistoryStore{}
	for _, cn := range cnodes {
		st.nodes = append(st.nodes, &common.Node{Signer: cn.Signer, Payee: cn.Payee, State: cn.State, Transaction: cn.Transaction, Timestamp: cn.Timestamp})
	}
	node.persistStore = st
	if err := node.LoadConsensusNodes(); err != nil {
		panic(err)
	}
	return node
}

// verifHistoryStore answers the one store call the membership loader makes.
type verifHistoryStore struct {
	storage.Store
	nodes []*common.Node
}

func (s *verifHistoryStore) ReadAllNodes(threshold uint64, withState bool) []*common.Node {
	var out []*common.Node
	for _, n := range s.nodes {
		if n.Timestamp <= threshold {
			c := *n
			out = append(out, &c)
		}
	}
	return out
}

// ---- independent reference model ----

type verifRefNode struct {
	Id        crypto.Hash
	Key       crypto.Key
	State     string
	Timestamp uint64
}

// refList: latest record per node among records strictly before q, ordered by
// (timestamp, id text).
func (h *verifHistory) refList(q uint64) []*verifRefNode {
	latest := map[crypto.Hash]*verifRecord{}
	for _, rec := range h.Records {
		if rec.Timestamp < q {
			latest[rec.Member.Id] = rec
		}
	}
	var out []*verifRefNode
	for _, rec := range latest {
		out = append(out, &verifRefNode{Id: rec.Member.Id, Key: rec.Member.Signer.PublicSpendKey, State: rec.State, Timestamp: rec.Timestamp})
	}
	sort.Slice(out, func(i, j int) bool {
		if out[i].Timestamp != out[j].Timestamp {
			return out[i].Timestamp < out[j].Timestamp
		}
		return out[i].Id.String() < out[j].Id.String()
	})
	return out
}

func (h *verifHistory) hourOf(ts uint64) int { return int((ts - h.Epoch) / uint64(time.Hour) % 24) }

// predictive: the removal of a node is anticipated in the signer set of its operation window (always, except
// on the main network before the activation time).
func (h *verifHistory) predictive(ts uint64) bool {
	return h.NetworkId.String() != config.KernelNetworkId || ts >= mainnetConsensusNodeRemovalSignerSetForkAt
}

// refLegacyTs: under the legacy rule a certificate inside the operation window may also be one of the membership
// as it was before the window; this is the instant of that membership.
func (h *verifHistory) refLegacyTs(ts uint64) (uint64, bool) {
	if ts < h.Epoch || h.predictive(ts) {
		return 0, false
	}
	hr := h.hourOf(ts)
	if hr < 13 || hr > 19 {
		return 0, false
	}
	return ts - uint64(hr+1-13)*uint64(time.Hour), true
}

// refRemoving: the node whose removal is predictable in the operation window
// (13..19 h of the epoch day) containing ts, judged at the window start.
func (h *verifHistory) refRemoving(ts uint64) *verifRefNode {
	if ts < h.Epoch || !h.predictive(ts) {
		return nil
	}
	if hr := h.hourOf(ts); hr < 13 || hr > 19 {
		return nil
	}
	start := h.Epoch + (ts-h.Epoch)/OneDay*OneDay + 13*uint64(time.Hour)
	list := h.refList(start)
	if len(list) > 0 && list[len(list)-1].State == common.NodeStatePledging {
		return nil
	}
	var accepted []*verifRefNode
	for _, n := range list {
		if start-n.Timestamp < uint64(12*time.Hour) {
			return nil
		}
		switch n.State {
		case common.NodeStateAccepted:
			accepted = append(accepted, n)
		case common.NodeStateCancelled, common.NodeStateRemoved:
		default:
			return nil
		}
	}
	if len(accepted) <= 7 {
		return nil
	}
	return accepted[0]
}

// refKeys: the consensus key vector at ts (members that may sign), plus the
// pledging node of the chain for its round zero.
func (h *verifHistory) refKeys(ts uint64, pledgingChain *verifMember, round uint64) ([]crypto.Hash, []crypto.Key) {
	removing := h.refRemoving(ts)
	var ids []crypto.Hash
	var keys []crypto.Key
	for _, n := range h.refList(ts) {
		if removing != nil && n.Id == removing.Id {
			continue
		}
		if n.State != common.NodeStateAccepted {
			continue
		}
		if !h.Genesis[n.Id] && !(n.Timestamp+uint64(12*time.Hour) < ts) {
			continue
		}
		ids = append(ids, n.Id)
		keys = append(keys, n.Key)
	}
	if pledgingChain != nil && round == 0 {
		ids = append(ids, pledgingChain.Id)
		keys = append(keys, pledgingChain.Signer.PublicSpendKey)
	}
	return ids, keys
}

// refThreshold: certificate threshold at ts; 1000 when the base is below 7.
func (h *verifHistory) refThreshold(ts uint64, final bool) (threshold, base int) {
	removing := h.refRemoving(ts)
	for _, n := range h.refList(ts) {
		if removing != nil && n.Id == removing.Id {
			continue
		}
		switch n.State {
		case common.NodeStatePledging:
			if !final && n.Timestamp+uint64(12*time.Hour)-uint64(90*time.Second) < ts {
				base++
			}
		case common.NodeStateAccepted:
			if h.Genesis[n.Id] || n.Timestamp+uint64(30*time.Second) < ts {
				base++
			}
		}
	}
	if base < 7 {
		return 1000, base
	}
	return base*2/3 + 1, base
}

// interesting timestamps: every record boundary -1/0/+1 ns, maturity edges and window edges.
func (h *verifHistory) boundaries(rng *rand.Rand, extra int) []uint64 {
	seen := map[uint64]bool{}
	var out []uint64
	add := func(t uint64) {
		if t > h.Epoch && !seen[t] {
			seen[t] = true
			out = append(out, t)
		}
	}
	var last uint64
	for _, rec := range h.Records {
		for _, d := range []uint64{0, uint64(30 * time.Second), uint64(12 * time.Hour), uint64(12*time.Hour - 90*time.Second)} {
			add(rec.Timestamp + d - 1)
			add(rec.Timestamp + d)
			add(rec.Timestamp + d + 1)
		}
		if rec.Timestamp > last {
			last = rec.Timestamp
		}
		day := (rec.Timestamp - h.Epoch) / OneDay
		for _, hr := range []uint64{13, 20} {
			edge := h.Epoch + day*OneDay + hr*uint64(time.Hour)
			add(edge - 1)
			add(edge)
			add(edge + 1)
		}
	}
	span := last - h.Epoch + 2*OneDay
	for i := 0; i < extra; i++ {
		add(h.Epoch + 1 + uint64(rng.Int63n(int64(span))))
	}
	return out
}

// vC09Cosi signs hash with the members at the given positions of the key vector.
func vC09Cosi(h *verifHistory, hash crypto.Hash, cids []crypto.Hash, publics []*crypto.Key, positions []int) (*crypto.CosiSignature, error) {
	nonces := map[int]*crypto.CosiNonce{}
	commitments := map[int]*crypto.Key{}
	for _, i := range positions {
		n := crypto.CosiCommitNonce(crypto.RandReader())
		c := n.Public()
		nonces[i], commitments[i] = n, &c
	}
	sig, err := crypto.CosiAggregateCommitment(commitments)
	if err != nil {
		return nil, err
	}
	responses := map[int]*[32]byte{}
	for _, i := range positions {
		priv := h.privOf(cids[i])
		if priv == nil {
			return nil, fmt.Errorf("no private key for %s", cids[i])
		}
		resp, err := nonces[i].Response(sig, priv, publics, hash)
		if err != nil {
			return nil, err
		}
		responses[i] = resp
	}
	if err := sig.AggregateResponse(publics, responses, hash, true); err != nil {
		return nil, err
	}
	return sig, nil
}

// vC09StdVerify verifies sig over msg under the plain sum of keys with the
// standard library's Ed25519 (independent of the repository's crypto package).
func vC09StdVerify(keys []crypto.Key, msg crypto.Hash, sig crypto.Signature) bool {
	if len(keys) == 0 {
		return false
	}
	sum := edwards25519.NewIdentityPoint()
	for _, k := range keys {
		p, err := edwards25519.NewIdentityPoint().SetBytes(k[:])
		if err != nil {
			return false
		}
		sum.Add(sum, p)
	}
	return ed25519.Verify(ed25519.PublicKey(sum.Bytes()), msg[:], sig[:])
}

// vC09LegacyTimes: instants after a removal inside its operation window while the legacy rule applies (the
// certificate may then come from the membership before the window).
func vC09LegacyTimes(h *verifHistory, rng *rand.Rand) []uint64 {
	var out []uint64
	for _, rec := range h.Records {
		if rec.State != common.NodeStateRemoved {
			continue
		}
		if _, ok := h.refLegacyTs(rec.Timestamp + 1); !ok {
			continue
		}
		end := h.Epoch + (rec.Timestamp-h.Epoch)/OneDay*OneDay + 20*uint64(time.Hour)
		out = append(out, rec.Timestamp+1)
		if end > rec.Timestamp+2 {
			out = append(out, rec.Timestamp+1+uint64(rng.Int63n(int64(end-rec.Timestamp-2))))
		}
	}
	return out
}
