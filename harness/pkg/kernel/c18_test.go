package kernel

// C18 — Round hashes are a deterministic function of the round's snapshot set.
//
// Runtime differential monitor. For seeded random snapshot sets (1..64 snapshots,
// timestamps with many ties, adversarial hash shapes, version mixes, span < round
// gap) three repository implementations are executed on many orderings of the
// same set:
//   - common.ComputeRoundHash                     (live node)
//   - storage.computeRoundHash (via verif hook)   (startup graph validator)
//   - (*CacheRound).asFinal                       (live node, round closing)
// and compared with each other and with an independent reference written here
// (own comparison, min/max scan, chained Blake3 through the streaming hasher of
// github.com/zeebo/blake3).

import (
	"encoding/binary"
	"encoding/hex"
	"fmt"
	"math/rand"
	"sync"
	"testing"

	"github.com/MixinNetwork/mixin/common"
	"github.com/MixinNetwork/mixin/config"
	"github.com/MixinNetwork/mixin/crypto"
	"github.com/MixinNetwork/mixin/storage"
	"github.com/MixinNetwork/mixin/verifkit"
	"github.com/zeebo/blake3"
)

type vC18Result struct {
	Start, End uint64
	Hash       crypto.Hash
	Panicked   bool
	PanicVal   string
	PanicSite  string
}

func (a vC18Result) same(b vC18Result) bool {
	return a.Panicked == b.Panicked && a.Start == b.Start && a.End == b.End && a.Hash == b.Hash
}

func (a vC18Result) String() string {
	if a.Panicked {
		return fmt.Sprintf("panic(%s) at %s", a.PanicVal, a.PanicSite)
	}
	return fmt.Sprintf("start=%d end=%d hash=%s", a.Start, a.End, hex.EncodeToString(a.Hash[:]))
}

type vC18Set struct {
	Node    crypto.Hash
	Number  uint64
	Snaps   []*common.Snapshot
	TsMode  string
	HMode   string
	VerMix  bool
	HasTies bool
}

// ---- independent reference ----

func vC18Less(ats uint64, ah *crypto.Hash, bts uint64, bh *crypto.Hash) bool {
	if ats != bts {
		return ats < bts
	}
	for i := 0; i < len(ah); i++ {
		if ah[i] != bh[i] {
			return ah[i] < bh[i]
		}
	}
	return false
}

func vC18Reference(node crypto.Hash, number uint64, snaps []*common.Snapshot) vC18Result {
	type item struct {
		ts uint64
		h  crypto.Hash
	}
	items := make([]item, len(snaps))
	start, end := snaps[0].Timestamp, snaps[0].Timestamp
	for i, s := range snaps {
		items[i] = item{s.Timestamp, s.Hash}
		if s.Timestamp < start {
			start = s.Timestamp
		}
		if s.Timestamp > end {
			end = s.Timestamp
		}
	}
	// insertion sort with the reference comparison (n <= 64)
	for i := 1; i < len(items); i++ {
		for j := i; j > 0 && vC18Less(items[j].ts, &items[j].h, items[j-1].ts, &items[j-1].h); j-- {
			items[j], items[j-1] = items[j-1], items[j]
		}
	}
	hs := blake3.New()
	var nb [8]byte
	binary.BigEndian.PutUint64(nb[:], number)
	hs.Write(node[:])
	hs.Write(nb[:])
	var cur crypto.Hash
	hs.Sum(cur[:0])
	for _, it := range items {
		hs.Reset()
		hs.Write(cur[:])
		hs.Write(it.h[:])
		var next crypto.Hash
		hs.Sum(next[:0])
		cur = next
	}
	return vC18Result{Start: start, End: end, Hash: cur}
}

// ---- generator ----

func vC18RandHash(rng *rand.Rand) crypto.Hash {
	var h crypto.Hash
	rng.Read(h[:])
	return h
}

func vC18GenSet(rng *rand.Rand) *vC18Set {
	set := &vC18Set{Node: vC18RandHash(rng)}
	switch rng.Intn(6) {
	case 0:
		set.Number = 0
	case 1:
		set.Number = uint64(rng.Intn(1000))
	case 2:
		set.Number = ^uint64(0) - uint64(rng.Intn(2))
	default:
		set.Number = rng.Uint64() >> uint(rng.Intn(40))
	}
	var n int
	switch p := rng.Intn(100); {
	case p < 20:
		n = 1 + rng.Intn(3)
	case p < 55:
		n = 4 + rng.Intn(3)
	case p < 80:
		n = 7 + rng.Intn(10)
	default:
		n = 17 + rng.Intn(48)
	}
	gap := config.SnapshotRoundGap
	base := uint64(1500000000)*1e9 + uint64(rng.Int63n(int64(1600000000)*1e9))
	if rng.Intn(25) == 0 {
		base = uint64(rng.Intn(3))
	}
	ts := make([]uint64, n)
	tsMode := rng.Intn(6)
	switch tsMode {
	case 0:
		set.TsMode = "all-equal"
		for i := range ts {
			ts[i] = base
		}
	case 1:
		set.TsMode = "few-values"
		k := 1 + rng.Intn(3)
		vals := make([]uint64, k)
		for i := range vals {
			vals[i] = base + uint64(rng.Int63n(int64(gap)))
		}
		for i := range ts {
			ts[i] = vals[rng.Intn(k)]
		}
	case 2:
		set.TsMode = "random-in-gap"
		for i := range ts {
			ts[i] = base + uint64(rng.Int63n(int64(gap)))
		}
	case 3:
		set.TsMode = "extremes"
		for i := range ts {
			switch rng.Intn(4) {
			case 0:
				ts[i] = base
			case 1:
				ts[i] = base + gap - 1
			case 2:
				ts[i] = base + uint64(rng.Intn(2))
			default:
				ts[i] = base + uint64(rng.Int63n(int64(gap)))
			}
		}
		if n >= 2 {
			ts[rng.Intn(n)] = base
			j := rng.Intn(n)
			ts[j] = base + gap - 1
		}
	case 4:
		set.TsMode = "consecutive-ns"
		for i := range ts {
			ts[i] = base + uint64(rng.Intn(n))
		}
	default:
		set.TsMode = "pairs"
		step := uint64(1 + rng.Intn(1000))
		for i := range ts {
			ts[i] = base + uint64(i/2)*step
		}
		rng.Shuffle(n, func(i, j int) { ts[i], ts[j] = ts[j], ts[i] })
	}
	seenTs := make(map[uint64]bool)
	for _, t := range ts {
		if seenTs[t] {
			set.HasTies = true
		}
		seenTs[t] = true
	}

	hMode := rng.Intn(5)
	set.VerMix = rng.Intn(3) == 0
	versions := []uint8{0, 1, 2, 2, 3, 255}
	seen := make(map[crypto.Hash]bool)
	var proto crypto.Hash
	if hMode >= 2 {
		proto = vC18RandHash(rng)
	}
	prefix := 1 + rng.Intn(31)
	for i := 0; i < n; i++ {
		s := &common.Snapshot{
			Version:     common.SnapshotVersionCommonEncoding,
			NodeId:      set.Node,
			RoundNumber: set.Number,
			Timestamp:   ts[i],
			References:  &common.RoundLink{Self: vC18RandHash(rng), External: vC18RandHash(rng)},
		}
		ntx := 1 + rng.Intn(3)
		if set.Number == 0 { // a round-0 snapshot carries exactly one transaction
			ntx = 1
		}
		for k := ntx; k > 0; k-- {
			s.Transactions = append(s.Transactions, vC18RandHash(rng))
		}
		for {
			switch hMode {
			case 0:
				set.HMode = "payload-hash"
				s.Hash = s.PayloadHash()
			case 1:
				set.HMode = "random"
				s.Hash = vC18RandHash(rng)
			case 2:
				set.HMode = "shared-prefix"
				s.Hash = proto
				for j := prefix; j < len(s.Hash); j++ {
					s.Hash[j] = byte(rng.Intn(256))
				}
				if prefix == 31 { // only 256 values available
					s.Hash[30] = byte(rng.Intn(4))
				}
			case 3:
				set.HMode = "differ-in-one-byte"
				s.Hash = proto
				s.Hash[rng.Intn(32)] = byte(rng.Intn(256))
				if rng.Intn(2) == 0 {
					s.Hash[rng.Intn(32)] = byte(rng.Intn(256))
				}
			default:
				set.HMode = "high-low-bytes"
				s.Hash = proto
				s.Hash[0] = []byte{0x00, 0x01, 0x7f, 0x80, 0xfe, 0xff}[rng.Intn(6)]
				s.Hash[31] = byte(rng.Intn(256))
				s.Hash[1+rng.Intn(30)] = []byte{0x00, 0x7f, 0x80, 0xff}[rng.Intn(4)]
			}
			if s.Hash.HasValue() && !seen[s.Hash] {
				break
			}
			if hMode == 0 {
				s.Transactions[0] = vC18RandHash(rng)
			}
		}
		seen[s.Hash] = true
		if set.VerMix {
			s.Version = versions[rng.Intn(len(versions))]
		}
		set.Snaps = append(set.Snaps, s)
	}
	return set
}

// ---- implementations under test ----

func vC18Capture(f func() (uint64, uint64, crypto.Hash)) vC18Result {
	var res vC18Result
	panicked, val, stack := verifkit.Guard(func() {
		res.Start, res.End, res.Hash = f()
	})
	if panicked {
		return vC18Result{Panicked: true, PanicVal: fmt.Sprint(val), PanicSite: verifkit.PanicSite(stack)}
	}
	return res
}

var vC18Impls = []string{"common.ComputeRoundHash", "storage.computeRoundHash", "kernel.CacheRound.asFinal"}

func vC18RunImpl(which int, set *vC18Set, order []int, rng *rand.Rand) vC18Result {
	switch which {
	case 0:
		in := make([]*common.Snapshot, len(order))
		for i, j := range order {
			in[i] = set.Snaps[j]
		}
		return vC18Capture(func() (uint64, uint64, crypto.Hash) {
			return common.ComputeRoundHash(set.Node, set.Number, in)
		})
	case 1:
		in := make([]*common.SnapshotWithTopologicalOrder, len(order))
		for i, j := range order {
			in[i] = &common.SnapshotWithTopologicalOrder{Snapshot: set.Snaps[j], TopologicalOrder: rng.Uint64() >> 20}
		}
		return vC18Capture(func() (uint64, uint64, crypto.Hash) {
			return storage.VerifC18ComputeRoundHash(set.Node, set.Number, in)
		})
	default:
		in := make([]*common.Snapshot, len(order))
		for i, j := range order {
			in[i] = set.Snaps[j]
		}
		c := &CacheRound{NodeId: set.Node, Number: set.Number, Snapshots: in, index: newRoundIndexCache()}
		var bad string
		res := vC18Capture(func() (uint64, uint64, crypto.Hash) {
			f := c.asFinal()
			if f == nil {
				bad = "asFinal returned nil for a non-empty round"
				return 0, 0, crypto.Hash{}
			}
			if f.NodeId != set.Node || f.Number != set.Number {
				bad = "asFinal changed node id or round number"
			}
			return f.Start, f.End, f.Hash
		})
		if bad != "" && !res.Panicked {
			return vC18Result{Panicked: true, PanicVal: bad, PanicSite: "kernel.(*CacheRound).asFinal"}
		}
		return res
	}
}

func vC18Orders(n int, rng *rand.Rand) (orders [][]int, full bool) {
	ident := make([]int, n)
	for i := range ident {
		ident[i] = i
	}
	if n <= 6 {
		// Heap's algorithm: all n! orderings
		a := append([]int{}, ident...)
		c := make([]int, n)
		orders = append(orders, append([]int{}, a...))
		for i := 0; i < n; {
			if c[i] < i {
				if i%2 == 0 {
					a[0], a[i] = a[i], a[0]
				} else {
					a[c[i]], a[i] = a[i], a[c[i]]
				}
				orders = append(orders, append([]int{}, a...))
				c[i]++
				i = 0
			} else {
				c[i] = 0
				i++
			}
		}
		return orders, true
	}
	orders = append(orders, ident)
	rev := make([]int, n)
	for i := range rev {
		rev[i] = n - 1 - i
	}
	orders = append(orders, rev)
	for len(orders) < 50 {
		p := rng.Perm(n)
		orders = append(orders, p)
	}
	return orders, false
}

func vC18Witness(set *vC18Set, order []int, extra map[string]any) map[string]any {
	snaps := make([]map[string]any, 0, len(set.Snaps))
	for _, s := range set.Snaps {
		snaps = append(snaps, map[string]any{"hash": s.Hash.String(), "timestamp": s.Timestamp, "version": s.Version})
	}
	w := map[string]any{
		"node": set.Node.String(), "number": set.Number, "snapshots": snaps,
		"timestamp_mode": set.TsMode, "hash_mode": set.HMode, "order": order,
	}
	for k, v := range extra {
		w[k] = v
	}
	return w
}

func vC18Class(set *vC18Set) string {
	if set.HasTies {
		return "equal-timestamps"
	}
	return "distinct-timestamps"
}

func vC18CheckSet(r *verifkit.Run, set *vC18Set, rng *rand.Rand) {
	n := len(set.Snaps)
	ref := vC18Reference(set.Node, set.Number, set.Snaps)
	orders, full := vC18Orders(n, rng)
	// determinism: the first ordering is evaluated a second time at the end
	orders = append(orders, orders[0])
	class := vC18Class(set)

	var first [3]vC18Result
	var reported [3]bool
	for oi, order := range orders {
		var res [3]vC18Result
		for w := 0; w < 3; w++ {
			res[w] = vC18RunImpl(w, set, order, rng)
			if res[w].Panicked {
				if !reported[w] {
					reported[w] = true
					r.Violation(fmt.Sprintf("C18|panic %s|%s|%s", vC18Impls[w], res[w].PanicSite, class),
						fmt.Sprintf("%s failed on a valid round (span < gap, %d snapshots): %s", vC18Impls[w], n, res[w].PanicVal),
						vC18Witness(set, order, map[string]any{"result": res[w].String()}))
				}
				continue
			}
			if oi == 0 {
				first[w] = res[w]
				if !res[w].same(ref) && !reported[w] {
					reported[w] = true
					field := "hash"
					if res[w].Start != ref.Start || res[w].End != ref.End {
						field = "start-end"
					}
					r.Violation(fmt.Sprintf("C18|%s differs from reference|%s|%s", vC18Impls[w], field, class),
						fmt.Sprintf("%s does not equal sort-by-(timestamp,hash) chained Blake3 with start=min end=max", vC18Impls[w]),
						vC18Witness(set, order, map[string]any{"got": res[w].String(), "reference": ref.String()}))
				}
			} else if !res[w].same(first[w]) && !reported[w] {
				reported[w] = true
				what := "order of the supplied snapshots"
				if oi == len(orders)-1 {
					what = "repeated evaluation of the same ordering"
				}
				r.Violation(fmt.Sprintf("C18|%s order-dependent|%s", vC18Impls[w], class),
					fmt.Sprintf("%s result changes with the %s", vC18Impls[w], what),
					vC18Witness(set, order, map[string]any{"first_order": orders[0], "first": first[w].String(), "this": res[w].String()}))
			}
		}
		if !res[0].Panicked && !res[1].Panicked && !res[0].same(res[1]) {
			field := "hash"
			if res[0].Start != res[1].Start || res[0].End != res[1].End {
				field = "start-end"
			}
			r.Violation(fmt.Sprintf("C18|validator and live node disagree|%s|%s", field, class),
				"storage.computeRoundHash (startup validator) and common.ComputeRoundHash (live node) differ on the same ordering of the same set",
				vC18Witness(set, order, map[string]any{"common": res[0].String(), "storage": res[1].String()}))
		}
		if !res[0].Panicked && !res[2].Panicked && !res[0].same(res[2]) {
			r.Violation(fmt.Sprintf("C18|asFinal and ComputeRoundHash disagree|%s", class),
				"CacheRound.asFinal differs from common.ComputeRoundHash on the same ordering of the same set",
				vC18Witness(set, order, map[string]any{"common": res[0].String(), "asFinal": res[2].String()}))
		}
	}

	r.Eval()
	r.Count("orderings_evaluated", len(orders))
	r.Count("implementation_calls", 3*len(orders))
	r.Count("sets_ts_"+set.TsMode, 1)
	r.Count("sets_hash_"+set.HMode, 1)
	if full {
		r.Count("sets_all_permutations", 1)
	} else {
		r.Count("sets_50_orderings", 1)
	}
	if set.HasTies {
		r.Count("sets_with_equal_timestamps", 1)
	}
	if set.VerMix {
		r.Count("sets_version_mix", 1)
	}
	if ref.End-ref.Start == config.SnapshotRoundGap-1 {
		r.Count("sets_span_gap_minus_1", 1)
	}
	if n >= 2 {
		r.Nontrivial(hex.EncodeToString(ref.Hash[:16]))
	} else {
		r.Count("sets_single_snapshot", 1)
	}
	if r.SampleCount() < 6 && n >= 2 && n <= 5 {
		r.Sample(vC18Witness(set, orders[1], map[string]any{
			"orderings": len(orders), "reference": ref.String(), "common": first[0].String(),
			"storage": first[1].String(), "asFinal": first[2].String(),
		}))
	}
}

func TestVerif_C18(t *testing.T) {
	r := verifkit.Start(t, "C18", "exploration")
	r.SetRule("seeded random snapshot sets: n in 1..64 (20% 1-3, 35% 4-6, 25% 7-16, 20% 17-64); timestamps all-equal / few values / random within the gap / extremes 0 and gap-1 / consecutive ns / pairs; hashes = real v2 payload hashes, random, shared prefixes, one-byte differences, high/low byte patterns; one third with version mixes {0,1,2,3,255}; every permutation for n<=6, 50 orderings (identity, reverse, 48 random) otherwise, first ordering repeated. Non-trivial = set with >= 2 snapshots (so that more than one ordering exists); distinct by the reference round hash.")
	r.Assume("github.com/zeebo/blake3 (streaming hasher) is trusted as the Blake3 reference; the repository reaches the same library through blake3.Sum256")
	r.Assume("sets are restricted to the domain of final rounds: non-empty, distinct snapshot hashes, end-start < SnapshotRoundGap (C19); beyond it both implementations panic by design")
	r.Assume("function-level differential: the Badger read paths that feed the two implementations (readSnapshotsForNodeRound, loadFinalRoundForNode) are not part of this check")
	r.SetFloor(50)

	total := r.N(5000, 400000)
	const workers = 8
	var wg sync.WaitGroup
	for w := 0; w < workers; w++ {
		wg.Add(1)
		go func(w int) {
			defer wg.Done()
			rng := r.Fork("C18-worker", w)
			for i := w; i < total; i += workers {
				set := vC18GenSet(rng)
				vC18CheckSet(r, set, rng)
			}
		}(w)
	}
	wg.Wait()
	r.Finish()
}
