package kernel

import (
	"encoding/binary"
	"fmt"
	"math/big"
	"math/rand"
	"sort"
	"strings"
	"testing"
	"time"

	"github.com/MixinNetwork/mixin/common"
	"github.com/MixinNetwork/mixin/config"
	"github.com/MixinNetwork/mixin/crypto"
	"github.com/MixinNetwork/mixin/storage"
	"github.com/MixinNetwork/mixin/verifgen"
	"github.com/MixinNetwork/mixin/verifkit"
)

// C25: mint schedule and distribution are bounded, exact and work-monotone.
//
// Part S (schedule, exhaustive over batches 1..vC25Horizon): mintBatchSize is
// observed for every batch; the monitor keeps its own running total in math/big
// and demands non-increase, total <= pool, and mintMultiBatchesSize(a,b) equal
// to the harness' own sum of the observed single batches.
//
// Part D (distribution): a kernel.Node with 7..50 accepted members whose
// persistStore is a proxy returning harness-chosen work vectors.
// distributeKernelMintByWorks and buildUniversalMintTransaction are run; the
// outputs are attributed to nodes by *key ownership* (the harness owns every
// payee view key and the custodian view key) and judged with math/big.

const (
	vC25Horizon  = 36500 // 100 years of daily batches
	vC25MaxNodes = config.KernelMaximumNodesCount
	vC25MinNodes = config.KernelMinimumNodesCount
)

type vC25Ident struct {
	signer common.Address
	payee  common.Address
	id     crypto.Hash
}

// vC25Store answers exactly the storage calls the mint construction makes. Any
// other call hits the nil embedded interface and panics, which the monitor
// reports as inconclusive (the harness would no longer match the code).
type vC25Store struct {
	storage.Store
	dayToday  uint32
	today     map[crypto.Hash][2]uint64
	yesterday map[crypto.Hash][2]uint64
	spaces    map[crypto.Hash]uint64 // aggregated checkpoint batch per node
	dist      *common.MintDistribution
	last      *common.Snapshot
	otherDays int
}

func (s *vC25Store) ListNodeWorks(cids []crypto.Hash, day uint32) (map[crypto.Hash][2]uint64, error) {
	var src map[crypto.Hash][2]uint64
	switch day {
	case s.dayToday:
		src = s.today
	case s.dayToday - 1:
		src = s.yesterday
	default:
		s.otherDays++
	}
	out := make(map[crypto.Hash][2]uint64, len(cids))
	for _, id := range cids {
		out[id] = src[id]
	}
	return out, nil
}

func (s *vC25Store) ListAggregatedRoundSpaceCheckpoints(cids []crypto.Hash) (map[crypto.Hash]*common.RoundSpace, error) {
	out := make(map[crypto.Hash]*common.RoundSpace, len(cids))
	for _, id := range cids {
		out[id] = &common.RoundSpace{NodeId: id, Batch: s.spaces[id]}
	}
	return out, nil
}

func (s *vC25Store) ReadNodeRoundSpacesForBatch(nodeId crypto.Hash, batch uint64) ([]*common.RoundSpace, error) {
	return nil, nil
}

func (s *vC25Store) ReadLastMintDistribution(batch uint64) (*common.MintDistribution, error) {
	return s.dist, nil
}

func (s *vC25Store) ReadLastConsensusSnapshot() (*common.Snapshot, error) {
	return s.last, nil
}

func vC25SortRecords(recs []*CNode) {
	sort.SliceStable(recs, func(i, j int) bool {
		if recs[i].Timestamp != recs[j].Timestamp {
			return recs[i].Timestamp < recs[j].Timestamp
		}
		return recs[i].IdForNetwork.String() < recs[j].IdForNetwork.String()
	})
}

// vC25Membership is one membership history and the node built over it.
type vC25Membership struct {
	node     *Node
	store    *vC25Store
	accepted []*vC25Ident // harness' own view: members accepted at mint time
	genesis  int
	later    int
	removed  int
}

// vC25BuildMembership makes n accepted members at any time later than day 200:
// g genesis nodes, the rest pledged+accepted during the first 100 days, plus
// `removed` extra genesis nodes that were removed before day 200.
func vC25BuildMembership(rng *rand.Rand, pool []*vC25Ident, networkId crypto.Hash, epoch uint64, n int) *vC25Membership {
	perm := rng.Perm(len(pool))
	removed := 0
	if rng.Intn(3) == 0 {
		removed = 1 + rng.Intn(3)
	}
	if n+removed > len(pool) {
		removed = len(pool) - n
	}
	g := n
	if rng.Intn(2) == 0 && n > vC25MinNodes {
		g = vC25MinNodes + rng.Intn(n-vC25MinNodes+1)
	}
	m := &vC25Membership{genesis: g, later: n - g, removed: removed}
	var recs []*CNode
	gmap := make(map[crypto.Hash]bool)
	hour := uint64(time.Hour)
	k := 0
	for i := 0; i < g+removed; i++ {
		id := pool[perm[k]]
		k++
		gmap[id.id] = true
		recs = append(recs, &CNode{IdForNetwork: id.id, Signer: id.signer, Payee: id.payee,
			Transaction: crypto.Blake3Hash(append([]byte("c25-genesis"), id.id[:]...)),
			Timestamp:   epoch, State: common.NodeStateAccepted})
		if i < g {
			m.accepted = append(m.accepted, id)
		} else {
			// removed on distinct days 101..199 inside the node-operation window
			ts := epoch + uint64(101+i)*OneDay + 15*hour + uint64(rng.Intn(3600))*uint64(time.Second)
			recs = append(recs, &CNode{IdForNetwork: id.id, Signer: id.signer, Payee: id.payee,
				Transaction: crypto.Blake3Hash(append([]byte("c25-remove"), id.id[:]...)),
				Timestamp:   ts, State: common.NodeStateRemoved})
		}
	}
	for i := 0; i < n-g; i++ {
		id := pool[perm[k]]
		k++
		d := uint64(1 + 2*i)
		pt := epoch + d*OneDay + 3*hour + uint64(rng.Intn(3600))*uint64(time.Second)
		at := epoch + (d+1)*OneDay + 14*hour + uint64(rng.Intn(3600))*uint64(time.Second)
		recs = append(recs, &CNode{IdForNetwork: id.id, Signer: id.signer, Payee: id.payee,
			Transaction: crypto.Blake3Hash(append([]byte("c25-pledge"), id.id[:]...)),
			Timestamp:   pt, State: common.NodeStatePledging})
		recs = append(recs, &CNode{IdForNetwork: id.id, Signer: id.signer, Payee: id.payee,
			Transaction: crypto.Blake3Hash(append([]byte("c25-accept"), id.id[:]...)),
			Timestamp:   at, State: common.NodeStateAccepted})
		m.accepted = append(m.accepted, id)
	}
	vC25SortRecords(recs)
	// the harness' member list in (accept time, id) order
	at := make(map[crypto.Hash]uint64)
	for _, rec := range recs {
		at[rec.IdForNetwork] = rec.Timestamp
	}
	sort.SliceStable(m.accepted, func(i, j int) bool {
		a, b := m.accepted[i], m.accepted[j]
		if at[a.id] != at[b.id] {
			return at[a.id] < at[b.id]
		}
		return a.id.String() < b.id.String()
	})
	st := &vC25Store{last: &common.Snapshot{
		Version:      common.SnapshotVersionCommonEncoding,
		Transactions: []crypto.Hash{crypto.Blake3Hash([]byte("c25-last-consensus"))},
	}}
	node := &Node{
		Epoch:                   epoch,
		networkId:               networkId,
		allNodesSortedWithState: recs,
		genesisNodesMap:         gmap,
		persistStore:            st,
	}
	node.nodeStateSequences = node.buildNodeStateSequences(recs, false)
	node.acceptedNodeStateSequences = node.buildNodeStateSequences(recs, true)
	m.node, m.store = node, st
	return m
}

// ---- work vector generator ----

var vC25Extremes = []uint64{1 << 63, ^uint64(0), 1<<63 - 1, 1 << 62, 1 << 40, 1 << 32, 1<<32 - 1}

func vC25Works(rng *rand.Rand, n, thr int) (kind string, w [][2]uint64) {
	w = make([][2]uint64, n)
	small := func() uint64 { return uint64(rng.Intn(2000)) }
	switch k := rng.Intn(12); k {
	case 0:
		kind = "all-equal"
		a, b := uint64(1+rng.Intn(5000)), uint64(rng.Intn(100000))
		for i := range w {
			w[i] = [2]uint64{a, b}
		}
	case 1:
		kind = "uniform-small"
		for i := range w {
			w[i] = [2]uint64{small(), small() * uint64(1+rng.Intn(n))}
		}
	case 2, 3:
		kind = "threshold-edge-zeros"
		// exactly v working nodes, v around the consensus threshold
		v := thr - 1 + rng.Intn(3)
		if rng.Intn(4) == 0 {
			v = thr
		}
		if v > n {
			v = n
		}
		if v < 0 {
			v = 0
		}
		for _, i := range rng.Perm(n)[:v] {
			w[i] = [2]uint64{uint64(rng.Intn(300)), uint64(rng.Intn(3000))}
			if w[i][0] == 0 && w[i][1] == 0 {
				w[i][1] = 1
			}
		}
	case 4:
		kind = "extreme-outliers"
		for i := range w {
			w[i] = [2]uint64{small(), small()}
		}
		for c := 1 + rng.Intn(3); c > 0; c-- {
			i := rng.Intn(n)
			w[i][rng.Intn(2)] = vC25Extremes[rng.Intn(len(vC25Extremes))]
		}
	case 5:
		kind = "ties-few-values"
		vals := [][2]uint64{{0, 0}, {small(), small()}, {small(), small()}, {1, 0}, {0, 1}}
		for i := range w {
			w[i] = vals[rng.Intn(len(vals))]
		}
	case 6:
		kind = "geometric-spread"
		base := uint64(1 + rng.Intn(5))
		f := uint64(2 + rng.Intn(8))
		v := base
		for _, i := range rng.Perm(n) {
			w[i] = [2]uint64{0, v}
			if rng.Intn(2) == 0 {
				w[i] = [2]uint64{v, 0}
			}
			if v < 1<<55 {
				v *= f
			}
		}
	case 7:
		kind = "realistic"
		lead := uint64(100 + rng.Intn(5000))
		for i := range w {
			l := lead + uint64(rng.Intn(200))
			if rng.Intn(6) == 0 {
				l = uint64(rng.Intn(int(lead)))
			}
			w[i] = [2]uint64{l, l * uint64(thr) / 2 * uint64(1+rng.Intn(3))}
		}
	case 8:
		kind = "lead-only"
		for i := range w {
			w[i] = [2]uint64{small(), 0}
		}
	case 9:
		kind = "sign-only"
		for i := range w {
			w[i] = [2]uint64{0, small()}
		}
	case 10:
		kind = "all-extreme"
		for i := range w {
			w[i] = [2]uint64{vC25Extremes[rng.Intn(len(vC25Extremes))], vC25Extremes[rng.Intn(len(vC25Extremes))]}
		}
	default:
		kind = "around-average-bands"
		// values placed around a, a/7 and 7a so that every branch of the
		// piecewise curve and its rounding edges are exercised
		a := uint64(7 * (1 + rng.Intn(100000)))
		cands := []uint64{a, a - 1, a + 1, a / 7, a/7 - 1, a/7 + 1, 7 * a, 7*a - 1, 7*a + 1, 0, 1, 2 * a, a / 2}
		for i := range w {
			w[i] = [2]uint64{0, cands[rng.Intn(len(cands))]}
			if rng.Intn(3) == 0 {
				w[i] = [2]uint64{cands[rng.Intn(len(cands))] / 6 * 5, 0} // x*120/100 of a multiple of 5 is exact
			}
		}
	}
	return
}

// ---- schedule table (filled by part S, used as reference by part D) ----

type vC25Schedule struct {
	size   []*big.Int // size[b] = observed mintBatchSize(b) in 1e-8 units, b in 0..horizon
	prefix []*big.Int // prefix[b] = size[1]+...+size[b] in math/big
}

func (s *vC25Schedule) sum(old, batch uint64) *big.Int {
	return new(big.Int).Sub(s.prefix[batch], s.prefix[old])
}

func vC25RunSchedule(r *verifkit.Run, rng *rand.Rand) *vC25Schedule {
	sch := &vC25Schedule{size: make([]*big.Int, vC25Horizon+1), prefix: make([]*big.Int, vC25Horizon+1)}
	pool := verifgen.UnitsOf(MintPool)
	total := new(big.Int)
	sch.prefix[0] = new(big.Int)
	var prev *big.Int
	distinctAmounts := 0
	for b := uint64(0); b <= vC25Horizon; b++ {
		var amt common.Integer
		panicked, val, stack := verifkit.Guard(func() { amt = mintBatchSize(b) })
		if panicked {
			r.Violation("C25|schedule|panic "+verifkit.PanicSite(stack), fmt.Sprintf("mintBatchSize(%d) panicked inside the schedule horizon: %v", b, val),
				map[string]any{"batch": b, "panic": fmt.Sprint(val)})
			sch.size[b] = new(big.Int)
			if b > 0 {
				sch.prefix[b] = new(big.Int).Set(sch.prefix[b-1])
			}
			continue
		}
		u := verifgen.UnitsOf(amt)
		sch.size[b] = u
		if b == 0 {
			prev = u
			continue
		}
		r.Eval()
		r.Nontrivial(fmt.Sprintf("S|%d", b))
		r.Count("schedule_batches", 1)
		if u.Cmp(prev) > 0 {
			r.Violation("C25|schedule|batch amount increases", fmt.Sprintf("mintBatchSize(%d)=%s > mintBatchSize(%d)=%s", b, amt, b-1, verifgen.Units(prev)),
				map[string]any{"batch": b, "amount_units": u.String(), "previous_units": prev.String()})
		}
		if u.Cmp(prev) != 0 {
			distinctAmounts++
		}
		prev = u
		total.Add(total, u)
		sch.prefix[b] = new(big.Int).Set(total)
		if total.Cmp(pool) > 0 {
			r.Violation("C25|schedule|cumulative total exceeds pool", fmt.Sprintf("sum of batches 1..%d = %s units exceeds the mint pool %s", b, total, MintPool),
				map[string]any{"batch": b, "total_units": total.String(), "pool_units": pool.String()})
		}
	}
	r.Note("schedule_horizon_batches", vC25Horizon)
	r.Note("schedule_enumerated_completely", true)
	r.Note("schedule_distinct_amount_steps", distinctAmounts)
	r.Note("schedule_total_units_at_horizon", total.String())
	r.Note("schedule_first_amount", verifgen.Units(sch.size[1]).String())
	r.Note("schedule_last_amount", verifgen.Units(sch.size[vC25Horizon]).String())

	checkMulti := func(old, batch uint64, class string) {
		r.Eval()
		r.Count("multi_"+class, 1)
		var amt common.Integer
		panicked, val, stack := verifkit.Guard(func() { amt = mintMultiBatchesSize(old, batch) })
		if panicked {
			r.Violation("C25|multi|panic "+verifkit.PanicSite(stack), fmt.Sprintf("mintMultiBatchesSize(%d,%d) panicked: %v", old, batch, val),
				map[string]any{"old": old, "batch": batch, "panic": fmt.Sprint(val)})
			return
		}
		want := sch.sum(old, batch)
		if got := verifgen.UnitsOf(amt); got.Cmp(want) != 0 {
			r.Violation("C25|multi|multi-batch amount differs from the sum of its batches",
				fmt.Sprintf("mintMultiBatchesSize(%d,%d)=%s units, sum of mintBatchSize(%d..%d)=%s units", old, batch, got, old+1, batch, want),
				map[string]any{"old": old, "batch": batch, "got_units": got.String(), "sum_units": want.String(), "class": class})
		}
		r.Nontrivial(fmt.Sprintf("M|%d|%d", old, batch))
	}
	// every adjacent pair (exhaustive), every window straddling a year boundary
	for b := uint64(1); b <= vC25Horizon; b++ {
		checkMulti(b-1, b, "adjacent")
	}
	for y := uint64(1); y*MintYearDays <= vC25Horizon; y++ {
		e := y * MintYearDays
		lo, hi := e-uint64(1+rng.Intn(5)), e+uint64(rng.Intn(5))
		if hi > vC25Horizon {
			hi = vC25Horizon
		}
		checkMulti(lo, hi, "year-boundary")
	}
	nSmall, nLarge := r.N(400, 6000), r.N(5, 120)
	for i := 0; i < nSmall; i++ {
		span := uint64(1 + rng.Intn(400))
		old := uint64(rng.Intn(vC25Horizon - int(span) + 1))
		checkMulti(old, old+span, "random-short")
	}
	for i := 0; i < nLarge; i++ {
		old := uint64(rng.Intn(vC25Horizon))
		batch := old + 1 + uint64(rng.Intn(vC25Horizon-int(old)))
		checkMulti(old, batch, "random-long")
	}
	checkMulti(0, vC25Horizon, "whole-horizon")
	r.Sample(map[string]any{"part": "schedule", "batch": 1707, "amount": verifgen.Units(sch.size[1707]).String(),
		"multi_1706_1708": verifgen.Units(sch.sum(1706, 1708)).String()})
	return sch
}

// ---- distribution ----

type vC25Case struct {
	n       int
	batch   uint64
	old     uint64
	ts      uint64
	kind    string
	works   [][2]uint64 // aligned with mem.accepted
	ready   bool
	amountU *big.Int
}

func (c *vC25Case) key() string {
	var sb strings.Builder
	fmt.Fprintf(&sb, "D|%d|%d|%d|", c.n, c.batch, c.old)
	buf := make([]byte, 16)
	for _, w := range c.works {
		binary.BigEndian.PutUint64(buf, w[0])
		binary.BigEndian.PutUint64(buf[8:], w[1])
		sb.Write(buf)
	}
	return sb.String()
}

func (c *vC25Case) witness(mem *vC25Membership, recv []*big.Int) map[string]any {
	ws := make([]string, len(c.works))
	for i, w := range c.works {
		s := fmt.Sprintf("%s lead=%d sign=%d", mem.accepted[i].id.String()[:8], w[0], w[1])
		if recv != nil && recv[i] != nil {
			s += " out_units=" + recv[i].String()
		}
		ws[i] = s
	}
	return map[string]any{"nodes": c.n, "genesis": mem.genesis, "accepted_later": mem.later, "removed": mem.removed,
		"batch": c.batch, "last_distribution_batch": c.old, "timestamp": c.ts, "epoch": mem.node.Epoch,
		"amount_units": c.amountU.String(), "vector_kind": c.kind, "works": ws}
}

// vC25Dominates: node a did at least as much leading work and at least as much
// signing work as node b (so it has "more work" under any weighting).
func vC25Dominates(a, b [2]uint64) bool { return a[0] >= b[0] && a[1] >= b[1] }

// vC25Monotone returns the first pair (i, j) with works[i] >= works[j] componentwise but recv[i] < recv[j].
func vC25Monotone(works [][2]uint64, recv []*big.Int) (int, int, bool) {
	for i := range works {
		for j := range works {
			if i != j && vC25Dominates(works[i], works[j]) && recv[i].Cmp(recv[j]) < 0 {
				return i, j, false
			}
		}
	}
	return 0, 0, true
}

func vC25WorkClass(c *vC25Case, i, j int) string {
	cl := func(w [2]uint64) string {
		switch {
		case w[0] == 0 && w[1] == 0:
			return "zero"
		case w[0] >= 1<<32 || w[1] >= 1<<32:
			return "outlier"
		default:
			return "ordinary"
		}
	}
	return cl(c.works[i]) + ">=" + cl(c.works[j])
}

func TestVerif_C25(t *testing.T) {
	r := verifkit.Start(t, "C25", "exploration")
	r.SetRule("schedule: every batch 1..36500 (mintBatchSize) and every adjacent pair, all year-boundary windows and seeded random (old,batch) windows (mintMultiBatchesSize), each batch/window one distinct case; " +
		"distribution: seeded memberships of 7..50 accepted nodes (genesis, later accepted, removed) x work/sign vectors (equal, ties, zeros at the consensus-threshold edge, outliers up to 2^64-1, geometric spreads, values at the a/7, a, 7a band edges) x batch 1707..36500 x 1..40 skipped batches; " +
		"non-trivial = the code produced a distribution (not a refusal) for a distinct (membership size, batch window, work vector)")
	r.Assume("math/big is the arithmetic reference; Integer.String is the observation channel for amounts (checked by C33)")
	r.Assume("work counters are delivered through a storage.Store proxy; the proxy answers ListNodeWorks/ListAggregatedRoundSpaceCheckpoints/ReadNodeRoundSpacesForBatch/ReadLastMintDistribution/ReadLastConsensusSnapshot the way BadgerStore shapes its answers (one entry per requested id)")
	r.Assume("'more work' is judged componentwise (lead work and sign work both >=), which is implied by any positive weighting of the two counters")
	r.Assume("outputs are attributed to nodes and to the custodian by key ownership (ViewGhostOutputKey with the harness-owned view keys), not by position")
	rng := r.Rand()

	t0 := time.Now()
	sch := vC25RunSchedule(r, rng)
	r.Note("wall_schedule_s", time.Since(t0).Seconds())
	t0 = time.Now()

	// identities
	networkId := crypto.Blake3Hash([]byte("verif-c25-network"))
	pool := make([]*vC25Ident, vC25MaxNodes+4)
	for i := range pool {
		s := verifgen.NodeAddr(fmt.Sprintf("c25:signer:%d", i))
		p := verifgen.NodeAddr(fmt.Sprintf("c25:payee:%d", i))
		pool[i] = &vC25Ident{signer: s, payee: p, id: s.Hash().ForNetwork(networkId)}
	}
	custodian := verifgen.Addr("c25:custodian")
	cur := &common.CustodianUpdateRequest{Custodian: &custodian}
	payeeIndex := make(map[crypto.Key]int) // public spend key -> pool index, for reports only

	nDirect := r.N(30000, 500000)
	nTx := r.N(1200, 40000)
	perMembership := 40
	sizes := vC25MaxNodes - vC25MinNodes + 1

	var mem *vC25Membership
	memCount := 0
	newMembership := func() {
		n := vC25MinNodes + memCount%sizes
		memCount++
		epochDay := uint64(17000 + rng.Intn(3000))
		mem = vC25BuildMembership(rng, pool, networkId, epochDay*OneDay, n)
		r.Count("memberships", 1)
		for k := range payeeIndex {
			delete(payeeIndex, k)
		}
		for i, id := range mem.accepted {
			payeeIndex[id.payee.PublicSpendKey] = i
		}
	}

	prepare := func() *vC25Case {
		n := len(mem.accepted)
		c := &vC25Case{n: n}
		c.batch = uint64(KernelNetworkLegacyEnding + 1 + rng.Intn(vC25Horizon-KernelNetworkLegacyEnding))
		if rng.Intn(4) == 0 { // near a year boundary
			y := uint64(5 + rng.Intn(95))
			c.batch = y*MintYearDays + uint64(rng.Intn(4))
		}
		if c.batch > vC25Horizon {
			c.batch = vC25Horizon
		}
		gap := uint64(1)
		switch rng.Intn(6) {
		case 0:
			gap = uint64(1 + rng.Intn(40))
		case 1:
			gap = uint64(2 + rng.Intn(3))
		}
		if c.batch-gap < KernelNetworkLegacyEnding {
			gap = c.batch - KernelNetworkLegacyEnding
		}
		c.old = c.batch - gap
		hour := uint64(config.KernelMintTimeBegin + rng.Intn(config.KernelMintTimeEnd-config.KernelMintTimeBegin+1))
		c.ts = mem.node.Epoch + c.batch*OneDay + hour*uint64(time.Hour) + uint64(rng.Int63n(int64(time.Hour)))
		c.amountU = sch.sum(c.old, c.batch)

		thr := mem.node.ConsensusThreshold(c.ts, false)
		if thr > n {
			r.Inconclusive(fmt.Sprintf("consensus threshold %d above membership size %d: the membership generator no longer matches the code", thr, n))
			thr = n
		}
		c.kind, c.works = vC25Works(rng, n, thr)

		st := mem.store
		st.dayToday = uint32(c.ts / OneDay)
		st.yesterday = make(map[crypto.Hash][2]uint64, n)
		st.today = make(map[crypto.Hash][2]uint64, n)
		st.spaces = make(map[crypto.Hash]uint64, n)
		for i, id := range mem.accepted {
			st.yesterday[id.id] = c.works[i]
		}
		// today's aggregation state: mostly "ready" (>= thr nodes lead today and
		// have their round-space checkpoint at this batch), sometimes not
		c.ready = rng.Intn(12) != 0
		working := thr + rng.Intn(n-thr+1)
		if !c.ready {
			working = rng.Intn(thr)
		}
		for k, i := range rng.Perm(n) {
			id := mem.accepted[i].id
			if k < working {
				st.today[id] = [2]uint64{uint64(1 + rng.Intn(500)), uint64(rng.Intn(5000))}
				st.spaces[id] = c.batch + uint64(rng.Intn(2))
			} else {
				st.today[id] = [2]uint64{0, uint64(rng.Intn(5000))}
				st.spaces[id] = c.batch - 1
			}
		}
		st.dist = &common.MintDistribution{
			MintData:    common.MintData{Group: "UNIVERSAL", Batch: c.old, Amount: verifgen.Units(sch.size[c.old])},
			Transaction: crypto.Blake3Hash([]byte(fmt.Sprintf("c25-mint-%d", c.old))),
		}
		return c
	}

	// judge: recv[i] is what accepted[i] received out of a batch of `amount` units.
	judge := func(c *vC25Case, path string, recv []*big.Int, amount *big.Int) (kernelSum *big.Int) {
		kernelSum = new(big.Int)
		for _, v := range recv {
			kernelSum.Add(kernelSum, v)
		}
		// kernel share <= 1/2  <=>  2*kernelSum <= amount
		if new(big.Int).Lsh(kernelSum, 1).Cmp(amount) > 0 {
			r.Violation("C25|"+path+"|kernel-node share above half", fmt.Sprintf("kernel nodes receive %s units of a %s unit batch", kernelSum, amount), c.witness(mem, recv))
		}
		for i, v := range recv {
			if v.Sign() <= 0 {
				r.Violation("C25|"+path+"|node receives nothing|"+vC25WorkClass(c, i, i), fmt.Sprintf("node %d (lead=%d sign=%d) receives %s units", i, c.works[i][0], c.works[i][1], v), c.witness(mem, recv))
				break
			}
		}
		if i, j, ok := vC25Monotone(c.works, recv); !ok {
			r.Violation("C25|"+path+"|more work receives less|"+vC25WorkClass(c, i, j),
				fmt.Sprintf("node %d (lead=%d sign=%d) receives %s units, node %d (lead=%d sign=%d) receives %s units",
					i, c.works[i][0], c.works[i][1], recv[i], j, c.works[j][0], c.works[j][1], recv[j]), c.witness(mem, recv))
		}
		// and by the combined work the distribution is defined on: lead*120/100 + sign
		total := func(w [2]uint64) *big.Int {
			// in 1e-8 units of the fixed-point amounts the kernel computes with: lead*1.2 + sign
			t := new(big.Int).Mul(new(big.Int).SetUint64(w[0]), big.NewInt(120000000))
			return t.Add(t, new(big.Int).Mul(new(big.Int).SetUint64(w[1]), big.NewInt(100000000)))
		}
	outer:
		for i := range c.works {
			for j := range c.works {
				if i != j && total(c.works[i]).Cmp(total(c.works[j])) >= 0 && recv[i].Cmp(recv[j]) < 0 {
					r.Violation("C25|"+path+"|more combined work receives less|"+vC25WorkClass(c, i, j),
						fmt.Sprintf("node %d (lead=%d sign=%d, combined %s) receives %s units, node %d (lead=%d sign=%d, combined %s) receives %s units",
							i, c.works[i][0], c.works[i][1], total(c.works[i]), recv[i], j, c.works[j][0], c.works[j][1], total(c.works[j]), recv[j]), c.witness(mem, recv))
					break outer
				}
			}
		}
		return kernelSum
	}

	harnessPanic := func(val any, stack string) bool {
		site := verifkit.PanicSite(stack)
		if site == "unknown" || strings.Contains(stack, "vC25Store") && strings.Contains(fmt.Sprint(val), "nil pointer") {
			r.Inconclusive(fmt.Sprintf("the code called a storage method the C25 proxy does not model: %v", val))
			return true
		}
		return false
	}

	// ---- direct calls of distributeKernelMintByWorks ----
	for i := 0; i < nDirect; i++ {
		if i%perMembership == 0 {
			newMembership()
		}
		c := prepare()
		// the prerequisite (today's aggregation) is not part of the property
		// for the direct path: always ready
		if !c.ready {
			for _, id := range mem.accepted {
				mem.store.today[id.id] = [2]uint64{1, 1}
				mem.store.spaces[id.id] = c.batch
			}
			c.ready = true
		}
		r.Eval()
		r.Count("direct_calls", 1)
		accepted := mem.node.NodesListWithoutState(c.ts, true)
		if len(accepted) != c.n {
			r.Inconclusive(fmt.Sprintf("membership generator and node disagree on the accepted set: %d vs %d", len(accepted), c.n))
			break
		}
		baseU := new(big.Int).Div(c.amountU, big.NewInt(10))
		baseU.Mul(baseU, big.NewInt(5))
		var mints []*CNodeWork
		var err error
		panicked, val, stack := verifkit.Guard(func() {
			mints, err = mem.node.distributeKernelMintByWorks(accepted, verifgen.Units(baseU), c.ts)
		})
		if panicked {
			if harnessPanic(val, stack) {
				break
			}
			r.Violation("C25|direct|panic "+verifkit.PanicSite(stack), fmt.Sprintf("distributeKernelMintByWorks panicked: %v", val), c.witness(mem, nil))
			continue
		}
		if err != nil {
			r.Count("direct_refused", 1)
			r.Count("direct_refused_"+c.kind, 1)
			continue
		}
		r.Count("direct_distributed", 1)
		r.Count("kind_"+c.kind, 1)
		byId := make(map[crypto.Hash]*big.Int, len(mints))
		for _, m := range mints {
			u := verifgen.UnitsOf(m.Work)
			if old, ok := byId[m.IdForNetwork]; ok {
				u = new(big.Int).Add(u, old)
			}
			byId[m.IdForNetwork] = u
		}
		recv := make([]*big.Int, c.n)
		for k, id := range mem.accepted {
			recv[k] = byId[id.id]
			if recv[k] == nil {
				recv[k] = new(big.Int)
			}
		}
		judge(c, "direct", recv, c.amountU)
		r.Nontrivial(c.key())
		if i%9973 == 0 && r.SampleCount() < 4 {
			r.Sample(c.witness(mem, recv))
		}
	}

	r.Note("wall_direct_s", time.Since(t0).Seconds())
	t0 = time.Now()

	// ---- full mint transaction ----
	for i := 0; i < nTx; i++ {
		if i%perMembership == 0 {
			newMembership()
		}
		c := prepare()
		r.Eval()
		r.Count("tx_calls", 1)
		var ver *common.VersionedTransaction
		panicked, val, stack := verifkit.Guard(func() {
			ver = mem.node.buildUniversalMintTransaction(cur, c.ts, false)
		})
		if panicked {
			if harnessPanic(val, stack) {
				break
			}
			r.Violation("C25|tx|panic "+verifkit.PanicSite(stack), fmt.Sprintf("buildUniversalMintTransaction panicked: %v", val), c.witness(mem, nil))
			continue
		}
		if ver == nil {
			r.Count("tx_refused", 1)
			if !c.ready {
				r.Count("tx_refused_aggregation_not_ready", 1)
			}
			continue
		}
		r.Count("tx_built", 1)
		if !c.ready {
			r.Count("tx_built_although_not_ready", 1)
		}
		if len(ver.Inputs) != 1 || ver.Inputs[0].Mint == nil {
			r.Violation("C25|tx|no mint input", "the built transaction has no single mint input", c.witness(mem, nil))
			continue
		}
		mintAmount := verifgen.UnitsOf(ver.Inputs[0].Mint.Amount)
		recv := make([]*big.Int, c.n)
		for k := range recv {
			recv[k] = new(big.Int)
		}
		custodianSum, otherSum, total := new(big.Int), new(big.Int), new(big.Int)
		for oi, o := range ver.Outputs {
			u := verifgen.UnitsOf(o.Amount)
			total.Add(total, u)
			owner, class := -1, "remainder"
			if len(o.Keys) == 1 {
				try := func(k int) bool {
					a := mem.accepted[k].payee
					return *crypto.ViewGhostOutputKey(o.Keys[0], &a.PrivateViewKey, &o.Mask, uint64(oi)) == a.PublicSpendKey
				}
				if oi < c.n && try(oi) {
					owner = oi
				} else if *crypto.ViewGhostOutputKey(o.Keys[0], &custodian.PrivateViewKey, &o.Mask, uint64(oi)) == custodian.PublicSpendKey {
					owner = -2
				} else if o.Script.String() != "fffe40" {
					for k := range mem.accepted {
						if try(k) {
							owner = k
							r.Count("tx_outputs_out_of_position", 1)
							break
						}
					}
				}
			}
			switch {
			case owner >= 0:
				class = "node"
				recv[owner].Add(recv[owner], u)
			case owner == -2:
				class = "custodian"
				custodianSum.Add(custodianSum, u)
			default:
				otherSum.Add(otherSum, u)
			}
			if u.Sign() <= 0 {
				r.Violation("C25|tx|output not positive|"+class, fmt.Sprintf("output %d (%s) carries %s units", oi, class, u), c.witness(mem, nil))
			}
		}
		r.Count("tx_outputs", len(ver.Outputs))
		judge(c, "tx", recv, mintAmount)
		if mintAmount.Cmp(c.amountU) != 0 {
			r.Violation("C25|tx|mint amount differs from the sum of its batches", fmt.Sprintf("mint input amount %s units, batches %d..%d sum to %s units", mintAmount, c.old+1, c.batch, c.amountU), c.witness(mem, recv))
		}
		if total.Cmp(mintAmount) != 0 {
			r.Violation("C25|tx|outputs do not sum to the batch amount", fmt.Sprintf("outputs sum to %s units, mint input is %s units", total, mintAmount), c.witness(mem, recv))
		}
		wantCust := new(big.Int).Div(mintAmount, big.NewInt(10))
		wantCust.Mul(wantCust, big.NewInt(4))
		if custodianSum.Cmp(wantCust) != 0 {
			r.Violation("C25|tx|custodian share is not 4*floor(amount/10)", fmt.Sprintf("custodian receives %s units, 4*floor(%s/10)=%s", custodianSum, mintAmount, wantCust), c.witness(mem, recv))
		}
		r.Nontrivial("T" + c.key())
		if gap := c.batch - c.old; gap > 1 {
			r.Count("tx_multi_batch", 1)
		}
		if i%997 == 0 && r.SampleCount() < 6 {
			w := c.witness(mem, recv)
			w["path"] = "buildUniversalMintTransaction"
			w["outputs"] = len(ver.Outputs)
			w["custodian_units"] = custodianSum.String()
			r.Sample(w)
		}
	}
	r.Note("wall_tx_s", time.Since(t0).Seconds())
	r.Note("store_calls_for_unmodelled_days", func() int {
		if mem == nil {
			return 0
		}
		return mem.store.otherDays
	}())
	if r.Counter("direct_distributed") < int64(nDirect/4) || r.Counter("tx_built") < int64(nTx/4) {
		r.Inconclusive(fmt.Sprintf("too few distributions were produced: direct %d of %d, tx %d of %d",
			r.Counter("direct_distributed"), nDirect, r.Counter("tx_built"), nTx))
	}
	// on a live node: a mint that covers more than one batch (a skipped day) is finalized, then the node is asked again what
	// the mint of that (now recorded) batch amounts to, as it does when the recorded mint reaches it once more: it must
	// be the recorded amount (the distribution among nodes is not compared: it follows the works known at that moment)
	{
		rng2 := r.Fork("c25-live", 0)
		f := verifNewFeedAt(t, fmt.Sprintf("c25m-%d", r.Seed), 7, rng2, t.TempDir(), nil, verifMintEpochUnix(), 1707)
		w := verifgen.NewWallet(f.net.Label, rng2, &f.net.Custodian, 3)
		for k := 0; k < r.N(1, 3); k++ {
			mc, mtx, mts, err := f.buildMint(w)
			if err != nil {
				r.Count("live_mint_not_buildable", 1)
				t.Logf("live mint: %v", err)
				break
			}
			s, d := f.feedBatch(mc, []*common.VersionedTransaction{mtx}, mts)
			if !d.Finalized {
				r.Count("live_mint_not_finalized", 1)
				t.Logf("live mint not finalized: %v %v", d.Err, d.PanicVal)
				break
			}
			amount := mtx.Inputs[0].Mint.Amount
			r.Count("live_mints_finalized", 1)
			r.Eval()
			r.Nontrivial(fmt.Sprintf("live-mint|%d|%s", mtx.Inputs[0].Mint.Batch, amount))
			if b, a := f.node.checkUniversalMintPossibility(s.Timestamp, true); b == mtx.Inputs[0].Mint.Batch && a.Cmp(amount) != 0 {
				r.Violation("C25|live|amount-for-the-recorded-batch-differs", fmt.Sprintf("for the recorded batch %d the node now expects %s, the recorded mint carries %s", b, a, amount),
					map[string]any{"batch": b, "expected_now": a.String(), "recorded": amount.String()})
			}
		}
		f.stop()
	}
	r.Finish()
}
