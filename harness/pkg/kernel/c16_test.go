package kernel

import (
	"fmt"
	"github.com/MixinNetwork/mixin/kernel/internal/clock"
	"math/big"
	"strings"
	"sync"
	"testing"
	"time"

	"github.com/MixinNetwork/mixin/common"
	"github.com/MixinNetwork/mixin/crypto"
	"github.com/MixinNetwork/mixin/storage"
	"github.com/MixinNetwork/mixin/verifgen"
	"github.com/MixinNetwork/mixin/verifkit"
)

type vC16Pending struct {
	snap     *common.Snapshot
	txs      []*common.VersionedTransaction
	specs    map[crypto.Hash][]verifgen.OutSpec
	kinds    []string
	deposit  *vC16DepositInfo // set when the batch holds a deposit
	conflict bool             // a transient write conflict was injected (and consumed) while the batch was validated
}

type vC16DepositInfo struct {
	asset        crypto.Hash
	units        *big.Int
	balanceAtVal *big.Int // finalized balance read when the batch was validated
	knownAtVal   bool     // asset info existed when the batch was validated
	chain        crypto.Hash
	key          string
}

func vC16Capacity(asset crypto.Hash) *big.Int {
	return verifgen.UnitsOf(common.GetAssetCapacity(asset))
}

// TestVerif_C16: transactions that validate together can always be finalized.
func TestVerif_C16(t *testing.T) {
	r := verifkit.Start(t, "C16", "exploration")
	r.SetRule("W-feed: batches of deposits/transfers/withdrawals are validated with the node's own validateSnapshotTransaction(s,false) " +
		"(which includes the batch rules) on the current ledger, 1..4 such snapshots on different chains stay pending together, then each is certified (real CoSi) and " +
		"delivered through the finalization handler (other chains) or added the way the proposer does (own chain, no second validation) in random order; a panic or error out of the snapshot write after successful validation is the refuting event. " +
		"A quarter of the validations run with an injected transient write conflict (badger.ErrConflict once or twice on WriteTransaction / input or key locking). Deposits are sized near the BTC/ETH capacities and include first deposits of unknown assets; two wide batches (2 x 64 outputs x 64 keys, 3 x 256 outputs x 250 keys) are validated together and finalized. non-trivial = distinct validated snapshots that were delivered")
	r.Assume("the single replica plays one honest signer; the certificate is produced with the real signer keys of the test network")
	rng := r.Rand()
	var px *verifProxy
	f := verifNewFeed(t, fmt.Sprintf("c16-%d", r.Seed), 7, rng, t.TempDir(), func(bs *storage.BadgerStore) storage.Store { px = newVerifProxy(bs); return px })
	defer f.stop()
	w := verifgen.NewWallet(f.net.Label, rng, &f.net.Custodian, 5)
	assets := verifgen.Assets()
	unknownCount := 0
	var finalSubmits []crypto.Hash // finalized withdrawal submissions
	claimNo := 0

	rounds := r.N(120, 6000)
	delivered, finalizedCount, notFinal := 0, 0, 0

	// what the finalized ledger still admits of an asset (deposits are sized against it, so that the workload keeps
	// validating deposits for its whole length instead of filling an asset early and being refused from then on)
	remaining := func(asset crypto.Hash) *big.Int {
		_, bal, _ := f.node.persistStore.ReadAssetWithBalance(asset)
		rem := new(big.Int).Sub(vC16Capacity(asset), verifgen.UnitsOf(bal))
		if asset == common.XINAssetId { // the pledges funded at the end need room
			rem.Sub(rem, verifgen.UnitsOf(common.KernelNodePledgeAmount.Mul(3)))
		}
		if rem.Sign() < 0 {
			rem.SetInt64(0)
		}
		return rem
	}
	mkDeposit := func() (*common.VersionedTransaction, []verifgen.OutSpec, *vC16DepositInfo, string) {
		a := assets[rng.Intn(len(assets))]
		kind := "deposit"
		var units *big.Int
		switch rng.Intn(10) {
		case 0, 1, 2, 3: // a sizeable fraction of the capacity (BTC 2500, ETH 5000)
			capU := vC16Capacity(a.Id)
			if capU.BitLen() > 80 { // effectively unbounded default capacity
				units = big.NewInt(int64(1 + rng.Intn(1e9)))
			} else {
				div := int64(3 + rng.Intn(6))
				units = new(big.Int).Div(remaining(a.Id), big.NewInt(div))
				units.Add(units, big.NewInt(int64(1+rng.Intn(1000))))
			}
			kind = "deposit-large"
		case 4: // first deposit of a fresh asset, sometimes absurdly large
			unknownCount++
			a = verifgen.AssetInfo{Id: crypto.Sha256Hash([]byte(fmt.Sprintf("verif-c16-asset-%d-%d", r.Seed, unknownCount))),
				Chain: common.EthereumAssetId, Key: fmt.Sprintf("0x%040d", unknownCount)}
			if rng.Intn(2) == 0 {
				units = new(big.Int).Lsh(big.NewInt(1), uint(100+rng.Intn(400)))
				kind = "deposit-first-huge"
			} else {
				units = big.NewInt(int64(1 + rng.Intn(1e9)))
				kind = "deposit-first"
			}
		case 5: // whole capacity at once, or just above
			capU := vC16Capacity(a.Id)
			if capU.BitLen() > 80 {
				units = new(big.Int).Add(capU, big.NewInt(int64(rng.Intn(3))))
				units.Sub(units, big.NewInt(1))
			} else {
				units = new(big.Int).Add(remaining(a.Id), big.NewInt(int64(rng.Intn(3)-1)))
				if units.Sign() <= 0 {
					units.SetInt64(1)
				}
			}
			kind = "deposit-at-capacity"
		case 6: // a known asset named with another letter case of its key (same id, same chain)
			a = assets[rng.Intn(2)]
			kb := []byte(a.Key)
			flipped := false
			for i := range kb {
				if kb[i] >= 'a' && kb[i] <= 'f' && (rng.Intn(2) == 0 || !flipped) {
					kb[i] -= 'a' - 'A'
					flipped = true
				}
			}
			a.Key = string(kb)
			units = big.NewInt(int64(1 + rng.Intn(5e8)))
			kind = "deposit-asset-key-other-letter-case"
		default:
			units = big.NewInt(int64(1 + rng.Intn(5e8)))
		}
		tx, specs := w.Deposit(a, units)
		info := &vC16DepositInfo{asset: a.Id, units: units, chain: a.Chain, key: a.Key}
		return tx, specs, info, kind
	}

	for round := 0; round < rounds; round++ {
		// 1. build and locally validate 1..4 pending snapshots on distinct chains
		k := 1 + rng.Intn(4)
		// two rounds are fixed shapes (so that every run, at every seed, exercises them): three pending deposits of
		// half the BTC capacity each, and two pending first deposits of one fresh asset naming different chain data
		shape := ""
		switch round {
		case 4:
			shape, k = "half-capacity-each", 3
		case 9:
			shape, k = "fresh-asset-different-chain-data", 2
		}
		if round == rounds-10 {
			shape, k = "exactly-the-capacity-together", 2
		}
		// regularly: a withdrawal submission stays pending on one chain while another chain's snapshot claims it
		claimShape := round%8 == 6
		if claimShape && k < 2 {
			k = 2
		}
		perm := rng.Perm(len(f.net.NodeIds))[:k]
		if rng.Intn(2) == 0 { // the replica's own chain takes part in half of the rounds (proposer path)
			own := false
			for _, ci := range perm {
				own = own || ci == f.self
			}
			if !own {
				perm[0] = f.self
			}
		}
		var pend []*vC16Pending
		var roundSubmits []crypto.Hash // submissions validated in this round, still pending
		sameAsset := rng.Intn(3) == 0 || shape != ""
		var forced *verifgen.AssetInfo
		conflictInfo := false
		if sameAsset {
			a := assets[1+rng.Intn(2)] // BTC or ETH
			if shape == "half-capacity-each" {
				a = assets[1]
			}
			if shape == "exactly-the-capacity-together" { // an asset with a capacity that nothing else in this run deposits
				a = verifgen.AssetInfo{Id: common.SOLAssetId, Chain: common.SOLAssetId, Key: "11111111111111111111111111111111"}
			}
			if shape == "fresh-asset-different-chain-data" || shape == "" && rng.Intn(6) == 0 { // a fresh asset whose pending first deposits disagree on chain data
				unknownCount++
				a = verifgen.AssetInfo{Id: crypto.Sha256Hash([]byte(fmt.Sprintf("verif-c16-conflict-%d-%d", r.Seed, unknownCount))),
					Chain: common.EthereumAssetId, Key: fmt.Sprintf("0xc%039d", unknownCount)}
				conflictInfo = true
			}
			forced = &a
		}
		for pi, ci := range perm {
			chainId := f.net.NodeIds[ci]
			p := &vC16Pending{specs: map[crypto.Hash][]verifgen.OutSpec{}}
			nb := 1
			if rng.Intn(3) == 0 {
				nb = 2 + rng.Intn(3)
			}
			if shape != "" || claimShape && pi == 0 {
				nb = 1
			}
			// a withdrawal claim: references a finalized submission, or one that is only pending in this round
			if shape == "" && (rng.Intn(5) == 0 || claimShape && pi > 0) && len(roundSubmits)+len(finalSubmits) > 0 {
				var in *verifgen.Out
				for _, o := range w.Outs {
					if o.Asset == common.XINAssetId && verifgen.UnitsOf(o.Amount).Cmp(big.NewInt(20000)) > 0 {
						in = o
						break
					}
				}
				if in != nil {
					var submit crypto.Hash
					kind := "withdrawal-claim"
					if len(roundSubmits) > 0 && (len(finalSubmits) == 0 || rng.Intn(2) == 0 || claimShape) {
						submit = roundSubmits[rng.Intn(len(roundSubmits))]
						kind = "withdrawal-claim-of-pending-submission"
					} else {
						submit = finalSubmits[rng.Intn(len(finalSubmits))]
					}
					claimNo++
					fee := big.NewInt(10000)
					spec := w.Spec(verifgen.Units(new(big.Int).Sub(verifgen.UnitsOf(in.Amount), fee)), 2)
					tx := verifgen.WithdrawalClaim(w.Custodian, submit, []*verifgen.Out{in}, []verifgen.OutSpec{spec}, verifgen.Units(fee), fmt.Sprint(claimNo))
					w.Remove([]*verifgen.Out{in})
					p.txs = append(p.txs, tx)
					p.specs[tx.PayloadHash()] = []verifgen.OutSpec{{Type: common.OutputTypeWithdrawalClaim}, spec}
					p.kinds = append(p.kinds, kind)
					nb = 0
				}
			}
			for b := 0; b < nb; b++ {
				var tx *common.VersionedTransaction
				var specs []verifgen.OutSpec
				kind := ""
				if p.deposit == nil && (len(w.Outs) < 4 || rng.Intn(2) == 0 || forced != nil) && !(claimShape && pi == 0 && len(w.Outs) >= 4) {
					var info *vC16DepositInfo
					if forced != nil {
						rem := remaining(forced.Id)
						units := new(big.Int).Div(rem, big.NewInt(int64(2+rng.Intn(5))))
						if shape == "half-capacity-each" { // half of what is left, plus one
							units = new(big.Int).Div(rem, big.NewInt(2))
						}
						units.Add(units, big.NewInt(1))
						if shape == "exactly-the-capacity-together" { // two pending deposits that fill the asset to the last unit
							units = new(big.Int).Div(rem, big.NewInt(2))
							if len(pend) > 0 {
								units = new(big.Int).Sub(rem, units)
							}
						}
						fa := *forced
						kind = "deposit-same-asset"
						if conflictInfo {
							units = big.NewInt(int64(1 + rng.Intn(1e9)))
							fa.Key = fmt.Sprintf("%s-%d", fa.Key, ci)
							kind = "deposit-same-fresh-asset-different-chain-data"
						}
						tx, specs = w.Deposit(fa, units)
						info = &vC16DepositInfo{asset: fa.Id, units: units, chain: fa.Chain, key: fa.Key}
					} else {
						tx, specs, info, kind = mkDeposit()
					}
					p.deposit = info
				} else {
					var ins []*verifgen.Out
					forced := round%6 == 3 && b == 0 // regularly: a three-output withdrawal in a hostile shape
					if forced {
						tx, specs, ins = w.TransferWithdrawal(1+rng.Intn(2), 3, true)
						kind = "withdrawal"
					} else if rng.Intn(5) == 0 || claimShape && pi == 0 {
						tx, specs, ins = w.TransferWithdrawal(1+rng.Intn(3), 1+rng.Intn(3), true)
						kind = "withdrawal"
					} else {
						tx, specs, ins = w.Transfer(1+rng.Intn(3), 1+rng.Intn(3), true)
						kind = "transfer"
					}
					if tx == nil {
						continue
					}
					// hostile shape: one of the later outputs gets a special output type (usually refused by validation;
					// whatever validation lets through must finalize)
					if !(claimShape && pi == 0) && len(specs) >= 2 && (forced || rng.Intn(10) == 0 || kind == "withdrawal" && len(specs) >= 3 && rng.Intn(2) == 0) {
						special := []uint8{common.OutputTypeWithdrawalClaim, common.OutputTypeWithdrawalClaim, common.OutputTypeWithdrawalSubmit, common.OutputTypeNodePledge,
							common.OutputTypeNodeAccept, common.OutputTypeNodeCancel}
						ms := append([]verifgen.OutSpec{}, specs...)
						j := 1 + rng.Intn(len(ms)-1)
						if rng.Intn(2) == 0 {
							j = len(ms) - 1
						}
						ty := special[rng.Intn(len(special))]
						if forced && len(ms) >= 3 { // the special types and both later positions in turn
							j = 1 + (round/6)%2
							ty = special[(round/12)%len(special)]
						}
						ms[j] = verifgen.OutSpec{Type: ty, Amount: ms[j].Amount}
						if ty == common.OutputTypeWithdrawalSubmit {
							ms[j].Withdrawal = &common.WithdrawalData{Address: "addr2", Tag: "t"}
						}
						raw := verifgen.BuildTx(ins[0].Asset, ins, ms, nil, nil)
						tx, specs = verifgen.SignMap(raw, ins, verifgen.FirstN(ins)), ms
						kind = fmt.Sprintf("%s-with-output-type-%d", kind, ty)
					}
				}
				p.txs = append(p.txs, tx)
				p.specs[tx.PayloadHash()] = specs
				p.kinds = append(p.kinds, kind)
			}
			if len(p.txs) == 0 {
				continue
			}
			hashes := make([]crypto.Hash, len(p.txs))
			for i, tx := range p.txs {
				hashes[i] = tx.PayloadHash()
				if err := f.node.persistStore.CacheStoreTransaction(tx); err != nil {
					t.Fatal(err)
				}
			}
			ts := f.tick(uint64(1500 * time.Millisecond))
			s, err := f.nextSnapshot(chainId, hashes, ts)
			if err != nil {
				r.Count("snapshot_build_skipped", 1)
				continue
			}
			p.snap = s
			if p.deposit != nil {
				_, bal, _ := f.node.persistStore.ReadAssetWithBalance(p.deposit.asset)
				old, _, _ := f.node.persistStore.ReadAssetWithBalance(p.deposit.asset)
				p.deposit.balanceAtVal = verifgen.UnitsOf(bal)
				p.deposit.knownAtVal = old != nil
			}
			// transient write conflicts during validation (another chain's commit touched a key this one had read):
			// the node retries them, and what it then reports as validated must be finalizable
			if shape == "" && (rng.Intn(4) == 0 || chainId == f.node.IdForNetwork && rng.Intn(2) == 0) {
				m := []string{"WriteTransaction", "WriteTransaction", "WriteTransaction", "LockUTXOs", "LockDepositInput", "LockGhostKeys"}[rng.Intn(6)]
				px.mu.Lock()
				px.conflicts = map[string]int{m: 1 + rng.Intn(2)}
				px.mu.Unlock()
				r.Count("validations_with_injected_conflict_"+m, 1)
			}
			var verr error
			var missing []crypto.Hash
			panicked, pv, stack := verifkit.Guard(func() {
				_, missing, verr = f.node.validateSnapshotTransaction(s, false)
			})
			px.mu.Lock()
			left := 0
			for _, n := range px.conflicts {
				left += n
			}
			consumed := px.conflicts != nil && left == 0
			px.conflicts = nil
			px.mu.Unlock()
			if consumed {
				r.Count("injected_conflicts_consumed", 1)
				p.conflict = true
			}
			r.Eval()
			if panicked {
				r.Count("validation_panics_(C05_territory)", 1)
				_ = pv
				_ = stack
				continue
			}
			if verr != nil || len(missing) > 0 {
				r.Count("batches_rejected_by_validation", 1)
				for _, kd := range p.kinds {
					r.Count("rejected_kind_"+kd, 1)
				}
				continue
			}
			r.Count("batches_validated", 1)
			pend = append(pend, p)
			for i, kd := range p.kinds {
				if kd == "withdrawal" {
					roundSubmits = append(roundSubmits, p.txs[i].PayloadHash())
				}
			}
		}
		if len(pend) > 1 {
			r.Count("rounds_with_several_pending_snapshots", 1)
		}
		// 2. certify and finalize them in random order
		rng.Shuffle(len(pend), func(i, j int) { pend[i], pend[j] = pend[j], pend[i] })
		for _, p := range pend {
			// the round state may have moved for this chain? (distinct chains: it has not)
			signers, err := f.sign(p.snap, rng.Intn(2))
			if err != nil {
				r.Count("sign_errors", 1)
				continue
			}
			delivered++
			r.Nontrivial(p.snap.Hash.String())
			for _, kd := range p.kinds {
				r.Count("delivered_kind_"+kd, 1)
			}
			// the replica's own chain finalizes the way a proposer does (straight into the round, no second
			// validation); snapshots of other chains arrive through the finalization handler
			var d verifDelivery
			leader := false
			if p.snap.NodeId == f.node.IdForNetwork {
				d, leader = f.finalizeAsLeader(p.snap, signers, p.txs)
			}
			if leader {
				r.Count("finalized_on_the_proposer_path", 1)
			} else {
				d = f.deliver(p.snap, p.txs)
				if !d.Finalized && !d.Panicked && d.Err == nil { // e.g. references had to be updated first: deliver again
					d = f.deliver(p.snap, p.txs)
				}
			}
			if d.Panicked || d.Err != nil {
				site := "error"
				msg := fmt.Sprint(d.Err)
				if d.Panicked {
					site = verifkit.PanicSite(d.Stack)
					msg = fmt.Sprint(d.PanicVal)
				}
				class := "batch:" + strings.Join(vC16Uniq(p.kinds), "+")
				if p.conflict {
					class = "after-transient-write-conflict-during-validation"
				}
				if p.deposit != nil && strings.Contains(msg, "invalid asset info") {
					// the recorded finding is about pending FIRST deposits of one fresh asset; a deposit that names other
					// data for an asset whose data was already recorded when it was validated is something else
					// (decided by what the ledger held when this deposit was validated, not by how the workload meant it: the
					// very first deposit of BTC in a run may be the one that spells its key in another letter case)
					class = "deposit-naming-other-data-for-a-known-asset"
					if !p.deposit.knownAtVal {
						class = "pending-first-deposits-of-one-asset-with-different-chain-data"
					}
				}
				if p.deposit != nil && strings.Contains(site, "writeTotalInAsset") {
					alone := new(big.Int).Add(p.deposit.balanceAtVal, p.deposit.units)
					if alone.Cmp(vC16Capacity(p.deposit.asset)) > 0 {
						class = "single-deposit-over-capacity"
						if !p.deposit.knownAtVal {
							class = "first-deposit-over-capacity"
						}
					} else {
						class = "pending-deposits-of-one-asset-exceed-capacity-together"
						// ... unless this deposit still fits what is finalized by now: then nothing was exceeded
						_, balNow, _ := f.node.persistStore.ReadAssetWithBalance(p.deposit.asset)
						if new(big.Int).Add(verifgen.UnitsOf(balNow), p.deposit.units).Cmp(vC16Capacity(p.deposit.asset)) <= 0 {
							class = "deposit-that-still-fits-the-capacity"
						}
					}
				}
				r.Violation("C16|"+site+"|"+class,
					fmt.Sprintf("snapshot validated by the node's own snapshot-transaction validation failed to finalize (%s): %s", site, msg),
					map[string]any{"site": site, "class": class, "message": msg, "kinds": p.kinds,
						"snapshot": fmt.Sprintf("%x", p.snap.VersionedMarshal()), "transactions": vC16Hex(p.txs)})
				// the in-memory topology counter ran ahead of the store: restart the replica
				if err := f.restart(); err != nil {
					t.Fatalf("restart after failed finalization: %v", err)
				}
				continue
			}
			if !d.Finalized {
				notFinal++
				r.Count("delivered_but_not_finalized_(no_crash)", 1)
				continue
			}
			finalizedCount++
			for i, tx := range p.txs {
				w.Applied(tx, p.specs[tx.PayloadHash()])
				if p.kinds[i] == "withdrawal" {
					finalSubmits = append(finalSubmits, tx.PayloadHash())
				}
			}
			if r.SampleCount() < 4 {
				r.Sample(map[string]any{"chain": p.snap.NodeId.String(), "round": p.snap.RoundNumber, "kinds": p.kinds, "finalized": true})
			}
		}
	}
	// 3. wide batches: a few transactions with many outputs of many keys each (well inside the transaction size
	// and slice limits), validated together by the node and then finalized
	for _, shape := range [][3]int{{2, 64, 64}, {6, 256, 250}} {
		nTx, outs, keys := shape[0], shape[1], shape[2]
		txs, specs, err := vC16Wide(f, w, nTx, outs, keys, fmt.Sprintf("%d-%d", r.Seed, outs))
		if err != nil {
			r.Count("wide_batch_not_buildable", 1)
			t.Logf("wide batch: %v", err)
			continue
		}
		chainId := f.net.NodeIds[1+rng.Intn(len(f.net.NodeIds)-1)]
		hashes := make([]crypto.Hash, len(txs))
		size := 0
		for i, tx := range txs {
			hashes[i] = tx.PayloadHash()
			size += len(tx.Marshal())
			if err := f.node.persistStore.CacheStoreTransaction(tx); err != nil {
				t.Fatal(err)
			}
		}
		snap, err := f.nextSnapshot(chainId, hashes, f.tick(uint64(1500*time.Millisecond)))
		if err != nil {
			r.Count("snapshot_build_skipped", 1)
			continue
		}
		var verr error
		var missing []crypto.Hash
		panicked, _, _ := verifkit.Guard(func() { _, missing, verr = f.node.validateSnapshotTransaction(snap, false) })
		r.Eval()
		if panicked || verr != nil || len(missing) > 0 {
			r.Count("wide_batches_rejected_by_validation", 1)
			t.Logf("wide batch rejected: %v", verr)
			continue
		}
		r.Count("wide_batches_validated", 1)
		if _, err := f.sign(snap, 0); err != nil {
			r.Count("sign_errors", 1)
			continue
		}
		delivered++
		r.Nontrivial(snap.Hash.String())
		d := f.deliver(snap, txs)
		if !d.Finalized && !d.Panicked && d.Err == nil {
			d = f.deliver(snap, txs)
		}
		if d.Panicked || d.Err != nil {
			site, msg := "error", fmt.Sprint(d.Err)
			if d.Panicked {
				site, msg = verifkit.PanicSite(d.Stack), fmt.Sprint(d.PanicVal)
			}
			class := "batch:wide-outputs"
			if strings.Contains(msg, "Txn is too big") {
				class = "snapshot-write-exceeds-the-database-transaction-limit"
			}
			r.Violation("C16|"+site+"|"+class,
				fmt.Sprintf("a snapshot of %d transactions (%d outputs of %d keys each, %d bytes in total) validated by the node failed to finalize (%s): %s", nTx, outs, keys, size, site, msg),
				map[string]any{"site": site, "class": class, "message": msg, "transactions": nTx, "outputs_per_transaction": outs, "keys_per_output": keys, "signed_bytes": size})
			if err := f.restart(); err != nil {
				t.Fatalf("restart after failed finalization: %v", err)
			}
			continue
		}
		if d.Finalized {
			finalizedCount++
			r.Count("wide_batches_finalized", 1)
			for i, tx := range txs {
				w.Applied(tx, specs[i])
			}
		}
	}
	// 4. a consensus operation stamped with exactly the timestamp of the last recorded one (a node pledge at the instant
	// of a custodian update, on the chain elected for pledges at that instant): if the node's validation lets it
	// through, it must be finalizable
	func() {
		ts := f.atHour(21+rng.Intn(2), 40*time.Minute)
		payChain := f.net.NodeIds[rng.Intn(len(f.net.NodeIds))]
		xin := verifgen.Assets()[0]
		cand := verifgen.NewCandidate(fmt.Sprintf("%s:cand-equal", f.net.Label))
		spec := verifgen.OutSpec{Type: common.OutputTypeScript, Owners: []common.Address{cand.Funder}, Threshold: 1, Amount: common.KernelNodePledgeAmount, Seed: w.Seed()}
		dep := verifgen.Deposit(w.Custodian, xin.Id, xin.Chain, xin.Key, fmt.Sprintf("0xpledge-equal-%s", f.net.Label), 0, common.KernelNodePledgeAmount, spec)
		if _, dd := f.feedBatch(payChain, []*common.VersionedTransaction{dep}, ts); !dd.Finalized {
			r.Count("equal_timestamp_funding_not_finalized", 1)
			return
		}
		nc := verifgen.Addr(fmt.Sprintf("%s:cust-equal", f.net.Label))
		cuChain, cuTx, err := f.buildCustodianUpdate(w, ts, &nc, payChain)
		var d verifDelivery
		if err == nil {
			_, d = f.feedBatch(cuChain, []*common.VersionedTransaction{cuTx}, f.tick(uint64(time.Second)))
		}
		if err != nil || !d.Finalized {
			r.Count("equal_timestamp_first_operation_not_finalized", 1)
			t.Logf("equal timestamp: custodian update: %v %v %v", err, d.Err, d.PanicVal)
			return
		}
		w.Custodian = &nc
		last, _ := f.node.persistStore.ReadLastConsensusSnapshot()
		funding := verifgen.OutsOf(dep, []verifgen.OutSpec{spec})[0]
		ptx := verifgen.Pledge(cand, funding, []crypto.Hash{last.Transactions[0]})
		pc := f.node.electSnapshotNode(common.TransactionTypeNodePledge, last.Timestamp)
		if pc == cuChain { // that chain already holds a snapshot at this very instant
			r.Count("equal_timestamp_same_chain_elected", 1)
			return
		}
		snap, err := f.nextSnapshot(pc, []crypto.Hash{ptx.PayloadHash()}, last.Timestamp)
		if err != nil {
			r.Count("equal_timestamp_snapshot_not_buildable", 1)
			t.Logf("equal timestamp: snapshot: %v", err)
			return
		}
		_ = f.node.persistStore.CacheStoreTransaction(ptx)
		var verr error
		var missing []crypto.Hash
		panicked, _, _ := verifkit.Guard(func() { _, missing, verr = f.node.validateSnapshotTransaction(snap, false) })
		r.Eval()
		if panicked || verr != nil || len(missing) > 0 {
			r.Count("equal_timestamp_operation_rejected_by_validation", 1)
			t.Logf("equal timestamp pledge rejected: %v", verr)
			return
		}
		if _, err := f.sign(snap, 0); err != nil {
			r.Count("sign_errors", 1)
			return
		}
		r.Count("equal_timestamp_operation_validated", 1)
		delivered++
		r.Nontrivial(snap.Hash.String())
		d = f.deliver(snap, []*common.VersionedTransaction{ptx})
		if d.Panicked || d.Err != nil {
			site, msg := "error", fmt.Sprint(d.Err)
			if d.Panicked {
				site, msg = verifkit.PanicSite(d.Stack), fmt.Sprint(d.PanicVal)
			}
			r.Violation("C16|"+site+"|consensus-operation-at-the-timestamp-of-the-last-one",
				fmt.Sprintf("a consensus operation stamped exactly like the last recorded one passed the node's validation and failed to finalize (%s): %s", site, msg),
				map[string]any{"site": site, "message": msg, "timestamp": last.Timestamp})
			if err := f.restart(); err != nil {
				t.Fatalf("restart after failed finalization: %v", err)
			}
		}
	}()
	// 5. a node pledge stamped a little ahead of this replica's clock (its proposer's clock runs 20 s fast, well inside
	// what the announcement path tolerates): validated and finalized while the local clock is still behind it
	func() {
		chainId, ptx, ts, _, err := f.buildPledge(w)
		if err != nil {
			r.Count("pledge_ahead_of_the_clock_not_buildable", 1)
			t.Logf("pledge ahead of the clock: %v", err)
			return
		}
		snap, err := f.nextSnapshot(chainId, []crypto.Hash{ptx.PayloadHash()}, ts)
		if err != nil {
			r.Count("pledge_ahead_of_the_clock_not_buildable", 1)
			t.Logf("pledge ahead of the clock: snapshot: %v", err)
			return
		}
		_ = f.node.persistStore.CacheStoreTransaction(ptx)
		clock.MockDiff(-time.Since(time.Unix(0, int64(ts))) - 20*time.Second)
		defer clock.Reset()
		var verr error
		var missing []crypto.Hash
		panicked, _, _ := verifkit.Guard(func() { _, missing, verr = f.node.validateSnapshotTransaction(snap, false) })
		r.Eval()
		if panicked || verr != nil || len(missing) > 0 {
			r.Count("pledge_ahead_of_the_clock_rejected_by_validation", 1)
			t.Logf("pledge ahead of the clock rejected: %v", verr)
			return
		}
		if _, err := f.sign(snap, 0); err != nil {
			r.Count("sign_errors", 1)
			return
		}
		r.Count("pledge_ahead_of_the_clock_validated", 1)
		delivered++
		r.Nontrivial(snap.Hash.String())
		d := f.deliver(snap, []*common.VersionedTransaction{ptx})
		if d.Panicked || d.Err != nil {
			site, msg := "error", fmt.Sprint(d.Err)
			if d.Panicked {
				site, msg = verifkit.PanicSite(d.Stack), fmt.Sprint(d.PanicVal)
			}
			r.Violation("C16|"+site+"|consensus-operation-stamped-ahead-of-the-local-clock",
				fmt.Sprintf("a node pledge stamped 20 s ahead of the local clock passed the node's validation and its finalization failed (%s): %s", site, msg),
				map[string]any{"site": site, "message": msg, "timestamp": ts})
			clock.Reset()
			if err := f.restart(); err != nil {
				t.Fatalf("restart after failed finalization: %v", err)
			}
			return
		}
		if d.Finalized {
			finalizedCount++
			r.Count("pledge_ahead_of_the_clock_finalized", 1)
		}
	}()
	// 6. a withdrawal submission that takes an asset's whole recorded total (one deposit of a fresh asset, then its only
	// output withdrawn without change): validated, so it must finalize
	func() {
		a := verifgen.AssetInfo{Id: crypto.Sha256Hash([]byte(fmt.Sprintf("verif-c16-drain-%d", r.Seed))), Chain: common.EthereumAssetId, Key: "0x3333333333333333333333333333333333333333"}
		units := big.NewInt(int64(1 + rng.Intn(5e9)))
		dep, specs := w.Deposit(a, units)
		if _, d := f.feedBatch(f.net.NodeIds[1+rng.Intn(len(f.net.NodeIds)-1)], []*common.VersionedTransaction{dep}, f.tick(uint64(1500*time.Millisecond))); !d.Finalized {
			r.Count("draining_withdrawal_funding_not_finalized", 1)
			return
		}
		ins := verifgen.OutsOf(dep, specs)
		spec := verifgen.OutSpec{Type: common.OutputTypeWithdrawalSubmit, Amount: verifgen.Units(units), Withdrawal: &common.WithdrawalData{Address: "addr-drain", Tag: "t"}}
		raw := verifgen.BuildTx(a.Id, ins, []verifgen.OutSpec{spec}, nil, nil)
		wtx := verifgen.SignMap(raw, ins, verifgen.FirstN(ins))
		chainId := f.net.NodeIds[1+rng.Intn(len(f.net.NodeIds)-1)]
		snap, err := f.nextSnapshot(chainId, []crypto.Hash{wtx.PayloadHash()}, f.tick(uint64(1500*time.Millisecond)))
		if err != nil {
			r.Count("snapshot_build_skipped", 1)
			return
		}
		_ = f.node.persistStore.CacheStoreTransaction(wtx)
		var verr error
		var missing []crypto.Hash
		panicked, _, _ := verifkit.Guard(func() { _, missing, verr = f.node.validateSnapshotTransaction(snap, false) })
		r.Eval()
		if panicked || verr != nil || len(missing) > 0 {
			r.Count("draining_withdrawal_rejected_by_validation", 1)
			t.Logf("draining withdrawal rejected: %v", verr)
			return
		}
		if _, err := f.sign(snap, 0); err != nil {
			r.Count("sign_errors", 1)
			return
		}
		r.Count("draining_withdrawal_validated", 1)
		delivered++
		r.Nontrivial(snap.Hash.String())
		d := f.deliver(snap, []*common.VersionedTransaction{wtx})
		if !d.Finalized && !d.Panicked && d.Err == nil {
			d = f.deliver(snap, []*common.VersionedTransaction{wtx})
		}
		if d.Panicked || d.Err != nil {
			site, msg := "error", fmt.Sprint(d.Err)
			if d.Panicked {
				site, msg = verifkit.PanicSite(d.Stack), fmt.Sprint(d.PanicVal)
			}
			r.Violation("C16|"+site+"|withdrawal-of-the-whole-recorded-total",
				fmt.Sprintf("a withdrawal submission of an asset's whole recorded total passed the node's validation and failed to finalize (%s): %s", site, msg),
				map[string]any{"site": site, "message": msg, "units": units.String()})
			if err := f.restart(); err != nil {
				t.Fatalf("restart after failed finalization: %v", err)
			}
			return
		}
		if d.Finalized {
			finalizedCount++
			r.Count("draining_withdrawal_finalized", 1)
		}
	}()
	r.Note("snapshots_delivered", delivered)
	r.Note("snapshots_finalized", finalizedCount)
	r.Note("topology_at_end", f.node.TopologicalOrder())
	if finalizedCount < 20 {
		r.Inconclusive(fmt.Sprintf("only %d snapshots finalized", finalizedCount))
	}
	r.Finish()
}

func vC16Uniq(in []string) []string {
	seen := map[string]bool{}
	var out []string
	for _, s := range in {
		if !seen[s] {
			seen[s] = true
			out = append(out, s)
		}
	}
	return out
}

func vC16Hex(txs []*common.VersionedTransaction) []string {
	var out []string
	for _, tx := range txs {
		b := tx.Marshal()
		if len(b) > 4096 {
			b = b[:4096]
		}
		out = append(out, fmt.Sprintf("%x", b))
	}
	return out
}

var vC16OwnerCache []common.Address

// vC16Wide funds and builds nTx transfers with `outs` outputs of `keys` keys each (threshold 1, one unit each).
func vC16Wide(f *verifFeed, w *verifgen.Wallet, nTx, outs, keys int, tag string) ([]*common.VersionedTransaction, [][]verifgen.OutSpec, error) {
	for len(vC16OwnerCache) < keys {
		vC16OwnerCache = append(vC16OwnerCache, verifgen.Addr(fmt.Sprintf("c16-owner-%d", len(vC16OwnerCache))))
	}
	owners := vC16OwnerCache[:keys]
	// an asset of its own, whatever the workload before left of the capacities of the others
	btc := verifgen.AssetInfo{Id: crypto.Sha256Hash([]byte("verif-c16-wide-asset")), Chain: common.EthereumAssetId, Key: "0x2222222222222222222222222222222222222222"}
	txs := make([]*common.VersionedTransaction, nTx)
	specs := make([][]verifgen.OutSpec, nTx)
	for i := 0; i < nTx; i++ {
		fs := verifgen.OutSpec{Type: common.OutputTypeScript, Owners: owners[:1], Threshold: 1, Amount: verifgen.UnitsU(uint64(outs)), Seed: verifgen.Seed64(fmt.Sprintf("c16-wide-fund-%s-%d", tag, i))}
		dep := verifgen.Deposit(w.Custodian, btc.Id, btc.Chain, btc.Key, fmt.Sprintf("0xc16wide-%s-%d", tag, i), 0, fs.Amount, fs)
		if _, d := f.feedBatch(f.net.NodeIds[1+i%(len(f.net.NodeIds)-1)], []*common.VersionedTransaction{dep}, f.tick(uint64(1500*time.Millisecond))); !d.Finalized {
			return nil, nil, fmt.Errorf("funding deposit not finalized: %v %v", d.Err, d.PanicVal)
		}
		funding := verifgen.OutsOf(dep, []verifgen.OutSpec{fs})
		var wg sync.WaitGroup
		sp := make([]verifgen.OutSpec, outs)
		for k := range sp {
			sp[k] = verifgen.OutSpec{Type: common.OutputTypeScript, Owners: owners, Threshold: 1, Amount: verifgen.UnitsU(1), Seed: verifgen.Seed64(fmt.Sprintf("c16-wide-%s-%d-%d", tag, i, k))}
		}
		// key derivation dominates: derive the outputs of the parts in parallel, then join them in order
		parts := make([]*common.Transaction, 16)
		for p := range parts {
			wg.Add(1)
			go func(p int) {
				defer wg.Done()
				lo, hi := p*outs/16, (p+1)*outs/16
				parts[p] = verifgen.BuildTx(btc.Id, nil, sp[lo:hi], nil, nil)
			}(p)
		}
		wg.Wait()
		raw := verifgen.BuildTx(btc.Id, funding, nil, nil, nil)
		for _, part := range parts {
			raw.Outputs = append(raw.Outputs, part.Outputs...)
		}
		txs[i] = verifgen.SignMap(raw, funding, [][]int{{0}})
		specs[i] = sp
	}
	return txs, specs, nil
}
