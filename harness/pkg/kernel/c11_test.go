package kernel

import (
	"encoding/json"
	"fmt"
	"math/big"
	"testing"
	"time"

	"github.com/MixinNetwork/mixin/common"
	"github.com/MixinNetwork/mixin/crypto"
	"github.com/MixinNetwork/mixin/kernel/internal/clock"
	"github.com/MixinNetwork/mixin/storage"
	"github.com/MixinNetwork/mixin/verifgen"
	"github.com/MixinNetwork/mixin/verifkit"
	"github.com/MixinNetwork/mixin/verifledger"
)

// vC11View renders every historical view of a node at q into one comparable text.
func vC11View(node *Node, h *verifHistory, q uint64) string {
	out := ""
	for _, acc := range []bool{false, true} {
		out += fmt.Sprintf("list(%v):", acc)
		for _, cn := range node.NodesListWithoutState(q, acc) {
			out += fmt.Sprintf("[%s %s %d idx%d %s]", cn.IdForNetwork.String()[:12], cn.State, cn.Timestamp, cn.ConsensusIndex, cn.Signer.PublicSpendKey.String()[:8])
		}
		out += "\n"
	}
	ch := &Chain{node: node, ChainId: h.Members[0].Id, State: &ChainState{}}
	ids, keys := ch.ConsensusKeys(1, q)
	out += "keys:"
	for i := range ids {
		out += fmt.Sprintf("[%s %s]", ids[i].String()[:12], keys[i].String()[:8])
	}
	out += fmt.Sprintf("\nthreshold:%d/%d\n", node.ConsensusThreshold(q, true), node.ConsensusThreshold(q, false))
	if p := node.PledgingNode(q); p != nil {
		out += "pledging:" + p.IdForNetwork.String()[:12] + "\n"
	}
	for _, op := range []byte{common.TransactionTypeMint, common.TransactionTypeNodePledge, common.TransactionTypeNodeRemove,
		common.TransactionTypeCustodianUpdateNodes, common.TransactionTypeCustodianSlashNodes, common.TransactionTypeScript} {
		var e crypto.Hash
		panicked, pv, _ := verifkit.Guard(func() { e = node.electSnapshotNode(op, q) })
		if panicked {
			out += fmt.Sprintf("elect(%d):panic(%v)\n", op, pv)
		} else {
			out += fmt.Sprintf("elect(%d):%s\n", op, e.String()[:12])
		}
	}
	return out
}

// vC11Ref renders the reference model's answers for the part it models.
func vC11Ref(h *verifHistory, q uint64) (keys string, thrFinal int) {
	ids, ks := h.refKeys(q, nil, 1)
	keys = "keys:"
	for i := range ids {
		keys += fmt.Sprintf("[%s %s]", ids[i].String()[:12], ks[i].String()[:8])
	}
	thrFinal, _ = h.refThreshold(q, true)
	return
}

// TestVerif_C11: historical consensus views depend only on earlier ledger records.
func TestVerif_C11(t *testing.T) {
	r := verifkit.Start(t, "C11", "exploration")
	r.SetRule("(a) random membership histories with equal and adjacent timestamps: for every record/maturity/window boundary q (-1,0,+1 ns) the views (member lists with " +
		"consensus indexes, signer keys, both thresholds, pledging node, elected operator per operation) of a node built from the records before q, of a node built from the " +
		"whole history, and of a node with extra later records must be identical, in random query order, and equal to the independent reference for keys and threshold; " +
		"(b) W-feed: custodian updates finalized on a real node; ReadCustodian at every boundary answered from the warm cache, repeated, after later updates were appended, and by " +
		"a freshly opened store must be deep-equal, and mutating a returned object must not change later answers. non-trivial = distinct (history, boundary) comparisons")
	rng := r.Rand()
	nh := r.N(10, 300)
	for hi := 0; hi < nh; hi++ {
		h := verifRandomHistory(fmt.Sprintf("c11-%d-%d", r.Seed, hi), rng, 7+rng.Intn(14), 5+rng.Intn(40))
		// force some equal and adjacent timestamps
		for k := 0; k < 3 && len(h.Records) > 9; k++ {
			i := 8 + rng.Intn(len(h.Records)-8)
			if h.Records[i].Member.Id != h.Records[i-1].Member.Id {
				h.Records[i].Timestamp = h.Records[i-1].Timestamp + uint64(rng.Intn(2))
			}
		}
		h.sortRecords()
		full := h.nodeNoCache()
		qs := h.boundaries(rng, 10)
		rng.Shuffle(len(qs), func(i, j int) { qs[i], qs[j] = qs[j], qs[i] })
		nq := r.N(60, 300)
		if len(qs) > nq {
			qs = qs[:nq]
		}
		// history plus records later than every queried timestamp
		ext := &verifHistory{Label: h.Label, Epoch: h.Epoch, NetworkId: h.NetworkId, Genesis: h.Genesis, Members: h.Members}
		ext.Records = append(ext.Records, h.Records...)
		var last uint64
		for _, q := range qs {
			if q > last {
				last = q
			}
		}
		for k := 0; k < 4; k++ {
			m := ext.member(len(ext.Members))
			ext.add(m, common.NodeStatePledging, last+uint64(k)*OneDay+uint64(rng.Intn(2)))
			ext.add(m, common.NodeStateAccepted, last+uint64(k)*OneDay+uint64(13*time.Hour))
		}
		ext.sortRecords()
		extended := ext.nodeNoCache()
		for _, q := range qs {
			r.Eval()
			pre := h.prefix(q).nodeNoCache()
			a, b, c := vC11View(pre, h, q), vC11View(full, h, q), vC11View(extended, h, q)
			r.Nontrivial(fmt.Sprintf("%s|%d", h.Label, q))
			if a != b || b != c {
				which := "later-records-change-the-view"
				if b != c && a == b {
					which = "appended-records-change-the-view"
				}
				r.Violation("C11|membership|"+which, fmt.Sprintf("views at %d differ between a node that knows only earlier records and one that knows later records", q),
					map[string]any{"timestamp": q, "hours_since_epoch": float64(q-h.Epoch) / float64(time.Hour), "prefix_view": a, "full_view": b, "extended_view": c})
				continue
			}
			// repeated query after other queries: same answer
			_ = vC11View(full, h, qs[rng.Intn(len(qs))])
			if b2 := vC11View(full, h, q); b2 != b {
				r.Violation("C11|membership|query-order", "the same query gives a different answer after other queries", map[string]any{"timestamp": q})
			}
			rk, rt := vC11Ref(h, q)
			var gotKeys string
			for _, line := range splitLines(b) {
				if len(line) >= 5 && line[:5] == "keys:" {
					gotKeys = line
				}
			}
			if gotKeys != rk {
				r.Violation("C11|membership|keys-differ-from-reference", fmt.Sprintf("consensus keys at %d differ from the reference model", q),
					map[string]any{"timestamp": q, "node": gotKeys, "reference": rk})
			}
			if got := full.ConsensusThreshold(q, true); got != rt {
				r.Violation("C11|membership|threshold-differs-from-reference", fmt.Sprintf("final threshold at %d is %d, reference %d", q, got, rt),
					map[string]any{"timestamp": q})
			}
			// the pledging node follows every preceding record too (a cancellation or an acceptance ends the pledge)
			refPledging := "none"
			if list := h.refList(q); len(list) > 0 && list[len(list)-1].State == common.NodeStatePledging {
				refPledging = list[len(list)-1].Id.String()
			}
			gotPledging := "none"
			if p := full.PledgingNode(q); p != nil {
				gotPledging = p.IdForNetwork.String()
			}
			if gotPledging != refPledging {
				r.Violation("C11|membership|pledging-node-differs-from-reference", fmt.Sprintf("pledging node at %d is %s, by the records before it %s", q, gotPledging, refPledging),
					map[string]any{"timestamp": q})
			} else if refPledging != "none" {
				r.Count("views_with_a_pledging_node_checked_against_the_reference", 1)
			}
			if r.SampleCount() < 2 {
				r.Sample(map[string]any{"timestamp": q, "view": b})
			}
		}
	}
	vC11Custodian(t, r)
	vC11AheadOfClock(t, r)
	vC11SharedViews(t, r)
	r.Finish()
}

func splitLines(s string) []string {
	var out []string
	cur := ""
	for _, c := range s {
		if c == '\n' {
			out = append(out, cur)
			cur = ""
		} else {
			cur += string(c)
		}
	}
	return append(out, cur)
}

func vC11Dump(c *common.CustodianUpdateRequest) string {
	if c == nil {
		return "nil"
	}
	type node struct{ C, P, E string }
	var ns []node
	for _, n := range c.Nodes {
		ns = append(ns, node{n.Custodian.String(), n.Payee.String(), fmt.Sprintf("%x", n.Extra)})
	}
	b, _ := json.Marshal(map[string]any{"custodian": c.Custodian.String(), "nodes": ns, "sig": c.Signature.String(), "tx": c.Transaction.String(), "ts": c.Timestamp})
	return string(b)
}

// vC11Custodian: custodian lookups are the same with a warm cache, a cold
// cache, after later updates, and never alias cached state.
func vC11Custodian(t *testing.T, r *verifkit.Run) {
	rng := r.Fork("c11-custodian", 0)
	f := verifNewFeed(t, fmt.Sprintf("c11c-%d", r.Seed), 7, rng, t.TempDir(), nil)
	defer f.stop()
	w := verifgen.NewWallet(f.net.Label, rng, &f.net.Custodian, 3)
	updates := r.N(3, 8)
	var times []uint64
	answers := map[uint64]string{}
	reader := func(q uint64) (*common.CustodianUpdateRequest, error) { return f.node.persistStore.ReadCustodian(q) }
	record := func(phase string) {
		var qs []uint64
		for _, ts := range times {
			qs = append(qs, ts-1, ts, ts+1)
		}
		qs = append(qs, f.net.Epoch+1, f.net.Epoch+2, f.cursor+uint64(time.Hour))
		rng.Shuffle(len(qs), func(i, j int) { qs[i], qs[j] = qs[j], qs[i] })
		for _, q := range qs {
			cur, err := reader(q)
			if err != nil {
				r.Count("custodian_read_errors", 1)
				continue
			}
			d := vC11Dump(cur)
			r.Eval()
			r.Count("custodian_lookups", 1)
			if old, ok := answers[q]; ok && old != d {
				r.Violation("C11|custodian|"+phase, fmt.Sprintf("ReadCustodian(%d) changed (%s)", q, phase), map[string]any{"timestamp": q, "before": old, "after": d})
			}
			// only timestamps up to the latest recorded update are frozen
			if len(times) == 0 || q <= times[len(times)-1]+1 {
				answers[q] = d
				r.Nontrivial(fmt.Sprintf("custodian|%d", q))
			}
			// aliasing: mutate the returned object, ask again
			if cur != nil && len(cur.Nodes) > 0 {
				cur.Nodes[0].Extra[0] ^= 0xff
				cur.Nodes[0].Payee.PublicSpendKey[0] ^= 0xff
				cur.Custodian.PublicSpendKey[0] ^= 0xff
				cur.Nodes = cur.Nodes[:1]
				again, _ := reader(q)
				if vC11Dump(again) != d {
					r.Violation("C11|custodian|aliased-cache-state", "mutating a returned custodian object changed the next answer for the same timestamp", map[string]any{"timestamp": q})
				}
			}
		}
	}
	record("initial")
	for u := 0; u < updates; u++ {
		for i := 0; i < 2; i++ {
			dep, specs := w.Deposit(verifgen.Assets()[1+rng.Intn(3)], big.NewInt(int64(1+rng.Intn(1e6))))
			if _, d := f.feedBatch(f.net.NodeIds[rng.Intn(len(f.net.NodeIds))], []*common.VersionedTransaction{dep}, f.tick(uint64(2*time.Second))); d.Finalized {
				w.Applied(dep, specs)
			}
		}
		ts := f.atHour(20+rng.Intn(3), 40*time.Minute)
		nc := verifgen.Addr(fmt.Sprintf("%s:cust:%d", f.net.Label, u))
		chainId, tx, err := f.buildCustodianUpdate(w, ts, &nc, f.net.NodeIds[rng.Intn(len(f.net.NodeIds))])
		if err != nil {
			r.Count("custodian_update_not_buildable", 1)
			t.Logf("custodian update: %v", err)
			continue
		}
		ts = f.tick(uint64(time.Second))
		_, d := f.feedBatch(chainId, []*common.VersionedTransaction{tx}, ts)
		if !d.Finalized {
			_, d = f.feedBatch(chainId, []*common.VersionedTransaction{tx}, f.tick(uint64(time.Second)))
		}
		if !d.Finalized {
			r.Count("custodian_update_not_finalized", 1)
			t.Logf("custodian update not finalized: %v %v", d.Err, d.PanicVal)
			continue
		}
		w.Custodian = &nc
		r.Count("custodian_updates_finalized", 1)
		cur, _ := f.node.persistStore.ReadCustodian(f.cursor + 1)
		if cur == nil || cur.Custodian.String() != nc.String() {
			r.Violation("C11|custodian|update-not-visible", "a finalized custodian update is not reported for later timestamps", nil)
		} else {
			times = append(times, cur.Timestamp)
		}
		record("after-later-update")
		if rng.Intn(2) == 0 {
			if err := f.restart(); err != nil {
				t.Fatalf("restart: %v", err)
			}
			record("fresh-store-handle")
		}
	}
	if err := f.restart(); err != nil {
		t.Fatalf("restart: %v", err)
	}
	record("fresh-store-handle")
	// a store handle nobody has read from yet (no node set up on it): every record is parsed for the first time
	// by these lookups, whose results are then edited
	f.stop()
	cold, err := storage.NewBadgerStore(verifledger.NewCustom(f.net.Signers[f.self].PrivateSpendKey), f.dir)
	if err != nil {
		t.Fatalf("cold store handle: %v", err)
	}
	reader = func(q uint64) (*common.CustodianUpdateRequest, error) { return cold.ReadCustodian(q) }
	record("cold-store-handle")
	record("cold-store-handle-again")
	_ = cold.Close()
	if err := f.boot(); err != nil {
		t.Fatalf("reboot: %v", err)
	}
	reader = func(q uint64) (*common.CustodianUpdateRequest, error) { return f.node.persistStore.ReadCustodian(q) }
	if r.Counter("custodian_updates_finalized") < 2 {
		r.Inconclusive("fewer than 2 custodian updates finalized")
	}
}

// vC11AheadOfClock: see verifAheadOfClock (feedops_test.go); the views are the membership lists with consensus
// indexes, both thresholds and the pledging node.
func vC11AheadOfClock(t *testing.T, r *verifkit.Run) {
	verifAheadOfClock(t, r, "c11k", "C11|membership|record-stamped-ahead-of-the-local-clock", func(f *verifFeed, q uint64) string {
		var b []byte
		for _, withAccepted := range []bool{false, true} {
			for _, cn := range f.node.NodesListWithoutState(q, withAccepted) {
				b = append(b, []byte(fmt.Sprintf("%s|%s|%d|%d;", cn.IdForNetwork, cn.State, cn.Timestamp, cn.ConsensusIndex))...)
			}
			b = append(b, '#')
		}
		b = append(b, []byte(fmt.Sprintf("T%d/%d", f.node.ConsensusThreshold(q, false), f.node.ConsensusThreshold(q, true)))...)
		if pn := f.node.PledgingNode(q); pn != nil {
			b = append(b, []byte("P"+pn.IdForNetwork.String())...)
		}
		return string(b)
	})
}

// vC11SharedViews: the node's own housekeeping reads the precomputed membership views all the time (the proposal
// loop asks for the working accepted nodes and picks the ones whose chains are up to date): whatever it does with
// the lists it gets, the views reported for a timestamp stay what they were while no membership record is added.
func vC11SharedViews(t *testing.T, r *verifkit.Run) {
	rng := r.Fork("c11-shared", 0)
	f := verifNewFeed(t, fmt.Sprintf("c11s-%d", r.Seed), 9, rng, t.TempDir(), nil)
	defer f.stop()
	defer clock.Reset()
	w := verifgen.NewWallet(f.net.Label, rng, &f.net.Custodian, 3)
	order := f.node.NodesListWithoutState(f.cursor, true)
	lagging := map[crypto.Hash]bool{order[0].IdForNetwork: true, order[2+rng.Intn(len(order)-2)].IdForNetwork: true}
	// the other chains close a few rounds "now"; the lagging ones stay where the genesis left them
	f.cursor += uint64(30 * time.Minute)
	for pass := 0; pass < 4; pass++ {
		for _, cn := range order {
			if lagging[cn.IdForNetwork] {
				continue
			}
			dep, specs := w.Deposit(verifgen.Assets()[1+rng.Intn(3)], big.NewInt(int64(1+rng.Intn(1e6))))
			if _, d := f.feedBatch(cn.IdForNetwork, []*common.VersionedTransaction{dep}, f.tick(uint64(time.Second))); d.Finalized {
				w.Applied(dep, specs)
			}
		}
		f.cursor += uint64(4 * time.Second)
	}
	clock.Reset()
	clock.MockDiff(time.Unix(0, int64(f.cursor)).Sub(clock.Now()))
	view := func(q uint64) string {
		var b []byte
		for _, acc := range []bool{false, true} {
			for _, cn := range f.node.NodesListWithoutState(q, acc) {
				b = append(b, []byte(fmt.Sprintf("%s|%s|%d|%d;", cn.IdForNetwork, cn.State, cn.Timestamp, cn.ConsensusIndex))...)
			}
			b = append(b, '#')
		}
		return string(b)
	}
	qs := []uint64{f.net.Epoch + 1, f.cursor - uint64(time.Hour), f.cursor, f.cursor + uint64(time.Hour)}
	before := map[uint64]string{}
	for _, q := range qs {
		before[q] = view(q)
	}
	for k := 0; k < 3; k++ {
		all := f.node.ListWorkingAcceptedNodes(f.cursor)
		var leading []*CNode
		if p, pv, _ := verifkit.Guard(func() { leading, _ = f.node.filterLeadingNodes(all) }); p {
			r.Count("shared_views_housekeeping_panicked", 1)
			t.Logf("filterLeadingNodes: %v", pv)
			break
		}
		r.Eval()
		r.Count("housekeeping_passes", 1)
		r.Note("working_accepted_nodes", len(all))
		r.Note("nodes_with_up_to_date_chains", len(leading))
		if len(leading) == 0 || len(leading) >= len(order) {
			r.Count("housekeeping_pass_without_a_mix_of_lagging_and_up_to_date_chains", 1)
		}
		for _, q := range qs {
			r.Nontrivial(fmt.Sprintf("shared|%d|%d", k, q))
			if a := view(q); a != before[q] {
				r.Violation("C11|membership|views-changed-without-a-new-record", fmt.Sprintf("the membership views for %d changed although no membership record was added (after the proposal loop picked the nodes with up-to-date chains)", q),
					map[string]any{"query": q, "before": before[q], "after": a})
				return
			}
		}
	}
}
