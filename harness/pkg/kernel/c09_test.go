package kernel

import (
	"fmt"
	"math/bits"
	"math/rand"
	"sort"
	"testing"
	"time"

	"github.com/MixinNetwork/mixin/common"
	"github.com/MixinNetwork/mixin/crypto"
	"github.com/MixinNetwork/mixin/verifkit"
)

type vC09Case struct {
	h        *verifHistory
	pledging *verifMember // chain is this pledging node's chain (round 0) when set
	chainId  crypto.Hash
	snap     *common.Snapshot
	label    string
}

func (c *vC09Case) chain(node *Node) *Chain {
	ch := &Chain{node: node, ChainId: c.chainId}
	if c.pledging != nil {
		ch.ConsensusInfo = &CNode{IdForNetwork: c.pledging.Id, Signer: c.pledging.Signer, Payee: c.pledging.Payee, State: common.NodeStatePledging}
		ch.ConsensusInfo.Signer.PrivateSpendKey = crypto.Key{}
	} else {
		ch.State = &ChainState{}
	}
	return ch
}

// vC09Oracle: whatever verifyFinalization accepts must be a threshold
// certificate of the reference key set at the snapshot's timestamp.
func vC09Oracle(c *vC09Case, signers []crypto.Hash) string {
	s := c.snap
	if s.Signature == nil {
		return "accepted without a signature"
	}
	bad := vC09OracleAt(c, signers, s.Timestamp)
	if bad == "" {
		return ""
	}
	// legacy rule (main network before the activation): the membership from before the operation window
	// is a second admissible key set, if it is larger
	if lts, ok := c.h.refLegacyTs(s.Timestamp); ok {
		_, now := c.h.refKeys(s.Timestamp, c.pledging, s.RoundNumber)
		_, before := c.h.refKeys(lts, c.pledging, s.RoundNumber)
		if len(before) > len(now) && vC09OracleAt(c, signers, lts) == "" {
			return ""
		}
	}
	return bad
}

func vC09OracleAt(c *vC09Case, signers []crypto.Hash, at uint64) string {
	s := c.snap
	ids, keys := c.h.refKeys(at, c.pledging, s.RoundNumber)
	thr, _ := c.h.refThreshold(at, true)
	pop := bits.OnesCount64(s.Signature.Mask)
	if pop < thr {
		return fmt.Sprintf("mask names %d members, threshold is %d", pop, thr)
	}
	var masked []crypto.Key
	var maskedIds []crypto.Hash
	for i := 0; i < 64; i++ {
		if s.Signature.Mask&(1<<uint(i)) == 0 {
			continue
		}
		if i >= len(keys) {
			return fmt.Sprintf("mask bit %d outside the key set of %d members", i, len(keys))
		}
		masked = append(masked, keys[i])
		maskedIds = append(maskedIds, ids[i])
	}
	if !vC09StdVerify(masked, s.PayloadHash(), s.Signature.Signature) {
		return "aggregate signature does not verify over the snapshot hash under the masked members' keys"
	}
	if s.Hash != s.PayloadHash() {
		return "accepted with a hash that is not the snapshot's payload hash"
	}
	if len(signers) != len(maskedIds) {
		return fmt.Sprintf("returned %d signers for %d masked members", len(signers), len(maskedIds))
	}
	for i := range signers {
		if signers[i] != maskedIds[i] {
			return "returned signer ids differ from the masked members"
		}
	}
	return ""
}

// TestVerif_C09: a snapshot is final only with a threshold certificate from historical keys.
func TestVerif_C09(t *testing.T) {
	r := verifkit.Start(t, "C09", "exploration")
	r.SetRule("random lifecycle-respecting membership histories (7..20 genesis nodes, pledge/accept/cancel/remove over 5..40 days, some at arbitrary times) with real key pairs; " +
		"for timestamps at every record/maturity/window boundary (-1,0,+1 ns) and random ones, certificates are produced by real key holders according to the node's own view " +
		"(exact threshold, one below, random larger subsets) and then mutated (mask bit, signature byte, hash, timestamp moved across a membership boundary, other round); every " +
		"result of verifyFinalization is judged by an independent reference of key set and threshold and crypto/ed25519 over the plain sum of the masked keys; each query is " +
		"repeated on the warm cache and on a node with an empty cache. non-trivial = distinct accepted certificates plus distinct rejected mutations")
	r.Assume("the reference model of the consensus key set/threshold is the harness' own reading of the membership rules; disagreement with the node's view shows up as a violation here or in C10/C11")
	rng := r.Rand()
	nh := r.N(6, 300)
	accepted, rejected := 0, 0
	// two more histories are directed: all-genesis memberships whose size crosses a multiple of three when one more
	// node is counted (8, 11, 14, 17, 20), with a pledge that stays pending around and beyond its twelfth hour (the
	// situation right before every acceptance)
	for hi := 0; hi < nh+2; hi++ {
		var h *verifHistory
		var directed []uint64
		if hi >= nh {
			n := []int{8, 11, 14, 17, 20}[(int(r.Seed)+hi)%5]
			label := fmt.Sprintf("c09-pending-pledge-%d-%d", r.Seed, hi)
			epoch := uint64(1_700_000_000) * uint64(time.Second)
			h = &verifHistory{Label: label, Epoch: epoch, Genesis: map[crypto.Hash]bool{}}
			h.NetworkId = crypto.Blake3Hash([]byte("verif-net:" + label))
			for i := 0; i < n; i++ {
				m := h.member(i)
				h.Genesis[m.Id] = true
				h.add(m, common.NodeStateAccepted, epoch)
			}
			pledgedAt := epoch + 5*OneDay + uint64(rng.Intn(int(6*time.Hour)))
			h.add(h.member(n), common.NodeStatePledging, pledgedAt)
			h.sortRecords()
			for _, d := range []time.Duration{time.Hour, 11 * time.Hour, 12*time.Hour - 91*time.Second, 12*time.Hour - 90*time.Second, 12*time.Hour - 89*time.Second,
				12*time.Hour - 1, 12 * time.Hour, 12*time.Hour + 1, 13 * time.Hour, 30 * time.Hour, 6 * 24 * time.Hour} {
				directed = append(directed, pledgedAt+uint64(d))
			}
			r.Count("directed_pending_pledge_histories", 1)
		} else if hi%3 == 2 {
			h = verifLegacyHistory(fmt.Sprintf("c09-%d-%d", r.Seed, hi), rng, 8+rng.Intn(13), 5+rng.Intn(36))
			r.Count("legacy_rule_histories", 1)
		} else {
			h = verifRandomHistory(fmt.Sprintf("c09-%d-%d", r.Seed, hi), rng, 7+rng.Intn(14), 5+rng.Intn(36))
		}
		node, closeNode := h.nodeOwned()
		var freshClose []func()
		fresh := func() *Node {
			for _, f := range freshClose { // the previous judgement is over
				f()
			}
			n, cl := h.nodeOwned()
			freshClose = []func(){cl}
			return n
		}
		times := h.boundaries(rng, 20)
		rng.Shuffle(len(times), func(i, j int) { times[i], times[j] = times[j], times[i] })
		nq := r.N(22, 120)
		if len(times) > nq {
			times = times[:nq]
		}
		times = append(vC09LegacyTimes(h, rng), times...)
		if directed != nil {
			times = directed
		}
		for _, ts := range times {
			c := &vC09Case{h: h}
			// chain: an accepted member, or the pledging node's own chain at round 0
			list := h.refList(ts)
			if len(list) == 0 {
				continue
			}
			var pl *verifRefNode
			if last := list[len(list)-1]; last.State == common.NodeStatePledging {
				pl = last
			}
			round := uint64(1 + rng.Intn(5))
			if pl != nil && rng.Intn(2) == 0 {
				for _, m := range h.Members {
					if m.Id == pl.Id {
						c.pledging = m
					}
				}
				c.chainId, round = pl.Id, 0
				r.Count("pledging_chain_round_zero_cases", 1)
				if rng.Intn(3) == 0 {
					// a later round presented for a chain that is still pledging (arrives through the network path that
					// verifies before queueing): the pledging node is not a member of that key set
					round = uint64(1 + rng.Intn(5))
					r.Count("pledging_chain_later_round_cases", 1)
				}
			} else {
				c.chainId = list[rng.Intn(len(list))].Id
			}
			chain := c.chain(node)
			cids, publics := chain.ConsensusKeys(round, ts)
			thr := node.ConsensusThreshold(ts, true)
			r.Eval()
			if thr > len(cids) || len(cids) == 0 {
				r.Count("timestamps_without_possible_certificate", 1)
				// nothing can be certified here; a forged full mask must still be rejected
				if len(cids) > 0 {
					s := vC09Snapshot(c.chainId, round, ts, rng)
					pos := make([]int, len(cids))
					for i := range pos {
						pos[i] = i
					}
					if sig, err := vC09Cosi(h, s.Hash, cids, publics, pos); err == nil {
						s.Signature = sig
						c.snap = s
						vC09Judge(r, c, node, fresh(), "below-minimum-membership", &accepted, &rejected)
					}
				}
				continue
			}
			base := vC09Snapshot(c.chainId, round, ts, rng)
			// legacy rule: certificates over the larger key vector from before the operation window, with the
			// threshold of that vector, one signer less, and the (smaller) threshold of the current membership
			if lts, ok := h.refLegacyTs(ts); ok {
				lids, lpubs := chain.ConsensusKeys(round, lts)
				lthr := node.ConsensusThreshold(lts, true)
				if len(lids) > len(cids) && lthr <= len(lids) {
					r.Count("legacy_rule_timestamps", 1)
					for _, n := range []int{lthr, lthr - 1, thr, len(lids)} {
						if n < 1 || n > len(lids) {
							continue
						}
						pos := rng.Perm(len(lids))[:n]
						sort.Ints(pos)
						s := *base
						sig, err := vC09Cosi(h, s.Hash, lids, lpubs, pos)
						if err != nil {
							r.Count("signing_errors", 1)
							continue
						}
						s.Signature = sig
						c.snap = &s
						c.label = fmt.Sprintf("legacy-%d-of-%d-thr-%d-current-%d-thr-%d", n, len(lids), lthr, len(cids), thr)
						vC09Judge(r, c, node, fresh(), "legacy-key-set", &accepted, &rejected)
					}
				}
			}
			// where the legacy rule does NOT apply (other networks, or after the activation): a certificate over the
			// larger key vector from before the operation window is stale and must not be accepted
			if _, legacy := h.refLegacyTs(ts); !legacy && ts > h.Epoch {
				if hr := h.hourOf(ts); hr >= 13 && hr <= 19 {
					lts := ts - uint64(hr+1-13)*uint64(time.Hour)
					lids, lpubs := chain.ConsensusKeys(round, lts)
					lthr := node.ConsensusThreshold(lts, true)
					if len(lids) > len(cids) && lthr <= len(lids) {
						r.Count("stale_pre_window_key_vector_timestamps", 1)
						for _, n := range []int{lthr, len(lids)} {
							pos := rng.Perm(len(lids))[:n]
							sort.Ints(pos)
							s := *base
							sig, err := vC09Cosi(h, s.Hash, lids, lpubs, pos)
							if err != nil {
								r.Count("signing_errors", 1)
								continue
							}
							s.Signature = sig
							c.snap = &s
							c.label = fmt.Sprintf("stale-%d-of-%d-current-%d-thr-%d", n, len(lids), len(cids), thr)
							vC09Judge(r, c, node, fresh(), "stale-pre-window-key-set", &accepted, &rejected)
						}
					}
				}
			}
			// honest certificates
			for _, n := range []int{thr, thr - 1, thr + rng.Intn(len(cids)-thr+1)} {
				if n < 1 {
					continue
				}
				pos := rng.Perm(len(cids))[:n]
				sort.Ints(pos)
				s := *base
				sig, err := vC09Cosi(h, s.Hash, cids, publics, pos)
				if err != nil {
					r.Count("signing_errors", 1)
					continue
				}
				s.Signature = sig
				c.snap = &s
				c.label = fmt.Sprintf("honest-%d-of-%d-thr-%d", n, len(cids), thr)
				ok := vC09Judge(r, c, node, fresh(), "honest", &accepted, &rejected)
				if n >= thr && !ok {
					r.Count("honest_threshold_certificates_rejected", 1)
				}
				if n < thr || !ok {
					continue
				}
				// mutations of an accepted certificate
				for _, mut := range []string{"mask-bit", "mask-move", "mask-move", "sig-byte", "hash", "time-shift", "round-zero"} {
					m := s
					ms := *s.Signature
					m.Signature = &ms
					switch mut {
					case "mask-bit":
						m.Signature.Mask ^= 1 << uint(rng.Intn(len(cids)+2))
						if m.Signature.Mask == 0 {
							continue
						}
					case "mask-move":
						// same number of signers, one of them replaced by a non-signer (same popcount)
						var set, unset []int
						for b := 0; b < len(cids); b++ {
							if m.Signature.Mask&(1<<uint(b)) != 0 {
								set = append(set, b)
							} else {
								unset = append(unset, b)
							}
						}
						if len(set) == 0 || len(unset) == 0 {
							continue
						}
						m.Signature.Mask ^= 1 << uint(set[rng.Intn(len(set))])
						m.Signature.Mask ^= 1 << uint(unset[rng.Intn(len(unset))])
					case "sig-byte":
						m.Signature.Signature[rng.Intn(64)] ^= byte(1 << uint(rng.Intn(8)))
					case "hash":
						m.Transactions = []crypto.Hash{crypto.Blake3Hash([]byte(fmt.Sprint("other", rng.Int63())))}
						m.Hash = m.PayloadHash()
					case "time-shift":
						// same certificate presented at a timestamp with another membership view
						o := times[rng.Intn(len(times))]
						m.Timestamp = o
						m.Hash = m.PayloadHash()
					case "round-zero":
						if m.RoundNumber == 0 {
							m.RoundNumber = 1
						} else {
							m.RoundNumber = 0
						}
						m.Hash = m.PayloadHash()
					}
					cm := *c
					cm.snap = &m
					vC09Judge(r, &cm, node, fresh(), "mut-"+mut, &accepted, &rejected)
				}
			}
		}
		for _, f := range freshClose {
			f()
		}
		closeNode()
	}
	// the key vector and threshold a running node uses after a removal stamped a little ahead of its clock must be the
	// ones of a node set up later from the same records (a removed node's key must not stay in the set)
	verifAheadOfClock(t, r, "c09k", "C09|key-set|running-node-differs-from-a-node-set-up-later", func(f *verifFeed, q uint64) string {
		ch := f.chain(f.net.NodeIds[len(f.net.NodeIds)-1])
		ids, _ := ch.ConsensusKeys(1, q)
		return fmt.Sprintf("%v|T%d", ids, f.node.ConsensusThreshold(q, true))
	})
	r.Note("accepted_certificates", accepted)
	r.Note("rejected_certificates", rejected)
	if accepted < 20 {
		r.Inconclusive(fmt.Sprintf("only %d accepted certificates", accepted))
	}
	r.Finish()
}

func vC09Snapshot(chain crypto.Hash, round, ts uint64, rng *rand.Rand) *common.Snapshot {
	s := &common.Snapshot{Version: common.SnapshotVersionCommonEncoding, NodeId: chain, RoundNumber: round, Timestamp: ts,
		Transactions: []crypto.Hash{crypto.Blake3Hash([]byte(fmt.Sprint("tx", rng.Int63())))}}
	if round > 0 {
		s.References = &common.RoundLink{Self: crypto.Blake3Hash([]byte("self")), External: crypto.Blake3Hash([]byte("ext"))}
	}
	s.Hash = s.PayloadHash()
	return s
}

// vC09Judge runs verifyFinalization (cold, warm, and on a node with an empty
// cache), checks the answers agree and applies the oracle to acceptances.
func vC09Judge(r *verifkit.Run, c *vC09Case, node, other *Node, class string, accepted, rejected *int) bool {
	chain := c.chain(node)
	s1 := *c.snap
	signers, ok := chain.verifyFinalization(&s1)
	node.cacheStore.Wait()
	s2 := *c.snap
	signers2, ok2 := chain.verifyFinalization(&s2)
	s3 := *c.snap
	signers3, ok3 := c.chain(other).verifyFinalization(&s3)
	r.Count("verifications", 3)
	same := ok == ok2 && ok == ok3 && len(signers) == len(signers2) && len(signers) == len(signers3)
	if same && ok {
		for i := range signers {
			if signers[i] != signers2[i] || signers[i] != signers3[i] {
				same = false
			}
		}
	}
	if !same {
		r.Violation("C09|memoized-answer-differs|"+class, fmt.Sprintf("verification answers differ between first, cached and fresh evaluation: %v/%v/%v", ok, ok2, ok3),
			map[string]any{"class": class, "case": c.label, "timestamp": c.snap.Timestamp, "mask": c.snap.Signature.Mask})
	}
	key := fmt.Sprintf("%s|%s|%d|%x", class, c.snap.Hash, c.snap.Signature.Mask, c.snap.Signature.Signature[:8])
	if !ok {
		*rejected++
		r.Count("rejected_"+class, 1)
		r.Nontrivial("rej|" + key)
		return false
	}
	*accepted++
	r.Count("accepted_"+class, 1)
	r.Nontrivial("acc|" + key)
	if bad := vC09Oracle(c, signers); bad != "" {
		cls := "mask-or-threshold"
		switch {
		case bad[:9] == "aggregate":
			cls = "signature"
		case bad[:8] == "returned":
			cls = "signers"
		case bad[:13] == "accepted with":
			cls = "hash"
		}
		r.Violation("C09|accepted|"+class+"|"+cls, "a certificate was accepted as final although "+bad,
			map[string]any{"class": class, "case": c.label, "timestamp": c.snap.Timestamp, "round": c.snap.RoundNumber,
				"mask": fmt.Sprintf("%b", c.snap.Signature.Mask), "hours_since_epoch": float64(c.snap.Timestamp-c.h.Epoch) / float64(time.Hour), "oracle": bad})
	} else if r.SampleCount() < 4 {
		r.Sample(map[string]any{"class": class, "case": c.label, "timestamp": c.snap.Timestamp, "mask": fmt.Sprintf("%b", c.snap.Signature.Mask), "accepted": true})
	}
	return true
}
