package kernel

import (
	"encoding/binary"
	"fmt"
	"math/big"
	"sort"
	"testing"
	"time"

	"github.com/MixinNetwork/mixin/common"
	"github.com/MixinNetwork/mixin/crypto"
	"github.com/MixinNetwork/mixin/storage"
	"github.com/MixinNetwork/mixin/verifgen"
	"github.com/MixinNetwork/mixin/verifkit"
)

func vC28ConsensusClass(tx *common.VersionedTransaction) bool {
	switch tx.TransactionType() {
	case common.TransactionTypeMint, common.TransactionTypeNodePledge, common.TransactionTypeNodeCancel, common.TransactionTypeNodeAccept,
		common.TransactionTypeNodeRemove, common.TransactionTypeCustodianUpdateNodes, common.TransactionTypeCustodianSlashNodes:
		return true
	}
	return false
}

func vC28Batchable(tx *common.VersionedTransaction) bool {
	switch tx.TransactionType() {
	case common.TransactionTypeScript, common.TransactionTypeDeposit, common.TransactionTypeWithdrawalSubmit, common.TransactionTypeWithdrawalClaim:
		return true
	}
	return false
}

// vC28Retarget returns a copy of a transaction with other references (the
// signatures are irrelevant for the kernel snapshot rules).
func vC28Retarget(tx *common.VersionedTransaction, refs []crypto.Hash) *common.VersionedTransaction {
	raw := tx.Transaction
	raw.References = refs
	return raw.AsVersioned()
}

// TestVerif_C28: consensus operations form a serialized single-transaction chain.
func TestVerif_C28(t *testing.T) {
	r := verifkit.Start(t, "C28", "exploration")
	r.SetRule("W-feed on 9 chains over several days. (a) Batch rules: snapshots mixing batchable transactions (deposits, transfers, withdrawals) with consensus-class ones " +
		"(real node removals, custodian updates, universal mints, node pledges and node acceptances built the way the elected or joining node builds them, plus mint/pledge-typed transactions), and lone consensus transactions whose first " +
		"reference and snapshot timestamp are varied (right predecessor, older predecessor, none; later, equal, earlier than the last consensus snapshot), are given to " +
		"validateKernelSnapshot (both finalized flags); whatever it accepts must satisfy: >1 transaction => all batchable; lone consensus transaction => first reference is " +
		"the last recorded consensus transaction and the timestamp is strictly later. (b) History: after each finalized consensus snapshot ReadLastConsensusSnapshot is that " +
		"snapshot, the recorded operations form one chain (each references its predecessor's sole transaction, timestamps strictly increase) and the CONSENSUSSNAPSHOT records " +
		"have exactly one open tail. non-trivial = distinct (case class, verdict) observations and distinct finalized consensus snapshots")
	rng := r.Rand()
	f := verifNewFeed(t, fmt.Sprintf("c28-%d", r.Seed), 9, rng, t.TempDir(), nil)
	defer func() { f.stop() }()
	w := verifgen.NewWallet(f.net.Label, rng, &f.net.Custodian, 4)
	assets := verifgen.Assets()
	days := r.N(5, 60)

	type rec struct {
		snap *common.Snapshot
		tx   *common.VersionedTransaction
	}
	var chainOps []rec
	gl, _ := f.node.persistStore.ReadLastConsensusSnapshot()
	gtx, _, _ := f.node.persistStore.ReadTransaction(gl.Transactions[0])
	chainOps = append(chainOps, rec{gl, gtx})

	ordinary := func(n int) []*common.VersionedTransaction {
		var out []*common.VersionedTransaction
		for i := 0; i < n; i++ {
			chainId := f.net.NodeIds[rng.Intn(len(f.net.NodeIds))]
			var tx *common.VersionedTransaction
			var specs []verifgen.OutSpec
			if len(w.Outs) < 4 || rng.Intn(2) == 0 {
				tx, specs = w.Deposit(assets[rng.Intn(len(assets))], big.NewInt(int64(1+rng.Intn(1e8))))
			} else if rng.Intn(4) == 0 {
				tx, specs, _ = w.TransferWithdrawal(1, 2, true)
			} else {
				tx, specs, _ = w.Transfer(1+rng.Intn(2), 1+rng.Intn(2), true)
			}
			if tx == nil {
				continue
			}
			if _, d := f.feedBatch(chainId, []*common.VersionedTransaction{tx}, f.tick(uint64(2*time.Second))); d.Finalized {
				w.Applied(tx, specs)
				out = append(out, tx)
			}
		}
		return out
	}

	// judge gives a snapshot + its transactions to the kernel batch rules and applies the oracle
	viaNode := false // judge through validateSnapshotTransaction (bodies read from the store) instead of validateKernelSnapshot
	judge := func(class string, chainId crypto.Hash, ts uint64, txs []*common.VersionedTransaction) {
		for _, finalized := range []bool{false, true} {
			s := &common.Snapshot{Version: common.SnapshotVersionCommonEncoding, NodeId: chainId, RoundNumber: 1 + uint64(rng.Intn(5)), Timestamp: ts}
			if len(class) > 6 && class[:6] == "accept" && len(txs) == 1 {
				s.RoundNumber = 0 // an acceptance opens the new node's chain (round zero cannot carry more than one transaction)
			}
			found := map[crypto.Hash]*common.VersionedTransaction{}
			for _, tx := range txs {
				s.Transactions = append(s.Transactions, tx.PayloadHash())
				found[tx.PayloadHash()] = tx
			}
			sort.Slice(s.Transactions, func(i, j int) bool { return string(s.Transactions[i][:]) < string(s.Transactions[j][:]) })
			s.Hash = s.PayloadHash()
			last, _ := f.node.persistStore.ReadLastConsensusSnapshot()
			var err error
			panicked, pv, _ := verifkit.Guard(func() {
				if viaNode {
					var missing []crypto.Hash
					_, missing, err = f.node.validateSnapshotTransaction(s, finalized)
					if err == nil && len(missing) > 0 {
						err = fmt.Errorf("missing transactions")
					}
				} else {
					err = f.node.validateKernelSnapshot(s, found, finalized)
				}
			})
			r.Eval()
			verdict := "rejected"
			if panicked {
				verdict = "panicked"
				_ = pv
			} else if err == nil {
				verdict = "accepted"
			}
			r.Nontrivial(fmt.Sprintf("%s|%v|%s", class, finalized, verdict))
			r.Count(fmt.Sprintf("%s_%s", class, verdict), 1)
			if verdict != "accepted" {
				continue
			}
			if len(txs) > 1 {
				for _, tx := range txs {
					if !vC28Batchable(tx) {
						r.Violation("C28|batch|non-batchable-in-multi-transaction-snapshot|"+class,
							fmt.Sprintf("a snapshot with %d transactions containing a type %d transaction passed the batch rules (finalized=%v)", len(txs), tx.TransactionType(), finalized),
							map[string]any{"class": class, "finalized": finalized, "types": vC28Types(txs)})
					}
				}
				continue
			}
			tx := txs[0]
			if !vC28ConsensusClass(tx) {
				continue
			}
			if tx.PayloadHash() == last.Transactions[0] {
				continue // the recorded operation itself (idempotent re-validation)
			}
			if len(tx.References) < 1 || tx.References[0] != last.Transactions[0] {
				r.Violation("C28|lone|wrong-predecessor-reference|"+class,
					fmt.Sprintf("a consensus-class transaction (type %d) whose first reference is not the last recorded consensus operation passed (finalized=%v)", tx.TransactionType(), finalized),
					map[string]any{"class": class, "finalized": finalized})
			}
			if ts <= last.Timestamp {
				r.Violation("C28|lone|timestamp-not-later|"+class,
					fmt.Sprintf("a consensus-class snapshot at %d passed although the last consensus snapshot is at %d (finalized=%v)", ts, last.Timestamp, finalized),
					map[string]any{"class": class, "finalized": finalized})
			}
			if r.SampleCount() < 4 {
				r.Sample(map[string]any{"class": class, "type": tx.TransactionType(), "finalized": finalized, "accepted": true})
			}
		}
	}

	var prebuilt *common.Snapshot // a certified snapshot built by the caller (node acceptance: round zero of a new chain)
	finalizeOp := func(kind string, chainId crypto.Hash, tx *common.VersionedTransaction, ts uint64) bool {
		var d verifDelivery
		if prebuilt != nil {
			s := prebuilt
			prebuilt = nil
			d = f.deliver(s, []*common.VersionedTransaction{tx})
			if st, _ := f.node.persistStore.ReadSnapshot(s.Hash); st != nil && !d.Panicked {
				d.Finalized = true
			}
		} else {
			_, d = f.feedBatch(chainId, []*common.VersionedTransaction{tx}, ts)
			if !d.Finalized {
				_, d = f.feedBatch(chainId, []*common.VersionedTransaction{tx}, f.tick(uint64(time.Second)))
			}
		}
		if !d.Finalized {
			r.Count("consensus_op_not_finalized_"+kind, 1)
			t.Logf("%s not finalized: %v %v", kind, d.Err, d.PanicVal)
			return false
		}
		r.Count("consensus_ops_finalized_"+kind, 1)
		last, err := f.node.persistStore.ReadLastConsensusSnapshot()
		if err != nil || last == nil || len(last.Transactions) != 1 || last.Transactions[0] != tx.PayloadHash() {
			r.Violation("C28|history|marker-not-advanced", "after a finalized consensus snapshot the last recorded consensus operation is another one", map[string]any{"kind": kind})
			return true
		}
		r.Nontrivial("op|" + last.PayloadHash().String())
		prev := chainOps[len(chainOps)-1]
		if len(tx.References) < 1 || tx.References[0] != prev.tx.PayloadHash() {
			r.Violation("C28|history|broken-chain", "a finalized consensus operation does not reference its predecessor", map[string]any{"kind": kind})
		}
		if last.Timestamp <= prev.snap.Timestamp {
			r.Violation("C28|history|timestamps-not-increasing", "a finalized consensus snapshot is not later than its predecessor", map[string]any{"kind": kind})
		}
		chainOps = append(chainOps, rec{last, tx})
		vC28Dump(r, f, len(chainOps))
		return true
	}

	for day := 0; day < days; day++ {
		pool := ordinary(4 + rng.Intn(4))
		// 1. node removal in the operation window
		ts := f.atHour(13+rng.Intn(2), 30*time.Minute)
		rmChain, rmTx, err := f.buildNodeRemove(ts)
		if err == nil {
			// batch-rule probes with the not-yet-finalized removal
			if len(pool) > 0 {
				judge("removal+batchable", rmChain, ts, []*common.VersionedTransaction{rmTx, pool[rng.Intn(len(pool))]})
			}
			judge("removal-alone", rmChain, ts, []*common.VersionedTransaction{rmTx})
			if len(chainOps) > 1 {
				stale := vC28Retarget(rmTx, []crypto.Hash{chainOps[len(chainOps)-2].tx.PayloadHash()})
				judge("removal-older-predecessor", rmChain, ts, []*common.VersionedTransaction{stale})
			}
			judge("removal-no-reference", rmChain, ts, []*common.VersionedTransaction{vC28Retarget(rmTx, nil)})
			finalizeOp("node-remove", rmChain, rmTx, f.tick(uint64(time.Second)))
		} else {
			r.Count("removal_not_buildable", 1)
		}
		pool = append(pool, ordinary(2)...)
		if len(pool) == 0 {
			continue
		}
		// 2. custodian update some minutes later, same window: probes around the last consensus snapshot
		last := chainOps[len(chainOps)-1]
		nc := verifgen.Addr(fmt.Sprintf("%s:cust:%d", f.net.Label, day))
		ts2 := f.tick(uint64(10 * time.Minute))
		cuChain, cuTx, err := f.buildCustodianUpdate(w, ts2, &nc, f.net.NodeIds[rng.Intn(len(f.net.NodeIds))])
		if err != nil {
			r.Count("custodian_update_not_buildable", 1)
			t.Logf("custodian update: %v", err)
			continue
		}
		ts2 = f.tick(uint64(time.Second))
		judge("custodian-alone", cuChain, ts2, []*common.VersionedTransaction{cuTx})
		if len(pool) > 0 {
			judge("custodian+batchable", cuChain, ts2, []*common.VersionedTransaction{cuTx, pool[rng.Intn(len(pool))]})
			judge("custodian+2-batchable", cuChain, ts2, []*common.VersionedTransaction{pool[0], cuTx, pool[len(pool)-1]})
		}
		if len(pool) > 1 {
			judge("batchable-only", cuChain, ts2, []*common.VersionedTransaction{pool[0], pool[1]})
		}
		if len(chainOps) > 1 {
			judge("custodian-older-predecessor", cuChain, ts2, []*common.VersionedTransaction{vC28Retarget(cuTx, []crypto.Hash{chainOps[len(chainOps)-2].tx.PayloadHash()})})
		}
		judge("custodian-foreign-reference", cuChain, ts2, []*common.VersionedTransaction{vC28Retarget(cuTx, []crypto.Hash{pool[0].PayloadHash()})})
		judge("custodian-no-reference", cuChain, ts2, []*common.VersionedTransaction{vC28Retarget(cuTx, nil)})
		judge("custodian-second-reference-right", cuChain, ts2, []*common.VersionedTransaction{vC28Retarget(cuTx, []crypto.Hash{pool[0].PayloadHash(), last.tx.PayloadHash()})})
		// same operation presented at, and before, the last consensus snapshot's time (the elected node of that instant)
		for _, early := range []uint64{last.snap.Timestamp, last.snap.Timestamp - 1, last.snap.Timestamp - uint64(time.Minute)} {
			eid := f.node.electSnapshotNode(common.TransactionTypeCustodianUpdateNodes, early)
			cls := "custodian-timestamp-earlier"
			if early == last.snap.Timestamp {
				cls = "custodian-timestamp-equal"
			}
			judge(cls, eid, early, []*common.VersionedTransaction{cuTx})
		}
		// typed-only probes: a mint-typed and a pledge-typed transaction next to batchable ones
		mint := common.NewTransactionV5(common.XINAssetId)
		mint.AddUniversalMintInput(uint64(2000+day), common.NewInteger(10))
		mint.References = []crypto.Hash{last.tx.PayloadHash()}
		verifgen.AddOutputs(mint, []verifgen.OutSpec{w.Spec(common.NewInteger(10), 1)})
		judge("mint+batchable", cuChain, ts2, []*common.VersionedTransaction{mint.AsVersioned(), pool[0]})
		pledge := common.NewTransactionV5(common.XINAssetId)
		pledge.AddInput(pool[0].PayloadHash(), 0)
		verifgen.AddOutputs(pledge, []verifgen.OutSpec{{Type: common.OutputTypeNodePledge, Amount: common.KernelNodePledgeAmount}})
		pledge.References = []crypto.Hash{last.tx.PayloadHash()}
		judge("pledge+batchable", cuChain, ts2, []*common.VersionedTransaction{pledge.AsVersioned(), pool[0]})

		if finalizeOp("custodian-update", cuChain, cuTx, ts2) {
			w.Custodian = &nc
			// the recorded operation re-validated after it became the last one, and an older one replayed
			judge("replay-last-operation", cuChain, ts2, []*common.VersionedTransaction{cuTx})
			if rmTx != nil {
				judge("replay-older-operation", rmChain, ts2+1, []*common.VersionedTransaction{rmTx})
			}
			// the same through the node's snapshot-transaction validation, which reads the (already finalized)
			// bodies from the store: another chain's snapshot repeating finalized transactions
			viaNode = true
			other := f.net.NodeIds[rng.Intn(len(f.net.NodeIds))]
			if len(pool) > 0 {
				judge("stored:finalized-op-after-batchable", other, ts2+2, []*common.VersionedTransaction{pool[0], cuTx})
				judge("stored:finalized-op-before-batchable", other, ts2+2, []*common.VersionedTransaction{cuTx, pool[len(pool)-1]})
			}
			if len(pool) > 1 {
				judge("stored:batchable-only", other, ts2+2, []*common.VersionedTransaction{pool[0], pool[1]})
			}
			if rmTx != nil {
				judge("stored:replay-older-operation", other, ts2+3, []*common.VersionedTransaction{rmTx})
			}
			viaNode = false
		}
	}
	opsFirst := len(chainOps)

	// Second history: the mint / pledge / acceptance classes, built the way the elected (or joining) node builds
	// them, on an epoch five years back (universal mints exist from batch 1707 on).
	f.stop()
	f = verifNewFeedAt(t, fmt.Sprintf("c28m-%d", r.Seed), 7, rng, t.TempDir(), nil, verifMintEpochUnix(), 1707)
	w = verifgen.NewWallet(f.net.Label, rng, &f.net.Custodian, 4)
	gl, _ = f.node.persistStore.ReadLastConsensusSnapshot()
	gtx, _, _ = f.node.persistStore.ReadTransaction(gl.Transactions[0])
	chainOps = []rec{{gl, gtx}}
	probes := func(kind string, chainId crypto.Hash, ts uint64, tx *common.VersionedTransaction, pool []*common.VersionedTransaction) {
		judge(kind+"-alone", chainId, ts, []*common.VersionedTransaction{tx})
		if len(pool) > 0 {
			judge(kind+"+batchable", chainId, ts, []*common.VersionedTransaction{tx, pool[rng.Intn(len(pool))]})
		}
		if len(pool) > 1 {
			judge(kind+"+2-batchable", chainId, ts, []*common.VersionedTransaction{pool[0], tx, pool[1]})
		}
		if len(chainOps) > 1 {
			judge(kind+"-older-predecessor", chainId, ts, []*common.VersionedTransaction{vC28Retarget(tx, []crypto.Hash{chainOps[len(chainOps)-2].tx.PayloadHash()})})
		}
		judge(kind+"-no-reference", chainId, ts, []*common.VersionedTransaction{vC28Retarget(tx, nil)})
		last := chainOps[len(chainOps)-1]
		if last.snap.Timestamp > 0 {
			for _, early := range []uint64{last.snap.Timestamp, last.snap.Timestamp - uint64(time.Minute)} {
				cls := kind + "-timestamp-earlier"
				if early == last.snap.Timestamp {
					cls = kind + "-timestamp-equal"
				}
				judge(cls, chainId, early, []*common.VersionedTransaction{tx})
			}
		}
	}
	cycles := r.N(1, 12)
	for c := 0; c < cycles; c++ {
		pool := ordinary(3 + rng.Intn(3))
		if mc, mtx, mts, err := f.buildMint(w); err != nil {
			r.Count("mint_not_buildable", 1)
			t.Logf("mint: %v", err)
		} else {
			probes("mint", mc, mts, mtx, pool)
			if finalizeOp("mint", mc, mtx, mts) {
				judge("replay-last-operation", mc, mts, []*common.VersionedTransaction{mtx})
			}
		}
		pool = append(pool, ordinary(2)...)
		pc, ptx, pts, cand, err := f.buildPledge(w)
		if err != nil {
			r.Count("pledge_not_buildable", 1)
			t.Logf("pledge: %v", err)
			continue
		}
		probes("pledge", pc, pts, ptx, pool)
		if !finalizeOp("node-pledge", pc, ptx, pts) {
			continue
		}
		as, atx, err := f.buildAccept(cand)
		if err == nil {
			_, err = f.sign(as, rng.Intn(2))
		}
		if err != nil {
			r.Count("accept_not_buildable", 1)
			t.Logf("accept: %v", err)
			continue
		}
		probes("accept", as.NodeId, as.Timestamp, atx, pool)
		// a cancellation of the same pledge, at the same instant (it would be valid in place of the acceptance): the
		// kernel snapshot rules do not look at its signature
		ctx := common.NewTransactionV5(common.XINAssetId)
		ctx.AddInput(ptx.PayloadHash(), 0)
		fee := common.KernelNodePledgeAmount.Div(100)
		ctx.Outputs = append(ctx.Outputs, &common.Output{Type: common.OutputTypeNodeCancel, Amount: fee, Keys: []*crypto.Key{}})
		ctx.AddOutputWithType(common.OutputTypeScript, []*common.Address{&cand.Funder}, common.NewThresholdScript(1), common.KernelNodePledgeAmount.Sub(fee), verifgen.Seed64(fmt.Sprint("c28-cancel", r.Seed, c)))
		ctx.Extra = append(cand.Extra(), cand.Funder.PrivateViewKey[:]...)
		ctx.References = []crypto.Hash{chainOps[len(chainOps)-1].tx.PayloadHash()}
		probes("cancel", f.net.NodeIds[1+rng.Intn(len(f.net.NodeIds)-1)], as.Timestamp, ctx.AsVersioned(), pool)
		prebuilt = as
		finalizeOp("node-accept", as.NodeId, atx, as.Timestamp)
	}
	// Third history: the process stops between the durable write of a mint snapshot and the separate write of the
	// consensus marker, another chain's snapshot lands in between, and the node starts again. The next operation the
	// restarted node builds, and the ones it accepts, must continue the chain at the mint.
	{
		dir := t.TempDir()
		var px *verifProxy
		fc := verifNewFeedAt(t, fmt.Sprintf("c28c-%d", r.Seed), 7, rng, dir, func(bs *storage.BadgerStore) storage.Store { px = newVerifProxy(bs); return px }, verifMintEpochUnix(), 1707)
		wc := verifgen.NewWallet(fc.net.Label, rng, &fc.net.Custodian, 3)
		mc, mtx, mts, err := fc.buildMint(wc)
		var ms *common.Snapshot
		if err == nil {
			ms, err = fc.nextSnapshot(mc, []crypto.Hash{mtx.PayloadHash()}, mts)
		}
		if err == nil {
			_, err = fc.sign(ms, 0)
		}
		if err != nil {
			r.Count("crash_history_mint_not_buildable", 1)
			t.Logf("crash history: %v", err)
			fc.stop()
		} else {
			before, _ := fc.node.persistStore.ReadLastConsensusSnapshot()
			px.cutBeforeMethod = "WriteConsensusSnapshot"
			d := fc.deliver(ms, []*common.VersionedTransaction{mtx})
			_, crashed := d.PanicVal.(verifCrash)
			net, cursor := fc.net, fc.cursor
			fc.stop()
			if !d.Panicked || !crashed {
				r.Count("crash_history_stop_not_reached", 1)
			} else if f2, err := verifFeedOn(t, net, rng, dir, nil); err != nil {
				r.Count("crash_history_restart_failed_(C22_territory)", 1)
			} else {
				f2.cursor = cursor
				r.Eval()
				r.Count("crash_histories", 1)
				if st, _ := f2.node.persistStore.ReadSnapshot(ms.Hash); st == nil {
					r.Count("crash_history_mint_not_durable", 1)
				} else {
					r.Nontrivial("crash-history|" + ms.Hash.String())
					// what the restarted node builds next
					if pc, ptx, pts, _, err := f2.buildPledge(wc); err != nil {
						r.Count("crash_history_pledge_not_buildable", 1)
						t.Logf("crash history pledge: %v", err)
					} else {
						if len(ptx.References) < 1 || ptx.References[0] != mtx.PayloadHash() {
							r.Violation("C28|history|operation-built-on-an-older-predecessor-after-restart",
								"after a stop between the mint snapshot and its consensus marker and a restart, the next consensus operation the node builds references the operation before the mint", nil)
						}
						// and what it accepts: the same pledge retargeted to the operation before the mint
						if before != nil {
							stale := vC28Retarget(ptx, []crypto.Hash{before.Transactions[0]})
							sn := &common.Snapshot{Version: common.SnapshotVersionCommonEncoding, NodeId: pc, RoundNumber: 3, Timestamp: pts, Transactions: []crypto.Hash{stale.PayloadHash()}}
							sn.Hash = sn.PayloadHash()
							for _, finalized := range []bool{false, true} {
								var verr error
								p, _, _ := verifkit.Guard(func() {
									verr = f2.node.validateKernelSnapshot(sn, map[crypto.Hash]*common.VersionedTransaction{stale.PayloadHash(): stale}, finalized)
								})
								r.Eval()
								if !p && verr == nil {
									r.Violation("C28|lone|wrong-predecessor-reference|after-restart", fmt.Sprintf("after a stop between the mint snapshot and its consensus marker and a restart, an operation referencing the operation before the mint passed (finalized=%v)", finalized), nil)
								}
							}
						}
					}
				}
				f2.stop()
			}
		}
	}
	// Batch rule on the main network id, before and after the consensus-reference activation time (the kernel
	// relaxes the reference rule for historical main-network snapshots; the batch rule has no such exemption).
	{
		mn := &Node{networkId: verifMainnetId()}
		pool := ordinary(4)
		var cons []*common.VersionedTransaction
		for i := 0; i < 6; i++ {
			tx := common.NewTransactionV5(common.XINAssetId)
			switch i % 3 {
			case 0:
				tx.AddUniversalMintInput(uint64(1800+i), common.NewInteger(10))
				verifgen.AddOutputs(tx, []verifgen.OutSpec{w.Spec(common.NewInteger(10), 1)})
			case 1:
				tx.AddInput(crypto.Blake3Hash([]byte(fmt.Sprint("mn-pledge", i))), 0)
				verifgen.AddOutputs(tx, []verifgen.OutSpec{{Type: common.OutputTypeNodePledge, Amount: common.KernelNodePledgeAmount}})
			default:
				tx.AddInput(crypto.Blake3Hash([]byte(fmt.Sprint("mn-remove", i))), 0)
				verifgen.AddOutputs(tx, []verifgen.OutSpec{{Type: common.OutputTypeNodeRemove, Amount: common.KernelNodePledgeAmount}})
			}
			cons = append(cons, tx.AsVersioned())
		}
		for _, ts := range []uint64{mainnetConsensusReferenceForkAt - uint64(400*24*time.Hour), mainnetConsensusReferenceForkAt - 1, mainnetConsensusReferenceForkAt, mainnetConsensusReferenceForkAt + uint64(time.Hour)} {
			for _, finalized := range []bool{false, true} {
				for _, ctx := range cons {
					if len(pool) == 0 {
						break
					}
					txs := []*common.VersionedTransaction{ctx, pool[rng.Intn(len(pool))]}
					if rng.Intn(2) == 0 && len(pool) > 1 {
						txs = []*common.VersionedTransaction{pool[0], ctx, pool[1]}
					}
					snap := &common.Snapshot{Version: common.SnapshotVersionCommonEncoding, NodeId: f.net.NodeIds[0], RoundNumber: 3, Timestamp: ts}
					found := map[crypto.Hash]*common.VersionedTransaction{}
					for _, tx := range txs {
						snap.Transactions = append(snap.Transactions, tx.PayloadHash())
						found[tx.PayloadHash()] = tx
					}
					snap.Hash = snap.PayloadHash()
					var err error
					panicked, _, _ := verifkit.Guard(func() { err = mn.validateKernelSnapshot(snap, found, finalized) })
					r.Eval()
					before := ts < mainnetConsensusReferenceForkAt
					verdict := "rejected"
					if panicked {
						verdict = "panicked"
					} else if err == nil {
						verdict = "accepted"
					}
					cls := fmt.Sprintf("main-network-batch|before-activation=%v|finalized=%v", before, finalized)
					r.Nontrivial(cls + "|" + verdict + fmt.Sprint("|", ctx.TransactionType()))
					r.Count("main_network_batch_probes_"+verdict, 1)
					if verdict == "accepted" {
						r.Violation("C28|batch|non-batchable-in-multi-transaction-snapshot|"+cls,
							fmt.Sprintf("on the main network id a snapshot at %d with %d transactions containing a type %d transaction passed the batch rules (finalized=%v)", ts, len(txs), ctx.TransactionType(), finalized),
							map[string]any{"class": cls, "types": vC28Types(txs), "timestamp": ts})
					}
				}
			}
		}
	}
	r.Note("consensus_operations_in_first_history", opsFirst)
	r.Note("consensus_operations_in_history", len(chainOps))
	if len(chainOps) < 3 || opsFirst < 3 {
		r.Inconclusive(fmt.Sprintf("only %d consensus operations in the history", len(chainOps)))
	}
	r.Finish()
}

func vC28Types(txs []*common.VersionedTransaction) []int {
	var out []int
	for _, tx := range txs {
		out = append(out, int(tx.TransactionType()))
	}
	return out
}

// vC28Dump checks the durable consensus chain records: one open tail, every
// other record points at its successor's transaction, in timestamp order.
func vC28Dump(r *verifkit.Run, f *verifFeed, want int) {
	dump := f.badger.VerifDump("CONSENSUSSNAPSHOT")
	type e struct {
		ts  uint64
		key string
		val []byte
	}
	var es []e
	for k, v := range dump {
		b := []byte(k)[len("CONSENSUSSNAPSHOT"):]
		if len(b) != 40 {
			r.Inconclusive("unexpected consensus snapshot key layout")
			return
		}
		es = append(es, e{binary.BigEndian.Uint64(b[:8]), k, v})
	}
	sort.Slice(es, func(i, j int) bool { return es[i].key < es[j].key })
	open := 0
	for i, x := range es {
		if len(x.val) == 0 {
			open++
			if i != len(es)-1 {
				r.Violation("C28|records|open-record-not-last", "a consensus record without successor is not the latest one", nil)
			}
		}
		if i > 0 && es[i-1].ts >= x.ts {
			r.Violation("C28|records|timestamps-not-increasing", "consensus records do not have strictly increasing timestamps", nil)
		}
	}
	if open != 1 {
		r.Violation("C28|records|open-tails", fmt.Sprintf("%d consensus records without successor (want exactly one)", open), nil)
	}
	if len(es) != want {
		r.Violation("C28|records|count", fmt.Sprintf("%d consensus records for %d finalized consensus operations", len(es), want), nil)
	}
	r.Count("consensus_record_dumps_checked", 1)
}
