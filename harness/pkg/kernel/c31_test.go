package kernel

import (
	"fmt"
	"github.com/MixinNetwork/mixin/config"
	"github.com/dgraph-io/ristretto/v2"
	"math/big"
	"sync"
	"testing"
	"time"

	"github.com/MixinNetwork/mixin/common"
	"github.com/MixinNetwork/mixin/crypto"
	"github.com/MixinNetwork/mixin/p2p"
	"github.com/MixinNetwork/mixin/verifgen"
	"github.com/MixinNetwork/mixin/verifkit"
)

// vC31Heavy builds nTx transactions, each spending `ins` outputs of `keys` keys
// all of which sign (small payload, large signed envelope). The funding outputs
// are finalized on the feed first. Key derivation and signing run in parallel.
func vC31Heavy(t *testing.T, f *verifFeed, w *verifgen.Wallet, nTx, ins, keys int, tag string) []*common.VersionedTransaction {
	xin := verifgen.Assets()[0]
	owners := vC31Owners(keys)
	type fund struct {
		dep  *common.VersionedTransaction
		outs []*verifgen.Out
	}
	funds := make([]*fund, nTx)
	var wg sync.WaitGroup
	sem := make(chan struct{}, 16)
	for i := 0; i < nTx; i++ {
		wg.Add(1)
		sem <- struct{}{}
		go func(i int) {
			defer wg.Done()
			defer func() { <-sem }()
			// one deposit with `ins` outputs of `keys` keys each
			tx := common.NewTransactionV5(xin.Id)
			amount := big.NewInt(int64(ins) * 1000)
			tx.AddDepositInput(&common.DepositData{Chain: xin.Chain, AssetKey: xin.Key, Transaction: fmt.Sprintf("0xc31-%s-%d", tag, i), Index: 0, Amount: verifgen.Units(amount)})
			// a deposit has exactly one output: make it a wide one and split it in a second step
			spec := verifgen.OutSpec{Type: common.OutputTypeScript, Owners: owners[:1], Threshold: 1, Amount: verifgen.Units(amount), Seed: verifgen.Seed64(fmt.Sprintf("c31-dep-%s-%d", tag, i))}
			verifgen.AddOutputs(tx, []verifgen.OutSpec{spec})
			dep := tx.AsVersioned()
			sig := w.Custodian.PrivateSpendKey.Sign(dep.PayloadHash())
			dep.SignaturesMap = []map[uint16]*crypto.Signature{{0: &sig}}
			funds[i] = &fund{dep: dep, outs: verifgen.OutsOf(dep, []verifgen.OutSpec{spec})}
		}(i)
	}
	wg.Wait()
	// finalize deposits in batches
	for i := 0; i < nTx; i += 40 {
		var batch []*common.VersionedTransaction
		for j := i; j < nTx && j < i+40; j++ {
			batch = append(batch, funds[j].dep)
		}
		if _, d := f.feedBatch(f.net.NodeIds[1+(i/40)%6], batch, f.tick(uint64(2*time.Second))); !d.Finalized {
			t.Fatalf("funding deposits not finalized: %v %v", d.Err, d.PanicVal)
		}
	}
	// split each deposit into `ins` wide outputs
	splits := make([]*common.VersionedTransaction, nTx)
	wide := make([][]*verifgen.Out, nTx)
	for i := 0; i < nTx; i++ {
		wg.Add(1)
		sem <- struct{}{}
		go func(i int) {
			defer wg.Done()
			defer func() { <-sem }()
			var specs []verifgen.OutSpec
			for k := 0; k < ins; k++ {
				specs = append(specs, verifgen.OutSpec{Type: common.OutputTypeScript, Owners: owners, Threshold: uint8(1), Amount: verifgen.UnitsU(1000),
					Seed: verifgen.Seed64(fmt.Sprintf("c31-wide-%s-%d-%d", tag, i, k))})
			}
			raw := verifgen.BuildTx(xin.Id, funds[i].outs, specs, nil, nil)
			splits[i] = verifgen.SignMap(raw, funds[i].outs, [][]int{{0}})
			wide[i] = verifgen.OutsOf(splits[i], specs)
		}(i)
	}
	wg.Wait()
	// a snapshot whose write exceeds the database transaction limit cannot be finalized (C16's recorded finding):
	// keep the funding snapshots well below it (about 100k entries)
	step := 20
	if per := ins * keys; per*step > 48000 {
		step = max(1, 48000/per)
	}
	for i := 0; i < nTx; i += step {
		var batch []*common.VersionedTransaction
		for j := i; j < nTx && j < i+step; j++ {
			batch = append(batch, splits[j])
		}
		if _, d := f.feedBatch(f.net.NodeIds[1+(i/step)%6], batch, f.tick(uint64(2*time.Second))); !d.Finalized {
			t.Fatalf("wide outputs not finalized: %v %v", d.Err, d.PanicVal)
		}
	}
	// the heavy spenders: every key of every input signs
	heavy := make([]*common.VersionedTransaction, nTx)
	all := make([]int, keys)
	for i := range all {
		all[i] = i
	}
	for i := 0; i < nTx; i++ {
		wg.Add(1)
		sem <- struct{}{}
		go func(i int) {
			defer wg.Done()
			defer func() { <-sem }()
			spec := verifgen.OutSpec{Type: common.OutputTypeScript, Owners: owners[:1], Threshold: 1, Amount: verifgen.UnitsU(uint64(ins) * 1000),
				Seed: verifgen.Seed64(fmt.Sprintf("c31-heavy-%s-%d", tag, i))}
			raw := verifgen.BuildTx(xin.Id, wide[i], []verifgen.OutSpec{spec}, nil, nil)
			signers := make([][]int, len(wide[i]))
			for k := range signers {
				signers[k] = all
			}
			heavy[i] = verifgen.SignMap(raw, wide[i], signers)
		}(i)
	}
	wg.Wait()
	return heavy
}

var vC31OwnerCache []common.Address

// vC31Owners returns n distinct addresses (one-time keys of one output must be distinct).
func vC31Owners(n int) []common.Address {
	for len(vC31OwnerCache) < n {
		vC31OwnerCache = append(vC31OwnerCache, verifgen.Addr(fmt.Sprintf("c31-owner-%d", len(vC31OwnerCache))))
	}
	return vC31OwnerCache[:n]
}

// vC31Storage builds XIN transactions that pay for a large extra (large payload).
func vC31Storage(t *testing.T, f *verifFeed, w *verifgen.Wallet, n, extraBytes int, tag string) []*common.VersionedTransaction {
	xin := verifgen.Assets()[0]
	// the whole signed transaction has to stay within the 4 MiB transaction limit (an admissible transaction is one
	// that a peer could decode): one input, one one-key output, one signature and the length fields take about 240
	// bytes; leave 320
	if limit := config.TransactionMaximumSize - 320; extraBytes > limit {
		extraBytes = limit
	}
	var out []*common.VersionedTransaction
	var deps []*common.VersionedTransaction
	var funding []*verifgen.Out
	cells := (extraBytes + 1023) / 1024
	price := big.NewInt(int64(cells) * 10000) // 0.0001 per KiB
	for i := 0; i < n; i++ {
		spec := verifgen.OutSpec{Type: common.OutputTypeScript, Owners: w.Addrs[:1], Threshold: 1, Amount: verifgen.Units(price), Seed: verifgen.Seed64(fmt.Sprintf("c31-sf-%s-%d", tag, i))}
		dep := verifgen.Deposit(w.Custodian, xin.Id, xin.Chain, xin.Key, fmt.Sprintf("0xc31-storage-%s-%d", tag, i), 0, verifgen.Units(price), spec)
		deps = append(deps, dep)
		funding = append(funding, verifgen.OutsOf(dep, []verifgen.OutSpec{spec})[0])
	}
	if _, d := f.feedBatch(f.net.NodeIds[1], deps, f.tick(uint64(2*time.Second))); !d.Finalized {
		t.Fatalf("storage funding not finalized: %v %v", d.Err, d.PanicVal)
	}
	for i := 0; i < n; i++ {
		extra := make([]byte, extraBytes)
		for k := range extra {
			extra[k] = byte(i + k)
		}
		// one-key output with threshold 64 (fffe40) marks the storage payment
		spec := verifgen.OutSpec{Type: common.OutputTypeScript, Owners: w.Addrs[:1], Threshold: 64, Amount: verifgen.Units(price), Seed: verifgen.Seed64(fmt.Sprintf("c31-so-%s-%d", tag, i))}
		raw := verifgen.BuildTx(xin.Id, []*verifgen.Out{funding[i]}, []verifgen.OutSpec{spec}, extra, nil)
		out = append(out, verifgen.SignMap(raw, []*verifgen.Out{funding[i]}, [][]int{{0}}))
	}
	return out
}

// TestVerif_C31: every message the node builds fits the transport limit.
func TestVerif_C31(t *testing.T) {
	r := verifkit.Start(t, "C31", "exploration")
	r.SetRule("the real proposal batcher (popAndProcessCacheQueue) runs on a node whose peer has sink neighbours that capture every built message; the cache queue is filled through " +
		"QueueTransaction with admissible transactions: storage transactions with up to 4 MiB of paid extra (large payload) and transfers whose inputs have hundreds of keys that all " +
		"sign (small payload, signed envelope up to ~2 MiB), in orders and proportions that approach the batch budget from both sides. Every captured bundle, and the full-challenge " +
		"and transaction-challenge messages built for the same batch, must be <= TransportMessageMaxSize, survive the relay wrapper and parse back to the same transactions. " +
		"Framing: QUIC loopback frames of size 1, random, max-1, max round-trip exactly, max+1 is refused by Send, forged oversized headers are refused before allocation. " +
		"non-trivial = distinct captured batches by (transactions, total signed size)")
	rng := r.Rand()
	f := verifNewFeed(t, fmt.Sprintf("c31-%d", r.Seed), 7, rng, t.TempDir(), nil)
	defer f.stop()
	w := verifgen.NewWallet(f.net.Label, rng, &f.net.Custodian, 4)
	f.node.Peer = p2p.NewPeer(f.node, f.node.IdForNetwork, "127.0.0.1:0", false)
	var drains []func() [][]byte
	for _, id := range f.net.NodeIds[1:] {
		drains = append(drains, f.node.Peer.VerifAttachSink(id))
	}
	capture := func() [][]byte {
		var out [][]byte
		for _, d := range drains {
			out = append(out, d()...)
		}
		return out
	}
	const max = p2p.TransportMessageMaxSize
	rounds := r.N(2, 8)
	batchesSeen := 0
	for round := 0; round < rounds; round++ {
		tag := fmt.Sprintf("%d-%d", r.Seed, round)
		var queue []*common.VersionedTransaction
		switch round % 4 {
		case 0: // payload close to the budget plus many signature-heavy transfers: signed total beyond the limit
			queue = append(queue, vC31Storage(t, f, w, 5, 4*1024*1024-64*rng.Intn(64), tag)...)
			queue = append(queue, vC31Heavy(t, f, w, r.N(96, 110), 8, 250, tag)...)
		case 1: // payload-only pressure: more 4 MiB extras than fit one message
			queue = append(queue, vC31Storage(t, f, w, 10, 4*1024*1024-rng.Intn(4096), tag)...)
		case 2: // fewer, fatter envelopes first, payload afterwards
			queue = append(queue, vC31Heavy(t, f, w, 20, 64, 250, tag)...)
			queue = append(queue, vC31Storage(t, f, w, 5, 3*1024*1024+rng.Intn(1<<20), tag)...)
		default: // many small ordinary transactions
			for i := 0; i < 200; i++ {
				dep, _ := w.Deposit(verifgen.Assets()[1+rng.Intn(3)], big.NewInt(int64(1+rng.Intn(1e6))))
				queue = append(queue, dep)
			}
		}
		if round%2 == 1 {
			rng.Shuffle(len(queue), func(i, j int) { queue[i], queue[j] = queue[j], queue[i] })
		}
		signedTotal, payloadTotal := 0, 0
		admitted := map[crypto.Hash]*common.VersionedTransaction{}
		for _, tx := range queue {
			if _, err := f.node.QueueTransaction(tx); err != nil {
				r.Count("admission_rejected", 1)
				t.Logf("admission rejected: %v", err)
				continue
			}
			admitted[tx.PayloadHash()] = tx
			signedTotal += len(tx.Marshal())
			payloadTotal += len(tx.PayloadMarshal())
			time.Sleep(time.Microsecond) // distinct queue tickets (nanosecond keys)
		}
		r.Count("transactions_admitted", len(admitted))
		r.Note(fmt.Sprintf("round_%d_admitted_signed_bytes", round), signedTotal)
		r.Note(fmt.Sprintf("round_%d_admitted_payload_bytes", round), payloadTotal)
		_ = capture()
		// run the batcher until the queue is empty
		for iter := 0; iter < 40; iter++ {
			var n int
			panicked, pv, stack := verifkit.Guard(func() { n = f.node.popAndProcessCacheQueue() })
			r.Eval()
			if panicked {
				r.Violation("C31|batcher-panic|"+verifkit.PanicSite(stack), fmt.Sprintf("the proposal batcher panicked: %.200v", pv), map[string]any{"round": round})
				break
			}
			msgs := capture()
			for _, m := range msgs {
				r.Count("messages_captured", 1)
				if len(m) == 0 {
					continue
				}
				pm, perr := p2p.VerifParse(p2p.TransportMessageVersion, m)
				ntx := 0
				if perr == nil {
					ntx = len(pm.Transactions)
				}
				if m[0] == p2p.PeerMessageTypeTransactionBundle || m[0] == p2p.PeerMessageTypeFinalizedTransactionBundle {
					batchesSeen++
					r.Nontrivial(fmt.Sprintf("bundle|%d|%d", ntx, len(m)))
					r.Count("bundles_captured", 1)
					if r.SampleCount() < 6 {
						r.Sample(map[string]any{"round": round, "message": "transaction bundle", "transactions": ntx, "bytes": len(m), "limit": max})
					}
				}
				if len(m) > max {
					r.Violation(fmt.Sprintf("C31|oversized|type-%d", m[0]), fmt.Sprintf("the node built a %d byte message of type %d; the transport maximum is %d", len(m), m[0], max),
						map[string]any{"round": round, "bytes": len(m), "type": m[0]})
					continue
				}
				if perr != nil {
					r.Violation(fmt.Sprintf("C31|unparsable|type-%d", m[0]), "a built message does not parse back: "+perr.Error(), map[string]any{"bytes": len(m)})
					continue
				}
				for _, tx := range pm.Transactions {
					if a := admitted[tx.PayloadHash()]; a == nil || string(a.Marshal()) != string(tx.Marshal()) {
						r.Violation("C31|bundle-content", "a bundle carries a transaction that differs from the admitted one", nil)
					}
				}
				if p, v, _ := verifkit.Guard(func() { _ = f.node.Peer.VerifRelayWrap(f.net.NodeIds[2], m) }); p {
					r.Violation("C31|relay-wrapper-panic", fmt.Sprintf("the relay wrapper panicked on a built message: %.100v", v), nil)
				}
				// the CoSi exchange for the same batch: full challenge and transaction challenge carry all transactions
				if ntx > 0 && (m[0] == p2p.PeerMessageTypeTransactionBundle) {
					s := &common.Snapshot{Version: common.SnapshotVersionCommonEncoding, NodeId: f.node.IdForNetwork, RoundNumber: 3, Timestamp: f.cursor,
						References: &common.RoundLink{Self: crypto.Blake3Hash([]byte("s")), External: crypto.Blake3Hash([]byte("e"))}}
					for _, tx := range pm.Transactions {
						s.Transactions = append(s.Transactions, tx.PayloadHash())
					}
					s.Hash = s.PayloadHash()
					nonce := crypto.CosiCommitNonce(crypto.RandReader())
					c := nonce.Public()
					cosi, _ := crypto.CosiAggregateCommitment(map[int]*crypto.Key{0: &c})
					s.Signature = cosi
					_ = f.node.Peer.SendFullChallengeMessage(f.net.NodeIds[3], s, &c, &c, pm.Transactions)
					_ = f.node.Peer.SendTransactionChallengeMessage(f.net.NodeIds[4], s, cosi, pm.Transactions)
					for _, cm := range capture() {
						r.Count("challenge_messages_built", 1)
						if len(cm) > max {
							r.Violation(fmt.Sprintf("C31|oversized|type-%d", cm[0]), fmt.Sprintf("the challenge message for an admitted batch has %d bytes; the transport maximum is %d", len(cm), max),
								map[string]any{"round": round, "bytes": len(cm), "type": cm[0]})
						} else if _, err := p2p.VerifParse(p2p.TransportMessageVersion, cm); err != nil {
							r.Violation(fmt.Sprintf("C31|unparsable|type-%d", cm[0]), "a built challenge message does not parse back: "+err.Error(), nil)
						}
					}
				}
			}
			if n == 0 {
				break
			}
		}
	}
	// framing
	sizes := []int{1, 2, 1 + rng.Intn(1<<16), 1 + rng.Intn(1<<22), max - 1, max, 1 + rng.Intn(1<<12), 3, 1 + rng.Intn(1<<16), max + 1, max + 1 + rng.Intn(1<<20)}
	res, err := p2p.VerifFramingProbe(sizes, func(n int) []byte {
		b := make([]byte, n)
		for i := 0; i < n; i += 1 + n/4096 {
			b[i] = byte(rng.Intn(256))
		}
		if n > 0 {
			b[n-1] = 0x5a
		}
		return b
	})
	if err != nil {
		r.Inconclusive("QUIC loopback not available: " + err.Error())
	}
	for _, fr := range res {
		r.Eval()
		r.Count("frames_probed", 1)
		r.Nontrivial(fmt.Sprintf("%s|%d", fr.Case, fr.Size))
		switch {
		case fr.Case == "fragmented-frame":
			if fr.SendErr != "" || fr.RecvErr != "" || !fr.Equal {
				r.Violation("C31|framing|roundtrip-fragmented", fmt.Sprintf("a %d byte frame delivered in pieces did not round-trip exactly (send %q receive %q)", fr.Size, fr.SendErr, fr.RecvErr), map[string]any{"size": fr.Size})
			}
		case fr.Case == "frame" && fr.Size <= max:
			if fr.SendErr != "" || fr.RecvErr != "" || !fr.Equal {
				r.Violation("C31|framing|roundtrip", fmt.Sprintf("a %d byte frame did not round-trip exactly (send %q receive %q)", fr.Size, fr.SendErr, fr.RecvErr), map[string]any{"size": fr.Size})
			}
		case fr.Case == "frame":
			if fr.SendErr == "" {
				r.Violation("C31|framing|oversized-send-accepted", fmt.Sprintf("Send accepted a %d byte frame", fr.Size), nil)
			}
		default:
			if fr.RecvErr == "" {
				r.Violation("C31|framing|oversized-header-accepted", fmt.Sprintf("a header announcing %d bytes was accepted", fr.Size), nil)
			} else if fr.AllocByte > 8<<20 {
				r.Violation("C31|framing|allocated-before-rejecting", fmt.Sprintf("the receiver allocated %d bytes before rejecting a header announcing %d bytes", fr.AllocByte, fr.Size), nil)
			}
		}
	}
	r.Note("frames", res)
	r.Note("bundles_seen", batchesSeen)
	if batchesSeen < 2 {
		r.Inconclusive(fmt.Sprintf("only %d bundles captured", batchesSeen))
	}
	vC31Exchange(t, r)
	r.Finish()
}

// vC31Exchange: the snapshot exchange of a proposal. The proposer has announced a batch, some peers answered that
// they miss all of its transactions, and the last commitment arrives: the proposer builds one transaction challenge
// per peer. Each of them must be buildable (at most the 255 transactions a message carries, within the transport
// maximum), whatever the other peers asked for.
func vC31Exchange(t *testing.T, r *verifkit.Run) {
	rng := r.Fork("c31-exchange", 0)
	type shape struct{ count, extra, wanting int }
	shapes := []shape{{100, 64, 3}, {100, 64, 4}, {5, 3900 * 1024, 2}}
	for k := 0; k < r.N(3, 30); k++ {
		shapes = append(shapes, shape{1 + rng.Intn(127), 16 + rng.Intn(2000), 1 + rng.Intn(4)})
	}
	for _, sh := range shapes {
		batch := vC31Batch(sh.count, sh.extra)
		size := 0
		for _, tx := range batch {
			size += len(tx.Marshal())
		}
		if size >= p2p.TransportMessageMaxSize*2/3 {
			continue // the batcher would not form it
		}
		chain, action := vC31Proposer(t, batch, sh.wanting)
		var herr error
		panicked, pv, stack := verifkit.Guard(func() { herr = chain.cosiHandleCommitment(action) })
		r.Eval()
		r.Count("snapshot_exchanges_through_the_commitment_handler", 1)
		w := map[string]any{"transactions": sh.count, "signed_bytes": size, "peers_missing_the_batch": sh.wanting}
		if panicked {
			msg := fmt.Sprint(pv)
			if len(msg) > 120 {
				msg = msg[:120] + "..."
			}
			r.Violation("C31|exchange|transaction-challenge-not-buildable|"+verifkit.PanicSite(stack),
				fmt.Sprintf("building the transaction challenges for %d peers that miss an admissible batch of %d transactions (%d bytes) failed: %s", sh.wanting, sh.count, size, msg), w)
			continue
		}
		if herr != nil {
			r.Count("snapshot_exchanges_refused_by_the_handler", 1)
			continue
		}
		if agg := chain.CosiAggregators[action.SnapshotHash]; agg == nil || agg.Snapshot.Signature == nil {
			r.Count("snapshot_exchanges_without_completed_commitment_round", 1)
			continue
		}
		r.Nontrivial(fmt.Sprintf("exchange|%d|%d|%d", sh.count, sh.extra, sh.wanting))
	}
}

// vC31Proposer (after the demonstration of seeded change C31-g9) builds a seven node network in memory and returns the chain
// of node 0 in the state it has right before the last commitment of a CoSi
// round arrives: the announced snapshot carries the given batch, `wanting`
// peers have answered the announcement with a commitment that asks for every
// transaction of the batch, and the returned action is the commitment of the
// last of them. Handling it makes the proposer build one transaction
// challenge message per peer.
func vC31Proposer(t *testing.T, batch []*common.VersionedTransaction, wanting int) (*Chain, *CosiAction) {
	t.Helper()
	const total = 7

	epoch := mainnetConsensusNodeRemovalSignerSetForkAt - 100*OneDay
	networkID, err := crypto.HashFromString(config.KernelNetworkId)
	if err != nil {
		t.Fatal(err)
	}
	accepted := make([]*CNode, total)
	privates := make([]crypto.Key, total)
	genesis := make(map[crypto.Hash]bool)
	for i := range accepted {
		seed := crypto.Blake3Hash(fmt.Appendf(nil, "c31 exchange signer %d", i))
		privates[i] = crypto.NewKeyFromSeed(append(seed[:], seed[:]...))
		id := crypto.Blake3Hash(fmt.Appendf(nil, "c31 exchange node %d", i))
		accepted[i] = &CNode{
			IdForNetwork: id,
			Signer:       common.Address{PublicSpendKey: privates[i].Public()},
			Timestamp:    epoch + uint64(i),
			State:        common.NodeStateAccepted,
		}
		genesis[id] = true
	}
	node := &Node{
		IdForNetwork:            accepted[0].IdForNetwork,
		Epoch:                   epoch,
		networkId:               networkID,
		allNodesSortedWithState: accepted,
		genesisNodesMap:         genesis,
	}
	node.Signer = common.Address{PrivateSpendKey: privates[0], PublicSpendKey: privates[0].Public()}
	node.nodeStateSequences = node.buildNodeStateSequences(accepted, false)
	node.acceptedNodeStateSequences = node.buildNodeStateSequences(accepted, true)
	cache, err := ristretto.NewCache(&ristretto.Config[[]byte, any]{NumCounters: 1e3, MaxCost: 1 << 20, BufferItems: 64})
	if err != nil {
		t.Fatal(err)
	}
	t.Cleanup(cache.Close)
	node.cacheStore = cache
	node.Peer = p2p.NewPeer(node, node.IdForNetwork, "127.0.0.1:0", false)

	chain := &Chain{
		node:            node,
		ChainId:         node.IdForNetwork,
		CosiAggregators: make(map[crypto.Hash]*CosiAggregator),
		CosiVerifiers:   make(map[crypto.Hash]*CosiVerifier),
	}

	timestamp := epoch + OneDay + uint64(time.Hour)
	threshold := node.ConsensusThreshold(timestamp, false)
	if threshold != total*2/3+1 || wanting >= threshold {
		t.Fatalf("unexpected threshold %d", threshold)
	}

	found := make(map[crypto.Hash]*common.VersionedTransaction)
	snapshot := &common.Snapshot{
		Version:     common.SnapshotVersionCommonEncoding,
		NodeId:      node.IdForNetwork,
		RoundNumber: 1,
		Timestamp:   timestamp,
	}
	var hashes []crypto.Hash
	for _, tx := range batch {
		found[tx.PayloadHash()] = tx
		hashes = append(hashes, tx.PayloadHash())
		snapshot.AddTransaction(tx.PayloadHash())
	}
	snapshot.Hash = snapshot.PayloadHash()

	var self *CNode
	var peers []*CNode
	for _, cn := range chain.consensusNodes(snapshot.RoundNumber, timestamp) {
		if cn.IdForNetwork == node.IdForNetwork {
			self = cn
		} else {
			peers = append(peers, cn)
		}
	}
	if self == nil || len(peers) != total-1 {
		t.Fatalf("unexpected consensus nodes %v %d", self, len(peers))
	}

	nonce := crypto.CosiCommitNonce(crypto.RandReader())
	own := nonce.Public()
	agg := &CosiAggregator{
		Snapshot:       snapshot,
		WantTxs:        make(map[crypto.Hash][]crypto.Hash),
		FullChallenges: make(map[crypto.Hash]bool),
		Commitments:    map[int]*crypto.Key{self.ConsensusIndex: &own},
		Responses:      make(map[int]*[32]byte),
	}
	chain.CosiAggregators[snapshot.Hash] = agg
	chain.CosiVerifiers[snapshot.Hash] = &CosiVerifier{Snapshot: snapshot, Announcement: &own, nonce: nonce}

	// threshold-2 peers have committed already, the last `wanting-1` of them
	// miss the whole batch; the others have every transaction.
	for i, cn := range peers[:threshold-2] {
		commitment := crypto.CosiCommitNonce(crypto.RandReader()).Public()
		agg.Commitments[cn.ConsensusIndex] = &commitment
		agg.FullChallenges[cn.IdForNetwork] = false
		if i >= threshold-2-(wanting-1) {
			agg.WantTxs[cn.IdForNetwork] = hashes
		} else {
			agg.WantTxs[cn.IdForNetwork] = nil
		}
	}

	last := peers[threshold-2]
	commitment := crypto.CosiCommitNonce(crypto.RandReader()).Public()
	action := &CosiAction{
		Action:       CosiActionSelfCommitment,
		PeerId:       last.IdForNetwork,
		SnapshotHash: snapshot.Hash,
		Commitment:   &commitment,
		WantTxs:      hashes,
		data:         &CosiChainData{PN: last, CN: self, FoundTxs: found},
	}
	return chain, action
}

func vC31Batch(count, extra int) []*common.VersionedTransaction {
	batch := make([]*common.VersionedTransaction, count)
	for i := range batch {
		tx := common.NewTransactionV5(common.XINAssetId)
		tx.AddInput(crypto.Blake3Hash(fmt.Appendf(nil, "c31 exchange input %d", i)), 0)
		tx.Extra = make([]byte, extra)
		copy(tx.Extra, fmt.Appendf(nil, "c31 exchange transaction %d", i))
		batch[i] = tx.AsVersioned()
	}
	return batch
}
