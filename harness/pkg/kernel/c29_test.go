package kernel

import (
	"fmt"
	"math/rand"
	"sort"
	"strings"
	"testing"
	"time"

	"github.com/MixinNetwork/mixin/common"
	"github.com/MixinNetwork/mixin/config"
	"github.com/MixinNetwork/mixin/crypto"
	"github.com/MixinNetwork/mixin/kernel/internal/clock"
	"github.com/MixinNetwork/mixin/storage"
	"github.com/MixinNetwork/mixin/verifgen"
	"github.com/MixinNetwork/mixin/verifkit"
)

// C29: operator election is deterministic and never selects the node it removes.
//
// Part E: election grid, enumerated completely: membership sizes 7..50 x every
//         day of 6 years x the five elected operations.
// Part H: random membership histories (pledge/accept/cancel/remove) queried at
//         random instants and right after every record.
// Part W: hour windows, every hour of every day of 6 years, on the predicates
//         and on the four membership validators.
//
// Every election is evaluated on independently loaded nodes: A (records handed
// to LoadConsensusNodes in ledger order), B (records shuffled, local clock
// moved) and, in part H, P (a node that has only seen the records earlier than
// the queried instant). The accepted set, its oldest and newest member and the
// epoch hour are computed by the harness from the raw record list.

const (
	vC29Days     = 2190 // 6 years
	vC29MinNodes = config.KernelMinimumNodesCount
	vC29MaxNodes = config.KernelMaximumNodesCount
)

var vC29Ops = []struct {
	op   byte
	name string
}{
	{common.TransactionTypeMint, "mint"},
	{common.TransactionTypeNodePledge, "pledge"},
	{common.TransactionTypeNodeRemove, "remove"},
	{common.TransactionTypeCustodianUpdateNodes, "custodian-update"},
	{common.TransactionTypeCustodianSlashNodes, "custodian-slash"},
}

type vC29Ident struct {
	signer common.Address
	payee  common.Address
	id     crypto.Hash
	ids    string
}

type vC29Rec struct {
	who   *vC29Ident
	state string
	ts    uint64
	tx    crypto.Hash
	old   *common.VersionedTransaction // for REMOVED records: a transaction whose payload hash is tx
}

// vC29Store hands the record list to LoadConsensusNodes in a chosen order.
type vC29Store struct {
	storage.Store
	nodes []*common.Node
}

func (s *vC29Store) ReadAllNodes(threshold uint64, withState bool) []*common.Node {
	out := make([]*common.Node, len(s.nodes))
	copy(out, s.nodes)
	return out
}

func (s *vC29Store) ListNodeWorks(cids []crypto.Hash, day uint32) (map[crypto.Hash][2]uint64, error) {
	return map[crypto.Hash][2]uint64{}, nil
}

func (s *vC29Store) AddNodeOperation(tx *common.VersionedTransaction, timestamp, threshold uint64, finalized bool) error {
	return nil
}

func vC29LoadNode(recs []*vC29Rec, order []int, networkId crypto.Hash, epoch uint64, genesis map[crypto.Hash]bool) (*Node, error) {
	st := &vC29Store{}
	for _, i := range order {
		rc := recs[i]
		st.nodes = append(st.nodes, &common.Node{Signer: rc.who.signer, Payee: rc.who.payee, State: rc.state, Transaction: rc.tx, Timestamp: rc.ts})
	}
	node := &Node{Epoch: epoch, networkId: networkId, genesisNodesMap: genesis, persistStore: st}
	err := node.LoadConsensusNodes()
	return node, err
}

func vC29Identity(n int) []int {
	o := make([]int, n)
	for i := range o {
		o[i] = i
	}
	return o
}

// ---- harness model of the membership at an instant ----

type vC29View struct {
	accepted []*vC29Rec // latest record per node, state ACCEPTED, in (time, id) order
	pledging bool
}

// vC29ViewAt: the membership as of `now` = latest record per node among the
// records strictly earlier than now.
func vC29ViewAt(recs []*vC29Rec, now uint64) *vC29View {
	latest := make(map[crypto.Hash]*vC29Rec)
	for _, rc := range recs {
		if rc.ts >= now {
			continue
		}
		if old := latest[rc.who.id]; old == nil || old.ts <= rc.ts {
			latest[rc.who.id] = rc
		}
	}
	v := &vC29View{}
	for _, rc := range latest {
		switch rc.state {
		case common.NodeStateAccepted:
			v.accepted = append(v.accepted, rc)
		case common.NodeStatePledging:
			v.pledging = true
		}
	}
	sort.Slice(v.accepted, func(i, j int) bool {
		a, b := v.accepted[i], v.accepted[j]
		if a.ts != b.ts {
			return a.ts < b.ts
		}
		return a.who.ids < b.who.ids
	})
	return v
}

func vC29CountBefore(recs []*vC29Rec, now uint64) int {
	c := 0
	for _, rc := range recs {
		if rc.ts < now {
			c++
		}
	}
	return c
}

func vC29Hour(epoch, ts uint64) int {
	return int((ts - epoch) / 3600000000000 % 24)
}

func vC29InAcceptWindow(h int) bool {
	return h >= config.KernelNodeAcceptTimeBegin && h <= config.KernelNodeAcceptTimeEnd
}

func vC29InMintWindow(h int) bool {
	return h >= config.KernelMintTimeBegin && h <= config.KernelMintTimeEnd
}

// ---- history generators ----

type vC29History struct {
	epoch   uint64
	recs    []*vC29Rec // in ledger order (time, id)
	genesis map[crypto.Hash]bool
	label   string
}

func vC29SortRecs(recs []*vC29Rec) {
	sort.SliceStable(recs, func(i, j int) bool {
		if recs[i].ts != recs[j].ts {
			return recs[i].ts < recs[j].ts
		}
		return recs[i].who.ids < recs[j].who.ids
	})
}

func vC29TxHash(label string, id crypto.Hash) crypto.Hash {
	return crypto.Blake3Hash(append([]byte("c29-"+label), id[:]...))
}

func vC29RemovalTx(id crypto.Hash, salt uint64) *common.VersionedTransaction {
	tx := common.NewTransactionV5(common.XINAssetId)
	tx.Extra = append([]byte(fmt.Sprintf("c29-removal-%d-", salt)), id[:]...)
	return tx.AsVersioned()
}

// vC29RandomHistory evolves a membership with the lifecycle rules (one pending
// pledge at a time, operations inside their hour windows, 12 h spacing) so that
// the histories are ones the ledger can actually contain.
func vC29RandomHistory(rng *rand.Rand, pool []*vC29Ident, epoch uint64, steps int, target int) *vC29History {
	h := &vC29History{epoch: epoch, genesis: make(map[crypto.Hash]bool)}
	perm := rng.Perm(len(pool))
	next := 0
	take := func() *vC29Ident {
		if next >= len(perm) {
			return nil
		}
		id := pool[perm[next]]
		next++
		return id
	}
	g := vC29MinNodes + rng.Intn(14)
	if g > target {
		g = target
	}
	var accepted []*vC29Rec
	for i := 0; i < g; i++ {
		id := take()
		rc := &vC29Rec{who: id, state: common.NodeStateAccepted, ts: epoch, tx: vC29TxHash("genesis", id.id)}
		h.recs = append(h.recs, rc)
		h.genesis[id.id] = true
		accepted = append(accepted, rc)
	}
	sort.Slice(accepted, func(i, j int) bool { return accepted[i].who.ids < accepted[j].who.ids })
	hour, sec := uint64(time.Hour), uint64(time.Second)
	day := uint64(0)
	pledgeHours := []uint64{0, 1, 2, 3, 4, 5, 6, 10, 11, 12, 20, 21, 22, 23}
	for s := 0; s < steps; s++ {
		day += uint64(1 + rng.Intn(4))
		grow := len(accepted) < target
		removeOk := len(accepted) > vC29MinNodes
		choice := rng.Intn(10)
		switch {
		case (grow && choice < 7) || !removeOk:
			if len(accepted) >= vC29MaxNodes {
				continue
			}
			id := take()
			if id == nil {
				continue
			}
			pt := epoch + day*OneDay + pledgeHours[rng.Intn(len(pledgeHours))]*hour + uint64(rng.Intn(3600))*sec + uint64(rng.Intn(1000))
			h.recs = append(h.recs, &vC29Rec{who: id, state: common.NodeStatePledging, ts: pt, tx: vC29TxHash("pledge", id.id)})
			day += uint64(1 + rng.Intn(5))
			at := epoch + day*OneDay + uint64(13+rng.Intn(7))*hour + uint64(rng.Intn(3600))*sec + uint64(rng.Intn(1000))
			if rng.Intn(6) == 0 {
				h.recs = append(h.recs, &vC29Rec{who: id, state: common.NodeStateCancelled, ts: at, tx: vC29TxHash("cancel", id.id)})
			} else {
				rc := &vC29Rec{who: id, state: common.NodeStateAccepted, ts: at, tx: vC29TxHash("accept", id.id)}
				h.recs = append(h.recs, rc)
				accepted = append(accepted, rc)
			}
		default:
			old := accepted[0]
			accepted = accepted[1:]
			rt := epoch + day*OneDay + uint64(13+rng.Intn(7))*hour + uint64(rng.Intn(3000))*sec + uint64(rng.Intn(1000))
			tx := vC29RemovalTx(old.who.id, rt)
			h.recs = append(h.recs, &vC29Rec{who: old.who, state: common.NodeStateRemoved, ts: rt, tx: tx.PayloadHash(), old: tx})
		}
	}
	vC29SortRecs(h.recs)
	return h
}

// vC29GridHistory: final size n; g genesis nodes, the others pledged and
// accepted during the first ~100 days.
func vC29GridHistory(rng *rand.Rand, pool []*vC29Ident, epoch uint64, n int) *vC29History {
	h := &vC29History{epoch: epoch, genesis: make(map[crypto.Hash]bool), label: fmt.Sprintf("grid-%d", n)}
	perm := rng.Perm(len(pool))
	g := vC29MinNodes
	if n > vC29MinNodes {
		g += rng.Intn(n - vC29MinNodes + 1)
	}
	hour, sec := uint64(time.Hour), uint64(time.Second)
	for i := 0; i < n; i++ {
		id := pool[perm[i]]
		if i < g {
			h.recs = append(h.recs, &vC29Rec{who: id, state: common.NodeStateAccepted, ts: epoch, tx: vC29TxHash("genesis", id.id)})
			h.genesis[id.id] = true
			continue
		}
		d := uint64(1 + 2*(i-g))
		pt := epoch + d*OneDay + 3*hour + uint64(rng.Intn(3600))*sec
		at := epoch + (d+1)*OneDay + 14*hour + uint64(rng.Intn(3600))*sec
		h.recs = append(h.recs, &vC29Rec{who: id, state: common.NodeStatePledging, ts: pt, tx: vC29TxHash("pledge", id.id)})
		h.recs = append(h.recs, &vC29Rec{who: id, state: common.NodeStateAccepted, ts: at, tx: vC29TxHash("accept", id.id)})
	}
	vC29SortRecs(h.recs)
	return h
}

// ---- the monitor ----

type vC29Monitor struct {
	r         *verifkit.Run
	networkId crypto.Hash
}

type vC29Nodes struct {
	h     *vC29History
	a, b  *Node
	views map[int]*vC29View // by number of records earlier than the instant
}

func (m *vC29Monitor) load(rng *rand.Rand, h *vC29History) *vC29Nodes {
	n := len(h.recs)
	clock.Reset()
	a, err := vC29LoadNode(h.recs, vC29Identity(n), m.networkId, h.epoch, h.genesis)
	if err != nil {
		m.r.Inconclusive("LoadConsensusNodes failed: " + err.Error())
		return nil
	}
	// another replica: different arrival order of the records, different local clock
	clock.MockDiff(time.Duration(rng.Intn(40*365*24)) * time.Hour)
	b, err := vC29LoadNode(h.recs, rng.Perm(n), m.networkId, h.epoch, h.genesis)
	clock.Reset()
	if err != nil {
		m.r.Inconclusive("LoadConsensusNodes failed: " + err.Error())
		return nil
	}
	return &vC29Nodes{h: h, a: a, b: b, views: make(map[int]*vC29View)}
}

func (ns *vC29Nodes) viewAt(now uint64) *vC29View {
	c := vC29CountBefore(ns.h.recs, now)
	if v := ns.views[c]; v != nil {
		return v
	}
	v := vC29ViewAt(ns.h.recs, now)
	ns.views[c] = v
	return v
}

func (m *vC29Monitor) witness(ns *vC29Nodes, now uint64, extra map[string]any) map[string]any {
	v := vC29ViewAt(ns.h.recs, now)
	acc := make([]string, len(v.accepted))
	for i, rc := range v.accepted {
		acc[i] = fmt.Sprintf("%s accepted_at=%d", rc.who.ids[:8], rc.ts)
	}
	recs := make([]string, 0, len(ns.h.recs))
	for _, rc := range ns.h.recs {
		recs = append(recs, fmt.Sprintf("%d %s %s", rc.ts, rc.who.ids[:8], rc.state))
	}
	w := map[string]any{"epoch": ns.h.epoch, "now": now, "day": (now - ns.h.epoch) / OneDay, "hour": vC29Hour(ns.h.epoch, now),
		"accepted_in_order": acc, "records": recs}
	for k, x := range extra {
		w[k] = x
	}
	return w
}

// elect runs one election on all replicas and judges it. Returns the elected id
// (of replica A) and whether the election could be evaluated.
func (m *vC29Monitor) elect(ns *vC29Nodes, others []*Node, part string, op int, now uint64) (crypto.Hash, bool) {
	r := m.r
	v := ns.viewAt(now)
	if len(v.accepted) < vC29MinNodes {
		r.Count(part+"_skipped_below_minimum_size", 1)
		return crypto.Hash{}, false
	}
	o := vC29Ops[op]
	var ea crypto.Hash
	// replica A also answers read-only queries in between (the work listing of that day, as the RPC does); the other
	// replicas never do
	if now > ns.a.Epoch && now%3 == 0 {
		if p, _, _ := verifkit.Guard(func() { _, _ = ns.a.ListMintWorks((now - ns.a.Epoch) / OneDay) }); !p {
			r.Count("elections_after_a_read-only_work_listing_on_replica_A", 1)
		}
	}
	panicked, val, stack := verifkit.Guard(func() { ea = ns.a.electSnapshotNode(o.op, now) })
	if panicked {
		r.Violation("C29|election|panic "+verifkit.PanicSite(stack), fmt.Sprintf("electSnapshotNode(%s) panicked with %d accepted nodes: %v", o.name, len(v.accepted), val),
			m.witness(ns, now, map[string]any{"operation": o.name}))
		return crypto.Hash{}, false
	}
	replicas := append([]*Node{ns.b}, others...)
	for k, nd := range replicas {
		var eb crypto.Hash
		// the other replicas evaluate the same snapshot time at another local time
		clock.MockDiff(time.Duration(1+k) * 37 * time.Hour)
		panicked, val, stack := verifkit.Guard(func() { eb = nd.electSnapshotNode(o.op, now) })
		clock.Reset()
		if panicked {
			r.Violation("C29|election|panic "+verifkit.PanicSite(stack), fmt.Sprintf("electSnapshotNode(%s) panicked on a replica: %v", o.name, val),
				m.witness(ns, now, map[string]any{"operation": o.name}))
			return crypto.Hash{}, false
		}
		if eb != ea {
			kind := "shuffled-load-order"
			if k > 0 {
				kind = "replica-with-only-earlier-records"
			}
			r.Violation("C29|election|replicas elect different nodes|"+kind, fmt.Sprintf("operation %s at %d: replica A elects %s, replica %s elects %s", o.name, now, ea, kind, eb),
				m.witness(ns, now, map[string]any{"operation": o.name, "elected_a": ea.String(), "elected_other": eb.String()}))
		}
	}
	oldest, newest := v.accepted[0], v.accepted[len(v.accepted)-1]
	if ea == oldest.who.id {
		r.Violation("C29|election|oldest accepted node elected", fmt.Sprintf("operation %s at %d elects %s, the oldest of %d accepted nodes", o.name, now, ea, len(v.accepted)),
			m.witness(ns, now, map[string]any{"operation": o.name, "elected": ea.String()}))
	}
	if ea == newest.who.id {
		r.Violation("C29|election|newest accepted node elected", fmt.Sprintf("operation %s at %d elects %s, the newest of %d accepted nodes", o.name, now, ea, len(v.accepted)),
			m.witness(ns, now, map[string]any{"operation": o.name, "elected": ea.String()}))
	}
	member := false
	for _, rc := range v.accepted {
		if rc.who.id == ea {
			member = true
			break
		}
	}
	if member {
		r.Count(part+"_elected_is_accepted_member", 1)
	} else {
		r.Count(part+"_elected_is_not_an_accepted_member", 1)
	}
	return ea, true
}

// removal judges the removal candidate against the elected remover at `now`.
func (m *vC29Monitor) removal(ns *vC29Nodes, part string, elected crypto.Hash, now uint64) {
	r := m.r
	for k, nd := range []*Node{ns.a, ns.b} {
		var cand *CNode
		var err error
		panicked, val, stack := verifkit.Guard(func() { cand, err = nd.checkRemovePossibility(crypto.Hash{}, now, nil) })
		if panicked {
			r.Violation("C29|removal|panic "+verifkit.PanicSite(stack), fmt.Sprintf("checkRemovePossibility panicked: %v", val), m.witness(ns, now, nil))
			return
		}
		if err != nil || cand == nil {
			if k == 0 {
				r.Count(part+"_removal_not_possible", 1)
			}
			return
		}
		if k == 0 {
			r.Count(part+"_removal_candidates", 1)
		}
		if cand.IdForNetwork == elected {
			r.Violation("C29|removal|elected remover is the removal candidate", fmt.Sprintf("at %d node %s is elected for the removal operation and is the node to be removed", now, elected),
				m.witness(ns, now, map[string]any{"elected": elected.String(), "candidate": cand.IdForNetwork.String()}))
		}
		// the proposer named in the snapshot is the candidate itself: must be refused
		c2, err2 := nd.checkRemovePossibility(cand.IdForNetwork, now, nil)
		if err2 == nil && c2 != nil && c2.IdForNetwork == cand.IdForNetwork {
			r.Violation("C29|removal|node may propose its own removal", fmt.Sprintf("checkRemovePossibility(%s) at %d returns the proposer itself as the node to remove", cand.IdForNetwork, now),
				m.witness(ns, now, map[string]any{"proposer": cand.IdForNetwork.String()}))
		} else if err2 != nil {
			if k == 0 {
				r.Count(part+"_own_removal_refused", 1)
			}
		}
		// the elected remover proposes: whatever is returned must not be itself
		c3, err3 := nd.checkRemovePossibility(elected, now, nil)
		if err3 == nil && c3 != nil {
			if c3.IdForNetwork == elected {
				r.Violation("C29|removal|node may propose its own removal", fmt.Sprintf("checkRemovePossibility(%s) at %d returns the proposer itself as the node to remove", elected, now),
					m.witness(ns, now, map[string]any{"proposer": elected.String()}))
			} else if k == 0 {
				r.Count(part+"_removal_by_elected_allowed", 1)
			}
		}
	}
}

// revalidation: a removal that is already in the ledger is re-validated with
// the finalized transaction; the removed node itself must never pass as proposer.
func (m *vC29Monitor) revalidation(ns *vC29Nodes, rc *vC29Rec, now uint64) {
	r := m.r
	var cand *CNode
	var err error
	panicked, val, stack := verifkit.Guard(func() { cand, err = ns.a.checkRemovePossibility(rc.who.id, now, rc.old) })
	if panicked {
		r.Violation("C29|removal|panic "+verifkit.PanicSite(stack), fmt.Sprintf("checkRemovePossibility panicked: %v", val), m.witness(ns, now, nil))
		return
	}
	if err == nil && cand != nil && cand.IdForNetwork == rc.who.id {
		r.Violation("C29|removal|removed node passes as proposer of its own removal", fmt.Sprintf("re-validation at %d of the removal of %s accepts the removed node as proposer", now, rc.who.id),
			m.witness(ns, now, map[string]any{"proposer": rc.who.id.String()}))
	}
	// a different proposer: count whether the re-validation path was really reached
	v := ns.viewAt(now)
	if len(v.accepted) > 2 {
		other := v.accepted[1].who.id
		c2, err2 := ns.a.checkRemovePossibility(other, now, rc.old)
		if err2 == nil && c2 != nil && c2.IdForNetwork == rc.who.id {
			r.Count("history_revalidation_reached", 1)
			if err != nil {
				r.Count("history_revalidation_own_removal_refused", 1)
			}
		}
	}
}

func TestVerif_C29(t *testing.T) {
	r := verifkit.Start(t, "C29", "exploration")
	defer clock.Reset()
	r.SetRule("E: membership sizes 7..50 (genesis + later accepted nodes) x every day 0..2189 after the epoch (one seeded instant per day) x 5 elected operations, enumerated completely; " +
		"H: seeded random lifecycle histories (pledge, accept, cancel, remove of the oldest) queried at random instants, 1 ns and a few seconds after every record; " +
		"W: every hour of every day 0..2189 at its first, a random and its last nanosecond, on the two hour predicates and on the pledge/accept/cancel/remove validators in an otherwise valid scenario; " +
		"non-trivial = a distinct (membership, instant, operation) with >= 7 accepted nodes that was really elected on all replicas, or a distinct (validator, day, hour) call")
	r.Assume("the accepted set at an instant is the latest record per node among strictly earlier records; oldest/newest are taken in (record time, node id) order, the order the ledger defines for equal times")
	r.Assume("replicas are built through LoadConsensusNodes over a storage proxy that returns the same records in different orders; ledger contents themselves are identical (their agreement is C09/C15/C27)")
	r.Assume("hour windows are the config constants: mint 7..9, node accept/cancel/remove 13..19, pledge = neither; timestamps before the epoch are outside the quantifier")
	rng := r.Rand()
	m := &vC29Monitor{r: r, networkId: crypto.Blake3Hash([]byte("verif-c29-network"))}

	pool := make([]*vC29Ident, 110)
	for i := range pool {
		s := verifgen.NodeAddr(fmt.Sprintf("c29:signer:%d", i))
		p := verifgen.NodeAddr(fmt.Sprintf("c29:payee:%d", i))
		id := s.Hash().ForNetwork(m.networkId)
		pool[i] = &vC29Ident{signer: s, payee: p, id: id, ids: id.String()}
	}
	epoch := uint64(1551312000) * uint64(time.Second) // 2019-02-28 00:00 UTC; 6 years later is still in the past of any local clock

	// ---------- Part E: exhaustive election grid ----------
	t0 := time.Now()
	electedDistinct := make(map[crypto.Hash]bool)
	for n := vC29MinNodes; n <= vC29MaxNodes; n++ {
		h := vC29GridHistory(rng, pool, epoch, n)
		ns := m.load(rng, h)
		if ns == nil {
			break
		}
		for day := uint64(0); day < vC29Days; day++ {
			// one instant per day, never on a record time (records sit on whole seconds)
			off := uint64(rng.Int63n(int64(OneDay-2))) | 1
			now := epoch + day*OneDay + off
			var removeElected crypto.Hash
			okRemove := false
			for op := range vC29Ops {
				r.Eval()
				e, ok := m.elect(ns, nil, "grid", op, now)
				if !ok {
					continue
				}
				r.Count("grid_elections", 1)
				r.Nontrivial(fmt.Sprintf("E|%d|%d|%d", n, day, op))
				electedDistinct[e] = true
				if vC29Ops[op].op == common.TransactionTypeNodeRemove {
					removeElected, okRemove = e, true
				}
			}
			if okRemove && vC29InAcceptWindow(vC29Hour(epoch, now)) {
				m.removal(ns, "grid", removeElected, now)
			}
		}
		if n == 7 || n == 23 || n == 50 {
			now := epoch + 1234*OneDay + 15*uint64(time.Hour) + 1
			e, _ := m.elect(ns, nil, "sample", 2, now)
			r.Sample(map[string]any{"part": "E", "size": n, "genesis_nodes": len(h.genesis), "records": len(h.recs), "now": now, "operation": "remove", "elected": e.String()})
		}
	}
	r.Note("grid_sizes", fmt.Sprintf("%d..%d", vC29MinNodes, vC29MaxNodes))
	r.Note("grid_days", vC29Days)
	r.Note("grid_operations", len(vC29Ops))
	r.Note("grid_enumerated_completely", true)
	r.Note("grid_distinct_elected_nodes", len(electedDistinct))
	r.Note("wall_grid_s", time.Since(t0).Seconds())

	// ---------- Part H: random histories ----------
	t0 = time.Now()
	nHist := r.N(250, 6000)
	for hi := 0; hi < nHist; hi++ {
		target := vC29MinNodes + rng.Intn(vC29MaxNodes-vC29MinNodes+1)
		h := vC29RandomHistory(rng, pool, epoch, 10+rng.Intn(60), target)
		ns := m.load(rng, h)
		if ns == nil {
			break
		}
		r.Count("histories", 1)
		r.Count("history_records", len(h.recs))
		last := h.recs[len(h.recs)-1].ts
		var instants []uint64
		for q := 0; q < 12; q++ {
			instants = append(instants, epoch+1+uint64(rng.Int63n(int64(last-epoch+30*OneDay))))
		}
		for q := 0; q < 10; q++ {
			rc := h.recs[rng.Intn(len(h.recs))]
			instants = append(instants, rc.ts+1, rc.ts+uint64(1+rng.Intn(20))*uint64(time.Second), rc.ts+uint64(rng.Int63n(int64(OneDay))))
		}
		prefixes := make(map[int]*Node)
		for _, now := range instants {
			exact := false
			for _, rc := range h.recs {
				if rc.ts == now {
					exact = true
				}
			}
			if exact {
				continue
			}
			// a replica that has only the records earlier than `now`
			cut := vC29CountBefore(h.recs, now)
			var others []*Node
			if cut < len(h.recs) && cut >= vC29MinNodes {
				p := prefixes[cut]
				if p == nil && len(prefixes) < 8 {
					var err error
					p, err = vC29LoadNode(h.recs[:cut], rng.Perm(cut), m.networkId, h.epoch, h.genesis)
					if err != nil {
						r.Inconclusive("LoadConsensusNodes failed: " + err.Error())
						p = nil
					} else {
						prefixes[cut] = p
						r.Count("history_prefix_replicas", 1)
					}
				}
				if p != nil {
					others = append(others, p)
					r.Count("history_instants_with_prefix_replica", 1)
				}
			}
			var removeElected crypto.Hash
			okRemove := false
			for op := range vC29Ops {
				r.Eval()
				e, ok := m.elect(ns, others, "history", op, now)
				if !ok {
					continue
				}
				r.Count("history_elections", 1)
				r.Nontrivial(fmt.Sprintf("H|%d|%d|%d", hi, now, op))
				if vC29Ops[op].op == common.TransactionTypeNodeRemove {
					removeElected, okRemove = e, true
				}
			}
			if okRemove && vC29InAcceptWindow(vC29Hour(epoch, now)) {
				m.removal(ns, "history", removeElected, now)
			}
		}
		// re-validation of removals already in the ledger
		for _, rc := range h.recs {
			if rc.old == nil {
				continue
			}
			for _, d := range []uint64{1, uint64(time.Second) * uint64(1+rng.Intn(60))} {
				if vC29InAcceptWindow(vC29Hour(epoch, rc.ts+d)) {
					r.Eval()
					m.revalidation(ns, rc, rc.ts+d)
				}
			}
		}
		if hi < 2 {
			v := vC29ViewAt(h.recs, last+1)
			states := make([]string, 0, len(h.recs))
			for _, rc := range h.recs {
				states = append(states, fmt.Sprintf("day %d hour %d %s %s", (rc.ts-epoch)/OneDay, vC29Hour(epoch, rc.ts), rc.who.ids[:8], rc.state))
			}
			r.Sample(map[string]any{"part": "H", "records": states, "accepted_at_end": len(v.accepted)})
		}
	}
	r.Note("wall_history_s", time.Since(t0).Seconds())

	// ---------- Part W: hour windows ----------
	t0 = time.Now()
	// the accept validator refuses timestamps in the future of the local clock:
	// put the local clock well after the last day of the grid
	clock.Reset()
	clock.MockDiff(time.Until(time.Date(2040, 1, 1, 0, 0, 0, 0, time.UTC)))
	m.hours(rng, pool, epoch)
	clock.Reset()
	r.Note("wall_hours_s", time.Since(t0).Seconds())

	if r.Counter("grid_elections") < int64((vC29MaxNodes-vC29MinNodes+1)*vC29Days*len(vC29Ops)) {
		r.Inconclusive(fmt.Sprintf("the election grid was not evaluated completely: %d elections", r.Counter("grid_elections")))
	}
	if r.Counter("grid_removal_candidates")+r.Counter("history_removal_candidates") < 50 || r.Counter("grid_own_removal_refused")+r.Counter("history_own_removal_refused") < 50 {
		r.Inconclusive("too few removal candidates were observed to judge the self-removal clause")
	}
	// elections on a running node after a removal stamped a little ahead of its clock must be the elections of a node
	// set up later from the same records (all operations, instants after the record and on the following days)
	verifAheadOfClock(t, r, "c29k", "C29|election|running-node-differs-from-a-node-set-up-later", func(f *verifFeed, q uint64) string {
		var b []byte
		for d := uint64(0); d < 3; d++ {
			for _, o := range vC29Ops {
				b = append(b, []byte(fmt.Sprintf("%s=%s;", o.name, f.node.electSnapshotNode(o.op, q+d*OneDay)))...)
			}
		}
		return string(b)
	})
	// the proposer judges its own pledge snapshot by the snapshot's timestamp (as every follower does), not by
	// its clock: pledges for which this replica is the elected node are validated on the replica itself
	{
		rng2 := r.Fork("c29-own", 0)
		f := verifNewFeed(t, fmt.Sprintf("c29o-%d", r.Seed), 7, rng2, t.TempDir(), nil)
		w := verifgen.NewWallet(f.net.Label, rng2, &f.net.Custodian, 3)
		own := 0
		for tries := 0; tries < 40 && own < r.N(2, 8); tries++ {
			eid, tx, ts, _, err := f.buildPledge(w)
			if err != nil {
				r.Count("own_pledge_not_buildable", 1)
				break
			}
			if eid != f.node.IdForNetwork {
				continue
			}
			own++
			s, err := f.nextSnapshot(eid, []crypto.Hash{tx.PayloadHash()}, ts)
			if err != nil {
				continue
			}
			flags := []bool{true}
			if own == 1 { // a proposal-time validation takes the node-operation lock, which refuses the next other pledge for a day
				flags = []bool{true, false}
			}
			for _, finalized := range flags {
				var verr error
				p, pv, _ := verifkit.Guard(func() { verr = f.node.validateNodePledgeSnapshot(s, tx, finalized) })
				r.Eval()
				r.Nontrivial(fmt.Sprintf("own-pledge|%d|%v", ts, finalized))
				if p || verr != nil {
					r.Violation("C29|pledge|proposer-rejects-its-own-elected-snapshot", fmt.Sprintf("the node elected for a pledge at %d refuses the snapshot it proposes itself (finalized=%v): %v %v", ts, finalized, verr, pv),
						map[string]any{"timestamp": ts, "hours_since_epoch": float64(ts-f.net.Epoch) / float64(time.Hour), "finalized": finalized})
				}
			}
		}
		r.Count("pledges_for_which_the_replica_is_elected", own)
		f.stop()
	}
	r.Finish()
}

// ---- Part W ----

func vC29DirectNode(recs []*CNode, networkId crypto.Hash, epoch uint64, genesis map[crypto.Hash]bool) *Node {
	node := &Node{Epoch: epoch, networkId: networkId, allNodesSortedWithState: recs, genesisNodesMap: genesis, persistStore: &vC29Store{}}
	node.nodeStateSequences = node.buildNodeStateSequences(recs, false)
	node.acceptedNodeStateSequences = node.buildNodeStateSequences(recs, true)
	return node
}

func (m *vC29Monitor) hours(rng *rand.Rand, pool []*vC29Ident, epoch uint64) {
	r := m.r
	const members = vC29MinNodes + 2
	genesis := make(map[crypto.Hash]bool)
	var base []*CNode
	ids := append([]*vC29Ident{}, pool[:members]...)
	sort.Slice(ids, func(i, j int) bool { return ids[i].ids < ids[j].ids })
	for _, id := range ids {
		genesis[id.id] = true
		base = append(base, &CNode{IdForNetwork: id.id, Signer: id.signer, Payee: id.payee, Transaction: vC29TxHash("genesis", id.id), Timestamp: epoch, State: common.NodeStateAccepted})
	}
	plain := vC29DirectNode(base, m.networkId, epoch, genesis)
	newcomer := pool[members]

	pledgeTx := common.NewTransactionV5(common.XINAssetId)
	pledgeTx.AddOutputWithType(common.OutputTypeNodePledge, nil, common.Script{}, common.KernelNodePledgeAmount, []byte{})
	pledgeTx.Extra = append(append([]byte{}, newcomer.signer.PublicSpendKey[:]...), newcomer.payee.PublicSpendKey[:]...)
	pledgeVer := pledgeTx.AsVersioned()
	cancelTx := common.NewTransactionV5(common.XINAssetId)
	cancelTx.Extra = append([]byte{}, pledgeTx.Extra...)
	cancelVer := cancelTx.AsVersioned()

	hourNs := uint64(time.Hour)
	outside := func(validator string, h int, ts uint64, day uint64, window string) {
		class := "after-window"
		switch {
		case window == "pledge" && vC29InMintWindow(h):
			class = "inside-mint-window"
		case window == "pledge":
			class = "inside-accept-window"
		case h < config.KernelNodeAcceptTimeBegin:
			class = "before-window"
		}
		r.Violation("C29|hours|"+validator+" valid outside its window|"+class, fmt.Sprintf("%s accepts timestamp %d = epoch + day %d hour %d, outside the %s window", validator, ts, day, h, window),
			map[string]any{"validator": validator, "timestamp": ts, "epoch": epoch, "day": day, "hour": h, "window": window})
	}
	judge := func(validator, window string, ok bool, h int, ts, day uint64) {
		r.Eval()
		in := vC29InAcceptWindow(h)
		if window == "pledge" {
			in = !vC29InAcceptWindow(h) && !vC29InMintWindow(h)
		}
		switch {
		case ok && !in:
			outside(validator, h, ts, day, window)
			r.Count("hours_"+validator+"_valid_outside", 1)
		case ok && in:
			r.Count("hours_"+validator+"_valid_inside", 1)
			r.Nontrivial(fmt.Sprintf("W|%s|%d|%d", validator, day, h))
		case !ok && in:
			r.Count("hours_"+validator+"_rejected_inside", 1)
		default:
			r.Count("hours_"+validator+"_rejected_outside", 1)
			r.Nontrivial(fmt.Sprintf("W|%s|%d|%d", validator, day, h))
		}
	}

	sampled := 0
	for day := uint64(0); day < vC29Days; day++ {
		// scenario with a pledge pending since 03:xx of the previous day
		var pending *Node
		var pendingChain *Chain
		if day >= 1 {
			pt := epoch + (day-1)*OneDay + 3*hourNs + uint64(rng.Intn(3000))*uint64(time.Second)
			pc := &CNode{IdForNetwork: newcomer.id, Signer: newcomer.signer, Payee: newcomer.payee, Transaction: pledgeVer.PayloadHash(), Timestamp: pt, State: common.NodeStatePledging}
			recs := append(append([]*CNode{}, base...), pc)
			pending = vC29DirectNode(recs, m.networkId, epoch, genesis)
			pendingChain = &Chain{node: pending, ChainId: newcomer.id, ConsensusInfo: pc}
		}
		for h := 0; h < 24; h++ {
			offs := []uint64{0, uint64(rng.Int63n(int64(hourNs))), hourNs - 1}
			for _, off := range offs {
				ts := epoch + day*OneDay + uint64(h)*hourNs + off
				if ts == epoch {
					ts = epoch + 1 // at the epoch itself no node record is "earlier": membership is empty, outside the quantifier
				}
				hh := vC29Hour(epoch, ts) // == h, by independent arithmetic on the timestamp
				if hh != h {
					r.Inconclusive("harness hour arithmetic is inconsistent")
					return
				}
				var pa, pp bool
				panicked, val, stack := verifkit.Guard(func() {
					pa = plain.checkConsensusAcceptHour(ts)
					pp = plain.checkConsensusPledgeHour(ts)
				})
				if panicked {
					r.Violation("C29|hours|panic "+verifkit.PanicSite(stack), fmt.Sprintf("hour predicate panicked: %v", val), map[string]any{"timestamp": ts})
					return
				}
				judge("accept-hour-predicate", "accept", pa, h, ts, day)
				judge("pledge-hour-predicate", "pledge", pp, h, ts, day)

				// pledge validator, proposed by the elected node, otherwise valid
				var err error
				panicked, val, stack = verifkit.Guard(func() {
					eid := plain.electSnapshotNode(common.TransactionTypeNodePledge, ts)
					s := &common.Snapshot{Version: common.SnapshotVersionCommonEncoding, NodeId: eid, Timestamp: ts}
					err = plain.validateNodePledgeSnapshot(s, pledgeVer, false)
				})
				if panicked {
					r.Violation("C29|hours|panic "+verifkit.PanicSite(stack), fmt.Sprintf("validateNodePledgeSnapshot panicked: %v", val), map[string]any{"timestamp": ts})
					return
				}
				judge("pledge-validator", "pledge", err == nil, h, ts, day)

				// removal
				panicked, val, stack = verifkit.Guard(func() {
					eid := plain.electSnapshotNode(common.TransactionTypeNodeRemove, ts)
					_, err = plain.checkRemovePossibility(eid, ts, nil)
				})
				if panicked {
					r.Violation("C29|hours|panic "+verifkit.PanicSite(stack), fmt.Sprintf("checkRemovePossibility panicked: %v", val), map[string]any{"timestamp": ts})
					return
				}
				judge("remove-validator", "accept", err == nil, h, ts, day)

				if pending == nil {
					continue
				}
				panicked, val, stack = verifkit.Guard(func() {
					s := &common.Snapshot{Version: common.SnapshotVersionCommonEncoding, NodeId: ids[1].id, Timestamp: ts}
					err = pending.validateNodeCancelSnapshot(s, cancelVer, false)
				})
				if panicked {
					r.Violation("C29|hours|panic "+verifkit.PanicSite(stack), fmt.Sprintf("validateNodeCancelSnapshot panicked: %v", val), map[string]any{"timestamp": ts})
					return
				}
				judge("cancel-validator", "accept", err == nil, h, ts, day)

				panicked, val, stack = verifkit.Guard(func() { err = pendingChain.checkNodeAcceptPossibility(ts, false) })
				if panicked {
					r.Violation("C29|hours|panic "+verifkit.PanicSite(stack), fmt.Sprintf("checkNodeAcceptPossibility panicked: %v", val), map[string]any{"timestamp": ts})
					return
				}
				judge("accept-validator", "accept", err == nil, h, ts, day)
				if sampled < 1 && day == 700 && h == 13 {
					sampled++
					r.Sample(map[string]any{"part": "W", "day": day, "hour": h, "timestamp": ts, "accept_hour": pa, "pledge_hour": pp, "accept_validator_ok": err == nil})
				}
			}
		}
	}
	for _, v := range []string{"accept-hour-predicate", "pledge-hour-predicate", "pledge-validator", "remove-validator", "cancel-validator", "accept-validator"} {
		if r.Counter("hours_"+v+"_valid_inside") == 0 {
			r.Inconclusive(strings.TrimSpace(v + " never accepted a timestamp inside its window: the window clause was not exercised"))
		}
	}
}
