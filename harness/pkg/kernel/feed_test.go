package kernel

// W-feed: one real kernel.Node fed by a simulated network. The harness owns
// every private key of the test network, builds snapshots for any chain with
// correct round numbers and references, signs them with a real CoSi
// certificate and delivers them through the node's finalization path
// (cosiHook(CosiActionFinalization)), exactly as QueuePollSnapshots does.

import (
	"fmt"
	"math/rand"
	"os"
	"runtime/debug"
	"sort"
	"sync"
	"testing"
	"time"

	"github.com/MixinNetwork/mixin/common"
	"github.com/MixinNetwork/mixin/config"
	"github.com/MixinNetwork/mixin/crypto"
	"github.com/MixinNetwork/mixin/kernel/internal"
	"github.com/MixinNetwork/mixin/storage"
	"github.com/MixinNetwork/mixin/verifgen"
	"github.com/MixinNetwork/mixin/verifledger"
	"github.com/dgraph-io/badger/v4"
	"github.com/dgraph-io/ristretto/v2"
)

type verifFeed struct {
	tb            testing.TB
	net           *verifgen.Net
	node          *Node
	badger        *storage.BadgerStore
	store         storage.Store // what the node uses (may be a proxy around badger)
	wrap          func(*storage.BadgerStore) storage.Store
	dir           string
	rng           *rand.Rand
	self          int                        // index of the genesis node this replica runs as
	cursor        uint64                     // timeline cursor for generated snapshot timestamps
	custodians    []common.Address           // custodian accounts installed by the harness after genesis
	extraKeys     map[crypto.Hash]crypto.Key // signer keys of nodes that joined after genesis
	pledges       int
	pledgeTwoRefs bool // every pledge carries a second reference
}

// verifEpochUnix places the network epoch well in the past so that every
// generated snapshot timestamp is earlier than the node's clock. Wall-clock is
// used only to position the timeline, never in a verdict.
func verifEpochUnix() int64 {
	return time.Now().Unix()/86400*86400 - 400*86400
}

func verifNewFeed(tb testing.TB, label string, nodes int, rng *rand.Rand, dir string, wrap func(*storage.BadgerStore) storage.Store) *verifFeed {
	return verifNewFeedAt(tb, label, nodes, rng, dir, wrap, verifEpochUnix(), 0)
}

// verifNewFeedAt places the epoch explicitly and starts the timeline startDay days after it
// (mints only exist from batch 1707 on, so mint histories need an epoch ~5 years back).
func verifNewFeedAt(tb testing.TB, label string, nodes int, rng *rand.Rand, dir string, wrap func(*storage.BadgerStore) storage.Store, epochUnix int64, startDay uint64) *verifFeed {
	tb.Helper()
	internal.ToggleMockRunAggregators(true)
	if err := os.MkdirAll(dir, 0o755); err != nil {
		tb.Fatal(err)
	}
	net, err := verifgen.NewNet(label, nodes, epochUnix, dir)
	if err != nil {
		tb.Fatal(err)
	}
	f := &verifFeed{tb: tb, net: net, dir: dir, rng: rng, wrap: wrap}
	f.cursor = net.Epoch + startDay*OneDay + uint64(time.Hour)
	if err := f.boot(); err != nil {
		tb.Fatal(err)
	}
	return f
}

// verifMintEpochUnix is an epoch far enough back for universal mints (batch > 1706).
func verifMintEpochUnix() int64 {
	return time.Now().Unix()/86400*86400 - 1800*86400
}

func (f *verifFeed) boot() error {
	custom := verifledger.NewCustom(f.net.Signers[f.self].PrivateSpendKey)
	bs, err := storage.NewBadgerStore(custom, f.dir)
	if err != nil {
		return err
	}
	f.badger = bs
	f.store = bs
	if f.wrap != nil {
		f.store = f.wrap(bs)
	}
	cache, err := ristretto.NewCache(&ristretto.Config[[]byte, any]{NumCounters: 1e5, MaxCost: 1 << 26, BufferItems: 64})
	if err != nil {
		return err
	}
	node, err := SetupNode(custom, f.store, cache, f.net.Genesis)
	if err != nil {
		_ = bs.Close()
		return err
	}
	f.node = node
	return nil
}

// stop closes the replica the way a process exit does (no orderly teardown of
// chain loops, which are not running under the aggregator mock).
func (f *verifFeed) stop() {
	if f.node != nil {
		func() {
			defer func() { _ = recover() }()
			close(f.node.done)
		}()
		f.node.cacheStore.Clear()
		f.node.cacheStore.Close()
		f.node = nil
	}
	if f.badger != nil {
		_ = f.badger.Close()
		f.badger = nil
	}
}

func (f *verifFeed) restart() error {
	f.stop()
	return f.boot()
}

func (f *verifFeed) chain(id crypto.Hash) *Chain {
	return f.node.getOrCreateChain(id)
}

// tick advances the timeline cursor by a random step (ns) and returns it.
func (f *verifFeed) tick(max uint64) uint64 {
	f.cursor += 1 + uint64(f.rng.Int63n(int64(max)))
	return f.cursor
}

// verifRoundHashOf computes the final hash of a set of snapshots without
// touching the caller's slice order.
func verifRoundHashOf(nodeId crypto.Hash, number uint64, snaps []*common.Snapshot) (uint64, uint64, crypto.Hash) {
	cp := append([]*common.Snapshot{}, snaps...)
	return common.ComputeRoundHash(nodeId, number, cp)
}

// nextSnapshot builds the next unsigned snapshot for chainId holding txs at ts,
// in the current round when it fits (same day, within the round gap of the
// earliest snapshot), otherwise opening the next round with an external
// reference to the latest final round of another chain.
func (f *verifFeed) nextSnapshot(chainId crypto.Hash, txs []crypto.Hash, ts uint64) (*common.Snapshot, error) {
	chain := f.chain(chainId)
	if chain == nil || chain.State == nil {
		return nil, fmt.Errorf("chain %s has no state", chainId)
	}
	cache, _ := chain.StateCopy()
	s := &common.Snapshot{Version: common.SnapshotVersionCommonEncoding, NodeId: chainId, Timestamp: ts}
	hs := append([]crypto.Hash{}, txs...)
	sort.Slice(hs, func(i, j int) bool { return string(hs[i][:]) < string(hs[j][:]) })
	s.Transactions = hs

	sameRound := len(cache.Snapshots) == 0
	if !sameRound {
		start, end := cache.Snapshots[0].Timestamp, cache.Snapshots[0].Timestamp
		for _, cs := range cache.Snapshots {
			if cs.Timestamp < start {
				start = cs.Timestamp
			}
			if cs.Timestamp > end {
				end = cs.Timestamp
			}
			if cs.Timestamp == ts {
				return nil, fmt.Errorf("timestamp already used in the round")
			}
		}
		if ts > end && ts < start+config.SnapshotRoundGap && ts/OneDay == start/OneDay {
			sameRound = true
		} else if ts < start+config.SnapshotRoundGap {
			return nil, fmt.Errorf("timestamp %d does not fit the current round [%d,%d]", ts, start, end)
		}
	}
	if sameRound {
		s.RoundNumber = cache.Number
		s.References = cache.References.Copy()
	} else {
		_, _, self := verifRoundHashOf(chainId, cache.Number, cache.Snapshots)
		ext, err := f.pickExternal(chain)
		if err != nil {
			return nil, err
		}
		s.RoundNumber = cache.Number + 1
		s.References = &common.RoundLink{Self: self, External: ext}
	}
	s.Hash = s.PayloadHash()
	return s, nil
}

// pickExternal returns the hash of a stored final round of another chain that
// does not move the link backwards.
func (f *verifFeed) pickExternal(chain *Chain) (crypto.Hash, error) {
	ids := append([]crypto.Hash{}, f.net.NodeIds...)
	f.rng.Shuffle(len(ids), func(i, j int) { ids[i], ids[j] = ids[j], ids[i] })
	for _, id := range ids {
		if id == chain.ChainId {
			continue
		}
		ec := f.chain(id)
		if ec == nil || ec.State == nil {
			continue
		}
		fr := ec.State.FinalRound
		if fr.Number < chain.State.RoundLinks[id] {
			continue
		}
		return fr.Hash, nil
	}
	return crypto.Hash{}, fmt.Errorf("no external round available for %s", chain.ChainId)
}

// sign attaches a real CoSi certificate by `extra` signers more than the
// finalization threshold (capped by the key set), chosen at random.
func (f *verifFeed) sign(s *common.Snapshot, extra int) ([]crypto.Hash, error) {
	chain := f.chain(s.NodeId)
	cids, publics := chain.ConsensusKeys(s.RoundNumber, s.Timestamp)
	threshold := f.node.ConsensusThreshold(s.Timestamp, true)
	if threshold > len(cids) {
		return nil, fmt.Errorf("threshold %d above key set %d", threshold, len(cids))
	}
	n := threshold + extra
	if n > len(cids) {
		n = len(cids)
	}
	// the proposing node always signs its own snapshot (it is the CoSi leader)
	leader := -1
	for i, id := range cids {
		if id == s.NodeId {
			leader = i
		}
	}
	var perm []int
	if leader >= 0 {
		perm = append(perm, leader)
	}
	for _, i := range f.rng.Perm(len(cids)) {
		if len(perm) >= n {
			break
		}
		if i != leader {
			perm = append(perm, i)
		}
	}
	sort.Ints(perm)
	return verifSignWithKeys(f.keyOf, s, cids, publics, perm)
}

// verifSignWith runs the CoSi protocol (commit, aggregate, respond, strict
// aggregate) for the signers at the given positions of the key vector.
func verifSignWith(net *verifgen.Net, s *common.Snapshot, cids []crypto.Hash, publics []*crypto.Key, positions []int) ([]crypto.Hash, error) {
	return verifSignWithKeys(net.SignerKeyOf, s, cids, publics, positions)
}

// keyOf returns the signer key of a genesis node or of a node that joined later.
func (f *verifFeed) keyOf(id crypto.Hash) *crypto.Key {
	if k := f.net.SignerKeyOf(id); k != nil {
		return k
	}
	if k, ok := f.extraKeys[id]; ok {
		return &k
	}
	return nil
}

func verifSignWithKeys(keyOf func(crypto.Hash) *crypto.Key, s *common.Snapshot, cids []crypto.Hash, publics []*crypto.Key, positions []int) ([]crypto.Hash, error) {
	nonces := make(map[int]*crypto.CosiNonce)
	commitments := make(map[int]*crypto.Key)
	for _, i := range positions {
		nonce := crypto.CosiCommitNonce(crypto.RandReader())
		c := nonce.Public()
		nonces[i] = nonce
		commitments[i] = &c
	}
	sig, err := crypto.CosiAggregateCommitment(commitments)
	if err != nil {
		return nil, err
	}
	responses := make(map[int]*[32]byte)
	var signers []crypto.Hash
	for _, i := range positions {
		priv := keyOf(cids[i])
		if priv == nil {
			return nil, fmt.Errorf("no private key for consensus member %s", cids[i])
		}
		resp, err := nonces[i].Response(sig, priv, publics, s.Hash)
		if err != nil {
			return nil, err
		}
		responses[i] = resp
		signers = append(signers, cids[i])
	}
	if err := sig.AggregateResponse(publics, responses, s.Hash, true); err != nil {
		return nil, err
	}
	s.Signature = sig
	return signers, nil
}

type verifDelivery struct {
	Finalized bool
	Err       error
	Panicked  bool
	PanicVal  any
	Stack     string
}

// deliver stores the transaction bodies in the cache (what a peer's bundle
// does) and hands the certified snapshot to the chain's finalization handler.
func (f *verifFeed) deliver(s *common.Snapshot, txs []*common.VersionedTransaction) (d verifDelivery) {
	defer func() {
		if e := recover(); e != nil {
			d.Panicked, d.PanicVal = true, e
			d.Stack = string(debug.Stack())
		}
	}()
	for _, tx := range txs {
		if err := f.node.persistStore.CacheStoreTransaction(tx); err != nil {
			d.Err = err
			return
		}
	}
	chain := f.chain(s.NodeId)
	if chain == nil {
		d.Err = fmt.Errorf("unknown chain %s", s.NodeId)
		return
	}
	d.Finalized, d.Err = chain.cosiHook(&CosiAction{PeerId: s.NodeId, Action: CosiActionFinalization, Snapshot: s})
	return
}

// finalizeAsLeader does what the proposing node does once its own snapshot has collected its certificate (the tail
// of cosiHandleResponse): no second transaction validation, the snapshot goes straight into the round. ok=false
// when the snapshot does not belong to the current round of the chain (the follower path has to open the round).
func (f *verifFeed) finalizeAsLeader(s *common.Snapshot, signers []crypto.Hash, txs []*common.VersionedTransaction) (d verifDelivery, ok bool) {
	chain := f.chain(s.NodeId)
	if chain == nil || chain.State == nil {
		return d, false
	}
	defer func() {
		if e := recover(); e != nil {
			d.Panicked, d.PanicVal = true, e
			d.Stack = string(debug.Stack())
			ok = true
		}
	}()
	cache, final := chain.StateCopy()
	if s.RoundNumber == cache.Number+1 && len(cache.Snapshots) > 0 {
		// the proposer opens the next round itself before announcing (prepareAnnouncement)
		nc, nf, _, err := chain.startNewRoundAndPersist(cache, s.References, s.Timestamp, false)
		if err != nil || nf == nil {
			return d, false
		}
		cache, final = nc, nf
	}
	if s.RoundNumber != cache.Number || !s.References.Equal(cache.References) || cache.ValidateSnapshot(s) != nil {
		return d, false
	}
	if err := chain.AddSnapshot(final, cache, s, signers); err != nil {
		panic(err)
	}
	d.Finalized = true
	if len(txs) == 1 {
		d.Err = chain.node.reloadConsensusState(s, txs[0])
	}
	return d, true
}

// feedBatch = nextSnapshot + sign + deliver for already-built transactions.
func (f *verifFeed) feedBatch(chainId crypto.Hash, txs []*common.VersionedTransaction, ts uint64) (*common.Snapshot, verifDelivery) {
	hashes := make([]crypto.Hash, len(txs))
	for i, tx := range txs {
		hashes[i] = tx.PayloadHash()
	}
	s, err := f.nextSnapshot(chainId, hashes, ts)
	if err != nil {
		return nil, verifDelivery{Err: err}
	}
	if _, err := f.sign(s, f.rng.Intn(2)); err != nil {
		return s, verifDelivery{Err: err}
	}
	return s, f.deliver(s, txs)
}

// ---------------------------------------------------------------------------
// W-crash: a storage.Store proxy that counts every mutating call, records it,
// and can stop the replica at a chosen call boundary.

type verifCrash struct {
	at     int
	method string
	before bool
}

type verifCall struct {
	Index  int
	Method string
	Note   string
}

type verifProxy struct {
	storage.Store
	mu      sync.Mutex // guards calls/counters when several chain goroutines use the store
	calls   []verifCall
	cutAt   int                                       // index of the call to cut at (-1: never)
	before  bool                                      // stop before performing the call (else right after it)
	onCall  func(idx int, method string, before bool) // schedule-injection hook, runs at both sides of every call
	inHook  bool
	stopped bool
	// fault injection: the next n calls of a method return badger.ErrConflict without being performed (what Badger
	// answers when a concurrent commit touched a key the call had read; the kernel retries such calls)
	conflicts map[string]int
	// and: the next n calls of a method fail with a plain storage error, not performed (disk trouble)
	failures map[string]int
	// stop the replica before the next call of this method (when the call index is not known in advance)
	cutBeforeMethod string
}

var errVerifInjected = fmt.Errorf("injected storage write failure")

func (p *verifProxy) takeFailure(method string) bool {
	p.mu.Lock()
	defer p.mu.Unlock()
	if p.failures[method] > 0 {
		p.failures[method]--
		return true
	}
	return false
}

func (p *verifProxy) takeConflict(method string) bool {
	p.mu.Lock()
	defer p.mu.Unlock()
	if p.conflicts[method] > 0 {
		p.conflicts[method]--
		return true
	}
	return false
}

func newVerifProxy(s storage.Store) *verifProxy { return &verifProxy{Store: s, cutAt: -1} }

func (p *verifProxy) enter(method, note string) int {
	if p.inHook { // calls made by an injected schedule step are not cut points of the observed sequence
		return -1
	}
	if p.stopped {
		panic(verifCrash{at: -1, method: method})
	}
	p.mu.Lock()
	idx := len(p.calls)
	p.calls = append(p.calls, verifCall{Index: idx, Method: method, Note: note})
	p.mu.Unlock()
	if p.onCall != nil && !p.inHook {
		p.inHook = true
		p.onCall(idx, method, true)
		p.inHook = false
	}
	if idx == p.cutAt && p.before || p.cutBeforeMethod != "" && method == p.cutBeforeMethod {
		p.stopped = true
		panic(verifCrash{at: idx, method: method, before: true})
	}
	return idx
}

func (p *verifProxy) leave(idx int, method string) {
	if idx < 0 {
		return
	}
	if p.onCall != nil && !p.inHook {
		p.inHook = true
		p.onCall(idx, method, false)
		p.inHook = false
	}
	if idx == p.cutAt && !p.before {
		p.stopped = true
		panic(verifCrash{at: idx, method: method, before: false})
	}
}

func (p *verifProxy) LoadGenesis(r []*common.Round, s []*common.SnapshotWithTopologicalOrder, t []*common.VersionedTransaction) error {
	i := p.enter("LoadGenesis", "")
	err := p.Store.LoadGenesis(r, s, t)
	p.leave(i, "LoadGenesis")
	return err
}
func (p *verifProxy) AddNodeOperation(tx *common.VersionedTransaction, timestamp, threshold uint64, finalized bool) error {
	i := p.enter("AddNodeOperation", "")
	err := p.Store.AddNodeOperation(tx, timestamp, threshold, finalized)
	p.leave(i, "AddNodeOperation")
	return err
}
func (p *verifProxy) WriteTransaction(tx *common.VersionedTransaction) error {
	i := p.enter("WriteTransaction", tx.PayloadHash().String()[:8])
	if p.takeConflict("WriteTransaction") {
		p.leave(i, "WriteTransaction")
		return badger.ErrConflict
	}
	err := p.Store.WriteTransaction(tx)
	p.leave(i, "WriteTransaction")
	return err
}
func (p *verifProxy) StartNewRound(node crypto.Hash, number uint64, references *common.RoundLink, finalStart uint64) error {
	i := p.enter("StartNewRound", fmt.Sprintf("%s:%d", node.String()[:8], number))
	if p.takeFailure("StartNewRound") {
		p.leave(i, "StartNewRound")
		return errVerifInjected
	}
	err := p.Store.StartNewRound(node, number, references, finalStart)
	p.leave(i, "StartNewRound")
	return err
}
func (p *verifProxy) UpdateEmptyHeadRound(node crypto.Hash, number uint64, references *common.RoundLink) error {
	i := p.enter("UpdateEmptyHeadRound", fmt.Sprintf("%s:%d", node.String()[:8], number))
	if p.takeFailure("UpdateEmptyHeadRound") {
		p.leave(i, "UpdateEmptyHeadRound")
		return errVerifInjected
	}
	err := p.Store.UpdateEmptyHeadRound(node, number, references)
	p.leave(i, "UpdateEmptyHeadRound")
	return err
}
func (p *verifProxy) WriteConsensusSnapshot(snap *common.Snapshot, tx *common.VersionedTransaction, hack *common.Snapshot) error {
	i := p.enter("WriteConsensusSnapshot", snap.Hash.String()[:8])
	err := p.Store.WriteConsensusSnapshot(snap, tx, hack)
	p.leave(i, "WriteConsensusSnapshot")
	return err
}
func (p *verifProxy) LockUTXOs(inputs []*common.Input, tx crypto.Hash, fork bool) error {
	i := p.enter("LockUTXOs", tx.String()[:8])
	if p.takeConflict("LockUTXOs") {
		p.leave(i, "LockUTXOs")
		return badger.ErrConflict
	}
	err := p.Store.LockUTXOs(inputs, tx, fork)
	p.leave(i, "LockUTXOs")
	return err
}
func (p *verifProxy) LockDepositInput(deposit *common.DepositData, tx crypto.Hash, fork bool) error {
	i := p.enter("LockDepositInput", tx.String()[:8])
	if p.takeConflict("LockDepositInput") {
		p.leave(i, "LockDepositInput")
		return badger.ErrConflict
	}
	err := p.Store.LockDepositInput(deposit, tx, fork)
	p.leave(i, "LockDepositInput")
	return err
}
func (p *verifProxy) LockMintInput(mint *common.MintData, tx crypto.Hash, fork bool) error {
	i := p.enter("LockMintInput", tx.String()[:8])
	err := p.Store.LockMintInput(mint, tx, fork)
	p.leave(i, "LockMintInput")
	return err
}
func (p *verifProxy) LockGhostKeys(keys []*crypto.Key, tx crypto.Hash, fork bool) error {
	i := p.enter("LockGhostKeys", tx.String()[:8])
	if p.takeConflict("LockGhostKeys") {
		p.leave(i, "LockGhostKeys")
		return badger.ErrConflict
	}
	err := p.Store.LockGhostKeys(keys, tx, fork)
	p.leave(i, "LockGhostKeys")
	return err
}
func (p *verifProxy) WriteSnapshot(s *common.SnapshotWithTopologicalOrder, signers []crypto.Hash) error {
	i := p.enter("WriteSnapshot", fmt.Sprintf("%s@%d", s.Hash.String()[:8], s.TopologicalOrder))
	err := p.Store.WriteSnapshot(s, signers)
	p.leave(i, "WriteSnapshot")
	return err
}
func (p *verifProxy) CacheStoreTransaction(tx *common.VersionedTransaction) error {
	i := p.enter("CacheStoreTransaction", tx.PayloadHash().String()[:8])
	err := p.Store.CacheStoreTransaction(tx)
	p.leave(i, "CacheStoreTransaction")
	return err
}
func (p *verifProxy) CacheQueueTransaction(tx *common.VersionedTransaction) error {
	i := p.enter("CacheQueueTransaction", tx.PayloadHash().String()[:8])
	err := p.Store.CacheQueueTransaction(tx)
	p.leave(i, "CacheQueueTransaction")
	return err
}
func (p *verifProxy) CacheRetrieveTransactions(limit int) ([]*common.VersionedTransaction, error) {
	i := p.enter("CacheRetrieveTransactions", "")
	txs, err := p.Store.CacheRetrieveTransactions(limit)
	p.leave(i, "CacheRetrieveTransactions")
	return txs, err
}
func (p *verifProxy) CacheRemoveTransactions(hs []crypto.Hash) error {
	i := p.enter("CacheRemoveTransactions", "")
	err := p.Store.CacheRemoveTransactions(hs)
	p.leave(i, "CacheRemoveTransactions")
	return err
}
func (p *verifProxy) WriteRoundWork(nodeId crypto.Hash, round uint64, snapshots []*common.SnapshotWork, credit bool) error {
	i := p.enter("WriteRoundWork", fmt.Sprintf("%s:%d", nodeId.String()[:8], round))
	err := p.Store.WriteRoundWork(nodeId, round, snapshots, credit)
	p.leave(i, "WriteRoundWork")
	return err
}
func (p *verifProxy) WriteRoundSpaceAndState(space *common.RoundSpace) error {
	i := p.enter("WriteRoundSpaceAndState", "")
	err := p.Store.WriteRoundSpaceAndState(space)
	p.leave(i, "WriteRoundSpaceAndState")
	return err
}

// verifFeedOn boots a replica on an existing directory of an existing network.
func verifFeedOn(tb testing.TB, net *verifgen.Net, rng *rand.Rand, dir string, wrap func(*storage.BadgerStore) storage.Store) (*verifFeed, error) {
	internal.ToggleMockRunAggregators(true)
	f := &verifFeed{tb: tb, net: net, dir: dir, rng: rng, wrap: wrap}
	f.cursor = net.Epoch + uint64(time.Hour)
	if err := f.boot(); err != nil {
		return nil, err
	}
	return f, nil
}
