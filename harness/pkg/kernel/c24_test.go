package kernel

import (
	"fmt"
	"math/big"
	"slices"
	"sort"
	"testing"
	"time"

	"github.com/MixinNetwork/mixin/common"
	"github.com/MixinNetwork/mixin/config"
	"github.com/MixinNetwork/mixin/crypto"
	"github.com/MixinNetwork/mixin/p2p"
	"github.com/MixinNetwork/mixin/verifgen"
	"github.com/MixinNetwork/mixin/verifkit"
)

type vC24Tx struct {
	tx    *common.VersionedTransaction
	hash  crypto.Hash
	state string // finalized | stored | cached | nobody
}

type vC24Proposal struct {
	snap        *common.Snapshot
	txs         []*vC24Tx
	commitments int
	responses   int
	expired     bool
	complete    bool
}

// TestVerif_C24: retiring a local proposal never loses a pending transaction.
func TestVerif_C24(t *testing.T) {
	r := verifkit.Start(t, "C24", "exploration")
	r.SetRule("a real node and store; per scenario 1..6 in-flight local proposals are installed on the node's own chain (aggregator + verifier entries as cosiSendAnnouncement " +
		"creates them) over transactions in random states (finalized, body in the store, body only in the cache, no body), with random commitment/response counts and timestamps " +
		"around now-gap; overlaps only in the protocol-reachable pattern (a transaction of an expired proposal re-proposed by a newer one at least one gap later). The cache queue is " +
		"drained, one retirement runs (expiry, abandon-and-retry, round reset with an owned set, announcement deferral, duplicate deferral (a new self snapshot repeating transactions owned by a still-active proposal), full action pool, requeue-class announcement error) and the " +
		"queue is drained again. Oracle: every transaction of a retired proposal that is unfinalized and has a body is in the drained set; transactions owned by a still-active " +
		"proposal or by the triggering snapshot are not; complete or unexpired proposals are not retired. non-trivial = distinct scenarios by (retirement, transaction-state mix, overlap)")
	rng := r.Rand()
	f := verifNewFeed(t, fmt.Sprintf("c24-%d", r.Seed), 7, rng, t.TempDir(), nil)
	defer f.stop()
	w := verifgen.NewWallet(f.net.Label, rng, &f.net.Custodian, 3)
	assets := verifgen.Assets()
	store := f.node.persistStore
	self := f.node.IdForNetwork
	n := r.N(400, 20000)
	counter := 0

	drain := func() map[crypto.Hash]int {
		out := map[crypto.Hash]int{}
		for {
			txs, err := store.CacheRetrieveTransactions(200)
			if err != nil {
				t.Fatalf("drain: %v", err)
			}
			for _, tx := range txs {
				out[tx.PayloadHash()]++
			}
			if len(txs) == 0 {
				return out
			}
		}
	}

	newTx := func(state string) *vC24Tx {
		counter++
		dep, specs := w.Deposit(assets[1+rng.Intn(3)], big.NewInt(int64(1+rng.Intn(1e6))))
		v := &vC24Tx{tx: dep, hash: dep.PayloadHash(), state: state}
		switch state {
		case "finalized":
			_, d := f.feedBatch(f.net.NodeIds[1+rng.Intn(6)], []*common.VersionedTransaction{dep}, f.tick(uint64(2*time.Second)))
			if !d.Finalized {
				v.state = "cached"
			} else {
				w.Applied(dep, specs)
			}
		case "stored":
			if err := dep.Validate(store, f.cursor, false); err != nil {
				t.Fatalf("validate: %v", err)
			}
			if err := dep.LockInputs(store, false); err != nil {
				t.Fatalf("lock: %v", err)
			}
			if err := store.WriteTransaction(dep); err != nil {
				t.Fatalf("write: %v", err)
			}
		case "cached":
			if err := store.CacheStoreTransaction(dep); err != nil {
				t.Fatal(err)
			}
		}
		return v
	}
	states := []string{"finalized", "stored", "cached", "nobody", "stored", "cached"}

	for i := 0; i < n; i++ {
		now := f.tick(uint64(10 * time.Second))
		base := f.node.ConsensusThreshold(now, false)
		chain := &Chain{node: f.node, ChainId: self, CosiAggregators: map[crypto.Hash]*CosiAggregator{}, CosiVerifiers: map[crypto.Hash]*CosiVerifier{},
			CachePool: make(chan *CosiAction, 1), running: true}
		np := 1 + rng.Intn(6)
		var props []*vC24Proposal
		mix := map[string]bool{}
		overlap := false
		owner := map[crypto.Hash]*vC24Proposal{} // verifier owner of each transaction (latest proposal wins, as in cosiSendAnnouncement)
		for p := 0; p < np; p++ {
			pr := &vC24Proposal{}
			nt := 1 + rng.Intn(4)
			for k := 0; k < nt; k++ {
				st := states[rng.Intn(len(states))]
				v := newTx(st)
				mix[v.state] = true
				pr.txs = append(pr.txs, v)
			}
			// timestamps: expired (older than one gap) or still inside the gap
			age := uint64(rng.Int63n(int64(3 * config.SnapshotRoundGap)))
			if rng.Intn(5) == 0 {
				age = config.SnapshotRoundGap - 1 + uint64(rng.Intn(3)) // around the expiry boundary
			}
			pr.snap = &common.Snapshot{Version: common.SnapshotVersionCommonEncoding, NodeId: self, RoundNumber: 5, Timestamp: now - age}
			pr.expired = now >= pr.snap.Timestamp+config.SnapshotRoundGap
			props = append(props, pr)
		}
		// protocol-reachable overlap: a newer proposal (>= one gap later) repeats a transaction of an expired one
		if len(props) >= 2 && rng.Intn(3) == 0 {
			sort.Slice(props, func(a, b int) bool { return props[a].snap.Timestamp < props[b].snap.Timestamp })
			old, young := props[0], props[len(props)-1]
			if young.snap.Timestamp >= old.snap.Timestamp+config.SnapshotRoundGap {
				young.txs = append(young.txs, old.txs[rng.Intn(len(old.txs))])
				overlap = true
			}
		}
		sort.Slice(props, func(a, b int) bool { return props[a].snap.Timestamp < props[b].snap.Timestamp })
		for _, pr := range props {
			for _, v := range pr.txs {
				pr.snap.Transactions = append(pr.snap.Transactions, v.hash)
			}
			pr.snap.Hash = pr.snap.PayloadHash()
			pr.commitments = 1 + rng.Intn(7)
			pr.responses = rng.Intn(pr.commitments + 1)
			if rng.Intn(4) == 0 {
				pr.commitments, pr.responses = base+rng.Intn(2), 0
				pr.responses = pr.commitments
			}
			pr.complete = pr.commitments >= base && pr.responses == pr.commitments
			agg := &CosiAggregator{Snapshot: pr.snap, Commitments: map[int]*crypto.Key{}, Responses: map[int]*[32]byte{}}
			for c := 0; c < pr.commitments; c++ {
				agg.Commitments[c] = &crypto.Key{}
			}
			for c := 0; c < pr.responses; c++ {
				agg.Responses[c] = &[32]byte{}
			}
			chain.CosiAggregators[pr.snap.Hash] = agg
			ver := &CosiVerifier{Snapshot: pr.snap}
			chain.CosiVerifiers[pr.snap.Hash] = ver
			for _, v := range pr.txs {
				chain.CosiVerifiers[v.hash] = ver
				owner[v.hash] = pr
			}
		}
		_ = drain()

		// one retirement
		kind := []string{"expiry", "expiry", "retry", "round-reset", "deferral", "full-pool", "announcement-error", "duplicate-deferral", "response-after-references-replaced"}[rng.Intn(9)]
		retired := map[*vC24Proposal]bool{}
		ownedSet := map[crypto.Hash]bool{}
		var extra []*vC24Tx // transactions of the triggering self snapshot (deferral / full pool / announcement error)
		var panicVal any
		panicked := false
		switch kind {
		case "expiry":
			for _, pr := range props {
				if pr.expired && !pr.complete {
					retired[pr] = true
				}
			}
			panicked, panicVal, _ = verifkit.Guard(func() { chain.expireCosiAggregators(now) })
		case "retry":
			pr := props[rng.Intn(len(props))]
			retired[pr] = true
			panicked, panicVal, _ = verifkit.Guard(func() { chain.retryCosiSnapshot(pr.snap) })
		case "round-reset":
			for _, pr := range props {
				retired[pr] = true
			}
			// the snapshot that triggers the transition owns some transactions (possibly shared with old proposals)
			var owned []crypto.Hash
			for k := 0; k < 1+rng.Intn(3); k++ {
				var v *vC24Tx
				if rng.Intn(2) == 0 {
					pr := props[rng.Intn(len(props))]
					v = pr.txs[rng.Intn(len(pr.txs))]
				} else {
					v = newTx(states[1+rng.Intn(2)])
				}
				owned = append(owned, v.hash)
				ownedSet[v.hash] = true
			}
			panicked, panicVal, _ = verifkit.Guard(func() { chain.resetCosiStateForNewRound(owned) })
		case "response-after-references-replaced":
			// a proposal announced into the still empty head round collects its commitments and all responses (a complete,
			// valid collective signature), but meanwhile the references of the empty head round were replaced: the response
			// handler retires it
			pr := props[rng.Intn(len(props))]
			old := pr.snap.Hash
			selfRef := crypto.Blake3Hash([]byte(fmt.Sprint("c24-self-ref", i)))
			pr.snap.References = &common.RoundLink{Self: selfRef, External: crypto.Blake3Hash([]byte(fmt.Sprint("c24-old-external", i)))}
			pr.snap.Hash = pr.snap.PayloadHash()
			delete(chain.CosiAggregators, old)
			delete(chain.CosiVerifiers, old)
			chain.CosiCommunicatedAt = map[crypto.Hash]time.Time{}
			chain.State = &ChainState{
				CacheRound: &CacheRound{NodeId: self, Number: 5, Timestamp: pr.snap.Timestamp,
					References: &common.RoundLink{Self: selfRef, External: crypto.Blake3Hash([]byte(fmt.Sprint("c24-new-external", i)))}},
				FinalRound: &FinalRound{NodeId: self, Number: 4},
			}
			ids, publics := chain.ConsensusKeys(5, pr.snap.Timestamp)
			own := -1
			for k, id := range ids {
				if id == self {
					own = k
				}
			}
			thr := f.node.ConsensusThreshold(pr.snap.Timestamp, false)
			if own < 0 || thr > len(ids) {
				r.Count("scenario_setup_did_not_take_the_intended_path_"+kind, 1)
				continue
			}
			signers := []int{own}
			for _, k := range rng.Perm(len(ids)) {
				if k != own && len(signers) < thr+rng.Intn(len(ids)-thr+1) {
					signers = append(signers, k)
				}
			}
			nonces := map[int]*crypto.CosiNonce{}
			commitments := map[int]*crypto.Key{}
			for _, k := range signers {
				nonce := crypto.CosiCommitNonce(crypto.RandReader())
				R := nonce.Public()
				nonces[k], commitments[k] = nonce, &R
			}
			signature, err := crypto.CosiAggregateCommitment(commitments)
			if err != nil {
				t.Fatal(err)
			}
			pr.snap.Signature = signature
			responses := map[int]*[32]byte{}
			bad := false
			for _, k := range signers {
				key := f.keyOf(ids[k])
				if key == nil {
					bad = true
					break
				}
				resp, err := nonces[k].Response(signature, key, publics, pr.snap.Hash)
				if err != nil {
					bad = true
					break
				}
				responses[k] = resp
			}
			if bad {
				r.Count("scenario_setup_did_not_take_the_intended_path_"+kind, 1)
				continue
			}
			last := signers[len(signers)-1]
			agg := &CosiAggregator{Snapshot: pr.snap, WantTxs: map[crypto.Hash][]crypto.Hash{}, FullChallenges: map[crypto.Hash]bool{},
				Commitments: commitments, Responses: map[int]*[32]byte{}}
			found := map[crypto.Hash]*common.VersionedTransaction{}
			for _, v := range pr.txs {
				if v.tx != nil {
					agg.Transactions = append(agg.Transactions, v.tx)
					found[v.hash] = v.tx
				}
			}
			for _, k := range signers {
				if k != last {
					agg.Responses[k] = responses[k]
				}
			}
			ver := &CosiVerifier{Snapshot: pr.snap, nonce: nonces[own]}
			chain.CosiAggregators[pr.snap.Hash] = agg
			chain.CosiVerifiers[pr.snap.Hash] = ver
			for _, v := range pr.txs {
				if owner[v.hash] == pr {
					chain.CosiVerifiers[v.hash] = ver
				}
			}
			pr.commitments, pr.responses = len(signers), len(signers)-1
			retired[pr] = true
			m := &CosiAction{Action: CosiActionSelfResponse, PeerId: ids[last], SnapshotHash: pr.snap.Hash, Response: responses[last],
				data: &CosiChainData{PN: &CNode{IdForNetwork: ids[last], ConsensusIndex: last}, CN: &CNode{IdForNetwork: ids[own], ConsensusIndex: own}, FoundTxs: found}}
			if f.node.Peer == nil { // the handler logs the peer address
				f.node.Peer = p2p.NewPeer(f.node, self, "verif", false)
			}
			panicked, panicVal, _ = verifkit.Guard(func() {
				if err := chain.cosiHandleResponse(m); err != nil {
					panic("response handler: " + err.Error())
				}
				if chain.CosiAggregators[pr.snap.Hash] != nil {
					panic("response handler did not retire the proposal")
				}
			})
		case "duplicate-deferral":
			// the new self snapshot (same round, inside the gap) repeats transactions that a still-active proposal
			// owns, at random positions among fresh companions: the companions are requeued, the owned ones are not
			var live []*vC24Proposal
			for _, pr := range props {
				if !pr.expired {
					live = append(live, pr)
				}
			}
			first := now - config.SnapshotRoundGap/2
			if len(live) == 0 || first/OneDay != now/OneDay {
				r.Count("scenario_setup_did_not_take_the_intended_path_"+kind, 1)
				continue
			}
			s := &common.Snapshot{Version: common.SnapshotVersionCommonEncoding, NodeId: self, Timestamp: now}
			for k := 0; k < 1+rng.Intn(4); k++ {
				v := newTx([]string{"stored", "cached"}[rng.Intn(2)])
				mix[v.state] = true
				extra = append(extra, v)
				s.Transactions = append(s.Transactions, v.hash)
			}
			for k := 0; k < 1+rng.Intn(2); k++ {
				pr := live[rng.Intn(len(live))]
				g := pr.txs[rng.Intn(len(pr.txs))]
				if owner[g.hash] == nil || owner[g.hash].expired || slices.Contains(s.Transactions, g.hash) {
					continue
				}
				pos := rng.Intn(len(s.Transactions) + 1)
				s.Transactions = slices.Insert(s.Transactions, pos, g.hash)
			}
			if len(s.Transactions) == len(extra) {
				r.Count("scenario_setup_did_not_take_the_intended_path_"+kind, 1)
				extra = nil
				continue
			}
			chain.State = &ChainState{
				CacheRound: &CacheRound{NodeId: self, Number: 5, Timestamp: first, References: new(common.RoundLink),
					Snapshots: []*common.Snapshot{{NodeId: self, RoundNumber: 5, Timestamp: first}}},
				FinalRound: &FinalRound{NodeId: self, Number: 4},
			}
			panicked, panicVal, _ = verifkit.Guard(func() {
				if err := chain.cosiSendAnnouncement(&CosiAction{PeerId: self, Action: CosiActionSelfEmpty, Snapshot: s, data: &CosiChainData{}}); err != nil {
					panic("deferral scenario returned an error: " + err.Error())
				}
			})
		case "deferral", "full-pool", "announcement-error":
			s := &common.Snapshot{Version: common.SnapshotVersionCommonEncoding, NodeId: self}
			for k := 0; k < 1+rng.Intn(4); k++ {
				v := newTx(states[rng.Intn(len(states))])
				mix[v.state] = true
				extra = append(extra, v)
				s.Transactions = append(s.Transactions, v.hash)
			}
			switch kind {
			case "deferral":
				// the current round already has a snapshot; the new proposal comes after the 4/5-gap cutoff
				first := now - config.SnapshotRoundGap*9/10
				chain.State = &ChainState{
					CacheRound: &CacheRound{NodeId: self, Number: 2, Timestamp: first, References: new(common.RoundLink),
						Snapshots: []*common.Snapshot{{NodeId: self, RoundNumber: 2, Timestamp: first}}},
					FinalRound: &FinalRound{NodeId: self, Number: 1},
				}
				s.Timestamp = now
				switch rng.Intn(3) {
				case 0: // or: not later than the round's last proposal time
					chain.State.CacheRound.Timestamp = now + 5
				case 1: // or: the round's first snapshot lies just before a day boundary and the new proposal just after it
					boundary := (now/OneDay + 1) * OneDay
					d := uint64(1 + rng.Intn(int(config.SnapshotRoundGap/4)))
					chain.State.CacheRound.Timestamp = boundary - d
					chain.State.CacheRound.Snapshots[0].Timestamp = boundary - d
					s.Timestamp = boundary + uint64(rng.Intn(int(config.SnapshotRoundGap/4)))
					kind = "deferral-across-a-day-boundary"
				}
				panicked, panicVal, _ = verifkit.Guard(func() {
					valid, err := chain.prepareAnnouncement(&CosiAction{Snapshot: s, data: &CosiChainData{}})
					if valid || err != nil {
						panic(fmt.Sprintf("deferral scenario was not deferred: %v %v", valid, err))
					}
				})
			case "full-pool":
				chain.CachePool <- &CosiAction{Action: CosiActionSelfEmpty}
				panicked, panicVal, _ = verifkit.Guard(func() {
					_ = chain.AppendCosiAction(&CosiAction{PeerId: self, Action: CosiActionSelfEmpty, Snapshot: s})
				})
			case "announcement-error":
				rc := f.node.chain
				if rng.Intn(2) == 0 {
					// sync points are empty on this replica: "chain not broadcasted to peers yet" => requeue class
					f.node.SyncPointsMap = nil
				} else {
					// the replica is in step with its peers, but one member of the batch was finalized by another
					// chain between the queue pop and the announcement => requeue class (the companions stay eligible)
					spm := map[crypto.Hash]*p2p.SyncPoint{}
					for _, id := range f.net.NodeIds {
						if id != self {
							spm[id] = &p2p.SyncPoint{NodeId: id, Number: 0}
						}
					}
					f.node.SyncPointsMap = spm
					v := newTx("finalized")
					if v.state == "finalized" {
						mix[v.state] = true
						extra = append(extra, v)
						pos := rng.Intn(len(s.Transactions) + 1)
						s.Transactions = slices.Insert(s.Transactions, pos, v.hash)
						kind = "announcement-error-finalized-member"
					}
				}
				panicked, panicVal, _ = verifkit.Guard(func() {
					_, err := rc.cosiHook(&CosiAction{PeerId: self, Action: CosiActionSelfEmpty, Snapshot: s})
					if err != nil {
						panic("announcement error returned instead of requeue: " + err.Error())
					}
				})
				f.node.SyncPointsMap = nil
			}
		}
		r.Eval()
		mixKeys := make([]string, 0, len(mix))
		for k := range mix {
			mixKeys = append(mixKeys, k)
		}
		sort.Strings(mixKeys)
		r.Nontrivial(fmt.Sprintf("%s|%v|%v|%d", kind, mixKeys, overlap, len(props)))
		r.Count("scenario_"+kind, 1)
		if overlap {
			r.Count("scenarios_with_overlap", 1)
		}
		if panicked {
			if s, ok := panicVal.(string); ok && len(s) > 8 && (s[:8] == "deferral" || s[:12] == "announcement") {
				r.Count("scenario_setup_did_not_take_the_intended_path_"+kind, 1)
				continue
			}
			r.Violation("C24|panic|"+kind, fmt.Sprintf("retirement panicked: %v", panicVal), map[string]any{"kind": kind})
			continue
		}
		got := drain()

		// still-active owners after the retirement
		activeOwner := map[crypto.Hash]bool{}
		if kind != "round-reset" {
			for h, pr := range owner {
				if !retired[pr] {
					activeOwner[h] = true
				}
			}
		}
		describe := func() map[string]any {
			var ps []map[string]any
			for _, pr := range props {
				var ts []string
				for _, v := range pr.txs {
					ts = append(ts, v.hash.String()[:8]+":"+v.state)
				}
				ps = append(ps, map[string]any{"age_ns": now - pr.snap.Timestamp, "expired": pr.expired, "complete": pr.complete, "retired": retired[pr],
					"commitments": pr.commitments, "responses": pr.responses, "transactions": ts})
			}
			var dr []string
			for h := range got {
				dr = append(dr, h.String()[:8])
			}
			sort.Strings(dr)
			return map[string]any{"retirement": kind, "threshold": base, "proposals": ps, "requeued": dr}
		}
		check := func(v *vC24Tx, fromRetired bool, where string) {
			pending := v.state == "stored" || v.state == "cached"
			switch {
			case ownedSet[v.hash] || activeOwner[v.hash]:
				if got[v.hash] > 0 {
					cls := "owned-by-the-triggering-snapshot"
					if activeOwner[v.hash] {
						cls = "owned-by-a-still-active-proposal"
					}
					r.Violation("C24|requeued-although-"+cls+"|"+kind, "a transaction owned by a still-active proposal was made eligible for proposal again", describe())
				}
			case fromRetired && pending:
				if got[v.hash] == 0 {
					r.Violation("C24|lost|"+kind+"|"+v.state, fmt.Sprintf("a %s transaction of a retired proposal (%s) is not eligible for proposal again", v.state, where), describe())
				}
			case !pending:
				if got[v.hash] > 0 && v.state == "finalized" {
					r.Count("finalized_transactions_requeued_(harmless,_not_judged)", 1)
				}
			}
		}
		for _, pr := range props {
			for _, v := range pr.txs {
				if retired[pr] {
					check(v, true, "proposal")
				} else if got[v.hash] > 0 && !retired[owner[v.hash]] {
					// every proposal containing it is still active
					inRetired := false
					for _, q := range props {
						if retired[q] {
							for _, x := range q.txs {
								inRetired = inRetired || x.hash == v.hash
							}
						}
					}
					if !inRetired {
						cls := "unexpired"
						if pr.complete {
							cls = "complete"
						}
						r.Violation("C24|active-proposal-retired|"+kind+"|"+cls, "transactions of a proposal that is still active (complete or not expired) were requeued", describe())
					}
				}
			}
			// retired proposals must be gone, active ones must stay
			_, still := chain.CosiAggregators[pr.snap.Hash]
			if retired[pr] && still {
				r.Violation("C24|retired-proposal-still-installed|"+kind, "a retired proposal is still installed as aggregator", describe())
			}
			if !retired[pr] && !still && kind != "round-reset" {
				r.Violation("C24|active-proposal-removed|"+kind, "a still-active proposal was removed", describe())
			}
		}
		for _, v := range extra {
			check(v, true, "deferred self snapshot")
		}
		if r.SampleCount() < 5 {
			r.Sample(describe())
		}
	}
	r.Finish()
}
