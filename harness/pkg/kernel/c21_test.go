package kernel

import (
	"fmt"
	"github.com/MixinNetwork/mixin/kernel/internal/clock"
	"math/big"
	"path/filepath"
	"testing"
	"time"

	"github.com/MixinNetwork/mixin/common"
	"github.com/MixinNetwork/mixin/crypto"
	"github.com/MixinNetwork/mixin/storage"
	"github.com/MixinNetwork/mixin/verifgen"
	"github.com/MixinNetwork/mixin/verifkit"
)

type vC21Op struct {
	kind string
	snap *common.Snapshot
	txs  []*common.VersionedTransaction
}

// TestVerif_C21: consensus bookkeeping survives a crash after any finalization.
func TestVerif_C21(t *testing.T) {
	r := verifkit.Start(t, "C21", "fault_enumeration")
	r.SetRule("W-feed histories with consensus-class snapshots (node removal, custodian update; universal mint, node pledge, node acceptance) between ordinary snapshots on 7..9 chains; for each consensus snapshot the " +
		"replica is checkpointed, the storage-call sequence of its finalization is recorded, and EVERY call boundary of that sequence is cut (process stop before the call), " +
		"alone and combined with the schedule injection 'another chain finalizes an ordinary snapshot at this boundary' where the real per-chain goroutines allow it " +
		"(not while the topology lock is held); then the store is reopened and the node set up again. Oracle: if the consensus snapshot has a topology entry, the last " +
		"recorded consensus snapshot after restart is that snapshot or a later one. non-trivial = distinct (operation, boundary, injection) cuts after which the consensus snapshot was durable")
	r.Assume("a stop at a storage-call boundary is modelled by abandoning the node and reopening the Badger directory; every mutating store call is one committed Badger transaction")
	rng := r.Rand()
	histories := r.N(2, 10)
	scratch := t.TempDir()
	cuts, durable := 0, 0

	for h := 0; h < histories; h++ {
		label := fmt.Sprintf("c21-%d-%d", r.Seed, h)
		live := filepath.Join(scratch, label, "live")
		// histories alternate between the node-removal/custodian family and the mint/pledge/accept family
		// (mints only exist from batch 1707 on, so that family runs on an epoch five years back)
		family := (h + int(r.Seed)) % 2
		var f *verifFeed
		if family == 0 {
			f = verifNewFeed(t, label, 9, rng, live, nil)
		} else {
			f = verifNewFeedAt(t, label, 7, rng, live, nil, verifMintEpochUnix(), 1707)
			f.pledgeTwoRefs = true // the other consensus classes carry exactly one reference
		}
		w := verifgen.NewWallet(label, rng, &f.net.Custodian, 4)
		assets := verifgen.Assets()

		ordinary := func(n int) {
			for i := 0; i < n; i++ {
				chainId := f.net.NodeIds[rng.Intn(len(f.net.NodeIds))]
				var tx *common.VersionedTransaction
				var specs []verifgen.OutSpec
				if len(w.Outs) < 3 || rng.Intn(2) == 0 {
					tx, specs = w.Deposit(assets[rng.Intn(len(assets))], big.NewInt(int64(1+rng.Intn(1e8))))
				} else {
					tx, specs, _ = w.Transfer(1+rng.Intn(2), 1+rng.Intn(2), true)
				}
				_, d := f.feedBatch(chainId, []*common.VersionedTransaction{tx}, f.tick(uint64(2*time.Second)))
				if d.Finalized {
					w.Applied(tx, specs)
					r.Count("ordinary_snapshots_finalized", 1)
				} else {
					r.Count("ordinary_snapshots_not_finalized", 1)
				}
			}
		}

		plan := []string{"node-remove", "custodian-update", "node-remove"}
		if rng.Intn(2) == 0 {
			plan = []string{"custodian-update", "node-remove", "custodian-update"}
		}
		if family == 1 {
			plan = []string{"mint", "node-pledge", "node-accept"}
			if rng.Intn(2) == 0 {
				plan = []string{"node-pledge", "node-accept", "mint"}
			}
		}
		var cand *verifgen.Candidate
		for _, kind := range plan {
			ordinary(3 + rng.Intn(6))
			var chainId crypto.Hash
			var tx *common.VersionedTransaction
			var err error
			var ts uint64
			var newCust common.Address
			var c *common.Snapshot
			switch kind {
			case "mint":
				chainId, tx, ts, err = f.buildMint(w)
			case "node-pledge":
				chainId, tx, ts, cand, err = f.buildPledge(w)
			case "node-accept":
				if cand == nil {
					err = fmt.Errorf("no pledging candidate")
				} else {
					c, tx, err = f.buildAccept(cand)
				}
				if err == nil {
					chainId, ts = c.NodeId, c.Timestamp
				}
			case "node-remove":
				ts = f.atHour(13+rng.Intn(6), 50*time.Minute)
				chainId, tx, err = f.buildNodeRemove(ts)
			case "custodian-update":
				ts = f.atHour(20+rng.Intn(3), 50*time.Minute)
				newCust = verifgen.Addr(fmt.Sprintf("%s:custodian:%d", label, ts))
				pay := f.net.NodeIds[rng.Intn(len(f.net.NodeIds))]
				chainId, tx, err = f.buildCustodianUpdate(w, ts, &newCust, pay)
				ts = f.tick(uint64(time.Second))
			}
			if err != nil {
				r.Count("consensus_op_not_buildable_"+kind, 1)
				t.Logf("history %d: %s not buildable: %v", h, kind, err)
				continue
			}
			if c == nil { // an acceptance is round zero of the new node's own chain and was built above
				c, err = f.nextSnapshot(chainId, []crypto.Hash{tx.PayloadHash()}, ts)
			}
			if err != nil {
				r.Count("consensus_snapshot_not_buildable", 1)
				t.Logf("history %d: %s snapshot: %v", h, kind, err)
				continue
			}
			if _, err := f.sign(c, rng.Intn(2)); err != nil {
				t.Logf("history %d: %s sign: %v", h, kind, err)
				continue
			}
			op := &vC21Op{kind: kind, snap: c, txs: []*common.VersionedTransaction{tx}}
			// ordinary snapshots of another chain, certified on the same checkpoint state: one with a single
			// transaction and one batching two transactions
			var injs []*vC21Op
			for _, ntx := range []int{1, 2} {
				var inj *vC21Op
				for tries := 0; tries < 5 && inj == nil; tries++ {
					other := f.net.NodeIds[rng.Intn(len(f.net.NodeIds))]
					if other == chainId {
						continue
					}
					var deps []*common.VersionedTransaction
					var hs []crypto.Hash
					for k := 0; k < ntx; k++ {
						dep, _ := w.Deposit(assets[1+rng.Intn(3)], big.NewInt(int64(1+rng.Intn(1e6))))
						deps = append(deps, dep)
						hs = append(hs, dep.PayloadHash())
					}
					// (deposits are checked against the custodian of their own instant: next to a custodian update they
					// are stamped just before it, so that they stay valid on both sides of the update)
					yts := ts + uint64(1+rng.Intn(1000))
					if kind == "custodian-update" {
						yts = ts - uint64(1+rng.Intn(1000))
					}
					y, err := f.nextSnapshot(other, hs, yts)
					if err != nil {
						continue
					}
					if _, err := f.sign(y, 0); err != nil {
						continue
					}
					inj = &vC21Op{kind: fmt.Sprintf("ordinary-%d-tx", ntx), snap: y, txs: deps}
				}
				if inj != nil {
					injs = append(injs, inj)
				}
			}
			cursor := f.cursor
			f.stop()
			ckpt := filepath.Join(scratch, label, "ckpt")
			if err := verifCopyDir(live, ckpt); err != nil {
				t.Fatal(err)
			}
			c1, d1 := vC21Enumerate(t, r, f.net, scratch, label, ckpt, op, injs)
			cuts += c1
			durable += d1
			// continue the live history with the uncut delivery
			if err := f.boot(); err != nil {
				t.Fatalf("reboot live replica: %v", err)
			}
			f.cursor = cursor
			d := vC21Deliver(f, op)
			if !d.Finalized {
				d = vC21Deliver(f, op)
			}
			if !d.Finalized {
				if kind == "node-pledge" {
					cand = nil
				}
				r.Count("consensus_snapshot_not_finalized_live_"+kind, 1)
				t.Logf("history %d: %s not finalized live: err=%v panic=%v", h, kind, d.Err, d.PanicVal)
				continue
			}
			r.Count("consensus_snapshots_finalized_"+kind, 1)
			if kind == "custodian-update" {
				w.Custodian = &newCust
			}
			last, _ := f.node.persistStore.ReadLastConsensusSnapshot()
			if last == nil || last.PayloadHash() != op.snap.Hash {
				r.Violation("C21|no-crash|marker-not-advanced", "after an undisturbed finalization the last consensus snapshot is not the finalized one", map[string]any{"kind": kind})
			}
		}
		ordinary(2)
		f.stop()
	}
	r.Note("cuts_executed", cuts)
	r.Note("cuts_with_durable_consensus_snapshot", durable)
	if durable < 2 {
		r.Inconclusive(fmt.Sprintf("only %d cuts left a durable consensus snapshot", durable))
	}
	r.Finish()
}

// vC21Deliver hands the snapshot to the finalization handler; the acceptance path of the handler does not
// report back through the action, so for it "finalized" is read from the topology.
func vC21Deliver(f *verifFeed, op *vC21Op) verifDelivery {
	d := f.deliver(op.snap, op.txs)
	if op.kind == "node-accept" && !d.Finalized && !d.Panicked {
		if st, _ := f.node.persistStore.ReadSnapshot(op.snap.Hash); st != nil {
			d.Finalized = true
		}
	}
	return d
}

// vC21Enumerate cuts the finalization of op at every storage-call boundary.
func vC21Enumerate(t *testing.T, r *verifkit.Run, net *verifgen.Net, scratch, label, ckpt string, op *vC21Op, injs []*vC21Op) (int, int) {
	run := filepath.Join(scratch, label, "run")
	rng := r.Fork("c21-run", 0)
	// learn the call sequence
	if err := verifCopyDir(ckpt, run); err != nil {
		t.Fatal(err)
	}
	var px *verifProxy
	f, err := verifFeedOn(t, net, rng, run, func(bs *storage.BadgerStore) storage.Store { px = newVerifProxy(bs); return px })
	if err != nil {
		t.Fatalf("boot checkpoint: %v", err)
	}
	px.calls = nil
	d := vC21Deliver(f, op)
	if !d.Finalized {
		px.calls = nil
		d = vC21Deliver(f, op)
	}
	seq := append([]verifCall{}, px.calls...)
	f.stop()
	if !d.Finalized {
		r.Count("checkpoint_delivery_not_finalized_"+op.kind, 1)
		t.Logf("%s: checkpoint delivery not finalized: %v %v", op.kind, d.Err, d.PanicVal)
		return 0, 0
	}
	names := make([]string, len(seq))
	for i, c := range seq {
		names[i] = c.Method
	}
	if r.SampleCount() < 4 {
		r.Sample(map[string]any{"operation": op.kind, "storage_calls_of_finalization": names})
	}
	cuts, durable := 0, 0
	for k := 0; k <= len(seq); k++ {
		variants := append([]*vC21Op{nil}, injs...)
		for _, inj := range variants {
			inject := inj != nil
			method := "end"
			if k < len(seq) {
				method = seq[k].Method
			}
			if inject && method == "WriteSnapshot" {
				continue // inside TopoWrite the topology lock excludes another chain's finalization
			}
			if err := verifCopyDir(ckpt, run); err != nil {
				t.Fatal(err)
			}
			var p *verifProxy
			f, err := verifFeedOn(t, net, rng, run, func(bs *storage.BadgerStore) storage.Store { p = newVerifProxy(bs); return p })
			if err != nil {
				t.Fatalf("boot checkpoint: %v", err)
			}
			p.calls = nil
			p.cutAt, p.before = k, true
			injected := false
			if inject {
				p.onCall = func(idx int, m string, before bool) {
					if idx == k && before && !injected {
						injected = true
						dy := f.deliver(inj.snap, inj.txs)
						if !dy.Finalized {
							dy = f.deliver(inj.snap, inj.txs)
						}
						if dy.Finalized {
							r.Count("injected_snapshots_finalized", 1)
							r.Count("injected_snapshots_finalized_next_to_"+op.kind, 1)
						} else {
							r.Count("injected_snapshots_not_finalized", 1)
							r.Count("injected_snapshots_not_finalized_next_to_"+op.kind, 1)
						}
					}
				}
			}
			d := f.deliver(op.snap, op.txs)
			if k == len(seq) && inject && !injected { // boundary after the last call
				dy := f.deliver(inj.snap, inj.txs)
				if dy.Finalized {
					r.Count("injected_snapshots_finalized", 1)
				}
			}
			crashed := false
			if d.Panicked {
				if _, ok := d.PanicVal.(verifCrash); ok {
					crashed = true
				} else {
					r.Count("unexpected_panics_during_cut_run", 1)
					t.Logf("unexpected panic at cut %d: %v", k, d.PanicVal)
				}
			}
			_ = crashed
			f.stop()
			cuts++
			r.Eval()
			// restart on the plain store
			var f2 *verifFeed
			var rerr error
			// every other restart happens while the local clock is still a little behind the timestamp of the interrupted
			// snapshot (its proposer's clock ran ahead): what is durable must be found all the same
			behind := (k+len(variants))%2 == 0 && inject
			if behind {
				clock.MockDiff(-time.Since(time.Unix(0, int64(op.snap.Timestamp))) - 25*time.Second)
				r.Count("restarts_with_the_local_clock_behind_the_interrupted_snapshot", 1)
			}
			if panicked, pv, _ := verifkit.Guard(func() { f2, rerr = verifFeedOn(t, net, rng, run, nil) }); panicked {
				rerr = fmt.Errorf("setup panics: %v", pv)
			}
			if behind {
				clock.Reset()
			}
			err = rerr
			if err != nil {
				r.Count("restart_failed_(C22_territory)", 1)
				t.Logf("restart after cut %d (%s) failed: %v", k, method, err)
				continue
			}
			stored, _ := f2.node.persistStore.ReadSnapshot(op.snap.Hash)
			last, lerr := f2.node.persistStore.ReadLastConsensusSnapshot()
			f2.stop()
			if stored == nil {
				r.Count("cuts_before_the_snapshot_was_durable", 1)
				continue
			}
			durable++
			injName := "alone"
			if inject {
				injName = "other-chain-snapshot-interleaved"
			}
			r.Nontrivial(fmt.Sprintf("%s|%d|%s|%s|%v", op.kind, k, method, injName, inject && len(inj.txs) > 1))
			r.Count("cuts_after_the_snapshot_was_durable", 1)
			ok := lerr == nil && last != nil && (last.PayloadHash() == op.snap.Hash || last.Timestamp > op.snap.Timestamp)
			if !ok {
				injDesc := injName
				if inject {
					injDesc = injName + " (" + inj.kind + ")"
				}
				r.Violation(fmt.Sprintf("C21|before:%s|%s", method, injName),
					fmt.Sprintf("%s snapshot is durably finalized (topology %d) but after a stop before %s (%s) and restart the last recorded consensus snapshot is an older one",
						op.kind, stored.TopologicalOrder, method, injDesc),
					map[string]any{"operation": op.kind, "cut_before_call": k, "method": method, "injection": injDesc, "calls": names,
						"snapshot": op.snap.Hash.String(), "last_recorded": fmt.Sprint(last)})
			}
		}
	}
	return cuts, durable
}
