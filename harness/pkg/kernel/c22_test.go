package kernel

import (
	"fmt"
	"github.com/MixinNetwork/mixin/kernel/internal/clock"
	"math/big"
	"os"
	"path/filepath"
	"slices"
	"strings"
	"testing"
	"time"

	"github.com/MixinNetwork/mixin/common"
	"github.com/MixinNetwork/mixin/crypto"
	"github.com/MixinNetwork/mixin/storage"
	"github.com/MixinNetwork/mixin/verifgen"
	"github.com/MixinNetwork/mixin/verifkit"
)

// vC22Scan checks the durable ledger of a restarted replica: every finalized
// transaction keeps body, outputs and finalization record, and topology
// positions are unique. It returns a description of the first problem.
func vC22Scan(f *verifFeed) (problems []string, finalized int, positions int) {
	store := f.node.persistStore
	var offset uint64
	seenPos := map[uint64]crypto.Hash{}
	seenSnap := map[crypto.Hash]uint64{}
	var prev uint64
	first := true
	for {
		snaps, err := store.ReadSnapshotsSinceTopology(offset, 500)
		if err != nil {
			problems = append(problems, "topology listing error: "+err.Error())
			return
		}
		if len(snaps) == 0 {
			break
		}
		for _, s := range snaps {
			positions++
			if !first && s.TopologicalOrder <= prev {
				problems = append(problems, fmt.Sprintf("topology positions not increasing: %d after %d", s.TopologicalOrder, prev))
			}
			first = false
			prev = s.TopologicalOrder
			if h, dup := seenPos[s.TopologicalOrder]; dup && h != s.Hash {
				problems = append(problems, fmt.Sprintf("topology position %d used twice", s.TopologicalOrder))
			}
			seenPos[s.TopologicalOrder] = s.Hash
			if p, dup := seenSnap[s.Hash]; dup && p != s.TopologicalOrder {
				problems = append(problems, fmt.Sprintf("snapshot %s has two topology positions", s.Hash))
			}
			seenSnap[s.Hash] = s.TopologicalOrder
			back, err := store.ReadSnapshot(s.Hash)
			if err != nil || back == nil || back.TopologicalOrder != s.TopologicalOrder {
				problems = append(problems, fmt.Sprintf("snapshot %s lookup by hash disagrees with its topology position %d", s.Hash, s.TopologicalOrder))
			}
			for _, txh := range s.Transactions {
				tx, fin, err := store.ReadTransaction(txh)
				if err != nil || tx == nil {
					problems = append(problems, fmt.Sprintf("finalized transaction %s of snapshot %s has no stored body (%v)", txh, s.Hash, err))
					continue
				}
				if fin == "" {
					problems = append(problems, fmt.Sprintf("transaction %s of stored snapshot %s has no finalization record", txh, s.Hash))
					continue
				}
				finalized++
				fh, _ := crypto.HashFromString(fin)
				fs, err := store.ReadSnapshot(fh)
				if err != nil || fs == nil {
					problems = append(problems, fmt.Sprintf("finalization record of %s names snapshot %s which is not stored", txh, fin))
				} else if !slices.Contains(fs.Transactions, txh) {
					problems = append(problems, fmt.Sprintf("finalization record of %s names snapshot %s which does not contain it", txh, fin))
				}
				for i, o := range tx.Outputs {
					switch o.Type {
					case common.OutputTypeWithdrawalSubmit, common.OutputTypeCustodianSlashNodes:
						continue
					}
					u, err := store.ReadUTXOLock(txh, uint(i))
					if err != nil || u == nil {
						problems = append(problems, fmt.Sprintf("output %s:%d of a finalized transaction has no output record", txh, i))
					}
				}
			}
		}
		offset = snaps[len(snaps)-1].TopologicalOrder + 1
	}
	// finalization records whose snapshot or body is missing
	if bs, ok := store.(*storage.BadgerStore); ok {
		for k, v := range bs.VerifDump("FINALIZATION") {
			var txh, sh crypto.Hash
			copy(txh[:], []byte(k)[len("FINALIZATION"):])
			copy(sh[:], v)
			tx, _, err := store.ReadTransaction(txh)
			if err != nil || tx == nil {
				problems = append(problems, fmt.Sprintf("finalization record for %s without stored body", txh))
			}
			if _, ok := seenSnap[sh]; !ok {
				problems = append(problems, fmt.Sprintf("finalization record for %s names snapshot %s which has no topology entry", txh, sh))
			}
		}
	}
	return
}

type vC22Step struct {
	kind  string
	chain crypto.Hash
	txs   []*common.VersionedTransaction
	specs map[crypto.Hash][]verifgen.OutSpec
	ts    uint64
}

// TestVerif_C22: restart after a crash at any write boundary yields a consistent ledger.
func TestVerif_C22(t *testing.T) {
	r := verifkit.Start(t, "C22", "fault_enumeration")
	r.SetRule("one W-feed run over 7 chains mixing admission (QueueTransaction), local validation+lock+persist, round transitions, finalization, cache retrieval and " +
		"work/space writes, with every mutating storage call recorded. At the selected call boundaries (quick: an even sample of every call type plus every boundary of the last step; " +
		"thorough: every boundary) the on-disk Badger directory is copied as it is at that instant (what a process kill leaves) and a fresh replica is started on the copy: " +
		"SetupNode must succeed, the graph validator must report 0 invalid entries, a scan must find body/outputs/finalization for every finalized transaction and unique " +
		"topology positions, and re-feeding the in-flight snapshot must not crash. A second phase finalizes a node pledge, the acceptance of the new node (round zero and one of a new chain) " +
		"and a node removal with EVERY boundary cut; a third phase does the same for a universal mint on a ledger of its own. non-trivial = distinct (call type, boundary index) cuts that were restarted")
	r.Assume("the copy of the open Badger directory at a quiescent point (single driver goroutine, call boundary) equals what a process kill would leave; torn writes inside one Badger commit are Badger's contract")
	rng := r.Rand()
	label := fmt.Sprintf("c22-%d", r.Seed)
	scratch := t.TempDir()
	live := filepath.Join(scratch, "live")
	var px *verifProxy
	f := verifNewFeed(t, label, 7, rng, live, func(bs *storage.BadgerStore) storage.Store { px = newVerifProxy(bs); return px })
	defer func() { f.stop() }()
	w := verifgen.NewWallet(label, rng, &f.net.Custodian, 5)
	assets := verifgen.Assets()
	steps := r.N(40, 200)

	// Pass 1 decides which boundaries to cut: to keep one pass, choose by call type counters on the fly.
	perTypeBudget := r.N(4, 1<<30)
	seenType := map[string]int{}
	typeStride := map[string]int{}
	cutCount, restarted := 0, 0
	var current *vC22Step
	firstFinal := map[crypto.Hash]crypto.Hash{} // transaction -> snapshot that finalized it first (recorded after the delivery returned)
	var finalizedTxs []*common.VersionedTransaction
	onChain := map[string]bool{}  // transaction|chain pairs already written (a chain never repeats a transaction)
	var inflight *common.Snapshot // certified snapshot being delivered when the cut is taken
	var inflightTxs []*common.VersionedTransaction
	totalBudget := r.N(44, 1<<30)
	tail := false

	check := func(idx int, method string) {
		cutCount++
		r.Eval()
		run := filepath.Join(scratch, fmt.Sprintf("cut-%d", idx))
		if err := verifCopyDir(live, run); err != nil {
			t.Fatalf("copy: %v", err)
		}
		defer os.RemoveAll(run)
		var f2 *verifFeed
		var err error
		kind := "idle"
		if current != nil {
			kind = current.kind
		}
		where := fmt.Sprintf("before:%s|during:%s", method, kind)
		// every other restart inside a delivery happens while the local clock is still a little behind the timestamp of
		// the snapshot that was being delivered (its proposer's clock ran ahead)
		if inflight != nil && idx%2 == 1 {
			clock.MockDiff(-time.Since(time.Unix(0, int64(inflight.Timestamp))) - 25*time.Second)
			defer clock.Reset()
			where += "|local-clock-behind-the-interrupted-snapshot"
			r.Count("restarts_with_the_local_clock_behind_the_interrupted_snapshot", 1)
		}
		if panicked, pv, stack := verifkit.Guard(func() { f2, err = verifFeedOn(t, f.net, r.Fork("c22-restart", idx), run, nil) }); panicked {
			r.Violation("C22|restart-panics|"+verifkit.PanicSite(stack)+"|"+where, fmt.Sprintf("node setup panics after a stop %s: %v", where, pv),
				map[string]any{"boundary": idx, "method": method, "step": kind, "panic": fmt.Sprint(pv), "calls_tail": vC22Tail(px.calls, 12)})
			return
		}
		if err != nil {
			r.Violation("C22|restart-failed|"+where, fmt.Sprintf("node does not restart after a stop %s: %v", where, err),
				map[string]any{"boundary": idx, "method": method, "step": kind, "error": err.Error(), "calls_tail": vC22Tail(px.calls, 12)})
			return
		}
		defer f2.stop()
		restarted++
		r.Nontrivial(fmt.Sprintf("%s|%d", method, idx))
		r.Count("restarted_before_"+method, 1)
		total, invalid, err := f2.node.persistStore.ValidateGraphEntries(f2.node.networkId, 100000)
		if err != nil || invalid != 0 {
			r.Violation("C22|graph-validator|"+where, fmt.Sprintf("graph validator reports %d/%d invalid entries (err %v) after a stop %s", invalid, total, err, where),
				map[string]any{"boundary": idx, "method": method, "step": kind, "calls_tail": vC22Tail(px.calls, 12)})
			return
		}
		problems, fin, pos := vC22Scan(f2)
		for txh, sh := range firstFinal {
			_, got, err := f2.node.persistStore.ReadTransaction(txh)
			if err != nil || got != sh.String() {
				problems = append(problems, fmt.Sprintf("finalization record of a transaction finalized before the stop changed: first snapshot %s, now %q", sh, got))
				break
			}
		}
		r.Count("finalized_transactions_scanned", fin)
		r.Count("topology_positions_scanned", pos)
		if len(problems) > 0 {
			cls := problems[0]
			if i := strings.IndexAny(cls, "0123456789"); i > 0 {
				cls = strings.TrimSpace(cls[:i])
			}
			r.Violation("C22|scan|"+strings.ReplaceAll(cls, " ", "-")+"|"+where, fmt.Sprintf("after a stop %s and restart: %s", where, problems[0]),
				map[string]any{"boundary": idx, "method": method, "step": kind, "problems": problems, "calls_tail": vC22Tail(px.calls, 12)})
			return
		}
		// resume: what peers' sync does — the in-flight certified snapshot arrives again
		if inflight != nil {
			cp := *inflight
			d := f2.deliver(&cp, inflightTxs)
			if !d.Finalized && !d.Panicked && d.Err == nil {
				cp2 := *inflight
				d = f2.deliver(&cp2, inflightTxs)
			}
			if d.Panicked || d.Err != nil {
				site := "error"
				if d.Panicked {
					site = verifkit.PanicSite(d.Stack)
				}
				r.Violation("C22|resume|"+site+"|"+where, fmt.Sprintf("re-feeding the in-flight snapshot after a stop %s crashed: %v %v", where, d.Err, d.PanicVal),
					map[string]any{"boundary": idx, "method": method, "step": kind, "calls_tail": vC22Tail(px.calls, 12)})
				return
			}
			if d.Finalized {
				r.Count("resumed_snapshot_finalized", 1)
			} else {
				r.Count("resumed_snapshot_not_finalized_(already_final_or_stale)", 1)
			}
		}
		if r.SampleCount() < 5 {
			r.Sample(map[string]any{"boundary": idx, "before_call": method, "during_step": kind, "finalized_transactions": fin, "topology_positions": pos, "restart": "ok"})
		}
	}

	onCall := func(idx int, method string, before bool) {
		if !before {
			return
		}
		seenType[method]++
		take := false
		if r.Thorough() {
			take = true
		} else {
			if typeStride[method] == 0 {
				typeStride[method] = 1
			}
			// even sample: the 1st, then every stride-th occurrence; stride doubles when the budget of the type is used up
			n := seenType[method]
			if (n-1)%typeStride[method] == 0 {
				take = true
				if (n-1)/typeStride[method]+1 >= perTypeBudget {
					typeStride[method] *= 2
				}
			}
			if tail {
				take = true
			}
			if cutCount >= totalBudget && !tail {
				take = false
			}
		}
		if take {
			check(idx, method)
		}
	}

	px.onCall = onCall
	for i := 0; i < steps; i++ {
		if i >= steps-1 {
			tail = true
		}
		st := &vC22Step{specs: map[crypto.Hash][]verifgen.OutSpec{}}
		st.chain = f.net.NodeIds[rng.Intn(len(f.net.NodeIds))]
		nb := 1 + rng.Intn(3)
		for b := 0; b < nb; b++ {
			var tx *common.VersionedTransaction
			var specs []verifgen.OutSpec
			if len(w.Outs) < 3 || rng.Intn(3) == 0 {
				if b > 0 {
					continue
				}
				tx, specs = w.Deposit(assets[rng.Intn(len(assets))], big.NewInt(int64(1+rng.Intn(1e8))))
			} else if rng.Intn(5) == 0 {
				tx, specs, _ = w.TransferWithdrawal(1+rng.Intn(2), 1+rng.Intn(3), true)
			} else {
				tx, specs, _ = w.Transfer(1+rng.Intn(2), 1+rng.Intn(3), true)
			}
			if tx == nil {
				continue
			}
			st.txs = append(st.txs, tx)
			st.specs[tx.PayloadHash()] = specs
		}
		if len(st.txs) == 0 {
			continue
		}
		if len(finalizedTxs) > 0 && rng.Intn(5) == 0 {
			// what happens when two chains include the same transaction: it arrives again in this chain's snapshot
			old := finalizedTxs[rng.Intn(len(finalizedTxs))]
			dup := false
			for _, tx := range st.txs {
				dup = dup || tx.PayloadHash() == old.PayloadHash()
			}
			if !dup && old.IsSnapshotBatchable() && !onChain[old.PayloadHash().String()+st.chain.String()] {
				st.txs = append(st.txs, old)
				r.Count("steps_repeating_a_finalized_transaction", 1)
			}
		}
		st.ts = f.tick(uint64(1800 * time.Millisecond))
		current = st
		inflight, inflightTxs = nil, nil
		mode := rng.Intn(4)
		// admission through the RPC entry (validate + queue) for some transactions
		if mode == 0 || mode == 1 {
			st.kind = "admission"
			for _, tx := range st.txs {
				if _, err := f.node.QueueTransaction(tx); err != nil {
					r.Count("admission_rejected", 1)
				} else {
					r.Count("admitted", 1)
				}
			}
			if rng.Intn(2) == 0 {
				st.kind = "cache-retrieval"
				if _, err := f.node.persistStore.CacheRetrieveTransactions(1 + rng.Intn(5)); err != nil {
					r.Count("retrieve_errors", 1)
				}
			}
		}
		hashes := make([]crypto.Hash, len(st.txs))
		for k, tx := range st.txs {
			hashes[k] = tx.PayloadHash()
		}
		s, err := f.nextSnapshot(st.chain, hashes, st.ts)
		if err != nil {
			r.Count("snapshot_build_skipped", 1)
			continue
		}
		if mode == 1 || mode == 2 { // the replica signs the proposal first: local validation + lock + persist
			st.kind = "local-validation"
			for _, tx := range st.txs {
				_ = f.node.persistStore.CacheStoreTransaction(tx)
			}
			if _, _, err := f.node.validateSnapshotTransaction(s, false); err != nil {
				r.Count("local_validation_rejected", 1)
				continue
			}
			r.Count("locally_validated", 1)
		}
		if _, err := f.sign(s, rng.Intn(2)); err != nil {
			r.Count("sign_errors", 1)
			continue
		}
		st.kind = "finalization"
		inflight, inflightTxs = s, st.txs
		cp := *s
		d := f.deliver(&cp, st.txs)
		if !d.Finalized && !d.Panicked && d.Err == nil {
			cp2 := *s
			d = f.deliver(&cp2, st.txs)
		}
		if d.Panicked || d.Err != nil {
			t.Fatalf("live run failed at step %d: %v %v", i, d.Err, d.PanicVal)
		}
		if d.Finalized {
			r.Count("snapshots_finalized_live", 1)
			for _, tx := range st.txs {
				w.Applied(tx, st.specs[tx.PayloadHash()])
				onChain[tx.PayloadHash().String()+st.chain.String()] = true
				if _, ok := firstFinal[tx.PayloadHash()]; !ok {
					firstFinal[tx.PayloadHash()] = s.Hash
					finalizedTxs = append(finalizedTxs, tx)
				}
			}
		} else {
			r.Count("snapshots_not_finalized_live", 1)
		}
		inflight, inflightTxs = nil, nil
		// the aggregator writes for closed rounds of this chain (what AggregateMintWork / AggregateRoundSpace do)
		st.kind = "work-and-space"
		chain := f.chain(st.chain)
		off, err := f.node.persistStore.ReadWorkOffset(st.chain)
		if err == nil && chain.State != nil && off < chain.State.CacheRound.Number {
			round := off
			if works, err := f.node.persistStore.ReadSnapshotWorksForNodeRound(st.chain, round); err == nil && len(works) > 0 {
				if err := f.node.persistStore.WriteRoundWork(st.chain, round, works, len(works[0].Signers) > 0); err == nil {
					r.Count("round_work_written", 1)
				}
			}
			if next, err := f.node.persistStore.ReadSnapshotWorksForNodeRound(st.chain, off+1); err == nil && len(next) > 0 && off+1 < chain.State.CacheRound.Number {
				if err := f.node.persistStore.WriteRoundWork(st.chain, off+1, next, len(next[0].Signers) > 0); err == nil {
					r.Count("round_work_written", 1)
				}
			}
			_ = f.node.persistStore.WriteRoundSpaceAndState(&common.RoundSpace{NodeId: st.chain, Batch: 0, Round: off})
		}
		current = nil
	}
	// Phase 2: membership operations (pledge of a new node, its acceptance = round zero and round one of a
	// brand-new chain, then a node removal); every boundary of their finalization is cut.
	tail = true
	consensusStep := func(kind string, s *common.Snapshot, txs []*common.VersionedTransaction) bool {
		current = &vC22Step{kind: "finalization:" + kind}
		inflight, inflightTxs = s, txs
		defer func() { inflight, inflightTxs, current = nil, nil, nil }()
		cp := *s
		d := f.deliver(&cp, txs)
		if !d.Finalized && !d.Panicked && d.Err == nil && kind != "node-accept" {
			cp2 := *s
			d = f.deliver(&cp2, txs)
		}
		if d.Panicked || d.Err != nil {
			t.Fatalf("live run failed at %s: %v %v", kind, d.Err, d.PanicVal)
		}
		if st, _ := f.node.persistStore.ReadSnapshot(s.Hash); st == nil {
			r.Count("consensus_snapshots_not_finalized_live_"+kind, 1)
			return false
		}
		r.Count("consensus_snapshots_finalized_live_"+kind, 1)
		for _, tx := range txs {
			firstFinal[tx.PayloadHash()] = s.Hash
		}
		return true
	}
	prepared := func(chainId crypto.Hash, tx *common.VersionedTransaction, ts uint64) *common.Snapshot {
		s, err := f.nextSnapshot(chainId, []crypto.Hash{tx.PayloadHash()}, ts)
		if err != nil {
			r.Count("consensus_snapshot_build_skipped", 1)
			return nil
		}
		if _, err := f.sign(s, rng.Intn(2)); err != nil {
			r.Count("sign_errors", 1)
			return nil
		}
		return s
	}
	px.onCall, tail = nil, false
	eid, ptx, pts, cand, err := f.buildPledge(w) // includes an ordinary funding deposit (not cut)
	px.onCall = onCall
	tail = true
	if err != nil {
		r.Count("pledge_not_buildable", 1)
		t.Logf("pledge not buildable: %v", err)
	} else if s := prepared(eid, ptx, pts); s != nil && consensusStep("node-pledge", s, []*common.VersionedTransaction{ptx}) {
		as, atx, err := f.buildAccept(cand)
		if err == nil {
			_, err = f.sign(as, rng.Intn(2))
		}
		if err != nil {
			r.Count("accept_not_buildable", 1)
			t.Logf("accept not buildable: %v", err)
		} else {
			consensusStep("node-accept", as, []*common.VersionedTransaction{atx})
		}
	}
	f.cursor += uint64(13 * time.Hour)
	rts := f.atHour(13+rng.Intn(6), 50*time.Minute)
	if rid, rtx, err := f.buildNodeRemove(rts); err != nil {
		r.Count("remove_not_buildable", 1)
		t.Logf("remove not buildable: %v", err)
	} else if s := prepared(rid, rtx, rts); s != nil {
		consensusStep("node-remove", s, []*common.VersionedTransaction{rtx})
	}
	px.onCall = nil
	types := map[string]int{}
	for _, c := range px.calls {
		types[c.Method]++
	}
	callsFirst := len(px.calls)
	// Phase 3: a universal mint (own ledger on an epoch five years back, two work days and the round-work / space
	// aggregation written first, uncut), every boundary of its finalization cut
	f.stop()
	live = filepath.Join(scratch, "live-mint")
	firstFinal = map[crypto.Hash]crypto.Hash{}
	inflight, inflightTxs, current = nil, nil, nil
	f = verifNewFeedAt(t, label+"m", 7, rng, live, func(bs *storage.BadgerStore) storage.Store { px = newVerifProxy(bs); return px }, verifMintEpochUnix(), 1707)
	w = verifgen.NewWallet(label+"m", rng, &f.net.Custodian, 5)
	tail = false
	if mc, mtx, mts, err := f.buildMint(w); err != nil {
		r.Count("mint_not_buildable", 1)
		t.Logf("mint not buildable: %v", err)
	} else if s := prepared(mc, mtx, mts); s != nil {
		px.onCall = onCall
		tail = true
		consensusStep("mint", s, []*common.VersionedTransaction{mtx})
		// and one ordinary snapshot after it
		dep, _ := w.Deposit(assets[1], big.NewInt(12345))
		if os2 := prepared(f.net.NodeIds[1], dep, f.tick(uint64(2*time.Second))); os2 != nil {
			consensusStep("ordinary-after-mint", os2, []*common.VersionedTransaction{dep})
		}
	}
	px.onCall = nil
	for _, c := range px.calls {
		types[c.Method]++
	}
	_ = callsFirst
	r.Note("storage_calls_recorded", callsFirst+len(px.calls))
	r.Note("storage_call_types", types)
	r.Note("boundaries_cut", cutCount)
	r.Note("restarts_ok", restarted)
	if r.Thorough() {
		r.SetExhaustive(true)
	}
	if restarted < 10 {
		r.Inconclusive(fmt.Sprintf("only %d restarts", restarted))
	}
	r.Finish()
}

func vC22Tail(calls []verifCall, n int) []string {
	if len(calls) > n {
		calls = calls[len(calls)-n:]
	}
	var out []string
	for _, c := range calls {
		out = append(out, fmt.Sprintf("%d:%s(%s)", c.Index, c.Method, c.Note))
	}
	return out
}
