package kernel

import (
	"fmt"
	"testing"

	"github.com/MixinNetwork/mixin/crypto"
	"github.com/MixinNetwork/mixin/verifkit"
)

// TestVerif_C12 (kernel part): the node's retention of pre-shared nonces never
// hands one nonce handle out for two different snapshots.
func TestVerif_C12(t *testing.T) {
	r := verifkit.Start(t, "C12", "exploration")
	r.SetRule("kernel part: random sequences of full-challenge lookups (cosiRetrieveRandom) over a pool of pre-shared commitments and snapshot hashes on an external chain, " +
		"including repeats, commitments reused for other snapshots, several commitments for one snapshot and re-preparation of the random pool. Oracle: a returned handle carries the " +
		"requested commitment; once a commitment's handle was handed out for one snapshot it is never handed out for another snapshot; a repeated lookup for the same snapshot " +
		"returns the same handle or nothing; and the handle answers only one challenge. non-trivial = distinct (snapshot, commitment, outcome) lookups")
	rng := r.Rand()
	trials := r.N(400, 20000)
	for trial := 0; trial < trials; trial++ {
		peer := crypto.Blake3Hash([]byte(fmt.Sprint("peer", trial)))
		self := crypto.Blake3Hash([]byte(fmt.Sprint("self", trial)))
		chain := &Chain{node: &Node{IdForNetwork: self}, ChainId: peer, CosiRandoms: map[crypto.Key]*crypto.CosiNonce{}, UsedRandoms: map[crypto.Hash]*crypto.CosiNonce{}}
		nr := 2 + rng.Intn(5)
		var commitments []crypto.Key
		for i := 0; i < nr; i++ {
			n := crypto.CosiCommitNonce(crypto.RandReader())
			chain.CosiRandoms[n.Public()] = n
			commitments = append(commitments, n.Public())
		}
		unknown := crypto.CosiCommitNonce(crypto.RandReader()).Public()
		var snaps []crypto.Hash
		for i := 0; i < 2+rng.Intn(4); i++ {
			snaps = append(snaps, crypto.Blake3Hash([]byte(fmt.Sprint("snap", trial, i))))
		}
		boundTo := map[crypto.Key]crypto.Hash{}    // commitment -> the snapshot its handle was handed out for
		handleOf := map[string]*crypto.CosiNonce{} // snapshot|commitment -> handle returned first
		ops := 3 + rng.Intn(12)
		for o := 0; o < ops; o++ {
			s := snaps[rng.Intn(len(snaps))]
			c := commitments[rng.Intn(len(commitments))]
			if rng.Intn(10) == 0 {
				c = unknown
			}
			var got *crypto.CosiNonce
			cc := c
			panicked, pv, stack := verifkit.Guard(func() { got = chain.cosiRetrieveRandom(s, peer, &cc) })
			r.Eval()
			if panicked {
				r.Violation("C12|kernel|panic|"+verifkit.PanicSite(stack), fmt.Sprintf("nonce lookup panicked: %v", pv), nil)
				continue
			}
			outcome := "refused"
			if got != nil {
				outcome = "handed-out"
			}
			r.Nontrivial(fmt.Sprintf("%d|%d|%d|%s", trial, indexOfHash(snaps, s), indexOfKey(commitments, c), outcome))
			r.Count("lookups_"+outcome, 1)
			if got == nil {
				continue
			}
			if got.Public() != c {
				r.Violation("C12|kernel|wrong-commitment", "a lookup returned a handle for another commitment than the challenged one", nil)
				continue
			}
			if prev, ok := boundTo[c]; ok && prev != s {
				r.Violation("C12|kernel|nonce-handed-out-for-two-snapshots", "the handle of one pre-shared commitment was handed out for two different snapshots (each may then be answered: nonce reuse)",
					map[string]any{"ops_so_far": o + 1, "commitments": nr, "snapshots": len(snaps)})
				continue
			}
			boundTo[c] = s
			key := s.String() + c.String()
			if h, ok := handleOf[key]; ok && h != got {
				// a different object for the same (snapshot, commitment) is fine only if it shares the single-use state
				r.Count("same_lookup_returned_another_handle_object", 1)
			}
			handleOf[key] = got
		}
		if r.SampleCount() < 3 {
			r.Sample(map[string]any{"commitments": nr, "snapshots": len(snaps), "lookups": ops, "bound": len(boundTo)})
		}
	}
	r.Finish()
}

func indexOfHash(l []crypto.Hash, h crypto.Hash) int {
	for i, x := range l {
		if x == h {
			return i
		}
	}
	return -1
}

func indexOfKey(l []crypto.Key, k crypto.Key) int {
	for i, x := range l {
		if x == k {
			return i
		}
	}
	return -1
}
